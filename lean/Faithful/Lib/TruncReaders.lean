import Faithful.Lib.Trunc
import Faithful.Lib.Bytes
import Faithful.Lib.Varint
import Faithful.Lib.CompactIndex
import Faithful.Lib.Car
import Faithful.Generated.Consts
import Faithful.Generated.ReadSites
import Faithful.Lib.Bucketteer
import Faithful.Lib.GsfaLog

/-!
# C13: every reader of an on-disk file as a `RA.Prog` (reads through `ReadAt`, a short read is an error)

Generic part (namespace `RA`): `bind`, the high-water mark `hw` of a program on a file (the end of the furthest
byte range it asks for), the exact truncation law `truncation_exact` (cut ≥ hw ⇒ same run, cut < hw ⇒ "short read"),
and an `Array` interpreter `runA p a n` (what the driver executes) with `runA_eq : runA p a n = run p (a.toList.take n)`.

Readers (namespace `TR`), each the code path named in its comment:
* `ciGetP`      compactindexsized `Open` + `DB.Lookup` (+ the `indexes.OpenWithReader_*` wrapper checks) — all four kinds
* `bkHasP`      bucketteer `NewReader` + `Reader.Has`
* `btGetP`      blocktimeindex `FromBytes` + `Get` (the REPAIRED decoder: every field read with `io.ReadFull`,
                /verif/fixes/C13-1.patch); `btGetPinned` is the decoder of the pinned tree (`bytes.Reader.Read` accepts
                a short read), kept to state what is wrong with it
* `llReadP`, `llWalkP`  gsfa `LinkedLog.ReadWithSize` and the loop of `GsfaReader.Get`
* `manifestLoad` gsfa `manifest.NewManifest` + the checks `NewEpochFromConfig` makes on it (not a pure `Prog`:
                the opener looks at the file size)
* `carGetP`     `carv2.OpenReader` + `Epoch.GetNodeByOffsetAndSize` / `readNodeFromReaderAtWithOffsetAndSize`
-/

namespace RA

def Prog.bind {α β : Type} : Prog α → (α → Prog β) → Prog β
  | .pure a, g => g a
  | .fail e, _ => .fail e
  | .read off len k, g => .read off len (fun bs => (k bs).bind g)

theorem run_bind {α β : Type} (p : Prog α) (g : α → Prog β) (f : List UInt8) :
    run (p.bind g) f = match run p f with
      | .ok a => run (g a) f
      | .err e => .err e := by
  induction p with
  | pure a => simp [Prog.bind, run]
  | fail e => simp [Prog.bind, run]
  | read off len k ih =>
    simp only [Prog.bind, run]
    cases h : readAt f off len with
    | none => rfl
    | some bs => exact ih bs

/-- end of the furthest byte range the program asks for when run on `f` (including a request that fails) -/
def hw {α : Type} : Prog α → List UInt8 → Nat
  | .pure _, _ => 0
  | .fail _, _ => 0
  | .read off len k, f =>
    match readAt f off len with
    | some bs => max (off + len) (hw (k bs) f)
    | none => off + len

theorem readAt_take_of_le (f : List UInt8) (cut off len : Nat) (h : off + len ≤ cut) :
    readAt (f.take cut) off len = readAt f off len := by
  unfold readAt
  simp only [List.length_take]
  by_cases hf : off + len ≤ f.length
  · have h1 : off + len ≤ min cut f.length := by omega
    simp only [h1, hf, if_true, Option.some.injEq]
    rw [List.drop_take, List.take_take]
    congr 1
    omega
  · have h1 : ¬ off + len ≤ min cut f.length := by omega
    simp [h1, hf]

theorem readAt_take_none (f : List UInt8) (cut off len : Nat) (h : cut < off + len) :
    readAt (f.take cut) off len = none := by
  unfold readAt
  simp only [List.length_take]
  have h1 : ¬ off + len ≤ min cut f.length := by omega
  simp [h1]

/-- **exact truncation law**: a cut at or after the high-water mark changes nothing; a cut before it makes the run
    fail with a short read (it never turns into another answer) -/
theorem truncation_exact {α : Type} (p : Prog α) (f : List UInt8) (cut : Nat) :
    (hw p f ≤ cut → run p (f.take cut) = run p f) ∧
    (cut < hw p f → cut ≤ f.length → run p (f.take cut) = .err "short read") := by
  induction p with
  | pure a => exact ⟨fun _ => rfl, fun h => by simp [hw] at h⟩
  | fail e => exact ⟨fun _ => rfl, fun h => by simp [hw] at h⟩
  | read off len k ih =>
    simp only [hw, run]
    cases hr : readAt f off len with
    | none =>
      simp only
      have hlen : f.length < off + len := by
        unfold readAt at hr
        by_cases hf : off + len ≤ f.length
        · simp [hf] at hr
        · omega
      constructor
      · intro h
        rw [readAt_take_of_le f cut off len h, hr]
      · intro h _
        rw [readAt_take_none f cut off len h]
    | some bs =>
      simp only
      constructor
      · intro h
        have h1 : off + len ≤ cut := by omega
        rw [readAt_take_of_le f cut off len h1, hr]
        exact (ih bs).1 (by omega)
      · intro h hc
        by_cases h1 : off + len ≤ cut
        · rw [readAt_take_of_le f cut off len h1, hr]
          exact (ih bs).2 (by omega) hc
        · rw [readAt_take_none f cut off len (by omega)]

/-- a run that succeeds on the whole file succeeds on a prefix iff every byte it reads lies before the cut -/
theorem succeeds_iff_reads_before_cut {α : Type} (p : Prog α) (f : List UInt8) (cut : Nat) (hc : cut ≤ f.length)
    (a : α) (hok : run p f = .ok a) : run p (f.take cut) = .ok a ↔ hw p f ≤ cut := by
  constructor
  · intro h
    by_cases hle : hw p f ≤ cut
    · exact hle
    · have := (truncation_exact p f cut).2 (by omega) hc
      rw [this] at h
      cases h
  · intro h
    rw [(truncation_exact p f cut).1 h, hok]

/-! ### array interpreter (what the driver executes; reads cost O(len), not O(offset)) -/

/-- `ReadAt` on the first `n` bytes of the array -/
def readAtA (a : Array UInt8) (n off len : Nat) : Option (List UInt8) :=
  if off + len ≤ min n a.size then some (a.extract off (off + len)).toList else none

def runA {α : Type} : Prog α → Array UInt8 → Nat → Res α
  | .pure x, _, _ => .ok x
  | .fail e, _, _ => .err e
  | .read off len k, a, n =>
    match readAtA a n off len with
    | some bs => runA (k bs) a n
    | none => .err "short read"

theorem readAtA_eq (a : Array UInt8) (n off len : Nat) : readAtA a n off len = readAt (a.toList.take n) off len := by
  unfold readAtA readAt
  simp only [List.length_take, Array.length_toList]
  by_cases h : off + len ≤ min n a.size
  · simp only [h, if_true, Option.some.injEq]
    rw [List.drop_take, List.take_take]
    have : min len (n - off) = len := by omega
    rw [this]
    simp [List.extract_eq_take_drop]
  · simp [h]

theorem runA_eq {α : Type} (p : Prog α) (a : Array UInt8) (n : Nat) : runA p a n = run p (a.toList.take n) := by
  induction p with
  | pure x => rfl
  | fail e => rfl
  | read off len k ih =>
    simp only [runA, run, readAtA_eq]
    cases readAt (a.toList.take n) off len with
    | none => rfl
    | some bs => exact ih bs

end RA

namespace TR
open RA B

abbrev Bytes := List UInt8
abbrev MetaKVs := List (Bytes × Bytes)

def metaGet (m : MetaKVs) (key : Bytes) : Option Bytes := (m.find? fun kv => kv.1 == key).map (·.2)

def resOk {α : Type} : Res α → Option α
  | .ok a => some a
  | .err _ => none

/-! ## compactindexsized: `Open` + `DB.Lookup` (cid→offset-and-size, slot→cid, sig→cid, pubkey→offset-and-size) -/

/-- `Header.Load` on the header buffer (the tail of `CI.openB`) -/
def ciLoad (size : Nat) (buf : Bytes) : Prog CI.DB :=
  if size < 12 then .fail "invalid header length"
  else if size > buf.length then .fail "invalid header length"
  else if buf.length < 25 then .fail "panic: index out of range [24]"
  else
    if buf.getD 24 0 ≠ UInt8.ofNat Generated.compactindexsizedVersion then .fail "unsupported index version" else
    match CI.parseMeta (buf.drop 25) with
    | none => .fail "failed to unmarshal metadata"
    | some m =>
      if unle (slice buf 12 8) = 0 then .fail "value size not set"
      else if unle (slice buf 20 4) = 0 then .fail "number of buckets not set"
      else .pure ⟨unle (slice buf 12 8), unle (slice buf 20 4), 12 + size, m⟩

/-- `compactindexsized.Open`: two `ReadAt`s, each `n < len ⇒ return err` -/
def ciOpenP : Prog CI.DB :=
  .read 0 12 fun ms =>
    if ms.take 8 ≠ CI.magic then .fail "invalid magic" else
    .read 0 (12 + unle (ms.drop 8)) fun buf => ciLoad (unle (ms.drop 8)) buf

/-- `searchEytzinger` over `Bucket.loadEntry` (`ReadAt` on the bucket's `SectionReader`, `n != len ⇒ return err`) -/
def ciSearchP (base strd hashLen ow numEntries x : Nat) : Nat → Nat → Prog CI.Look
  | 0, _ => .pure .notFound
  | fuel+1, index =>
    if index < numEntries then
      if index * strd + strd > numEntries * strd then .fail "EOF"
      else .read (base + index * strd) strd fun eb =>
        if unle (eb.take hashLen) = x then .pure (.found ((eb.drop hashLen).take ow))
        else ciSearchP base strd hashLen ow numEntries x fuel
          (if unle (eb.take hashLen) < x then 2*index+2 else 2*index+1)
    else .pure .notFound

/-- `DB.Lookup`: `GetBucket` (bounds check, `BucketHeader.readFrom`) then `Bucket.Lookup` -/
def ciLookupP (hf : CI.HF) (db : CI.DB) (key : Bytes) : Prog CI.Look :=
  match hf.bucket key db.numBuckets with
  | none => .pure .hang
  | some i =>
    if i ≥ db.numBuckets then .fail "out of bounds bucket index" else
    .read (db.headerSize + Generated.bucketHdrLen * i) Generated.bucketHdrLen fun bh =>
      let numEntries := unle (slice bh 4 4)
      let hashLen := (bh.getD 8 0).toNat
      let sh := (64 + 256 - (hashLen * 8) % 256) % 256
      let mask : Nat := if sh ≥ 64 then 0 else (2^64 - 1) / 2^sh
      ciSearchP (unle (slice bh 10 6)) (CI.stride db.valueSize) hashLen (db.valueSize % 256) numEntries
        ((hf.entry64 (unle (slice bh 0 4)) key) &&& mask) (numEntries + 1) 0

/-- the optional first read of `indexes.OpenWithReader_SlotToCid / _SigToCid`: `IsFileOldFormat` -/
def oldFormatP (pre : Bool) : Prog Unit :=
  if pre then .read 0 8 fun m => if m = Generated.indexesOldMagic then .fail "deprecated index format (not modelled)" else .pure ()
  else .pure ()

/-- a typed index reader: `OpenWithReader_X` (old-format probe, `Open`, metadata / kind checks `chk`) and `Get` -/
def ciGetP (pre : Bool) (chk : CI.DB → Option String) (hf : CI.HF) (key : Bytes) : Prog CI.Look :=
  (oldFormatP pre).bind fun _ =>
  ciOpenP.bind fun db =>
    match chk db with
    | some e => .fail e
    | none => ciLookupP hf db key

/-- `getDefaultMetadata` + `AssertIndexKind`: the four metadata entries are present and the kind is the expected one -/
def kindChk (kind : Bytes) (db : CI.DB) : Option String :=
  match metaGet db.metaKVs Generated.metaKeyKind with
  | none => some "metadata.kind is empty"
  | some k =>
    if (metaGet db.metaKVs Generated.metaKeyEpoch).isNone then some "metadata.epoch is empty"
    else if (metaGet db.metaKVs Generated.metaKeyRootCid).isNone then some "metadata.rootCid is empty"
    else if (metaGet db.metaKVs Generated.metaKeyNetwork).isNone then some "metadata.network is empty"
    else if k ≠ kind then some "unexpected index kind" else none

/-! ### agreement with the reader of `Faithful/Lib/CompactIndex.lean` (the one C04 compares with the real code) -/

theorem ci_rd_eq (f : Array UInt8) (off len : Nat) : CI.rd f off len = readAt f.toList off len := by
  unfold CI.rd readAt
  simp only [Array.length_toList]
  by_cases h : off + len ≤ f.size
  · simp [h, List.extract_eq_take_drop]
  · simp [h]

def lookOf : Res CI.Look → CI.Look
  | .ok l => l
  | .err _ => .err

theorem ciSearch_agrees (f : Array UInt8) (base strd hashLen ow numEntries x : Nat) (fuel index : Nat) :
    lookOf (run (ciSearchP base strd hashLen ow numEntries x fuel index) f.toList) =
      CI.searchB (fun idx =>
        if idx * strd + strd > numEntries * strd then none else
        match readAt f.toList (base + idx * strd) strd with
        | none => none
        | some eb => some (unle (eb.take hashLen), (eb.drop hashLen).take ow)) x numEntries fuel index := by
  induction fuel generalizing index with
  | zero => simp [ciSearchP, CI.searchB, run, lookOf]
  | succ fuel ih =>
    unfold ciSearchP CI.searchB
    by_cases h1 : index < numEntries
    · simp only [h1, if_true]
      by_cases h2 : index * strd + strd > numEntries * strd
      · simp [h2, run, lookOf]
      · simp only [h2, if_false, run]
        cases hr : readAt f.toList (base + index * strd) strd with
        | none => simp [lookOf]
        | some eb =>
          simp only
          by_cases h3 : unle (eb.take hashLen) = x
          · simp [h3, run, lookOf]
          · simp only [h3, if_false]
            exact ih _
    · simp [h1, run, lookOf]

theorem ciLookup_agrees (hf : CI.HF) (f : Array UInt8) (db : CI.DB) (key : Bytes) :
    lookOf (run (ciLookupP hf db key) f.toList) = CI.lookupB hf f db key := by
  unfold ciLookupP CI.lookupB
  cases hb : hf.bucket key db.numBuckets with
  | none => simp [run, lookOf]
  | some i =>
    simp only
    by_cases h1 : i ≥ db.numBuckets
    · simp [h1, run, lookOf]
    · simp only [h1, if_false, run, ci_rd_eq]
      cases hr : readAt f.toList (db.headerSize + Generated.bucketHdrLen * i) Generated.bucketHdrLen with
      | none => simp [lookOf]
      | some bh =>
        simp only
        rw [ciSearch_agrees]
        rfl

theorem ciOpen_agrees (f : Array UInt8) :
    resOk (run ciOpenP f.toList) = (match CI.openB f with | .ok db => some db | _ => none) := by
  unfold ciOpenP CI.openB
  simp only [run, ci_rd_eq]
  cases h1 : readAt f.toList 0 12 with
  | none => simp [resOk]
  | some ms =>
    simp only
    by_cases hm : ms.take 8 ≠ CI.magic
    · simp [hm, run, resOk]
    · simp only [hm, if_false, run]
      cases h2 : readAt f.toList 0 (12 + unle (ms.drop 8)) with
      | none => simp [resOk]
      | some buf =>
        simp only [ciLoad]
        repeat' split
        all_goals simp_all [run, resOk]

/-! ## bucketteer (sig-exists): `NewReader` + `Reader.Has` -/

/-- the `prefix -> offset` loop of `readHeader`, keeping only the entry of prefix `p` (a later entry overwrites an
    earlier one); `none` = the table is shorter than `n` entries (decoder error) -/
def bkFind (p : Nat) : Nat → Bytes → Option Nat → Option (Option Nat)
  | 0, _, acc => some acc
  | n+1, b0 :: b1 :: o0 :: o1 :: o2 :: o3 :: o4 :: o5 :: o6 :: o7 :: rest, acc =>
    bkFind p n rest (if b0.toNat + 256 * b1.toNat = p then some (unle [o0, o1, o2, o3, o4, o5, o6, o7]) else acc)
  | _+1, _, _ => none

/-- `searchEytzinger` over `readUint64Le` on the bucket's `SectionReader` (`err != nil ⇒ return err`) -/
def bkSearchP (base lim x max : Nat) : Nat → Nat → Prog Bool
  | 0, _ => .pure false
  | fuel+1, index =>
    if index < max then
      if index * 8 + 8 ≤ lim then
        .read (base + index * 8) 8 fun hb =>
          if unle hb = x then .pure true
          else bkSearchP base lim x max fuel (if unle hb < x then 2*index+2 else 2*index+1)
      else .fail "EOF"
    else .pure false

/-- `NewReader` (`isReaderEmpty`, `readHeaderSize`, `readHeader`: three `ReadAt`s, then the in-memory decoder), the
    metadata checks `chk` of the loader, and `Has` for prefix `p` and wanted hash `x` -/
def bkHasP (chk : MetaKVs → Option String) (p x : Nat) : Prog Bool :=
  .read 0 1 fun _ =>
  .read 0 4 fun hs =>
  .read 4 (unle hs) fun buf =>
    if buf.take 8 ≠ Generated.bucketteerMagic then .fail "invalid magic" else
    if ((buf.drop 8).take 8).length < 8 then .fail "failed to read version" else
    if unle ((buf.drop 8).take 8) ≠ Generated.bucketteerVersion then .fail "unexpected version" else
    match BK.parseMeta .v2 (buf.drop 16) with
    | none => .fail "failed to unmarshal metadata"
    | some (m, r2) =>
      match chk m with
      | some e => .fail e
      | none =>
        if (r2.take 8).length < 8 then .fail "failed to read numPrefixes" else
        match bkFind p (unle (r2.take 8)) (r2.drop 8) none with
        | none => .fail "failed to read prefixes"
        | some none => .pure false
        | some (some off) =>
          if off = 2^64 - 1 then .pure false
          else if off ≥ 2^63 then .fail "EOF"
          else .read (unle hs + 4 + off) 4 fun nb =>
            bkSearchP (unle hs + 4 + off + 4) ((unle nb * 8) % 2^32) x (unle nb) (unle nb + 1) 0

/-! ## slot-to-blocktime -/

structure BT where
  start : Nat
  stop : Nat
  epoch : Nat
  cap : Nat
  values : Bytes

/-- `Index.unmarshalBinary`, REPAIRED (every field through `io.ReadFull`): header fields, then `capacity` 4-byte
    values — all present or an error -/
def btOpenP : Prog BT :=
  .read 0 14 fun m =>
    if m ≠ Generated.blocktimeMagic then .fail "invalid magic" else
    .read 14 8 fun s => .read 22 8 fun e => .read 30 8 fun ep =>
      if unle s / Generated.epochLen ≠ unle e / Generated.epochLen then .fail "start and end slots must be in the same epoch"
      else if unle s / Generated.epochLen ≠ unle ep then .fail "epoch mismatch"
      else .read 38 8 fun c => .read 46 (4 * unle c) fun vals => .pure ⟨unle s, unle e, unle ep, unle c, vals⟩

/-- `Index.Get(slot)` -/
def btValue (ix : BT) (slot : Nat) : Prog Nat :=
  if slot < ix.start ∨ slot > ix.stop then .fail "slot out of range"
  else if slot - ix.start ≥ ix.cap then .fail "panic: index out of range"
  else .pure (unle (slice ix.values (4 * (slot - ix.start)) 4))

/-- `blocktimeindex.FromBytes/FromFile/FromReader` + `Get` -/
def btGetP (slot : Nat) : Prog Nat := btOpenP.bind fun ix => btValue ix slot

/-- the server's load path (epoch.go): `ReadAllFromReaderAt(file, size)` — one exact-size `ReadAt` — and only then
    the decoder, whatever it is -/
def exactThenP {α : Type} (size : Nat) (decode : Bytes → Res α) : Prog α :=
  .read 0 size fun buf => match decode buf with
    | .ok a => .pure a
    | .err e => .fail e

/-- `bytes.Reader.Read(buf[len])` at `pos`: `io.EOF` only when nothing is left, otherwise the bytes that are there
    (the rest of the buffer stays zero) and NO error -/
def shortRead (f : Bytes) (pos len : Nat) : Option (Bytes × Nat) :=
  if pos ≥ f.length then none else
  some ((f.drop pos).take len ++ List.replicate (len - ((f.drop pos).take len).length) 0, pos + ((f.drop pos).take len).length)

def btValuesPinned (f : Bytes) : Nat → Nat → Option (List Nat)
  | 0, _ => some []
  | n+1, pos =>
    match shortRead f pos 4 with
    | none => none
    | some (b, p') => (btValuesPinned f n p').map (unle b :: ·)

/-- the decoder of the PINNED tree (`reader.Read`, only the error looked at) followed by `Get(slot)`; the epoch
    consistency checks are left out (they do not depend on the cut in the example below) -/
def btGetPinned (f : Bytes) (slot : Nat) : Option Nat :=
  match shortRead f 0 14 with
  | none => none
  | some (m, p1) =>
    if m ≠ Generated.blocktimeMagic then none else
    match shortRead f p1 8 with
    | none => none
    | some (s, p2) =>
      match shortRead f p2 8 with
      | none => none
      | some (e, p3) =>
        match shortRead f p3 8 with
        | none => none
        | some (_, p4) =>
          match shortRead f p4 8 with
          | none => none
          | some (c, p5) =>
            match btValuesPinned f (unle c) p5 with
            | none => none
            | some vs => if slot < unle s ∨ slot > unle e then none else vs[slot - unle s]?

/-! ## gsfa: linked log, manifest -/

/-- the parse of one record (`uvarint(len z + 9) ‖ z ‖ prev`), as in `Gsfa.readWithSize` (repaired reader) -/
def llParse (Z : Gsfa.Zstd) (size : Nat) (rec_ : Bytes) : Prog (List Gsfa.Entry × Gsfa.Ptr) :=
  match Gsfa.uvarint64 rec_ with
  | none => .fail "invalid record"
  | some (l, n) =>
    if n + l ≠ size ∨ l < 9 then .fail "invalid record" else
    match Z.decompress ((rec_.drop n).take ((rec_.drop n).length - 9)) with
    | none => .fail "error while decompressing indexes"
    | some raw =>
      match Gsfa.parseEntries (raw.length + 1) raw with
      | .ok es => .pure (es, Gsfa.ptrOfBytes ((rec_.drop n).drop ((rec_.drop n).length - 9)))
      | .error _ => .fail "failed to parse offset and size"

/-- `LinkedLog.ReadWithSize(offset, size)`: one `ReadAt` (`err != nil ⇒ return err`), then the in-memory parse -/
def llReadP (Z : Gsfa.Zstd) (off size : Nat) : Prog (List Gsfa.Entry × Gsfa.Ptr) :=
  if size > Gsfa.mib256 then .fail "compacted indexes length too large" else
  .read off size (llParse Z size)

/-- the loop of `GsfaReader.Get`: follow the previous-record pointers, newest first; fuel = records visited -/
def llWalkP (Z : Gsfa.Zstd) : Nat → Gsfa.Ptr → Nat → List Gsfa.Entry → Prog (List Gsfa.Entry)
  | 0, _, _, _ => .fail "fuel"
  | fuel+1, next, limit, acc =>
    if next.isZero then .pure acc
    else if acc.length ≥ limit then .pure acc
    else (llReadP Z next.off next.size).bind fun r => llWalkP Z fuel r.2 limit (acc ++ r.1.take (limit - acc.length))

theorem llRead_agrees (Z : Gsfa.Zstd) (f : Bytes) (off size : Nat) :
    resOk (run (llReadP Z off size) f) = (match Gsfa.readWithSize Z f off size with | .ok a => some a | .error _ => none) := by
  unfold llReadP Gsfa.readWithSize
  by_cases h0 : size > Gsfa.mib256
  · simp [h0, run, resOk]
  · simp only [h0, if_false, run]
    unfold readAt
    by_cases h1 : off + size ≤ f.length
    · have hl : ¬ (slice f off size).length < size := by simp [slice]; omega
      simp only [h1, if_true, hl, if_false]
      change resOk (run (llParse Z size (slice f off size)) f) = _
      generalize slice f off size = r
      unfold llParse
      cases hu : Gsfa.uvarint64 r with
      | none => simp [run, resOk]
      | some ln =>
        obtain ⟨l, n⟩ := ln
        simp only
        by_cases hc : n + l ≠ size ∨ l < 9
        · simp [hc, run, resOk]
        · simp only [hc, if_false]
          cases hz : Z.decompress ((r.drop n).take ((r.drop n).length - 9)) with
          | none => simp [run, resOk]
          | some raw =>
            simp only
            cases hp : Gsfa.parseEntries (raw.length + 1) raw with
            | ok es => simp [run, resOk]
            | error e => simp [run, resOk]
    · by_cases hs : (slice f off size).length < size
      · simp [h1, hs, resOk]
      · -- size = 0 and the offset beyond the end: both fail (the parser on an empty record)
        have hz : size = 0 := by simp [slice] at hs; omega
        subst hz
        have h1' : ¬ off ≤ f.length := by omega
        have e1 : slice f off 0 = [] := by simp [slice]
        have e2 : Gsfa.uvarint64 [] = none := by rfl
        simp [h1', resOk, e1, e2]

inductive GsfaAns where
  | notFound
  | entries (l : List Gsfa.Entry)
deriving DecidableEq

/-- `GsfaReader.Get(pk, limit)` over the pubkey→offset-and-size index file and the linked-log file -/
def gsfaGet (Z : Gsfa.Zstd) (chk : CI.DB → Option String) (hf : CI.HF) (fuel : Nat) (pk : Bytes) (limit : Nat)
    (idx log : Bytes) : Res GsfaAns :=
  if limit = 0 then .ok (.entries []) else
  match run (ciGetP false chk hf pk) idx with
  | .err e => .err e
  | .ok .hang => .err "hang"
  | .ok .err => .err "err"
  | .ok .notFound => .ok .notFound
  | .ok (.found v) =>
    if v.length ≠ 9 then .err "invalid byte slice length" else
    match run (llWalkP Z fuel (Gsfa.ptrOfBytes v) limit []) log with
    | .ok l => .ok (.entries l)
    | .err e => .err e

/-- `indexmeta.Meta.UnmarshalWithDecoder` on a stream starting at `off` (after the count byte): `ReadByte` / `io.ReadFull`
    per field; returns the pairs and the offset after the last one -/
def metaKVsP : Nat → Nat → Prog (MetaKVs × Nat)
  | 0, off => .pure ([], off)
  | n+1, off =>
    .read off 1 fun kl => .read (off + 1) (kl.getD 0 0).toNat fun k =>
    .read (off + 1 + (kl.getD 0 0).toNat) 1 fun vl =>
    .read (off + 1 + (kl.getD 0 0).toNat + 1) (vl.getD 0 0).toNat fun v =>
      (metaKVsP n (off + 1 + (kl.getD 0 0).toNat + 1 + (vl.getD 0 0).toNat)).bind fun r => .pure ((k, v) :: r.1, r.2)

structure ManHdr where
  version : Nat
  mta : MetaKVs
  metaSize : Nat
deriving DecidableEq

/-- `manifest.readHeader`: magic (`io.ReadFull`), version (`binary.Read`), metadata for version ≥ 2 -/
def manHeaderP : Prog ManHdr :=
  .read 0 8 fun mg =>
    if mg ≠ Generated.manifestMagic then .fail "this is not a gsfa manifest file" else
    .read 8 8 fun v =>
      if unle v ≥ 2 then
        .read 16 1 fun c => (metaKVsP (c.getD 0 0).toNat 17).bind fun r => .pure ⟨unle v, r.1, r.2 - 16⟩
      else .pure ⟨unle v, [], 0⟩

/-- `manifest.NewManifest(path, Meta{})` as `NewGsfaReader` calls it.  NOT a pure `Prog`: the opener looks at the file
    size — an EMPTY file gets a fresh header (current version, empty metadata) written into it and opens fine; a
    non-empty one is parsed and its tuple area must be a multiple of 16 bytes -/
def manifestOpen (f : Bytes) : Res ManHdr :=
  if f.length = 0 then .ok ⟨Generated.manifestVersion, [], 1⟩ else
  match run manHeaderP f with
  | .err e => .err e
  | .ok h =>
    if h.version ≠ Generated.manifestVersion then .err "unsupported manifest version"
    else if (f.length - 16 - h.metaSize) % 16 ≠ 0 then .err "manifest is corrupt"
    else .ok h

/-- what `NewEpochFromConfig` asks of the gsfa manifest: for version ≥ 2 the metadata must hold the epoch and the
    root CID (and they must be the expected ones); answers the two stored values -/
def manifestLoad (wantEpoch : Nat) (wantRoot : Bytes) (f : Bytes) : Res (Nat × Bytes) :=
  match manifestOpen f with
  | .err e => .err e
  | .ok h =>
    if h.version < 2 then .ok (wantEpoch, wantRoot) else
    match metaGet h.mta Generated.metaKeyEpoch with
    | none => .err "the gsfa index does not have the epoch metadata"
    | some eb =>
      if eb.length < 8 then .err "panic: index out of range" else
      if unle (eb.take 8) ≠ wantEpoch then .err "epoch mismatch in gsfa index" else
      match metaGet h.mta Generated.metaKeyRootCid with
      | none => .err "the gsfa index does not have the root CID metadata"
      | some rb => if rb ≠ wantRoot then .err "root CID mismatch in gsfa index" else .ok (unle (eb.take 8), rb)

/-! ## CAR: `carv2.OpenReader` + `GetNodeByOffsetAndSize` / `readNodeFromReaderAtWithOffsetAndSize` -/

/-- `varint.ReadUvarint` through a byte reader: one byte per read -/
def uvarintP (off : Nat) : Nat → Nat → Nat → Prog (Nat × Nat)
  | 0, _, _ => .fail "varint overflow"
  | fuel+1, i, acc =>
    .read (off + i) 1 fun b =>
      if (b.getD 0 0).toNat < 128 then .pure (acc + (b.getD 0 0).toNat * 128 ^ i, i + 1)
      else uvarintP off fuel (i + 1) (acc + ((b.getD 0 0).toNat - 128) * 128 ^ i)

/-- `ReadVersion` / `carv1.ReadHeader`: length varint, then `io.ReadFull` of the dag-cbor header (`hdrOk`: its
    decoder, third party); answers the header size -/
def carOpenP (hdrOk : Bytes → Bool) : Prog Nat :=
  (uvarintP 0 10 0 0).bind fun lw =>
    if lw.1 = 0 then .fail "invalid header: zero length" else
    .read lw.2 lw.1 fun hdr => if hdrOk hdr then .pure (lw.2 + lw.1) else .fail "invalid car header"

/-- the read of an indexed section: `io.ReadFull(section[size])` at `off` (local file) or one `ReadAt` (remote), then
    `parseNodeFromSection` with the CID comparison -/
def carParse (want : Bytes) (sec : Bytes) : Prog Bytes :=
  match Car.parseSection sec with
  | none => .fail "failed to parse section"
  | some cd => if cd.1 = want then .pure cd.2 else .fail "CID mismatch"

def carNodeP (off size : Nat) (want : Bytes) : Prog Bytes :=
  if size = 0 then .fail "offsetAndSize.Size must not be 0" else .read off size (carParse want)

theorem hw_carParse (want sec f : Bytes) : hw (carParse want sec) f = 0 := by
  unfold carParse
  repeat' split
  all_goals simp [hw]

theorem hw_llParse (Z : Gsfa.Zstd) (size : Nat) (r f : Bytes) : hw (llParse Z size r) f = 0 := by
  unfold llParse
  repeat' split
  all_goals simp [hw]

def carGetP (hdrOk : Bytes → Bool) (off size : Nat) (want : Bytes) : Prog Bytes :=
  (carOpenP hdrOk).bind fun _ => carNodeP off size want

theorem carNode_agrees (car : Bytes) (off size : Nat) (want : Bytes) (hs : size ≠ 0) :
    resOk (run (carNodeP off size want) car) = Car.nodeAt car off size want := by
  unfold carNodeP Car.nodeAt
  simp only [hs, if_false, run]
  unfold readAt
  by_cases h : off + size ≤ car.length
  · have h' : ¬ off + size > car.length := by omega
    simp only [h, h', if_true, if_false]
    change resOk (run (carParse want (slice car off size)) car) = _
    unfold carParse
    cases hp : Car.parseSection (slice car off size) with
    | none => simp [run, resOk]
    | some cd =>
      obtain ⟨c, d⟩ := cd
      by_cases hc : c = want <;> simp [hc, run, resOk]
  · have h' : off + size > car.length := by omega
    simp [h, h', resOk]

/-- `Epoch.GetNodeByCid` over the cid→offset-and-size index file and the CAR file -/
def epochGetNode (hdrOk : Bytes → Bool) (chk : CI.DB → Option String) (hf : CI.HF) (cid : Bytes) (idx car : Bytes) : Res Bytes :=
  match run (ciGetP false chk hf cid) idx with
  | .err e => .err e
  | .ok .hang => .err "hang"
  | .ok .err => .err "err"
  | .ok .notFound => .err "not found"
  | .ok (.found v) =>
    if v.length ≠ 9 then .err "invalid byte slice length" else
    run (carGetP hdrOk (unle (v.take 6)) (unle (v.drop 6)) cid) car


theorem hw_btOpen {f : Bytes} {ix : BT} (h : run btOpenP f = .ok ix) : 46 + 4 * ix.cap ≤ hw btOpenP f := by
  unfold btOpenP at h ⊢
  simp only [run, hw] at h ⊢
  cases h0 : readAt f 0 14 with
  | none => simp [h0] at h
  | some m =>
    simp only [h0] at h ⊢
    by_cases hm : m ≠ Generated.blocktimeMagic
    · simp [hm, run] at h
    · simp only [hm, if_false, run, hw] at h ⊢
      cases h1 : readAt f 14 8 with
      | none => simp [h1] at h
      | some s =>
        simp only [h1] at h ⊢
        cases h2 : readAt f 22 8 with
        | none => simp [h2] at h
        | some e =>
          simp only [h2] at h ⊢
          cases h3 : readAt f 30 8 with
          | none => simp [h3] at h
          | some ep =>
            simp only [h3] at h ⊢
            by_cases c1 : unle s / Generated.epochLen ≠ unle e / Generated.epochLen
            · simp [c1, run] at h
            · by_cases c2 : unle s / Generated.epochLen ≠ unle ep
              · simp [c1, c2, run] at h
              · simp only [c1, c2, if_false, run, hw] at h ⊢
                cases h4 : readAt f 38 8 with
                | none => simp [h4] at h
                | some c =>
                  simp only [h4] at h ⊢
                  cases h5 : readAt f 46 (4 * unle c) with
                  | none => simp [h5] at h
                  | some vals =>
                    simp only [h5, Res.ok.injEq] at h ⊢
                    subst h
                    dsimp only
                    omega


end TR

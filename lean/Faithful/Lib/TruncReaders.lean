import Faithful.Lib.Trunc
import Faithful.Lib.Bytes
import Faithful.Lib.Varint
import Faithful.Lib.CompactIndex
import Faithful.Lib.Car
import Faithful.Generated.Consts

/-!
# C13: every reader of an on-disk file as a `RA.Prog` (reads through `ReadAt`, a short read is an error)

Generic part (namespace `RA`): `bind`, the high-water mark `hw` of a program on a file (the end of the furthest
byte range it asks for), the exact truncation law `truncation_exact` (cut ≥ hw ⇒ same run, cut < hw ⇒ "short read"),
and an `Array` interpreter `runA p a n` (what the driver executes) with `runA_eq : runA p a n = run p (a.toList.take n)`.

Readers (namespace `TR`), each the code path named in its comment:
* `ciGetP`      compactindexsized `Open` + `DB.Lookup` (+ the `indexes.OpenWithReader_*` wrapper checks) — all four kinds
* `bkHasP`      bucketteer `NewReader` + `Reader.Has`
* `btGetP`      blocktimeindex `FromBytes` + `Get` (the REPAIRED decoder: every field read with `io.ReadFull`,
                /verif/fixes/C13-1.patch); `btGetPinned` is the decoder of the pinned tree (`bytes.Reader.Read` accepts
                a short read), kept to state what is wrong with it
* `llReadP`, `llWalkP`  gsfa `LinkedLog.ReadWithSize` and the loop of `GsfaReader.Get`
* `manifestLoad` gsfa `manifest.NewManifest` + the checks `NewEpochFromConfig` makes on it (not a pure `Prog`:
                the opener looks at the file size)
* `carGetP`     `carv2.OpenReader` + `Epoch.GetNodeByOffsetAndSize` / `readNodeFromReaderAtWithOffsetAndSize`
-/

namespace RA

def Prog.bind {α β : Type} : Prog α → (α → Prog β) → Prog β
  | .pure a, g => g a
  | .fail e, _ => .fail e
  | .read off len k, g => .read off len (fun bs => (k bs).bind g)

theorem run_bind {α β : Type} (p : Prog α) (g : α → Prog β) (f : List UInt8) :
    run (p.bind g) f = match run p f with
      | .ok a => run (g a) f
      | .err e => .err e := by
  induction p with
  | pure a => simp [Prog.bind, run]
  | fail e => simp [Prog.bind, run]
  | read off len k ih =>
    simp only [Prog.bind, run]
    cases h : readAt f off len with
    | none => rfl
    | some bs => exact ih bs

/-- end of the furthest byte range the program asks for when run on `f` (including a request that fails) -/
def hw {α : Type} : Prog α → List UInt8 → Nat
  | .pure _, _ => 0
  | .fail _, _ => 0
  | .read off len k, f =>
    match readAt f off len with
    | some bs => max (off + len) (hw (k bs) f)
    | none => off + len

theorem readAt_take_of_le (f : List UInt8) (cut off len : Nat) (h : off + len ≤ cut) :
    readAt (f.take cut) off len = readAt f off len := by
  unfold readAt
  simp only [List.length_take]
  by_cases hf : off + len ≤ f.length
  · have h1 : off + len ≤ min cut f.length := by omega
    simp only [h1, hf, if_true, Option.some.injEq]
    rw [List.drop_take, List.take_take]
    congr 1
    omega
  · have h1 : ¬ off + len ≤ min cut f.length := by omega
    simp [h1, hf]

theorem readAt_take_none (f : List UInt8) (cut off len : Nat) (h : cut < off + len) :
    readAt (f.take cut) off len = none := by
  unfold readAt
  simp only [List.length_take]
  have h1 : ¬ off + len ≤ min cut f.length := by omega
  simp [h1]

/-- **exact truncation law**: a cut at or after the high-water mark changes nothing; a cut before it makes the run
    fail with a short read (it never turns into another answer) -/
theorem truncation_exact {α : Type} (p : Prog α) (f : List UInt8) (cut : Nat) :
    (hw p f ≤ cut → run p (f.take cut) = run p f) ∧
    (cut < hw p f → cut ≤ f.length → run p (f.take cut) = .err "short read") := by
  induction p with
  | pure a => exact ⟨fun _ => rfl, fun h => by simp [hw] at h⟩
  | fail e => exact ⟨fun _ => rfl, fun h => by simp [hw] at h⟩
  | read off len k ih =>
    simp only [hw, run]
    cases hr : readAt f off len with
    | none =>
      simp only
      have hlen : f.length < off + len := by
        unfold readAt at hr
        by_cases hf : off + len ≤ f.length
        · simp [hf] at hr
        · omega
      constructor
      · intro h
        rw [readAt_take_of_le f cut off len h, hr]
      · intro h _
        rw [readAt_take_none f cut off len h]
    | some bs =>
      simp only
      constructor
      · intro h
        have h1 : off + len ≤ cut := by omega
        rw [readAt_take_of_le f cut off len h1, hr]
        exact (ih bs).1 (by omega)
      · intro h hc
        by_cases h1 : off + len ≤ cut
        · rw [readAt_take_of_le f cut off len h1, hr]
          exact (ih bs).2 (by omega) hc
        · rw [readAt_take_none f cut off len (by omega)]

/-- a run that succeeds on the whole file succeeds on a prefix iff every byte it reads lies before the cut -/
theorem succeeds_iff_reads_before_cut {α : Type} (p : Prog α) (f : List UInt8) (cut : Nat) (hc : cut ≤ f.length)
    (a : α) (hok : run p f = .ok a) : run p (f.take cut) = .ok a ↔ hw p f ≤ cut := by
  constructor
  · intro h
    by_cases hle : hw p f ≤ cut
    · exact hle
    · have := (truncation_exact p f cut).2 (by omega) hc
      rw [this] at h
      cases h
  · intro h
    rw [(truncation_exact p f cut).1 h, hok]

/-! ### array interpreter (what the driver executes; reads cost O(len), not O(offset)) -/

/-- `ReadAt` on the first `n` bytes of the array -/
def readAtA (a : Array UInt8) (n off len : Nat) : Option (List UInt8) :=
  if off + len ≤ min n a.size then some (a.extract off (off + len)).toList else none

def runA {α : Type} : Prog α → Array UInt8 → Nat → Res α
  | .pure x, _, _ => .ok x
  | .fail e, _, _ => .err e
  | .read off len k, a, n =>
    match readAtA a n off len with
    | some bs => runA (k bs) a n
    | none => .err "short read"

theorem readAtA_eq (a : Array UInt8) (n off len : Nat) : readAtA a n off len = readAt (a.toList.take n) off len := by
  unfold readAtA readAt
  simp only [List.length_take, Array.length_toList]
  by_cases h : off + len ≤ min n a.size
  · simp only [h, if_true, Option.some.injEq]
    rw [List.drop_take, List.take_take]
    have : min len (n - off) = len := by omega
    rw [this]
    simp [List.extract_eq_take_drop]
  · simp [h]

theorem runA_eq {α : Type} (p : Prog α) (a : Array UInt8) (n : Nat) : runA p a n = run p (a.toList.take n) := by
  induction p with
  | pure x => rfl
  | fail e => rfl
  | read off len k ih =>
    simp only [runA, run, readAtA_eq]
    cases readAt (a.toList.take n) off len with
    | none => rfl
    | some bs => exact ih bs

end RA

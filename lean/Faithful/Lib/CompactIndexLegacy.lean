import Faithful.Lib.CompactIndex

/-!
Byte layer of the two legacy formats the server still reads: `deprecated/compactindex` (values are file offsets
stored on `intWidth(FileSize)` bytes) and `deprecated/compactindex36` (36-byte values).  The abstract layer
(`CI.buildA` / `CI.lookupA`) is shared with the current format, so C04's theorems cover all three; only the header
(fixed 32 bytes: magic ‖ FileSize u64 ‖ NumBuckets u32 ‖ version ‖ 11 zero bytes) and the value width differ.
-/
namespace CI
open B

inductive Legacy | l8 | l36
deriving DecidableEq, Repr

/-- Go `intWidth`: bytes minimally required to represent n (0 for 0) -/
def intWidth : Nat → Nat
  | 0 => 0
  | n+1 => 1 + intWidth ((n+1) / 256)
decreasing_by omega

def legacyMagic : Legacy → Bytes
  | .l8 => Generated.legacy8Magic
  | .l36 => Generated.legacy36Magic

def legacyWidth (f : Legacy) (fileSize : Nat) : Nat :=
  match f with
  | .l8 => intWidth fileSize
  | .l36 => 36

def legacyHeader (f : Legacy) (fileSize numBuckets : Nat) : Bytes :=
  legacyMagic f ++ le 8 fileSize ++ le 4 numBuckets ++ [1] ++ List.replicate 11 0

def legacyEntry (w : Nat) (e : Ent) : Bytes :=
  le 3 e.1 ++ e.2.take w ++ List.replicate (w - e.2.length) 0

def legacyTable (w : Nat) : List BucketA → Nat → Bytes
  | [], _ => []
  | b :: r, off => bucketHeader b off ++ legacyTable w r (off + b.entries.size * (3 + w))

/-- the file `Seal` writes; `ix.valueSize` must be `legacyWidth f fileSize` (values already cut to that width) -/
def encodeLegacy (f : Legacy) (fileSize : Nat) (ix : IndexA) : Bytes :=
  let w := legacyWidth f fileSize
  legacyHeader f fileSize ix.numBuckets ++ legacyTable w ix.buckets (32 + 16 * ix.numBuckets)
    ++ ix.buckets.flatMap fun b => b.entries.toList.flatMap (legacyEntry w)

structure LDB where
  fileSize : Nat
  numBuckets : Nat

/-- legacy `Open` + `Header.Load` -/
def openLegacy (f : Legacy) (file : File) : Option LDB :=
  match rd file 0 32 with
  | none => none
  | some h =>
    if h.take 8 ≠ legacyMagic f then none
    else if h.getD 20 0 ≠ 1 then none
    else if (h.drop 21).any (· ≠ 0) then none
    else some ⟨unle (slice h 8 8), unle (slice h 16 4)⟩

/-- legacy `DB.Lookup` over the bytes; the value is returned as the `w` stored bytes -/
def lookupLegacy (hf : HF) (f : Legacy) (file : File) (db : LDB) (key : Bytes) : Look :=
  if db.numBuckets = 0 then .err else
  match hf.bucket key db.numBuckets with
  | none => .hang
  | some i =>
    if i ≥ db.numBuckets then .err else
    match rd file (32 + 16 * i) 16 with
    | none => .err
    | some bh =>
      let nonce := unle (slice bh 0 4)
      let numEntries := unle (slice bh 4 4)
      let hashLen := (bh.getD 8 0).toNat
      let fileOffset := unle (slice bh 10 6)
      let w := legacyWidth f db.fileSize
      let strd := (3 + w) % 256
      let sh := (64 + 256 - (hashLen * 8) % 256) % 256
      let mask : Nat := if sh ≥ 64 then 0 else (2^64 - 1) / 2^sh
      let target := (hf.entry64 nonce key) &&& mask
      let get := fun (idx : Nat) =>
        if idx * strd + strd > numEntries * strd then none else
        match rd file (fileOffset + idx * strd) strd with
        | none => none
        | some eb => some (unle (eb.take hashLen), (eb.drop hashLen).take w)
      searchB get target numEntries (numEntries + 1) 0

end CI

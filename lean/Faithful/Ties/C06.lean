import Faithful.Generated.GoFns
import Faithful.Lib.GsfaLog
import Faithful.Ties.Basic
/-!
C06 ties: the entry codec of the address index's linked log (`gsfa/linkedlog/offset-size-slot.go`), translated from
/repo's working tree on every run, is the codec of the model (`Gsfa.encEntry`).
-/
namespace GoTies.C06
open Go Generated.G GoTies

theorem putUvarint_go_eq (f v : Nat) : Go.putUvarint.go f v = Gsfa.putF f v := by
  induction f generalizing v with
  | zero => rfl
  | succ f ih => simp [Go.putUvarint.go, Gsfa.putF, ih]

/-- the runtime's `binary.AppendUvarint` is the model's `putU64` -/
theorem putUvarint_eq (v : UInt64) : Go.putUvarint v = Gsfa.putU64 v.toNat := by
  unfold Go.putUvarint Gsfa.putU64; exact putUvarint_go_eq 10 v.toNat

/-- **tie**: `OffsetAndSizeAndSlot.Bytes()` = `encEntry`: three uvarints (offset, size, slot) and the flags byte -/
theorem gen_oassBytes_eq_model (o s sl : UInt64) (f : UInt8) :
    oassBytes { Offset := o, Size := s, Slot := sl, Flags := f } = .ok (Gsfa.encEntry ⟨o, s, sl, f⟩) := by
  unfold oassBytes Gsfa.encEntry
  simp [putUvarint_eq]

/-- the runtime's `binary.Uvarint` reads back what `AppendUvarint` wrote and reports the bytes consumed (the accumulator
    form used by the induction: `i` bytes read so far, value `x` accumulated, shift `s = 7·i`) -/
theorem uvarint_go_put (f : Nat) : ∀ (v i x s : Nat) (rest : List UInt8), 0 < f → i + f ≤ 10 → s = 7 * i → v < 128 ^ f →
    x + v * 2 ^ s < 2 ^ 64 →
    Go.uvarint.go (Gsfa.putF f v ++ rest) i x s = (UInt64.ofNat (x + v * 2 ^ s), (i : Int) + (Gsfa.putF f v).length) := by
  induction f with
  | zero => intro v i x s rest h0; omega
  | succ f ih =>
    intro v i x s rest _ hi hs hv hx
    rw [Gsfa.putF]
    by_cases h : v < 128
    · simp only [h, if_true, List.cons_append, List.nil_append, Go.uvarint.go]
      have hb : (UInt8.ofNat v).toNat = v := by simp [UInt8.toNat_ofNat']; omega
      have hi10 : ¬ i = 10 := by omega
      simp only [hi10, if_false, hb, h, if_true]
      have hnot : ¬ (i = 9 ∧ v > 1) := by
        rintro ⟨h9, h1⟩
        subst h9; subst hs
        have : 2 * 2 ^ 63 ≤ v * 2 ^ 63 := Nat.mul_le_mul_right _ h1
        have e : (2:Nat) ^ 64 = 2 * 2 ^ 63 := by decide
        simp only [Nat.reduceMul] at hx
        omega
      simp [hnot]
    · simp only [h, if_false, List.cons_append, Go.uvarint.go]
      have hb : (UInt8.ofNat (v % 128 + 128)).toNat = v % 128 + 128 := by simp [UInt8.toNat_ofNat']; omega
      have hi10 : ¬ i = 10 := by omega
      have hge : ¬ v % 128 + 128 < 128 := by omega
      simp only [hi10, if_false, hb, hge]
      have hmod : (v % 128 + 128) % 128 = v % 128 := by omega
      rw [hmod]
      have hf : 0 < f := by
        rcases Nat.eq_zero_or_pos f with h0 | h0
        · subst h0; simp at hv; omega
        · exact h0
      have hv' : v / 128 < 128 ^ f := by
        rw [Nat.pow_succ] at hv
        exact Nat.div_lt_of_lt_mul (by rw [Nat.mul_comm]; exact hv)
      have key : x + v % 128 * 2 ^ s + v / 128 * 2 ^ (s + 7) = x + v * 2 ^ s := by
        rw [Nat.pow_add]
        have : v = 128 * (v / 128) + v % 128 := (Nat.div_add_mod v 128).symm
        have e7 : (2:Nat) ^ 7 = 128 := by decide
        rw [e7]
        calc x + v % 128 * 2 ^ s + v / 128 * (2 ^ s * 128)
            = x + (128 * (v / 128) + v % 128) * 2 ^ s := by
              rw [Nat.add_mul, Nat.mul_comm (2 ^ s) 128, ← Nat.mul_assoc, Nat.mul_comm (v / 128) 128]; omega
          _ = x + v * 2 ^ s := by rw [← this]
      have := ih (v / 128) (i + 1) (x + v % 128 * 2 ^ s) (s + 7) rest hf (by omega) (by omega) hv' (by rw [key]; exact hx)
      rw [this, key]
      simp only [List.length_cons]
      congr 1
      push_cast
      omega

/-- `binary.Uvarint(binary.AppendUvarint(nil, v) ++ rest) = (v, bytes written)` for every `uint64` -/
theorem uvarint_putUvarint (v : UInt64) (rest : List UInt8) :
    Go.uvarint (Go.putUvarint v ++ rest) = (v, ((Go.putUvarint v).length : Int)) := by
  unfold Go.uvarint
  rw [putUvarint_eq]
  unfold Gsfa.putU64
  have hv := v.toNat_lt
  have h := uvarint_go_put 10 v.toNat 0 0 0 rest (by omega) (by omega) (by omega)
    (by have : (2:Nat)^64 < 128^10 := by decide
        omega) (by simp; exact hv)
  simp only [Nat.zero_add, Nat.pow_zero, Nat.mul_one, Int.natCast_zero, Int.zero_add] at h
  rw [h]
  simp

example : oassBytes { Offset := 300, Size := 5, Slot := 1, Flags := 3 } = .ok [0xac, 0x02, 5, 1, 3] := by rfl
example : (oassBytes { Offset := 300, Size := 5, Slot := 1, Flags := 3 } >>= oassFromBytes Linkedlog_OffsetAndSizeAndSlot.zero)
    = .ok { Offset := 300, Size := 5, Slot := 1, Flags := 3 } := by rfl

end GoTies.C06

import Faithful.Generated.GoFns
import Faithful.Ties.Basic
/-!
Theorems proved DIRECTLY about the translated code of `blocktimeindex/writer.go` (`Generated.G.btUnmarshal`, `btGet`, …),
with no hand-written model of the decoder in between: the slot-to-blocktime file format is specified here as a
nine-line function `BT.spec`, the translated `unmarshalBinary` is shown to compute it for every byte string, and the
statements of C12 (no panic, on any bytes) and C13 (a cut file gives the same index or an error) are read off.
-/
namespace GoTies.BT
open Go Generated.G GoTies

def magic : List UInt8 := [98, 108, 111, 99, 107, 116, 105, 109, 101, 105, 110, 100, 101, 120]

/-- `n` bytes at `p`, if the data holds them -/
def rd (d : List UInt8) (p n : Nat) : Option (List UInt8) := if p + n ≤ d.length then some ((d.drop p).take n) else none

def u64 (b : List UInt8) : UInt64 := UInt64.ofNat (B.unle b)

/-- the values: `n` little-endian uint32 from `bs` -/
def values : Nat → List UInt8 → List Int
  | 0, _ => []
  | n+1, bs => ((B.unle (bs.take 4) % 4294967296 : Nat) : Int) :: values n (bs.drop 4)

/-- the file format: magic ‖ start ‖ end ‖ epoch ‖ capacity (u64 LE each) ‖ capacity × u32 LE; `none` = rejected -/
def spec (d : List UInt8) : Option Blocktimeindex_Index := do
  let m ← rd d 0 14
  if m ≠ magic then none else
  let s ← rd d 14 8
  let e ← rd d 22 8
  let ep ← rd d 30 8
  if u64 s / 432000 ≠ u64 e / 432000 then none else
  if u64 s / 432000 ≠ u64 ep then none else
  let c ← rd d 38 8
  if (u64 c).toNat > (d.length - 46) / 4 then none else
  some { start := u64 s, end_ := u64 e, epoch := u64 ep, capacity := u64 c, values := values (u64 c).toNat (d.drop 46) }

/-! ### the runtime pieces -/

theorem readFull_eq (d : List UInt8) (p n : Nat) (hn : 0 < n) :
    Go.readFull ⟨d, p⟩ (n : Int) =
      match rd d p n with
      | some b => .ok (⟨d, p + n⟩, b)
      | none => .error (.err (if d.length ≤ p then "EOF" else "unexpected EOF")) := by
  unfold Go.readFull rd
  have hk : ((n : Int).toNat = 0) = False := by simp; omega
  simp only [Int.toNat_natCast, show ¬ n = 0 by omega, if_false]
  by_cases h1 : d.length ≤ p
  · have : ¬ p + n ≤ d.length := by omega
    simp [h1, this]
  · by_cases h2 : d.length - p < n
    · have : ¬ p + n ≤ d.length := by omega
      simp [h1, h2, this]
    · have : p + n ≤ d.length := by omega
      simp [h1, h2, this]

theorem rd_length {d : List UInt8} {p n : Nat} {b : List UInt8} (h : rd d p n = some b) : b.length = n := by
  unfold rd at h
  by_cases hc : p + n ≤ d.length
  · simp [hc] at h; subst h; simp; omega
  · simp [hc] at h

theorem fromLE_eq (b : List UInt8) (h : b.length = 8) : uint64FromLEBytes b = .ok (u64 b) := by
  unfold uint64FromLEBytes u64
  simp only [Go.leU64, h, Nat.le_refl, if_true, pure_eq_ok, bind_ok, leDecode_eq_unle]
  rw [List.take_of_length_le (by omega)]

theorem epochForSlot_eq (s : UInt64) : epochForSlot s = .ok (s / 432000) := by
  unfold epochForSlot calcEpochForSlotM
  simp

theorem make8 : Go.makeOf (0 : UInt8) (8 : Int) = .ok (List.replicate 8 0) := by
  unfold Go.makeOf; simp
theorem make4 : Go.makeOf (0 : UInt8) (4 : Int) = .ok (List.replicate 4 0) := by
  unfold Go.makeOf; simp
theorem make14 : Go.makeOf (0 : UInt8) (Go.len magic) = .ok (List.replicate 14 0) := by
  unfold Go.makeOf Go.len magic; simp


theorem take_set_succ {α : Type} (l : List α) (j : Nat) (v : α) (h : j < l.length) : (l.set j v).take (j + 1) = l.take j ++ [v] := by
  induction l generalizing j with
  | nil => simp at h
  | cons x xs ih =>
    cases j with
    | zero => simp
    | succ j => simp at h; simp [ih j h]

/-! ### the value loop of `unmarshalBinary` -/

theorem loop_eq (fuel0 : Nat) (d : List UInt8) : ∀ (fuel : Nat) (i : Blocktimeindex_Index) (j : UInt64) (p : Nat),
    i.values.length = i.capacity.toNat → j.toNat ≤ i.capacity.toNat →
    p + 4 * (i.capacity.toNat - j.toNat) ≤ d.length → i.capacity.toNat - j.toNat < fuel →
    btUnmarshal.loop1 fuel0 fuel i j ⟨d, p⟩ =
      .ok (.done ({ i with values := i.values.take j.toNat ++ values (i.capacity.toNat - j.toNat) (d.drop p) }, i.capacity,
                  ⟨d, p + 4 * (i.capacity.toNat - j.toNat)⟩)) := by
  intro fuel
  induction fuel with
  | zero => intro i j p _ _ _ h; omega
  | succ f ih =>
    intro i j p hlen hj hp hf
    rw [btUnmarshal.loop1]
    by_cases hlt : j < i.capacity
    · have hltn : j.toNat < i.capacity.toNat := UInt64.lt_iff_toNat_lt.mp hlt
      simp only [hlt, decide_true, Bool.not_true, Bool.false_eq_true, if_false, make4, bind_ok]
      have hl4 : Go.len (List.replicate 4 (0 : UInt8)) = ((4 : Nat) : Int) := by simp [Go.len]
      rw [hl4, readFull_eq d p 4 (by decide)]
      have hrd : rd d p 4 = some ((d.drop p).take 4) := by unfold rd; simp; omega
      simp only [hrd, bind_ok]
      have hb4 : ((d.drop p).take 4).length = 4 := by simp; omega
      have hle : Go.leU32 ((d.drop p).take 4) = .ok (UInt32.ofNat (B.unle ((d.drop p).take 4))) := by
        unfold Go.leU32
        simp only [hb4, Nat.reduceLeDiff, if_true, pure_eq_ok, leDecode_eq_unle]
        rw [List.take_of_length_le (by omega)]
      simp only [hle, bind_ok]
      have hset : Go.setIdx i.values ((j.toNat : Nat) : Int) (((UInt32.ofNat (B.unle ((d.drop p).take 4))).toNat : Nat) : Int) =
          .ok (i.values.set j.toNat ((B.unle ((d.drop p).take 4) % 4294967296 : Nat) : Int)) := by
        unfold Go.setIdx
        have : (0:Int) ≤ (j.toNat : Int) ∧ (j.toNat : Int) < i.values.length := by omega
        simp [this, UInt32.toNat_ofNat']
      simp only [hset, bind_ok]
      have hj1 : (j + 1).toNat = j.toNat + 1 := by
        rw [UInt64.toNat_add]
        have := i.capacity.toNat_lt
        simp; omega
      have := ih { i with values := i.values.set j.toNat ((B.unle ((d.drop p).take 4) % 4294967296 : Nat) : Int) } (j + 1) (p + 4)
        (by simp [hlen]) (by show (j + 1).toNat ≤ i.capacity.toNat; rw [hj1]; omega)
        (by show p + 4 + 4 * (i.capacity.toNat - (j + 1).toNat) ≤ d.length; rw [hj1]; omega)
        (by show i.capacity.toNat - (j + 1).toNat < f; rw [hj1]; omega)
      rw [this]
      have hk : i.capacity.toNat - j.toNat = (i.capacity.toNat - (j.toNat + 1)) + 1 := by omega
      have e1 : (i.values.set j.toNat ((B.unle ((d.drop p).take 4) % 4294967296 : Nat) : Int)).take (j + 1).toNat
            ++ values (i.capacity.toNat - (j + 1).toNat) (d.drop (p + 4))
          = i.values.take j.toNat ++ values (i.capacity.toNat - j.toNat) (d.drop p) := by
        rw [hj1, take_set_succ _ _ _ (by omega)]
        conv => rhs; rw [hk, values]
        simp [List.drop_drop, Nat.add_comm]
      have e2 : p + 4 + 4 * (i.capacity.toNat - (j + 1).toNat) = p + 4 * (i.capacity.toNat - j.toNat) := by
        rw [hj1]; omega
      simp only [e1, e2]
    · have hjn : j.toNat = i.capacity.toNat := by
        have : ¬ j.toNat < i.capacity.toNat := fun h => hlt (UInt64.lt_iff_toNat_lt.mpr h)
        omega
      have hje : j = i.capacity := UInt64.toNat_inj.mp hjn
      simp only [hlt, decide_false, Bool.not_false, if_true, pure_eq_ok, hjn, Nat.sub_self, values, Nat.mul_zero, Nat.add_zero,
        List.append_nil]
      rw [← hlen, List.take_length, hje]


/-! ### `unmarshalBinary` computes the format -/

theorem len_rep (n : Nat) : Go.len (List.replicate n (0 : UInt8)) = ((n : Nat) : Int) := by simp [Go.len]

/-- **the translated `unmarshalBinary` computes `spec`**: on every byte string (shorter than 2^48 bytes) it returns the
    index `spec` describes, or a Go error exactly when `spec` rejects — never a panic, never out of fuel (`fuel >` the
    number of bytes is always enough).  The receiver's previous content is irrelevant. -/
theorem unmarshal_eq_spec (z : Blocktimeindex_Index) (d : List UInt8) (hd : d.length < 2 ^ 48) (fuel : Nat) (hf : d.length < fuel) :
    match spec d with
    | some idx => btUnmarshal fuel z d = .ok idx
    | none => ∃ t, btUnmarshal fuel z d = .error (.err t) := by
  unfold btUnmarshal spec
  have hm14 := make14
  unfold magic at hm14
  simp only [hm14, bind_ok, len_rep, make8]
  rw [readFull_eq d 0 14 (by decide)]
  cases hm : rd d 0 14 with
  | none => exact ⟨_, rfl⟩
  | some m =>
    simp only [bind_ok, Option.bind_eq_bind, Option.bind_some]
    by_cases hmag : m = magic
    · subst hmag
      have hmag' : (magic == ([98, 108, 111, 99, 107, 116, 105, 109, 101, 105, 110, 100, 101, 120] : List UInt8)) = true := by rfl
      simp only [hmag', Bool.not_true, Bool.false_eq_true, if_false, ne_eq, not_true_eq_false]
      rw [readFull_eq d (0 + 14) 8 (by decide)]
      cases hs : rd d (0 + 14) 8 with
      | none => simp only [Nat.zero_add] at hs; simp only [hs]; exact ⟨_, rfl⟩
      | some sb =>
        have hs' : rd d 14 8 = some sb := by simpa using hs
        simp only [hs', bind_ok, Option.bind_some, fromLE_eq sb (rd_length hs)]
        rw [readFull_eq d (0 + 14 + 8) 8 (by decide)]
        cases he : rd d (0 + 14 + 8) 8 with
        | none => have he' : rd d 22 8 = none := by simpa using he
                  simp only [he']; exact ⟨_, rfl⟩
        | some eb =>
          have he' : rd d 22 8 = some eb := by simpa using he
          simp only [he', bind_ok, Option.bind_some, fromLE_eq eb (rd_length he)]
          rw [readFull_eq d (0 + 14 + 8 + 8) 8 (by decide)]
          cases hp : rd d (0 + 14 + 8 + 8) 8 with
          | none => have hp' : rd d 30 8 = none := by simpa using hp
                    simp only [hp']; exact ⟨_, rfl⟩
          | some pb =>
            have hp' : rd d 30 8 = some pb := by simpa using hp
            simp only [hp', bind_ok, Option.bind_some, fromLE_eq pb (rd_length hp), epochForSlot_eq]
            by_cases hep1 : u64 sb / 432000 = u64 eb / 432000
            · simp only [hep1, bne_self_eq_false, Bool.false_eq_true, if_false, ne_eq, not_true_eq_false]
              by_cases hep2 : u64 eb / 432000 = u64 pb
              · simp only [hep2, bne_self_eq_false, Bool.false_eq_true, if_false, ne_eq, not_true_eq_false]
                rw [readFull_eq d (0 + 14 + 8 + 8 + 8) 8 (by decide)]
                cases hc : rd d (0 + 14 + 8 + 8 + 8) 8 with
                | none => have hc' : rd d 38 8 = none := by simpa using hc
                          simp only [hc']; exact ⟨_, rfl⟩
                | some cb =>
                  have hc' : rd d 38 8 = some cb := by simpa using hc
                  simp only [hc', bind_ok, Option.bind_some, fromLE_eq cb (rd_length hc)]
                  have h46 : 46 ≤ d.length := by
                    unfold rd at hc'; by_cases hh : 38 + 8 ≤ d.length
                    · omega
                    · simp [hh] at hc'
                  have hrem : Go.u64OfInt (Go.BytesReader.remaining ⟨d, 0 + 14 + 8 + 8 + 8 + 8⟩) = UInt64.ofNat (d.length - 46) := by
                    unfold Go.u64OfInt Go.BytesReader.remaining
                    congr 1
                    simp
                    omega
                  rw [hrem]
                  have hdiv : (UInt64.ofNat (d.length - 46) / 4).toNat = (d.length - 46) / 4 := by
                    rw [UInt64.toNat_div]
                    simp [UInt64.toNat_ofNat']
                    have : (d.length - 46) % 18446744073709551616 = d.length - 46 := by omega
                    rw [this]
                  by_cases hcap : (u64 cb).toNat > (d.length - 46) / 4
                  · have hcap' : u64 cb > UInt64.ofNat (d.length - 46) / 4 := by
                      rw [gt_iff_lt, UInt64.lt_iff_toNat_lt, hdiv]; exact hcap
                    simp only [hcap', decide_true, if_true, hcap]
                    exact ⟨_, rfl⟩
                  · have hcap' : ¬ u64 cb > UInt64.ofNat (d.length - 46) / 4 := by
                      rw [gt_iff_lt, UInt64.lt_iff_toNat_lt, hdiv]; exact hcap
                    simp only [hcap', decide_false, Bool.false_eq_true, if_false, hcap]
                    have hmk : Go.makeOf (0 : Int) (((u64 cb).toNat : Nat) : Int) = .ok (List.replicate (u64 cb).toNat 0) := by
                      unfold Go.makeOf
                      have : (0:Int) ≤ ((u64 cb).toNat : Int) ∧ ((u64 cb).toNat : Int) < 281474976710656 := by omega
                      simp [this]
                    simp only [hmk, bind_ok]
                    have hl := loop_eq fuel d fuel
                      { start := u64 sb, end_ := u64 eb, epoch := u64 pb, capacity := u64 cb, values := List.replicate (u64 cb).toNat 0 }
                      0 (0 + 14 + 8 + 8 + 8 + 8) (by simp) (by simp) (by simp; omega) (by simp; omega)
                    simp only [UInt64.toNat_zero, Nat.sub_zero, List.take_zero, List.nil_append] at hl
                    rw [hl]
                    simp only [bind_ok, pure_eq_ok]
              · have hb : (u64 eb / 432000 != u64 pb) = true := by simpa [bne_iff_ne] using hep2
                simp only [hep2, not_false_eq_true, if_true, hb, throw_eq, bind_error]
                exact ⟨_, rfl⟩
            · have hb : (u64 sb / 432000 != u64 eb / 432000) = true := by simpa [bne_iff_ne] using hep1
              simp only [hep1, not_false_eq_true, if_true, hb, throw_eq, bind_error]
              exact ⟨_, rfl⟩
    · have hb : (!(m == ([98, 108, 111, 99, 107, 116, 105, 109, 101, 105, 110, 100, 101, 120] : List UInt8))) = true := by
        have : ¬ m = ([98, 108, 111, 99, 107, 116, 105, 109, 101, 105, 110, 100, 101, 120] : List UInt8) := hmag
        simpa using this
      simp only [ne_eq, hmag, not_false_eq_true, if_true, hb, throw_eq, bind_error]
      exact ⟨_, rfl⟩


/-! ### what follows for the properties -/

/-- **C12 on the translated decoder**: on arbitrary bytes `unmarshalBinary` returns an index or an error; it does not
    panic and its loop ends (bytes shorter than 2^48, the in-memory bound of the Go runtime; `fuel` > number of bytes). -/
theorem unmarshal_never_panics (z : Blocktimeindex_Index) (d : List UInt8) (hd : d.length < 2 ^ 48) (fuel : Nat) (hf : d.length < fuel) :
    (∀ w, btUnmarshal fuel z d ≠ .error (.panic w)) ∧ btUnmarshal fuel z d ≠ .error .hang := by
  have h := unmarshal_eq_spec z d hd fuel hf
  cases hs : spec d with
  | some idx =>
    rw [hs] at h; simp only at h; rw [h]
    constructor
    · intro w hh; cases hh
    · intro hh; cases hh
  | none =>
    rw [hs] at h; obtain ⟨t, h⟩ := h; rw [h]
    constructor
    · intro w hh; cases hh
    · intro hh; cases hh

theorem rd_take {d : List UInt8} {c p n : Nat} {b : List UInt8} (h : rd (d.take c) p n = some b) : rd d p n = some b := by
  unfold rd at h ⊢
  by_cases hc : p + n ≤ (d.take c).length
  · rw [if_pos hc] at h
    have hc' : p + n ≤ min c d.length := by simpa using hc
    have hl : p + n ≤ d.length := by omega
    have hcc : p + n ≤ c := by omega
    rw [if_pos hl]
    rw [← Option.some.inj h, List.drop_take, List.take_take]
    congr 2; omega
  · rw [if_neg hc] at h; cases h

theorem values_take (n : Nat) : ∀ (bs : List UInt8) (k : Nat), 4 * n ≤ k → values n (bs.take k) = values n bs := by
  induction n with
  | zero => intro bs k _; rfl
  | succ n ih =>
    intro bs k hk
    simp only [values]
    have hmin : min 4 k = 4 := by omega
    rw [List.take_take, List.drop_take, ih (bs.drop 4) (k - 4) (by omega), hmin]

/-- a prefix that `spec` accepts describes the same index as the complete file -/
theorem spec_take (d : List UInt8) (c : Nat) (idx : Blocktimeindex_Index) (h : spec (d.take c) = some idx) : spec d = some idx := by
  unfold spec at h ⊢
  cases hm : rd (d.take c) 0 14 with
  | none => simp [hm] at h
  | some m =>
    simp only [hm, Option.bind_eq_bind, Option.bind_some] at h
    simp only [rd_take hm, Option.bind_eq_bind, Option.bind_some]
    by_cases hmag : m ≠ magic
    · simp [hmag] at h
    · simp only [hmag, if_false] at h ⊢
      cases hs : rd (d.take c) 14 8 with
      | none => simp [hs] at h
      | some sb =>
        simp only [hs, Option.bind_some] at h; simp only [rd_take hs, Option.bind_some]
        cases he : rd (d.take c) 22 8 with
        | none => simp [he] at h
        | some eb =>
          simp only [he, Option.bind_some] at h; simp only [rd_take he, Option.bind_some]
          cases hp : rd (d.take c) 30 8 with
          | none => simp [hp] at h
          | some pb =>
            simp only [hp, Option.bind_some] at h; simp only [rd_take hp, Option.bind_some]
            by_cases h1 : u64 sb / 432000 ≠ u64 eb / 432000
            · simp [h1] at h
            · simp only [h1, if_false] at h ⊢
              by_cases h2 : u64 sb / 432000 ≠ u64 pb
              · simp [h2] at h
              · simp only [h2, if_false] at h ⊢
                cases hc : rd (d.take c) 38 8 with
                | none => simp [hc] at h
                | some cb =>
                  simp only [hc, Option.bind_some] at h; simp only [rd_take hc, Option.bind_some]
                  by_cases h3 : (u64 cb).toNat > ((d.take c).length - 46) / 4
                  · rw [if_pos h3] at h; cases h
                  · rw [if_neg h3] at h
                    have h := Option.some.inj h
                    have hlen : (d.take c).length ≤ d.length := by simp; omega
                    have h3' : ¬ (u64 cb).toNat > (d.length - 46) / 4 := by
                      have : ((d.take c).length - 46) / 4 ≤ (d.length - 46) / 4 := Nat.div_le_div_right (by omega)
                      omega
                    simp only [h3', if_false, Option.some.injEq]
                    rw [← h]
                    congr 1
                    have h46 : 46 ≤ (d.take c).length := by
                      unfold rd at hc; by_cases hh : 38 + 8 ≤ (d.take c).length
                      · omega
                      · rw [if_neg hh] at hc; cases hc
                    have hc46 : 46 ≤ c := by simp at h46; omega
                    rw [List.drop_take]
                    have hk : 4 * (u64 cb).toNat ≤ c - 46 := by
                      have : (d.take c).length ≤ c := by simp; omega
                      have := Nat.div_mul_le_self ((d.take c).length - 46) 4
                      omega
                    exact (values_take _ _ _ hk).symm

/-- **C13 on the translated decoder**: a slot-to-blocktime file cut at ANY byte offset is either refused with an
    error or decodes to exactly the index the complete file decodes to (so every lookup answers the same) — it never
    yields another index, never panics.  (`fuel` > number of bytes; files shorter than 2^48 bytes.) -/
theorem truncation_same_or_error (z : Blocktimeindex_Index) (d : List UInt8) (hd : d.length < 2 ^ 48) (cut : Nat)
    (fuel : Nat) (hf : d.length < fuel) :
    (∃ t, btUnmarshal fuel z (d.take cut) = .error (.err t)) ∨ btUnmarshal fuel z (d.take cut) = btUnmarshal fuel z d := by
  have hl : (d.take cut).length ≤ d.length := by simp; omega
  have h1 := unmarshal_eq_spec z (d.take cut) (by omega) fuel (by omega)
  have h2 := unmarshal_eq_spec z d hd fuel hf
  cases hs : spec (d.take cut) with
  | none => rw [hs] at h1; exact Or.inl h1
  | some idx =>
    rw [hs] at h1
    rw [spec_take d cut idx hs] at h2
    simp only at h1 h2
    exact Or.inr (h1.trans h2.symm)

/-- the index `spec` accepts has as many values as its capacity says -/
theorem values_length (n : Nat) (bs : List UInt8) : (values n bs).length = n := by
  induction n generalizing bs with
  | zero => rfl
  | succ n ih => simp [values, ih]

theorem spec_values_length (d : List UInt8) (idx : Blocktimeindex_Index) (h : spec d = some idx) :
    idx.values.length = idx.capacity.toNat := by
  unfold spec at h
  cases hm : rd d 0 14 with
  | none => simp [hm] at h
  | some m =>
    simp only [hm, Option.bind_eq_bind, Option.bind_some] at h
    by_cases hmag : m ≠ magic
    · simp [hmag] at h
    · simp only [hmag, if_false] at h
      cases hs : rd d 14 8 with
      | none => simp [hs] at h
      | some sb =>
        simp only [hs, Option.bind_some] at h
        cases he : rd d 22 8 with
        | none => simp [he] at h
        | some eb =>
          simp only [he, Option.bind_some] at h
          cases hp : rd d 30 8 with
          | none => simp [hp] at h
          | some pb =>
            simp only [hp, Option.bind_some] at h
            by_cases h1 : u64 sb / 432000 ≠ u64 eb / 432000
            · simp [h1] at h
            · simp only [h1, if_false] at h
              by_cases h2 : u64 sb / 432000 ≠ u64 pb
              · simp [h2] at h
              · simp only [h2, if_false] at h
                cases hc : rd d 38 8 with
                | none => simp [hc] at h
                | some cb =>
                  simp only [hc, Option.bind_some] at h
                  by_cases h3 : (u64 cb).toNat > (d.length - 46) / 4
                  · simp [h3] at h
                  · simp only [h3, if_false, Option.some.injEq] at h
                    rw [← h]; simp [values_length]

/-- **`Get` on the translated code**: on an index whose value list has the length its capacity says (every index
    `unmarshalBinary` returns), `Get(slot)` answers the stored value for a slot inside `[start, end]` and below the
    capacity, an error otherwise — no panic for any slot. -/
theorem get_eq (i : Blocktimeindex_Index) (slot : UInt64) (hlen : i.values.length = i.capacity.toNat) :
    btGet i slot =
      if slot < i.start ∨ slot > i.end_ ∨ (slot - i.start).toNat ≥ i.values.length then .error (.err "NewErrSlotOutOfRange")
      else .ok (i.values.getD (slot - i.start).toNat 0) := by
  unfold btGet
  have hcap := i.capacity.toNat_lt
  have hu : Go.u64OfInt (Go.len i.values) = UInt64.ofNat i.values.length := by
    unfold Go.u64OfInt Go.len; congr 1; omega
  by_cases h1 : slot < i.start
  · simp [h1]
  · by_cases h2 : slot > i.end_
    · simp [h1, h2]
    · have hge : (slot - i.start ≥ UInt64.ofNat i.values.length) ↔ (slot - i.start).toNat ≥ i.values.length := by
        rw [ge_iff_le, UInt64.le_iff_toNat_le]
        simp [UInt64.toNat_ofNat']
        have : i.values.length % 18446744073709551616 = i.values.length := by omega
        rw [this]
      by_cases h3 : (slot - i.start).toNat ≥ i.values.length
      · have h3' := hge.mpr h3
        simp [h1, h2, h3, hu, h3']
      · have h3' : ¬ (slot - i.start ≥ UInt64.ofNat i.values.length) := fun hh => h3 (hge.mp hh)
        have hidx : Go.idx i.values (((slot - i.start).toNat : Nat) : Int) = .ok (i.values.getD (slot - i.start).toNat 0) := by
          unfold Go.idx
          have : (0:Int) ≤ ((slot - i.start).toNat : Int) ∧ ((slot - i.start).toNat : Int) < i.values.length := by omega
          simp [this]
        simp [h1, h2, h3, hu, h3', hidx]

/-! ### `marshalBinary` writes the format, and the decoder reads it back -/

/-- the bytes of the value table -/
def encValues : List Int → List UInt8
  | [] => []
  | t :: r => B.le 4 t.toNat ++ encValues r

/-- block times the format can hold (uint32) -/
def ValuesOk (vs : List Int) : Prop := ∀ t ∈ vs, 0 ≤ t ∧ t ≤ 4294967295

theorem toLE_eq (v : UInt64) : uint64ToLEBytes v = .ok (B.le 8 v.toNat) := by
  unfold uint64ToLEBytes
  simp [make8, Go.putLeU64, leEncode_eq_le]

theorem toBytes_eq (t : Int) (h0 : 0 ≤ t) (h1 : t ≤ 4294967295) : btToBytes t = .ok (B.le 4 t.toNat) := by
  unfold btToBytes
  have a : ¬ t < 0 := by omega
  have b : ¬ t > 4294967295 := by omega
  simp only [a, b, decide_false, Bool.false_eq_true, if_false, make4, bind_ok, Go.putLeU32, List.length_replicate, Nat.le_refl,
    if_true, leEncode_eq_le, pure_eq_ok, List.drop_replicate, Nat.sub_self, List.replicate_zero, List.append_nil]
  congr 2
  unfold Go.u32OfInt
  simp [UInt32.toNat_ofNat']
  omega

set_option maxRecDepth 4000 in
theorem marshal_loop_eq (fuel0 : Nat) (i : Blocktimeindex_Index) (vs : List Int) (hv : ValuesOk vs) (hl : vs.length < 2 ^ 62) :
    ∀ (fuel k : Nat) (w : List UInt8), k ≤ vs.length → vs.length - k < fuel →
      btMarshal.loop1 fuel0 i vs fuel w (k : Int) = .ok (.done (w ++ encValues (vs.drop k), (vs.length : Int))) := by
  intro fuel
  induction fuel with
  | zero => intro k w _ h; omega
  | succ f ih =>
    intro k w hk hf
    rw [btMarshal.loop1]
    by_cases hlt : k < vs.length
    · have hlt' : (k : Int) < Go.len vs := by unfold Go.len; omega
      simp only [hlt', decide_true, Bool.not_true, Bool.false_eq_true, if_false]
      have hidx : Go.idx vs (k : Int) = .ok (vs.getD k 0) := by
        unfold Go.idx
        have : (0:Int) ≤ k ∧ (k:Int) < vs.length := by omega
        simp [this]
      have hgd : vs.getD k 0 = vs[k] := by
        simp [List.getD_eq_getElem?_getD, List.getElem?_eq_getElem hlt]
      have hmem : vs.getD k 0 ∈ vs := by
        rw [hgd]; exact List.getElem_mem hlt
      obtain ⟨h0, h1⟩ := hv _ hmem
      simp only [hidx, bind_ok, toBytes_eq _ h0 h1]
      have hw : Go.wrap64 ((k : Int) + 1) = ((k + 1 : Nat) : Int) := by rw [Go.wrap64_id] <;> omega
      have hdrop : vs.drop k = vs.getD k 0 :: vs.drop (k + 1) := by
        rw [hgd]; exact List.drop_eq_getElem_cons hlt
      rw [hw, ih (k + 1) _ (by omega) (by omega), hdrop, encValues, List.append_assoc]
    · have hke : k = vs.length := by omega
      subst hke
      have hlt' : ¬ ((vs.length : Nat) : Int) < Go.len vs := by unfold Go.len; omega
      simp only [hlt', decide_false, Bool.not_false, if_true, pure_eq_ok, List.drop_length, encValues, List.append_nil]

/-- **`marshalBinary` on the translated code**: magic ‖ start ‖ end ‖ epoch ‖ capacity ‖ one uint32 per value, for every
    index whose block times fit the format (`fuel` > number of values) -/
theorem marshal_eq (i : Blocktimeindex_Index) (hv : ValuesOk i.values) (hl : i.values.length < 2 ^ 62) (fuel : Nat)
    (hf : i.values.length < fuel) :
    btMarshal fuel i = .ok (magic ++ B.le 8 i.start.toNat ++ B.le 8 i.end_.toNat ++ B.le 8 i.epoch.toNat ++ B.le 8 i.capacity.toNat
      ++ encValues i.values) := by
  unfold btMarshal
  simp only [toLE_eq, bind_ok, List.nil_append]
  have h := marshal_loop_eq fuel i i.values hv hl fuel 0
    (([98, 108, 111, 99, 107, 116, 105, 109, 101, 105, 110, 100, 101, 120] : List UInt8) ++ B.le 8 i.start.toNat ++ B.le 8 i.end_.toNat
      ++ B.le 8 i.epoch.toNat ++ B.le 8 i.capacity.toNat) (by omega) (by omega)
  simp only [Int.natCast_zero, List.drop_zero] at h
  rw [h]
  simp [magic]

theorem values_encValues (vs : List Int) (hv : ValuesOk vs) (rest : List UInt8) :
    values vs.length (encValues vs ++ rest) = vs := by
  induction vs with
  | nil => rfl
  | cons t r ih =>
    have ht := hv t (List.mem_cons_self ..)
    have hr : ValuesOk r := fun x hx => hv x (List.mem_cons_of_mem _ hx)
    simp only [List.length_cons, values, encValues, List.append_assoc]
    have hlen : (B.le 4 t.toNat).length = 4 := B.le_length 4 _
    rw [List.take_append_of_le_length (by omega), List.take_of_length_le (by omega), List.drop_append_of_le_length (by omega),
      List.drop_of_length_le (by omega), List.nil_append, ih hr]
    congr 1
    rw [B.unle_le]
    have : t.toNat % 256 ^ 4 = t.toNat := Nat.mod_eq_of_lt (by omega)
    rw [this]
    have : t.toNat % 4294967296 = t.toNat := Nat.mod_eq_of_lt (by omega)
    rw [this]
    omega

theorem encValues_length (vs : List Int) : (encValues vs).length = 4 * vs.length := by
  induction vs with
  | nil => rfl
  | cons t r ih => simp [encValues, B.le_length, ih]; omega

theorem rd_at (pre x post : List UInt8) : rd (pre ++ x ++ post) pre.length x.length = some x := by
  unfold rd
  have : pre.length + x.length ≤ (pre ++ x ++ post).length := by simp
  rw [if_pos this, List.append_assoc, List.drop_append_of_le_length (Nat.le_refl _), List.drop_length, List.nil_append,
    List.take_append_of_le_length (Nat.le_refl _), List.take_length]

theorem u64_le8 (v : UInt64) : u64 (B.le 8 v.toNat) = v := by
  unfold u64
  rw [B.unle_le_of_lt 8 v.toNat (by have := v.toNat_lt; omega)]
  simp

/-- what `marshalBinary` writes is accepted by `spec` and describes the index it was written from -/
theorem spec_encoded (i : Blocktimeindex_Index) (hv : ValuesOk i.values) (hcap : i.values.length = i.capacity.toNat)
    (he1 : i.start / 432000 = i.end_ / 432000) (he2 : i.start / 432000 = i.epoch) :
    spec (magic ++ B.le 8 i.start.toNat ++ B.le 8 i.end_.toNat ++ B.le 8 i.epoch.toNat ++ B.le 8 i.capacity.toNat ++ encValues i.values)
      = some i := by
  have hm : magic.length = 14 := rfl
  have l8 : ∀ v : Nat, (B.le 8 v).length = 8 := fun v => B.le_length 8 v
  unfold spec
  have r0 : rd (magic ++ B.le 8 i.start.toNat ++ B.le 8 i.end_.toNat ++ B.le 8 i.epoch.toNat ++ B.le 8 i.capacity.toNat ++ encValues i.values) 0 14
      = some magic := by
    have := rd_at [] magic (B.le 8 i.start.toNat ++ B.le 8 i.end_.toNat ++ B.le 8 i.epoch.toNat ++ B.le 8 i.capacity.toNat ++ encValues i.values)
    simpa [hm, List.append_assoc] using this
  have r1 : rd (magic ++ B.le 8 i.start.toNat ++ B.le 8 i.end_.toNat ++ B.le 8 i.epoch.toNat ++ B.le 8 i.capacity.toNat ++ encValues i.values) 14 8
      = some (B.le 8 i.start.toNat) := by
    have := rd_at magic (B.le 8 i.start.toNat) (B.le 8 i.end_.toNat ++ B.le 8 i.epoch.toNat ++ B.le 8 i.capacity.toNat ++ encValues i.values)
    simpa [hm, l8, List.append_assoc] using this
  have r2 : rd (magic ++ B.le 8 i.start.toNat ++ B.le 8 i.end_.toNat ++ B.le 8 i.epoch.toNat ++ B.le 8 i.capacity.toNat ++ encValues i.values) 22 8
      = some (B.le 8 i.end_.toNat) := by
    have := rd_at (magic ++ B.le 8 i.start.toNat) (B.le 8 i.end_.toNat) (B.le 8 i.epoch.toNat ++ B.le 8 i.capacity.toNat ++ encValues i.values)
    simpa [hm, l8, List.append_assoc] using this
  have r3 : rd (magic ++ B.le 8 i.start.toNat ++ B.le 8 i.end_.toNat ++ B.le 8 i.epoch.toNat ++ B.le 8 i.capacity.toNat ++ encValues i.values) 30 8
      = some (B.le 8 i.epoch.toNat) := by
    have := rd_at (magic ++ B.le 8 i.start.toNat ++ B.le 8 i.end_.toNat) (B.le 8 i.epoch.toNat) (B.le 8 i.capacity.toNat ++ encValues i.values)
    simpa [hm, l8, List.append_assoc] using this
  have r4 : rd (magic ++ B.le 8 i.start.toNat ++ B.le 8 i.end_.toNat ++ B.le 8 i.epoch.toNat ++ B.le 8 i.capacity.toNat ++ encValues i.values) 38 8
      = some (B.le 8 i.capacity.toNat) := by
    have := rd_at (magic ++ B.le 8 i.start.toNat ++ B.le 8 i.end_.toNat ++ B.le 8 i.epoch.toNat) (B.le 8 i.capacity.toNat) (encValues i.values)
    simpa [hm, l8, List.append_assoc] using this
  have hlen : (magic ++ B.le 8 i.start.toNat ++ B.le 8 i.end_.toNat ++ B.le 8 i.epoch.toNat ++ B.le 8 i.capacity.toNat ++ encValues i.values).length
      = 46 + 4 * i.values.length := by
    simp [hm, l8, encValues_length]; omega
  have hdrop : (magic ++ B.le 8 i.start.toNat ++ B.le 8 i.end_.toNat ++ B.le 8 i.epoch.toNat ++ B.le 8 i.capacity.toNat ++ encValues i.values).drop 46
      = encValues i.values := by
    have h46 : (magic ++ B.le 8 i.start.toNat ++ B.le 8 i.end_.toNat ++ B.le 8 i.epoch.toNat ++ B.le 8 i.capacity.toNat).length = 46 := by
      simp [hm, l8]
    rw [List.drop_append_of_le_length (by omega), ← h46, List.drop_length, List.nil_append]
  have he2' : i.end_ / 432000 = i.epoch := by rw [← he1]; exact he2
  rw [r0]
  simp only [Option.bind_eq_bind, Option.bind_some, ne_eq, not_true_eq_false, if_false]
  rw [r1]; simp only [Option.bind_some]
  rw [r2]; simp only [Option.bind_some]
  rw [r3]; simp only [Option.bind_some, u64_le8]
  rw [if_neg (by simp [he1]), if_neg (by simp [he2])]
  rw [r4]; simp only [Option.bind_some, u64_le8, hlen, hdrop]
  have hc : ¬ i.capacity.toNat > (46 + 4 * i.values.length - 46) / 4 := by
    have : (46 + 4 * i.values.length - 46) / 4 = i.values.length := by omega
    omega
  rw [if_neg hc, ← hcap]
  have hv' := values_encValues i.values hv []
  rw [List.append_nil] at hv'
  rw [hv']

/-- **round trip on the translated code** (C01: the block time recorded for a slot is the one read back): what
    `marshalBinary` writes for an index — value list as long as the capacity, start/end/epoch consistent, block times
    within uint32 — `unmarshalBinary` decodes to that very index. -/
theorem unmarshal_marshal (z i : Blocktimeindex_Index) (hv : ValuesOk i.values) (hcap : i.values.length = i.capacity.toNat)
    (hl : i.values.length < 2 ^ 40) (he1 : i.start / 432000 = i.end_ / 432000) (he2 : i.start / 432000 = i.epoch)
    (fuel : Nat) (hf : 46 + 4 * i.values.length < fuel) :
    (btMarshal fuel i >>= btUnmarshal fuel z) = .ok i := by
  rw [marshal_eq i hv (by omega) fuel (by omega), bind_ok]
  have hm : magic.length = 14 := rfl
  have hlen : (magic ++ B.le 8 i.start.toNat ++ B.le 8 i.end_.toNat ++ B.le 8 i.epoch.toNat ++ B.le 8 i.capacity.toNat ++ encValues i.values).length
      = 46 + 4 * i.values.length := by
    simp [hm, B.le_length, encValues_length]; omega
  have h := unmarshal_eq_spec z _ (by rw [hlen]; omega) fuel (by rw [hlen]; exact hf)
  rw [spec_encoded i hv hcap he1 he2] at h
  exact h

/-! ### non-vacuity: a concrete file, decoded by the translated code -/

def sample : List UInt8 :=
  magic ++ B.le 8 432000 ++ B.le 8 432001 ++ B.le 8 1 ++ B.le 8 2 ++ [1, 0, 0, 0, 0x78, 0x56, 0x34, 0x12]

def sampleIdx : Blocktimeindex_Index := { start := 432000, end_ := 432001, epoch := 1, capacity := 2, values := [1, 0x12345678] }

set_option maxRecDepth 100000 in
theorem spec_sample : spec sample = some sampleIdx := by decide

set_option maxRecDepth 100000 in
theorem spec_sample_cut : spec (sample.take 50) = none := by decide

/-- the translated decoder run on the sample file (through the theorem: hypotheses satisfiable, result as expected) -/
example : btUnmarshal 100 Blocktimeindex_Index.zero sample = .ok sampleIdx := by
  have h := unmarshal_eq_spec Blocktimeindex_Index.zero sample (by decide) 100 (by decide)
  rw [spec_sample] at h; exact h

example : ∃ t, btUnmarshal 100 Blocktimeindex_Index.zero (sample.take 50) = .error (.err t) := by
  have h := unmarshal_eq_spec Blocktimeindex_Index.zero (sample.take 50) (by decide) 100 (by decide)
  rw [spec_sample_cut] at h; exact h

example : btGet sampleIdx 432001 = .ok 0x12345678 := by
  rw [get_eq sampleIdx 432001 (by decide)]; rfl

end GoTies.BT

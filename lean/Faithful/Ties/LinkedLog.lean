import Faithful.Generated.GoFns
import Faithful.Lib.GsfaLog
import Faithful.Ties.Basic
import Faithful.Ties.C06
/-!
C06 tie: the record decoder of the address index's linked log (`gsfa/linkedlog/offset-size-slot.go`:
`uvarintReader.ReadUvarint / ReadByte`, `OffsetAndSizeAndSlot.FromReader`, `OffsetAndSizeAndSlotSliceFromBytes`),
translated from /repo's working tree on every run with its errors as data (`io.EOF`, `errors.Is`, `%w` wrapping), is the
model's `Gsfa.parseEntries` — for EVERY byte string: it never panics, never spins, ends silently at an EOF on a field
boundary (also in the middle of an entry) and fails on a malformed uvarint.  With `Gsfa.parse_enc` this gives, on the
code in the tree, `SliceFromBytes (concat (map Bytes es)) = es`.

Recorded with the translation: the interface `UvarintReader` has exactly one implementation in its package
(`*uvarintReader`; checked by the translator on every run) and is translated as that struct.
-/
namespace GoTies.LinkedLog
open Go Generated.G GoTies

/-- the runtime's `binary.Uvarint` (accumulator form, Go's overflow rule at the tenth byte) against the model's
    `Varint.get … 10` + `< 2^64` -/
theorem uvarint_go_eq (b : List UInt8) : ∀ (i x s : Nat), s = 7 * i → x < 2 ^ s → i ≤ 10 →
    match Varint.get b (10 - i) with
    | some (v, n) => if x + v * 2 ^ s < 2 ^ 64 then Go.uvarint.go b i x s = (UInt64.ofNat (x + v * 2 ^ s), (i : Int) + n) ∧ 0 < n
                     else (Go.uvarint.go b i x s).2 ≤ 0
    | none => (Go.uvarint.go b i x s).2 ≤ 0 := by
  induction b with
  | nil => intro i x s _ _ _; simp [Varint.get, Go.uvarint.go]
  | cons c rest ih =>
    intro i x s hs hx hi
    by_cases h10 : i = 10
    · subst h10
      simp only [Nat.sub_self, Varint.get, Go.uvarint.go, if_true]
      omega
    · obtain ⟨f, hf⟩ : ∃ f, 10 - i = f + 1 := ⟨9 - i, by omega⟩
      rw [hf]
      simp only [Varint.get, Go.uvarint.go, h10, if_false]
      have hc := c.toNat_lt
      by_cases hlt : c.toNat < 128
      · simp only [hlt, if_true]
        by_cases h9 : i = 9 ∧ c.toNat > 1
        · obtain ⟨h9a, h9b⟩ := h9
          subst h9a; subst hs
          have : ¬ (x + c.toNat * 2 ^ (7 * 9) < 2 ^ 64) := by
            have : 2 * 2 ^ 63 ≤ c.toNat * 2 ^ 63 := Nat.mul_le_mul_right _ h9b
            have e : (2:Nat) ^ 64 = 2 * 2 ^ 63 := by decide
            simp only [Nat.reduceMul]
            omega
          simp only [this, if_false, h9b, and_self, if_true]
          omega
        · simp only [h9, if_false]
          have hval : x + c.toNat * 2 ^ s < 2 ^ 64 := by
            by_cases h9' : i = 9
            · subst h9'; subst hs
              have hc1 : c.toNat ≤ 1 := by omega
              have : c.toNat * 2 ^ (7 * 9) ≤ 1 * 2 ^ (7 * 9) := Nat.mul_le_mul_right _ hc1
              have e : (2:Nat) ^ 64 = 2 * 2 ^ 63 := by decide
              simp only [Nat.reduceMul] at *
              omega
            · have hs7 : s + 7 ≤ 63 := by omega
              have h1 : c.toNat * 2 ^ s ≤ 127 * 2 ^ s := Nat.mul_le_mul_right _ (by omega)
              have h2 : x + c.toNat * 2 ^ s < 2 ^ (s + 7) := by
                rw [Nat.pow_add]; have : (2:Nat) ^ 7 = 128 := by decide
                rw [this]; omega
              have h3 : (2:Nat) ^ (s + 7) ≤ 2 ^ 63 := Nat.pow_le_pow_right (by omega) hs7
              have h4 : (2:Nat) ^ 63 < 2 ^ 64 := by decide
              omega
          simp only [hval, if_true]
          exact ⟨by simp, by omega⟩
      · simp only [hlt, if_false]
        have hx' : x + c.toNat % 128 * 2 ^ s < 2 ^ (s + 7) := by
          have h1 : c.toNat % 128 * 2 ^ s ≤ 127 * 2 ^ s := Nat.mul_le_mul_right _ (by omega)
          rw [Nat.pow_add]; have : (2:Nat) ^ 7 = 128 := by decide
          rw [this]; omega
        have hfi : f = 10 - (i + 1) := by omega
        have := ih (i + 1) (x + c.toNat % 128 * 2 ^ s) (s + 7) (by omega) hx' (by omega)
        rw [← hfi] at this
        cases hg : Varint.get rest f with
        | none => rw [hg] at this; simpa using this
        | some p =>
          obtain ⟨v, n⟩ := p
          rw [hg] at this
          simp only at this ⊢
          have key : x + c.toNat % 128 * 2 ^ s + v * 2 ^ (s + 7) = x + (c.toNat - 128 + 128 * v) * 2 ^ s := by
            rw [Nat.pow_add]
            have e7 : (2:Nat) ^ 7 = 128 := by decide
            rw [e7]
            have hm : c.toNat % 128 = c.toNat - 128 := by omega
            rw [hm, Nat.add_mul, Nat.mul_comm (2 ^ s) 128, ← Nat.mul_assoc, Nat.mul_comm v 128]
            omega
          rw [key] at this
          by_cases hv : x + (c.toNat - 128 + 128 * v) * 2 ^ s < 2 ^ 64
          · simp only [hv, if_true] at this ⊢
            obtain ⟨h1, h2⟩ := this
            refine ⟨?_, by omega⟩
            rw [h1]; congr 1; push_cast; omega
          · simp only [hv, if_false] at this ⊢
            exact this

/-- `binary.Uvarint` of the runtime = the model's `uvarint64`: a positive count with the model's value and count, or a
    non-positive count exactly when the model rejects -/
theorem uvarint_eq_model (b : List UInt8) :
    match Gsfa.uvarint64 b with
    | some (v, n) => Go.uvarint b = (UInt64.ofNat v, (n : Int)) ∧ 0 < n
    | none => (Go.uvarint b).2 ≤ 0 := by
  have := uvarint_go_eq b 0 0 0 (by omega) (by simp) (by omega)
  unfold Gsfa.uvarint64 Go.uvarint
  simp only [Nat.sub_zero, Nat.pow_zero, Nat.mul_one, Nat.zero_add, Int.natCast_zero, Int.zero_add] at this
  cases hg : Varint.get b 10 with
  | none => rw [hg] at this; simpa using this
  | some p =>
    obtain ⟨v, n⟩ := p
    rw [hg] at this
    simp only at this ⊢
    by_cases hv : v < 2 ^ 64
    · simp only [hv, if_true] at this ⊢; exact this
    · simp only [hv, if_false] at this ⊢; exact this

theorem get_le (b : List UInt8) : ∀ (f v n : Nat), Varint.get b f = some (v, n) → n ≤ b.length := by
  induction b with
  | nil => intro f v n h; simp [Varint.get] at h
  | cons c rest ih =>
    intro f v n h
    cases f with
    | zero => simp [Varint.get] at h
    | succ f =>
      simp only [Varint.get] at h
      by_cases hc : c.toNat < 128
      · simp only [hc, if_true, Option.some.injEq, Prod.mk.injEq] at h
        simp; omega
      · simp only [hc, if_false] at h
        cases hg : Varint.get rest f with
        | none => rw [hg] at h; simp at h
        | some p =>
          obtain ⟨v', n'⟩ := p
          rw [hg] at h
          simp only [Option.some.injEq, Prod.mk.injEq] at h
          have := ih f v' n' hg
          simp; omega

theorem uvarint64_le (b : List UInt8) (v n : Nat) (h : Gsfa.uvarint64 b = some (v, n)) : n ≤ b.length := by
  unfold Gsfa.uvarint64 at h
  cases hg : Varint.get b 10 with
  | none => rw [hg] at h; simp at h
  | some p =>
    obtain ⟨v', n'⟩ := p
    rw [hg] at h
    simp only at h
    by_cases hv : v' < 2 ^ 64
    · simp only [hv, if_true, Option.some.injEq, Prod.mk.injEq] at h
      obtain ⟨_, rfl⟩ := h
      exact get_le b 10 v' n' hg
    · simp [hv] at h

/-- the reader at position `p` of `buf` -/
def rd (p : Nat) (buf : List UInt8) : Linkedlog_uvarintReader := { pos := (p : Int), buf := buf }

/-- `uvarintReader.ReadUvarint` -/
theorem readUvarint_eq (buf : List UInt8) (p : Nat) (hp : p ≤ buf.length) (hlen : buf.length < 2 ^ 62) :
    uvrReadUvarint (rd p buf) =
      if buf.drop p = [] then .ok (0, Go.Error.eof, rd p buf)
      else match Gsfa.uvarint64 (buf.drop p) with
        | some (v, n) => .ok (UInt64.ofNat v, Go.Error.nil, rd (p + n) buf)
        | none => .ok (0, Go.Error.other "failed to parse uvarint", rd p buf) := by
  unfold uvrReadUvarint rd
  by_cases he : buf.drop p = []
  · have : p = buf.length := by
      have := List.drop_eq_nil_iff.mp he; omega
    have hge : ((p : Int) ≥ Go.len buf) := by unfold Go.len; omega
    simp only [he, if_true, hge, decide_true]
    rfl
  · have hlt : p < buf.length := by
      rcases Nat.lt_or_ge p buf.length with h | h
      · exact h
      · exact absurd (List.drop_eq_nil_iff.mpr h) he
    have hge : ¬ ((p : Int) ≥ Go.len buf) := by unfold Go.len; omega
    simp only [he, if_false, hge, decide_false, Bool.false_eq_true]
    have hs : Go.slice buf (p : Int) (Go.len buf) = .ok (buf.drop p) := by
      unfold Go.slice Go.len
      rw [if_pos (by omega)]
      simp only [Int.toNat_natCast, pure_eq_ok]
      rw [List.take_of_length_le (by simp)]
    rw [hs, bind_ok]
    have hu := uvarint_eq_model (buf.drop p)
    cases hm : Gsfa.uvarint64 (buf.drop p) with
    | none =>
      rw [hm] at hu
      simp only at hu ⊢
      have : decide ((Go.uvarint (buf.drop p)).2 ≤ 0) = true := by simpa using hu
      simp only [this, if_true]
      rfl
    | some q =>
      obtain ⟨v, n⟩ := q
      rw [hm] at hu
      obtain ⟨h1, h2⟩ := hu
      have hn := uvarint64_le _ _ _ hm
      simp only [List.length_drop] at hn
      have : ¬ ((n : Int) ≤ 0) := by omega
      simp only [h1, this, decide_false, Bool.false_eq_true, if_false]
      have hw : Go.wrap64 ((p : Int) + (n : Int)) = ((p + n : Nat) : Int) := by
        rw [Go.wrap64_id] <;> omega
      rw [hw]
      rfl

/-- `uvarintReader.ReadByte` -/
theorem readByte_eq (buf : List UInt8) (p : Nat) (hp : p ≤ buf.length) (hlen : buf.length < 2 ^ 62) :
    uvrReadByte (rd p buf) =
      match buf.drop p with
      | [] => .ok (0, Go.Error.eof, rd p buf)
      | c :: _ => .ok (c, Go.Error.nil, rd (p + 1) buf) := by
  unfold uvrReadByte rd
  cases he : buf.drop p with
  | nil =>
    have : p = buf.length := by
      have := List.drop_eq_nil_iff.mp he; omega
    have hge : ((p : Int) ≥ Go.len buf) := by unfold Go.len; omega
    simp only [hge, decide_true, if_true]
    rfl
  | cons c rest =>
    have hlt : p < buf.length := by
      rcases Nat.lt_or_ge p buf.length with h | h
      · exact h
      · have := List.drop_eq_nil_iff.mpr h; rw [this] at he; cases he
    have hge : ¬ ((p : Int) ≥ Go.len buf) := by unfold Go.len; omega
    simp only [hge, decide_false, Bool.false_eq_true, if_false]
    have hi : Go.idx buf (p : Int) = .ok c := by
      unfold Go.idx
      rw [if_pos (by omega)]
      have : buf.getD p default = c := by
        rw [List.getD_eq_getElem?_getD, ← List.head?_drop, he]; rfl
      simp only [Int.toNat_natCast, pure_eq_ok, this]
    rw [hi, bind_ok]
    have hw : Go.wrap64 ((p : Int) + 1) = ((p + 1 : Nat) : Int) := by
      rw [Go.wrap64_id] <;> omega
    rw [hw]
    rfl

def toGo (e : Gsfa.Entry) : Linkedlog_OffsetAndSizeAndSlot := { Offset := e.off, Size := e.size, Slot := e.slot, Flags := e.flags }

/-- one `FromReader` step on the bytes from position `p` on -/
inductive FR where
  | eof                         -- io.EOF on a field boundary
  | bad                         -- malformed uvarint
  | ok (e : Gsfa.Entry) (p' : Nat)

def frSpec (buf : List UInt8) (p : Nat) : FR :=
  if buf.drop p = [] then .eof else
  match Gsfa.uvarint64 (buf.drop p) with
  | none => .bad
  | some (off, n1) =>
    if buf.drop (p + n1) = [] then .eof else
    match Gsfa.uvarint64 (buf.drop (p + n1)) with
    | none => .bad
    | some (sz, n2) =>
      if buf.drop (p + n1 + n2) = [] then .eof else
      match Gsfa.uvarint64 (buf.drop (p + n1 + n2)) with
      | none => .bad
      | some (slot, n3) =>
        match buf.drop (p + n1 + n2 + n3) with
        | [] => .eof
        | fl :: _ => .ok ⟨UInt64.ofNat off, UInt64.ofNat sz, UInt64.ofNat slot, fl⟩ (p + n1 + n2 + n3 + 1)

/-- the translated `FromReader`, restated without the local re-bindings (tied to the translation by `rfl`) -/
def fromReaderM (oas0 : Linkedlog_OffsetAndSizeAndSlot) (r0 : Linkedlog_uvarintReader) :
    M (Go.Error × Linkedlog_OffsetAndSizeAndSlot × Linkedlog_uvarintReader) :=
  uvrReadUvarint r0 >>= fun t1 =>
  if (t1.2.1 != Go.Error.nil) = true then
    pure (Go.Error.wrap "failed to read offset: %w" t1.2.1, { oas0 with Offset := t1.1 }, t1.2.2)
  else uvrReadUvarint t1.2.2 >>= fun t2 =>
  if (t2.2.1 != Go.Error.nil) = true then
    pure (Go.Error.wrap "failed to read size: %w" t2.2.1, { oas0 with Offset := t1.1, Size := t2.1 }, t2.2.2)
  else uvrReadUvarint t2.2.2 >>= fun t3 =>
  if (t3.2.1 != Go.Error.nil) = true then
    pure (Go.Error.wrap "failed to read slot: %w" t3.2.1, { oas0 with Offset := t1.1, Size := t2.1, Slot := t3.1 }, t3.2.2)
  else uvrReadByte t3.2.2 >>= fun t4 =>
  if (t4.2.1 != Go.Error.nil) = true then
    pure (Go.Error.wrap "failed to read flags: %w" t4.2.1, { oas0 with Offset := t1.1, Size := t2.1, Slot := t3.1 }, t4.2.2)
  else pure (Go.Error.nil, { Offset := t1.1, Size := t2.1, Slot := t3.1, Flags := t4.1 }, t4.2.2)

theorem fromReader_unfold (oas0 : Linkedlog_OffsetAndSizeAndSlot) (r0 : Linkedlog_uvarintReader) :
    oassFromReader oas0 r0 = fromReaderM oas0 r0 := rfl

theorem fromReader_eq (buf : List UInt8) (p : Nat) (hp : p ≤ buf.length) (hlen : buf.length < 2 ^ 62)
    (oas0 : Linkedlog_OffsetAndSizeAndSlot) :
    match frSpec buf p with
    | .eof => ∃ o r, oassFromReader oas0 (rd p buf) = .ok (Go.Error.eof, o, r)
    | .bad => ∃ t o r, oassFromReader oas0 (rd p buf) = .ok (Go.Error.other t, o, r)
    | .ok e p' => oassFromReader oas0 (rd p buf) = .ok (Go.Error.nil, toGo e, rd p' buf) ∧ p < p' ∧ p' ≤ buf.length := by
  rw [fromReader_unfold]
  unfold frSpec fromReaderM
  rw [readUvarint_eq buf p hp hlen]
  by_cases h0 : buf.drop p = []
  · simp only [h0, if_true, bind_ok]
    exact ⟨_, _, rfl⟩
  · simp only [h0, if_false]
    cases h1 : Gsfa.uvarint64 (buf.drop p) with
    | none => simp only [bind_ok]; exact ⟨_, _, _, rfl⟩
    | some q1 =>
      obtain ⟨off, n1⟩ := q1
      have hn1 := uvarint64_le _ _ _ h1
      simp only [List.length_drop] at hn1
      have hu1 := uvarint_eq_model (buf.drop p)
      rw [h1] at hu1
      simp only [bind_ok]
      have hnil : ¬ ((Go.Error.nil != Go.Error.nil) = true) := by decide
      simp only [hnil]
      rw [readUvarint_eq buf (p + n1) (by omega) hlen]
      by_cases h0b : buf.drop (p + n1) = []
      · simp only [h0b, if_true, bind_ok]
        exact ⟨_, _, rfl⟩
      · simp only [h0b, if_false]
        cases h2 : Gsfa.uvarint64 (buf.drop (p + n1)) with
        | none => simp only [bind_ok]; exact ⟨_, _, _, rfl⟩
        | some q2 =>
          obtain ⟨sz, n2⟩ := q2
          have hn2 := uvarint64_le _ _ _ h2
          simp only [List.length_drop] at hn2
          simp only [bind_ok, hnil]
          rw [readUvarint_eq buf (p + n1 + n2) (by omega) hlen]
          by_cases h0c : buf.drop (p + n1 + n2) = []
          · simp only [h0c, if_true, bind_ok]
            exact ⟨_, _, rfl⟩
          · simp only [h0c, if_false]
            cases h3 : Gsfa.uvarint64 (buf.drop (p + n1 + n2)) with
            | none => simp only [bind_ok]; exact ⟨_, _, _, rfl⟩
            | some q3 =>
              obtain ⟨slot, n3⟩ := q3
              have hn3 := uvarint64_le _ _ _ h3
              simp only [List.length_drop] at hn3
              simp only [bind_ok, hnil]
              rw [readByte_eq buf (p + n1 + n2 + n3) (by omega) hlen]
              cases h4 : buf.drop (p + n1 + n2 + n3) with
              | nil => simp only [bind_ok]; exact ⟨_, _, rfl⟩
              | cons fl rest =>
                simp only [bind_ok, hnil]
                have hl4 : p + n1 + n2 + n3 < buf.length := by
                  rcases Nat.lt_or_ge (p + n1 + n2 + n3) buf.length with h | h
                  · exact h
                  · have := List.drop_eq_nil_iff.mpr h; rw [this] at h4; cases h4
                have hp1 := (uvarint_eq_model (buf.drop p))
                rw [h1] at hp1
                refine ⟨rfl, by omega, by omega⟩

/-- one iteration of the translated loop (tied to the translation by `rfl`) -/
theorem loop1_succ (fuel0 f : Nat) (acc : List Linkedlog_OffsetAndSizeAndSlot) (r : Linkedlog_uvarintReader) :
    oassSliceFromBytes.loop1 fuel0 (f + 1) acc r =
      (oassFromReader Linkedlog_OffsetAndSizeAndSlot.zero r >>= fun t2 =>
        if (t2.1 != Go.Error.nil) = true then
          (if (Go.Error.is t2.1 Go.Error.eof) = true then pure (LoopRes.done (acc, t2.2.2))
           else pure (LoopRes.ret (([] : List Linkedlog_OffsetAndSizeAndSlot), Go.Error.wrap "failed to parse offset and size: %w" t2.1)))
        else oassSliceFromBytes.loop1 fuel0 f (acc ++ [t2.2.1]) t2.2.2) := rfl

/-- the model's step on the suffix `buf.drop p` is `frSpec buf p` -/
theorem parseEntries_succ (buf : List UInt8) (p f : Nat) :
    Gsfa.parseEntries (f + 1) (buf.drop p) =
      match frSpec buf p with
      | .eof => .ok []
      | .bad => .error (.err "failed to parse uvarint")
      | .ok e p' => (match Gsfa.parseEntries f (buf.drop p') with
          | .ok es => .ok (e :: es)
          | .error x => .error x) := by
  unfold frSpec
  rw [Gsfa.parseEntries]
  by_cases h0 : buf.drop p = []
  · simp [h0]
  · have : (buf.drop p).isEmpty = false := by simpa using h0
    simp only [this, Bool.false_eq_true, if_false, h0]
    cases h1 : Gsfa.uvarint64 (buf.drop p) with
    | none => rfl
    | some q1 =>
      obtain ⟨off, n1⟩ := q1
      simp only [List.drop_drop]
      by_cases h0b : buf.drop (p + n1) = []
      · simp [h0b]
      · have : (buf.drop (p + n1)).isEmpty = false := by simpa using h0b
        simp only [this, Bool.false_eq_true, if_false, h0b]
        cases h2 : Gsfa.uvarint64 (buf.drop (p + n1)) with
        | none => rfl
        | some q2 =>
          obtain ⟨sz, n2⟩ := q2
          simp only
          by_cases h0c : buf.drop (p + n1 + n2) = []
          · simp [h0c]
          · have : (buf.drop (p + n1 + n2)).isEmpty = false := by simpa using h0c
            simp only [this, Bool.false_eq_true, if_false, h0c]
            cases h3 : Gsfa.uvarint64 (buf.drop (p + n1 + n2)) with
            | none => rfl
            | some q3 =>
              obtain ⟨slot, n3⟩ := q3
              simp only
              cases h4 : buf.drop (p + n1 + n2 + n3) with
              | nil => rfl
              | cons fl rest =>
                simp only
                have : buf.drop (p + n1 + n2 + n3 + 1) = rest := by
                  rw [← List.drop_drop, h4]; rfl
                rw [this]
                cases Gsfa.parseEntries f rest <;> rfl

/-- the translated loop from position `p` = the model's `parseEntries` on the bytes from `p` on -/
theorem loop_eq (buf : List UInt8) (hlen : buf.length < 2 ^ 62) (fuel0 : Nat) :
    ∀ (f p : Nat) (acc : List Linkedlog_OffsetAndSizeAndSlot), p ≤ buf.length → buf.length - p < f →
    match Gsfa.parseEntries f (buf.drop p) with
    | .ok es => ∃ r, oassSliceFromBytes.loop1 fuel0 f acc (rd p buf) = .ok (LoopRes.done (acc ++ es.map toGo, r))
    | .error _ => ∃ t, oassSliceFromBytes.loop1 fuel0 f acc (rd p buf)
        = .ok (LoopRes.ret (([] : List Linkedlog_OffsetAndSizeAndSlot), Go.Error.other t)) := by
  intro f
  induction f with
  | zero => intro p acc _ h; omega
  | succ f ih =>
    intro p acc hp hf
    rw [parseEntries_succ, loop1_succ]
    have hfr := fromReader_eq buf p hp hlen Linkedlog_OffsetAndSizeAndSlot.zero
    cases hs : frSpec buf p with
    | eof =>
      rw [hs] at hfr
      obtain ⟨o, r, h⟩ := hfr
      refine ⟨r, ?_⟩
      rw [h]; simp only [bind_ok, List.map_nil, List.append_nil]; rfl
    | bad =>
      rw [hs] at hfr
      obtain ⟨t, o, r, h⟩ := hfr
      refine ⟨t, ?_⟩
      rw [h]; rfl
    | ok e p' =>
      rw [hs] at hfr
      obtain ⟨h, hlt, hle⟩ := hfr
      rw [h]
      simp only [bind_ok]
      have hnil : ¬ ((Go.Error.nil != Go.Error.nil) = true) := by decide
      simp only [hnil]
      have := ih p' (acc ++ [toGo e]) hle (by omega)
      cases hm : Gsfa.parseEntries f (buf.drop p') with
      | ok es =>
        rw [hm] at this
        obtain ⟨r, hr⟩ := this
        refine ⟨r, ?_⟩
        rw [hr]; simp
      | error x =>
        rw [hm] at this
        exact this

/-- **tie**: `OffsetAndSizeAndSlotSliceFromBytes(buf)`, as translated from the source, = the model's `parseEntries`, for
    every byte string shorter than 2^62 and every fuel above its length: the entries and a nil error, or no entries and
    a non-EOF error; it never panics and never spins -/
theorem gen_oassSliceFromBytes_eq_model (buf : List UInt8) (fuel : Nat) (hf : buf.length < fuel) (hlen : buf.length < 2 ^ 62) :
    match Gsfa.parseEntries fuel buf with
    | .ok es => oassSliceFromBytes fuel buf = .ok (es.map toGo, Go.Error.nil)
    | .error _ => ∃ t, oassSliceFromBytes fuel buf = .ok ([], Go.Error.other t) := by
  unfold oassSliceFromBytes
  have hmk : Go.makeOf Linkedlog_OffsetAndSizeAndSlot.zero (0 : Int) = .ok [] := by
    unfold Go.makeOf; rw [if_pos (by omega)]; rfl
  have hr : ({ Linkedlog_uvarintReader.zero with buf := buf } : Linkedlog_uvarintReader) = rd 0 buf := rfl
  have := loop_eq buf hlen fuel fuel 0 [] (by omega) (by omega)
  simp only [List.drop_zero] at this
  cases hm : Gsfa.parseEntries fuel buf with
  | ok es =>
    rw [hm] at this
    obtain ⟨r, h⟩ := this
    simp only [hmk, bind_ok, hr, h, List.nil_append]
    rfl
  | error x =>
    rw [hm] at this
    obtain ⟨t, h⟩ := this
    refine ⟨t, ?_⟩
    simp only [hmk, bind_ok, hr, h]
    rfl

/-- on the code in the tree: what `Bytes()` wrote for each entry, concatenated, is read back entry for entry -/
theorem gen_slice_roundtrip (es : List Gsfa.Entry) (fuel : Nat) (hf : (Gsfa.encEntries es).length < fuel)
    (hlen : (Gsfa.encEntries es).length < 2 ^ 62) :
    oassSliceFromBytes fuel (Gsfa.encEntries es) = .ok (es.map toGo, Go.Error.nil) := by
  have := gen_oassSliceFromBytes_eq_model (Gsfa.encEntries es) fuel hf hlen
  rw [Gsfa.parse_enc es fuel (by have := Gsfa.encEntries_length_ge es; omega)] at this
  exact this

/-- examples through the theorem's subject: a whole record, one cut inside an entry at a field boundary (the partial
    entry disappears silently), one cut inside a uvarint (error) -/
example : oassSliceFromBytes 20 [0xac, 0x02, 5, 1, 3, 7, 8, 9, 0] =
    .ok ([{ Offset := 300, Size := 5, Slot := 1, Flags := 3 }, { Offset := 7, Size := 8, Slot := 9, Flags := 0 }], Go.Error.nil) := by rfl
example : oassSliceFromBytes 20 [0xac, 0x02, 5, 1, 3, 7, 8] =
    .ok ([{ Offset := 300, Size := 5, Slot := 1, Flags := 3 }], Go.Error.nil) := by rfl
example : oassSliceFromBytes 20 [0xac, 0x02, 5, 1, 3, 7, 0x80] =
    .ok ([], Go.Error.wrap "failed to parse offset and size: %w" (Go.Error.wrap "failed to read slot: %w" (Go.Error.other "failed to parse uvarint"))) := by rfl

end GoTies.LinkedLog

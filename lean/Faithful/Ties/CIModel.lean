import Faithful.Generated.GoFns
import Faithful.Lib.CompactIndex
import Faithful.Lib.CompactIndexBytes
import Faithful.Ties.Basic
import Faithful.Ties.CILookup
import Faithful.Ties.CIOpen
import Faithful.Properties.C04
/-!
C04 bridge: `lookupSpec` (what the translated `DB.Lookup` computes, `Ties/CILookup.lean`) is the model's byte-level
reader `CI.lookupB` (the function `lookupB_encode`, `build_lookup`, `lookup_sound` of C04 are stated about), for value
sizes up to 252 and bucket headers with a hash length up to 3 — i.e. for every file the format's own reader accepts.
-/
namespace GoTies.CIModel
open Go Generated.G GoTies GoTies.BkHas GoTies.CILookup

/-- `searchB` looks at its getter only below `max` -/
theorem searchB_congr (g1 g2 : Nat → Option CI.Ent) (x max : Nat) (h : ∀ i, i < max → g1 i = g2 i) :
    ∀ (f n : Nat), CI.searchB g1 x max f n = CI.searchB g2 x max f n := by
  intro f
  induction f with
  | zero => intro n; rfl
  | succ f ih =>
    intro n
    rw [CI.searchB, CI.searchB]
    by_cases hn : n < max
    · simp only [hn, if_true]
      rw [h n hn]
      cases g2 n with
      | none => rfl
      | some e =>
        simp only
        by_cases he : e.1 = x
        · simp [he]
        · simp only [he, if_false]
          exact ih _
    · simp only [hn, if_false]

/-- the search does not depend on the fuel once the fuel exceeds what is left of the table -/
theorem searchB_fuel (get : Nat → Option CI.Ent) (x max : Nat) :
    ∀ (f1 f2 n : Nat), max < n + f1 → max < n + f2 → CI.searchB get x max f1 n = CI.searchB get x max f2 n := by
  intro f1
  induction f1 with
  | zero =>
    intro f2 n h1 h2
    cases f2 with
    | zero => rfl
    | succ f2 =>
      have : ¬ n < max := by omega
      simp [CI.searchB, this]
  | succ f1 ih =>
    intro f2 n h1 h2
    cases f2 with
    | zero =>
      have : ¬ n < max := by omega
      simp [CI.searchB, this]
    | succ f2 =>
      rw [CI.searchB, CI.searchB]
      by_cases hn : n < max
      · simp only [hn, if_true]
        cases get n with
        | none => rfl
        | some e =>
          simp only
          by_cases hk : e.1 = x
          · simp [hk]
          · simp only [hk, if_false]
            by_cases hl : e.1 < x
            · simp only [hl, if_true]; exact ih f2 (2 * n + 2) (by omega) (by omega)
            · simp only [hl, if_false]; exact ih f2 (2 * n + 1) (by omega) (by omega)
      · simp only [hn, if_false]

/-- the mask of `BucketHeader.Hash` (uint8 arithmetic in the shift count) is the model's mask, for hash lengths 0..3 -/
theorem mask_eq (v : UInt8) (hv : v.toNat ≤ 3) :
    (Go.shr64 18446744073709551615 ((64 : UInt8) - v * 8).toNat).toNat =
      (if (64 + 256 - (v.toNat * 8) % 256) % 256 ≥ 64 then 0 else (2 ^ 64 - 1) / 2 ^ ((64 + 256 - (v.toNat * 8) % 256) % 256)) := by
  have hc : v = 0 ∨ v = 1 ∨ v = 2 ∨ v = 3 := by
    have h : v.toNat = 0 ∨ v.toNat = 1 ∨ v.toNat = 2 ∨ v.toNat = 3 := by omega
    rcases h with h | h | h | h
    · left; exact UInt8.toNat_inj.mp h
    · right; left; exact UInt8.toNat_inj.mp h
    · right; right; left; exact UInt8.toNat_inj.mp h
    · right; right; right; exact UInt8.toNat_inj.mp h
  rcases hc with rfl | rfl | rfl | rfl <;> decide

/-- how a verdict of the model's reader reads as a result of `DB.Lookup` -/
def Rel : CI.Look → M (List UInt8 × Go.Error) → Prop
  | .found v, r => r = .ok (v, Go.Error.nil)
  | .notFound, r => r = .ok ([], Go.Error.other "ErrNotFound")
  | .err, r => ∃ e, e ≠ Go.Error.nil ∧ e ≠ Go.Error.other "ErrNotFound" ∧ r = .ok ([], e)
  | .hang, _ => False

theorem searchB_no_hang (get : Nat → Option CI.Ent) (x max : Nat) : ∀ (f n : Nat), CI.searchB get x max f n ≠ .hang := by
  intro f
  induction f with
  | zero => intro n h; cases h
  | succ f ih =>
    intro n
    rw [CI.searchB]
    split
    · split
      · intro h; cases h
      · split
        · intro h; cases h
        · exact ih _
    · intro h; cases h

theorem unle4s_lt (b : List UInt8) (o : Nat) : B.unle (B.slice b o 4) < 2 ^ 32 := by
  have := unle_lt (B.slice b o 4)
  have h2 : (B.slice b o 4).length ≤ 4 := by unfold B.slice; rw [List.length_take]; omega
  have e : (256 : Nat) ^ 4 = 2 ^ 32 := by decide
  calc B.unle (B.slice b o 4) < 256 ^ (B.slice b o 4).length := this
    _ ≤ 256 ^ 4 := Nat.pow_le_pow_right (by omega) h2
    _ = 2 ^ 32 := e

/-- **bridge**: what the translated `DB.Lookup` computes (`lookupSpec`) is the model's byte-level reader `CI.lookupB`, for
    every file, header size, bucket count, key and pair of hash functions, when the value size is at most 252 and the
    bucket header (if readable) has a hash length of at most 3 -/
theorem lookupSpec_rel_lookupB (hf : CI.HF) (eh : UInt32 → List UInt8 → UInt64) (l : List UInt8)
    (hs vs nb i : Nat) (m : List (List UInt8 × List UInt8)) (key : List UInt8) (fuel : Nat)
    (hvs : vs ≤ 252) (hb : hf.bucket key nb = some i)
    (heh : ∀ n k, (eh n k).toNat = hf.entry64 n.toNat k)
    (hhl : i < nb → hs + 16 * i + 16 ≤ l.length → (((l.drop (hs + 16 * i)).take 16).getD 8 0).toNat ≤ 3)
    (hfu : 2 ^ 32 ≤ fuel) :
    Rel (CI.lookupB hf l.toArray ⟨vs, nb, hs, m⟩ key) (lookupSpec eh l hs (UInt64.ofNat vs) nb i key fuel) := by
  unfold CI.lookupB lookupSpec
  rw [hb]
  simp only
  have hvsn : (UInt64.ofNat vs).toNat = vs := by rw [UInt64.toNat_ofNat']; exact Nat.mod_eq_of_lt (by omega)
  have hvs8 : (UInt64.ofNat vs).toUInt8.toNat = vs := by
    rw [UInt64.toNat_toUInt8, hvsn]; exact Nat.mod_eq_of_lt (by omega)
  by_cases hr : i ≥ nb
  · rw [if_pos hr, if_pos hr]
    exact ⟨_, (by intro h; cases h), (by simp), rfl⟩
  · have hn252 : ¬ (vs > 252) := by omega
    rw [if_neg hr, if_neg hr, hvsn, if_neg hn252]
    have e16 : Generated.bucketHdrLen = 16 := by decide
    rw [e16, CI.rd_toArray]
    by_cases hh : hs + 16 * i + 16 ≤ l.length
    · rw [if_pos hh, if_pos hh]
      simp only
      have h3 := hhl (by omega) hh
      have hslice : B.slice l (hs + 16 * i) 16 = (l.drop (hs + 16 * i)).take 16 := rfl
      rw [hslice]
      generalize (l.drop (hs + 16 * i)).take 16 = bh at h3 ⊢
      have hHL : (hdrOf { Compactindexsized_BucketHeader.zero with headerSize := (hs : Int) } bh).HashLen = bh.getD 8 0 := rfl
      have hNE : (hdrOf { Compactindexsized_BucketHeader.zero with headerSize := (hs : Int) } bh).NumEntries.toNat = B.unle (B.slice bh 4 4) := by
        show (UInt32.ofNat (B.unle (B.slice bh 4 4))).toNat = _
        rw [UInt32.toNat_ofNat']; exact Nat.mod_eq_of_lt (unle4s_lt bh 4)
      have hHD : (hdrOf { Compactindexsized_BucketHeader.zero with headerSize := (hs : Int) } bh).HashDomain.toNat = B.unle (B.slice bh 0 4) := by
        show (UInt32.ofNat (B.unle (B.slice bh 0 4))).toNat = _
        rw [UInt32.toNat_ofNat']; exact Nat.mod_eq_of_lt (unle4s_lt bh 0)
      have hFO : (hdrOf { Compactindexsized_BucketHeader.zero with headerSize := (hs : Int) } bh).FileOffset.toNat = B.unle (B.slice bh 10 6) := by
        show (UInt64.ofNat (B.unle (B.slice bh 10 6))).toNat = _
        have := unle6_lt bh
        have e : (2:Nat) ^ 48 < 2 ^ 64 := by decide
        rw [UInt64.toNat_ofNat']; exact Nat.mod_eq_of_lt (by omega)
      have hn3 : ¬ ((bh.getD 8 0).toNat > 3) := by omega
      rw [hHL, if_neg hn3, hNE, hFO, hvs8]
      have hT : (targetOf eh (hdrOf { Compactindexsized_BucketHeader.zero with headerSize := (hs : Int) } bh) key).toNat =
          hf.entry64 (B.unle (B.slice bh 0 4)) key &&&
            (if (64 + 256 - ((bh.getD 8 0).toNat * 8) % 256) % 256 ≥ 64 then 0
             else (2 ^ 64 - 1) / 2 ^ ((64 + 256 - ((bh.getD 8 0).toNat * 8) % 256) % 256)) := by
        unfold targetOf
        rw [UInt64.toNat_and, heh, hHD, hHL, mask_eq _ h3]
      rw [hT]
      have hstr : CI.stride vs = 3 + vs := by
        unfold CI.stride
        have : Generated.hashSize = 3 := by decide
        rw [this, Nat.mod_eq_of_lt (show vs < 256 by omega), Nat.mod_eq_of_lt (show 3 + vs < 256 by omega)]
      have how : vs % 256 = vs := Nat.mod_eq_of_lt (by omega)
      rw [hstr, how]
      generalize hne : B.unle (B.slice bh 4 4) = ne
      generalize B.unle (B.slice bh 10 6) = fo
      generalize (hf.entry64 (B.unle (B.slice bh 0 4)) key &&&
            (if (64 + 256 - ((bh.getD 8 0).toNat * 8) % 256) % 256 ≥ 64 then 0
             else (2 ^ 64 - 1) / 2 ^ ((64 + 256 - ((bh.getD 8 0).toNat * 8) % 256) % 256))) = tg
      generalize (bh.getD 8 0).toNat = hln
      -- the two getters agree below `ne`
      have hget : ∀ idx, idx < ne →
          (fun (idx : Nat) => if idx * (3 + vs) + (3 + vs) > ne * (3 + vs) then none else
              match CI.rd l.toArray (fo + idx * (3 + vs)) (3 + vs) with
              | none => none
              | some eb => some (B.unle (eb.take hln), (eb.drop hln).take vs)) idx
            = getE l fo (3 + vs) hln vs idx := by
        intro idx hidx
        have hmul : idx * (3 + vs) + (3 + vs) ≤ ne * (3 + vs) := by
          have : (idx + 1) * (3 + vs) ≤ ne * (3 + vs) := Nat.mul_le_mul_right _ hidx
          rw [Nat.add_mul, Nat.one_mul] at this; exact this
        simp only
        rw [if_neg (by omega), CI.rd_toArray]
        unfold getE
        by_cases hin : fo + idx * (3 + vs) + (3 + vs) ≤ l.length
        · rw [if_pos hin, if_pos hin]; rfl
        · rw [if_neg hin, if_neg hin]
      have hne32 : ne < 2 ^ 32 := by rw [← hne]; exact unle4s_lt bh 4
      have key : ∀ g1 : Nat → Option CI.Ent, (∀ idx, idx < ne → g1 idx = getE l fo (3 + vs) hln vs idx) →
          Rel (CI.searchB g1 tg ne (ne + 1) 0) (lookToRes (CI.searchB (getE l fo (3 + vs) hln vs) tg ne fuel 0)) := by
        intro g1 hg
        rw [searchB_congr g1 _ tg ne hg, searchB_fuel _ tg ne (ne + 1) fuel 0 (by omega) (by omega)]
        cases hsr : CI.searchB (getE l fo (3 + vs) hln vs) tg ne fuel 0 with
        | found v => exact rfl
        | notFound => exact rfl
        | err => exact ⟨_, (by intro h; cases h), (by simp), rfl⟩
        | hang => exact absurd hsr (searchB_no_hang _ _ _ _ _)
      exact key _ hget
    · rw [if_neg hh, if_neg hh]
      exact ⟨_, (by intro h; cases h), (by simp), rfl⟩

/-- in a file the model's encoder writes, every bucket header carries hash length 3 -/
theorem encoded_hashLen (ix : CI.IndexA) (ok : CI.EncOk ix) (i : Nat) (hi : i < ix.numBuckets)
    (hh : (CI.headerBytes ix.valueSize ix.numBuckets ix.metaKVs).length + 16 * i + 16 ≤ (CI.encode ix).length) :
    ((((CI.encode ix).drop ((CI.headerBytes ix.valueSize ix.numBuckets ix.metaKVs).length + 16 * i)).take 16).getD 8 0).toNat ≤ 3 := by
  have hF : CI.encode ix = (CI.headerBytes ix.valueSize ix.numBuckets ix.metaKVs ++
      CI.tableFrom ix.valueSize ix.buckets ((CI.headerBytes ix.valueSize ix.numBuckets ix.metaKVs).length + 16 * ix.buckets.length))
      ++ ix.buckets.flatMap (CI.bucketBody ix.valueSize) := by
    rw [CI.encode, ok.len]; rfl
  have hib : i < ix.buckets.length := by rw [ok.len]; exact hi
  obtain ⟨off, _, hrd, _⟩ := CI.bucket_reads _ ix.valueSize ix.buckets (CI.encode ix) hF ok.size i hib
  rw [CI.rd_toArray, if_pos hh] at hrd
  have hs : B.slice (CI.encode ix) ((CI.headerBytes ix.valueSize ix.numBuckets ix.metaKVs).length + 16 * i) 16
      = CI.bucketHeader (ix.buckets[i]'hib) off := Option.some.inj hrd
  have : ((CI.encode ix).drop ((CI.headerBytes ix.valueSize ix.numBuckets ix.metaKVs).length + 16 * i)).take 16
      = CI.bucketHeader (ix.buckets[i]'hib) off := hs
  rw [this, CI.bucketHeader_hashLen]
  omega

/-- **C04 on the code in the tree**: on the file the model's encoder writes for an index (`CI.encode ix`, compared byte for
    byte with the real builder's files on every run), the translated `DB.Lookup` answers what the abstract reader
    `CI.lookupA` answers — the inserted value for an inserted key (`build_lookup`), `ErrNotFound` for a key whose hash is
    not in its bucket — for every index within the format's limits, every key, both hash functions arbitrary -/
theorem gen_lookup_on_encoded (hf : CI.HF) (xx : List UInt8 → UInt64) (eh : UInt32 → List UInt8 → UInt64)
    (ix : CI.IndexA) (ok : CI.EncOk ix) (hv : CI.ValsOk ix) (key : List UInt8) (fuel : Nat) (i : Nat)
    (db : Compactindexsized_DB)
    (hS : db.Stream = memRd (CI.encode ix))
    (hH : db.headerSize = ((CI.headerBytes ix.valueSize ix.numBuckets ix.metaKVs).length : Int))
    (hV : db.Header.ValueSize = UInt64.ofNat ix.valueSize) (hN : db.Header.NumBuckets = UInt32.ofNat ix.numBuckets)
    (hb : hf.bucket key ix.numBuckets = some i)
    (hbh : ciBucketHash xx fuel db.Header key = .ok (UInt64.ofNat i))
    (heh : ∀ n k, (eh n k).toNat = hf.entry64 n.toNat k) (hfu : 2 ^ 32 ≤ fuel) (hi64 : i < 2 ^ 64) :
    Rel (CI.lookupA hf ix key) (ciDBLookup xx eh fuel db key) := by
  have hvs252 : ix.valueSize ≤ 252 := by have := ok.vs_le; have : Generated.hashSize = 3 := by decide
                                         omega
  have hsz := ok.size
  have hHd : (CI.headerBytes ix.valueSize ix.numBuckets ix.metaKVs).length ≤ (CI.encode ix).length := by
    unfold CI.encode; simp only [List.length_append]; omega
  have hne0 : db.Header.ValueSize ≠ 0 := by
    rw [hV]; intro hc
    have h1 := congrArg UInt64.toNat hc
    have hlt : ix.valueSize < 2 ^ 64 := by omega
    rw [UInt64.toNat_ofNat', Nat.mod_eq_of_lt hlt] at h1
    have h2 := ok.vs_pos
    have h0 : (0 : UInt64).toNat = 0 := rfl
    rw [h0] at h1
    omega
  have e48 : (2 : Nat) ^ 48 < 2 ^ 62 := by decide
  rw [gen_ciDBLookup_eq_spec xx eh fuel db (CI.encode ix) _ key (UInt64.ofNat i) hS hH hne0 (by omega) hfu hbh]
  have hin : (UInt64.ofNat i).toNat = i := by rw [UInt64.toNat_ofNat']; exact Nat.mod_eq_of_lt hi64
  have hnn : (UInt32.ofNat ix.numBuckets).toNat = ix.numBuckets := by
    rw [UInt32.toNat_ofNat']; exact Nat.mod_eq_of_lt ok.nb_lt
  rw [hV, hN, hnn, hin, ← CI.lookupB_encode hf ix ok hv key]
  exact lookupSpec_rel_lookupB hf eh (CI.encode ix) _ ix.valueSize ix.numBuckets i ix.metaKVs key fuel hvs252 hb heh
    (fun hi hh => encoded_hashLen ix ok i hi hh) hfu

/-! ### `Open` on the encoder's file -/

/-- on any file that starts with the model's header bytes, `openSpec` returns the header fields and the header length -/
theorem openSpec_headerBytes_append (vs nb : Nat) (m : IndexMeta.KVs) (rest : List UInt8) (hvs : 0 < vs) (hvs2 : vs < 2 ^ 64)
    (hnb : 0 < nb) (hnb2 : nb < 2 ^ 32) (hml : m.length ≤ 255) (hm : ∀ kv ∈ m, kv.1.length ≤ 255 ∧ kv.2.length ≤ 255) :
    CIOpen.openSpec (CI.headerBytes vs nb m ++ rest) = some (vs, nb, m, (CI.headerBytes vs nb m).length) := by
  have hmb := CI.metaBytes_length_le m hm
  have hlen := CI.headerBytes_length vs nb m
  have hload := CIHeader.loadSpec_headerBytes vs nb m hvs hvs2 hnb hnb2 hml hm
  obtain ⟨R, hR⟩ : ∃ R, R = B.le 8 vs ++ B.le 4 nb ++ [UInt8.ofNat Generated.compactindexsizedVersion] ++ CI.metaBytes m := ⟨_, rfl⟩
  have hRl : R.length = 13 + (CI.metaBytes m).length := by
    rw [hR]; simp only [List.length_append, B.le_length, List.length_cons, List.length_nil]
  have hH : CI.headerBytes vs nb m = CI.magic ++ (B.le 4 R.length ++ R) := by
    rw [hR]; unfold CI.headerBytes; simp only [List.append_assoc]
  have hmag : CI.magic.length = 8 := rfl
  have hmagl : CI.magic = [99, 111, 109, 112, 105, 115, 122, 100] := by decide
  unfold CIOpen.openSpec
  have h12 : ¬ ((CI.headerBytes vs nb m ++ rest).length < 12) := by rw [List.length_append]; omega
  rw [if_neg h12]
  have t8 : (CI.headerBytes vs nb m ++ rest).take 8 = [99, 111, 109, 112, 105, 115, 122, 100] := by
    rw [hH, List.append_assoc, List.take_left' hmag, hmagl]
  have hn8 : ¬ ((CI.headerBytes vs nb m ++ rest).take 8 ≠ [99, 111, 109, 112, 105, 115, 122, 100]) := fun h => h t8
  rw [if_neg hn8]
  have f4 : ((CI.headerBytes vs nb m ++ rest).drop 8).take 4 = B.le 4 R.length := by
    rw [hH, List.append_assoc, List.drop_left' hmag, List.append_assoc, List.take_left' (B.le_length 4 _)]
  simp only [f4]
  have hlt : R.length < 256 ^ 4 := by omega
  rw [B.unle_le_of_lt _ _ hlt]
  have hsz : ¬ (R.length < 13 ∨ R.length > 130574) := by omega
  rw [if_neg hsz]
  have hfit : ¬ ((CI.headerBytes vs nb m ++ rest).length < 12 + R.length) := by rw [List.length_append]; omega
  rw [if_neg hfit]
  have hHl : (CI.headerBytes vs nb m).length = 12 + R.length := by omega
  rw [List.take_left' hHl, hload, hHl]

/-- **C04 end to end on the translated reader**: on the file the model's encoder writes for an index (compared byte for
    byte with the real builder's files on every run), the translated `Open` returns a DB with a nil error, and the
    translated `DB.Lookup` on that DB answers what the abstract reader `CI.lookupA` answers — the inserted value for every
    inserted key (`build_lookup`), `ErrNotFound` when the key's hash is not in its bucket -/
theorem gen_open_lookup_on_encoded (hf : CI.HF) (xx : List UInt8 → UInt64) (eh : UInt32 → List UInt8 → UInt64)
    (ix : CI.IndexA) (ok : CI.EncOk ix) (hv : CI.ValsOk ix) (key : List UInt8) (fuel : Nat) (i : Nat)
    (hb : hf.bucket key ix.numBuckets = some i)
    (hbh : ciBucketHash xx fuel { ValueSize := UInt64.ofNat ix.valueSize, NumBuckets := UInt32.ofNat ix.numBuckets,
                                  Metadata := C10.ofKvs ix.metaKVs } key = .ok (UInt64.ofNat i))
    (heh : ∀ n k, (eh n k).toNat = hf.entry64 n.toNat k) (hfu : 2 ^ 32 ≤ fuel) (hi64 : i < 2 ^ 64) :
    ∃ db, ciOpen fuel (memRd (CI.encode ix)) = .ok (db, Go.Error.nil) ∧
      Rel (CI.lookupA hf ix key) (ciDBLookup xx eh fuel db key) := by
  have hsz := ok.size
  have e48 : (2 : Nat) ^ 48 < 2 ^ 62 := by decide
  have hvs255 : ix.valueSize ≤ 255 := by have := ok.vs_le; omega
  have hspec := CIOpen.gen_ciOpen_eq_spec (CI.encode ix) fuel (by omega) (by omega)
  have hE : CI.encode ix = CI.headerBytes ix.valueSize ix.numBuckets ix.metaKVs ++
      (CI.tableFrom ix.valueSize ix.buckets ((CI.headerBytes ix.valueSize ix.numBuckets ix.metaKVs).length + Generated.bucketHdrLen * ix.numBuckets)
        ++ ix.buckets.flatMap (CI.bucketBody ix.valueSize)) := by
    unfold CI.encode; simp only [List.append_assoc]
  have hos := openSpec_headerBytes_append ix.valueSize ix.numBuckets ix.metaKVs
    (CI.tableFrom ix.valueSize ix.buckets ((CI.headerBytes ix.valueSize ix.numBuckets ix.metaKVs).length + Generated.bucketHdrLen * ix.numBuckets)
        ++ ix.buckets.flatMap (CI.bucketBody ix.valueSize))
    ok.vs_pos (by omega) ok.nb_pos ok.nb_lt ok.meta_n ok.meta_kv
  rw [← hE] at hos
  rw [hos] at hspec
  simp only at hspec
  refine ⟨_, hspec, ?_⟩
  exact gen_lookup_on_encoded hf xx eh ix ok hv key fuel i _ rfl rfl rfl rfl hb hbh heh hfu hi64

/-- **C04 from the builder's inputs to the translated reader's answer**: whatever set of key/value pairs the (model)
    builder accepts — any insertion order, any declared count, any metadata within the limits — translated `Open` on the
    sealed file succeeds and translated `DB.Lookup` returns, with a nil error, exactly the value inserted with each key.
    Hypotheses on the two hash functions only say that the translated code and the model use the same ones. -/
theorem gen_build_open_lookup (hf : CI.HF) (xx : List UInt8 → UInt64) (eh : UInt32 → List UInt8 → UInt64)
    (vs declared : Nat) (m : List (B.Bytes × B.Bytes)) (kvs : List CI.KV) (ix : CI.IndexA)
    (h : CI.buildA hf vs declared m kvs = .ok ix) (hm : CI.MetaOk m) (hvs : vs ≤ 255 - Generated.hashSize)
    (hnb : CI.numBucketsFor declared < 2 ^ 32) (hn : kvs.length < 2 ^ 32) (hval : ∀ kv ∈ kvs, kv.val.length = vs)
    (kv : CI.KV) (hkv : kv ∈ kvs) (fuel i : Nat)
    (hb : hf.bucket kv.key ix.numBuckets = some i)
    (hbh : ciBucketHash xx fuel { ValueSize := UInt64.ofNat ix.valueSize, NumBuckets := UInt32.ofNat ix.numBuckets,
                                  Metadata := C10.ofKvs ix.metaKVs } kv.key = .ok (UInt64.ofNat i))
    (heh : ∀ n k, (eh n k).toNat = hf.entry64 n.toNat k) (hfu : 2 ^ 32 ≤ fuel) (hi64 : i < 2 ^ 64) :
    ∃ db, ciOpen fuel (memRd (CI.encode ix)) = .ok (db, Go.Error.nil) ∧
      ciDBLookup xx eh fuel db kv.key = .ok (kv.val, Go.Error.nil) := by
  have ok := CI.encOk_of_build hf vs declared m kvs ix h hm hvs hnb hn
  have hv := CI.valsOk_of_build hf vs declared m kvs ix h hval
  obtain ⟨db, hopen, hrel⟩ := gen_open_lookup_on_encoded hf xx eh ix ok hv kv.key fuel i hb hbh heh hfu hi64
  rw [_root_.C04.build_lookup hf vs declared m kvs ix h kv hkv] at hrel
  exact ⟨db, hopen, hrel⟩

/-! non-vacuity of `gen_build_open_lookup`: a toy pair of hash functions shared by model and translated code, one key with
    a 9-byte value, one metadata pair, three buckets — every hypothesis is met and the translated reader returns the value -/
def exHF : CI.HF := ⟨fun k n => if n = 0 then none else some (k.length % n), fun nonce k => (k.length * 7 + nonce) % 2 ^ 64⟩
def exXX : List UInt8 → UInt64 := fun k => UInt64.ofNat k.length
def exEH : UInt32 → List UInt8 → UInt64 := fun n k => UInt64.ofNat ((k.length * 7 + n.toNat) % 2 ^ 64)

example : ∃ ix db, CI.buildA exHF 9 25000 [([1], [2, 3])] [⟨[4, 5], [1, 2, 3, 4, 5, 6, 7, 8, 9]⟩] = .ok ix ∧
    ciOpen (2 ^ 32) (memRd (CI.encode ix)) = .ok (db, Go.Error.nil) ∧
    ciDBLookup exXX exEH (2 ^ 32) db [4, 5] = .ok ([1, 2, 3, 4, 5, 6, 7, 8, 9], Go.Error.nil) := by
  obtain ⟨ix, h⟩ := _root_.C04.build_singleton_ok exHF 9 25000 [([1], [2, 3])] ⟨[4, 5], [1, 2, 3, 4, 5, 6, 7, 8, 9]⟩
    (by omega) (by omega) 2 (by decide) (by decide)
  obtain ⟨f1, f2, f3, _⟩ := CI.buildA_ok exHF 9 25000 _ _ ix h
  have hnb : ix.numBuckets = 3 := by rw [f2]; decide
  have hm : CI.MetaOk [([1], [2, 3])] := by
    refine ⟨by decide, ?_⟩
    intro kv hkv
    simp only [List.mem_cons, List.mem_nil_iff, or_false] at hkv
    subst hkv; decide
  have heh : ∀ n k, (exEH n k).toNat = exHF.entry64 n.toNat k := by
    intro n k
    show (UInt64.ofNat ((k.length * 7 + n.toNat) % 2 ^ 64)).toNat = (k.length * 7 + n.toNat) % 2 ^ 64
    rw [UInt64.toNat_ofNat']
    exact Nat.mod_mod _ _
  obtain ⟨db, ho, hl⟩ := gen_build_open_lookup exHF exXX exEH 9 25000 _ _ ix h hm (by decide) (by decide) (by decide)
    (by intro kv hkv; simp only [List.mem_cons, List.mem_nil_iff, or_false] at hkv; subst hkv; rfl)
    ⟨[4, 5], [1, 2, 3, 4, 5, 6, 7, 8, 9]⟩ (by simp) (2 ^ 32) 2
    (by rw [hnb]; rfl) (by rw [hnb, f1, f3]; rfl) heh (Nat.le_refl _) (by decide)
  exact ⟨ix, db, h, ho, hl⟩
end GoTies.CIModel

import Faithful.Generated.GoFns
import Faithful.Lib.CompactIndex
import Faithful.Ties.Basic
import Faithful.Ties.C04
import Faithful.Ties.BkHas
/-!
C04 / C03 / C13 tie: the read path of the compact hash index — `DB.Lookup`, `DB.LookupBucket`, `DB.GetBucket`,
`BucketHeader.readFrom`, `Bucket.Lookup`, `Bucket.loadEntry`, `BucketHeader.Hash` (`compactindexsized/query.go`,
`compactindex.go`), translated from /repo's working tree on every run with `io.ReaderAt` errors as data — computes
`lookupSpec` over an in-memory file, for every file content, header, bucket number and key, with the two hash functions as
parameters: the value stored under the key's 24-bit hash, "not found", or an error when a read comes up short — never a
panic for a header `Header.Load` accepts (value size ≠ 0).
-/
namespace GoTies.CILookup
open Go Generated.G GoTies GoTies.C04 GoTies.BkHas

/-! ### the in-memory reader at non-negative offsets -/

theorem memRd_ok (c : List UInt8) (n k : Nat) (h : k + n ≤ c.length) (hn : 0 < n) :
    memRd c (n : Int) (k : Int) = ((c.drop k).take n, Go.Error.nil) := by
  unfold memRd
  have h0 : ¬ ((k : Int) < 0) := by omega
  have h1 : ¬ (k ≥ c.length) := by omega
  have h2 : ¬ (c.length - k < n) := by omega
  simp only [h0, if_false, Int.toNat_natCast, h1, h2]

theorem memRd_short (c : List UInt8) (n k : Nat) (h : ¬ (k + n ≤ c.length)) (hn : 0 < n) :
    (memRd c (n : Int) (k : Int)).2 = Go.Error.eof ∧ (memRd c (n : Int) (k : Int)).1.length < n := by
  unfold memRd
  have h0 : ¬ ((k : Int) < 0) := by omega
  simp only [h0, if_false, Int.toNat_natCast]
  by_cases h1 : k ≥ c.length
  · rw [if_pos h1]
    refine ⟨rfl, ?_⟩
    show 0 < n
    omega
  · have h2 : c.length - k < n := by omega
    rw [if_neg h1, if_pos h2]
    refine ⟨rfl, ?_⟩
    show ((c.drop k).take n).length < n
    rw [List.length_take, List.length_drop]
    omega

/-! ### `BucketHeader.readFrom` -/

/-- the four fields `BucketHeader.Load` reads from a 16-byte bucket header -/
def hdrOf (b : Compactindexsized_BucketHeader) (bh : List UInt8) : Compactindexsized_BucketHeader :=
  { b with HashDomain := UInt32.ofNat (B.unle (B.slice bh 0 4)), NumEntries := UInt32.ofNat (B.unle (B.slice bh 4 4)),
           HashLen := bh.getD 8 0, FileOffset := UInt64.ofNat (B.unle (B.slice bh 10 6)) }

/-- the translated `readFrom`, restated without the local re-bindings (tied to the translation by `rfl`) -/
def readFromM (b : Compactindexsized_BucketHeader) (rd : Go.ReaderAt) (i : UInt64) : M (Go.Error × Compactindexsized_BucketHeader) :=
  ciBucketOffset b.headerSize i >>= fun t1 =>
  let t2 := rd (Go.len (List.replicate 16 (0 : UInt8))) t1
  if decide (Go.len t2.1 < 16) = true then pure (t2.2, b)
  else ciBucketHeaderLoad b (t2.1 ++ (List.replicate 16 (0 : UInt8)).drop t2.1.length) >>= fun t3 => pure (Go.Error.nil, t3)

theorem readFrom_unfold (b : Compactindexsized_BucketHeader) (rd : Go.ReaderAt) (i : UInt64) :
    ciReadFrom b rd i = readFromM b rd i := rfl

theorem readFrom_eq (b : Compactindexsized_BucketHeader) (l : List UInt8) (hs : Nat) (i : UInt64)
    (hb : b.headerSize = (hs : Int)) (h1 : hs < 2 ^ 62) (h2 : i.toNat < 2 ^ 56) :
    ciReadFrom b (memRd l) i =
      if hs + 16 * i.toNat + 16 ≤ l.length then .ok (Go.Error.nil, hdrOf b ((l.drop (hs + 16 * i.toNat)).take 16))
      else .ok (Go.Error.eof, b) := by
  rw [readFrom_unfold]
  unfold readFromM
  rw [hb, gen_ciBucketOffset_eq_model hs i h1 h2]
  have e16 : Generated.bucketHdrLen = 16 := by decide
  rw [e16]
  simp only [bind_ok]
  have hl : Go.len (List.replicate 16 (0 : UInt8)) = ((16 : Nat) : Int) := by unfold Go.len; simp
  rw [hl]
  by_cases h : hs + 16 * i.toNat + 16 ≤ l.length
  · rw [memRd_ok l 16 _ h (by omega)]
    simp only [h, if_true]
    have hlen : ((l.drop (hs + 16 * i.toNat)).take 16).length = 16 := by
      rw [List.length_take, List.length_drop]; omega
    have hn : ¬ (Go.len ((l.drop (hs + 16 * i.toNat)).take 16) < 16) := by unfold Go.len; rw [hlen]; omega
    simp only [hn, decide_false, Bool.false_eq_true, if_false, hlen, List.drop_replicate, Nat.sub_self,
      List.replicate_zero, List.append_nil]
    rw [gen_ciBucketHeaderLoad_eq_model b _ hlen]
    rfl
  · obtain ⟨he, hlt⟩ := memRd_short l 16 (hs + 16 * i.toNat) h (by omega)
    simp only [h, if_false]
    have hn : (Go.len (memRd l ((16 : Nat) : Int) ((hs + 16 * i.toNat : Nat) : Int)).1 < 16) := by unfold Go.len; omega
    simp only [hn, decide_true, if_true, he]
    rfl

/-! ### `Bucket.loadEntry` -/

/-- a read that lies inside the section goes to the underlying reader at `base + off` -/
theorem section_in (c : List UInt8) (base n k off : Nat) (hb : base + n < 2 ^ 62) (hk : off + k ≤ n) (hk0 : 0 < k) :
    Go.sectionReader (memRd c) (base : Int) (n : Int) (k : Int) (off : Int) = memRd c (k : Int) ((base + off : Nat) : Int) := by
  unfold Go.sectionReader
  have hlim : ((base : Int) ≤ 9223372036854775807 - (n : Int)) := by omega
  simp only [hlim, if_true]
  have h1 : ¬ (((off : Int) < 0) ∨ ((off : Int) ≥ (base : Int) + (n : Int) - (base : Int))) := by omega
  have h2 : ¬ ((k : Int) > (base : Int) + (n : Int) - ((off : Int) + (base : Int))) := by omega
  simp only [h1, if_false, h2]
  congr 1
  omega

def loadEntryM (b : Compactindexsized_Bucket) (i : Int) : M (Compactindexsized_Entry × Go.Error) :=
  Go.makeOf (0 : UInt8) (b.BucketDescriptor.Stride.toNat : Int) >>= fun t1 =>
  let t2 := b.Entries (Go.len t1) (Go.wrap64 (i * (b.BucketDescriptor.Stride.toNat : Int)))
  if (Go.len t2.1 != Go.len (t2.1 ++ t1.drop t2.1.length)) = true then pure (Compactindexsized_Entry.zero, t2.2)
  else ciUnmarshalEntry b.BucketDescriptor (t2.1 ++ t1.drop t2.1.length) >>= fun t3 => pure (t3, Go.Error.nil)

theorem loadEntry_unfold (b : Compactindexsized_Bucket) (i : Int) : ciLoadEntry b i = loadEntryM b i := rfl

/-- the entry the model's getter decodes from the `s` bytes of entry `i` -/
def entryAt (l : List UInt8) (fo s hln ow i : Nat) : Compactindexsized_Entry :=
  { Hash := UInt64.ofNat (B.unle (((l.drop (fo + i * s)).take s).take hln)),
    Value := (((l.drop (fo + i * s)).take s).drop hln).take ow }

theorem loadEntry_eq (b : Compactindexsized_Bucket) (l : List UInt8) (fo ne s i : Nat)
    (hs : b.BucketDescriptor.Stride.toNat = s) (hs0 : 0 < s)
    (h8 : b.BucketDescriptor.BucketHeader.HashLen.toNat ≤ 8)
    (hfit : b.BucketDescriptor.BucketHeader.HashLen.toNat + b.BucketDescriptor.OffsetWidth.toNat ≤ s)
    (hE : b.Entries = Go.sectionReader (memRd l) (fo : Int) ((ne * s : Nat) : Int))
    (hi : i < ne) (hb : fo + ne * s < 2 ^ 62) :
    ciLoadEntry b (i : Int) =
      if fo + i * s + s ≤ l.length then
        .ok (entryAt l fo s b.BucketDescriptor.BucketHeader.HashLen.toNat b.BucketDescriptor.OffsetWidth.toNat i, Go.Error.nil)
      else .ok (Compactindexsized_Entry.zero, Go.Error.eof) := by
  rw [loadEntry_unfold]
  unfold loadEntryM
  have hs256 : s < 256 := by rw [← hs]; exact b.BucketDescriptor.Stride.toNat_lt
  have hw256 : b.BucketDescriptor.BucketHeader.HashLen.toNat + b.BucketDescriptor.OffsetWidth.toNat < 256 :=
    Nat.lt_of_le_of_lt hfit hs256
  have hmk : Go.makeOf (0 : UInt8) (b.BucketDescriptor.Stride.toNat : Int) = .ok (List.replicate s 0) := by
    unfold Go.makeOf; rw [hs, if_pos (by omega)]; simp
  rw [hmk, bind_ok, hs, hE]
  have hl : Go.len (List.replicate s (0 : UInt8)) = (s : Int) := by unfold Go.len; simp
  rw [hl]
  have hmul : i * s + s ≤ ne * s := by
    have : (i + 1) * s ≤ ne * s := Nat.mul_le_mul_right s hi
    rw [Nat.add_mul, Nat.one_mul] at this; exact this
  have hw : Go.wrap64 ((i : Int) * (s : Int)) = ((i * s : Nat) : Int) := by
    have : i * s < 2 ^ 62 := by omega
    rw [Go.wrap64_id] <;> push_cast <;> omega
  rw [hw, section_in l fo (ne * s) s (i * s) hb hmul hs0]
  clear hw hl hmk hE
  by_cases h : fo + i * s + s ≤ l.length
  · rw [memRd_ok l s _ h hs0]
    simp only [h, if_true]
    have hlen : ((l.drop (fo + i * s)).take s).length = s := by
      rw [List.length_take, List.length_drop]; omega
    have hd : (List.replicate s (0 : UInt8)).drop ((l.drop (fo + i * s)).take s).length = [] := by
      rw [hlen]; simp
    rw [hd, List.append_nil]
    have hne : ¬ ((Go.len ((l.drop (fo + i * s)).take s) != Go.len ((l.drop (fo + i * s)).take s)) = true) := by simp
    simp only [hne]
    rw [gen_ciUnmarshalEntry_eq_model b.BucketDescriptor _ h8 (by rw [hlen]; exact hfit) hw256]
    rfl
  · obtain ⟨he, hlt⟩ := memRd_short l s (fo + i * s) h hs0
    simp only [h, if_false]
    have hlen2 : (((memRd l (s : Int) ((fo + i * s : Nat) : Int)).1 ++
        (List.replicate s (0 : UInt8)).drop (memRd l (s : Int) ((fo + i * s : Nat) : Int)).1.length)).length = s := by
      rw [List.length_append, List.length_drop, List.length_replicate]; omega
    have hne : ((Go.len (memRd l (s : Int) ((fo + i * s : Nat) : Int)).1 !=
        Go.len ((memRd l (s : Int) ((fo + i * s : Nat) : Int)).1 ++
          (List.replicate s (0 : UInt8)).drop (memRd l (s : Int) ((fo + i * s : Nat) : Int)).1.length)) = true) := by
      rw [bne_iff_ne]
      unfold Go.len
      rw [hlen2]
      intro hc
      exact Nat.ne_of_lt hlt (Int.ofNat_inj.mp hc)
    simp only [hne, if_true, he]
    rfl

/-! ### `DB.GetBucket` -/

def prefetchM (db : Compactindexsized_DB) (bucket : Compactindexsized_Bucket) : M (Compactindexsized_Bucket × Go.Error) :=
  ciMinInt64 3000 (bucket.BucketDescriptor.BucketHeader.NumEntries.toNat : Int) >>= fun t4 =>
  ciEntryStride db >>= fun t5 =>
  Go.makeOf (0 : UInt8) (Go.wrap64 ((t5.toNat : Int) * t4)) >>= fun t6 =>
  let t7 := bucket.Entries (Go.len t6) 0
  if (t7.2 != Go.Error.nil && !(Go.Error.is t7.2 Go.Error.eof)) = true then pure (Compactindexsized_Bucket.zero, t7.2)
  else pure (bucket, Go.Error.nil)

/-- the bucket `GetBucket` returns: header, stride, value width, and the section of the stream holding its entries -/
def mkBucket (db : Compactindexsized_DB) (h : Compactindexsized_BucketHeader) (s ow : UInt8) : Compactindexsized_Bucket :=
  ⟨⟨h, s, ow⟩, Go.sectionReader db.Stream (Go.intOfU64 h.FileOffset) (Go.wrap64 ((h.NumEntries.toNat : Int) * (s.toNat : Int)))⟩

def getBucketM (db : Compactindexsized_DB) (i : UInt64) : M (Compactindexsized_Bucket × Go.Error) :=
  if decide (i ≥ db.Header.NumBuckets.toUInt64) = true then
    pure (Compactindexsized_Bucket.zero, Go.Error.other "out of bounds bucket index: %d >= %d") else
  if decide (db.Header.ValueSize > 252) = true then
    pure (Compactindexsized_Bucket.zero, Go.Error.other "unsupported value size: %d") else
  ciEntryStride db >>= fun t1 => ciGetValueSize db >>= fun t2 =>
  ciReadFrom { Compactindexsized_BucketHeader.zero with headerSize := db.headerSize } db.Stream i >>= fun t3 =>
  if (t3.1 != Go.Error.nil) = true then pure (Compactindexsized_Bucket.zero, t3.1) else
  if decide (t3.2.HashLen > 3) = true then
    pure (Compactindexsized_Bucket.zero, Go.Error.other "invalid bucket header: hash length %d") else
  if db.prefetch = true then
    prefetchM db (mkBucket db t3.2 t1 t2.toUInt8)
  else pure (mkBucket db t3.2 t1 t2.toUInt8, Go.Error.nil)

theorem getBucket_unfold (db : Compactindexsized_DB) (i : UInt64) : ciGetBucket db i = getBucketM db i := rfl

theorem getValueSize_eq (db : Compactindexsized_DB) (hvs : db.Header.ValueSize ≠ 0) :
    ciGetValueSize db = .ok db.Header.ValueSize := by
  unfold ciGetValueSize
  have : ¬ ((db.Header.ValueSize == 0) = true) := by simpa using hvs
  simp only [this]
  rfl

theorem entryStride_eq (db : Compactindexsized_DB) (hvs : db.Header.ValueSize ≠ 0) :
    ciEntryStride db = .ok (3 + db.Header.ValueSize.toUInt8) := by
  have h : ciEntryStride db = (ciGetValueSize db >>= fun t1 => pure (3 + t1.toUInt8)) := rfl
  rw [h, getValueSize_eq db hvs]
  rfl

theorem unle6_lt (b : List UInt8) : B.unle (B.slice b 10 6) < 2 ^ 48 := by
  have := unle_lt (B.slice b 10 6)
  have h2 : (B.slice b 10 6).length ≤ 6 := by unfold B.slice; rw [List.length_take]; omega
  have e : (256 : Nat) ^ 6 = 2 ^ 48 := by decide
  calc B.unle (B.slice b 10 6) < 256 ^ (B.slice b 10 6).length := this
    _ ≤ 256 ^ 6 := Nat.pow_le_pow_right (by omega) h2
    _ = 2 ^ 48 := e

theorem fileOffset_lt (b : Compactindexsized_BucketHeader) (bh : List UInt8) : (hdrOf b bh).FileOffset.toNat < 2 ^ 61 := by
  have h := unle6_lt bh
  have e : (hdrOf b bh).FileOffset = UInt64.ofNat (B.unle (B.slice bh 10 6)) := rfl
  rw [e, UInt64.toNat_ofNat']
  have h48 : (2 : Nat) ^ 48 < 2 ^ 61 := by decide
  have h64 : (2 : Nat) ^ 48 < 2 ^ 64 := by decide
  rw [Nat.mod_eq_of_lt (Nat.lt_trans h h64)]
  exact Nat.lt_trans h h48


/-- every error an in-memory reader returns at a non-negative offset is io.EOF (or none) -/
theorem memRd_err (c : List UInt8) (n : Int) (k : Nat) : (memRd c n (k : Int)).2 = Go.Error.nil ∨ (memRd c n (k : Int)).2 = Go.Error.eof :=
  BkHas.memRd_err c n k

/-- a section reader over an in-memory reader, read from offset 0, fails only with io.EOF -/
theorem section_err0 (c : List UInt8) (base n : Nat) (len : Int) (hb : base + n < 2 ^ 62) :
    (Go.sectionReader (memRd c) (base : Int) (n : Int) len 0).2 = Go.Error.nil ∨
    (Go.sectionReader (memRd c) (base : Int) (n : Int) len 0).2 = Go.Error.eof := by
  unfold Go.sectionReader
  have hlim : ((base : Int) ≤ 9223372036854775807 - (n : Int)) := by omega
  simp only [hlim, if_true]
  by_cases h1 : ((0 : Int) < 0) ∨ ((0 : Int) ≥ (base : Int) + (n : Int) - (base : Int))
  · rw [if_pos h1]; right; rfl
  · rw [if_neg h1]
    have e0 : (0 : Int) + (base : Int) = ((base : Nat) : Int) := by omega
    rw [e0]
    by_cases h2 : len > (base : Int) + (n : Int) - ((base : Nat) : Int)
    · rw [if_pos h2]
      rcases memRd_err c ((base : Int) + (n : Int) - ((base : Nat) : Int)) base with h3 | h3
      · right; simp only [h3]; rfl
      · right; simp only [h3]; rfl
    · rw [if_neg h2]
      exact memRd_err c len base

/-- **prefetching does not change what `GetBucket` returns** over an in-memory stream: the read-ahead can only fail with
    io.EOF, which the code ignores -/
theorem prefetch_irrelevant (db : Compactindexsized_DB) (l : List UInt8) (h : Compactindexsized_BucketHeader) (ow : UInt8)
    (hS : db.Stream = memRd l) (hvs : db.Header.ValueSize ≠ 0) (how : ow.toNat ≤ 252) (hfo : h.FileOffset.toNat < 2 ^ 61) :
    prefetchM db (mkBucket db h (3 + ow) ow) = .ok (mkBucket db h (3 + ow) ow, Go.Error.nil) := by
  unfold prefetchM
  have hmn : ciMinInt64 3000 ((mkBucket db h (3 + ow) ow).BucketDescriptor.BucketHeader.NumEntries.toNat : Int)
      = .ok (if (3000 : Int) < (h.NumEntries.toNat : Int) then 3000 else (h.NumEntries.toNat : Int)) := by
    have hbh : (mkBucket db h (3 + ow) ow).BucketDescriptor.BucketHeader = h := rfl
    rw [hbh]
    unfold ciMinInt64
    by_cases hab : (3000 : Int) < (h.NumEntries.toNat : Int) <;> simp [hab]
  rw [hmn, bind_ok, entryStride_eq db hvs, bind_ok]
  generalize hq : (if (3000 : Int) < (h.NumEntries.toNat : Int) then (3000 : Int) else (h.NumEntries.toNat : Int)) = q
  have hq0 : 0 ≤ q ∧ q ≤ 3000 := by
    rw [← hq]; split <;> omega
  have hst := (3 + db.Header.ValueSize.toUInt8 : UInt8).toNat_lt
  generalize (3 + db.Header.ValueSize.toUInt8 : UInt8).toNat = st at hst
  have hw : Go.wrap64 ((st : Int) * q) = (st : Int) * q ∧ 0 ≤ (st : Int) * q ∧ (st : Int) * q < 281474976710656 := by
    have h1 : 0 ≤ (st : Int) * q := Int.mul_nonneg (by omega) hq0.1
    have h2 : (st : Int) * q ≤ 256 * 3000 := Int.mul_le_mul (by omega) hq0.2 hq0.1 (by omega)
    refine ⟨?_, h1, by omega⟩
    rw [Go.wrap64_id] <;> omega
  rw [hw.1]
  have hmk : Go.makeOf (0 : UInt8) ((st : Int) * q) = .ok (List.replicate ((st : Int) * q).toNat 0) := by
    unfold Go.makeOf; rw [if_pos ⟨hw.2.1, hw.2.2⟩]; rfl
  rw [hmk, bind_ok]
  have hsN : (3 + ow : UInt8).toNat = 3 + ow.toNat := by
    rw [UInt8.toNat_add]; have e3 : (3 : UInt8).toNat = 3 := rfl
    rw [e3]; exact Nat.mod_eq_of_lt (by omega)
  have hne := h.NumEntries.toNat_lt
  have hio : Go.intOfU64 h.FileOffset = (h.FileOffset.toNat : Int) := by
    unfold Go.intOfU64; rw [Go.wrap64_id] <;> omega
  have hmulN : h.NumEntries.toNat * (3 + ow.toNat) < 2 ^ 41 := by
    have : h.NumEntries.toNat * (3 + ow.toNat) ≤ 2 ^ 32 * 256 := Nat.mul_le_mul (by omega) (by omega)
    have e : (2:Nat) ^ 32 * 256 = 2 ^ 40 := by decide
    have e2 : (2:Nat) ^ 40 < 2 ^ 41 := by decide
    omega
  have hE : (mkBucket db h (3 + ow) ow).Entries =
      Go.sectionReader (memRd l) (h.FileOffset.toNat : Int) ((h.NumEntries.toNat * (3 + ow.toNat) : Nat) : Int) := by
    have hw2 : Go.wrap64 ((h.NumEntries.toNat : Int) * ((3 + ow.toNat : Nat) : Int)) = ((h.NumEntries.toNat * (3 + ow.toNat) : Nat) : Int) := by
      rw [← Int.natCast_mul]
      rw [Go.wrap64_id] <;> omega
    unfold mkBucket
    simp only
    rw [hS, hio, hsN, hw2]
  rw [hE]
  rcases section_err0 l h.FileOffset.toNat (h.NumEntries.toNat * (3 + ow.toNat))
      (Go.len (List.replicate ((st : Int) * q).toNat (0 : UInt8))) (by omega) with he | he
  · simp only [he]
    rfl
  · simp only [he]
    rfl

/-- `GetBucket(i)` over an in-memory stream, with or without prefetching -/
theorem getBucket_eq (db : Compactindexsized_DB) (l : List UInt8) (hs : Nat) (i : UInt64)
    (hS : db.Stream = memRd l) (hH : db.headerSize = (hs : Int))
    (hvs : db.Header.ValueSize ≠ 0) (h1 : hs < 2 ^ 62) :
    ciGetBucket db i =
      if i.toNat ≥ db.Header.NumBuckets.toNat then
        .ok (Compactindexsized_Bucket.zero, Go.Error.other "out of bounds bucket index: %d >= %d")
      else if db.Header.ValueSize.toNat > 252 then
        .ok (Compactindexsized_Bucket.zero, Go.Error.other "unsupported value size: %d")
      else if hs + 16 * i.toNat + 16 ≤ l.length then
        (if (hdrOf { Compactindexsized_BucketHeader.zero with headerSize := (hs : Int) } ((l.drop (hs + 16 * i.toNat)).take 16)).HashLen.toNat > 3 then
          .ok (Compactindexsized_Bucket.zero, Go.Error.other "invalid bucket header: hash length %d")
        else .ok (mkBucket db (hdrOf { Compactindexsized_BucketHeader.zero with headerSize := (hs : Int) } ((l.drop (hs + 16 * i.toNat)).take 16))
            (3 + db.Header.ValueSize.toUInt8) db.Header.ValueSize.toUInt8, Go.Error.nil))
      else .ok (Compactindexsized_Bucket.zero, Go.Error.eof) := by
  rw [getBucket_unfold]
  unfold getBucketM
  have hge : (i ≥ db.Header.NumBuckets.toUInt64) ↔ i.toNat ≥ db.Header.NumBuckets.toNat := by
    rw [ge_iff_le, UInt64.le_iff_toNat_le, UInt32.toNat_toUInt64]
  by_cases hr : i.toNat ≥ db.Header.NumBuckets.toNat
  · have : decide (i ≥ db.Header.NumBuckets.toUInt64) = true := by simpa using hge.mpr hr
    simp only [hr, if_true, this]; rfl
  · have hd : ¬ (decide (i ≥ db.Header.NumBuckets.toUInt64) = true) := by simpa using fun x => hr (hge.mp x)
    simp only [hr, if_false, hd]
    have hgt : (db.Header.ValueSize > 252) ↔ db.Header.ValueSize.toNat > 252 := by
      rw [gt_iff_lt, UInt64.lt_iff_toNat_lt]; rfl
    by_cases hv : db.Header.ValueSize.toNat > 252
    · have : decide (db.Header.ValueSize > 252) = true := by simpa using hgt.mpr hv
      simp only [hv, if_true, this]; rfl
    · have hd2 : ¬ (decide (db.Header.ValueSize > 252) = true) := by simpa using fun x => hv (hgt.mp x)
      simp only [hv, if_false, hd2]
      rw [entryStride_eq db hvs, getValueSize_eq db hvs]
      simp only [bind_ok]
      have hi56 : i.toNat < 2 ^ 56 := by
        have := db.Header.NumBuckets.toNat_lt
        have e : (2:Nat) ^ 32 < 2 ^ 56 := by decide
        omega
      rw [hS, hH, readFrom_eq _ l hs i rfl h1 hi56]
      by_cases hh : hs + 16 * i.toNat + 16 ≤ l.length
      · simp only [hh, if_true, bind_ok]
        have hnil : ¬ ((Go.Error.nil != Go.Error.nil) = true) := by simp
        simp only [hnil]
        have hfo0 := fileOffset_lt { Compactindexsized_BucketHeader.zero with headerSize := (hs : Int) } ((l.drop (hs + 16 * i.toNat)).take 16)
        generalize hdrOf { Compactindexsized_BucketHeader.zero with headerSize := (hs : Int) } ((l.drop (hs + 16 * i.toNat)).take 16) = hd at hfo0 ⊢
        have hfo : hd.FileOffset.toNat < 2 ^ 61 := hfo0
        have hgl : (hd.HashLen > 3) ↔ hd.HashLen.toNat > 3 := by
          rw [gt_iff_lt, UInt8.lt_iff_toNat_lt]; rfl
        by_cases h3 : hd.HashLen.toNat > 3
        · have : decide (hd.HashLen > 3) = true := by simpa using hgl.mpr h3
          simp only [h3, if_true, this]; rfl
        · have hd3 : ¬ (decide (hd.HashLen > 3) = true) := by simpa using fun x => h3 (hgl.mp x)
          simp only [h3, if_false, hd3]
          cases hpf : db.prefetch
          · simp only [Bool.false_eq_true, if_false]
            rfl
          · simp only [if_true]
            have how : db.Header.ValueSize.toUInt8.toNat ≤ 252 := by
              rw [UInt64.toNat_toUInt8]; have : db.Header.ValueSize.toNat % 2 ^ 8 ≤ db.Header.ValueSize.toNat := Nat.mod_le _ _
              omega
            rw [prefetch_irrelevant db l hd db.Header.ValueSize.toUInt8 hS hvs how hfo]
            rfl
      · simp only [hh, if_false, bind_ok]
        have : ((Go.Error.eof != Go.Error.nil) = true) := by simp
        simp only [this, if_true]
        rfl


/-! ### `Bucket.Lookup` -/

/-- general-fuel form of the search tie of `Ties/C04.lean` -/
theorem search_eq (get : Nat → Option CI.Ent) (x : UInt64) (max : Nat) (hmax : max < 2 ^ 62) (ioErr : Err)
    (getter : Int → M Compactindexsized_Entry) (fuel : Nat) (hf : max < fuel)
    (hget : ∀ i : Nat, i < max → getter (i : Int) = match get i with | none => .error ioErr | some e => .ok (mkEntry e))
    (hr : ∀ i e, get i = some e → e.1 < 2 ^ 64) :
    ciSearchEytzinger fuel 0 (max : Int) x getter = lookToM ioErr (CI.searchB get x.toNat max fuel 0) := by
  have h := ci_loop_eq get x max hmax ioErr getter fuel hget hr fuel 0 (by omega) (by omega)
  unfold ciSearchEytzinger
  simp only [Int.natCast_zero] at h
  cases hs : CI.searchB get x.toNat max fuel 0 with
  | found v => rw [hs] at h; simp only [lookToLoop] at h; simp [h, lookToM, bind, Except.bind, pure, Except.pure]
  | notFound =>
    rw [hs] at h; simp only [lookToLoop] at h
    rcases h with ⟨i, h⟩ | h <;> simp [h, lookToM, bind, Except.bind, throw, throwThe, MonadExceptOf.throw]
  | err => rw [hs] at h; simp only [lookToLoop] at h; simp [h, lookToM, bind, Except.bind]
  | hang => rw [hs] at h; exact h.elim

/-- the getter `Bucket.Lookup` hands to `searchEytzinger` (the method value `b.loadEntry`) -/
def getterB (b : Compactindexsized_Bucket) : Int → M Compactindexsized_Entry := fun a1 =>
  ciLoadEntry b a1 >>= fun t => if (t.2 != Go.Error.nil) = true then throw (Err.err (Go.Error.tag t.2)) else pure t.1

def bucketLookupM (eh : UInt32 → List UInt8 → UInt64) (fuel : Nat) (b : Compactindexsized_Bucket) (key : List UInt8) :
    M (List UInt8 × Go.Error) :=
  ciEntryHash eh b.BucketDescriptor.BucketHeader key >>= fun target =>
  Go.catchErr (ciSearchEytzinger fuel 0 (b.BucketDescriptor.BucketHeader.NumEntries.toNat : Int) target (getterB b)) [] >>= fun t3 =>
  pure (t3.1, t3.2)

theorem bucketLookup_unfold (eh : UInt32 → List UInt8 → UInt64) (fuel : Nat) (b : Compactindexsized_Bucket) (key : List UInt8) :
    ciBucketLookup eh fuel b key = bucketLookupM eh fuel b key := rfl

/-- `BucketHeader.Hash(key)`: the entry hash masked to `HashLen` bytes (uint8 arithmetic in the shift count, as in Go) -/
def targetOf (eh : UInt32 → List UInt8 → UInt64) (h : Compactindexsized_BucketHeader) (key : List UInt8) : UInt64 :=
  eh h.HashDomain key &&& Go.shr64 18446744073709551615 ((64 : UInt8) - h.HashLen * 8).toNat

theorem entryHash_eq (eh : UInt32 → List UInt8 → UInt64) (h : Compactindexsized_BucketHeader) (key : List UInt8) :
    ciEntryHash eh h key = .ok (targetOf eh h key) := rfl

/-- the model's entry getter over the file: entry `i` of the bucket, when its `s` bytes lie inside the file -/
def getE (l : List UInt8) (fo s hln ow : Nat) : Nat → Option CI.Ent := fun i =>
  if fo + i * s + s ≤ l.length then
    some (B.unle (((l.drop (fo + i * s)).take s).take hln), (((l.drop (fo + i * s)).take s).drop hln).take ow)
  else none

/-- how a search verdict reads as the result of `Bucket.Lookup` / `DB.Lookup` -/
def lookToRes : CI.Look → M (List UInt8 × Go.Error)
  | .found v => .ok (v, Go.Error.nil)
  | .notFound => .ok ([], Go.Error.other "ErrNotFound")
  | .err => .ok ([], Go.Error.other "EOF")
  | .hang => .error .hang

theorem bucketLookup_eq (eh : UInt32 → List UInt8 → UInt64) (fuel : Nat) (db : Compactindexsized_DB) (l : List UInt8)
    (h : Compactindexsized_BucketHeader) (ow : UInt8) (key : List UInt8)
    (hS : db.Stream = memRd l) (hhl : h.HashLen.toNat ≤ 3) (how : ow.toNat ≤ 252)
    (hfo : h.FileOffset.toNat < 2 ^ 61) (hf : 2 ^ 32 ≤ fuel) :
    ciBucketLookup eh fuel (mkBucket db h (3 + ow) ow) key =
      lookToRes (CI.searchB (getE l h.FileOffset.toNat (3 + ow.toNat) h.HashLen.toNat ow.toNat)
        (targetOf eh h key).toNat h.NumEntries.toNat fuel 0) := by
  rw [bucketLookup_unfold]
  unfold bucketLookupM
  have hsN : (3 + ow : UInt8).toNat = 3 + ow.toNat := by
    rw [UInt8.toNat_add]; have e3 : (3 : UInt8).toNat = 3 := rfl
    rw [e3]; exact Nat.mod_eq_of_lt (by omega)
  have hne := h.NumEntries.toNat_lt
  have hbh : (mkBucket db h (3 + ow) ow).BucketDescriptor.BucketHeader = h := rfl
  rw [hbh, entryHash_eq, bind_ok]
  have hio : Go.intOfU64 h.FileOffset = (h.FileOffset.toNat : Int) := by
    unfold Go.intOfU64; rw [Go.wrap64_id] <;> omega
  have hmulN : h.NumEntries.toNat * (3 + ow.toNat) < 2 ^ 41 := by
    have : h.NumEntries.toNat * (3 + ow.toNat) ≤ 2 ^ 32 * 256 := Nat.mul_le_mul (by omega) (by omega)
    have e : (2:Nat) ^ 32 * 256 = 2 ^ 40 := by decide
    have e2 : (2:Nat) ^ 40 < 2 ^ 41 := by decide
    omega
  have hE : (mkBucket db h (3 + ow) ow).Entries =
      Go.sectionReader (memRd l) (h.FileOffset.toNat : Int) ((h.NumEntries.toNat * (3 + ow.toNat) : Nat) : Int) := by
    have hw : Go.wrap64 ((h.NumEntries.toNat : Int) * ((3 + ow.toNat : Nat) : Int)) = ((h.NumEntries.toNat * (3 + ow.toNat) : Nat) : Int) := by
      rw [← Int.natCast_mul]
      rw [Go.wrap64_id] <;> omega
    unfold mkBucket
    simp only
    rw [hS, hio, hsN, hw]
  have hget : ∀ i : Nat, i < h.NumEntries.toNat → getterB (mkBucket db h (3 + ow) ow) (i : Int) =
      match getE l h.FileOffset.toNat (3 + ow.toNat) h.HashLen.toNat ow.toNat i with
      | none => .error (.err "EOF")
      | some e => .ok (mkEntry e) := by
    intro i hi
    unfold getterB getE
    rw [loadEntry_eq (mkBucket db h (3 + ow) ow) l h.FileOffset.toNat h.NumEntries.toNat (3 + ow.toNat) i
      hsN (by omega) (by show h.HashLen.toNat ≤ 8; omega) (by show h.HashLen.toNat + ow.toNat ≤ 3 + ow.toNat; omega) hE hi (by omega)]
    by_cases hin : h.FileOffset.toNat + i * (3 + ow.toNat) + (3 + ow.toNat) ≤ l.length
    · simp only [hin, if_true, bind_ok]
      have hnil : ¬ ((Go.Error.nil != Go.Error.nil) = true) := by simp
      simp only [hnil]
      rfl
    · simp only [hin, if_false, bind_ok]
      have : ((Go.Error.eof != Go.Error.nil) = true) := by simp
      simp only [this, if_true]
      rfl
  have hr : ∀ i e, getE l h.FileOffset.toNat (3 + ow.toNat) h.HashLen.toNat ow.toNat i = some e → e.1 < 2 ^ 64 := by
    intro i e he
    unfold getE at he
    split at he
    · simp only [Option.some.injEq] at he
      rw [← he]
      have hl8 : ((((l.drop (h.FileOffset.toNat + i * (3 + ow.toNat))).take (3 + ow.toNat)).take h.HashLen.toNat)).length ≤ 8 := by
        rw [List.length_take]; omega
      have := unle_lt (((l.drop (h.FileOffset.toNat + i * (3 + ow.toNat))).take (3 + ow.toNat)).take h.HashLen.toNat)
      have e8 : (256 : Nat) ^ 8 = 2 ^ 64 := by decide
      exact Nat.lt_of_lt_of_le this (by rw [← e8]; exact Nat.pow_le_pow_right (by omega) hl8)
    · cases he
  rw [search_eq _ (targetOf eh h key) h.NumEntries.toNat (by omega) (.err "EOF") _ fuel (by omega) hget hr]
  cases CI.searchB (getE l h.FileOffset.toNat (3 + ow.toNat) h.HashLen.toNat ow.toNat) (targetOf eh h key).toNat h.NumEntries.toNat fuel 0 with
  | found v => rfl
  | notFound => rfl
  | err => rfl
  | hang => rfl

/-! ### `DB.LookupBucket` / `DB.Lookup` -/

def dbLookupM (xx : List UInt8 → UInt64) (eh : UInt32 → List UInt8 → UInt64) (fuel : Nat) (db : Compactindexsized_DB)
    (key : List UInt8) : M (List UInt8 × Go.Error) :=
  (ciBucketHash xx fuel db.Header key >>= fun t1 => ciGetBucket db t1 >>= fun t2 => pure (t2.1, t2.2)) >>= fun t1 =>
  if (t1.2 != Go.Error.nil) = true then pure (([] : List UInt8), t1.2)
  else ciBucketLookup eh fuel t1.1 key >>= fun t2 => pure (t2.1, t2.2)

theorem dbLookup_unfold (xx : List UInt8 → UInt64) (eh : UInt32 → List UInt8 → UInt64) (fuel : Nat) (db : Compactindexsized_DB)
    (key : List UInt8) : ciDBLookup xx eh fuel db key = dbLookupM xx eh fuel db key := rfl

/-- `DB.Lookup(key)` over the file bytes `l`, for the bucket number `bi` that `Header.BucketHash(key)` returned:
    bounds, value-size limit, the 16-byte bucket header at `hs + 16·bi`, hash-length limit, then the search over the
    entries of the bucket -/
def lookupSpec (eh : UInt32 → List UInt8 → UInt64) (l : List UInt8) (hs : Nat) (vs : UInt64) (nb bi : Nat)
    (key : List UInt8) (fuel : Nat) : M (List UInt8 × Go.Error) :=
  if bi ≥ nb then .ok ([], Go.Error.other "out of bounds bucket index: %d >= %d")
  else if vs.toNat > 252 then .ok ([], Go.Error.other "unsupported value size: %d")
  else if hs + 16 * bi + 16 ≤ l.length then
    (if (hdrOf { Compactindexsized_BucketHeader.zero with headerSize := (hs : Int) } ((l.drop (hs + 16 * bi)).take 16)).HashLen.toNat > 3 then
      .ok ([], Go.Error.other "invalid bucket header: hash length %d")
    else
      lookToRes (CI.searchB
        (getE l (hdrOf { Compactindexsized_BucketHeader.zero with headerSize := (hs : Int) } ((l.drop (hs + 16 * bi)).take 16)).FileOffset.toNat
          (3 + vs.toUInt8.toNat)
          (hdrOf { Compactindexsized_BucketHeader.zero with headerSize := (hs : Int) } ((l.drop (hs + 16 * bi)).take 16)).HashLen.toNat
          vs.toUInt8.toNat)
        (targetOf eh (hdrOf { Compactindexsized_BucketHeader.zero with headerSize := (hs : Int) } ((l.drop (hs + 16 * bi)).take 16)) key).toNat
        (hdrOf { Compactindexsized_BucketHeader.zero with headerSize := (hs : Int) } ((l.drop (hs + 16 * bi)).take 16)).NumEntries.toNat fuel 0))
  else .ok ([], Go.Error.eof)

/-- **tie**: `DB.Lookup(key)`, as translated from the source, over an in-memory stream = `lookupSpec` — for every file
    content, every header with a non-zero value size (what `Header.Load` accepts), header size below 2^62, every key, both
    hash functions arbitrary, fuel ≥ 2^32, with or without prefetching; `bi` is whatever `Header.BucketHash(key)` returned -/
theorem gen_ciDBLookup_eq_spec (xx : List UInt8 → UInt64) (eh : UInt32 → List UInt8 → UInt64) (fuel : Nat)
    (db : Compactindexsized_DB) (l : List UInt8) (hs : Nat) (key : List UInt8) (bi : UInt64)
    (hS : db.Stream = memRd l) (hH : db.headerSize = (hs : Int))
    (hvs : db.Header.ValueSize ≠ 0) (h1 : hs < 2 ^ 62) (hf : 2 ^ 32 ≤ fuel)
    (hbh : ciBucketHash xx fuel db.Header key = .ok bi) :
    ciDBLookup xx eh fuel db key =
      lookupSpec eh l hs db.Header.ValueSize db.Header.NumBuckets.toNat bi.toNat key fuel := by
  rw [dbLookup_unfold]
  unfold dbLookupM lookupSpec
  rw [hbh, bind_ok, getBucket_eq db l hs bi hS hH hvs h1]
  by_cases hr : bi.toNat ≥ db.Header.NumBuckets.toNat
  · rw [if_pos hr, if_pos hr, bind_ok, pure_eq_ok, bind_ok]
    rfl
  · rw [if_neg hr, if_neg hr]
    by_cases hv : db.Header.ValueSize.toNat > 252
    · rw [if_pos hv, if_pos hv, bind_ok, pure_eq_ok, bind_ok]
      rfl
    · rw [if_neg hv, if_neg hv]
      by_cases hh : hs + 16 * bi.toNat + 16 ≤ l.length
      · rw [if_pos hh, if_pos hh]
        generalize hgd : hdrOf { Compactindexsized_BucketHeader.zero with headerSize := (hs : Int) } ((l.drop (hs + 16 * bi.toNat)).take 16) = hd
        have hfo : hd.FileOffset.toNat < 2 ^ 61 := by rw [← hgd]; exact fileOffset_lt _ _
        by_cases h3 : hd.HashLen.toNat > 3
        · rw [if_pos h3, if_pos h3, bind_ok, pure_eq_ok, bind_ok]
          rfl
        · rw [if_neg h3, if_neg h3, bind_ok, pure_eq_ok, bind_ok]
          have hnil : ¬ ((Go.Error.nil != Go.Error.nil) = true) := by simp
          have how : db.Header.ValueSize.toUInt8.toNat ≤ 252 := by
            rw [UInt64.toNat_toUInt8]; have : db.Header.ValueSize.toNat % 2 ^ 8 ≤ db.Header.ValueSize.toNat := Nat.mod_le _ _
            omega
          have hbl := bucketLookup_eq eh fuel db l hd db.Header.ValueSize.toUInt8 key hS (by omega) how hfo hf
          show (if (Go.Error.nil != Go.Error.nil) = true then _ else
            ciBucketLookup eh fuel (mkBucket db hd (3 + db.Header.ValueSize.toUInt8) db.Header.ValueSize.toUInt8) key >>= fun t2 => pure (t2.1, t2.2)) = _
          rw [if_neg hnil, hbl]
          cases CI.searchB (getE l hd.FileOffset.toNat (3 + db.Header.ValueSize.toUInt8.toNat) hd.HashLen.toNat db.Header.ValueSize.toUInt8.toNat)
              (targetOf eh hd key).toNat hd.NumEntries.toNat fuel 0 with
          | found v => rfl
          | notFound => rfl
          | err => rfl
          | hang => rfl
      · rw [if_neg hh, if_neg hh, bind_ok, pure_eq_ok, bind_ok]
        rfl

/-- never a panic -/
theorem gen_ciDBLookup_no_panic (xx : List UInt8 → UInt64) (eh : UInt32 → List UInt8 → UInt64) (fuel : Nat)
    (db : Compactindexsized_DB) (l : List UInt8) (hs : Nat) (key : List UInt8) (bi : UInt64)
    (hS : db.Stream = memRd l) (hH : db.headerSize = (hs : Int))
    (hvs : db.Header.ValueSize ≠ 0) (h1 : hs < 2 ^ 62) (hf : 2 ^ 32 ≤ fuel)
    (hbh : ciBucketHash xx fuel db.Header key = .ok bi) :
    ∀ w, ciDBLookup xx eh fuel db key ≠ .error (.panic w) := by
  intro w
  rw [gen_ciDBLookup_eq_spec xx eh fuel db l hs key bi hS hH hvs h1 hf hbh]
  unfold lookupSpec
  split
  · intro h; cases h
  · split
    · intro h; cases h
    · split
      · split
        · intro h; cases h
        · generalize CI.searchB _ _ _ _ _ = r
          cases r <;> (intro h; cases h)
      · intro h; cases h

/-! examples: one bucket (header at offset 0: nonce 0, one entry, hash length 3, entries at offset 16), one entry
    `hash 0x010203 ↦ [9, 8]`, value size 2 -/
def exFile : List UInt8 := [0,0,0,0, 1,0,0,0, 3,0, 16,0,0,0,0,0] ++ [3,2,1, 9,8]

example : lookupSpec (fun _ _ => 0x010203) exFile 0 2 1 0 [7] 100 = .ok ([9, 8], Go.Error.nil) := by rfl
example : lookupSpec (fun _ _ => 0x010204) exFile 0 2 1 0 [7] 100 = .ok ([], Go.Error.other "ErrNotFound") := by rfl
example : lookupSpec (fun _ _ => 0x010203) (exFile.take 20) 0 2 1 0 [7] 100 = .ok ([], Go.Error.other "EOF") := by rfl
example : lookupSpec (fun _ _ => 0x010203) (exFile.take 15) 0 2 1 0 [7] 100 = .ok ([], Go.Error.eof) := by rfl
example : lookupSpec (fun _ _ => 0x010203) exFile 0 2 1 1 [7] 100 = .ok ([], Go.Error.other "out of bounds bucket index: %d >= %d") := by rfl

end GoTies.CILookup

import Faithful.Generated.GoFns
import Faithful.Lib.EytzSearch
import Faithful.Lib.EytzLayout
import Faithful.Ties.Basic
/-!
Tie of the LAYOUT side of the eytzinger search tables: the recursive `eytzinger(in, out, i, k)` that all five index
writers use (bucketteer, deprecated/bucketteer, compactindexsized, deprecated/compactindex, deprecated/compactindex36 — five
textual copies), translated from /repo's working tree on every run, computes `Eytz.fill`, the function `fill_spec` and the
search theorems (`search_found`, layout completeness) are proved about.

Two steps: `fillF` is the same recursion on fuel (structural, so it unfolds by `rfl`); `fillF_eq_fill` identifies it with the
well-founded `Eytz.fill`; `gen_*_eq_fillF` identifies the translated code with `fillF`.
-/
namespace GoTies.EytzTie
open Go Generated.G GoTies

variable {T : Type} [Inhabited T]

def fillF (inp : Array T) (n : Nat) : Nat → Nat → Nat → Array T → Nat × Array T
  | 0, _, i, out => (i, out)
  | f+1, k, i, out =>
    if 0 < k ∧ k ≤ n then
      fillF inp n f (2*k+1) ((fillF inp n f (2*k) i out).1 + 1)
        ((fillF inp n f (2*k) i out).2.setIfInBounds (k-1) (inp.getD (fillF inp n f (2*k) i out).1 default))
    else (i, out)

theorem fillF_eq_fill (inp : Array T) (n : Nat) : ∀ (k i : Nat) (out : Array T) (fuel : Nat), n + 1 - k < fuel →
    fillF inp n fuel k i out = Eytz.fill inp n k i out := by
  intro k i out
  induction k, i, out using Eytz.fill.induct (inp := inp) (n := n) with
  | case1 k i out h ih1 ih2 =>
    intro fuel hf
    obtain ⟨f, rfl⟩ : ∃ f, fuel = f + 1 := ⟨fuel - 1, by omega⟩
    rw [fillF, Eytz.fill]
    simp only [h, and_self, if_true, dite_true]
    rw [ih1 f (by omega), ih2 f (by omega)]
  | case2 k i out h =>
    intro fuel hf
    obtain ⟨f, rfl⟩ : ∃ f, fuel = f + 1 := ⟨fuel - 1, by omega⟩
    rw [fillF, Eytz.fill]
    simp only [h, if_false, dite_false]


theorem fillF_facts (inp : Array T) (n k i : Nat) (out : Array T) (fuel : Nat) (hk : 0 < k) (hsz : out.size = n) (hf : n + 1 - k < fuel) :
    (fillF inp n fuel k i out).1 = i + Eytz.size n k ∧ (fillF inp n fuel k i out).2.size = n := by
  rw [fillF_eq_fill inp n k i out fuel hf]
  exact ⟨(Eytz.fill_spec inp n k i out hk hsz).1, (Eytz.fill_spec inp n k i out hk hsz).2.1⟩

theorem w61 (x : Int) (h1 : -4611686018427387904 ≤ x) (h2 : x ≤ 4611686018427387904) : Go.wrap64 x = x :=
  Go.wrap64_id (by omega) (by omega)

/-- the translated recursion = `fillF`, by induction on the fuel -/
theorem gen_bkEytzinger_eq_fillF (inp : List T) (n : Nat) (hn : inp.length = n) (hn61 : n < 2 ^ 61) :
    ∀ (fuel k i : Nat) (out : Array T), 0 < k → k ≤ 2 * n + 1 → out.size = n → i + Eytz.size n k ≤ n → n + 1 - k < fuel →
      bkEytzinger fuel inp out.toList (i : Int) (k : Int) =
        .ok (((fillF inp.toArray n fuel k i out).1 : Int), (fillF inp.toArray n fuel k i out).2.toList) := by
  intro fuel
  induction fuel with
  | zero => intro k i out _ _ _ _ h; omega
  | succ f ih =>
    intro k i out hk hk2 hsz hfit hfuel
    rw [bkEytzinger, fillF]
    by_cases h : 0 < k ∧ k ≤ n
    · have hsize : Eytz.size n k = Eytz.size n (2*k) + 1 + Eytz.size n (2*k+1) := Eytz.size_pos h
      -- the three subtree sizes as plain numbers (omega must not look inside the well-founded `size`)
      obtain ⟨sk, hsk⟩ : ∃ s, Eytz.size n k = s := ⟨_, rfl⟩
      obtain ⟨s1, hs1e⟩ : ∃ s, Eytz.size n (2*k) = s := ⟨_, rfl⟩
      obtain ⟨s2, hs2e⟩ : ∃ s, Eytz.size n (2*k+1) = s := ⟨_, rfl⟩
      rw [hsk, hs1e, hs2e] at hsize
      rw [hsk] at hfit
      have hfit1 : i + Eytz.size n (2*k) ≤ n := by rw [hs1e]; omega
      have hfit2' : ∀ x : Nat, x = i + s1 → x + 1 + Eytz.size n (2*k+1) ≤ n := by
        intro x hx; rw [hs2e, hx]; omega
      obtain ⟨hi1, hs1⟩ := fillF_facts inp.toArray n (2*k) i out f (by omega) hsz (by omega)
      rw [hs1e] at hi1
      clear hsk hs1e hs2e
      have hle : ((k : Int) ≤ Go.len inp) := by unfold Go.len; omega
      simp only [h, and_self, if_true, hle, decide_true]
      have hw1 : Go.wrap64 ((2 : Int) * (k : Int)) = ((2 * k : Nat) : Int) := by rw [w61 _ (by omega) (by omega)]; simp
      rw [hw1, ih (2*k) i out (by omega) (by omega) hsz hfit1 (by omega)]
      simp only [bind_ok]
      clear hfit1
      generalize fillF inp.toArray n f (2*k) i out = fl at *
      have hlt1 : fl.1 < inp.length := by rw [hi1]; omega
      have hidx : Go.idx inp ((fl.1 : Nat) : Int) = .ok (inp.toArray.getD fl.1 default) := by
        unfold Go.idx
        have : (0:Int) ≤ ((fl.1 : Nat) : Int) ∧ ((fl.1 : Nat) : Int) < inp.length := by omega
        simp only [this, and_self, if_true, pure_eq_ok, Int.toNat_natCast]
        simp [Array.getD, List.getD_eq_getElem?_getD, hlt1]
      simp only [hidx, bind_ok]
      have hw2 : Go.wrap64 ((k : Int) - 1) = ((k - 1 : Nat) : Int) := by rw [w61 _ (by omega) (by omega)]; omega
      have hset : Go.setIdx fl.2.toList ((k - 1 : Nat) : Int) (inp.toArray.getD fl.1 default)
          = .ok ((fl.2.setIfInBounds (k-1) (inp.toArray.getD fl.1 default)).toList) := by
        unfold Go.setIdx
        have : (0:Int) ≤ ((k - 1 : Nat) : Int) ∧ ((k - 1 : Nat) : Int) < fl.2.toList.length := by
          simp [hs1]; omega
        simp only [this, and_self, if_true, pure_eq_ok, Int.toNat_natCast]
        simp [Array.toList_setIfInBounds]
      rw [hw2, hset]
      simp only [bind_ok]
      have hfl1 : fl.1 < 2 ^ 61 := by omega
      have hw3 : Go.wrap64 (((fl.1 : Nat) : Int) + 1) = ((fl.1 + 1 : Nat) : Int) := by
        rw [w61 _ (by omega) (by omega)]; simp
      have hw4 : Go.wrap64 (((2 * k : Nat) : Int) + 1) = ((2 * k + 1 : Nat) : Int) := by rw [w61 _ (by omega) (by omega)]; simp
      rw [hw3, hw4]
      have hsz2 : (fl.2.setIfInBounds (k-1) (inp.toArray.getD fl.1 default)).size = n := by simp [hs1]
      have hfit2 : fl.1 + 1 + Eytz.size n (2*k+1) ≤ n := hfit2' fl.1 hi1
      clear hfit2'
      rw [ih (2*k+1) (fl.1 + 1) _ (by omega) (by omega) hsz2 hfit2 (by omega)]
      simp only [bind_ok, pure_eq_ok]
    · have hle : ¬ ((k : Int) ≤ Go.len inp) := by unfold Go.len; omega
      simp only [h, if_false, hle, decide_false, Bool.false_eq_true, pure_eq_ok]

/-- **tie** (bucketteer): the translated `eytzinger(in, out, i, k)` = `Eytz.fill`, for every input length below 2^61, every
    subtree `k ≥ 1` and start index `i` whose subtree fits the input (`i + size n k ≤ n`; `sortWithCompare` calls it with
    `i = 0, k = 1`, and `size n 1 = n`); `n + 2 - k` units of fuel suffice: the recursion terminates. -/
theorem gen_bkEytzinger_eq_fill (inp : List T) (n : Nat) (hn : inp.length = n) (hn61 : n < 2 ^ 61)
    (k i : Nat) (out : Array T) (fuel : Nat) (hk : 0 < k) (hk2 : k ≤ 2 * n + 1) (hsz : out.size = n)
    (hfit : i + Eytz.size n k ≤ n) (hfuel : n + 1 - k < fuel) :
    bkEytzinger fuel inp out.toList (i : Int) (k : Int) =
      .ok (((Eytz.fill inp.toArray n k i out).1 : Int), (Eytz.fill inp.toArray n k i out).2.toList) := by
  rw [gen_bkEytzinger_eq_fillF inp n hn hn61 fuel k i out hk hk2 hsz hfit hfuel, fillF_eq_fill _ _ _ _ _ _ hfuel]


/-- `sortWithCompare`'s call `eytzinger(a, sorted, 0, 1)` on a fresh `sorted` of the same length produces `Eytz.layout` -/
theorem gen_bkEytzinger_layout {β : Type} [Inhabited β] (inp : List (Nat × β)) (hn61 : inp.length < 2 ^ 61) :
    bkEytzinger (inp.length + 1) inp (List.replicate inp.length default) 0 1 =
      .ok ((inp.length : Int), (Eytz.layout inp.toArray).toList) := by
  have h := gen_bkEytzinger_eq_fill inp inp.length rfl hn61 1 0 (Array.replicate inp.length default) (inp.length + 1)
    (by omega) (by omega) (by simp) (by rw [Eytz.size_one]; omega) (by omega)
  simp only [Int.natCast_zero, Int.natCast_one, Array.toList_replicate] at h
  rw [h]
  have h1 : (Eytz.fill inp.toArray inp.length 1 0 (Array.replicate inp.length default)).1 = inp.length := by
    have := (Eytz.fill_spec inp.toArray inp.length 1 0 (Array.replicate inp.length default) (by omega) (by simp)).1
    rw [this, Eytz.size_one]; omega
  rw [h1]
  unfold Eytz.layout
  simp

/-- the translated recursion = `fillF`, by induction on the fuel -/
theorem gen_bk1Eytzinger_eq_fillF (inp : List T) (n : Nat) (hn : inp.length = n) (hn61 : n < 2 ^ 61) :
    ∀ (fuel k i : Nat) (out : Array T), 0 < k → k ≤ 2 * n + 1 → out.size = n → i + Eytz.size n k ≤ n → n + 1 - k < fuel →
      bk1Eytzinger fuel inp out.toList (i : Int) (k : Int) =
        .ok (((fillF inp.toArray n fuel k i out).1 : Int), (fillF inp.toArray n fuel k i out).2.toList) := by
  intro fuel
  induction fuel with
  | zero => intro k i out _ _ _ _ h; omega
  | succ f ih =>
    intro k i out hk hk2 hsz hfit hfuel
    rw [bk1Eytzinger, fillF]
    by_cases h : 0 < k ∧ k ≤ n
    · have hsize : Eytz.size n k = Eytz.size n (2*k) + 1 + Eytz.size n (2*k+1) := Eytz.size_pos h
      -- the three subtree sizes as plain numbers (omega must not look inside the well-founded `size`)
      obtain ⟨sk, hsk⟩ : ∃ s, Eytz.size n k = s := ⟨_, rfl⟩
      obtain ⟨s1, hs1e⟩ : ∃ s, Eytz.size n (2*k) = s := ⟨_, rfl⟩
      obtain ⟨s2, hs2e⟩ : ∃ s, Eytz.size n (2*k+1) = s := ⟨_, rfl⟩
      rw [hsk, hs1e, hs2e] at hsize
      rw [hsk] at hfit
      have hfit1 : i + Eytz.size n (2*k) ≤ n := by rw [hs1e]; omega
      have hfit2' : ∀ x : Nat, x = i + s1 → x + 1 + Eytz.size n (2*k+1) ≤ n := by
        intro x hx; rw [hs2e, hx]; omega
      obtain ⟨hi1, hs1⟩ := fillF_facts inp.toArray n (2*k) i out f (by omega) hsz (by omega)
      rw [hs1e] at hi1
      clear hsk hs1e hs2e
      have hle : ((k : Int) ≤ Go.len inp) := by unfold Go.len; omega
      simp only [h, and_self, if_true, hle, decide_true]
      have hw1 : Go.wrap64 ((2 : Int) * (k : Int)) = ((2 * k : Nat) : Int) := by rw [w61 _ (by omega) (by omega)]; simp
      rw [hw1, ih (2*k) i out (by omega) (by omega) hsz hfit1 (by omega)]
      simp only [bind_ok]
      clear hfit1
      generalize fillF inp.toArray n f (2*k) i out = fl at *
      have hlt1 : fl.1 < inp.length := by rw [hi1]; omega
      have hidx : Go.idx inp ((fl.1 : Nat) : Int) = .ok (inp.toArray.getD fl.1 default) := by
        unfold Go.idx
        have : (0:Int) ≤ ((fl.1 : Nat) : Int) ∧ ((fl.1 : Nat) : Int) < inp.length := by omega
        simp only [this, and_self, if_true, pure_eq_ok, Int.toNat_natCast]
        simp [Array.getD, List.getD_eq_getElem?_getD, hlt1]
      simp only [hidx, bind_ok]
      have hw2 : Go.wrap64 ((k : Int) - 1) = ((k - 1 : Nat) : Int) := by rw [w61 _ (by omega) (by omega)]; omega
      have hset : Go.setIdx fl.2.toList ((k - 1 : Nat) : Int) (inp.toArray.getD fl.1 default)
          = .ok ((fl.2.setIfInBounds (k-1) (inp.toArray.getD fl.1 default)).toList) := by
        unfold Go.setIdx
        have : (0:Int) ≤ ((k - 1 : Nat) : Int) ∧ ((k - 1 : Nat) : Int) < fl.2.toList.length := by
          simp [hs1]; omega
        simp only [this, and_self, if_true, pure_eq_ok, Int.toNat_natCast]
        simp [Array.toList_setIfInBounds]
      rw [hw2, hset]
      simp only [bind_ok]
      have hfl1 : fl.1 < 2 ^ 61 := by omega
      have hw3 : Go.wrap64 (((fl.1 : Nat) : Int) + 1) = ((fl.1 + 1 : Nat) : Int) := by
        rw [w61 _ (by omega) (by omega)]; simp
      have hw4 : Go.wrap64 (((2 * k : Nat) : Int) + 1) = ((2 * k + 1 : Nat) : Int) := by rw [w61 _ (by omega) (by omega)]; simp
      rw [hw3, hw4]
      have hsz2 : (fl.2.setIfInBounds (k-1) (inp.toArray.getD fl.1 default)).size = n := by simp [hs1]
      have hfit2 : fl.1 + 1 + Eytz.size n (2*k+1) ≤ n := hfit2' fl.1 hi1
      clear hfit2'
      rw [ih (2*k+1) (fl.1 + 1) _ (by omega) (by omega) hsz2 hfit2 (by omega)]
      simp only [bind_ok, pure_eq_ok]
    · have hle : ¬ ((k : Int) ≤ Go.len inp) := by unfold Go.len; omega
      simp only [h, if_false, hle, decide_false, Bool.false_eq_true, pure_eq_ok]

/-- **tie** (deprecated/bucketteer): the translated `eytzinger(in, out, i, k)` = `Eytz.fill`, for every input length below 2^61, every
    subtree `k ≥ 1` and start index `i` whose subtree fits the input (`i + size n k ≤ n`; `sortWithCompare` calls it with
    `i = 0, k = 1`, and `size n 1 = n`); `n + 2 - k` units of fuel suffice: the recursion terminates. -/
theorem gen_bk1Eytzinger_eq_fill (inp : List T) (n : Nat) (hn : inp.length = n) (hn61 : n < 2 ^ 61)
    (k i : Nat) (out : Array T) (fuel : Nat) (hk : 0 < k) (hk2 : k ≤ 2 * n + 1) (hsz : out.size = n)
    (hfit : i + Eytz.size n k ≤ n) (hfuel : n + 1 - k < fuel) :
    bk1Eytzinger fuel inp out.toList (i : Int) (k : Int) =
      .ok (((Eytz.fill inp.toArray n k i out).1 : Int), (Eytz.fill inp.toArray n k i out).2.toList) := by
  rw [gen_bk1Eytzinger_eq_fillF inp n hn hn61 fuel k i out hk hk2 hsz hfit hfuel, fillF_eq_fill _ _ _ _ _ _ hfuel]


/-- `sortWithCompare`'s call `eytzinger(a, sorted, 0, 1)` on a fresh `sorted` of the same length produces `Eytz.layout` -/
theorem gen_bk1Eytzinger_layout {β : Type} [Inhabited β] (inp : List (Nat × β)) (hn61 : inp.length < 2 ^ 61) :
    bk1Eytzinger (inp.length + 1) inp (List.replicate inp.length default) 0 1 =
      .ok ((inp.length : Int), (Eytz.layout inp.toArray).toList) := by
  have h := gen_bk1Eytzinger_eq_fill inp inp.length rfl hn61 1 0 (Array.replicate inp.length default) (inp.length + 1)
    (by omega) (by omega) (by simp) (by rw [Eytz.size_one]; omega) (by omega)
  simp only [Int.natCast_zero, Int.natCast_one, Array.toList_replicate] at h
  rw [h]
  have h1 : (Eytz.fill inp.toArray inp.length 1 0 (Array.replicate inp.length default)).1 = inp.length := by
    have := (Eytz.fill_spec inp.toArray inp.length 1 0 (Array.replicate inp.length default) (by omega) (by simp)).1
    rw [this, Eytz.size_one]; omega
  rw [h1]
  unfold Eytz.layout
  simp

/-- the translated recursion = `fillF`, by induction on the fuel -/
theorem gen_ciEytzinger_eq_fillF (inp : List T) (n : Nat) (hn : inp.length = n) (hn61 : n < 2 ^ 61) :
    ∀ (fuel k i : Nat) (out : Array T), 0 < k → k ≤ 2 * n + 1 → out.size = n → i + Eytz.size n k ≤ n → n + 1 - k < fuel →
      ciEytzinger fuel inp out.toList (i : Int) (k : Int) =
        .ok (((fillF inp.toArray n fuel k i out).1 : Int), (fillF inp.toArray n fuel k i out).2.toList) := by
  intro fuel
  induction fuel with
  | zero => intro k i out _ _ _ _ h; omega
  | succ f ih =>
    intro k i out hk hk2 hsz hfit hfuel
    rw [ciEytzinger, fillF]
    by_cases h : 0 < k ∧ k ≤ n
    · have hsize : Eytz.size n k = Eytz.size n (2*k) + 1 + Eytz.size n (2*k+1) := Eytz.size_pos h
      -- the three subtree sizes as plain numbers (omega must not look inside the well-founded `size`)
      obtain ⟨sk, hsk⟩ : ∃ s, Eytz.size n k = s := ⟨_, rfl⟩
      obtain ⟨s1, hs1e⟩ : ∃ s, Eytz.size n (2*k) = s := ⟨_, rfl⟩
      obtain ⟨s2, hs2e⟩ : ∃ s, Eytz.size n (2*k+1) = s := ⟨_, rfl⟩
      rw [hsk, hs1e, hs2e] at hsize
      rw [hsk] at hfit
      have hfit1 : i + Eytz.size n (2*k) ≤ n := by rw [hs1e]; omega
      have hfit2' : ∀ x : Nat, x = i + s1 → x + 1 + Eytz.size n (2*k+1) ≤ n := by
        intro x hx; rw [hs2e, hx]; omega
      obtain ⟨hi1, hs1⟩ := fillF_facts inp.toArray n (2*k) i out f (by omega) hsz (by omega)
      rw [hs1e] at hi1
      clear hsk hs1e hs2e
      have hle : ((k : Int) ≤ Go.len inp) := by unfold Go.len; omega
      simp only [h, and_self, if_true, hle, decide_true]
      have hw1 : Go.wrap64 ((2 : Int) * (k : Int)) = ((2 * k : Nat) : Int) := by rw [w61 _ (by omega) (by omega)]; simp
      rw [hw1, ih (2*k) i out (by omega) (by omega) hsz hfit1 (by omega)]
      simp only [bind_ok]
      clear hfit1
      generalize fillF inp.toArray n f (2*k) i out = fl at *
      have hlt1 : fl.1 < inp.length := by rw [hi1]; omega
      have hidx : Go.idx inp ((fl.1 : Nat) : Int) = .ok (inp.toArray.getD fl.1 default) := by
        unfold Go.idx
        have : (0:Int) ≤ ((fl.1 : Nat) : Int) ∧ ((fl.1 : Nat) : Int) < inp.length := by omega
        simp only [this, and_self, if_true, pure_eq_ok, Int.toNat_natCast]
        simp [Array.getD, List.getD_eq_getElem?_getD, hlt1]
      simp only [hidx, bind_ok]
      have hw2 : Go.wrap64 ((k : Int) - 1) = ((k - 1 : Nat) : Int) := by rw [w61 _ (by omega) (by omega)]; omega
      have hset : Go.setIdx fl.2.toList ((k - 1 : Nat) : Int) (inp.toArray.getD fl.1 default)
          = .ok ((fl.2.setIfInBounds (k-1) (inp.toArray.getD fl.1 default)).toList) := by
        unfold Go.setIdx
        have : (0:Int) ≤ ((k - 1 : Nat) : Int) ∧ ((k - 1 : Nat) : Int) < fl.2.toList.length := by
          simp [hs1]; omega
        simp only [this, and_self, if_true, pure_eq_ok, Int.toNat_natCast]
        simp [Array.toList_setIfInBounds]
      rw [hw2, hset]
      simp only [bind_ok]
      have hfl1 : fl.1 < 2 ^ 61 := by omega
      have hw3 : Go.wrap64 (((fl.1 : Nat) : Int) + 1) = ((fl.1 + 1 : Nat) : Int) := by
        rw [w61 _ (by omega) (by omega)]; simp
      have hw4 : Go.wrap64 (((2 * k : Nat) : Int) + 1) = ((2 * k + 1 : Nat) : Int) := by rw [w61 _ (by omega) (by omega)]; simp
      rw [hw3, hw4]
      have hsz2 : (fl.2.setIfInBounds (k-1) (inp.toArray.getD fl.1 default)).size = n := by simp [hs1]
      have hfit2 : fl.1 + 1 + Eytz.size n (2*k+1) ≤ n := hfit2' fl.1 hi1
      clear hfit2'
      rw [ih (2*k+1) (fl.1 + 1) _ (by omega) (by omega) hsz2 hfit2 (by omega)]
      simp only [bind_ok, pure_eq_ok]
    · have hle : ¬ ((k : Int) ≤ Go.len inp) := by unfold Go.len; omega
      simp only [h, if_false, hle, decide_false, Bool.false_eq_true, pure_eq_ok]

/-- **tie** (compactindexsized): the translated `eytzinger(in, out, i, k)` = `Eytz.fill`, for every input length below 2^61, every
    subtree `k ≥ 1` and start index `i` whose subtree fits the input (`i + size n k ≤ n`; `sortWithCompare` calls it with
    `i = 0, k = 1`, and `size n 1 = n`); `n + 2 - k` units of fuel suffice: the recursion terminates. -/
theorem gen_ciEytzinger_eq_fill (inp : List T) (n : Nat) (hn : inp.length = n) (hn61 : n < 2 ^ 61)
    (k i : Nat) (out : Array T) (fuel : Nat) (hk : 0 < k) (hk2 : k ≤ 2 * n + 1) (hsz : out.size = n)
    (hfit : i + Eytz.size n k ≤ n) (hfuel : n + 1 - k < fuel) :
    ciEytzinger fuel inp out.toList (i : Int) (k : Int) =
      .ok (((Eytz.fill inp.toArray n k i out).1 : Int), (Eytz.fill inp.toArray n k i out).2.toList) := by
  rw [gen_ciEytzinger_eq_fillF inp n hn hn61 fuel k i out hk hk2 hsz hfit hfuel, fillF_eq_fill _ _ _ _ _ _ hfuel]


/-- `sortWithCompare`'s call `eytzinger(a, sorted, 0, 1)` on a fresh `sorted` of the same length produces `Eytz.layout` -/
theorem gen_ciEytzinger_layout {β : Type} [Inhabited β] (inp : List (Nat × β)) (hn61 : inp.length < 2 ^ 61) :
    ciEytzinger (inp.length + 1) inp (List.replicate inp.length default) 0 1 =
      .ok ((inp.length : Int), (Eytz.layout inp.toArray).toList) := by
  have h := gen_ciEytzinger_eq_fill inp inp.length rfl hn61 1 0 (Array.replicate inp.length default) (inp.length + 1)
    (by omega) (by omega) (by simp) (by rw [Eytz.size_one]; omega) (by omega)
  simp only [Int.natCast_zero, Int.natCast_one, Array.toList_replicate] at h
  rw [h]
  have h1 : (Eytz.fill inp.toArray inp.length 1 0 (Array.replicate inp.length default)).1 = inp.length := by
    have := (Eytz.fill_spec inp.toArray inp.length 1 0 (Array.replicate inp.length default) (by omega) (by simp)).1
    rw [this, Eytz.size_one]; omega
  rw [h1]
  unfold Eytz.layout
  simp

/-- the translated recursion = `fillF`, by induction on the fuel -/
theorem gen_l8Eytzinger_eq_fillF (inp : List T) (n : Nat) (hn : inp.length = n) (hn61 : n < 2 ^ 61) :
    ∀ (fuel k i : Nat) (out : Array T), 0 < k → k ≤ 2 * n + 1 → out.size = n → i + Eytz.size n k ≤ n → n + 1 - k < fuel →
      l8Eytzinger fuel inp out.toList (i : Int) (k : Int) =
        .ok (((fillF inp.toArray n fuel k i out).1 : Int), (fillF inp.toArray n fuel k i out).2.toList) := by
  intro fuel
  induction fuel with
  | zero => intro k i out _ _ _ _ h; omega
  | succ f ih =>
    intro k i out hk hk2 hsz hfit hfuel
    rw [l8Eytzinger, fillF]
    by_cases h : 0 < k ∧ k ≤ n
    · have hsize : Eytz.size n k = Eytz.size n (2*k) + 1 + Eytz.size n (2*k+1) := Eytz.size_pos h
      -- the three subtree sizes as plain numbers (omega must not look inside the well-founded `size`)
      obtain ⟨sk, hsk⟩ : ∃ s, Eytz.size n k = s := ⟨_, rfl⟩
      obtain ⟨s1, hs1e⟩ : ∃ s, Eytz.size n (2*k) = s := ⟨_, rfl⟩
      obtain ⟨s2, hs2e⟩ : ∃ s, Eytz.size n (2*k+1) = s := ⟨_, rfl⟩
      rw [hsk, hs1e, hs2e] at hsize
      rw [hsk] at hfit
      have hfit1 : i + Eytz.size n (2*k) ≤ n := by rw [hs1e]; omega
      have hfit2' : ∀ x : Nat, x = i + s1 → x + 1 + Eytz.size n (2*k+1) ≤ n := by
        intro x hx; rw [hs2e, hx]; omega
      obtain ⟨hi1, hs1⟩ := fillF_facts inp.toArray n (2*k) i out f (by omega) hsz (by omega)
      rw [hs1e] at hi1
      clear hsk hs1e hs2e
      have hle : ((k : Int) ≤ Go.len inp) := by unfold Go.len; omega
      simp only [h, and_self, if_true, hle, decide_true]
      have hw1 : Go.wrap64 ((2 : Int) * (k : Int)) = ((2 * k : Nat) : Int) := by rw [w61 _ (by omega) (by omega)]; simp
      rw [hw1, ih (2*k) i out (by omega) (by omega) hsz hfit1 (by omega)]
      simp only [bind_ok]
      clear hfit1
      generalize fillF inp.toArray n f (2*k) i out = fl at *
      have hlt1 : fl.1 < inp.length := by rw [hi1]; omega
      have hidx : Go.idx inp ((fl.1 : Nat) : Int) = .ok (inp.toArray.getD fl.1 default) := by
        unfold Go.idx
        have : (0:Int) ≤ ((fl.1 : Nat) : Int) ∧ ((fl.1 : Nat) : Int) < inp.length := by omega
        simp only [this, and_self, if_true, pure_eq_ok, Int.toNat_natCast]
        simp [Array.getD, List.getD_eq_getElem?_getD, hlt1]
      simp only [hidx, bind_ok]
      have hw2 : Go.wrap64 ((k : Int) - 1) = ((k - 1 : Nat) : Int) := by rw [w61 _ (by omega) (by omega)]; omega
      have hset : Go.setIdx fl.2.toList ((k - 1 : Nat) : Int) (inp.toArray.getD fl.1 default)
          = .ok ((fl.2.setIfInBounds (k-1) (inp.toArray.getD fl.1 default)).toList) := by
        unfold Go.setIdx
        have : (0:Int) ≤ ((k - 1 : Nat) : Int) ∧ ((k - 1 : Nat) : Int) < fl.2.toList.length := by
          simp [hs1]; omega
        simp only [this, and_self, if_true, pure_eq_ok, Int.toNat_natCast]
        simp [Array.toList_setIfInBounds]
      rw [hw2, hset]
      simp only [bind_ok]
      have hfl1 : fl.1 < 2 ^ 61 := by omega
      have hw3 : Go.wrap64 (((fl.1 : Nat) : Int) + 1) = ((fl.1 + 1 : Nat) : Int) := by
        rw [w61 _ (by omega) (by omega)]; simp
      have hw4 : Go.wrap64 (((2 * k : Nat) : Int) + 1) = ((2 * k + 1 : Nat) : Int) := by rw [w61 _ (by omega) (by omega)]; simp
      rw [hw3, hw4]
      have hsz2 : (fl.2.setIfInBounds (k-1) (inp.toArray.getD fl.1 default)).size = n := by simp [hs1]
      have hfit2 : fl.1 + 1 + Eytz.size n (2*k+1) ≤ n := hfit2' fl.1 hi1
      clear hfit2'
      rw [ih (2*k+1) (fl.1 + 1) _ (by omega) (by omega) hsz2 hfit2 (by omega)]
      simp only [bind_ok, pure_eq_ok]
    · have hle : ¬ ((k : Int) ≤ Go.len inp) := by unfold Go.len; omega
      simp only [h, if_false, hle, decide_false, Bool.false_eq_true, pure_eq_ok]

/-- **tie** (deprecated/compactindex): the translated `eytzinger(in, out, i, k)` = `Eytz.fill`, for every input length below 2^61, every
    subtree `k ≥ 1` and start index `i` whose subtree fits the input (`i + size n k ≤ n`; `sortWithCompare` calls it with
    `i = 0, k = 1`, and `size n 1 = n`); `n + 2 - k` units of fuel suffice: the recursion terminates. -/
theorem gen_l8Eytzinger_eq_fill (inp : List T) (n : Nat) (hn : inp.length = n) (hn61 : n < 2 ^ 61)
    (k i : Nat) (out : Array T) (fuel : Nat) (hk : 0 < k) (hk2 : k ≤ 2 * n + 1) (hsz : out.size = n)
    (hfit : i + Eytz.size n k ≤ n) (hfuel : n + 1 - k < fuel) :
    l8Eytzinger fuel inp out.toList (i : Int) (k : Int) =
      .ok (((Eytz.fill inp.toArray n k i out).1 : Int), (Eytz.fill inp.toArray n k i out).2.toList) := by
  rw [gen_l8Eytzinger_eq_fillF inp n hn hn61 fuel k i out hk hk2 hsz hfit hfuel, fillF_eq_fill _ _ _ _ _ _ hfuel]


/-- `sortWithCompare`'s call `eytzinger(a, sorted, 0, 1)` on a fresh `sorted` of the same length produces `Eytz.layout` -/
theorem gen_l8Eytzinger_layout {β : Type} [Inhabited β] (inp : List (Nat × β)) (hn61 : inp.length < 2 ^ 61) :
    l8Eytzinger (inp.length + 1) inp (List.replicate inp.length default) 0 1 =
      .ok ((inp.length : Int), (Eytz.layout inp.toArray).toList) := by
  have h := gen_l8Eytzinger_eq_fill inp inp.length rfl hn61 1 0 (Array.replicate inp.length default) (inp.length + 1)
    (by omega) (by omega) (by simp) (by rw [Eytz.size_one]; omega) (by omega)
  simp only [Int.natCast_zero, Int.natCast_one, Array.toList_replicate] at h
  rw [h]
  have h1 : (Eytz.fill inp.toArray inp.length 1 0 (Array.replicate inp.length default)).1 = inp.length := by
    have := (Eytz.fill_spec inp.toArray inp.length 1 0 (Array.replicate inp.length default) (by omega) (by simp)).1
    rw [this, Eytz.size_one]; omega
  rw [h1]
  unfold Eytz.layout
  simp

/-- the translated recursion = `fillF`, by induction on the fuel -/
theorem gen_l36Eytzinger_eq_fillF (inp : List T) (n : Nat) (hn : inp.length = n) (hn61 : n < 2 ^ 61) :
    ∀ (fuel k i : Nat) (out : Array T), 0 < k → k ≤ 2 * n + 1 → out.size = n → i + Eytz.size n k ≤ n → n + 1 - k < fuel →
      l36Eytzinger fuel inp out.toList (i : Int) (k : Int) =
        .ok (((fillF inp.toArray n fuel k i out).1 : Int), (fillF inp.toArray n fuel k i out).2.toList) := by
  intro fuel
  induction fuel with
  | zero => intro k i out _ _ _ _ h; omega
  | succ f ih =>
    intro k i out hk hk2 hsz hfit hfuel
    rw [l36Eytzinger, fillF]
    by_cases h : 0 < k ∧ k ≤ n
    · have hsize : Eytz.size n k = Eytz.size n (2*k) + 1 + Eytz.size n (2*k+1) := Eytz.size_pos h
      -- the three subtree sizes as plain numbers (omega must not look inside the well-founded `size`)
      obtain ⟨sk, hsk⟩ : ∃ s, Eytz.size n k = s := ⟨_, rfl⟩
      obtain ⟨s1, hs1e⟩ : ∃ s, Eytz.size n (2*k) = s := ⟨_, rfl⟩
      obtain ⟨s2, hs2e⟩ : ∃ s, Eytz.size n (2*k+1) = s := ⟨_, rfl⟩
      rw [hsk, hs1e, hs2e] at hsize
      rw [hsk] at hfit
      have hfit1 : i + Eytz.size n (2*k) ≤ n := by rw [hs1e]; omega
      have hfit2' : ∀ x : Nat, x = i + s1 → x + 1 + Eytz.size n (2*k+1) ≤ n := by
        intro x hx; rw [hs2e, hx]; omega
      obtain ⟨hi1, hs1⟩ := fillF_facts inp.toArray n (2*k) i out f (by omega) hsz (by omega)
      rw [hs1e] at hi1
      clear hsk hs1e hs2e
      have hle : ((k : Int) ≤ Go.len inp) := by unfold Go.len; omega
      simp only [h, and_self, if_true, hle, decide_true]
      have hw1 : Go.wrap64 ((2 : Int) * (k : Int)) = ((2 * k : Nat) : Int) := by rw [w61 _ (by omega) (by omega)]; simp
      rw [hw1, ih (2*k) i out (by omega) (by omega) hsz hfit1 (by omega)]
      simp only [bind_ok]
      clear hfit1
      generalize fillF inp.toArray n f (2*k) i out = fl at *
      have hlt1 : fl.1 < inp.length := by rw [hi1]; omega
      have hidx : Go.idx inp ((fl.1 : Nat) : Int) = .ok (inp.toArray.getD fl.1 default) := by
        unfold Go.idx
        have : (0:Int) ≤ ((fl.1 : Nat) : Int) ∧ ((fl.1 : Nat) : Int) < inp.length := by omega
        simp only [this, and_self, if_true, pure_eq_ok, Int.toNat_natCast]
        simp [Array.getD, List.getD_eq_getElem?_getD, hlt1]
      simp only [hidx, bind_ok]
      have hw2 : Go.wrap64 ((k : Int) - 1) = ((k - 1 : Nat) : Int) := by rw [w61 _ (by omega) (by omega)]; omega
      have hset : Go.setIdx fl.2.toList ((k - 1 : Nat) : Int) (inp.toArray.getD fl.1 default)
          = .ok ((fl.2.setIfInBounds (k-1) (inp.toArray.getD fl.1 default)).toList) := by
        unfold Go.setIdx
        have : (0:Int) ≤ ((k - 1 : Nat) : Int) ∧ ((k - 1 : Nat) : Int) < fl.2.toList.length := by
          simp [hs1]; omega
        simp only [this, and_self, if_true, pure_eq_ok, Int.toNat_natCast]
        simp [Array.toList_setIfInBounds]
      rw [hw2, hset]
      simp only [bind_ok]
      have hfl1 : fl.1 < 2 ^ 61 := by omega
      have hw3 : Go.wrap64 (((fl.1 : Nat) : Int) + 1) = ((fl.1 + 1 : Nat) : Int) := by
        rw [w61 _ (by omega) (by omega)]; simp
      have hw4 : Go.wrap64 (((2 * k : Nat) : Int) + 1) = ((2 * k + 1 : Nat) : Int) := by rw [w61 _ (by omega) (by omega)]; simp
      rw [hw3, hw4]
      have hsz2 : (fl.2.setIfInBounds (k-1) (inp.toArray.getD fl.1 default)).size = n := by simp [hs1]
      have hfit2 : fl.1 + 1 + Eytz.size n (2*k+1) ≤ n := hfit2' fl.1 hi1
      clear hfit2'
      rw [ih (2*k+1) (fl.1 + 1) _ (by omega) (by omega) hsz2 hfit2 (by omega)]
      simp only [bind_ok, pure_eq_ok]
    · have hle : ¬ ((k : Int) ≤ Go.len inp) := by unfold Go.len; omega
      simp only [h, if_false, hle, decide_false, Bool.false_eq_true, pure_eq_ok]

/-- **tie** (deprecated/compactindex36): the translated `eytzinger(in, out, i, k)` = `Eytz.fill`, for every input length below 2^61, every
    subtree `k ≥ 1` and start index `i` whose subtree fits the input (`i + size n k ≤ n`; `sortWithCompare` calls it with
    `i = 0, k = 1`, and `size n 1 = n`); `n + 2 - k` units of fuel suffice: the recursion terminates. -/
theorem gen_l36Eytzinger_eq_fill (inp : List T) (n : Nat) (hn : inp.length = n) (hn61 : n < 2 ^ 61)
    (k i : Nat) (out : Array T) (fuel : Nat) (hk : 0 < k) (hk2 : k ≤ 2 * n + 1) (hsz : out.size = n)
    (hfit : i + Eytz.size n k ≤ n) (hfuel : n + 1 - k < fuel) :
    l36Eytzinger fuel inp out.toList (i : Int) (k : Int) =
      .ok (((Eytz.fill inp.toArray n k i out).1 : Int), (Eytz.fill inp.toArray n k i out).2.toList) := by
  rw [gen_l36Eytzinger_eq_fillF inp n hn hn61 fuel k i out hk hk2 hsz hfit hfuel, fillF_eq_fill _ _ _ _ _ _ hfuel]


/-- `sortWithCompare`'s call `eytzinger(a, sorted, 0, 1)` on a fresh `sorted` of the same length produces `Eytz.layout` -/
theorem gen_l36Eytzinger_layout {β : Type} [Inhabited β] (inp : List (Nat × β)) (hn61 : inp.length < 2 ^ 61) :
    l36Eytzinger (inp.length + 1) inp (List.replicate inp.length default) 0 1 =
      .ok ((inp.length : Int), (Eytz.layout inp.toArray).toList) := by
  have h := gen_l36Eytzinger_eq_fill inp inp.length rfl hn61 1 0 (Array.replicate inp.length default) (inp.length + 1)
    (by omega) (by omega) (by simp) (by rw [Eytz.size_one]; omega) (by omega)
  simp only [Int.natCast_zero, Int.natCast_one, Array.toList_replicate] at h
  rw [h]
  have h1 : (Eytz.fill inp.toArray inp.length 1 0 (Array.replicate inp.length default)).1 = inp.length := by
    have := (Eytz.fill_spec inp.toArray inp.length 1 0 (Array.replicate inp.length default) (by omega) (by simp)).1
    rw [this, Eytz.size_one]; omega
  rw [h1]
  unfold Eytz.layout
  simp

end GoTies.EytzTie

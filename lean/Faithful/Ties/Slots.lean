import Faithful.Generated.GoFns
import Faithful.Lib.Bytes
import Faithful.Ties.Basic
/-!
Direct theorems on the translated `slottools` package (regenerated from /repo's working tree on every run):
the slot → epoch routing every RPC handler, the gRPC server and the gsfa multi-epoch reader use.

* `epochForSlot` is integer division by 432000;
* away from the 64-bit wrap-around, the limits of an epoch are `[e*432000, e*432000+431999]`, a slot lies inside the
  limits of exactly the epoch it is routed to, and the limits of consecutive epochs tile the slot axis;
* the wrap-around is real for the last partial epoch: its stop slot wraps (stated, not hidden);
* `Uint64RangesHavePartialOverlapIncludingEdges` is interval intersection for well-formed intervals;
* `Uint64FromLEBytes (Uint64ToLEBytes v) = v`.
-/
namespace GoTies.Slots
open Go Generated.G GoTies

def EpochLen : Nat := 432000

theorem calcEpochForSlot_eq (s : UInt64) : calcEpochForSlotM s = .ok (s / 432000) := by rfl

theorem epochForSlot_eq (s : UInt64) : epochForSlot s = .ok (s / 432000) := by rfl

theorem epochForSlot_toNat (s : UInt64) : (s / 432000 : UInt64).toNat = s.toNat / EpochLen := by
  rw [UInt64.toNat_div]; rfl

theorem calcEpochLimits_eq (e : UInt64) : calcEpochLimits e = .ok (e * 432000, e * 432000 + 432000 - 1) := by rfl

/-- away from the wrap-around the limits are the arithmetic ones -/
theorem calcEpochLimits_toNat (e : UInt64) (h : (e.toNat + 1) * EpochLen ≤ 2 ^ 64) :
    (e * 432000 : UInt64).toNat = e.toNat * EpochLen ∧
    (e * 432000 + 432000 - 1 : UInt64).toNat = e.toNat * EpochLen + (EpochLen - 1) := by
  unfold EpochLen at *
  have h1 : (e * 432000 : UInt64).toNat = e.toNat * 432000 := by
    rw [UInt64.toNat_mul]
    have : (432000 : UInt64).toNat = 432000 := by rfl
    rw [this]
    apply Nat.mod_eq_of_lt
    have : UInt64.size = 2 ^ 64 := by rfl
    omega
  refine ⟨h1, ?_⟩
  have h2 : (e * 432000 + 432000 - 1 : UInt64) = e * 432000 + 431999 := by
    rw [UInt64.sub_eq_add_neg, UInt64.add_assoc]; rfl
  rw [h2, UInt64.toNat_add, h1]
  have : (431999 : UInt64).toNat = 431999 := by rfl
  rw [this]
  apply Nat.mod_eq_of_lt
  omega

/-- **routing theorem**: away from the wrap-around, a slot lies inside the limits of an epoch iff it is routed to it -/
theorem slot_in_limits_iff (s e : UInt64) (h : (e.toNat + 1) * EpochLen ≤ 2 ^ 64) :
    ((e * 432000 : UInt64) ≤ s ∧ s ≤ (e * 432000 + 432000 - 1 : UInt64)) ↔ s / 432000 = e := by
  obtain ⟨h1, h2⟩ := calcEpochLimits_toNat e h
  rw [UInt64.le_iff_toNat_le, UInt64.le_iff_toNat_le, h1, h2, ← UInt64.toNat_inj, epochForSlot_toNat]
  unfold EpochLen at *
  constructor
  · intro ⟨a, b⟩
    apply Nat.div_eq_of_lt_le <;> omega
  · intro hd
    have := Nat.div_add_mod s.toNat 432000
    have := Nat.mod_lt s.toNat (show 432000 > 0 by omega)
    rw [hd] at *
    omega

/-- every slot away from the last (partial) epoch lies inside the limits of the epoch it is routed to -/
theorem slot_in_own_limits (s : UInt64) (h : (s.toNat / EpochLen + 1) * EpochLen ≤ 2 ^ 64) :
    (s / 432000 * 432000 : UInt64) ≤ s ∧ s ≤ (s / 432000 * 432000 + 432000 - 1 : UInt64) := by
  apply (slot_in_limits_iff s (s / 432000) (by rw [epochForSlot_toNat]; exact h)).mpr rfl

/-- consecutive epochs tile the slot axis: the next epoch starts right after the stop slot -/
theorem limits_tile (e : UInt64) (h : (e.toNat + 2) * EpochLen ≤ 2 ^ 64) :
    ((e + 1) * 432000 : UInt64).toNat = (e * 432000 + 432000 - 1 : UInt64).toNat + 1 := by
  have he1 : (e + 1 : UInt64).toNat = e.toNat + 1 := by
    rw [UInt64.toNat_add]
    have : (1 : UInt64).toNat = 1 := by rfl
    rw [this]; apply Nat.mod_eq_of_lt
    unfold EpochLen at h; omega
  have hA : (e.toNat + 1) * EpochLen ≤ 2 ^ 64 := by
    exact Nat.le_trans (Nat.mul_le_mul_right _ (by omega)) h
  have hB : ((e + 1 : UInt64).toNat + 1) * EpochLen ≤ 2 ^ 64 := by
    rw [he1]; exact h
  obtain ⟨_, h2⟩ := calcEpochLimits_toNat e hA
  obtain ⟨h3, _⟩ := calcEpochLimits_toNat (e + 1) hB
  rw [h3, h2, he1]
  show (e.toNat + 1) * 432000 = e.toNat * 432000 + (432000 - 1) + 1
  omega

/-- the wrap-around is real: the last full epoch is 42700796466919; the partial epoch after it has a stop slot that
wraps below its start (slots ≥ 18446744073709440000 are outside what the hypothesis of the theorems above covers) -/
example : calcEpochLimits 42700796466919 = .ok (18446744073709008000, 18446744073709439999) := by rw [calcEpochLimits_eq]; rfl
example : calcEpochLimits 42700796466920 = .ok (18446744073709440000, 320383) := by rw [calcEpochLimits_eq]; rfl

/-- **overlap**: for well-formed closed intervals the predicate is interval intersection -/
theorem rangesOverlap_eq (a0 a1 b0 b1 : UInt64) (ha : a0 ≤ a1) (hb : b0 ≤ b1) :
    rangesOverlap [a0, a1] [b0, b1] = .ok (decide (a0 ≤ b1 ∧ b0 ≤ a1)) := by
  unfold rangesOverlap
  simp only [Go.idx, List.length_cons, List.length_nil]
  rw [UInt64.le_iff_toNat_le] at ha hb
  by_cases h : a0 < b0
  · have h' := UInt64.lt_iff_toNat_lt.mp h
    simp [h, UInt64.le_iff_toNat_le]
    intro _; omega
  · have h' : ¬ a0.toNat < b0.toNat := fun x => h (UInt64.lt_iff_toNat_lt.mpr x)
    simp [h, UInt64.le_iff_toNat_le]
    omega

/-- `[2]uint64` arguments never panic -/
theorem rangesOverlap_total (a0 a1 b0 b1 : UInt64) : ∃ r, rangesOverlap [a0, a1] [b0, b1] = .ok r := by
  unfold rangesOverlap
  simp only [Go.idx, List.length_cons, List.length_nil]
  by_cases h : a0 < b0 <;> simp [h]

/-- `Uint64FromLEBytes (Uint64ToLEBytes v) = v` -/
theorem uint64_le_roundtrip (v : UInt64) : (uint64ToLEBytes v >>= uint64FromLEBytes) = .ok v := by
  unfold uint64ToLEBytes uint64FromLEBytes
  simp [Go.makeOf, Go.putLeU64, Go.leU64, leDecode_eq_unle, leEncode_eq_le, B.le_length]
  have : B.unle (B.le 8 v.toNat) = v.toNat := B.unle_le_of_lt 8 _ (by have := v.toNat_lt; omega)
  have ht : List.take 8 (B.le 8 v.toNat) = B.le 8 v.toNat := by
    apply List.take_of_length_le; rw [B.le_length]; omega
  simp [ht, this]

example : epochForSlot 206459118 = .ok 477 := by rfl
example : calcEpochLimits 447 = .ok (193104000, 193535999) := by rfl
example : rangesOverlap [0, 10] [10, 15] = .ok true := by rfl
example : rangesOverlap [0, 10] [11, 15] = .ok false := by rfl

end GoTies.Slots

import Faithful.Lib.GoSem
import Faithful.Lib.Bytes
/-!
Lemmas shared by the tie modules: the byte-level helpers of the translator's runtime (`Go.*`) agree with the ones the
hand-written models use (`B.*`).
-/
namespace GoTies
open Go

theorem leDecode_eq_unle (b : List UInt8) : Go.leDecode b = B.unle b := by
  induction b with
  | nil => rfl
  | cons x xs ih => simp [Go.leDecode, B.unle, ih]

theorem leEncode_eq_le (w v : Nat) : Go.leEncode w v = B.le w v := by
  induction w generalizing v with
  | zero => rfl
  | succ w ih => simp [Go.leEncode, B.le, ih]

@[simp] theorem bind_ok {α β : Type} (a : α) (f : α → M β) : (Except.ok a : M α) >>= f = f a := id rfl
@[simp] theorem bind_error {α β : Type} (e : Err) (f : α → M β) : (Except.error e : M α) >>= f = Except.error e := id rfl
@[simp] theorem pure_eq_ok {α : Type} (a : α) : (pure a : M α) = Except.ok a := id rfl

@[simp] theorem throw_eq {α : Type} (e : Err) : (throw e : M α) = Except.error e := id rfl

theorem unle_lt (b : List UInt8) : B.unle b < 256 ^ b.length := by
  induction b with
  | nil => simp [B.unle]
  | cons x xs ih =>
    simp only [B.unle, List.length_cons, Nat.pow_succ]
    have := x.toNat_lt
    have h8 : x.toNat < 256 := by simpa using this
    omega

theorem unle_append_zeros (b : List UInt8) (k : Nat) : B.unle (b ++ List.replicate k 0) = B.unle b := by
  induction b with
  | nil =>
    induction k with
    | zero => rfl
    | succ k ih => simp [List.replicate_succ, B.unle] at ih ⊢; omega
  | cons x xs ih => simp [B.unle, ih]

end GoTies

import Faithful.Generated.GoFns
import Faithful.Lib.CompactIndexLegacy
import Faithful.Ties.C04
/-!
C04 ties for the two legacy formats the server still reads (`deprecated/compactindex`: 8-byte values,
`deprecated/compactindex36`: 36-byte values): their `searchEytzinger`, `hashUint64` and `Header.BucketHash`, translated
from /repo's working tree on every run, compute what the model (`CI.searchB`, `CI.bucketHash`, shared with the current
format) says.  (Generated from one proof template for both formats.)
-/
namespace GoTies.C04L
open Go Generated.G GoTies

/-! ### deprecated/compactindex: searchEytzinger, BucketHash -/

def l8MkEntry (e : CI.Ent) : Compactindex_Entry := { Hash := UInt64.ofNat e.1, Value := UInt64.ofNat (B.unle e.2) }

def l8LookToM (ioErr : Err) : CI.Look → M UInt64
  | .found v => .ok (UInt64.ofNat (B.unle v))
  | .notFound => .error (.err "ErrNotFound")
  | .err => .error ioErr
  | .hang => .error .hang

def l8LookToLoop (ioErr : Err) : CI.Look → M (LoopRes UInt64 Int) → Prop
  | .found v, r => r = .ok (.ret (UInt64.ofNat (B.unle v)))
  | .notFound, r => ∃ i, r = .ok (.done i)
  | .err, r => r = .error ioErr
  | .hang, _ => False

theorem l8_loop_eq (get : Nat → Option CI.Ent) (x : UInt64) (max : Nat) (hmax : max < 2^62) (ioErr : Err)
    (getter : Int → M Compactindex_Entry) (fuel0 : Nat)
    (hget : ∀ i : Nat, i < max → getter (i : Int) = match get i with | none => .error ioErr | some e => .ok (l8MkEntry e))
    (hr : ∀ i e, get i = some e → e.1 < 2^64) :
    ∀ (fuel n : Nat), max < n + fuel → 0 < fuel →
      l8LookToLoop ioErr (CI.searchB get x.toNat max fuel n) (l8SearchEytzinger.loop1 fuel0 getter (max : Int) x fuel (n : Int)) := by
  intro fuel
  induction fuel with
  | zero => intro n h h0; omega
  | succ f ih =>
    intro n h _
    rw [CI.searchB, l8SearchEytzinger.loop1]
    by_cases hn : n < max
    · have hn' : (n : Int) < (max : Int) := by omega
      simp only [hn, hn', if_true, decide_true, Bool.not_true, Bool.false_eq_true, if_false]
      rw [hget n hn]
      cases hg : get n with
      | none => simp [l8LookToLoop]
      | some e =>
        have he := hr n e hg
        simp only [bind_ok, l8MkEntry]
        by_cases hx : e.1 = x.toNat
        · have : UInt64.ofNat e.1 = x := by rw [hx]; simp
          simp [hx, l8LookToLoop]
        · have hne : ¬ UInt64.ofNat e.1 = x := by
            intro hc; apply hx; rw [← hc]; simp [UInt64.toNat_ofNat', Nat.mod_eq_of_lt he]
          simp only [hx, if_false, beq_iff_eq, hne]
          rw [C04.orInt_step n (by omega)]
          by_cases hlt : e.1 < x.toNat
          · have hlt' : UInt64.ofNat e.1 < x := by
              rw [UInt64.lt_iff_toNat_lt]; simp [UInt64.toNat_ofNat', Nat.mod_eq_of_lt he]; exact hlt
            simp only [hlt, hlt', if_true, decide_true]
            have hw : Go.wrap64 (((2 * n + 1 : Nat) : Int) + 1) = ((2 * n + 2 : Nat) : Int) := by
              rw [Go.wrap64_id] <;> omega
            rw [hw]
            exact ih (2*n+2) (by omega) (by omega)
          · have hlt' : ¬ UInt64.ofNat e.1 < x := by
              rw [UInt64.lt_iff_toNat_lt]; simp [UInt64.toNat_ofNat', Nat.mod_eq_of_lt he]; omega
            simp only [hlt, hlt', if_false, decide_false, Bool.false_eq_true]
            exact ih (2*n+1) (by omega) (by omega)
    · have hn' : ¬ (n : Int) < (max : Int) := by omega
      simp only [hn, hn', if_false, decide_false, Bool.not_false, if_true, l8LookToLoop]
      exact ⟨_, rfl⟩

/-- **tie** (deprecated/compactindex): `searchEytzinger(0, max, x, getter)` as translated from the source answers what the model's `searchB`
    answers, for every getter, table size below 2^62 and target; `max + 1` units of fuel suffice. -/
theorem gen_l8SearchEytzinger_eq_model (get : Nat → Option CI.Ent) (x : UInt64) (max : Nat) (hmax : max < 2^62) (ioErr : Err)
    (getter : Int → M Compactindex_Entry)
    (hget : ∀ i : Nat, i < max → getter (i : Int) = match get i with | none => .error ioErr | some e => .ok (l8MkEntry e))
    (hr : ∀ i e, get i = some e → e.1 < 2^64) :
    l8SearchEytzinger (max + 1) 0 (max : Int) x getter = l8LookToM ioErr (CI.searchB get x.toNat max (max + 1) 0) := by
  have h := l8_loop_eq get x max hmax ioErr getter (max + 1) hget hr (max + 1) 0 (by omega) (by omega)
  unfold l8SearchEytzinger
  simp only [Int.natCast_zero] at h
  cases hs : CI.searchB get x.toNat max (max + 1) 0 with
  | found v => rw [hs] at h; simp only [l8LookToLoop] at h; simp [h, l8LookToM]
  | notFound =>
    rw [hs] at h; simp only [l8LookToLoop] at h
    obtain ⟨i, h⟩ := h
    simp [h, l8LookToM]
  | err => rw [hs] at h; simp only [l8LookToLoop] at h; simp [h, l8LookToM]
  | hang => rw [hs] at h; exact h.elim

theorem gen_l8HashUint64_eq_model (x : UInt64) : l8HashUint64 x = .ok (H.hashUint64 x) := by
  simp only [l8HashUint64, H.hashUint64, pure, Except.pure]

theorem l8_bucketLoop_eq (xx : List UInt8 → UInt64) (fuel0 : Nat) (r : UInt64) : ∀ (fuel : Nat) (u : UInt64),
    l8BucketHash.loop1 xx fuel0 r fuel u =
      match CI.bucketHashLoop fuel r u with
      | some v => .ok (.done v)
      | none => .error .hang := by
  intro fuel
  induction fuel with
  | zero => intro u; rfl
  | succ f ih =>
    intro u
    rw [l8BucketHash.loop1, CI.bucketHashLoop]
    by_cases h : u < r
    · simp only [h, decide_true, Bool.not_true, Bool.false_eq_true, if_false, if_true, gen_l8HashUint64_eq_model, bind_ok]
      by_cases h2 : H.hashUint64 u = u
      · simp [h2]
      · simp only [h2, beq_iff_eq, if_false]
        exact ih _
    · simp [h]

/-- **tie** (deprecated/compactindex): `Header.BucketHash(key)` as translated from the source = the model's `bucketHash` -/
theorem gen_l8BucketHash_eq_model (h : Compactindex_Header) (key : List UInt8) (hn : h.NumBuckets ≠ 0) :
    l8BucketHash H.xxhash64 64 h key =
      match CI.bucketHash key h.NumBuckets.toNat with
      | some b => .ok (UInt64.ofNat b)
      | none => .error .hang := by
  unfold l8BucketHash CI.bucketHash
  have hn64 : h.NumBuckets.toUInt64 ≠ 0 := by
    intro hc; apply hn
    have := congrArg UInt64.toNat hc
    simp at this
    exact UInt32.toNat_inj.mp (by simpa using this)
  have hcast : h.NumBuckets.toNat.toUInt64 = h.NumBuckets.toUInt64 := by
    apply UInt64.toNat_inj.mp; simp [Nat.toUInt64]
  simp only [Go.modU64, hn64, if_false, bind_ok, pure_eq_ok, hcast]
  rw [l8_bucketLoop_eq]
  cases CI.bucketHashLoop 64 (((0:UInt64) - h.NumBuckets.toUInt64) % h.NumBuckets.toUInt64) (H.xxhash64 key) with
  | none => rfl
  | some u =>
    simp only [bind_ok, pure_eq_ok]
    congr 1
    apply UInt64.toNat_inj.mp
    have hlt : u.toNat % h.NumBuckets.toNat < 2^64 := by
      have := u.toNat_lt
      have h0 : 0 < h.NumBuckets.toNat := by
        rcases Nat.eq_zero_or_pos h.NumBuckets.toNat with hz | hp
        · exact (hn (UInt32.toNat_inj.mp (by simpa using hz))).elim
        · exact hp
      have := Nat.mod_lt u.toNat h0
      have := h.NumBuckets.toNat_lt
      omega
    simp [UInt64.toNat_mod, UInt64.toNat_ofNat', Nat.mod_eq_of_lt hlt]

/-! ### deprecated/compactindex36: searchEytzinger, BucketHash -/

def l36MkEntry (e : CI.Ent) : Compactindex36_Entry := { Hash := UInt64.ofNat e.1, Value := e.2 }

def l36LookToM (ioErr : Err) : CI.Look → M (List UInt8)
  | .found v => .ok (v)
  | .notFound => .error (.err "ErrNotFound")
  | .err => .error ioErr
  | .hang => .error .hang

def l36LookToLoop (ioErr : Err) : CI.Look → M (LoopRes (List UInt8) Int) → Prop
  | .found v, r => r = .ok (.ret (v))
  | .notFound, r => ∃ i, r = .ok (.done i)
  | .err, r => r = .error ioErr
  | .hang, _ => False

theorem l36_loop_eq (get : Nat → Option CI.Ent) (x : UInt64) (max : Nat) (hmax : max < 2^62) (ioErr : Err)
    (getter : Int → M Compactindex36_Entry) (fuel0 : Nat)
    (hget : ∀ i : Nat, i < max → getter (i : Int) = match get i with | none => .error ioErr | some e => .ok (l36MkEntry e))
    (hr : ∀ i e, get i = some e → e.1 < 2^64) :
    ∀ (fuel n : Nat), max < n + fuel → 0 < fuel →
      l36LookToLoop ioErr (CI.searchB get x.toNat max fuel n) (l36SearchEytzinger.loop1 fuel0 getter (max : Int) x fuel (n : Int)) := by
  intro fuel
  induction fuel with
  | zero => intro n h h0; omega
  | succ f ih =>
    intro n h _
    rw [CI.searchB, l36SearchEytzinger.loop1]
    by_cases hn : n < max
    · have hn' : (n : Int) < (max : Int) := by omega
      simp only [hn, hn', if_true, decide_true, Bool.not_true, Bool.false_eq_true, if_false]
      rw [hget n hn]
      cases hg : get n with
      | none => simp [l36LookToLoop]
      | some e =>
        have he := hr n e hg
        simp only [bind_ok, l36MkEntry]
        by_cases hx : e.1 = x.toNat
        · have : UInt64.ofNat e.1 = x := by rw [hx]; simp
          simp [hx, l36LookToLoop]
        · have hne : ¬ UInt64.ofNat e.1 = x := by
            intro hc; apply hx; rw [← hc]; simp [UInt64.toNat_ofNat', Nat.mod_eq_of_lt he]
          simp only [hx, if_false, beq_iff_eq, hne]
          rw [C04.orInt_step n (by omega)]
          by_cases hlt : e.1 < x.toNat
          · have hlt' : UInt64.ofNat e.1 < x := by
              rw [UInt64.lt_iff_toNat_lt]; simp [UInt64.toNat_ofNat', Nat.mod_eq_of_lt he]; exact hlt
            simp only [hlt, hlt', if_true, decide_true]
            have hw : Go.wrap64 (((2 * n + 1 : Nat) : Int) + 1) = ((2 * n + 2 : Nat) : Int) := by
              rw [Go.wrap64_id] <;> omega
            rw [hw]
            exact ih (2*n+2) (by omega) (by omega)
          · have hlt' : ¬ UInt64.ofNat e.1 < x := by
              rw [UInt64.lt_iff_toNat_lt]; simp [UInt64.toNat_ofNat', Nat.mod_eq_of_lt he]; omega
            simp only [hlt, hlt', if_false, decide_false, Bool.false_eq_true]
            exact ih (2*n+1) (by omega) (by omega)
    · have hn' : ¬ (n : Int) < (max : Int) := by omega
      simp only [hn, hn', if_false, decide_false, Bool.not_false, if_true, l36LookToLoop]
      exact ⟨_, rfl⟩

/-- **tie** (deprecated/compactindex36): `searchEytzinger(0, max, x, getter)` as translated from the source answers what the model's `searchB`
    answers, for every getter, table size below 2^62 and target; `max + 1` units of fuel suffice. -/
theorem gen_l36SearchEytzinger_eq_model (get : Nat → Option CI.Ent) (x : UInt64) (max : Nat) (hmax : max < 2^62) (ioErr : Err)
    (getter : Int → M Compactindex36_Entry)
    (hget : ∀ i : Nat, i < max → getter (i : Int) = match get i with | none => .error ioErr | some e => .ok (l36MkEntry e))
    (hr : ∀ i e, get i = some e → e.1 < 2^64) :
    l36SearchEytzinger (max + 1) 0 (max : Int) x getter = l36LookToM ioErr (CI.searchB get x.toNat max (max + 1) 0) := by
  have h := l36_loop_eq get x max hmax ioErr getter (max + 1) hget hr (max + 1) 0 (by omega) (by omega)
  unfold l36SearchEytzinger
  simp only [Int.natCast_zero] at h
  cases hs : CI.searchB get x.toNat max (max + 1) 0 with
  | found v => rw [hs] at h; simp only [l36LookToLoop] at h; simp [h, l36LookToM]
  | notFound =>
    rw [hs] at h; simp only [l36LookToLoop] at h
    obtain ⟨i, h⟩ := h
    simp [h, l36LookToM]
  | err => rw [hs] at h; simp only [l36LookToLoop] at h; simp [h, l36LookToM]
  | hang => rw [hs] at h; exact h.elim

theorem gen_l36HashUint64_eq_model (x : UInt64) : l36HashUint64 x = .ok (H.hashUint64 x) := by
  simp only [l36HashUint64, H.hashUint64, pure, Except.pure]

theorem l36_bucketLoop_eq (xx : List UInt8 → UInt64) (fuel0 : Nat) (r : UInt64) : ∀ (fuel : Nat) (u : UInt64),
    l36BucketHash.loop1 xx fuel0 r fuel u =
      match CI.bucketHashLoop fuel r u with
      | some v => .ok (.done v)
      | none => .error .hang := by
  intro fuel
  induction fuel with
  | zero => intro u; rfl
  | succ f ih =>
    intro u
    rw [l36BucketHash.loop1, CI.bucketHashLoop]
    by_cases h : u < r
    · simp only [h, decide_true, Bool.not_true, Bool.false_eq_true, if_false, if_true, gen_l36HashUint64_eq_model, bind_ok]
      by_cases h2 : H.hashUint64 u = u
      · simp [h2]
      · simp only [h2, beq_iff_eq, if_false]
        exact ih _
    · simp [h]

/-- **tie** (deprecated/compactindex36): `Header.BucketHash(key)` as translated from the source = the model's `bucketHash` -/
theorem gen_l36BucketHash_eq_model (h : Compactindex36_Header) (key : List UInt8) (hn : h.NumBuckets ≠ 0) :
    l36BucketHash H.xxhash64 64 h key =
      match CI.bucketHash key h.NumBuckets.toNat with
      | some b => .ok (UInt64.ofNat b)
      | none => .error .hang := by
  unfold l36BucketHash CI.bucketHash
  have hn64 : h.NumBuckets.toUInt64 ≠ 0 := by
    intro hc; apply hn
    have := congrArg UInt64.toNat hc
    simp at this
    exact UInt32.toNat_inj.mp (by simpa using this)
  have hcast : h.NumBuckets.toNat.toUInt64 = h.NumBuckets.toUInt64 := by
    apply UInt64.toNat_inj.mp; simp [Nat.toUInt64]
  simp only [Go.modU64, hn64, if_false, bind_ok, pure_eq_ok, hcast]
  rw [l36_bucketLoop_eq]
  cases CI.bucketHashLoop 64 (((0:UInt64) - h.NumBuckets.toUInt64) % h.NumBuckets.toUInt64) (H.xxhash64 key) with
  | none => rfl
  | some u =>
    simp only [bind_ok, pure_eq_ok]
    congr 1
    apply UInt64.toNat_inj.mp
    have hlt : u.toNat % h.NumBuckets.toNat < 2^64 := by
      have := u.toNat_lt
      have h0 : 0 < h.NumBuckets.toNat := by
        rcases Nat.eq_zero_or_pos h.NumBuckets.toNat with hz | hp
        · exact (hn (UInt32.toNat_inj.mp (by simpa using hz))).elim
        · exact hp
      have := Nat.mod_lt u.toNat h0
      have := h.NumBuckets.toNat_lt
      omega
    simp [UInt64.toNat_mod, UInt64.toNat_ofNat', Nat.mod_eq_of_lt hlt]

end GoTies.C04L

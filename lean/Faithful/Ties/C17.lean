import Faithful.Generated.GoFns
import Faithful.Lib.RangeCache
import Faithful.Ties.Basic
/-!
C17 ties: the range predicates of `range-cache/range-cache.go`, translated from /repo's working tree on every run,
are the ones the model of the cache (`RC.*`) uses.
-/
namespace GoTies.C17
open Go Generated.G GoTies

/-- **tie**: `Range{r0,r1}.contains(Range{q0,q1})` = `RC.containsB r0 r1 q0 q1` -/
theorem gen_rangeContains_eq_model (r0 r1 q0 q1 : Int) :
    rangeContains [r0, r1] [q0, q1] = .ok (RC.containsB r0 r1 q0 q1) := by
  unfold rangeContains RC.containsB
  simp only [Go.idx, List.length_cons, List.length_nil]
  by_cases h : r0 ≤ q0 <;> simp [h]

/-- **tie**: `Range{start,e}.isValidFor(size)` is the negation of the model's `invalidB start e size` -/
theorem gen_rangeIsValidFor_eq_model (start e size : Int) :
    rangeIsValidFor [start, e] size = .ok (!RC.invalidB start e size) := by
  unfold rangeIsValidFor RC.invalidB
  simp only [Go.idx, List.length_cons, List.length_nil]
  by_cases h1 : 0 ≤ start <;> by_cases h2 : e ≤ size <;> by_cases h3 : start ≤ e <;>
    simp [h1, h2, h3, Int.not_le.mp, Int.not_lt.mpr] <;> omega

example : rangeContains [0, 10] [2, 5] = .ok true := by rfl
example : rangeIsValidFor [3, 2] 10 = .ok false := by rfl

end GoTies.C17

import Faithful.Generated.GoFns
import Faithful.Lib.CompactIndex
import Faithful.Ties.Basic
import Faithful.Ties.CIHeader
import Faithful.Ties.CILookup
/-!
C04 / C12 / C13 tie: `compactindexsized.Open` (`query.go`), translated from /repo's working tree on every run, over an
in-memory stream = `openSpec` — twelve bytes, the magic, the length field within `[13, 130574]`, the whole header, then
`Header.Load` (`Ties/CIHeader.lean`); and the end-to-end statement: for EVERY byte string, if `Open` succeeds then every
`Lookup` on the DB it returned is `lookupSpec` over the same bytes (`Ties/CILookup.lean`) — no panic anywhere on the way.
-/
namespace GoTies.CIOpen
open Go Generated.G GoTies GoTies.BkHas GoTies.CILookup GoTies.CIHeader GoTies.C10

/-- the translated `Open`, restated (tied to the translation by `rfl`) -/
def openM (fuel : Nat) (s : Go.ReaderAt) : M (Compactindexsized_DB × Go.Error) :=
  let t1 := s (Go.len (List.replicate 12 (0 : UInt8))) 0
  if decide (Go.len t1.1 < 12) = true then pure (Compactindexsized_DB.zero, t1.2)
  else Go.slice (t1.1 ++ (List.replicate 12 (0 : UInt8)).drop t1.1.length) 0 8 >>= fun t2 =>
  if (!(t2 == [99, 111, 109, 112, 105, 115, 122, 100])) = true then
    pure (Compactindexsized_DB.zero, Go.Error.other "ErrInvalidMagic")
  else Go.slice (t1.1 ++ (List.replicate 12 (0 : UInt8)).drop t1.1.length) 8
      (Go.len (t1.1 ++ (List.replicate 12 (0 : UInt8)).drop t1.1.length)) >>= fun t4 =>
  Go.leU32 t4 >>= fun size =>
  if (decide (size < 13) || decide (size > 130574)) = true then
    pure (Compactindexsized_DB.zero, Go.Error.other "invalid header length: %d")
  else Go.makeOf (0 : UInt8) ((12 + size).toNat : Int) >>= fun t5 =>
  let t6 := s (Go.len t5) 0
  if decide (Go.len t6.1 < Go.len (t6.1 ++ t5.drop t6.1.length)) = true then pure (Compactindexsized_DB.zero, t6.2)
  else Go.catchErr (ciHeaderLoad fuel { Compactindexsized_Header.zero with Metadata := Indexmeta_Meta.zero }
      (t6.1 ++ t5.drop t6.1.length)) { Compactindexsized_Header.zero with Metadata := Indexmeta_Meta.zero } >>= fun t7 =>
  if (t7.2 != Go.Error.nil) = true then pure (Compactindexsized_DB.zero, t7.2)
  else pure ({ Header := t7.1, headerSize := ((12 + size).toNat : Int), Stream := s, prefetch := false }, Go.Error.nil)

theorem open_unfold (fuel : Nat) (s : Go.ReaderAt) : ciOpen fuel s = openM fuel s := rfl

theorem memRd0_ok (c : List UInt8) (n : Nat) (h : n ≤ c.length) (hn : 0 < n) :
    memRd c (n : Int) 0 = (c.take n, Go.Error.nil) := by
  have := memRd_ok c n 0 (by omega) hn
  simp only [Int.natCast_zero, List.drop_zero] at this
  exact this

theorem memRd0_short (c : List UInt8) (n : Nat) (h : ¬ (n ≤ c.length)) (hn : 0 < n) :
    (memRd c (n : Int) 0).2 = Go.Error.eof ∧ (memRd c (n : Int) 0).1.length < n := by
  have := memRd_short c n 0 (by omega) hn
  simp only [Int.natCast_zero] at this
  exact this

/-- `Open` over the file bytes: `none` = an error -/
def openSpec (l : List UInt8) : Option (Nat × Nat × IndexMeta.KVs × Nat) :=
  if l.length < 12 then none
  else if l.take 8 ≠ [99, 111, 109, 112, 105, 115, 122, 100] then none
  else
    let size := B.unle ((l.drop 8).take 4)
    if size < 13 ∨ size > 130574 then none
    else if l.length < 12 + size then none
    else match loadSpec (l.take (12 + size)) with
      | none => none
      | some (vs, nb, m) => some (vs, nb, m, 12 + size)

/-- **tie**: `Open(stream)`, as translated from the source, over an in-memory stream = `openSpec`: the DB with the header
    fields, the header size and the stream, or a non-nil error — for every byte string below 2^62 bytes -/
theorem gen_ciOpen_eq_spec (l : List UInt8) (fuel : Nat) (hf : 256 < fuel) (hl : l.length < 2 ^ 62) :
    match openSpec l with
    | some (vs, nb, m, hsz) => ciOpen fuel (memRd l) =
        .ok ({ Header := { ValueSize := UInt64.ofNat vs, NumBuckets := UInt32.ofNat nb, Metadata := ofKvs m },
               headerSize := (hsz : Int), Stream := memRd l, prefetch := false }, Go.Error.nil)
    | none => ∃ e, e ≠ Go.Error.nil ∧ ciOpen fuel (memRd l) = .ok (Compactindexsized_DB.zero, e) := by
  rw [open_unfold]
  unfold openM openSpec
  have hl12 : Go.len (List.replicate 12 (0 : UInt8)) = ((12 : Nat) : Int) := by unfold Go.len; simp
  rw [hl12]
  by_cases h12 : l.length < 12
  · obtain ⟨he, hlt⟩ := memRd0_short l 12 (by omega) (by omega)
    rw [if_pos h12]
    have hn : decide (Go.len (memRd l ((12 : Nat) : Int) (0 : Int)).1 < 12) = true := by
      rw [decide_eq_true_eq]; unfold Go.len; omega
    simp only [hn, if_true, he]
    exact ⟨Go.Error.eof, (by intro h; cases h), rfl⟩
  · rw [if_neg h12, memRd0_ok l 12 (by omega) (by omega)]
    have hlen : (l.take 12).length = 12 := by rw [List.length_take]; omega
    have hn : ¬ (decide (Go.len (l.take 12) < 12) = true) := by
      rw [decide_eq_true_eq]; unfold Go.len; rw [hlen]; omega
    simp only [hn, hlen, List.drop_replicate, Nat.sub_self, List.replicate_zero, List.append_nil]
    have s8 : Go.slice (l.take 12) 0 8 = .ok (l.take 8) := by
      have := CIHeader.slice_ok (l.take 12) 0 8 (by omega) (by omega)
      simp only [Int.natCast_zero, List.drop_zero, Nat.sub_zero, List.take_take] at this
      exact this
    rw [s8, bind_ok]
    by_cases hm : l.take 8 ≠ [99, 111, 109, 112, 105, 115, 122, 100]
    · have : (!(l.take 8 == [99, 111, 109, 112, 105, 115, 122, 100])) = true := by simpa using hm
      rw [if_pos hm]
      simp only [this, if_true]
      exact ⟨_, (by intro h; cases h), rfl⟩
    · have hb : ¬ ((!(l.take 8 == [99, 111, 109, 112, 105, 115, 122, 100])) = true) := by simpa using hm
      rw [if_neg hm]
      simp only [hb]
      have s4 : Go.slice (l.take 12) 8 (Go.len (l.take 12)) = .ok ((l.drop 8).take 4) := by
        have this : Go.slice (l.take 12) 8 12 = .ok (((l.take 12).drop 8).take (12 - 8)) :=
          CIHeader.slice_ok (l.take 12) 8 12 (by omega) (by omega)
        have e : Go.len (l.take 12) = (12 : Int) := by unfold Go.len; rw [hlen]; rfl
        rw [e, this, List.drop_take, List.take_take]
        rfl
      rw [s4, bind_ok]
      have hlen4 : ((l.drop 8).take 4).length = 4 := by rw [List.length_take, List.length_drop]; omega
      have hle : Go.leU32 ((l.drop 8).take 4) = .ok (UInt32.ofNat (B.unle ((l.drop 8).take 4))) := by
        unfold Go.leU32
        rw [if_pos (by omega), leDecode_eq_unle, List.take_take]; rfl
      rw [hle, bind_ok]
      have hsz32 := CIHeader.unle4_lt (l.drop 8)
      generalize B.unle ((l.drop 8).take 4) = sz at hsz32 ⊢
      have hlt13 : (UInt32.ofNat sz < 13) ↔ sz < 13 := by
        rw [UInt32.lt_iff_toNat_lt, CIHeader.u32_toNat sz hsz32]; rfl
      have hgt : (UInt32.ofNat sz > 130574) ↔ sz > 130574 := by
        rw [gt_iff_lt, UInt32.lt_iff_toNat_lt, CIHeader.u32_toNat sz hsz32]; rfl
      by_cases hr : sz < 13 ∨ sz > 130574
      · have : (decide (UInt32.ofNat sz < 13) || decide (UInt32.ofNat sz > 130574)) = true := by
          simp only [Bool.or_eq_true, decide_eq_true_eq, hlt13, hgt]; exact hr
        rw [if_pos hr]
        simp only [this, if_true]
        exact ⟨_, (by intro h; cases h), rfl⟩
      · have hb2 : ¬ ((decide (UInt32.ofNat sz < 13) || decide (UInt32.ofNat sz > 130574)) = true) := by
          simp only [Bool.or_eq_true, decide_eq_true_eq, hlt13, hgt]; exact hr
        rw [if_neg hr]
        simp only [hb2]
        have hadd : ((12 + UInt32.ofNat sz : UInt32).toNat) = 12 + sz := by
          rw [UInt32.toNat_add, CIHeader.u32_toNat sz hsz32]
          have e12 : (12 : UInt32).toNat = 12 := rfl
          rw [e12]; exact Nat.mod_eq_of_lt (by omega)
        rw [hadd]
        have hmk : Go.makeOf (0 : UInt8) ((12 + sz : Nat) : Int) = .ok (List.replicate (12 + sz) 0) := by
          unfold Go.makeOf; rw [if_pos (by omega), Int.toNat_natCast]; rfl
        rw [hmk, bind_ok]
        have hlr : Go.len (List.replicate (12 + sz) (0 : UInt8)) = ((12 + sz : Nat) : Int) := by unfold Go.len; simp
        rw [hlr]
        by_cases hshort : l.length < 12 + sz
        · obtain ⟨he, hlt⟩ := memRd0_short l (12 + sz) (by omega) (by omega)
          rw [if_pos hshort]
          have hlen2 : ((memRd l ((12 + sz : Nat) : Int) (0 : Int)).1 ++
              (List.replicate (12 + sz) (0 : UInt8)).drop (memRd l ((12 + sz : Nat) : Int) (0 : Int)).1.length).length = 12 + sz := by
            rw [List.length_append, List.length_drop, List.length_replicate]; omega
          have hn2 : decide (Go.len (memRd l ((12 + sz : Nat) : Int) (0 : Int)).1 <
              Go.len ((memRd l ((12 + sz : Nat) : Int) (0 : Int)).1 ++
                (List.replicate (12 + sz) (0 : UInt8)).drop (memRd l ((12 + sz : Nat) : Int) (0 : Int)).1.length)) = true := by
            rw [decide_eq_true_eq]; unfold Go.len; rw [hlen2]; omega
          refine ⟨Go.Error.eof, (by intro h; cases h), ?_⟩
          simp only [hn2, if_true, he, Bool.false_eq_true, if_false]
          rfl
        · rw [if_neg hshort, memRd0_ok l (12 + sz) (by omega) (by omega)]
          have hlenb : (l.take (12 + sz)).length = 12 + sz := by rw [List.length_take]; omega
          have hn3 : ¬ (decide (Go.len (l.take (12 + sz)) <
              Go.len (l.take (12 + sz) ++ (List.replicate (12 + sz) (0 : UInt8)).drop (l.take (12 + sz)).length)) = true) := by
            rw [decide_eq_true_eq, hlenb]; simp [Go.len, hlenb]
          simp only [hlenb, List.drop_replicate, Nat.sub_self, List.replicate_zero, List.append_nil, Int.lt_irrefl,
            decide_false, Bool.false_eq_true, if_false]
          have hload := gen_ciHeaderLoad_eq_spec { Compactindexsized_Header.zero with Metadata := Indexmeta_Meta.zero }
            (l.take (12 + sz)) fuel hf (by rw [hlenb]; omega)
          cases hs : loadSpec (l.take (12 + sz)) with
          | none =>
            rw [hs] at hload
            obtain ⟨t, ht⟩ := hload
            rw [ht]
            exact ⟨Go.Error.other t, (by intro h; cases h), rfl⟩
          | some r =>
            obtain ⟨vs, nb, m⟩ := r
            rw [hs] at hload
            simp only at hload
            rw [hload]
            rfl

theorem loadSpec_some (b : List UInt8) (vs nb : Nat) (m : IndexMeta.KVs) (h : loadSpec b = some (vs, nb, m)) :
    vs ≠ 0 ∧ vs < 2 ^ 64 := by
  unfold loadSpec at h
  split at h
  · cases h
  · split at h
    · cases h
    · simp only at h
      split at h
      · cases h
      · split at h
        · cases h
        · split at h
          · cases h
          · split at h
            · cases h
            · split at h
              · cases h
              · split at h
                · cases h
                · simp only [Option.some.injEq, Prod.mk.injEq] at h
                  obtain ⟨h1, _, _⟩ := h
                  subst h1
                  refine ⟨by assumption, ?_⟩
                  have := CIHeader.unle8_lt (b.drop 12)
                  exact this

theorem openSpec_some (l : List UInt8) (vs nb : Nat) (m : IndexMeta.KVs) (hsz : Nat) (h : openSpec l = some (vs, nb, m, hsz)) :
    vs ≠ 0 ∧ vs < 2 ^ 64 ∧ hsz ≤ l.length := by
  unfold openSpec at h
  split at h
  · cases h
  · split at h
    · cases h
    · simp only at h
      split at h
      · cases h
      · split at h
        · cases h
        · split at h
          · cases h
          · rename_i hlen _ _ vs' nb' m' hls
            simp only [Option.some.injEq, Prod.mk.injEq] at h
            obtain ⟨h1, _, _, h4⟩ := h
            subst h1; subst h4
            obtain ⟨a, b⟩ := loadSpec_some _ _ _ _ hls
            exact ⟨a, b, by omega⟩

/-- **end to end, on the code in the tree**: for every byte string, if `Open` succeeds on it then every `Lookup` on the DB
    it returned is `lookupSpec` over the same bytes (with the header size and the header fields `Open` read), whatever
    bucket number `Header.BucketHash(key)` returned — and none of the calls on the way can panic -/
theorem gen_open_then_lookup (xx : List UInt8 → UInt64) (eh : UInt32 → List UInt8 → UInt64) (l : List UInt8) (fuel : Nat)
    (hf : 2 ^ 32 ≤ fuel) (hl : l.length < 2 ^ 62) (db : Compactindexsized_DB)
    (hopen : ciOpen fuel (memRd l) = .ok (db, Go.Error.nil)) (key : List UInt8) (bi : UInt64)
    (hbh : ciBucketHash xx fuel db.Header key = .ok bi) :
    ciDBLookup xx eh fuel db key =
      lookupSpec eh l db.headerSize.toNat db.Header.ValueSize db.Header.NumBuckets.toNat bi.toNat key fuel := by
  have hspec := gen_ciOpen_eq_spec l fuel (by omega) hl
  cases hs : openSpec l with
  | none =>
    rw [hs] at hspec
    obtain ⟨e, hne, he⟩ := hspec
    rw [he] at hopen
    simp only [Except.ok.injEq, Prod.mk.injEq] at hopen
    exact absurd hopen.2 hne
  | some r =>
    obtain ⟨vs, nb, m, hsz⟩ := r
    rw [hs] at hspec
    simp only at hspec
    rw [hspec] at hopen
    simp only [Except.ok.injEq, Prod.mk.injEq, and_true] at hopen
    obtain ⟨hvs0, hvs64, hszl⟩ := openSpec_some l vs nb m hsz hs
    subst hopen
    have hne0 : (UInt64.ofNat vs) ≠ 0 := by
      intro hc
      have := congrArg UInt64.toNat hc
      rw [CIHeader.u64_toNat vs hvs64] at this
      exact hvs0 this
    have := gen_ciDBLookup_eq_spec xx eh fuel
      { Header := { ValueSize := UInt64.ofNat vs, NumBuckets := UInt32.ofNat nb, Metadata := ofKvs m },
        headerSize := (hsz : Int), Stream := memRd l, prefetch := false } l hsz key bi rfl rfl hne0 (by omega) hf hbh
    rw [this]
    simp only [Int.toNat_natCast]

end GoTies.CIOpen

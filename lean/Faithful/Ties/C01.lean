import Faithful.Generated.GoFns
import Faithful.Lib.IndexAll
import Faithful.Ties.Basic
/-!
C01 ties: the value codec of the cid → offset-and-size index (`indexes/uints.go`, `indexes/offset-and-size.go`),
translated from /repo's working tree on every run, is the codec of the model (`IndexAll.oasEncode / oasDecode`).
-/
namespace GoTies.C01
open Go Generated.G GoTies

theorem le_take (w v k : Nat) (hk : k ≤ w) : (B.le w v).take k = B.le k v := by
  induction k generalizing w v with
  | zero => simp [B.le]
  | succ k ih =>
    obtain ⟨w', rfl⟩ : ∃ w', w = w' + 1 := ⟨w - 1, by omega⟩
    simp only [B.le, List.take_succ_cons]
    rw [ih w' (v / 256) (by omega)]

theorem makeOf_ok (n : Nat) (h : n < 281474976710656) : Go.makeOf (0 : UInt8) (n : Int) = .ok (List.replicate n 0) := by
  unfold Go.makeOf
  have : (0:Int) ≤ n ∧ (n:Int) < 281474976710656 := by omega
  simp [this]

/-- **tie**: `Uint48tob(v)` = the six low little-endian bytes of `v`; values above 2^48-1 panic -/
theorem gen_uint48tob_eq_model (v : UInt64) :
    uint48tob v = if v.toNat ≤ 2^48 - 1 then .ok (B.le 6 v.toNat) else .error (.panic "uint48tob: value out of range") := by
  unfold uint48tob
  have h8 : Go.makeOf (0 : UInt8) (8 : Int) = .ok (List.replicate 8 0) := makeOf_ok 8 (by decide)
  by_cases h : v.toNat ≤ 2^48 - 1
  · have hv : ¬ v > 281474976710655 := by
      rw [gt_iff_lt, UInt64.lt_iff_toNat_lt]; simp; omega
    simp only [hv, decide_false, Bool.false_eq_true, if_false, h, if_true, h8, bind_ok, Go.putLeU64, List.length_replicate,
      Nat.le_refl, leEncode_eq_le, List.drop_replicate, Nat.sub_self, List.replicate_zero, List.append_nil]
    have hs : Go.slice (B.le 8 v.toNat) 0 6 = .ok ((B.le 8 v.toNat).take 6) := by
      unfold Go.slice; simp [B.le_length]
    simp only [pure_eq_ok, bind_ok, hs, le_take 8 v.toNat 6 (by decide)]
  · have hv : v > 281474976710655 := by
      rw [gt_iff_lt, UInt64.lt_iff_toNat_lt]; simp; omega
    simp [hv, h, throw, throwThe, MonadExceptOf.throw]

/-- **tie**: `Uint24tob(v)` = the three low little-endian bytes of `v`; values above 2^24-1 panic -/
theorem gen_uint24tob_eq_model (v : UInt32) :
    uint24tob v = if v.toNat ≤ 2^24 - 1 then .ok (B.le 3 v.toNat) else .error (.panic "uint24tob: value out of range") := by
  unfold uint24tob
  have h4 : Go.makeOf (0 : UInt8) (4 : Int) = .ok (List.replicate 4 0) := makeOf_ok 4 (by decide)
  by_cases h : v.toNat ≤ 2^24 - 1
  · have hv : ¬ v > 16777215 := by
      rw [gt_iff_lt, UInt32.lt_iff_toNat_lt]; simp; omega
    simp only [hv, decide_false, Bool.false_eq_true, if_false, h, if_true, h4, bind_ok, Go.putLeU32, List.length_replicate,
      Nat.le_refl, leEncode_eq_le, List.drop_replicate, Nat.sub_self, List.replicate_zero, List.append_nil]
    have hs : Go.slice (B.le 4 v.toNat) 0 3 = .ok ((B.le 4 v.toNat).take 3) := by
      unfold Go.slice; simp [B.le_length]
    simp only [pure_eq_ok, bind_ok, hs, le_take 4 v.toNat 3 (by decide)]
  · have hv : v > 16777215 := by
      rw [gt_iff_lt, UInt32.lt_iff_toNat_lt]; simp; omega
    simp [hv, h, throw, throwThe, MonadExceptOf.throw]

/-- **tie**: `BtoUint48(buf)` on the six bytes it is given = their little-endian value -/
theorem gen_btoUint48_eq_model (buf : List UInt8) (hl : buf.length = 6) : btoUint48 buf = .ok (UInt64.ofNat (B.unle buf)) := by
  match buf, hl with
  | [a,b,c,d,e,f], _ =>
    unfold btoUint48 cloneAndPad
    simp [Go.idx, Go.makeOf, Go.wrap64, Go.len, Go.copy, Go.leU64, Go.leDecode, B.unle]

/-- **tie**: `BtoUint24(buf)` on the three bytes it is given = their little-endian value -/
theorem gen_btoUint24_eq_model (buf : List UInt8) (hl : buf.length = 3) : btoUint24 buf = .ok (UInt32.ofNat (B.unle buf)) := by
  match buf, hl with
  | [a,b,c], _ =>
    unfold btoUint24 cloneAndPad
    simp [Go.idx, Go.makeOf, Go.wrap64, Go.len, Go.copy, Go.leU32, Go.leDecode, B.unle]

/-- **tie**: `OffsetAndSize.Bytes()` = `oasEncode offset size` for every value the format can hold -/
theorem gen_oasBytes_eq_model (off sz : UInt64) (ho : off.toNat < 2^48) (hs : sz.toNat < 2^24) :
    oasBytes { Offset := off, Size := sz } = .ok (IndexAll.oasEncode off.toNat sz.toNat) := by
  unfold oasBytes IndexAll.oasEncode
  have h32 : sz.toUInt32.toNat = sz.toNat := by
    simp [UInt64.toNat_toUInt32]; omega
  simp only [gen_uint48tob_eq_model, gen_uint24tob_eq_model, h32]
  have h1 : off.toNat ≤ 2^48 - 1 := by omega
  have h2 : sz.toNat ≤ 2^24 - 1 := by omega
  simp [h1, h2]

/-- **tie**: `OffsetAndSize.FromBytes(buf)` on a 9-byte value = `oasDecode buf` -/
theorem gen_oasFromBytes_eq_model (z : Indexes_OffsetAndSize) (buf : List UInt8) (hl : buf.length = 9) :
    oasFromBytes z buf = .ok { Offset := UInt64.ofNat (IndexAll.oasDecode buf).1, Size := UInt64.ofNat (IndexAll.oasDecode buf).2 } := by
  match buf, hl with
  | [a,b,c,d,e,f,g,h,i], _ =>
    unfold oasFromBytes IndexAll.oasDecode
    have e48 := gen_btoUint48_eq_model [a,b,c,d,e,f] rfl
    have e24 := gen_btoUint24_eq_model [g,h,i] rfl
    simp [Go.len, Go.idx, Go.slice, e48, e24, B.unle]
    apply UInt64.toNat_inj.mp
    have := g.toNat_lt; have := h.toNat_lt; have := i.toNat_lt
    simp [UInt32.toNat_ofNat', UInt64.toNat_ofNat', UInt32.toNat_toUInt64]
    omega

/-- a value of the wrong length is an error, not a panic -/
theorem gen_oasFromBytes_wrong_length (z : Indexes_OffsetAndSize) (buf : List UInt8) (hl : buf.length ≠ 9) :
    oasFromBytes z buf = .error (.err "invalid byte slice length") := by
  unfold oasFromBytes
  have : (Go.len buf != 9) = true := by
    simp [Go.len]; omega
  simp [this, throw, throwThe, MonadExceptOf.throw]

example : oasBytes { Offset := 0x0102030405, Size := 0x0a0b } = .ok [5,4,3,2,1,0,0x0b,0x0a,0] := by rfl

end GoTies.C01

import Faithful.Generated.GoFns
import Faithful.Lib.IndexMeta
import Faithful.Lib.CompactIndex
import Faithful.Lib.CompactIndexBytes
import Faithful.Ties.Basic
import Faithful.Ties.C10
/-!
Direct theorem on the translated `compactindexsized.Header.Load` (regenerated from /repo's working tree on every run):
for EVERY byte string and every prior content of the receiver, `Load` either returns an error or fills the header with
exactly the fields `loadSpec` reads — it never panics — and `loadSpec` is the format the model `CI.headerBytes` writes.

Not modelled: the content of `*h` after a failed `Load` (the translation's monad drops the receiver on error; the callers
`Open` / `OpenWithMeta…` discard the DB on error).
-/
namespace GoTies.CIHeader
open Go Generated.G GoTies GoTies.C10

/-- the header format as `Header.Load` reads it: magic, length of the rest (13 … 130574, inside the buffer),
    value size, number of buckets, version 1, metadata; zero value size / bucket count rejected -/
def loadSpec (buf : List UInt8) : Option (Nat × Nat × IndexMeta.KVs) :=
  if buf.length < 12 then none
  else if buf.take 8 ≠ CI.magic then none
  else
    let l := B.unle ((buf.drop 8).take 4)
    if l < 13 ∨ l > 130574 then none
    else if l + 12 > buf.length then none
    else if buf.getD 24 0 ≠ 1 then none
    else match IndexMeta.decode (buf.drop 25) with
      | none => none
      | some m =>
        if B.unle ((buf.drop 12).take 8) = 0 then none
        else if B.unle ((buf.drop 20).take 4) = 0 then none
        else some (B.unle ((buf.drop 12).take 8), B.unle ((buf.drop 20).take 4), m)

theorem slice_ok (b : List UInt8) (lo hi : Nat) (h1 : lo ≤ hi) (h2 : hi ≤ b.length) :
    Go.slice b (lo : Int) (hi : Int) = .ok ((b.drop lo).take (hi - lo)) := by
  unfold Go.slice
  rw [if_pos (by omega)]
  simp

theorem unle4_lt (b : List UInt8) : B.unle (b.take 4) < 4294967296 := by
  have := unle_lt (b.take 4)
  have h2 : (b.take 4).length ≤ 4 := by simp; omega
  calc B.unle (b.take 4) < 256 ^ (b.take 4).length := this
    _ ≤ 256 ^ 4 := Nat.pow_le_pow_right (by omega) h2

theorem unle8_lt (b : List UInt8) : B.unle (b.take 8) < 18446744073709551616 := by
  have := unle_lt (b.take 8)
  have h2 : (b.take 8).length ≤ 8 := by simp; omega
  calc B.unle (b.take 8) < 256 ^ (b.take 8).length := this
    _ ≤ 256 ^ 8 := Nat.pow_le_pow_right (by omega) h2


/-- `if c { return err }` followed by `k`, exactly as the do-notation of the translation elaborates it -/
def guard {α : Type} (c : Bool) (e : String) (k : Unit → M α) : M α :=
  if c = true then (throw (Err.err e) >>= k) else k ()

theorem guard_eq {α : Type} (c : Bool) (e : String) (k : Unit → M α) :
    guard c e k = if c = true then .error (.err e) else k () := by
  unfold guard; cases c <;> rfl

/-- the translated `Header.Load`, restated with `guard` (tied to the translation by `rfl` below) -/
def loadM (fuel : Nat) (buf : List UInt8) : M Compactindexsized_Header :=
  guard (decide (Go.len buf < 12)) "invalid header length" fun _ =>
  Go.slice buf 0 8 >>= fun t1 =>
  guard (t1 != [99, 111, 109, 112, 105, 115, 122, 100]) "not a radiance compactindex file" fun _ =>
  Go.slice buf 8 12 >>= fun t3 =>
  Go.leU32 t3 >>= fun t2 =>
  guard (decide (t2 < 13) || decide (t2 > 130574)) "invalid header length" fun _ =>
  guard (decide (t2.toUInt64 + 8 + 4 > Go.u64OfInt (Go.len buf))) "invalid header length" fun _ =>
  Go.slice buf 12 20 >>= fun t5 =>
  Go.leU64 t5 >>= fun t4 =>
  Go.slice buf 20 24 >>= fun t7 =>
  Go.leU32 t7 >>= fun t6 =>
  Go.idx buf 24 >>= fun t8 =>
  guard (t8 != 1) "unsupported index version: want %d, got %d" fun _ =>
  Go.slice buf 25 (Go.len buf) >>= fun t9 =>
  metaUnmarshal fuel Indexmeta_Meta.zero t9 >>= fun t10 =>
  guard (t4 == 0) "value size not set" fun _ =>
  guard (t6 == 0) "number of buckets not set" fun _ =>
  pure { ValueSize := t4, NumBuckets := t6, Metadata := t10 }

theorem load_unfold (fuel : Nat) (h : Compactindexsized_Header) (buf : List UInt8) :
    ciHeaderLoad fuel h buf = loadM fuel buf := by
  unfold ciHeaderLoad loadM guard
  rfl

theorem u32_toNat (n : Nat) (h : n < 4294967296) : (UInt32.ofNat n).toNat = n := by
  rw [UInt32.toNat_ofNat']; exact Nat.mod_eq_of_lt h

theorem u64_toNat (n : Nat) (h : n < 18446744073709551616) : (UInt64.ofNat n).toNat = n := by
  rw [UInt64.toNat_ofNat']; exact Nat.mod_eq_of_lt h

/-- `Header.Load` (restated) = `loadSpec`; `buf.length < 2^63` is Go's `int` -/
theorem loadM_eq_spec (buf : List UInt8) (fuel : Nat) (hf : 256 < fuel) (hlen : buf.length < 2 ^ 63) :
    match loadSpec buf with
    | some (vs, nb, m) => loadM fuel buf =
        .ok { ValueSize := UInt64.ofNat vs, NumBuckets := UInt32.ofNat nb, Metadata := ofKvs m }
    | none => ∃ t, loadM fuel buf = .error (.err t) := by
  unfold loadSpec loadM
  rw [guard_eq]
  by_cases h12 : buf.length < 12
  · have : Go.len buf < 12 := by unfold Go.len; omega
    simp only [h12, if_true, this, decide_true]
    exact ⟨_, rfl⟩
  · have hl : ¬ (Go.len buf < 12) := by unfold Go.len; omega
    simp only [h12, if_false, hl, decide_false, Bool.false_eq_true]
    have s1 := slice_ok buf 0 8 (by omega) (by omega)
    simp only [Int.natCast_zero, List.drop_zero, Nat.sub_zero] at s1
    have s1' : Go.slice buf 0 8 = .ok (buf.take 8) := s1
    rw [s1', bind_ok, guard_eq]
    have hmag : CI.magic = [99, 111, 109, 112, 105, 115, 122, 100] := rfl
    rw [hmag]
    by_cases hm : buf.take 8 ≠ [99, 111, 109, 112, 105, 115, 122, 100]
    · have : (buf.take 8 != [99, 111, 109, 112, 105, 115, 122, 100]) = true := by simpa using hm
      simp only [hm, if_true, this, ne_eq, not_false_eq_true]
      exact ⟨_, rfl⟩
    · have hb : ¬ ((buf.take 8 != [99, 111, 109, 112, 105, 115, 122, 100]) = true) := by simpa using hm
      simp only [hm, if_false, hb]
      have s2 := slice_ok buf 8 12 (by omega) (by omega)
      have s2' : Go.slice buf 8 12 = .ok ((buf.drop 8).take 4) := s2
      rw [s2', bind_ok]
      have hlen4 : ((buf.drop 8).take 4).length = 4 := by simp; omega
      have hle : Go.leU32 ((buf.drop 8).take 4) = .ok (UInt32.ofNat (B.unle ((buf.drop 8).take 4))) := by
        unfold Go.leU32
        rw [if_pos (by omega), leDecode_eq_unle, List.take_take]; rfl
      rw [hle, bind_ok]
      simp only [Bool.false_eq_true, if_false]
      have hl32 := unle4_lt (buf.drop 8)
      generalize B.unle ((buf.drop 8).take 4) = l at hl32 ⊢
      rw [guard_eq]
      have hlt13 : (UInt32.ofNat l < 13) ↔ l < 13 := by
        rw [UInt32.lt_iff_toNat_lt, u32_toNat l hl32]; rfl
      have hgt : (UInt32.ofNat l > 130574) ↔ l > 130574 := by
        rw [gt_iff_lt, UInt32.lt_iff_toNat_lt, u32_toNat l hl32]; rfl
      by_cases hr : l < 13 ∨ l > 130574
      · have : (decide (UInt32.ofNat l < 13) || decide (UInt32.ofNat l > 130574)) = true := by
          simp only [Bool.or_eq_true, decide_eq_true_eq, hlt13, hgt]; exact hr
        simp only [hr, if_true, this]
        exact ⟨_, rfl⟩
      · have hb2 : ¬ ((decide (UInt32.ofNat l < 13) || decide (UInt32.ofNat l > 130574)) = true) := by
          simp only [Bool.or_eq_true, decide_eq_true_eq, hlt13, hgt]; exact hr
        simp only [hr, if_false, hb2]
        rw [guard_eq]
        have hcmp : (UInt32.ofNat l).toUInt64 + 8 + 4 > Go.u64OfInt (Go.len buf) ↔ l + 12 > buf.length := by
          rw [gt_iff_lt, UInt64.lt_iff_toNat_lt]
          have h1 : (Go.u64OfInt (Go.len buf)).toNat = buf.length := by
            unfold Go.u64OfInt Go.len
            rw [UInt64.toNat_ofNat']
            have : ((buf.length : Int) % 18446744073709551616).toNat = buf.length := by omega
            rw [this]; apply Nat.mod_eq_of_lt; omega
          have h2 : ((UInt32.ofNat l).toUInt64 + 8 + 4).toNat = l + 12 := by
            rw [UInt64.toNat_add, UInt64.toNat_add, UInt32.toNat_toUInt64, u32_toNat l hl32]
            have e8 : (8 : UInt64).toNat = 8 := rfl
            have e4 : (4 : UInt64).toNat = 4 := rfl
            rw [e8, e4]
            omega
          rw [h1, h2]
        by_cases hc : l + 12 > buf.length
        · have : decide ((UInt32.ofNat l).toUInt64 + 8 + 4 > Go.u64OfInt (Go.len buf)) = true := by
            simp only [decide_eq_true_eq]; exact hcmp.mpr hc
          simp only [hc, if_true, this]
          exact ⟨_, rfl⟩
        · have hb3 : ¬ (decide ((UInt32.ofNat l).toUInt64 + 8 + 4 > Go.u64OfInt (Go.len buf)) = true) := by
            simp only [decide_eq_true_eq]; exact fun x => hc (hcmp.mp x)
          simp only [hc, if_false, hb3]
          have hge25 : 25 ≤ buf.length := by omega
          simp only [Bool.false_eq_true, if_false]
          have s3 : Go.slice buf 12 20 = .ok ((buf.drop 12).take 8) := slice_ok buf 12 20 (by omega) (by omega)
          have s4 : Go.slice buf 20 24 = .ok ((buf.drop 20).take 4) := slice_ok buf 20 24 (by omega) (by omega)
          have l8 : ((buf.drop 12).take 8).length = 8 := by simp; omega
          have l4 : ((buf.drop 20).take 4).length = 4 := by simp; omega
          have e8 : Go.leU64 ((buf.drop 12).take 8) = .ok (UInt64.ofNat (B.unle ((buf.drop 12).take 8))) := by
            unfold Go.leU64
            rw [if_pos (by omega), leDecode_eq_unle, List.take_take]; rfl
          have e4 : Go.leU32 ((buf.drop 20).take 4) = .ok (UInt32.ofNat (B.unle ((buf.drop 20).take 4))) := by
            unfold Go.leU32
            rw [if_pos (by omega), leDecode_eq_unle, List.take_take]; rfl
          have e24 : Go.idx buf 24 = .ok (buf.getD 24 0) := by
            unfold Go.idx
            rw [if_pos (by omega)]; rfl
          have s5 : Go.slice buf 25 (Go.len buf) = .ok (buf.drop 25) := by
            have := slice_ok buf 25 buf.length (by omega) (by omega)
            rw [List.take_of_length_le (by simp)] at this
            exact this
          rw [s3, bind_ok, e8, bind_ok, s4, bind_ok, e4, bind_ok, e24, bind_ok, guard_eq]
          have hvs := unle8_lt (buf.drop 12)
          have hnb := unle4_lt (buf.drop 20)
          generalize B.unle ((buf.drop 12).take 8) = vs at hvs ⊢
          generalize B.unle ((buf.drop 20).take 4) = nb at hnb ⊢
          by_cases hv : buf.getD 24 0 ≠ 1
          · have : (buf.getD 24 0 != 1) = true := by simpa using hv
            simp only [hv, if_true, this, ne_eq, not_false_eq_true]
            exact ⟨_, rfl⟩
          · have hb4 : ¬ ((buf.getD 24 0 != 1) = true) := by simpa using hv
            simp only [hv, if_false, hb4]
            rw [s5, bind_ok]
            have hmeta := gen_metaUnmarshal_eq_model (buf.drop 25) fuel hf
            cases hd : IndexMeta.decode (buf.drop 25) with
            | none =>
              rw [hd] at hmeta
              obtain ⟨t, ht⟩ := hmeta
              exact ⟨t, by rw [ht]; rfl⟩
            | some m =>
              rw [hd] at hmeta
              simp only [hmeta, bind_ok]
              rw [guard_eq]
              have hz8 : ((UInt64.ofNat vs == 0) = true) ↔ vs = 0 := by
                rw [beq_iff_eq, ← UInt64.toNat_inj, u64_toNat vs hvs]; rfl
              have hz4 : ((UInt32.ofNat nb == 0) = true) ↔ nb = 0 := by
                rw [beq_iff_eq, ← UInt32.toNat_inj, u32_toNat nb hnb]; rfl
              by_cases hvz : vs = 0
              · simp only [hvz, if_true]
                exact ⟨_, rfl⟩
              · have : ¬ ((UInt64.ofNat vs == 0) = true) := fun x => hvz (hz8.mp x)
                simp only [hvz, if_false, this]
                rw [guard_eq]
                by_cases hnz : nb = 0
                · simp only [hnz, if_true]
                  exact ⟨_, rfl⟩
                · have : ¬ ((UInt32.ofNat nb == 0) = true) := fun x => hnz (hz4.mp x)
                  simp only [hnz, if_false, this]
                  rfl

/-- **direct theorem on the translated code**: `Header.Load(buf)` = `loadSpec buf`, for every byte string (of a length a
    Go slice can have), every prior receiver content and every fuel above the 255 pairs the count byte can announce;
    in particular `Load` never panics -/
theorem gen_ciHeaderLoad_eq_spec (h : Compactindexsized_Header) (buf : List UInt8) (fuel : Nat) (hf : 256 < fuel)
    (hlen : buf.length < 2 ^ 63) :
    match loadSpec buf with
    | some (vs, nb, m) => ciHeaderLoad fuel h buf =
        .ok { ValueSize := UInt64.ofNat vs, NumBuckets := UInt32.ofNat nb, Metadata := ofKvs m }
    | none => ∃ t, ciHeaderLoad fuel h buf = .error (.err t) := by
  rw [load_unfold]; exact loadM_eq_spec buf fuel hf hlen

theorem gen_ciHeaderLoad_never_panics (h : Compactindexsized_Header) (buf : List UInt8) (fuel : Nat) (hf : 256 < fuel)
    (hlen : buf.length < 2 ^ 63) : ∀ w, ciHeaderLoad fuel h buf ≠ .error (.panic w) := by
  intro w hw
  have := gen_ciHeaderLoad_eq_spec h buf fuel hf hlen
  cases hs : loadSpec buf with
  | none => rw [hs] at this; obtain ⟨t, ht⟩ := this; rw [ht] at hw; cases hw
  | some r => obtain ⟨vs, nb, m⟩ := r; rw [hs] at this; simp only at this; rw [this] at hw; cases hw

/-- the result does not depend on what the receiver held before -/
theorem gen_ciHeaderLoad_receiver_irrelevant (h h' : Compactindexsized_Header) (buf : List UInt8) (fuel : Nat) :
    ciHeaderLoad fuel h buf = ciHeaderLoad fuel h' buf := by rw [load_unfold, load_unfold]

/-- **the format `Load` reads is the format the builder writes**: on the header bytes of the model's encoder
    (`CI.headerBytes`, compared byte for byte with the real builder's files on every run) `loadSpec` returns the fields -/
theorem loadSpec_headerBytes (vs nb : Nat) (m : IndexMeta.KVs) (hvs : 0 < vs) (hvs2 : vs < 2 ^ 64) (hnb : 0 < nb)
    (hnb2 : nb < 2 ^ 32) (hml : m.length ≤ 255) (hm : ∀ kv ∈ m, kv.1.length ≤ 255 ∧ kv.2.length ≤ 255) :
    loadSpec (CI.headerBytes vs nb m) = some (vs, nb, m) := by
  have hmb := CI.metaBytes_length_le m hm
  obtain ⟨MB, hMB⟩ : ∃ MB, MB = CI.metaBytes m := ⟨_, rfl⟩
  have hver : (UInt8.ofNat Generated.compactindexsizedVersion) = 1 := rfl
  have hH : CI.headerBytes vs nb m
      = CI.magic ++ (B.le 4 (13 + MB.length) ++ (B.le 8 vs ++ (B.le 4 nb ++ (1 :: MB)))) := by
    unfold CI.headerBytes
    simp only [List.length_append, B.le_length, List.length_cons, List.append_assoc, hver, ← hMB,
      List.cons_append, List.nil_append]
    congr 3
    omega
  have hmag : CI.magic.length = 8 := rfl
  have hlen : (CI.headerBytes vs nb m).length = 25 + MB.length := by rw [CI.headerBytes_length, hMB]
  rw [← hMB] at hmb
  have t8 : (CI.headerBytes vs nb m).take 8 = CI.magic := by
    rw [hH]; have := CI.take_length_append CI.magic (B.le 4 (13 + MB.length) ++ (B.le 8 vs ++ (B.le 4 nb ++ (1 :: MB))))
    rwa [hmag] at this
  have d8 : (CI.headerBytes vs nb m).drop 8 = B.le 4 (13 + MB.length) ++ (B.le 8 vs ++ (B.le 4 nb ++ (1 :: MB))) := by
    rw [hH]; have := CI.drop_length_append CI.magic (B.le 4 (13 + MB.length) ++ (B.le 8 vs ++ (B.le 4 nb ++ (1 :: MB))))
    rwa [hmag] at this
  have d12 : (CI.headerBytes vs nb m).drop 12 = B.le 8 vs ++ (B.le 4 nb ++ (1 :: MB)) := by
    have : (12 : Nat) = 8 + 4 := rfl
    rw [this, ← List.drop_drop, d8]
    have := CI.drop_length_append (B.le 4 (13 + MB.length)) (B.le 8 vs ++ (B.le 4 nb ++ (1 :: MB)))
    rwa [B.le_length] at this
  have d20 : (CI.headerBytes vs nb m).drop 20 = B.le 4 nb ++ (1 :: MB) := by
    have : (20 : Nat) = 12 + 8 := rfl
    rw [this, ← List.drop_drop, d12]
    have := CI.drop_length_append (B.le 8 vs) (B.le 4 nb ++ (1 :: MB))
    rwa [B.le_length] at this
  have d24 : (CI.headerBytes vs nb m).drop 24 = 1 :: MB := by
    have : (24 : Nat) = 20 + 4 := rfl
    rw [this, ← List.drop_drop, d20]
    have := CI.drop_length_append (B.le 4 nb) (1 :: MB)
    rwa [B.le_length] at this
  have d25 : (CI.headerBytes vs nb m).drop 25 = MB := by
    have : (25 : Nat) = 24 + 1 := rfl
    rw [this, ← List.drop_drop, d24]; rfl
  have g24 : (CI.headerBytes vs nb m).getD 24 0 = 1 := by
    rw [List.getD, ← List.head?_drop, d24]; rfl
  have f4 : ((CI.headerBytes vs nb m).drop 8).take 4 = B.le 4 (13 + MB.length) := by
    rw [d8]; have := CI.take_length_append (B.le 4 (13 + MB.length)) (B.le 8 vs ++ (B.le 4 nb ++ (1 :: MB)))
    rwa [B.le_length] at this
  have f8 : ((CI.headerBytes vs nb m).drop 12).take 8 = B.le 8 vs := by
    rw [d12]; have := CI.take_length_append (B.le 8 vs) (B.le 4 nb ++ (1 :: MB))
    rwa [B.le_length] at this
  have f4b : ((CI.headerBytes vs nb m).drop 20).take 4 = B.le 4 nb := by
    rw [d20]; have := CI.take_length_append (B.le 4 nb) (1 :: MB)
    rwa [B.le_length] at this
  have u1 : B.unle (B.le 4 (13 + MB.length)) = 13 + MB.length := B.unle_le_of_lt 4 _ (by rw [CI.pow4]; omega)
  have u2 : B.unle (B.le 8 vs) = vs := B.unle_le_of_lt 8 _ (by rw [CI.pow8]; exact hvs2)
  have u3 : B.unle (B.le 4 nb) = nb := B.unle_le_of_lt 4 _ (by rw [CI.pow4]; exact hnb2)
  have hdec : IndexMeta.decode MB = some m := by rw [hMB]; exact CI.parseMeta_enc m hml hm
  unfold loadSpec
  simp only [t8, f4, f8, f4b, u1, u2, u3, g24, d25, hdec, hlen, ne_eq, not_true_eq_false, if_false]
  rw [if_neg (by omega), if_neg (by omega), if_neg (by omega), if_neg (by omega), if_neg (by omega)]

/-- hence the translated `Load` reads back exactly what the encoder wrote -/
theorem gen_ciHeaderLoad_headerBytes (h : Compactindexsized_Header) (fuel : Nat) (hf : 256 < fuel)
    (vs nb : Nat) (m : IndexMeta.KVs) (hvs : 0 < vs) (hvs2 : vs < 2 ^ 64) (hnb : 0 < nb)
    (hnb2 : nb < 2 ^ 32) (hml : m.length ≤ 255) (hm : ∀ kv ∈ m, kv.1.length ≤ 255 ∧ kv.2.length ≤ 255) :
    ciHeaderLoad fuel h (CI.headerBytes vs nb m)
      = .ok { ValueSize := UInt64.ofNat vs, NumBuckets := UInt32.ofNat nb, Metadata := ofKvs m } := by
  have hmb := CI.metaBytes_length_le m hm
  have := gen_ciHeaderLoad_eq_spec h (CI.headerBytes vs nb m) fuel hf (by rw [CI.headerBytes_length]; omega)
  rw [loadSpec_headerBytes vs nb m hvs hvs2 hnb hnb2 hml hm] at this
  exact this

/-! examples: the spec and the theorem are not vacuous -/
example : loadSpec (CI.headerBytes 36 1 [([107], [1, 2])]) = some (36, 1, [([107], [1, 2])]) := by
  apply loadSpec_headerBytes <;> simp
example : loadSpec (CI.magic ++ [12, 0, 0, 0] ++ List.replicate 12 1) = none := by decide
example : loadSpec ([0] ++ List.replicate 40 1) = none := by decide

end GoTies.CIHeader

import Faithful.Generated.GoFns
import Faithful.Lib.IndexMeta
import Faithful.Lib.CompactIndex
import Faithful.Ties.Basic
import Faithful.Ties.C10
/-!
Direct theorem on the translated `compactindexsized.Header.Load` (regenerated from /repo's working tree on every run):
for EVERY byte string and every prior content of the receiver, `Load` either returns an error or fills the header with
exactly the fields `loadSpec` reads — it never panics — and `loadSpec` is the format the model `CI.headerBytes` writes.

Not modelled: the content of `*h` after a failed `Load` (the translation's monad drops the receiver on error; the callers
`Open` / `OpenWithMeta…` discard the DB on error).
-/
namespace GoTies.CIHeader
open Go Generated.G GoTies GoTies.C10

/-- the header format as `Header.Load` reads it: magic, length of the rest (13 … 130574, inside the buffer),
    value size, number of buckets, version 1, metadata; zero value size / bucket count rejected -/
def loadSpec (buf : List UInt8) : Option (Nat × Nat × IndexMeta.KVs) :=
  if buf.length < 12 then none
  else if buf.take 8 ≠ CI.magic then none
  else
    let l := B.unle ((buf.drop 8).take 4)
    if l < 13 ∨ l > 130574 then none
    else if l + 12 > buf.length then none
    else if buf.getD 24 0 ≠ 1 then none
    else match IndexMeta.decode (buf.drop 25) with
      | none => none
      | some m =>
        if B.unle ((buf.drop 12).take 8) = 0 then none
        else if B.unle ((buf.drop 20).take 4) = 0 then none
        else some (B.unle ((buf.drop 12).take 8), B.unle ((buf.drop 20).take 4), m)

theorem slice_ok (b : List UInt8) (lo hi : Nat) (h1 : lo ≤ hi) (h2 : hi ≤ b.length) :
    Go.slice b (lo : Int) (hi : Int) = .ok ((b.drop lo).take (hi - lo)) := by
  unfold Go.slice
  rw [if_pos (by omega)]
  simp

theorem unle4_lt (b : List UInt8) : B.unle (b.take 4) < 4294967296 := by
  have := unle_lt (b.take 4)
  have h2 : (b.take 4).length ≤ 4 := by simp; omega
  calc B.unle (b.take 4) < 256 ^ (b.take 4).length := this
    _ ≤ 256 ^ 4 := Nat.pow_le_pow_right (by omega) h2

theorem unle8_lt (b : List UInt8) : B.unle (b.take 8) < 18446744073709551616 := by
  have := unle_lt (b.take 8)
  have h2 : (b.take 8).length ≤ 8 := by simp; omega
  calc B.unle (b.take 8) < 256 ^ (b.take 8).length := this
    _ ≤ 256 ^ 8 := Nat.pow_le_pow_right (by omega) h2

end GoTies.CIHeader

import Faithful.Generated.GoFns
import Faithful.Lib.Multi
import Faithful.Ties.Basic
/-!
C16 tie: `MultiReaderAt.ReadAt` (split-car-fetcher/fetcher.go) as translated from /repo's working tree on every run,
over in-memory segment readers, computes what the model `Multi.go` computes — the function `Multi.readAt_spec` is
proved about (exact concatenation, end-of-file only at the true end).
-/
namespace GoTies.C16
open Go Generated.G GoTies

/-- `bytes.Reader.ReadAt` / `io.SectionReader.ReadAt` over a segment as a `Go.ReaderAt` -/
def memReader (seg : List UInt8) : Go.ReaderAt := fun n off =>
  if off < 0 then ([], .other "negative offset")
  else ((Multi.readSeg seg off.toNat n.toNat).1, if (Multi.readSeg seg off.toNat n.toNat).2 then .eof else .nil)

/-- `NewMultiReaderAt`'s offsets: the running sum of the sizes, starting at `base` -/
def offsOf : Nat → List (List UInt8) → List Int
  | _, [] => []
  | base, s :: r => (base : Int) :: offsOf (base + s.length) r

def total : List (List UInt8) → Nat
  | [] => 0
  | s :: r => s.length + total r

theorem offsOf_length (b : Nat) (l : List (List UInt8)) : (offsOf b l).length = l.length := by
  induction l generalizing b with
  | nil => rfl
  | cons s r ih => simp [offsOf, ih]

theorem offsOf_append (b : Nat) (l1 l2 : List (List UInt8)) : offsOf b (l1 ++ l2) = offsOf b l1 ++ offsOf (b + total l1) l2 := by
  induction l1 generalizing b with
  | nil => simp [offsOf, total]
  | cons s r ih => simp [offsOf, total, ih, Nat.add_assoc]

theorem total_append (l1 l2 : List (List UInt8)) : total (l1 ++ l2) = total l1 + total l2 := by
  induction l1 with
  | nil => simp [total]
  | cons s r ih => simp [total, ih, Nat.add_assoc]

/-- the reader `NewMultiReaderAt(readers, sizes)` builds for in-memory segments -/
def mk (segs : List (List UInt8)) : Splitcarfetcher_MultiReaderAt :=
  { readers := segs.map memReader, offsets := offsOf 0 segs }

theorem w (x : Int) (h1 : -4611686018427387904 ≤ x) (h2 : x ≤ 4611686018427387904) : Go.wrap64 x = x :=
  Go.wrap64_id (by omega) (by omega)

theorem scfMin_eq (a b : Int) : scfMin a b = .ok (if a < b then a else b) := by
  unfold scfMin; by_cases h : a < b <;> simp [h]
theorem scfMax_eq (a b : Int) : scfMax a b = .ok (if a > b then a else b) := by
  unfold scfMax; by_cases h : a > b <;> simp [h]


theorem readSeg_length_le (seg : List UInt8) (o n : Nat) : (Multi.readSeg seg o n).1.length ≤ n := by
  unfold Multi.readSeg
  by_cases h : o ≥ seg.length <;> simp [h]
  omega

theorem setSlice_length (p v : List UInt8) (a : Nat) (h : a + v.length ≤ p.length) : (Go.setSlice p (a : Int) v).length = p.length := by
  unfold Go.setSlice; simp; omega

theorem setSlice_take (p r junk : List UInt8) (a : Nat) (ha : a ≤ p.length) :
    (Go.setSlice p (a : Int) (r ++ junk)).take (a + r.length) = p.take a ++ r := by
  unfold Go.setSlice
  simp only [Int.toNat_natCast]
  have h1 : (p.take a).length = a := by simp; omega
  rw [List.append_assoc, List.take_append, h1]
  rw [List.take_of_length_le (by omega)]
  congr 1
  have : a + r.length - a = r.length := by omega
  rw [this, List.append_assoc, List.take_append_of_le_length (Nat.le_refl _), List.take_length]

/-- the element of the offsets list at the position of the first remaining segment -/
theorem offs_getD (pre : List (List UInt8)) (seg : List UInt8) (rest : List (List UInt8)) :
    (offsOf 0 (pre ++ seg :: rest)).getD pre.length default = (total pre : Int) := by
  rw [offsOf_append]
  have : (offsOf 0 pre).length = pre.length := offsOf_length 0 pre
  rw [List.getD_eq_getElem?_getD, List.getElem?_append_right (by omega), this]
  simp [offsOf]

theorem offs_getD_succ (pre : List (List UInt8)) (seg s2 : List UInt8) (rest : List (List UInt8)) :
    (offsOf 0 (pre ++ seg :: s2 :: rest)).getD (pre.length + 1) default = ((total pre + seg.length : Nat) : Int) := by
  rw [offsOf_append]
  have : (offsOf 0 pre).length = pre.length := offsOf_length 0 pre
  rw [List.getD_eq_getElem?_getD, List.getElem?_append_right (by omega), this]
  simp [offsOf]

theorem readers_getD (pre : List (List UInt8)) (seg : List UInt8) (rest : List (List UInt8)) :
    ((pre ++ seg :: rest).map memReader).getD pre.length default = memReader seg := by
  rw [List.map_append, List.getD_eq_getElem?_getD, List.getElem?_append_right (by simp)]
  simp


abbrev LoopOut := M (LoopRes (Int × Go.Error × List UInt8) (Int × Int × List UInt8 × Bool × Int × Int × Int))

/-- how many bytes one iteration asks its reader for (Go: `min(max(0, nextOffset-off), remaining)`) -/
def toRead (base : Nat) (seg : List UInt8) (rest : List (List UInt8)) (off remaining : Nat) : Nat :=
  if rest.isEmpty then remaining else min (base + seg.length - off) remaining

theorem err_ne1 : (Go.Error.eof != Go.Error.nil) = true := by decide
theorem err_ne2 : (Go.Error.nil != Go.Error.nil) = false := by decide
theorem err_eq1 : (Go.Error.eof == Go.Error.eof) = true := by decide
theorem err_ne3 : (Go.Error.eof != Go.Error.eof) = false := by decide

/-! ### the loop body, restated in named pieces and tied to the translated code by `rfl`

The translated loop body is one do-block whose `if`s share their continuation through join points; unfolding it
naively copies the continuation twelve times.  `tail`, `afterErr`, `afterRead`, `read` name the pieces; `loop1_unfold`
(proved by `rfl`: the kernel checks that the pieces ARE the translated body) is what the proofs below rewrite with. -/

def tail (fuel0 : Nat) (m : Splitcarfetcher_MultiReaderAt) (rng1 : List Int) (f : Nat) (e : Int)
    (bufOffset : Int) (p : List UInt8) (remaining totalN : Int) (reachedEnd : Bool) (off : Int) : LoopOut :=
  if (remaining == 0) = true then pure (LoopRes.done (bufOffset, off, p, reachedEnd, remaining, totalN, e))
  else scfMultiReadAt.loop1 fuel0 m rng1 f bufOffset off p reachedEnd remaining totalN (wrap64 (e + 1))

def afterErr (fuel0 : Nat) (m : Splitcarfetcher_MultiReaderAt) (rng1 : List Int) (f : Nat) (e b : Int)
    (bufOffset : Int) (p : List UInt8) (remaining totalN n toRead : Int) (reachedEnd : Bool) : LoopOut :=
  if (n == toRead) = true then tail fuel0 m rng1 f e bufOffset p remaining totalN reachedEnd (wrap64 (b + n))
  else tail fuel0 m rng1 f e bufOffset p remaining totalN reachedEnd b

def afterRead (fuel0 : Nat) (m : Splitcarfetcher_MultiReaderAt) (rng1 : List Int) (f : Nat) (e b : Int) (re : Bool)
    (bufOffset : Int) (p : List UInt8) (remaining totalN n toRead : Int) (err_1 : Go.Error) : LoopOut :=
  if (err_1 != Error.nil) = true then
    if (err_1 == Error.eof && e == wrap64 (len m.readers - 1)) = true then
      afterErr fuel0 m rng1 f e b bufOffset p remaining totalN n toRead true
    else if (err_1 != Error.eof) = true then pure (LoopRes.ret (totalN, err_1, p))
    else afterErr fuel0 m rng1 f e b bufOffset p remaining totalN n toRead re
  else afterErr fuel0 m rng1 f e b bufOffset p remaining totalN n toRead re

def read (fuel0 : Nat) (m : Splitcarfetcher_MultiReaderAt) (rng1 : List Int) (f : Nat) (a b : Int) (p : List UInt8) (re : Bool)
    (c d e offset nextOffset : Int) : LoopOut := do
  let t5 ← scfMax 0 (wrap64 (nextOffset - b))
  let t6 ← scfMin t5 c
  let t7 ← idx m.readers e
  let t8 ← slice p a (wrap64 (a + t6))
  afterRead fuel0 m rng1 f e b re (wrap64 (a + len (t7 (len t8) (wrap64 (b - offset))).fst))
    (setSlice p a ((t7 (len t8) (wrap64 (b - offset))).fst ++ List.drop (t7 (len t8) (wrap64 (b - offset))).fst.length t8))
    (wrap64 (c - len (t7 (len t8) (wrap64 (b - offset))).fst)) (wrap64 (d + len (t7 (len t8) (wrap64 (b - offset))).fst))
    (len (t7 (len t8) (wrap64 (b - offset))).fst) t6 (t7 (len t8) (wrap64 (b - offset))).snd

theorem loop1_unfold (fuel0 : Nat) (m : Splitcarfetcher_MultiReaderAt) (rng1 : List Int) (f : Nat) (a b : Int) (p : List UInt8) (re : Bool) (c d e : Int) :
    scfMultiReadAt.loop1 fuel0 m rng1 (f+1) a b p re c d e =
      (if (!decide (e < len rng1)) = true then pure (LoopRes.done (a, b, p, re, c, d, e))
       else do
        let t3 ← idx rng1 e
        if decide (b < t3) = true then scfMultiReadAt.loop1 fuel0 m rng1 f a b p re c d (wrap64 (e + 1))
        else if decide (e < wrap64 (len m.offsets - 1)) = true then do
            let t4 ← idx m.offsets (wrap64 (e + 1))
            read fuel0 m rng1 f a b p re c d e t3 t4
          else read fuel0 m rng1 f a b p re c d e t3 9223372036854775807) := by
  rw [scfMultiReadAt.loop1]
  rfl

/-- ONE iteration of the translated loop at a segment that `off` has reached, in closed form -/
theorem iter_eq (all : List (List UInt8)) (htot : total all < 2 ^ 61) (hcnt : all.length < 2 ^ 61) (len : Nat) (hlen : len < 2 ^ 61)
    (fuel0 f : Nat) (pre : List (List UInt8)) (seg : List UInt8) (rest : List (List UInt8)) (hall : pre ++ seg :: rest = all)
    (off : Nat) (p : List UInt8) (re : Bool) (bo remaining : Nat)
    (hoff : off < 2 ^ 61) (hp : p.length = len) (hacc : bo + remaining = len) (hns : ¬ off < total pre) :
    scfMultiReadAt.loop1 fuel0 (mk all) (offsOf 0 all) (f + 1) (bo : Int) (off : Int) p re (remaining : Int) (bo : Int) (pre.length : Int) =
      (let tr := toRead (total pre) seg rest off remaining
       let r := Multi.readSeg seg (off - total pre) tr
       let n := r.1.length
       let p' := Go.setSlice p (bo : Int) (r.1 ++ ((p.drop bo).take tr).drop n)
       let re' := re || (r.2 && rest.isEmpty)
       let off' := if n = tr then off + n else off
       if remaining - n = 0 then
         (.ok (.done (((bo + n : Nat) : Int), (off' : Int), p', re', ((remaining - n : Nat) : Int), ((bo + n : Nat) : Int), (pre.length : Int))) : LoopOut)
       else
         scfMultiReadAt.loop1 fuel0 (mk all) (offsOf 0 all) f ((bo + n : Nat) : Int) (off' : Int) p' re' ((remaining - n : Nat) : Int)
           ((bo + n : Nat) : Int) ((pre.length + 1 : Nat) : Int)) := by
  have hcnt' : pre.length + 1 + rest.length = all.length := by rw [← hall]; simp; omega
  have htp : total pre + seg.length + total rest = total all := by
    rw [← hall, total_append]; simp [total]; omega
  have hl : Go.len (offsOf 0 all) = ((pre.length + 1 + rest.length : Nat) : Int) := by
    unfold Go.len; rw [offsOf_length, hcnt']
  have hlo : Go.len (mk all).offsets = ((pre.length + 1 + rest.length : Nat) : Int) := hl
  have hlr : Go.len (mk all).readers = ((pre.length + 1 + rest.length : Nat) : Int) := by
    unfold Go.len mk; simp [hcnt']
  have hlt : ((pre.length : Int) < Go.len (offsOf 0 all)) := by rw [hl]; omega
  have hidx : Go.idx (offsOf 0 all) (pre.length : Int) = .ok (total pre : Int) := by
    unfold Go.idx
    have : (0:Int) ≤ (pre.length : Int) ∧ (pre.length : Int) < (offsOf 0 all).length := by
      constructor
      · omega
      · have := hlt; unfold Go.len at this; exact this
    simp only [this, and_self, if_true, pure_eq_ok, Int.toNat_natCast]
    rw [← hall, offs_getD]
  have hrd : Go.idx (mk all).readers (pre.length : Int) = .ok (memReader seg) := by
    unfold Go.idx
    have : (0:Int) ≤ (pre.length : Int) ∧ (pre.length : Int) < (mk all).readers.length := by
      constructor
      · omega
      · have := hlr; unfold Go.len at this; omega
    simp only [this, and_self, if_true, pure_eq_ok, Int.toNat_natCast]
    unfold mk; simp only; rw [← hall, readers_getD]
  have hns' : ¬ ((off : Int) < (total pre : Int)) := by omega
  -- the value of toRead and the read
  obtain ⟨tr, htr⟩ : ∃ tr, toRead (total pre) seg rest off remaining = tr := ⟨_, rfl⟩
  have htrle : tr ≤ remaining := by rw [← htr]; unfold toRead; split <;> omega
  have hread : ∀ (next : Int), (scfMax 0 (Go.wrap64 (next - (off : Int))) >>= fun t5 => scfMin t5 (remaining : Int)) = .ok (tr : Int) →
      read fuel0 (mk all) (offsOf 0 all) f (bo : Int) (off : Int) p re (remaining : Int) (bo : Int) (pre.length : Int) (total pre : Int) next =
      afterRead fuel0 (mk all) (offsOf 0 all) f (pre.length : Int) (off : Int) re
        ((bo + (Multi.readSeg seg (off - total pre) tr).1.length : Nat) : Int)
        (Go.setSlice p (bo : Int) ((Multi.readSeg seg (off - total pre) tr).1 ++ ((p.drop bo).take tr).drop (Multi.readSeg seg (off - total pre) tr).1.length))
        ((remaining - (Multi.readSeg seg (off - total pre) tr).1.length : Nat) : Int)
        ((bo + (Multi.readSeg seg (off - total pre) tr).1.length : Nat) : Int)
        ((Multi.readSeg seg (off - total pre) tr).1.length : Int) (tr : Int)
        (if (Multi.readSeg seg (off - total pre) tr).2 then Go.Error.eof else Go.Error.nil) := by
    intro next hnext
    have hrl := readSeg_length_le seg (off - total pre) tr
    unfold read
    cases hmx : scfMax 0 (Go.wrap64 (next - (off : Int))) with
    | error e => rw [hmx] at hnext; cases hnext
    | ok t5 =>
      rw [hmx] at hnext; simp only [bind_ok] at hnext
      simp only [bind_ok, hnext, hrd]
      have hsl : Go.slice p (bo : Int) (Go.wrap64 ((bo : Int) + (tr : Int))) = .ok ((p.drop bo).take tr) := by
        rw [w _ (by omega) (by omega)]
        unfold Go.slice
        have : (0:Int) ≤ (bo : Int) ∧ (bo : Int) ≤ (bo : Int) + (tr : Int) ∧ (bo : Int) + (tr : Int) ≤ p.length := by omega
        simp only [this, and_self, if_true, pure_eq_ok, Int.toNat_natCast]
        congr 2; omega
      have hlen8 : Go.len ((p.drop bo).take tr) = (tr : Int) := by
        unfold Go.len; simp; omega
      have hoffI : Go.wrap64 ((off : Int) - (total pre : Int)) = ((off - total pre : Nat) : Int) := by
        rw [w _ (by omega) (by omega)]; omega
      have hmr : memReader seg (tr : Int) ((off - total pre : Nat) : Int)
          = ((Multi.readSeg seg (off - total pre) tr).1, if (Multi.readSeg seg (off - total pre) tr).2 then Go.Error.eof else Go.Error.nil) := by
        unfold memReader
        have : ¬ (((off - total pre : Nat) : Int) < 0) := by omega
        simp [this]
      simp only [hsl, bind_ok, hlen8, hoffI, hmr]
      have hn : Go.len (Multi.readSeg seg (off - total pre) tr).1 = ((Multi.readSeg seg (off - total pre) tr).1.length : Int) := id rfl
      rw [hn, w _ (by omega) (by omega), w _ (by omega) (by omega)]
      have e1 : (bo : Int) + ((Multi.readSeg seg (off - total pre) tr).1.length : Int)
          = ((bo + (Multi.readSeg seg (off - total pre) tr).1.length : Nat) : Int) := by simp
      have e2 : (remaining : Int) - ((Multi.readSeg seg (off - total pre) tr).1.length : Int)
          = ((remaining - (Multi.readSeg seg (off - total pre) tr).1.length : Nat) : Int) := by omega
      rw [e1, e2]
  -- the control flow after the read
  have hafter : ∀ (rb : List UInt8) (reof : Bool) (p' : List UInt8), rb.length ≤ tr →
      afterRead fuel0 (mk all) (offsOf 0 all) f (pre.length : Int) (off : Int) re ((bo + rb.length : Nat) : Int) p'
        ((remaining - rb.length : Nat) : Int) ((bo + rb.length : Nat) : Int) (rb.length : Int) (tr : Int) (if reof then Go.Error.eof else Go.Error.nil) =
      (if remaining - rb.length = 0 then
         (.ok (.done (((bo + rb.length : Nat) : Int), ((if rb.length = tr then off + rb.length else off : Nat) : Int), p', re || (reof && rest.isEmpty),
           ((remaining - rb.length : Nat) : Int), ((bo + rb.length : Nat) : Int), (pre.length : Int))) : LoopOut)
       else
         scfMultiReadAt.loop1 fuel0 (mk all) (offsOf 0 all) f ((bo + rb.length : Nat) : Int)
           ((if rb.length = tr then off + rb.length else off : Nat) : Int) p' (re || (reof && rest.isEmpty))
           ((remaining - rb.length : Nat) : Int) ((bo + rb.length : Nat) : Int) ((pre.length + 1 : Nat) : Int)) := by
    intro rb reof p' hrl
    have hlast : ((pre.length : Int) == Go.wrap64 (Go.len (mk all).readers - 1)) = rest.isEmpty := by
      rw [hlr, w _ (by omega) (by omega)]
      cases rest with
      | nil => simp
      | cons s2 r2 => simp; omega
    have hz : (((remaining - rb.length : Nat) : Int) == 0) = decide (remaining - rb.length = 0) := by
      by_cases h : remaining - rb.length = 0
      · simp [h]
      · have : ¬ (((remaining - rb.length : Nat) : Int) = 0) := by omega
        simp [h, this]
    have hnt : (((rb.length : Nat) : Int) == (tr : Int)) = decide (rb.length = tr) := by
      by_cases h : rb.length = tr
      · simp [h]
      · have : ¬ (((rb.length : Nat) : Int) = (tr : Int)) := by omega
        simp [h, this]
    have hw3 : Go.wrap64 ((off : Int) + (rb.length : Int)) = ((off + rb.length : Nat) : Int) := by rw [w _ (by omega) (by omega)]; simp
    have hw4 : Go.wrap64 ((pre.length : Int) + 1) = ((pre.length + 1 : Nat) : Int) := by rw [w _ (by omega) (by omega)]; simp
    unfold afterRead afterErr tail
    simp only [hlast, hz, hnt, hw3, hw4]
    cases reof <;> cases hre : rest.isEmpty <;> by_cases h1 : rb.length = tr <;> by_cases h2 : remaining - rb.length = 0 <;>
      simp [h1, h2, err_ne1, err_ne2, err_eq1, err_ne3]
  rw [loop1_unfold]
  simp only [hlt, decide_true, Bool.not_true, Bool.false_eq_true, if_false, hidx, bind_ok, hns', decide_false]
  simp only [← htr] at hread hafter ⊢
  cases rest with
  | nil =>
    have c1 : ¬ ((pre.length : Int) < Go.wrap64 (Go.len (mk all).offsets - 1)) := by
      rw [hlo, w _ (by omega) (by omega)]; simp
    simp only [c1, decide_false, Bool.false_eq_true, if_false]
    rw [hread 9223372036854775807 (by
      rw [scfMax_eq, Go.wrap64_id (by omega) (by omega)]
      have h1 : ¬ (0 : Int) > 9223372036854775807 - (off : Int) := by omega
      simp only [h1, if_false, bind_ok, scfMin_eq]
      have h2 : ¬ (9223372036854775807 - (off : Int) < (remaining : Int)) := by omega
      simp [h2, toRead])]
    exact hafter _ _ _ (readSeg_length_le _ _ _)
  | cons s2 r2 =>
    have c1 : ((pre.length : Int) < Go.wrap64 (Go.len (mk all).offsets - 1)) := by
      rw [hlo, w _ (by omega) (by omega)]; simp; omega
    have hi1 : Go.idx (mk all).offsets (Go.wrap64 ((pre.length : Int) + 1)) = .ok ((total pre + seg.length : Nat) : Int) := by
      rw [w _ (by omega) (by omega)]
      unfold Go.idx
      have : (0:Int) ≤ (pre.length : Int) + 1 ∧ (pre.length : Int) + 1 < (mk all).offsets.length := by
        constructor
        · omega
        · have := hlo; unfold Go.len at this; simp at this; omega
      simp only [this, and_self, if_true, pure_eq_ok]
      have e : ((pre.length : Int) + 1).toNat = pre.length + 1 := by omega
      rw [e]; unfold mk; simp only; rw [← hall, offs_getD_succ]
    simp only [c1, decide_true, if_true, hi1, bind_ok]
    rw [hread ((total pre + seg.length : Nat) : Int) (by
      rw [scfMax_eq, Go.wrap64_id (by omega) (by omega)]
      by_cases h : (0 : Int) > ((total pre + seg.length : Nat) : Int) - (off : Int)
      · simp only [h, if_true, bind_ok, scfMin_eq]
        by_cases h2 : (0 : Int) < (remaining : Int) <;> simp [h2, toRead] <;> omega
      · simp only [h, if_false, bind_ok, scfMin_eq]
        by_cases h2 : ((total pre + seg.length : Nat) : Int) - (off : Int) < (remaining : Int) <;> simp [h2, toRead] <;> omega)]
    exact hafter _ _ _ (readSeg_length_le _ _ _)

/-- the loop ended (normally or by `break`) in a state that shows the model's answer: the first `n` bytes of the buffer
    are the model's bytes, `totalN = n`, and "remaining > 0 && reachedEnd" is the model's end-of-file verdict -/
def Agrees (len : Nat) (model : List UInt8 × Bool) (r : LoopOut) : Prop :=
  ∃ (off' : Int) (p' : List UInt8) (re' : Bool) (rem' : Nat) (ri' : Int),
    r = .ok (.done ((model.1.length : Int), off', p', re', (rem' : Int), (model.1.length : Int), ri')) ∧
    p'.length = len ∧ p'.take model.1.length = model.1 ∧ (decide (0 < rem') && re') = model.2 ∧ model.1.length + rem' = len

/-- the tail of one iteration (after the read), given the induction hypothesis for the remaining segments -/
theorem step_agrees (all : List (List UInt8)) (len : Nat) (fuel0 f : Nat) (pre : List (List UInt8)) (seg : List UInt8)
    (rest : List (List UInt8)) (off : Nat) (p : List UInt8) (re : Bool) (acc : List UInt8) (remaining : Nat)
    (tr : Nat) (r : List UInt8 × Bool) (hrl : r.1.length ≤ tr) (htr : tr ≤ remaining)
    (hoff : off + remaining < 2 ^ 61) (hp : p.length = len) (hacc : acc.length + remaining = len) (hpre : p.take acc.length = acc)
    (ihh : ∀ (off2 : Nat) (p2 : List UInt8) (re2 : Bool) (acc2 : List UInt8) (rem2 : Nat),
      off2 + rem2 < 2 ^ 61 → p2.length = len → acc2.length + rem2 = len → p2.take acc2.length = acc2 → 0 < rem2 →
      Agrees len (Multi.go rest (total pre + seg.length) off2 rem2 acc2 re2)
        (scfMultiReadAt.loop1 fuel0 (mk all) (offsOf 0 all) f (acc2.length : Int) (off2 : Int) p2 re2 (rem2 : Int)
          (acc2.length : Int) ((pre.length + 1 : Nat) : Int))) :
    Agrees len
      (if remaining - r.1.length = 0 then (acc ++ r.1, false)
       else Multi.go rest (total pre + seg.length) (if r.1.length = tr then off + r.1.length else off) (remaining - r.1.length)
         (acc ++ r.1) (re || (r.2 && rest.isEmpty)))
      (if remaining - r.1.length = 0 then
         (.ok (.done (((acc.length + r.1.length : Nat) : Int), ((if r.1.length = tr then off + r.1.length else off : Nat) : Int),
           Go.setSlice p (acc.length : Int) (r.1 ++ ((p.drop acc.length).take tr).drop r.1.length), re || (r.2 && rest.isEmpty),
           ((remaining - r.1.length : Nat) : Int), ((acc.length + r.1.length : Nat) : Int), (pre.length : Int))) : LoopOut)
       else
         scfMultiReadAt.loop1 fuel0 (mk all) (offsOf 0 all) f ((acc.length + r.1.length : Nat) : Int)
           ((if r.1.length = tr then off + r.1.length else off : Nat) : Int)
           (Go.setSlice p (acc.length : Int) (r.1 ++ ((p.drop acc.length).take tr).drop r.1.length)) (re || (r.2 && rest.isEmpty))
           ((remaining - r.1.length : Nat) : Int) ((acc.length + r.1.length : Nat) : Int) ((pre.length + 1 : Nat) : Int)) := by
  have hjunk : (((p.drop acc.length).take tr).drop r.1.length).length = tr - r.1.length := by
    simp; omega
  have hplen : (Go.setSlice p (acc.length : Int) (r.1 ++ ((p.drop acc.length).take tr).drop r.1.length)).length = len := by
    rw [setSlice_length _ _ _ (by simp [hjunk]; omega), hp]
  have hptake : (Go.setSlice p (acc.length : Int) (r.1 ++ ((p.drop acc.length).take tr).drop r.1.length)).take (acc ++ r.1).length = acc ++ r.1 := by
    rw [List.length_append, setSlice_take _ _ _ _ (by omega), hpre]
  by_cases hz : remaining - r.1.length = 0
  · simp only [hz, if_true]
    refine ⟨((if r.1.length = tr then off + r.1.length else off : Nat) : Int),
      Go.setSlice p (acc.length : Int) (r.1 ++ ((p.drop acc.length).take tr).drop r.1.length), re || (r.2 && rest.isEmpty), 0,
      (pre.length : Int), ?_, hplen, hptake, by simp, by simp; omega⟩
    simp [List.length_append]
  · simp only [hz, if_false]
    have := ihh (if r.1.length = tr then off + r.1.length else off)
      (Go.setSlice p (acc.length : Int) (r.1 ++ ((p.drop acc.length).take tr).drop r.1.length)) (re || (r.2 && rest.isEmpty)) (acc ++ r.1)
      (remaining - r.1.length) (by split <;> omega) hplen (by simp; omega) hptake (by omega)
    have e1 : (((acc ++ r.1).length : Nat) : Int) = ((acc.length + r.1.length : Nat) : Int) := by simp
    rw [e1] at this
    exact this

theorem loop_agrees (all : List (List UInt8)) (htot : total all < 2 ^ 61) (hcnt : all.length < 2 ^ 61) (len : Nat) (hlen : len < 2 ^ 61) (fuel0 : Nat) :
    ∀ (suf pre : List (List UInt8)), pre ++ suf = all →
    ∀ (fuel off : Nat) (p : List UInt8) (reachedEnd : Bool) (acc : List UInt8) (remaining : Nat),
      off + remaining < 2 ^ 61 → p.length = len → acc.length + remaining = len → p.take acc.length = acc → 0 < remaining → suf.length < fuel →
      Agrees len (Multi.go suf (total pre) off remaining acc reachedEnd)
        (scfMultiReadAt.loop1 fuel0 (mk all) (offsOf 0 all) fuel (acc.length : Int) (off : Int) p reachedEnd (remaining : Int)
          (acc.length : Int) (pre.length : Int)) := by
  intro suf
  induction suf with
  | nil =>
    intro pre hall fuel off p re acc remaining hoff hp hacc hpre hrem hfuel
    obtain ⟨f, rfl⟩ : ∃ f, fuel = f + 1 := ⟨fuel - 1, by simp at hfuel; omega⟩
    rw [scfMultiReadAt.loop1]
    have hl : Go.len (offsOf 0 all) = (pre.length : Int) := by
      unfold Go.len; rw [offsOf_length, ← hall]; simp
    have hnlt : ¬ ((pre.length : Int) < Go.len (offsOf 0 all)) := by rw [hl]; omega
    simp only [hnlt, decide_false, Bool.not_false, if_true, pure_eq_ok, Multi.go]
    exact ⟨_, p, re, remaining, _, rfl, hp, hpre, rfl, hacc⟩
  | cons seg rest ih =>
    intro pre hall fuel off p re acc remaining hoff hp hacc hpre hrem hfuel
    obtain ⟨f, rfl⟩ : ∃ f, fuel = f + 1 := ⟨fuel - 1, by simp at hfuel; omega⟩
    have hf : rest.length < f := by simp at hfuel; omega
    have htp : total pre + seg.length + total rest = total all := by
      rw [← hall, total_append]; simp [total]; omega
    have hall' : (pre ++ [seg]) ++ rest = all := by rw [← hall]; simp
    have hcnt' : pre.length + 1 + rest.length = all.length := by rw [← hall]; simp; omega
    have htot' : total (pre ++ [seg]) = total pre + seg.length := by rw [total_append]; simp [total]
    have hlen' : ((pre ++ [seg]).length : Int) = (pre.length : Int) + 1 := by simp
    rw [scfMultiReadAt.loop1, Multi.go]
    have hl : Go.len (offsOf 0 all) = ((pre.length + 1 + rest.length : Nat) : Int) := by
      unfold Go.len; rw [offsOf_length, ← hall]; simp; omega
    have hlt : ((pre.length : Int) < Go.len (offsOf 0 all)) := by rw [hl]; omega
    have hidx : Go.idx (offsOf 0 all) (pre.length : Int) = .ok (total pre : Int) := by
      unfold Go.idx
      have : (0:Int) ≤ (pre.length : Int) ∧ (pre.length : Int) < (offsOf 0 all).length := by
        constructor
        · omega
        · have := hlt; unfold Go.len at this; exact this
      simp only [this, and_self, if_true, pure_eq_ok, Int.toNat_natCast]
      rw [← hall, offs_getD]
    simp only [hlt, decide_true, Bool.not_true, Bool.false_eq_true, if_false, hidx, bind_ok]
    by_cases hskip : off < total pre
    · -- the segment lies behind `off`?  no: `off` lies before this segment's start — skip it
      have hskip' : ((off : Int) < (total pre : Int)) := by omega
      simp only [hskip, hskip', decide_true, if_true]
      have hw1 : Go.wrap64 ((pre.length : Int) + 1) = ((pre ++ [seg]).length : Int) := by rw [w _ (by omega) (by omega)]; simp
      rw [hw1]
      have := ih (pre ++ [seg]) hall' f off p re acc remaining hoff hp hacc hpre hrem hf
      rw [htot'] at this
      simpa using this
    · -- `off` has reached this segment: one iteration in closed form, then the model's own recursion
      have hit := iter_eq all htot hcnt len hlen fuel0 f pre seg rest hall off p re acc.length remaining (by omega) hp hacc hskip
      rw [scfMultiReadAt.loop1] at hit
      simp only [hlt, decide_true, Bool.not_true, Bool.false_eq_true, if_false, hidx, bind_ok] at hit
      rw [hit]
      simp only [hskip, if_false, toRead]
      exact step_agrees all len fuel0 f pre seg rest off p re acc remaining
        (if rest.isEmpty then remaining else min (total pre + seg.length - off) remaining)
        (Multi.readSeg seg (off - total pre) (if rest.isEmpty then remaining else min (total pre + seg.length - off) remaining))
        (readSeg_length_le _ _ _) (by by_cases hl : rest.isEmpty <;> simp [hl]; omega) hoff hp hacc hpre
        (fun off2 p2 re2 acc2 rem2 h1 h2 h3 h4 h5 => by
          have := ih (pre ++ [seg]) hall' f off2 p2 re2 acc2 rem2 h1 h2 h3 h4 h5 hf
          rw [htot'] at this
          have e2 : (((pre ++ [seg]).length : Nat) : Int) = ((pre.length + 1 : Nat) : Int) := by simp
          rw [e2] at this
          exact this)


/-- **tie**: `MultiReaderAt.ReadAt(p, off)` as translated from the source, over in-memory segment readers with the offsets
    `NewMultiReaderAt` computes, fills the front of `p` with exactly the bytes the model `Multi.readAt` returns, reports their
    number, and answers `io.EOF` exactly when the model does — for every list of segments (empty ones included), every
    non-negative offset and every non-empty buffer (sizes below 2^61; `fuel` = number of segments + 1: the loop ends). -/
theorem gen_scfMultiReadAt_eq_model (segs : List (List UInt8)) (htot : total segs < 2 ^ 61) (hcnt : segs.length < 2 ^ 61)
    (p : List UInt8) (off : Nat) (hp0 : 0 < p.length) (hoff : off + p.length < 2 ^ 61) :
    ∃ p', scfMultiReadAt (segs.length + 1) (mk segs) p (off : Int)
        = .ok (((Multi.readAt segs off p.length).1.length : Int), (if (Multi.readAt segs off p.length).2 then Go.Error.eof else Go.Error.nil), p') ∧
      p'.length = p.length ∧ p'.take (Multi.readAt segs off p.length).1.length = (Multi.readAt segs off p.length).1 := by
  have h := loop_agrees segs htot hcnt p.length (by omega) (segs.length + 1) segs [] (by simp) (segs.length + 1) off p false [] p.length
    (by omega) rfl (by simp) (by simp) hp0 (by omega)
  obtain ⟨off', p', re', rem', ri', hr, hlen, htake, heof, hsum⟩ := h
  simp only [List.length_nil, Int.natCast_zero, total] at hr htake heof hsum
  refine ⟨p', ?_, hlen, ?_⟩
  · unfold scfMultiReadAt Multi.readAt
    have hmo : (mk segs).offsets = offsOf 0 segs := rfl
    simp only [hmo, Go.len, hr, bind_ok, pure_eq_ok]
    rw [← heof]
    cases re' <;> by_cases hz : 0 < rem' <;> simp [hz]
  · unfold Multi.readAt; exact htake

/-- with `Multi.readAt_spec`: the bytes are the requested range of the concatenation, `io.EOF` iff the range reaches past
    the end — the statement of C16's first sentence, about the translated reader -/
theorem gen_scfMultiReadAt_spec (segs : List (List UInt8)) (hne : segs ≠ []) (htot : total segs < 2 ^ 61) (hcnt : segs.length < 2 ^ 61)
    (p : List UInt8) (off : Nat) (hp0 : 0 < p.length) (hoff : off + p.length < 2 ^ 61) :
    ∃ n err p', scfMultiReadAt (segs.length + 1) (mk segs) p (off : Int) = .ok (n, err, p') ∧
      p'.length = p.length ∧ n = ((Multi.want segs off p.length).length : Int) ∧
      p'.take (Multi.want segs off p.length).length = Multi.want segs off p.length ∧
      (err = Go.Error.eof ↔ (Multi.want segs off p.length).length < p.length) ∧ (err = Go.Error.eof ∨ err = Go.Error.nil) := by
  obtain ⟨p', hr, hlen, htake⟩ := gen_scfMultiReadAt_eq_model segs htot hcnt p off hp0 hoff
  obtain ⟨h1, h2⟩ := Multi.readAt_spec segs off p.length hne hp0
  refine ⟨_, _, p', hr, hlen, by rw [h1], by rw [h1] at htake; exact htake, ?_, ?_⟩
  · rw [← h2]; cases (Multi.readAt segs off p.length).2 <;> simp
  · cases (Multi.readAt segs off p.length).2 <;> simp

/-- non-vacuity: the hypotheses are satisfiable and the translated reader runs (through the theorem) -/
example : ∃ p', scfMultiReadAt 3 (mk [[1, 2, 3], [4, 5]]) [0, 0, 0] ((2 : Nat) : Int) = .ok (3, Go.Error.nil, p') ∧ p'.take 3 = [3, 4, 5] := by
  obtain ⟨p', h, _, ht⟩ := gen_scfMultiReadAt_eq_model [[1, 2, 3], [4, 5]] (by decide) (by decide) [0, 0, 0] 2 (by decide) (by decide)
  have hm : Multi.readAt [[1, 2, 3], [4, 5]] 2 3 = ([3, 4, 5], false) := by decide
  simp only [List.length_cons, List.length_nil, hm] at h ht
  exact ⟨p', h, ht⟩

example : ∃ p', scfMultiReadAt 3 (mk [[1, 2, 3], [4, 5]]) [0, 0, 0] ((4 : Nat) : Int) = .ok (1, Go.Error.eof, p') := by
  obtain ⟨p', h, _, _⟩ := gen_scfMultiReadAt_eq_model [[1, 2, 3], [4, 5]] (by decide) (by decide) [0, 0, 0] 4 (by decide) (by decide)
  have hm : Multi.readAt [[1, 2, 3], [4, 5]] 4 3 = ([5], true) := by decide
  simp only [List.length_cons, List.length_nil, hm] at h
  exact ⟨p', h⟩

end GoTies.C16

import Faithful.Generated.GoFns
import Faithful.Lib.Bucketteer
import Faithful.Ties.Basic
import Faithful.Ties.C10
import Faithful.Ties.BkHas
import Faithful.Ties.CILookup
/-!
C05 / C12 tie (header side of the signature-existence reader): pieces of `bucketteer.NewReader` / `readHeader`
(`read.go`), translated from /repo's working tree on every run: the empty prefix table (`newUint16Layout`: 65 536 entries
`math.MaxUint64`), `isReaderEmpty`, `readHeaderSize`, and the metadata section read through the Borsh decoder
(`Meta.UnmarshalWithDecoder` leaves the decoder exactly behind the pairs the model's `BK.parseMeta2` consumes).
-/
namespace GoTies.BkOpen
open Go Generated.G GoTies GoTies.C10 GoTies.BkHas GoTies.CILookup

theorem take_len_lt (r : List UInt8) (k : Nat) : ((r.take k).length < k) ↔ (r.length < k) := by
  rw [List.length_take]; omega

/-- the unmarshal loop with `c` pairs still to read from position `p`: the pairs of `BK.parseMeta2` and the decoder
    left exactly at the unread rest -/
theorem unmarshal_loop2 (fuel0 : Nat) (n : UInt8) (d : List UInt8) : ∀ (c fuel i p : Nat) (m : Indexmeta_Meta),
    i + c = n.toNat → c < fuel →
    match BK.parseMeta2 c (d.drop p) with
    | some (l, rest) => ∃ p', d.drop p' = rest ∧ metaUnmarshalDec.loop1 fuel0 n fuel ⟨d, p⟩ (i : Int) m
        = .ok (.done (⟨d, p'⟩, (n.toNat : Int), { m with KeyVals := m.KeyVals ++ l.map mkKV }))
    | none => ∃ t, metaUnmarshalDec.loop1 fuel0 n fuel ⟨d, p⟩ (i : Int) m = .error (.err t) := by
  intro c
  induction c with
  | zero =>
    intro fuel i p m hi hf
    obtain ⟨f, rfl⟩ : ∃ f, fuel = f + 1 := ⟨fuel - 1, by omega⟩
    rw [metaUnmarshalDec.loop1]
    simp only [BK.parseMeta2]
    have : ¬ ((i : Int) < (n.toNat : Int)) := by omega
    simp only [this, decide_false, Bool.not_false, if_true, pure_eq_ok, List.map_nil, List.append_nil]
    have hi' : (i : Int) = (n.toNat : Int) := by omega
    rw [hi']
    exact ⟨p, rfl, rfl⟩
  | succ c ih =>
    intro fuel i p m hi hf
    obtain ⟨f, rfl⟩ : ∃ f, fuel = f + 1 := ⟨fuel - 1, by omega⟩
    rw [metaUnmarshalDec.loop1]
    have hlt : ((i : Int) < (n.toNat : Int)) := by omega
    simp only [hlt, decide_true, Bool.not_true, Bool.false_eq_true, if_false, readByte_eq]
    cases h1 : d.drop p with
    | nil => simp only [BK.parseMeta2, bind_error]; exact ⟨_, rfl⟩
    | cons kl r =>
      have hr : d.drop (p + 1) = r := by
        have := congrArg List.tail h1; simpa [List.tail_drop] using this
      simp only [BK.parseMeta2, bind_ok, makeOf_u8, Go.len, List.length_replicate, take_len_lt]
      by_cases hk : r.length < kl.toNat
      · simp only [hk, if_true]
        obtain ⟨t, ht⟩ := readFull_gen d (p + 1) kl.toNat (by rw [hr]; exact hk)
        simp only [ht, bind_error]; exact ⟨_, rfl⟩
      · simp only [hk, if_false]
        rw [readFull_ok d (p + 1) kl.toNat (by rw [hr]; exact hk)]
        simp only [bind_ok, readByte_eq, hr]
        have hd2 : d.drop (p + 1 + kl.toNat) = r.drop kl.toNat := by rw [← hr, List.drop_drop]
        rw [hd2]
        cases h2 : r.drop kl.toNat with
        | nil => simp only [bind_error]; exact ⟨_, rfl⟩
        | cons vl r2 =>
          have hr2 : d.drop (p + 1 + kl.toNat + 1) = r2 := by
            have := congrArg List.tail h2
            rw [← hd2] at this
            simpa [List.tail_drop, Nat.add_assoc] using this
          simp only [bind_ok, makeOf_u8, List.length_replicate]
          by_cases hv : r2.length < vl.toNat
          · simp only [hv, if_true]
            obtain ⟨t, ht⟩ := readFull_gen d (p + 1 + kl.toNat + 1) vl.toNat (by rw [hr2]; exact hv)
            simp only [ht, bind_error]; exact ⟨_, rfl⟩
          · simp only [hv, if_false]
            rw [readFull_ok d (p + 1 + kl.toNat + 1) vl.toNat (by rw [hr2]; exact hv)]
            simp only [bind_ok, hr2]
            have hw : Go.wrap64 ((i : Int) + 1) = ((i + 1 : Nat) : Int) := by
              have := n.toNat_lt
              rw [Go.wrap64_id] <;> omega
            rw [hw]
            have hd3 : d.drop (p + 1 + kl.toNat + 1 + vl.toNat) = r2.drop vl.toNat := by rw [← hr2, List.drop_drop]
            have := ih f (i + 1) (p + 1 + kl.toNat + 1 + vl.toNat)
              { m with KeyVals := m.KeyVals ++ [{ Indexmeta_KV.zero with Key := r.take kl.toNat, Value := r2.take vl.toNat }] }
              (by omega) (by omega)
            rw [hd3] at this
            cases h3 : BK.parseMeta2 c (r2.drop vl.toNat) with
            | none =>
              rw [h3] at this
              simpa using this
            | some q =>
              obtain ⟨l, rest⟩ := q
              rw [h3] at this
              obtain ⟨p', hp', hr'⟩ := this
              refine ⟨p', hp', ?_⟩
              simp only [hr', List.map_cons, mkKV, List.append_assoc, List.cons_append, List.nil_append]

/-- `Meta.UnmarshalWithDecoder(decoder)` on an empty `Meta` from position `p` of the decoder's data: the pairs of the
    model's `parseMeta .v2` and the decoder at the unread rest, or an error exactly when the model rejects -/
theorem unmarshalDec_eq (fuel : Nat) (hf : 256 < fuel) (d : List UInt8) (p : Nat) :
    match BK.parseMeta .v2 (d.drop p) with
    | some (l, rest) => ∃ p', d.drop p' = rest ∧
        metaUnmarshalDec fuel Indexmeta_Meta.zero ⟨d, p⟩ = .ok (ofKvs l, ⟨d, p'⟩)
    | none => ∃ t, metaUnmarshalDec fuel Indexmeta_Meta.zero ⟨d, p⟩ = .error (.err t) := by
  unfold BK.parseMeta metaUnmarshalDec
  simp only [readByte_eq]
  cases h1 : d.drop p with
  | nil => simp only [bind_error]; exact ⟨_, rfl⟩
  | cons c r =>
    have hr : d.drop (p + 1) = r := by
      have := congrArg List.tail h1; simpa [List.tail_drop] using this
    simp only [bind_ok]
    have h255 : ¬ (c > 255) := by
      rw [gt_iff_lt, UInt8.lt_iff_toNat_lt]; have := c.toNat_lt; simp; omega
    simp only [h255, decide_false, Bool.false_eq_true, if_false]
    have hloop := unmarshal_loop2 fuel c d c.toNat fuel 0 (p + 1) Indexmeta_Meta.zero (by omega) (by have := c.toNat_lt; omega)
    rw [hr] at hloop
    simp only [Int.natCast_zero] at hloop
    cases hp : BK.parseMeta2 c.toNat r with
    | none =>
      rw [hp] at hloop
      obtain ⟨t, ht⟩ := hloop
      exact ⟨t, by simp only [ht, bind_error]⟩
    | some q =>
      obtain ⟨l, rest⟩ := q
      rw [hp] at hloop
      obtain ⟨p', hp', hr'⟩ := hloop
      refine ⟨p', hp', ?_⟩
      have hz : ({ KeyVals := [] } : Indexmeta_Meta) = Indexmeta_Meta.zero := rfl
      simp only [hz, hr', bind_ok, pure_eq_ok, ofKvs_eq]
      rfl

end GoTies.BkOpen

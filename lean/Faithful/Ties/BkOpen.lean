import Faithful.Generated.GoFns
import Faithful.Lib.Bucketteer
import Faithful.Ties.Basic
import Faithful.Ties.C10
import Faithful.Ties.BkHas
import Faithful.Ties.CILookup
/-!
C05 / C12 tie (header side of the signature-existence reader): pieces of `bucketteer.NewReader` / `readHeader`
(`read.go`), translated from /repo's working tree on every run: the empty prefix table (`newUint16Layout`: 65 536 entries
`math.MaxUint64`), `isReaderEmpty`, `readHeaderSize`, and the metadata section read through the Borsh decoder
(`Meta.UnmarshalWithDecoder` leaves the decoder exactly behind the pairs the model's `BK.parseMeta2` consumes).
-/
namespace GoTies.BkOpen
open Go Generated.G GoTies GoTies.C10 GoTies.BkHas GoTies.CILookup

theorem take_len_lt (r : List UInt8) (k : Nat) : ((r.take k).length < k) ↔ (r.length < k) := by
  rw [List.length_take]; omega

/-- the unmarshal loop with `c` pairs still to read from position `p`: the pairs of `BK.parseMeta2` and the decoder
    left exactly at the unread rest -/
theorem unmarshal_loop2 (fuel0 : Nat) (n : UInt8) (d : List UInt8) : ∀ (c fuel i p : Nat) (m : Indexmeta_Meta),
    i + c = n.toNat → c < fuel →
    match BK.parseMeta2 c (d.drop p) with
    | some (l, rest) => ∃ p', d.drop p' = rest ∧ metaUnmarshalDec.loop1 fuel0 n fuel ⟨d, p⟩ (i : Int) m
        = .ok (.done (⟨d, p'⟩, (n.toNat : Int), { m with KeyVals := m.KeyVals ++ l.map mkKV }))
    | none => ∃ t, metaUnmarshalDec.loop1 fuel0 n fuel ⟨d, p⟩ (i : Int) m = .error (.err t) := by
  intro c
  induction c with
  | zero =>
    intro fuel i p m hi hf
    obtain ⟨f, rfl⟩ : ∃ f, fuel = f + 1 := ⟨fuel - 1, by omega⟩
    rw [metaUnmarshalDec.loop1]
    simp only [BK.parseMeta2]
    have : ¬ ((i : Int) < (n.toNat : Int)) := by omega
    simp only [this, decide_false, Bool.not_false, if_true, pure_eq_ok, List.map_nil, List.append_nil]
    have hi' : (i : Int) = (n.toNat : Int) := by omega
    rw [hi']
    exact ⟨p, rfl, rfl⟩
  | succ c ih =>
    intro fuel i p m hi hf
    obtain ⟨f, rfl⟩ : ∃ f, fuel = f + 1 := ⟨fuel - 1, by omega⟩
    rw [metaUnmarshalDec.loop1]
    have hlt : ((i : Int) < (n.toNat : Int)) := by omega
    simp only [hlt, decide_true, Bool.not_true, Bool.false_eq_true, if_false, readByte_eq]
    cases h1 : d.drop p with
    | nil => simp only [BK.parseMeta2, bind_error]; exact ⟨_, rfl⟩
    | cons kl r =>
      have hr : d.drop (p + 1) = r := by
        have := congrArg List.tail h1; simpa [List.tail_drop] using this
      simp only [BK.parseMeta2, bind_ok, makeOf_u8, Go.len, List.length_replicate, take_len_lt]
      by_cases hk : r.length < kl.toNat
      · simp only [hk, if_true]
        obtain ⟨t, ht⟩ := readFull_gen d (p + 1) kl.toNat (by rw [hr]; exact hk)
        simp only [ht, bind_error]; exact ⟨_, rfl⟩
      · simp only [hk, if_false]
        rw [readFull_ok d (p + 1) kl.toNat (by rw [hr]; exact hk)]
        simp only [bind_ok, readByte_eq, hr]
        have hd2 : d.drop (p + 1 + kl.toNat) = r.drop kl.toNat := by rw [← hr, List.drop_drop]
        rw [hd2]
        cases h2 : r.drop kl.toNat with
        | nil => simp only [bind_error]; exact ⟨_, rfl⟩
        | cons vl r2 =>
          have hr2 : d.drop (p + 1 + kl.toNat + 1) = r2 := by
            have := congrArg List.tail h2
            rw [← hd2] at this
            simpa [List.tail_drop, Nat.add_assoc] using this
          simp only [bind_ok, makeOf_u8, List.length_replicate]
          by_cases hv : r2.length < vl.toNat
          · simp only [hv, if_true]
            obtain ⟨t, ht⟩ := readFull_gen d (p + 1 + kl.toNat + 1) vl.toNat (by rw [hr2]; exact hv)
            simp only [ht, bind_error]; exact ⟨_, rfl⟩
          · simp only [hv, if_false]
            rw [readFull_ok d (p + 1 + kl.toNat + 1) vl.toNat (by rw [hr2]; exact hv)]
            simp only [bind_ok, hr2]
            have hw : Go.wrap64 ((i : Int) + 1) = ((i + 1 : Nat) : Int) := by
              have := n.toNat_lt
              rw [Go.wrap64_id] <;> omega
            rw [hw]
            have hd3 : d.drop (p + 1 + kl.toNat + 1 + vl.toNat) = r2.drop vl.toNat := by rw [← hr2, List.drop_drop]
            have := ih f (i + 1) (p + 1 + kl.toNat + 1 + vl.toNat)
              { m with KeyVals := m.KeyVals ++ [{ Indexmeta_KV.zero with Key := r.take kl.toNat, Value := r2.take vl.toNat }] }
              (by omega) (by omega)
            rw [hd3] at this
            cases h3 : BK.parseMeta2 c (r2.drop vl.toNat) with
            | none =>
              rw [h3] at this
              simpa using this
            | some q =>
              obtain ⟨l, rest⟩ := q
              rw [h3] at this
              obtain ⟨p', hp', hr'⟩ := this
              refine ⟨p', hp', ?_⟩
              simp only [hr', List.map_cons, mkKV, List.append_assoc, List.cons_append, List.nil_append]

/-- `Meta.UnmarshalWithDecoder(decoder)` on an empty `Meta` from position `p` of the decoder's data: the pairs of the
    model's `parseMeta .v2` and the decoder at the unread rest, or an error exactly when the model rejects -/
theorem unmarshalDec_eq (fuel : Nat) (hf : 256 < fuel) (d : List UInt8) (p : Nat) :
    match BK.parseMeta .v2 (d.drop p) with
    | some (l, rest) => ∃ p', d.drop p' = rest ∧
        metaUnmarshalDec fuel Indexmeta_Meta.zero ⟨d, p⟩ = .ok (ofKvs l, ⟨d, p'⟩)
    | none => ∃ t, metaUnmarshalDec fuel Indexmeta_Meta.zero ⟨d, p⟩ = .error (.err t) := by
  unfold BK.parseMeta metaUnmarshalDec
  simp only [readByte_eq]
  cases h1 : d.drop p with
  | nil => simp only [bind_error]; exact ⟨_, rfl⟩
  | cons c r =>
    have hr : d.drop (p + 1) = r := by
      have := congrArg List.tail h1; simpa [List.tail_drop] using this
    simp only [bind_ok]
    have h255 : ¬ (c > 255) := by
      rw [gt_iff_lt, UInt8.lt_iff_toNat_lt]; have := c.toNat_lt; simp; omega
    simp only [h255, decide_false, Bool.false_eq_true, if_false]
    have hloop := unmarshal_loop2 fuel c d c.toNat fuel 0 (p + 1) Indexmeta_Meta.zero (by omega) (by have := c.toNat_lt; omega)
    rw [hr] at hloop
    simp only [Int.natCast_zero] at hloop
    cases hp : BK.parseMeta2 c.toNat r with
    | none =>
      rw [hp] at hloop
      obtain ⟨t, ht⟩ := hloop
      exact ⟨t, by simp only [ht, bind_error]⟩
    | some q =>
      obtain ⟨l, rest⟩ := q
      rw [hp] at hloop
      obtain ⟨p', hp', hr'⟩ := hloop
      refine ⟨p', hp', ?_⟩
      have hz : ({ KeyVals := [] } : Indexmeta_Meta) = Indexmeta_Meta.zero := rfl
      simp only [hz, hr', bind_ok, pure_eq_ok, ofKvs_eq]
      rfl

/-! ### the empty prefix table -/

def maxU : UInt64 := 18446744073709551615

theorem newLayout_loop (fuel0 : Nat) : ∀ (c fuel k : Nat), k + c = 65536 → c < fuel →
    bkNewLayout.loop1 fuel0 fuel (k : Int) (List.replicate k maxU ++ List.replicate c 0)
      = .ok (LoopRes.done ((65536 : Int), List.replicate 65536 maxU)) := by
  intro c
  induction c with
  | zero =>
    intro fuel k hk hf
    obtain ⟨f, rfl⟩ : ∃ f, fuel = f + 1 := ⟨fuel - 1, by omega⟩
    rw [bkNewLayout.loop1]
    have hk' : k = 65536 := by omega
    subst hk'
    have : ¬ (((65536 : Nat) : Int) ≤ 65535) := by omega
    simp only [this, decide_false, Bool.not_false, if_true, List.replicate_zero, List.append_nil]
    rfl
  | succ c ih =>
    intro fuel k hk hf
    obtain ⟨f, rfl⟩ : ∃ f, fuel = f + 1 := ⟨fuel - 1, by omega⟩
    rw [bkNewLayout.loop1]
    have hle : ((k : Int) ≤ 65535) := by omega
    simp only [hle, decide_true, Bool.not_true, Bool.false_eq_true, if_false]
    have hset : Go.setIdx (List.replicate k maxU ++ List.replicate (c + 1) 0) (k : Int) (18446744073709551615 : UInt64)
        = .ok (List.replicate (k + 1) maxU ++ List.replicate c 0) := by
      unfold Go.setIdx
      rw [if_pos (by simp; omega)]
      simp only [Int.toNat_natCast, pure_eq_ok]
      congr 1
      rw [List.set_append_right _ _ (by simp)]
      simp only [List.length_replicate, Nat.sub_self, List.replicate_succ, List.set_cons_zero]
      rw [← List.replicate_succ, List.replicate_succ', List.append_assoc]
      rfl
    rw [hset, bind_ok]
    have hw : Go.wrap64 ((k : Int) + 1) = ((k + 1 : Nat) : Int) := by
      rw [Go.wrap64_id] <;> omega
    rw [hw]
    exact ih f (k + 1) (by omega) (by omega)

/-- `newUint16Layout()`: 65 536 entries `math.MaxUint64` -/
theorem newLayout_eq (fuel : Nat) (hf : 65536 < fuel) : bkNewLayout fuel = .ok (List.replicate 65536 maxU) := by
  have hm : bkNewLayout fuel = (bkNewLayout.loop1 fuel fuel 0 (List.replicate 65536 0) >>= fun r =>
      match r with
      | LoopRes.ret r2 => pure r2
      | LoopRes.done (_, s4) => pure s4) := rfl
  have := newLayout_loop fuel 65536 fuel 0 (by omega) hf
  simp only [List.replicate_zero, List.nil_append, Int.natCast_zero] at this
  rw [hm, this]
  rfl

theorem newLayoutPtr_loop (fuel0 : Nat) : ∀ (c fuel k : Nat), k + c = 65536 → c < fuel →
    bkNewLayoutPtr.loop1 fuel0 fuel (k : Int) (List.replicate k maxU ++ List.replicate c 0)
      = .ok (LoopRes.done ((65536 : Int), List.replicate 65536 maxU)) := by
  intro c
  induction c with
  | zero =>
    intro fuel k hk hf
    obtain ⟨f, rfl⟩ : ∃ f, fuel = f + 1 := ⟨fuel - 1, by omega⟩
    rw [bkNewLayoutPtr.loop1]
    have hk' : k = 65536 := by omega
    subst hk'
    have : ¬ (((65536 : Nat) : Int) ≤ 65535) := by omega
    simp only [this, decide_false, Bool.not_false, if_true, List.replicate_zero, List.append_nil]
    rfl
  | succ c ih =>
    intro fuel k hk hf
    obtain ⟨f, rfl⟩ : ∃ f, fuel = f + 1 := ⟨fuel - 1, by omega⟩
    rw [bkNewLayoutPtr.loop1]
    have hle : ((k : Int) ≤ 65535) := by omega
    simp only [hle, decide_true, Bool.not_true, Bool.false_eq_true, if_false]
    have hset : Go.setIdx (List.replicate k maxU ++ List.replicate (c + 1) 0) (k : Int) (18446744073709551615 : UInt64)
        = .ok (List.replicate (k + 1) maxU ++ List.replicate c 0) := by
      unfold Go.setIdx
      rw [if_pos (by simp; omega)]
      simp only [Int.toNat_natCast, pure_eq_ok]
      congr 1
      rw [List.set_append_right _ _ (by simp)]
      simp only [List.length_replicate, Nat.sub_self, List.replicate_succ, List.set_cons_zero]
      rw [← List.replicate_succ, List.replicate_succ', List.append_assoc]
      rfl
    rw [hset, bind_ok]
    have hw : Go.wrap64 ((k : Int) + 1) = ((k + 1 : Nat) : Int) := by
      rw [Go.wrap64_id] <;> omega
    rw [hw]
    exact ih f (k + 1) (by omega) (by omega)

theorem newLayoutPtr_eq (fuel : Nat) (hf : 65536 < fuel) : bkNewLayoutPtr fuel = .ok (List.replicate 65536 maxU) := by
  have hm : bkNewLayoutPtr fuel = (bkNewLayoutPtr.loop1 fuel fuel 0 (List.replicate 65536 0) >>= fun r =>
      match r with
      | LoopRes.ret r2 => pure r2
      | LoopRes.done (_, s4) => pure s4) := rfl
  have := newLayoutPtr_loop fuel 65536 fuel 0 (by omega) hf
  simp only [List.replicate_zero, List.nil_append, Int.natCast_zero] at this
  rw [hm, this]
  rfl

/-! ### the prefix → offset table -/

/-- one step of the model's `parseTable` on an arbitrary byte string -/
theorem parseTable_succ (n : Nat) (bs : List UInt8) (t : Array (Option Nat)) :
    BK.parseTable (n + 1) bs t =
      if bs.length < 10 then none
      else BK.parseTable n (bs.drop 10)
        (t.setIfInBounds ((bs.getD 0 0).toNat + 256 * (bs.getD 1 0).toNat) (some (B.unle ((bs.drop 2).take 8)))) := by
  match bs with
  | [] => rfl
  | [_] => rfl
  | [_, _] => rfl
  | [_, _, _] => rfl
  | [_, _, _, _] => rfl
  | [_, _, _, _, _] => rfl
  | [_, _, _, _, _, _] => rfl
  | [_, _, _, _, _, _, _] => rfl
  | [_, _, _, _, _, _, _, _] => rfl
  | [_, _, _, _, _, _, _, _, _] => rfl
  | b0 :: b1 :: o0 :: o1 :: o2 :: o3 :: o4 :: o5 :: o6 :: o7 :: rest =>
    have : ¬ ((b0 :: b1 :: o0 :: o1 :: o2 :: o3 :: o4 :: o5 :: o6 :: o7 :: rest).length < 10) := by
      simp only [List.length_cons]; omega
    rw [if_neg this]
    rfl

theorem tableRep_set (t : Array (Option Nat)) (T : List UInt64) (k v : Nat) (hT : TableRep t T) (hs : t.size = 65536)
    (hk : k < 65536) (hv : v < 2 ^ 64) :
    TableRep (t.setIfInBounds k (some v)) (T.set k (UInt64.ofNat v)) ∧ (t.setIfInBounds k (some v)).size = 65536 := by
  obtain ⟨hl, hrep⟩ := hT
  refine ⟨⟨by rw [List.length_set]; exact hl, ?_⟩, by simp [hs]⟩
  intro q hq
  by_cases hqk : q = k
  · subst hqk
    have h1 : (t.setIfInBounds q (some v)).getD q none = some v := by
      rw [Array.getD_eq_getD_getElem?, Array.getElem?_setIfInBounds_self_of_lt (by omega)]; rfl
    have h2 : (T.set q (UInt64.ofNat v)).getD q 0 = UInt64.ofNat v := by
      rw [List.getD_eq_getElem?_getD, List.getElem?_set_self (by omega)]; rfl
    rw [h1]
    exact ⟨hv, h2⟩
  · have h1 : (t.setIfInBounds k (some v)).getD q none = t.getD q none := by
      rw [Array.getD_eq_getD_getElem?, Array.getD_eq_getD_getElem?, Array.getElem?_setIfInBounds_ne (by omega)]
    have h2 : (T.set k (UInt64.ofNat v)).getD q 0 = T.getD q 0 := by
      rw [List.getD_eq_getElem?_getD, List.getD_eq_getElem?_getD, List.getElem?_set_ne (by omega)]
    rw [h1, h2]
    exact hrep q hq

/-- the error result every failing branch of `readHeader` returns -/
def hdrErr (e : Go.Error) : (List UInt64 × Indexmeta_Meta × Int × Go.Error) :=
  (List.replicate 65536 (0 : UInt64), Indexmeta_Meta.zero, (0 : Int), e)

/-- one iteration of the table loop of `readHeader` (tied to the translation by `rfl`) -/
theorem tloop_succ (fuel0 : Nat) (np : UInt64) (f : Nat) (dec : Go.BytesReader) (i : UInt64) (T : List UInt64) :
    bkReadHeader.loop1 fuel0 np (f + 1) dec i T =
      (if (!(decide (i < np))) = true then pure (LoopRes.done (dec, i, T)) else
       Go.catchErr (Go.readFull dec (Go.len (List.replicate 2 (0 : UInt8)))) (dec, List.replicate 2 (0 : UInt8)) >>= fun t10 =>
       if (t10.2 != Go.Error.nil) = true then
         pure (LoopRes.ret (hdrErr (Go.Error.wrap "failed to read prefixes[%d]: %w" t10.2))) else
       Go.catchErr (Go.readU64LE t10.1.1) (t10.1.1, (0 : UInt64)) >>= fun t11 =>
       if (t11.2 != Go.Error.nil) = true then
         pure (LoopRes.ret (hdrErr (Go.Error.wrap "failed to read offsets[%d]: %w" t11.2))) else
       bkPrefixToUint16 t10.1.2 >>= fun t13 =>
       Go.setIdx T (t13.toNat : Int) t11.1.2 >>= fun t12 =>
       bkReadHeader.loop1 fuel0 np f t11.1.1 (i + 1) t12) := rfl

theorem catch_ok {α : Type} (v d : α) : Go.catchErr (Except.ok v : M α) d = .ok (v, Go.Error.nil) := rfl
theorem catch_err {α : Type} (t : String) (d : α) : Go.catchErr (Except.error (.err t) : M α) d = .ok (d, Go.Error.other t) := rfl

theorem readU64_eq (d : List UInt8) (p : Nat) :
    Go.readU64LE ⟨d, p⟩ = if (d.drop p).length < 8 then Go.readU64LE ⟨d, p⟩
      else .ok (⟨d, p + 8⟩, UInt64.ofNat (B.unle ((d.drop p).take 8))) := by
  by_cases h : (d.drop p).length < 8
  · rw [if_pos h]
  · rw [if_neg h]
    unfold Go.readU64LE
    have h8 : Go.readFull ⟨d, p⟩ 8 = .ok (⟨d, p + 8⟩, (d.drop p).take 8) := readFull_ok d p 8 h
    rw [h8, bind_ok, leDecode_eq_unle]
    rfl

theorem readU64_short (d : List UInt8) (p : Nat) (h : (d.drop p).length < 8) : ∃ t, Go.readU64LE ⟨d, p⟩ = .error (.err t) := by
  unfold Go.readU64LE
  obtain ⟨t, ht⟩ := readFull_gen d p 8 h
  have ht' : Go.readFull ⟨d, p⟩ 8 = .error (.err t) := ht
  rw [ht']
  exact ⟨t, rfl⟩

/-- the table loop of `readHeader` from position `p` with `c` pairs still to read = the model's `parseTable` -/
theorem table_loop (fuel0 : Nat) (np : UInt64) (d : List UInt8) : ∀ (c fuel i p : Nat) (t : Array (Option Nat)) (T : List UInt64),
    i + c = np.toNat → (d.length - p) / 10 + 1 < fuel → TableRep t T → t.size = 65536 →
    match BK.parseTable c (d.drop p) t with
    | some t' => ∃ p' T', TableRep t' T' ∧
        bkReadHeader.loop1 fuel0 np fuel ⟨d, p⟩ (UInt64.ofNat i) T = .ok (LoopRes.done (⟨d, p'⟩, np, T'))
    | none => ∃ e, e ≠ Go.Error.nil ∧
        bkReadHeader.loop1 fuel0 np fuel ⟨d, p⟩ (UInt64.ofNat i) T = .ok (LoopRes.ret (hdrErr e)) := by
  intro c
  induction c with
  | zero =>
    intro fuel i p t T hi hf hT hs
    obtain ⟨f, rfl⟩ : ∃ f, fuel = f + 1 := ⟨fuel - 1, by omega⟩
    rw [tloop_succ]
    have hnp := np.toNat_lt
    have hie : UInt64.ofNat i = np := by
      apply UInt64.toNat_inj.mp
      rw [UInt64.toNat_ofNat', Nat.mod_eq_of_lt (by omega)]; omega
    have : (!(decide (UInt64.ofNat i < np))) = true := by
      rw [hie]; simp
    rw [if_pos this, hie]
    exact ⟨p, T, hT, rfl⟩
  | succ c ih =>
    intro fuel i p t T hi hf hT hs
    obtain ⟨f, rfl⟩ : ∃ f, fuel = f + 1 := ⟨fuel - 1, by omega⟩
    rw [tloop_succ, parseTable_succ]
    have hnp := np.toNat_lt
    have hin : (UInt64.ofNat i).toNat = i := by rw [UInt64.toNat_ofNat', Nat.mod_eq_of_lt (by omega)]
    have hlt : ¬ ((!(decide (UInt64.ofNat i < np))) = true) := by
      simp only [Bool.not_eq_true', decide_eq_false_iff_not, Decidable.not_not, UInt64.lt_iff_toNat_lt, hin]; omega
    have hi1 : UInt64.ofNat i + 1 = UInt64.ofNat (i + 1) := by
      apply UInt64.toNat_inj.mp
      have e1 : (1 : UInt64).toNat = 1 := rfl
      have hlt2 : i + 1 < 2 ^ 64 := by omega
      rw [UInt64.toNat_add, hin, e1, UInt64.toNat_ofNat', Nat.mod_eq_of_lt hlt2]
    rw [if_neg hlt]
    have hl2 : Go.len (List.replicate 2 (0 : UInt8)) = ((2 : Nat) : Int) := by unfold Go.len; simp
    rw [hl2]
    by_cases h2 : (d.drop p).length < 2
    · -- not even the prefix
      obtain ⟨tt, ht⟩ := readFull_gen d p 2 h2
      rw [ht, catch_err, bind_ok]
      have : ((Go.Error.other tt != Go.Error.nil) = true) := by simp
      rw [if_pos this, if_pos (by omega)]
      exact ⟨_, (by intro h; cases h), rfl⟩
    · rw [readFull_ok d p 2 h2, catch_ok, bind_ok]
      have hnil : ¬ ((Go.Error.nil != Go.Error.nil) = true) := by simp
      rw [if_neg hnil]
      by_cases h8 : (d.drop (p + 2)).length < 8
      · obtain ⟨tt, ht⟩ := readU64_short d (p + 2) h8
        rw [ht, catch_err, bind_ok]
        have : ((Go.Error.other tt != Go.Error.nil) = true) := by simp
        have hshort : (d.drop p).length < 10 := by
          rw [List.length_drop] at h8 h2 ⊢; omega
        rw [if_pos this, if_pos hshort]
        exact ⟨_, (by intro h; cases h), rfl⟩
      · rw [readU64_eq, if_neg h8, catch_ok, bind_ok, if_neg hnil]
        have hlong : ¬ ((d.drop p).length < 10) := by
          rw [List.length_drop] at h8 h2 ⊢; omega
        rw [if_neg hlong]
        -- the two prefix bytes
        obtain ⟨b0, b1, rest, hd⟩ : ∃ b0 b1 rest, d.drop p = b0 :: b1 :: rest := by
          match hdp : d.drop p with
          | [] => rw [hdp] at h2; simp at h2
          | [_] => rw [hdp] at h2; simp at h2
          | b0 :: b1 :: rest => exact ⟨b0, b1, rest, rfl⟩
        have ht2 : (d.drop p).take 2 = [b0, b1] := by rw [hd]; rfl
        rw [ht2, C05.gen_bkPrefixToUint16_eq_model, bind_ok]
        have hpk : BK.prefixOf [b0, b1] < 65536 := by
          unfold BK.prefixOf; have := b0.toNat_lt; have := b1.toNat_lt; simp; omega
        have hpn : (UInt16.ofNat (BK.prefixOf [b0, b1])).toNat = BK.prefixOf [b0, b1] := by
          rw [UInt16.toNat_ofNat']; exact Nat.mod_eq_of_lt hpk
        have hkey : ((d.drop p).getD 0 0).toNat + 256 * ((d.drop p).getD 1 0).toNat = BK.prefixOf [b0, b1] := by
          rw [hd]; rfl
        have hval : B.unle (((d.drop p).drop 2).take 8) = B.unle ((d.drop (p + 2)).take 8) := by
          rw [List.drop_drop]
        rw [hkey, hval, hpn]
        have hv64 := unle8_lt (d.drop (p + 2))
        generalize B.unle ((d.drop (p + 2)).take 8) = v at hv64 ⊢
        generalize BK.prefixOf [b0, b1] = k at hpk ⊢
        obtain ⟨hT', hs'⟩ := tableRep_set t T k v hT hs hpk hv64
        have hset : Go.setIdx T (k : Int) (UInt64.ofNat v) = .ok (T.set k (UInt64.ofNat v)) := by
          unfold Go.setIdx
          rw [if_pos (by rw [hT.1]; omega), Int.toNat_natCast]; rfl
        rw [hset, bind_ok]
        rw [hi1]
        have hdd : (d.drop p).drop 10 = d.drop (p + 2 + 8) := by rw [List.drop_drop]
        rw [hdd]
        have hfuel : (d.length - (p + 2 + 8)) / 10 + 1 < f := by
          rw [List.length_drop] at hlong
          have : (d.length - p) / 10 = (d.length - (p + 2 + 8)) / 10 + 1 := by omega
          omega
        exact ih f (i + 1) (p + 2 + 8) _ _ (by omega) hfuel hT' hs'

/-! ### `readHeader` -/

def magicL : List UInt8 := [98, 117, 99, 107, 101, 116, 116, 101]

def readHeaderM (fuel : Nat) (s : Go.ReaderAt) : M (List UInt64 × Indexmeta_Meta × Int × Go.Error) :=
  bkReadHeaderSize s >>= fun t1 =>
  if (t1.2 != Go.Error.nil) = true then pure (hdrErr (Go.Error.wrap "failed to read header size: %w" t1.2)) else
  if decide (t1.1 > 785945) = true then pure (hdrErr (Go.Error.other "invalid header size: %d")) else
  Go.makeOf (0 : UInt8) t1.1 >>= fun t2 =>
  let t3 := s (Go.len t2) 4
  if (t3.2 != Go.Error.nil) = true then pure (hdrErr (Go.Error.wrap "failed to read header bytes: %w" t3.2)) else
  Go.makeOf (0 : UInt8) (Go.len magicL) >>= fun t4 =>
  Go.catchErr (Go.readFull ⟨t3.1 ++ t2.drop t3.1.length, 0⟩ (Go.len t4)) (⟨t3.1 ++ t2.drop t3.1.length, 0⟩, t4) >>= fun t5 =>
  if (t5.2 != Go.Error.nil) = true then pure (hdrErr (Go.Error.wrap "failed to read magic: %w" t5.2)) else
  if (!(t5.1.2 == magicL)) = true then pure (hdrErr (Go.Error.other "invalid magic: %x")) else
  Go.catchErr (Go.readU64LE t5.1.1) (t5.1.1, (0 : UInt64)) >>= fun t6 =>
  if (t6.2 != Go.Error.nil) = true then pure (hdrErr (Go.Error.wrap "failed to read version: %w" t6.2)) else
  if (t6.1.2 != 2) = true then pure (hdrErr (Go.Error.other "expected version %d, got %d")) else
  Go.catchErr (metaUnmarshalDec fuel Indexmeta_Meta.zero t6.1.1) (Indexmeta_Meta.zero, t6.1.1) >>= fun t7 =>
  if (t7.2 != Go.Error.nil) = true then pure (hdrErr (Go.Error.wrap "failed to unmarshal metadata: %w" t7.2)) else
  Go.catchErr (Go.readU64LE t7.1.2) (t7.1.2, (0 : UInt64)) >>= fun t8 =>
  if (t8.2 != Go.Error.nil) = true then pure (hdrErr (Go.Error.wrap "failed to read numPrefixes: %w" t8.2)) else
  bkNewLayout fuel >>= fun t9 =>
  bkReadHeader.loop1 fuel t8.1.2 fuel t8.1.1 0 t9 >>= fun r =>
  match r with
  | LoopRes.ret r14 => pure r14
  | LoopRes.done (_, _, s17) => pure (s17, t7.1.1, Go.wrap64 (t1.1 + 4), t8.2)

theorem readHeader_unfold (fuel : Nat) (s : Go.ReaderAt) : bkReadHeader fuel s = readHeaderM fuel s := rfl

theorem memRd_at0_ok (c : List UInt8) (n : Nat) (h : n ≤ c.length) (hn : 0 < n) :
    memRd c (n : Int) 0 = (c.take n, Go.Error.nil) := by
  have := memRd_ok c n 0 (by omega) hn
  simp only [Int.natCast_zero, List.drop_zero] at this
  exact this

theorem memRd_at0_short (c : List UInt8) (n : Nat) (h : ¬ (n ≤ c.length)) (hn : 0 < n) :
    (memRd c (n : Int) 0).2 = Go.Error.eof := by
  have := (memRd_short c n 0 (by omega) hn).1
  simp only [Int.natCast_zero] at this
  exact this

theorem memRd_at4_ok (c : List UInt8) (n : Nat) (h : 4 + n ≤ c.length) (hn : 0 < n) :
    memRd c (n : Int) 4 = ((c.drop 4).take n, Go.Error.nil) := memRd_ok c n 4 h hn

theorem memRd_at4_short (c : List UInt8) (n : Nat) (h : ¬ (4 + n ≤ c.length)) (hn : 0 < n) :
    (memRd c (n : Int) 4).2 = Go.Error.eof := (memRd_short c n 4 h hn).1

/-- `readHeaderSize` over an in-memory reader -/
theorem readHeaderSize_eq (l : List UInt8) :
    bkReadHeaderSize (memRd l) =
      if 4 ≤ l.length then .ok (((B.unle (l.take 4) : Nat) : Int), Go.Error.nil) else .ok (0, Go.Error.eof) := by
  have hm : bkReadHeaderSize (memRd l) =
      (Go.makeOf (0 : UInt8) 4 >>= fun t1 =>
       let t2 := memRd l (Go.len t1) 0
       if (t2.2 != Go.Error.nil) = true then pure ((0 : Int), t2.2)
       else Go.leU32 (t2.1 ++ t1.drop t2.1.length) >>= fun t3 => pure ((t3.toNat : Int), Go.Error.nil)) := rfl
  rw [hm]
  have hmk : Go.makeOf (0 : UInt8) (4 : Int) = .ok (List.replicate 4 0) := by
    unfold Go.makeOf; rw [if_pos (by omega)]; rfl
  rw [hmk, bind_ok]
  have hl4 : Go.len (List.replicate 4 (0 : UInt8)) = ((4 : Nat) : Int) := by unfold Go.len; simp
  simp only [hl4]
  by_cases h : 4 ≤ l.length
  · rw [if_pos h, memRd_at0_ok l 4 h (by omega)]
    have hnil : ¬ ((Go.Error.nil != Go.Error.nil) = true) := by simp
    simp only [hnil, if_false]
    have hlen : (l.take 4).length = 4 := by rw [List.length_take]; omega
    have hle : Go.leU32 (l.take 4 ++ (List.replicate 4 (0 : UInt8)).drop (l.take 4).length) = .ok (UInt32.ofNat (B.unle (l.take 4))) := by
      rw [hlen]
      unfold Go.leU32
      simp only [List.drop_replicate, Nat.sub_self, List.replicate_zero, List.append_nil]
      rw [if_pos (by omega), leDecode_eq_unle, List.take_take]; rfl
    rw [hle, bind_ok]
    have h32 : B.unle (l.take 4) < 2 ^ 32 := BkHas.unle4_lt l
    have : (UInt32.ofNat (B.unle (l.take 4))).toNat = B.unle (l.take 4) := by
      rw [UInt32.toNat_ofNat']; exact Nat.mod_eq_of_lt h32
    rw [this]
    rfl
  · rw [if_neg h]
    have he := memRd_at0_short l 4 h (by omega)
    have : ((memRd l ((4 : Nat) : Int) 0).2 != Go.Error.nil) = true := by rw [he]; simp
    simp only [this, if_true, he]
    rfl

/-- `readHeader` over the file bytes: the prefix table, the metadata and the total header size, or `none` = an error -/
def hdrSpec (l : List UInt8) : Option (Array (Option Nat) × BK.MetaKVs × Nat) :=
  if l.length < 4 then none else
  if B.unle (l.take 4) > 785945 then none else
  if l.length < 4 + B.unle (l.take 4) then none else
  if ((l.drop 4).take (B.unle (l.take 4))).length < 8 then none else
  if ((l.drop 4).take (B.unle (l.take 4))).take 8 ≠ magicL then none else
  if (((l.drop 4).take (B.unle (l.take 4))).drop 8).length < 8 then none else
  if B.unle ((((l.drop 4).take (B.unle (l.take 4))).drop 8).take 8) ≠ 2 then none else
  match BK.parseMeta .v2 (((l.drop 4).take (B.unle (l.take 4))).drop 16) with
  | none => none
  | some (m, r2) =>
    if r2.length < 8 then none else
    match BK.parseTable (B.unle (r2.take 8)) (r2.drop 8) (Array.replicate 65536 none) with
    | none => none
    | some t => some (t, m, B.unle (l.take 4) + 4)

theorem tableRep_init : TableRep (Array.replicate 65536 none) (List.replicate 65536 maxU) := by
  refine ⟨List.length_replicate, ?_⟩
  intro p hp
  have h1 : (Array.replicate 65536 (none : Option Nat)).getD p none = none := by
    rw [Array.getD_eq_getD_getElem?, Array.getElem?_replicate]
    split <;> rfl
  rw [h1]
  show (List.replicate 65536 maxU).getD p 0 = 18446744073709551615
  rw [List.getD_eq_getElem?_getD, List.getElem?_replicate, if_pos hp]
  rfl

theorem memRd_zero_fst (c : List UInt8) (k : Int) : (memRd c 0 k).1 = [] := by
  unfold memRd
  split
  · rfl
  · split
    · rfl
    · simp

theorem wrap_ne_nil (tag : String) (e : Go.Error) : Go.Error.wrap tag e ≠ Go.Error.nil := by
  cases e <;> (intro h; cases h)

/-- **tie**: `readHeader(reader)`, as translated from the source, over an in-memory reader = `hdrSpec` -/
theorem gen_bkReadHeader_eq_spec (l : List UInt8) (fuel : Nat) (hf : 800000 < fuel) (hl : l.length < 2 ^ 62) :
    match hdrSpec l with
    | some (t, m, hsz) => ∃ T, TableRep t T ∧ bkReadHeader fuel (memRd l) = .ok (T, ofKvs m, (hsz : Int), Go.Error.nil)
    | none => ∃ e, e ≠ Go.Error.nil ∧ bkReadHeader fuel (memRd l) = .ok (hdrErr e) := by
  rw [readHeader_unfold]
  unfold readHeaderM hdrSpec
  rw [readHeaderSize_eq]
  have hnil : ¬ ((Go.Error.nil != Go.Error.nil) = true) := by simp
  by_cases h4 : l.length < 4
  · have hn4 : ¬ (4 ≤ l.length) := by omega
    rw [if_pos h4, if_neg hn4, bind_ok]
    have : ((Go.Error.eof != Go.Error.nil) = true) := by simp
    rw [if_pos this]
    exact ⟨_, (by intro h; cases h), rfl⟩
  · have hp4 : 4 ≤ l.length := by omega
    rw [if_neg h4, if_pos hp4, bind_ok, if_neg hnil]
    have h32 := BkHas.unle4_lt l
    generalize B.unle (l.take 4) = hs at h32 ⊢
    by_cases hbig : hs > 785945
    · have : decide (((hs : Nat) : Int) > 785945) = true := by rw [decide_eq_true_eq]; omega
      rw [if_pos hbig, if_pos this]
      exact ⟨_, (by intro h; cases h), rfl⟩
    · have hnb : ¬ (decide (((hs : Nat) : Int) > 785945) = true) := by rw [decide_eq_true_eq]; omega
      rw [if_neg hbig, if_neg hnb]
      have hmk : Go.makeOf (0 : UInt8) ((hs : Nat) : Int) = .ok (List.replicate hs 0) := by
        unfold Go.makeOf; rw [if_pos (by omega), Int.toNat_natCast]; rfl
      rw [hmk, bind_ok]
      have hlr : Go.len (List.replicate hs (0 : UInt8)) = (hs : Int) := by unfold Go.len; simp
      simp only [hlr]
      have hmg : Go.makeOf (0 : UInt8) (Go.len magicL) = .ok (List.replicate 8 0) := by
        unfold Go.makeOf magicL Go.len; rfl
      have hl8 : Go.len (List.replicate 8 (0 : UInt8)) = ((8 : Nat) : Int) := by unfold Go.len; simp
      by_cases hz : hs = 0
      · -- an empty header: the model fails at the magic; the code at the read or at the magic
        subst hz
        have hsp : ¬ (l.length < 4 + 0) := by omega
        rw [if_neg hsp]
        have h8 : ((l.drop 4).take 0).length < 8 := by simp
        rw [if_pos h8]
        by_cases he : ((memRd l ((0 : Nat) : Int) 4).2 != Go.Error.nil) = true
        · rw [if_pos he]
          exact ⟨_, wrap_ne_nil _ _, rfl⟩
        · rw [if_neg he, hmg, bind_ok, hl8]
          have hfst := memRd_zero_fst l 4
          have hfst' : (memRd l ((0 : Nat) : Int) 4).1 = [] := hfst
          simp only [hfst', List.length_nil, List.drop_zero, List.replicate_zero, List.append_nil]
          obtain ⟨tt, ht⟩ := readFull_gen [] 0 8 (by simp)
          rw [ht, catch_err, bind_ok]
          have : ((Go.Error.other tt != Go.Error.nil) = true) := by simp
          rw [if_pos this]
          exact ⟨_, (by intro h; cases h), rfl⟩
      · have hpos : 0 < hs := by omega
        by_cases hshort : l.length < 4 + hs
        · rw [if_pos hshort]
          have he := memRd_at4_short l hs (by omega) hpos
          have : ((memRd l (hs : Int) 4).2 != Go.Error.nil) = true := by rw [he]; simp
          rw [if_pos this]
          exact ⟨_, wrap_ne_nil _ _, rfl⟩
        · rw [if_neg hshort, memRd_at4_ok l hs (by omega) hpos]
          simp only
          rw [if_neg hnil, hmg, bind_ok, hl8]
          have hbl : ((l.drop 4).take hs).length = hs := by rw [List.length_take, List.length_drop]; omega
          have hbuf : (l.drop 4).take hs ++ (List.replicate hs (0 : UInt8)).drop ((l.drop 4).take hs).length = (l.drop 4).take hs := by
            rw [hbl]; simp
          rw [hbuf]
          generalize (l.drop 4).take hs = buf at hbl ⊢
          -- magic
          by_cases hm8 : buf.length < 8
          · rw [if_pos hm8]
            obtain ⟨tt, ht⟩ := readFull_gen buf 0 8 (by simpa using hm8)
            rw [ht, catch_err, bind_ok]
            have : ((Go.Error.other tt != Go.Error.nil) = true) := by simp
            rw [if_pos this]
            exact ⟨_, wrap_ne_nil _ _, rfl⟩
          · rw [if_neg hm8, readFull_ok buf 0 8 (by simpa using hm8), catch_ok, bind_ok, if_neg hnil]
            simp only [List.drop_zero, Nat.zero_add]
            by_cases hmag : buf.take 8 ≠ magicL
            · have : (!(buf.take 8 == magicL)) = true := by simpa using hmag
              rw [if_pos hmag, if_pos this]
              exact ⟨_, (by intro h; cases h), rfl⟩
            · have hb : ¬ ((!(buf.take 8 == magicL)) = true) := by simpa using hmag
              rw [if_neg hmag, if_neg hb]
              -- version
              by_cases hv8 : (buf.drop 8).length < 8
              · rw [if_pos hv8]
                obtain ⟨tt, ht⟩ := readU64_short buf 8 hv8
                rw [ht, catch_err, bind_ok]
                have : ((Go.Error.other tt != Go.Error.nil) = true) := by simp
                rw [if_pos this]
                exact ⟨_, wrap_ne_nil _ _, rfl⟩
              · rw [if_neg hv8, readU64_eq, if_neg hv8, catch_ok, bind_ok, if_neg hnil]
                have hv64 := BkHas.unle8_lt (buf.drop 8)
                generalize B.unle ((buf.drop 8).take 8) = ver at hv64 ⊢
                have hvn : (UInt64.ofNat ver != 2) = true ↔ ver ≠ 2 := by
                  rw [bne_iff_ne, Ne, ← UInt64.toNat_inj, UInt64.toNat_ofNat', Nat.mod_eq_of_lt hv64]; rfl
                by_cases hver : ver ≠ 2
                · rw [if_pos hver, if_pos (hvn.mpr hver)]
                  exact ⟨_, (by intro h; cases h), rfl⟩
                · rw [if_neg hver, if_neg (fun h => hver (hvn.mp h))]
                  -- metadata
                  have hmeta := unmarshalDec_eq fuel (by omega) buf (8 + 8)
                  have e16 : (8 : Nat) + 8 = 16 := rfl
                  rw [e16] at hmeta
                  cases hpm : BK.parseMeta .v2 (buf.drop 16) with
                  | none =>
                    rw [hpm] at hmeta
                    obtain ⟨tt, ht⟩ := hmeta
                    simp only
                    rw [ht, catch_err, bind_ok]
                    have : ((Go.Error.other tt != Go.Error.nil) = true) := by simp
                    rw [if_pos this]
                    exact ⟨_, wrap_ne_nil _ _, rfl⟩
                  | some q =>
                    obtain ⟨m, r2⟩ := q
                    rw [hpm] at hmeta
                    obtain ⟨p', hp', hmd⟩ := hmeta
                    simp only
                    rw [hmd, catch_ok, bind_ok, if_neg hnil]
                    -- numPrefixes
                    by_cases hn8 : r2.length < 8
                    · rw [if_pos hn8]
                      obtain ⟨tt, ht⟩ := readU64_short buf p' (by rw [hp']; exact hn8)
                      rw [ht, catch_err, bind_ok]
                      have : ((Go.Error.other tt != Go.Error.nil) = true) := by simp
                      rw [if_pos this]
                      exact ⟨_, wrap_ne_nil _ _, rfl⟩
                    · rw [if_neg hn8, readU64_eq, if_neg (by rw [hp']; exact hn8), catch_ok, bind_ok, if_neg hnil, hp']
                      rw [newLayout_eq fuel (by omega), bind_ok]
                      have hnp64 := BkHas.unle8_lt r2
                      generalize B.unle (r2.take 8) = np at hnp64 ⊢
                      have hnpn : (UInt64.ofNat np).toNat = np := by
                        rw [UInt64.toNat_ofNat']; exact Nat.mod_eq_of_lt hnp64
                      have hdr : buf.drop (p' + 8) = r2.drop 8 := by rw [← hp', List.drop_drop]
                      have hfu : (buf.length - (p' + 8)) / 10 + 1 < fuel := by
                        have : (buf.length - (p' + 8)) / 10 ≤ buf.length := Nat.le_trans (Nat.div_le_self _ _) (Nat.sub_le _ _)
                        omega
                      have hloop := table_loop fuel (UInt64.ofNat np) buf np fuel 0 (p' + 8) (Array.replicate 65536 none)
                        (List.replicate 65536 maxU) (by rw [hnpn]; omega) hfu tableRep_init (by simp)
                      rw [hdr] at hloop
                      have h0 : UInt64.ofNat 0 = (0 : UInt64) := rfl
                      rw [h0] at hloop
                      cases hpt : BK.parseTable np (r2.drop 8) (Array.replicate 65536 none) with
                      | none =>
                        rw [hpt] at hloop
                        obtain ⟨e, hne, he⟩ := hloop
                        simp only
                        rw [he, bind_ok]
                        exact ⟨e, hne, rfl⟩
                      | some t =>
                        rw [hpt] at hloop
                        obtain ⟨p2, T, hT, he⟩ := hloop
                        simp only
                        rw [he, bind_ok]
                        refine ⟨T, hT, ?_⟩
                        have hw : Go.wrap64 (((hs : Nat) : Int) + 4) = ((hs + 4 : Nat) : Int) := by
                          rw [Go.wrap64_id] <;> omega
                        simp only [hw]
                        rfl

/-! ### `isReaderEmpty`, `NewReader` -/

theorem isReaderEmpty_eq (l : List UInt8) :
    bkIsReaderEmpty (memRd l) = .ok (decide (l = []), Go.Error.nil) := by
  have hm : bkIsReaderEmpty (memRd l) =
      (if false = true then pure (false, Go.Error.other "reader is nil") else
       Go.makeOf (0 : UInt8) 1 >>= fun t1 =>
       let t2 := memRd l (Go.len t1) 0
       if (t2.2 != Go.Error.nil) = true then
         (if (Go.Error.is t2.2 Go.Error.eof || Go.Error.is t2.2 Go.Error.unexpectedEOF) = true then pure (true, Go.Error.nil)
          else pure (false, t2.2))
       else pure ((Go.len (t2.1 ++ t1.drop t2.1.length) == 0), Go.Error.nil)) := rfl
  rw [hm]
  have hmk : Go.makeOf (0 : UInt8) (1 : Int) = .ok (List.replicate 1 0) := by
    unfold Go.makeOf; rw [if_pos (by omega)]; rfl
  simp only [Bool.false_eq_true, if_false]
  rw [hmk, bind_ok]
  have hl1 : Go.len (List.replicate 1 (0 : UInt8)) = ((1 : Nat) : Int) := by unfold Go.len; simp
  simp only [hl1]
  cases l with
  | nil =>
    have he := memRd_at0_short [] 1 (by simp) (by omega)
    have : ((memRd [] ((1 : Nat) : Int) 0).2 != Go.Error.nil) = true := by rw [he]; simp
    rw [if_pos this, he]
    rfl
  | cons c r =>
    rw [memRd_at0_ok (c :: r) 1 (by simp) (by omega)]
    rfl

def newReaderM (fuel : Nat) (reader : Go.ReaderAt) : M (Bucketteer_Reader × Go.Error) :=
  bkIsReaderEmpty reader >>= fun t1 =>
  if (t1.2 != Go.Error.nil) = true then
    pure (Bucketteer_Reader.zero, Go.Error.wrap "failed to check if reader is empty: %w" t1.2) else
  if t1.1 = true then pure (Bucketteer_Reader.zero, Go.Error.other "reader is empty") else
  bkNewLayoutPtr fuel >>= fun _ =>
  bkReadHeader fuel reader >>= fun t3 =>
  if (t3.2.2.2 != Go.Error.nil) = true then
    pure (Bucketteer_Reader.zero, Go.Error.wrap "failed to read header: %w" t3.2.2.2) else
  pure ({ contentReader := Go.sectionReader reader t3.2.2.1 9223372036854775807, meta_ := t3.2.1, prefixToOffset := t3.1 },
    Go.Error.nil)

theorem newReader_unfold (fuel : Nat) (reader : Go.ReaderAt) : bkNewReader fuel reader = newReaderM fuel reader := rfl

/-- **tie**: `NewReader(reader)`, as translated from the source, over an in-memory reader: for every byte string below
    2^62 bytes it returns the Reader over the table, the metadata and the content section `readHeader` found
    (`hdrSpec`), or a non-nil error — never a panic -/
theorem gen_bkNewReader_eq_spec (l : List UInt8) (fuel : Nat) (hf : 800000 < fuel) (hl : l.length < 2 ^ 62) :
    match (if l = [] then none else hdrSpec l) with
    | some (t, m, hsz) => ∃ T, TableRep t T ∧ bkNewReader fuel (memRd l) =
        .ok ({ contentReader := Go.sectionReader (memRd l) (hsz : Int) 9223372036854775807, meta_ := ofKvs m, prefixToOffset := T },
          Go.Error.nil)
    | none => ∃ e, e ≠ Go.Error.nil ∧ bkNewReader fuel (memRd l) = .ok (Bucketteer_Reader.zero, e) := by
  rw [newReader_unfold]
  unfold newReaderM
  rw [isReaderEmpty_eq, bind_ok]
  have hnil : ¬ ((Go.Error.nil != Go.Error.nil) = true) := by simp
  rw [if_neg hnil]
  by_cases he : l = []
  · have : decide (l = []) = true := by simpa using he
    rw [if_pos he, if_pos this]
    exact ⟨_, (by intro h; cases h), rfl⟩
  · have : ¬ (decide (l = []) = true) := by simpa using he
    rw [if_neg he, if_neg this, newLayoutPtr_eq fuel (by omega), bind_ok]
    have hh := gen_bkReadHeader_eq_spec l fuel hf hl
    cases hsp : hdrSpec l with
    | none =>
      rw [hsp] at hh
      obtain ⟨e, hne, hee⟩ := hh
      rw [hee, bind_ok]
      have : ((hdrErr e).2.2.2 != Go.Error.nil) = true := by
        show (e != Go.Error.nil) = true
        simpa using hne
      rw [if_pos this]
      exact ⟨_, wrap_ne_nil _ _, rfl⟩
    | some q =>
      obtain ⟨t, m, hsz⟩ := q
      rw [hsp] at hh
      obtain ⟨T, hT, hee⟩ := hh
      rw [hee, bind_ok]
      simp only
      rw [if_neg hnil]
      exact ⟨T, hT, rfl⟩

end GoTies.BkOpen

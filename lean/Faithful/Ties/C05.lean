import Faithful.Generated.GoFns
import Faithful.Lib.Bucketteer
import Faithful.Ties.Basic
/-!
C05 ties: functions of package `bucketteer` translated from /repo's working tree on every run (`Generated.G.*`) compute
what the hand-written model `BK.*` says, for all inputs.
-/
namespace GoTies.C05
open Go Generated.G GoTies

/-- how the model's verdict of `searchB` reads as the Go result of `searchEytzinger` followed by `got == wanted`:
    `yes` = `(x, nil)`, `no` = `(0, ErrNotFound)`, `err` = the getter's error -/
def resToM (x : UInt64) (ioErr : Err) : BK.Res → M UInt64
  | .yes => .ok x
  | .no => .error (.err "ErrNotFound")
  | .err => .error ioErr

def resToLoop (x : UInt64) (ioErr : Err) : BK.Res → M (LoopRes UInt64 Int) → Prop
  | .yes, r => r = .ok (.ret x)
  | .no, r => ∃ i, r = .ok (.done i)
  | .err, r => r = .error ioErr

theorem orInt_step (n : Nat) (h : n < 2^62) : Go.orInt (Go.wrap64 ((n : Int) * 2)) 1 = ((2 * n + 1 : Nat) : Int) := by
  have h1 : Go.wrap64 ((n : Int) * 2) = 2 * (n : Int) := by
    rw [Go.wrap64_id] <;> omega
  rw [h1, Go.orInt_double_one _ (by omega)]
  omega

theorem bk_loop_eq (get : Nat → Option Nat) (x : UInt64) (max : Nat) (hmax : max < 2^62) (ioErr : Err)
    (getter : Int → M UInt64) (fuel0 : Nat)
    (hget : ∀ i : Nat, i < max → getter (i : Int) = match get i with | none => .error ioErr | some k => .ok (UInt64.ofNat k))
    (hr : ∀ i k, get i = some k → k < 2^64) :
    ∀ (fuel n : Nat), max < n + fuel → 0 < fuel →
      resToLoop x ioErr (BK.searchB get x.toNat max fuel n) (bkSearchEytzinger.loop1 fuel0 getter (max : Int) x fuel (n : Int)) := by
  intro fuel
  induction fuel with
  | zero => intro n h h0; omega
  | succ f ih =>
    intro n h _
    rw [BK.searchB, bkSearchEytzinger.loop1]
    by_cases hn : n < max
    · have hn' : (n : Int) < (max : Int) := by omega
      simp only [hn, hn', if_true, decide_true, Bool.not_true, Bool.false_eq_true, if_false]
      rw [hget n hn]
      cases hg : get n with
      | none => simp [resToLoop]
      | some k =>
        have hk := hr n k hg
        simp only [bind_ok]
        by_cases hx : k = x.toNat
        · have : UInt64.ofNat k = x := by rw [hx]; simp
          simp [hx, resToLoop]
        · have hne : ¬ UInt64.ofNat k = x := by
            intro hc; apply hx; rw [← hc]; simp [UInt64.toNat_ofNat', Nat.mod_eq_of_lt hk]
          simp only [hx, if_false, beq_iff_eq, hne]
          rw [orInt_step n (by omega)]
          by_cases hlt : k < x.toNat
          · have hlt' : UInt64.ofNat k < x := by
              rw [UInt64.lt_iff_toNat_lt]; simp [UInt64.toNat_ofNat', Nat.mod_eq_of_lt hk]; exact hlt
            simp only [hlt, hlt', if_true, decide_true]
            have hw : Go.wrap64 (((2 * n + 1 : Nat) : Int) + 1) = ((2 * n + 2 : Nat) : Int) := by
              rw [Go.wrap64_id] <;> omega
            rw [hw]
            exact ih (2*n+2) (by omega) (by omega)
          · have hlt' : ¬ UInt64.ofNat k < x := by
              rw [UInt64.lt_iff_toNat_lt]; simp [UInt64.toNat_ofNat', Nat.mod_eq_of_lt hk]; omega
            simp only [hlt, hlt', if_false, decide_false, Bool.false_eq_true]
            exact ih (2*n+1) (by omega) (by omega)
    · have hn' : ¬ (n : Int) < (max : Int) := by omega
      simp only [hn, hn', if_false, decide_false, Bool.not_false, if_true, resToLoop]
      exact ⟨_, rfl⟩

/-- **tie**: bucketteer's `searchEytzinger(0, max, x, getter)` as translated from the source answers exactly what the
    model's `searchB` answers — for every getter (failing reads included), every bucket size below 2^62 and every wanted
    hash — and `max + 1` units of fuel suffice. -/
theorem gen_bkSearchEytzinger_eq_model (get : Nat → Option Nat) (x : UInt64) (max : Nat) (hmax : max < 2^62) (ioErr : Err)
    (getter : Int → M UInt64)
    (hget : ∀ i : Nat, i < max → getter (i : Int) = match get i with | none => .error ioErr | some k => .ok (UInt64.ofNat k))
    (hr : ∀ i k, get i = some k → k < 2^64) :
    bkSearchEytzinger (max + 1) 0 (max : Int) x getter = resToM x ioErr (BK.searchB get x.toNat max (max + 1) 0) := by
  have h := bk_loop_eq get x max hmax ioErr getter (max + 1) hget hr (max + 1) 0 (by omega) (by omega)
  unfold bkSearchEytzinger
  simp only [Int.natCast_zero] at h
  cases hs : BK.searchB get x.toNat max (max + 1) 0 with
  | yes => rw [hs] at h; simp only [resToLoop] at h; simp [h, resToM]
  | no =>
    rw [hs] at h; simp only [resToLoop] at h
    obtain ⟨i, h⟩ := h
    simp [h, resToM, throw, throwThe, MonadExceptOf.throw]
  | err => rw [hs] at h; simp only [resToLoop] at h; simp [h, resToM]

/-! ### the same for the deprecated (version 1) reader -/

theorem bk1_loop_eq (get : Nat → Option Nat) (x : UInt64) (max : Nat) (hmax : max < 2^62) (ioErr : Err)
    (getter : Int → M UInt64) (fuel0 : Nat)
    (hget : ∀ i : Nat, i < max → getter (i : Int) = match get i with | none => .error ioErr | some k => .ok (UInt64.ofNat k))
    (hr : ∀ i k, get i = some k → k < 2^64) :
    ∀ (fuel n : Nat), max < n + fuel → 0 < fuel →
      resToLoop x ioErr (BK.searchB get x.toNat max fuel n) (bk1SearchEytzinger.loop1 fuel0 getter (max : Int) x fuel (n : Int)) := by
  intro fuel
  induction fuel with
  | zero => intro n h h0; omega
  | succ f ih =>
    intro n h _
    rw [BK.searchB, bk1SearchEytzinger.loop1]
    by_cases hn : n < max
    · have hn' : (n : Int) < (max : Int) := by omega
      simp only [hn, hn', if_true, decide_true, Bool.not_true, Bool.false_eq_true, if_false]
      rw [hget n hn]
      cases hg : get n with
      | none => simp [resToLoop]
      | some k =>
        have hk := hr n k hg
        simp only [bind_ok]
        by_cases hx : k = x.toNat
        · have : UInt64.ofNat k = x := by rw [hx]; simp
          simp [hx, resToLoop]
        · have hne : ¬ UInt64.ofNat k = x := by
            intro hc; apply hx; rw [← hc]; simp [UInt64.toNat_ofNat', Nat.mod_eq_of_lt hk]
          simp only [hx, if_false, beq_iff_eq, hne]
          rw [orInt_step n (by omega)]
          by_cases hlt : k < x.toNat
          · have hlt' : UInt64.ofNat k < x := by
              rw [UInt64.lt_iff_toNat_lt]; simp [UInt64.toNat_ofNat', Nat.mod_eq_of_lt hk]; exact hlt
            simp only [hlt, hlt', if_true, decide_true]
            have hw : Go.wrap64 (((2 * n + 1 : Nat) : Int) + 1) = ((2 * n + 2 : Nat) : Int) := by
              rw [Go.wrap64_id] <;> omega
            rw [hw]
            exact ih (2*n+2) (by omega) (by omega)
          · have hlt' : ¬ UInt64.ofNat k < x := by
              rw [UInt64.lt_iff_toNat_lt]; simp [UInt64.toNat_ofNat', Nat.mod_eq_of_lt hk]; omega
            simp only [hlt, hlt', if_false, decide_false, Bool.false_eq_true]
            exact ih (2*n+1) (by omega) (by omega)
    · have hn' : ¬ (n : Int) < (max : Int) := by omega
      simp only [hn, hn', if_false, decide_false, Bool.not_false, if_true, resToLoop]
      exact ⟨_, rfl⟩

/-- **tie** (deprecated/bucketteer, the version-1 format): `searchEytzinger(0, max, x, getter)` as translated from the source answers exactly what the
    model's `searchB` answers — for every getter (failing reads included), every bucket size below 2^62 and every wanted
    hash — and `max + 1` units of fuel suffice. -/
theorem gen_bk1SearchEytzinger_eq_model (get : Nat → Option Nat) (x : UInt64) (max : Nat) (hmax : max < 2^62) (ioErr : Err)
    (getter : Int → M UInt64)
    (hget : ∀ i : Nat, i < max → getter (i : Int) = match get i with | none => .error ioErr | some k => .ok (UInt64.ofNat k))
    (hr : ∀ i k, get i = some k → k < 2^64) :
    bk1SearchEytzinger (max + 1) 0 (max : Int) x getter = resToM x ioErr (BK.searchB get x.toNat max (max + 1) 0) := by
  have h := bk1_loop_eq get x max hmax ioErr getter (max + 1) hget hr (max + 1) 0 (by omega) (by omega)
  unfold bk1SearchEytzinger
  simp only [Int.natCast_zero] at h
  cases hs : BK.searchB get x.toNat max (max + 1) 0 with
  | yes => rw [hs] at h; simp only [resToLoop] at h; simp [h, resToM]
  | no =>
    rw [hs] at h; simp only [resToLoop] at h
    obtain ⟨i, h⟩ := h
    simp [h, resToM, throw, throwThe, MonadExceptOf.throw]
  | err => rw [hs] at h; simp only [resToLoop] at h; simp [h, resToM]

/-! ### prefixToUint16 / uint16ToPrefix (read.go) = `BK.prefixOf` -/

/-- **tie**: the bucket number of a signature is `sig[0] + 256·sig[1]` -/
theorem gen_bkPrefixToUint16_eq_model (a b : UInt8) : bkPrefixToUint16 [a, b] = .ok (UInt16.ofNat (BK.prefixOf [a, b])) := by
  unfold bkPrefixToUint16 BK.prefixOf
  simp [Go.leU16, Go.leDecode]

theorem gen_bkUint16ToPrefix_eq_model (n : UInt16) : bkUint16ToPrefix n = .ok (B.le 2 n.toNat) := by
  unfold bkUint16ToPrefix
  simp [Go.putLeU16, leEncode_eq_le]

/-- the two conversions are inverse to each other -/
theorem gen_prefix_roundtrip (n : UInt16) : (bkUint16ToPrefix n >>= bkPrefixToUint16) = .ok n := by
  rw [gen_bkUint16ToPrefix_eq_model]
  simp only [bind_ok]
  unfold bkPrefixToUint16
  simp only [Go.leU16, B.le, List.length_cons, List.length_nil, Nat.reduceAdd, Nat.le_refl, if_true, pure_eq_ok, bind_ok,
    List.take, Go.leDecode]
  congr 1
  apply UInt16.toNat_inj.mp
  have := n.toNat_lt
  simp [UInt16.toNat_ofNat', UInt8.toNat_ofNat']
  omega

example : bkSearchEytzinger 4 0 3 7 (fun i => if i = 0 then .ok 5 else if i = 2 then .ok 7 else .error (.err "io")) = .ok 7 := by rfl
example : bkPrefixToUint16 [0x34, 0x12] = .ok 0x1234 := by rfl

end GoTies.C05

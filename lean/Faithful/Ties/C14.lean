import Faithful.Generated.GoFns
import Faithful.Lib.Frames
import Faithful.Ties.Basic
/-!
C14 tie: `ipldbindcode.VerifyHash`, as translated from the source (the two standard-library checksums are parameters),
is the model's `Frames.verifyHash`: nil exactly when the CRC-64 **or** the legacy FNV-1a of the buffer equals the recorded
hash, the error "data hash mismatch" otherwise — for every buffer, every recorded hash and every pair of checksum functions.
-/
namespace GoTies.C14
open Go Generated.G

/-- the model's pair of checksums read off the two `uint64` functions the translated code is parameterised by -/
def hashesOf (crc fnv : List UInt8 → UInt64) : Frames.Hashes := { crc := fun b => (crc b).toNat, fnv := fun b => (fnv b).toNat }

theorem gen_verifyHash_eq_model (crc fnv : List UInt8 → UInt64) (data : List UInt8) (hash : UInt64) :
    framesVerifyHash crc fnv data hash =
      .ok (if Frames.verifyHash (hashesOf crc fnv) data hash.toNat then Go.Error.nil else Go.Error.other "data hash mismatch") := by
  unfold framesVerifyHash Frames.verifyHash hashesOf
  have e1 : ((crc data).toNat == hash.toNat) = (crc data == hash) := by
    rw [Bool.eq_iff_iff]; simp [← UInt64.toNat_inj]
  have e2 : ((fnv data).toNat == hash.toNat) = (fnv data == hash) := by
    rw [Bool.eq_iff_iff]; simp [← UInt64.toNat_inj]
  simp only [e1, e2]
  by_cases h1 : crc data = hash
  · simp [h1]
  · by_cases h2 : fnv data = hash
    · simp [h1, h2]
    · simp [h1, h2]

/-- `VerifyHash` never panics and its only error is the mismatch -/
theorem gen_verifyHash_total (crc fnv : List UInt8 → UInt64) (data : List UInt8) (hash : UInt64) :
    ∃ e, framesVerifyHash crc fnv data hash = .ok e ∧ (e = Go.Error.nil ↔ (crc data = hash ∨ fnv data = hash)) := by
  rw [gen_verifyHash_eq_model]
  refine ⟨_, rfl, ?_⟩
  unfold Frames.verifyHash hashesOf
  by_cases h1 : crc data = hash
  · simp [h1]
  · by_cases h2 : fnv data = hash
    · simp [h2]
    · have n1 : ¬ ((crc data).toNat = hash.toNat) := fun h => h1 (UInt64.toNat_inj.mp h)
      have n2 : ¬ ((fnv data).toNat = hash.toNat) := fun h => h2 (UInt64.toNat_inj.mp h)
      simp [h1, h2, n1, n2]

end GoTies.C14

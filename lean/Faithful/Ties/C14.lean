import Faithful.Generated.GoFns
import Faithful.Lib.Frames
import Faithful.Ties.Basic
/-!
C14 tie: `ipldbindcode.VerifyHash`, as translated from the source (the two standard-library checksums are parameters),
is the model's `Frames.verifyHash`: nil exactly when the CRC-64 **or** the legacy FNV-1a of the buffer equals the recorded
hash, the error "data hash mismatch" otherwise — for every buffer, every recorded hash and every pair of checksum functions.
-/
namespace GoTies.C14
open Go Generated.G

/-- the model's pair of checksums read off the two `uint64` functions the translated code is parameterised by -/
def hashesOf (crc fnv : List UInt8 → UInt64) : Frames.Hashes := { crc := fun b => (crc b).toNat, fnv := fun b => (fnv b).toNat }

theorem gen_verifyHash_eq_model (crc fnv : List UInt8 → UInt64) (data : List UInt8) (hash : UInt64) :
    framesVerifyHash crc fnv data hash =
      .ok (if Frames.verifyHash (hashesOf crc fnv) data hash.toNat then Go.Error.nil else Go.Error.other "data hash mismatch") := by
  unfold framesVerifyHash Frames.verifyHash hashesOf
  have e1 : ((crc data).toNat == hash.toNat) = (crc data == hash) := by
    rw [Bool.eq_iff_iff]; simp [← UInt64.toNat_inj]
  have e2 : ((fnv data).toNat == hash.toNat) = (fnv data == hash) := by
    rw [Bool.eq_iff_iff]; simp [← UInt64.toNat_inj]
  simp only [e1, e2]
  by_cases h1 : crc data = hash
  · simp [h1]
  · by_cases h2 : fnv data = hash
    · simp [h1, h2]
    · simp [h1, h2]

/-- `VerifyHash` never panics and its only error is the mismatch -/
theorem gen_verifyHash_total (crc fnv : List UInt8 → UInt64) (data : List UInt8) (hash : UInt64) :
    ∃ e, framesVerifyHash crc fnv data hash = .ok e ∧ (e = Go.Error.nil ↔ (crc data = hash ∨ fnv data = hash)) := by
  rw [gen_verifyHash_eq_model]
  refine ⟨_, rfl, ?_⟩
  unfold Frames.verifyHash hashesOf
  by_cases h1 : crc data = hash
  · simp [h1]
  · by_cases h2 : fnv data = hash
    · simp [h2]
    · have n1 : ¬ ((crc data).toNat = hash.toNat) := fun h => h1 (UInt64.toNat_inj.mp h)
      have n2 : ¬ ((fnv data).toNat = hash.toNat) := fun h => h2 (UInt64.toNat_inj.mp h)
      simp [h1, h2, n1, n2]

/-! ### the optional fields of a `DataFrame` (`**int` in Go: absent = nil or pointer to nil) -/

/-- the model's `Frame.index / total / hash : Option _` is the Go `**int` with both kinds of absence identified -/
def flat {α : Type} (p : Option (Option α)) : Option α := p.join

theorem gen_getIndex (n : Ipldbindcode_DataFrame) :
    framesGetIndex n = .ok (match flat n.Index with | some v => (v, true) | none => (0, false)) := by
  unfold framesGetIndex flat
  cases h : n.Index with
  | none => rfl
  | some q => cases q <;> rfl

theorem gen_getTotal (n : Ipldbindcode_DataFrame) :
    framesGetTotal n = .ok (match flat n.Total with | some v => (v, true) | none => (0, false)) := by
  unfold framesGetTotal flat
  cases h : n.Total with
  | none => rfl
  | some q => cases q <;> rfl

theorem gen_getHash (n : Ipldbindcode_DataFrame) :
    framesGetHash n = .ok (match flat n.Hash with | some v => (Go.u64OfInt v, true) | none => (0, false)) := by
  unfold framesGetHash flat
  cases h : n.Hash with
  | none => rfl
  | some q => cases q <;> rfl

theorem gen_hasIndex (n : Ipldbindcode_DataFrame) : framesHasIndex n = .ok (flat n.Index).isSome := by
  unfold framesHasIndex flat
  cases h : n.Index with
  | none => rfl
  | some q => cases q <;> rfl

theorem gen_hasTotal (n : Ipldbindcode_DataFrame) : framesHasTotal n = .ok (flat n.Total).isSome := by
  unfold framesHasTotal flat
  cases h : n.Total with
  | none => rfl
  | some q => cases q <;> rfl

theorem gen_hasHash (n : Ipldbindcode_DataFrame) : framesHasHash n = .ok (flat n.Hash).isSome := by
  unfold framesHasHash flat
  cases h : n.Hash with
  | none => rfl
  | some q => cases q <;> rfl

/-- the accessors never dereference a nil pointer, and `GetX` reports presence exactly when `HasX` does -/
theorem gen_get_has_agree (n : Ipldbindcode_DataFrame) :
    (∃ v, framesGetIndex n = .ok (v, (flat n.Index).isSome) ∧ framesHasIndex n = .ok (flat n.Index).isSome) ∧
    (∃ v, framesGetTotal n = .ok (v, (flat n.Total).isSome) ∧ framesHasTotal n = .ok (flat n.Total).isSome) ∧
    (∃ v, framesGetHash n = .ok (v, (flat n.Hash).isSome) ∧ framesHasHash n = .ok (flat n.Hash).isSome) := by
  rw [gen_getIndex, gen_getTotal, gen_getHash, gen_hasIndex, gen_hasTotal, gen_hasHash]
  refine ⟨?_, ?_, ?_⟩
  · cases flat n.Index <;> exact ⟨_, rfl, rfl⟩
  · cases flat n.Total <;> exact ⟨_, rfl, rfl⟩
  · cases flat n.Hash <;> exact ⟨_, rfl, rfl⟩

/-- the comparator of `sort.Slice` in `getAllFramesFromDataFrame` (`if !iOk || !jOk { return iOk }; return iIndex < jIndex`),
    evaluated with the translated `GetIndex`, is the model's `Frames.less` on the flattened index fields -/
def toFrame (n : Ipldbindcode_DataFrame) (next : List Frames.Cid) : Frames.Frame :=
  { index := flat n.Index, total := flat n.Total, hash := (flat n.Hash).map (fun v => (Go.u64OfInt v).toNat), data := n.Data, next := next }

theorem gen_getIndex_less (a b : Ipldbindcode_DataFrame) (na nb : List Frames.Cid) :
    (do let i ← framesGetIndex a
        let j ← framesGetIndex b
        pure (if !i.2 || !j.2 then i.2 else decide (i.1 < j.1)) : Go.M Bool)
      = .ok (Frames.less (toFrame a na) (toFrame b nb)) := by
  rw [gen_getIndex, gen_getIndex]
  unfold Frames.less toFrame
  cases flat a.Index <;> cases flat b.Index <;> rfl

end GoTies.C14

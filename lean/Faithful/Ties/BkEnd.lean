import Faithful.Generated.GoFns
import Faithful.Lib.Bucketteer
import Faithful.Ties.Basic
import Faithful.Ties.C05
import Faithful.Ties.BkHas
import Faithful.Ties.BkOpen
import Faithful.Properties.C05
/-!
C05 end to end, on the code in the tree: for every byte string, if `bucketteer.NewReader` succeeds then every
`Has(sig)` on the Reader it returned is `hasSpec` over the content of the file behind the header `readHeader` found.
`Has` is first shown to depend on its content reader only through reads of at most 8 bytes at non-negative offsets
(`Agree`), then the section reader `NewReader` builds over the stream is shown to agree with the in-memory reader of the
content.
-/
namespace GoTies.BkEnd
open Go Generated.G GoTies GoTies.C05 GoTies.BkHas GoTies.BkOpen

/-- `cr` reads like the in-memory reader of `c`: the same answer for short reads at non-negative offsets, some error at
    negative ones -/
def Agree (cr : Go.ReaderAt) (c : List UInt8) : Prop :=
  (∀ (n : Int) (k : Nat), 0 ≤ n → n < 2 ^ 62 → cr n (k : Int) = memRd c n (k : Int)) ∧
  (∀ (n : Int) (o : Int), o < 0 → (cr n o).2 ≠ Go.Error.nil)

theorem agree_self (c : List UInt8) : Agree (memRd c) c := by
  refine ⟨fun _ _ _ _ => rfl, ?_⟩
  intro n o ho
  unfold memRd
  rw [if_pos ho]
  intro h; cases h

/-- a section of an agreeing reader, asked for entry `i`, answers what the section of the in-memory reader answers -/
theorem section_agree (cr : Go.ReaderAt) (c : List UInt8) (hA : Agree cr c) (base n i : Nat) (hb : base + n < 2 ^ 62) (hi : i < 2 ^ 40) :
    Go.sectionReader cr (base : Int) (n : Int) 8 ((i * 8 : Nat) : Int) =
      Go.sectionReader (memRd c) (base : Int) (n : Int) 8 ((i * 8 : Nat) : Int) := by
  unfold Go.sectionReader
  have hlim : ((base : Int) ≤ 9223372036854775807 - (n : Int)) := by omega
  simp only [hlim, if_true]
  by_cases h1 : (((i * 8 : Nat) : Int) < 0) ∨ (((i * 8 : Nat) : Int) ≥ (base : Int) + (n : Int) - (base : Int))
  · rw [if_pos h1, if_pos h1]
  · rw [if_neg h1, if_neg h1]
    have he : (((i * 8 : Nat) : Int) + (base : Int)) = ((i * 8 + base : Nat) : Int) := by omega
    rw [he]
    by_cases h2 : ((8 : Int) > (base : Int) + (n : Int) - ((i * 8 + base : Nat) : Int))
    · rw [if_pos h2, if_pos h2, hA.1 _ (i * 8 + base) (by omega) (by omega)]
    · rw [if_neg h2, if_neg h2, hA.1 8 (i * 8 + base) (by omega) (by omega)]

theorem getterOf_agree (cr : Go.ReaderAt) (c : List UInt8) (hA : Agree cr c) (base n i : Nat) (hb : base + n < 2 ^ 62) (hi : i < 2 ^ 40) :
    getterOf (Go.sectionReader cr (base : Int) (n : Int)) (i : Int) =
      getterOf (Go.sectionReader (memRd c) (base : Int) (n : Int)) (i : Int) := by
  unfold getterOf
  have hw : Go.wrap64 ((i : Int) * 8) = ((i * 8 : Nat) : Int) := by
    rw [Go.wrap64_id] <;> omega
  rw [hw, BkHas.readU64_eq, BkHas.readU64_eq, section_agree cr c hA base n i hb hi]

theorem gen_bkReaderHas_agree (xx : List UInt8 → UInt64) (cr : Go.ReaderAt) (c : List UInt8) (table : List UInt64) (m : Indexmeta_Meta)
    (a b : UInt8) (rest : List UInt8) (fuel : Nat) (hA : Agree cr c)
    (htab : table.length = 65536) (hc : c.length < 2 ^ 61) (hf : 2 ^ 32 ≤ fuel) :
    match hasSpec c table (BK.prefixOf [a, b]) (xx (a :: b :: rest)).toNat fuel with
    | .yes => bkReaderHas xx fuel { contentReader := cr, meta_ := m, prefixToOffset := table } (a :: b :: rest) = .ok (true, Go.Error.nil)
    | .no => bkReaderHas xx fuel { contentReader := cr, meta_ := m, prefixToOffset := table } (a :: b :: rest) = .ok (false, Go.Error.nil)
    | .err => ∃ e, e ≠ Go.Error.nil ∧
        bkReaderHas xx fuel { contentReader := cr, meta_ := m, prefixToOffset := table } (a :: b :: rest) = .ok (false, e) := by
  rw [has_unfold]
  unfold hasM hasSpec
  have i0 : Go.idx (a :: b :: rest) 0 = .ok a := by
    unfold Go.idx; rw [if_pos (by simp; omega)]; rfl
  have i1 : Go.idx (a :: b :: rest) 1 = .ok b := by
    unfold Go.idx; rw [if_pos (by simp; omega)]; rfl
  simp only [i0, i1, bind_ok, gen_bkPrefixToUint16_eq_model]
  have hp : BK.prefixOf [a, b] < 65536 := by
    unfold BK.prefixOf; have := a.toNat_lt; have := b.toNat_lt; simp; omega
  generalize BK.prefixOf [a, b] = p at hp ⊢
  have hpn : (UInt16.ofNat p).toNat = p := by rw [UInt16.toNat_ofNat']; exact Nat.mod_eq_of_lt hp
  have it : Go.idx table ((UInt16.ofNat p).toNat : Int) = .ok (table.getD p 0) := by
    unfold Go.idx; rw [hpn, if_pos (by omega)]; rfl
  simp only [it, bind_ok]
  generalize table.getD p 0 = offset
  by_cases hmax : offset.toNat = 2 ^ 64 - 1
  · have : (offset == (18446744073709551615 : UInt64)) = true := by
      rw [beq_iff_eq, ← UInt64.toNat_inj, hmax]; rfl
    simp only [hmax, if_true, this]
    rfl
  · have hne : ¬ ((offset == (18446744073709551615 : UInt64)) = true) := by
      rw [beq_iff_eq, ← UInt64.toNat_inj]; intro h; apply hmax; rw [h]; rfl
    simp only [hmax, if_false, hne]
    have hmk : Go.makeOf (0 : UInt8) (4 : Int) = .ok (List.replicate 4 0) := by
      unfold Go.makeOf; rw [if_pos (by omega)]; rfl
    simp only [hmk, bind_ok]
    have hl4 : Go.len (List.replicate 4 (0 : UInt8)) = 4 := by unfold Go.len; simp
    rw [hl4]
    by_cases hneg : offset.toNat ≥ 2 ^ 63
    · -- int64(offset) is negative: the in-memory reader refuses the offset
      have hio : Go.intOfU64 offset < 0 := by
        unfold Go.intOfU64 Go.wrap64; have := offset.toNat_lt; omega
      have hne' := hA.2 4 (Go.intOfU64 offset) hio
      simp only [hneg, if_true]
      refine ⟨(cr 4 (Go.intOfU64 offset)).2, hne', ?_⟩
      have : (((cr 4 (Go.intOfU64 offset)).2 != Go.Error.nil) = true) := by simpa using hne'
      simp only [this, if_true]
      rfl
    · have hio : Go.intOfU64 offset = (offset.toNat : Int) := by
        unfold Go.intOfU64; rw [Go.wrap64_id] <;> omega
      have hcr4 : cr 4 ((offset.toNat : Nat) : Int) = memRd c 4 ((offset.toNat : Nat) : Int) := hA.1 4 offset.toNat (by omega) (by omega)
      simp only [hneg, if_false, hio, hcr4, memRd4]
      generalize offset.toNat = off at hneg hmax ⊢
      by_cases hshort : off + 4 > c.length
      · have h4 : ¬ (off + 4 ≤ c.length) := by omega
        simp only [hshort, if_true, h4, if_false]
        refine ⟨Go.Error.eof, (by intro h; cases h), ?_⟩
        have : ((Go.Error.eof != Go.Error.nil) = true) := by decide
        simp only [this, if_true]
        rfl
      · have h4 : off + 4 ≤ c.length := by omega
        simp only [hshort, if_false, h4, if_true]
        have hnil : ¬ ((Go.Error.nil != Go.Error.nil) = true) := by decide
        simp only [hnil]
        have hlen : ((c.drop off).take 4).length = 4 := by simp; omega
        have hle : Go.leU32 ((c.drop off).take 4 ++ (List.replicate 4 (0 : UInt8)).drop ((c.drop off).take 4).length)
            = .ok (UInt32.ofNat (B.unle ((c.drop off).take 4))) := by
          rw [hlen]
          unfold Go.leU32
          simp only [List.drop_replicate, Nat.sub_self, List.replicate_zero, List.append_nil]
          rw [if_pos (by omega), leDecode_eq_unle, List.take_take]; rfl
        rw [hle, bind_ok]
        have hnb : B.unle ((c.drop off).take 4) < 2 ^ 32 := unle4_lt (c.drop off)
        generalize B.unle ((c.drop off).take 4) = nb at hnb ⊢
        have hh : bkHash xx (a :: b :: rest) = .ok (xx (a :: b :: rest)) := rfl
        rw [hh, bind_ok]
        generalize xx (a :: b :: rest) = x
        have hnbn : (UInt32.ofNat nb).toNat = nb := by rw [UInt32.toNat_ofNat']; exact Nat.mod_eq_of_lt hnb
        have hmul : ((UInt32.ofNat nb * 8).toNat : Int) = (((nb * 8) % 2 ^ 32 : Nat) : Int) := by
          rw [UInt32.toNat_mul, hnbn]; rfl
        have hbase : Go.wrap64 ((off : Int) + 4) = ((off + 4 : Nat) : Int) := by
          rw [Go.wrap64_id] <;> omega
        rw [hnbn, hmul, hbase]
        have hn32 : (nb * 8) % 2 ^ 32 < 2 ^ 32 := Nat.mod_lt _ (by decide)
        have hs := search_eq (getSpec c (off + 4) ((nb * 8) % 2 ^ 32)) x nb (bound62b nb hnb) (.err "EOF")
          (getterOf (Go.sectionReader cr ((off + 4 : Nat) : Int) (((nb * 8) % 2 ^ 32 : Nat) : Int))) fuel (boundf nb fuel hnb hf)
          (fun i hi => by
            rw [getterOf_agree cr c hA (off + 4) ((nb * 8) % 2 ^ 32) i (bound62 off _ c.length h4 hc hn32) (bound40 i nb hi hnb)]
            exact getter_eq c (off + 4) ((nb * 8) % 2 ^ 32) i (bound62 off _ c.length h4 hc hn32) (bound40 i nb hi hnb))
          (by
            intro i k hk
            unfold getSpec at hk
            split at hk
            · split at hk
              · simp only [Option.some.injEq] at hk
                rw [← hk]
                exact unle8_lt (c.drop (off + 4 + i * 8))
              · cases hk
            · cases hk)
        rw [hs]
        cases hres : BK.searchB (getSpec c (off + 4) ((nb * 8) % 2 ^ 32)) x.toNat nb fuel 0 with
        | yes =>
          simp only [resToM, Go.catchErr, bind_ok, pure_eq_ok]
          simp only [hnil, beq_self_eq_true]
          rfl
        | no =>
          simp only [resToM, Go.catchErr, bind_ok, pure_eq_ok]
          have h1 : ((Go.Error.other "ErrNotFound" != Go.Error.nil) = true) := by simp
          have h2 : (Go.Error.is (Go.Error.other "ErrNotFound") (Go.Error.other "ErrNotFound")) = true := by
            unfold Go.Error.is; simp
          simp only [h1, if_true, h2]
          rfl
        | err =>
          simp only [resToM, Go.catchErr, bind_ok, pure_eq_ok]
          refine ⟨Go.Error.other "EOF", (by intro h; cases h), ?_⟩
          have h1 : ((Go.Error.other "EOF" != Go.Error.nil) = true) := by simp
          have h2 : ¬ ((Go.Error.is (Go.Error.other "EOF") (Go.Error.other "ErrNotFound")) = true) := by
            unfold Go.Error.is; simp
          simp only [h1, if_true, h2]
          rfl


theorem memRd_nat (c : List UInt8) (n : Int) (k : Nat) :
    memRd c n (k : Int) = if k ≥ c.length then ([], Go.Error.eof)
      else ((c.drop k).take n.toNat, if c.length - k < n.toNat then Go.Error.eof else Go.Error.nil) := by
  unfold memRd
  have hk0 : ¬ ((k : Int) < 0) := by omega
  rw [if_neg hk0, Int.toNat_natCast]

/-- the content section `NewReader` builds over the stream reads like the in-memory reader of the bytes behind the header -/
theorem section_content_agree (l : List UInt8) (hsz : Nat) (h0 : 0 < hsz) (hle : hsz ≤ l.length) (hl : l.length < 2 ^ 62) :
    Agree (Go.sectionReader (memRd l) (hsz : Int) 9223372036854775807) (l.drop hsz) := by
  constructor
  · intro n k hn0 hn
    unfold Go.sectionReader
    have hlim : ¬ ((hsz : Int) ≤ 9223372036854775807 - 9223372036854775807) := by omega
    simp only [hlim, if_false]
    have hdl : (l.drop hsz).length = l.length - hsz := List.length_drop ..
    rw [memRd_nat (l.drop hsz) n k, hdl]
    by_cases h1 : ((k : Int) < 0) ∨ ((k : Int) ≥ 9223372036854775807 - (hsz : Int))
    · rw [if_pos h1]
      have hkb : k ≥ l.length - hsz := by omega
      rw [if_pos hkb]
    · rw [if_neg h1]
      have he : ((k : Int) + (hsz : Int)) = ((k + hsz : Nat) : Int) := by omega
      rw [he]
      by_cases h2 : n > 9223372036854775807 - ((k + hsz : Nat) : Int)
      · rw [if_pos h2, memRd_nat l _ (k + hsz)]
        have hbig : k + hsz ≥ l.length := by omega
        have hkb : k ≥ l.length - hsz := by omega
        rw [if_pos hbig, if_pos hkb]
        rfl
      · rw [if_neg h2, memRd_nat l n (k + hsz)]
        by_cases hge : k + hsz ≥ l.length
        · have hkb : k ≥ l.length - hsz := by omega
          rw [if_pos hge, if_pos hkb]
        · have hkb : ¬ (k ≥ l.length - hsz) := by omega
          rw [if_neg hge, if_neg hkb]
          have hdd : (l.drop hsz).drop k = l.drop (k + hsz) := by rw [List.drop_drop, Nat.add_comm]
          have hsub : l.length - hsz - k = l.length - (k + hsz) := by omega
          rw [hdd, hsub]
  · intro n o ho
    unfold Go.sectionReader
    have hlim : ¬ ((hsz : Int) ≤ 9223372036854775807 - 9223372036854775807) := by omega
    simp only [hlim, if_false]
    rw [if_pos (Or.inl ho)]
    intro h; cases h

theorem hdrSpec_some (l : List UInt8) (t : Array (Option Nat)) (m : BK.MetaKVs) (hsz : Nat)
    (h : hdrSpec l = some (t, m, hsz)) : 4 ≤ hsz ∧ hsz ≤ l.length := by
  unfold hdrSpec at h
  split at h
  · cases h
  · split at h
    · cases h
    · split at h
      · cases h
      · split at h
        · cases h
        · split at h
          · cases h
          · split at h
            · cases h
            · split at h
              · cases h
              · split at h
                · cases h
                · split at h
                  · cases h
                  · split at h
                    · cases h
                    · simp only [Option.some.injEq, Prod.mk.injEq] at h
                      obtain ⟨_, _, h3⟩ := h
                      omega

/-- **end to end, on the code in the tree**: for every byte string, if `NewReader` succeeds then every `Has(sig)` on the
    Reader it returned is `hasSpec` over the content behind the header (`true` / `false` / an error, never a panic), for
    every signature and every hash function -/
theorem gen_newReader_then_has (xx : List UInt8 → UInt64) (l : List UInt8) (fuel : Nat) (hf : 2 ^ 32 ≤ fuel)
    (hl : l.length < 2 ^ 61) (r : Bucketteer_Reader) (hopen : bkNewReader fuel (memRd l) = .ok (r, Go.Error.nil))
    (a b : UInt8) (rest : List UInt8) :
    ∃ hsz, 4 ≤ hsz ∧ hsz ≤ l.length ∧
      match hasSpec (l.drop hsz) r.prefixToOffset (BK.prefixOf [a, b]) (xx (a :: b :: rest)).toNat fuel with
      | .yes => bkReaderHas xx fuel r (a :: b :: rest) = .ok (true, Go.Error.nil)
      | .no => bkReaderHas xx fuel r (a :: b :: rest) = .ok (false, Go.Error.nil)
      | .err => ∃ e, e ≠ Go.Error.nil ∧ bkReaderHas xx fuel r (a :: b :: rest) = .ok (false, e) := by
  have hspec := gen_bkNewReader_eq_spec l fuel (by omega) (by omega)
  by_cases hne : l = []
  · rw [if_pos hne] at hspec
    obtain ⟨e, hne', he⟩ := hspec
    rw [he] at hopen
    simp only [Except.ok.injEq, Prod.mk.injEq] at hopen
    exact absurd hopen.2 hne'
  · rw [if_neg hne] at hspec
    cases hs : hdrSpec l with
    | none =>
      rw [hs] at hspec
      obtain ⟨e, hne', he⟩ := hspec
      rw [he] at hopen
      simp only [Except.ok.injEq, Prod.mk.injEq] at hopen
      exact absurd hopen.2 hne'
    | some q =>
      obtain ⟨t, m, hsz⟩ := q
      rw [hs] at hspec
      obtain ⟨T, hT, he⟩ := hspec
      rw [he] at hopen
      simp only [Except.ok.injEq, Prod.mk.injEq, and_true] at hopen
      subst hopen
      obtain ⟨h4, hle⟩ := hdrSpec_some l t m hsz hs
      refine ⟨hsz, h4, hle, ?_⟩
      have hA := section_content_agree l hsz (by omega) hle (by omega)
      exact gen_bkReaderHas_agree xx _ (l.drop hsz) T (C10.ofKvs m) a b rest fuel hA hT.1
        (by rw [List.length_drop]; omega) hf

/-! ### `hdrSpec` is the header part of the model's `BK.openB` -/

/-- for a non-empty file whose size field does not exceed the largest header the format can express, `hdrSpec` = the
    model's `openB .v2` (table, metadata, content offset) -/
theorem hdrSpec_eq_openB (l : List UInt8) (hne : l ≠ []) (hmax : 4 ≤ l.length → B.unle (l.take 4) ≤ 785945) :
    hdrSpec l = (BK.openB .v2 l.toArray).map (fun r => (r.table, r.metaKVs, r.base)) := by
  unfold hdrSpec BK.openB
  have hpos : 0 < l.length := by
    cases l with
    | nil => exact absurd rfl hne
    | cons _ _ => simp
  have h1 : 0 + 1 ≤ l.length := by omega
  rw [BK.rd_toArray, if_pos h1]
  simp only
  rw [BK.rd_toArray]
  by_cases h4 : l.length < 4
  · have h4n : ¬ (0 + 4 ≤ l.length) := by omega
    rw [if_pos h4, if_neg h4n]
    rfl
  · have h4' : 0 + 4 ≤ l.length := by omega
    rw [if_neg h4, if_pos h4']
    simp only
    have hsl : B.slice l 0 4 = l.take 4 := by unfold B.slice; simp
    rw [hsl]
    have hm := hmax (by omega)
    generalize B.unle (l.take 4) = hs at hm ⊢
    have hnb : ¬ (hs > 785945) := by omega
    rw [if_neg hnb, BK.rd_toArray]
    by_cases hshort : l.length < 4 + hs
    · have hsn : ¬ (4 + hs ≤ l.length) := by omega
      rw [if_pos hshort, if_neg hsn]
      rfl
    · have hsp : 4 + hs ≤ l.length := by omega
      rw [if_neg hshort, if_pos hsp]
      simp only
      have hb : B.slice l 4 hs = (l.drop 4).take hs := rfl
      rw [hb]
      generalize (l.drop 4).take hs = buf
      have hmg : BK.magicOf .v2 = magicL := rfl
      have hver : BK.versionOf .v2 = 2 := rfl
      rw [hmg, hver]
      by_cases h8 : buf.length < 8
      · have hne8 : buf.take 8 ≠ magicL := by
          intro hc
          have := congrArg List.length hc
          rw [List.length_take] at this
          unfold magicL at this
          simp at this
          omega
        rw [if_pos h8, if_pos hne8]
        rfl
      · rw [if_neg h8]
        by_cases hmagic : buf.take 8 ≠ magicL
        · rw [if_pos hmagic, if_pos hmagic]; rfl
        · rw [if_neg hmagic, if_neg hmagic]
          have hl8 : ((buf.drop 8).take 8).length < 8 ↔ (buf.drop 8).length < 8 := by
            rw [List.length_take]; omega
          by_cases hv : (buf.drop 8).length < 8
          · rw [if_pos hv, if_pos (hl8.mpr hv)]; rfl
          · rw [if_neg hv, if_neg (fun h => hv (hl8.mp h))]
            by_cases hver2 : B.unle ((buf.drop 8).take 8) ≠ 2
            · rw [if_pos hver2, if_pos hver2]; rfl
            · rw [if_neg hver2, if_neg hver2]
              cases hpm : BK.parseMeta .v2 (buf.drop 16) with
              | none => rfl
              | some q =>
                obtain ⟨m, r2⟩ := q
                simp only
                have hl8b : ((r2.take 8).length < 8) ↔ (r2.length < 8) := by
                  rw [List.length_take]; omega
                by_cases hn8 : r2.length < 8
                · rw [if_pos hn8, if_pos (hl8b.mpr hn8)]; rfl
                · rw [if_neg hn8, if_neg (fun h => hn8 (hl8b.mp h))]
                  have hnp : BK.numPrefixes = 65536 := rfl
                  rw [hnp]
                  cases BK.parseTable (B.unle (r2.take 8)) (r2.drop 8) (Array.replicate 65536 none) with
                  | none => rfl
                  | some t => rfl

/-- **the whole reader path against the model the C05 theorems are stated about**: on every byte string (with a header size
    field the format can express) the translated `NewReader` succeeds exactly when the model's `openB .v2` does, and then
    every translated `Has` answers what the model's `hasB` answers on that file — so `has_bytes_agree`, `seal_has_bytes`
    and `has_only_if_bytes` (Properties/C05) speak about the code in the tree -/
theorem gen_open_has_eq_model (xx : List UInt8 → UInt64) (l : List UInt8) (fuel : Nat) (hf : 2 ^ 32 ≤ fuel)
    (hl : l.length < 2 ^ 61) (hmax : 4 ≤ l.length → B.unle (l.take 4) ≤ 785945) :
    match BK.openB .v2 l.toArray with
    | none => ∃ e, e ≠ Go.Error.nil ∧ bkNewReader fuel (memRd l) = .ok (Bucketteer_Reader.zero, e)
    | some r => ∃ rdr, bkNewReader fuel (memRd l) = .ok (rdr, Go.Error.nil) ∧
        ∀ (a b : UInt8) (rest : List UInt8),
          match BK.hasB l.toArray r (BK.prefixOf [a, b]) (xx (a :: b :: rest)).toNat with
          | .yes => bkReaderHas xx fuel rdr (a :: b :: rest) = .ok (true, Go.Error.nil)
          | .no => bkReaderHas xx fuel rdr (a :: b :: rest) = .ok (false, Go.Error.nil)
          | .err => ∃ e, e ≠ Go.Error.nil ∧ bkReaderHas xx fuel rdr (a :: b :: rest) = .ok (false, e) := by
  have hspec := gen_bkNewReader_eq_spec l fuel (by omega) (by omega)
  by_cases hne : l = []
  · subst hne
    rw [if_pos rfl] at hspec
    exact hspec
  · rw [if_neg hne, hdrSpec_eq_openB l hne hmax] at hspec
    have hv2 : ∀ r, BK.openB .v2 l.toArray = some r → r.fmt = .v2 := by
      intro r hr
      unfold BK.openB at hr
      repeat' split at hr
      all_goals first
        | (simp only [Option.some.injEq] at hr; rw [← hr])
        | (cases hr)
    cases ho : BK.openB .v2 l.toArray with
    | none =>
      rw [ho] at hspec
      exact hspec
    | some r =>
      rw [ho] at hspec
      simp only [Option.map_some] at hspec
      obtain ⟨T, hT, he⟩ := hspec
      have hsome : hdrSpec l = some (r.table, r.metaKVs, r.base) := by
        rw [hdrSpec_eq_openB l hne hmax, ho]; rfl
      obtain ⟨h4, hle⟩ := hdrSpec_some l _ _ _ hsome
      refine ⟨_, he, ?_⟩
      intro a b rest
      have hA := section_content_agree l r.base (by omega) hle (by omega)
      have hp : BK.prefixOf [a, b] < 65536 := by
        unfold BK.prefixOf; have := a.toNat_lt; have := b.toNat_lt; simp; omega
      have := gen_bkReaderHas_agree xx _ (l.drop r.base) T (C10.ofKvs r.metaKVs) a b rest fuel hA hT.1
        (by rw [List.length_drop]; omega) hf
      rw [BkHas.hasSpec_eq_hasB l r T _ _ fuel (hv2 r ho) hT hp hle hf] at this
      exact this

/-! ### the writer's file: `Seal` (model `BK.encode`) → the translated reader -/

theorem metaBody_length_le (m : BK.MetaKVs) (h : ∀ kv ∈ m, kv.1.length ≤ 255 ∧ kv.2.length ≤ 255) :
    (m.flatMap fun kv => (UInt8.ofNat kv.1.length :: kv.1) ++ (UInt8.ofNat kv.2.length :: kv.2)).length ≤ 512 * m.length := by
  induction m with
  | nil => simp
  | cons kv r ih =>
    have h1 := h kv (by simp)
    have h2 := ih (fun x hx => h x (by simp [hx]))
    simp only [List.flatMap_cons, List.length_append, List.length_cons] at h2 ⊢
    omega

/-- the version-2 metadata block of a valid `Meta` is at most 1 + 255·512 bytes: the header-size guard of
    `readHeaderSize` (785945) is never hit by a file the writer produced -/
theorem metaBytes_v2_le (m : BK.MetaKVs) (hm : BK.metaOk .v2 m) : (BK.metaBytes .v2 m).length ≤ 130561 := by
  obtain ⟨hn, hkv⟩ := hm
  have := metaBody_length_le m hkv
  unfold BK.metaBytes
  simp only [List.length_cons]
  omega

/-- the sealed file of buckets below 2^29 hashes and a valid metadata block is far below the 2^61 bytes the reader
    theorems ask for (same computation as `BK.sizes_ok`, with the sharper bound) -/
theorem encode_length_lt (m : BK.MetaKVs) (sd : BK.Sealed) (hok : BK.SealedOk sd)
    (hmeta : (BK.metaBytes .v2 m).length < 2 ^ 31) : (BK.encode .v2 m sd).length < 2 ^ 61 := by
  have hn := BK.entries_length_le .v2 sd
  have hb := BK.bodyBytes_length_le (BK.entries .v2 sd) (fun e he => hok.small e.1 e.2 (BK.entries_key .v2 sd e he).2)
  have hr := BK.headerRest_length .v2 m (BK.entries .v2 sd)
  simp only [BK.numPrefixes] at hn
  have hmul : (BK.entries .v2 sd).length * (4 + 8 * 2 ^ 29) ≤ 65536 * (4 + 8 * 2 ^ 29) := Nat.mul_le_mul_right _ hn
  rw [BK.encode, List.length_append, BK.headerBytes, List.length_append, B.le_length]
  omega

/-- **C05 end to end on the translated reader**: on the file the sealing writer produces (model `BK.encode .v2`), the
    translated `NewReader` succeeds and every translated `Reader.Has(sig)` returns, with a nil error, exactly the
    verdict of the abstract set (`hasA` over the sealed buckets) — for every signature list written, every valid
    metadata, every hash function and every signature queried -/
theorem gen_has_on_sealed (xx : List UInt8 → UInt64) (h : BK.Sig → Nat) (m : BK.MetaKVs) (sigs : List BK.Sig)
    (fuel : Nat) (hf : 2 ^ 32 ≤ fuel)
    (h64 : ∀ s, h s < 2 ^ 64) (hm : BK.metaOk .v2 m)
    (hsmall : ∀ p, (BK.cleanSet ((BK.putAll h sigs).getD p [])).length < 2 ^ 29)
    (a b : UInt8) (rest : List UInt8) (hx : (xx (a :: b :: rest)).toNat = h (a :: b :: rest)) :
    ∃ rdr, bkNewReader fuel (memRd (BK.encode .v2 m (BK.sealA .v2 (BK.putAll h sigs)))) = .ok (rdr, Go.Error.nil) ∧
      bkReaderHas xx fuel rdr (a :: b :: rest) =
        .ok (BK.hasA (BK.sealA .v2 (BK.putAll h sigs)) (BK.prefixOf (a :: b :: rest)) (h (a :: b :: rest)), Go.Error.nil) := by
  have hmb := metaBytes_v2_le m hm
  have hok : BK.SealedOk (BK.sealA .v2 (BK.putAll h sigs)) := by
    apply BK.sealedOk_sealA .v2 _ _ hsmall
    intro p x hx
    by_cases hp : p < BK.numPrefixes
    · obtain ⟨s, _, _, rfl⟩ := (BK.mem_putAll h sigs p x hp).1 hx
      exact h64 s
    · have : (BK.putAll h sigs).getD p [] = [] := by simp [Array.getD, BK.size_putAll, hp]
      rw [this] at hx; simp at hx
  have hlen := encode_length_lt m _ hok (by omega)
  obtain ⟨r, hopen, hhas⟩ := _root_.C05.has_bytes_agree .v2 h m sigs h64 hm (by omega) hsmall
  generalize hE : BK.encode .v2 m (BK.sealA .v2 (BK.putAll h sigs)) = l at *
  have hmax : 4 ≤ l.length → B.unle (l.take 4) ≤ 785945 := by
    intro _
    rw [← hE]
    unfold BK.encode BK.headerBytes
    have hn := BK.entries_length_le .v2 (BK.sealA .v2 (BK.putAll h sigs))
    have hr := BK.headerRest_length .v2 m (BK.entries .v2 (BK.sealA .v2 (BK.putAll h sigs)))
    simp only [BK.numPrefixes] at hn
    have hlt : (BK.headerRest .v2 m (BK.entries .v2 (BK.sealA .v2 (BK.putAll h sigs)))).length < 256 ^ 4 := by omega
    rw [List.append_assoc, List.take_left' (B.le_length 4 _), B.unle_le_of_lt _ _ hlt]
    omega
  have hmod := gen_open_has_eq_model xx l fuel hf hlen hmax
  rw [hopen] at hmod
  obtain ⟨rdr, hnr, hall⟩ := hmod
  refine ⟨rdr, hnr, ?_⟩
  have h1 := hall a b rest
  have h2 := hhas (a :: b :: rest)
  have hp : BK.prefixOf (a :: b :: rest) = BK.prefixOf [a, b] := rfl
  rw [hp] at h2 ⊢
  rw [hx, h2] at h1
  by_cases hh : BK.hasA (BK.sealA .v2 (BK.putAll h sigs)) (BK.prefixOf [a, b]) (h (a :: b :: rest)) = true
  · rw [if_pos hh] at h1
    rw [hh]; exact h1
  · rw [if_neg hh] at h1
    have : BK.hasA (BK.sealA .v2 (BK.putAll h sigs)) (BK.prefixOf [a, b]) (h (a :: b :: rest)) = false := by
      simpa using hh
    rw [this]; exact h1

/-- the per-bucket bound follows from the number of signatures written -/
theorem small_of_length (h : BK.Sig → Nat) (sigs : List BK.Sig) (hn : sigs.length < 2 ^ 29) (p : Nat) :
    (BK.cleanSet ((BK.putAll h sigs).getD p [])).length < 2 ^ 29 := by
  have h1 := BK.cleanSet_length_le ((BK.putAll h sigs).getD p [])
  have h2 := BK.bucket_length_le h sigs BK.emptyW p
  have h3 : (BK.emptyW.getD p []).length = 0 := by
    unfold BK.emptyW
    rw [Array.getD_eq_getD_getElem?, Array.getElem?_replicate]
    split <;> rfl
  unfold BK.putAll at *
  omega

/-- `gen_has_on_sealed` with the only size hypothesis a caller can check: fewer than 2^29 signatures written -/
theorem gen_has_on_sealed_of_count (xx : List UInt8 → UInt64) (h : BK.Sig → Nat) (m : BK.MetaKVs) (sigs : List BK.Sig)
    (fuel : Nat) (hf : 2 ^ 32 ≤ fuel) (h64 : ∀ s, h s < 2 ^ 64) (hm : BK.metaOk .v2 m) (hn : sigs.length < 2 ^ 29)
    (a b : UInt8) (rest : List UInt8) (hx : (xx (a :: b :: rest)).toNat = h (a :: b :: rest)) :
    ∃ rdr, bkNewReader fuel (memRd (BK.encode .v2 m (BK.sealA .v2 (BK.putAll h sigs)))) = .ok (rdr, Go.Error.nil) ∧
      bkReaderHas xx fuel rdr (a :: b :: rest) =
        .ok (BK.hasA (BK.sealA .v2 (BK.putAll h sigs)) (BK.prefixOf (a :: b :: rest)) (h (a :: b :: rest)), Go.Error.nil) :=
  gen_has_on_sealed xx h m sigs fuel hf h64 hm (small_of_length h sigs hn) a b rest hx

/-- the hypotheses are satisfiable by a non-trivial instance: three signatures (two sharing a prefix), one metadata pair,
    the hash "first eight bytes, little endian", a query for one of the written signatures -/
example :
    let h : BK.Sig → Nat := fun s => B.unle (s.take 8)
    let xx : List UInt8 → UInt64 := fun s => UInt64.ofNat (B.unle (s.take 8))
    let sigs : List BK.Sig := [[1, 2, 3, 4, 5, 6, 7, 8, 9], [1, 2, 9, 9, 9, 9, 9, 9, 9], [255, 255, 0, 0, 0, 0, 0, 1, 7]]
    ∃ rdr, bkNewReader (2 ^ 32) (memRd (BK.encode .v2 [([107], [118])] (BK.sealA .v2 (BK.putAll h sigs)))) = .ok (rdr, Go.Error.nil) ∧
      bkReaderHas xx (2 ^ 32) rdr [1, 2, 3, 4, 5, 6, 7, 8, 9] =
        .ok (BK.hasA (BK.sealA .v2 (BK.putAll h sigs)) (BK.prefixOf [1, 2, 3, 4, 5, 6, 7, 8, 9]) (h [1, 2, 3, 4, 5, 6, 7, 8, 9]), Go.Error.nil) := by
  intro h xx sigs
  have h64 : ∀ s, h s < 2 ^ 64 := by
    intro s
    have := BkHas.unle8_lt s
    exact this
  refine gen_has_on_sealed_of_count xx h [([107], [118])] sigs (2 ^ 32) (Nat.le_refl _) h64 ?_ (by decide) 1 2 [3, 4, 5, 6, 7, 8, 9] ?_
  · exact ⟨by decide, by intro kv hkv; simp at hkv; subst hkv; exact ⟨by decide, by decide⟩⟩
  · show (UInt64.ofNat (B.unle ([1, 2, 3, 4, 5, 6, 7, 8, 9].take 8))).toNat = B.unle ([1, 2, 3, 4, 5, 6, 7, 8, 9].take 8)
    rw [UInt64.toNat_ofNat']
    exact Nat.mod_eq_of_lt (BkHas.unle8_lt _)

/-- **C05 as stated, on the translated reader — no false negatives**: every signature added before sealing is reported
    present (`true`, nil error) by the translated `Reader.Has` on the sealed file -/
theorem gen_no_false_negative (xx : List UInt8 → UInt64) (h : BK.Sig → Nat) (m : BK.MetaKVs) (sigs : List BK.Sig)
    (fuel : Nat) (hf : 2 ^ 32 ≤ fuel) (h64 : ∀ s, h s < 2 ^ 64) (hm : BK.metaOk .v2 m) (hn : sigs.length < 2 ^ 29)
    (a b : UInt8) (rest : List UInt8) (hmem : (a :: b :: rest) ∈ sigs)
    (hx : (xx (a :: b :: rest)).toNat = h (a :: b :: rest)) :
    ∃ rdr, bkNewReader fuel (memRd (BK.encode .v2 m (BK.sealA .v2 (BK.putAll h sigs)))) = .ok (rdr, Go.Error.nil) ∧
      bkReaderHas xx fuel rdr (a :: b :: rest) = .ok (true, Go.Error.nil) := by
  obtain ⟨rdr, ho, hh⟩ := gen_has_on_sealed_of_count xx h m sigs fuel hf h64 hm hn a b rest hx
  rw [_root_.C05.seal_has .v2 h sigs _ hmem] at hh
  exact ⟨rdr, ho, hh⟩

/-- **… and no invented positives**: if the translated `Reader.Has` answers `true` for a signature, a signature with
    the same two-byte prefix and the same 64-bit hash was added -/
theorem gen_positive_only_if (xx : List UInt8 → UInt64) (h : BK.Sig → Nat) (m : BK.MetaKVs) (sigs : List BK.Sig)
    (fuel : Nat) (hf : 2 ^ 32 ≤ fuel) (h64 : ∀ s, h s < 2 ^ 64) (hm : BK.metaOk .v2 m) (hn : sigs.length < 2 ^ 29)
    (a b : UInt8) (rest : List UInt8) (hx : (xx (a :: b :: rest)).toNat = h (a :: b :: rest))
    (rdr : Bucketteer_Reader)
    (ho : bkNewReader fuel (memRd (BK.encode .v2 m (BK.sealA .v2 (BK.putAll h sigs)))) = .ok (rdr, Go.Error.nil))
    (e : Go.Error) (hyes : bkReaderHas xx fuel rdr (a :: b :: rest) = .ok (true, e)) :
    ∃ s' ∈ sigs, BK.prefixOf s' = BK.prefixOf (a :: b :: rest) ∧ h s' = h (a :: b :: rest) := by
  obtain ⟨rdr', ho', hh⟩ := gen_has_on_sealed_of_count xx h m sigs fuel hf h64 hm hn a b rest hx
  rw [ho] at ho'
  simp only [Except.ok.injEq, Prod.mk.injEq, and_true] at ho'
  subst ho'
  rw [hh] at hyes
  simp only [Except.ok.injEq, Prod.mk.injEq] at hyes
  exact _root_.C05.has_only_if .v2 h sigs _ hyes.1

end GoTies.BkEnd

import Faithful.Generated.GoFns
import Faithful.Lib.CompactIndex
import Faithful.Ties.Basic
/-!
C04 ties: the functions of `compactindexsized` that the translator turns into Lean on every run
(`Generated.G.*`, from /repo's working tree) compute what the hand-written model `CI.*` says, for all inputs.
A change to one of these Go functions changes `Generated/GoFns.lean` and the corresponding theorem has to be
re-proved by the kernel; if it no longer holds the check reports the tie by name.
-/
namespace GoTies.C04
open Go Generated.G GoTies

/-! ### searchEytzinger (query.go) = `CI.searchB` -/

def mkEntry (e : CI.Ent) : Compactindexsized_Entry := { Hash := UInt64.ofNat e.1, Value := e.2 }

/-- how the model's verdict reads as a Go result: `found v` = `(v, nil)`, `notFound` = `(nil, ErrNotFound)`,
    `err` = the getter's error -/
def lookToM (ioErr : Err) : CI.Look → M (List UInt8)
  | .found v => .ok v
  | .notFound => .error (.err "ErrNotFound")
  | .err => .error ioErr
  | .hang => .error .hang

def lookToLoop (ioErr : Err) : CI.Look → M (LoopRes (List UInt8) Int) → Prop
  | .found v, r => r = .ok (.ret v)
  | .notFound, r => (∃ i, r = .ok (.done i)) ∨ r = .error (.err "ErrNotFound")
  | .err, r => r = .error ioErr
  | .hang, _ => False

theorem orInt_step (n : Nat) (h : n < 2^62) : Go.orInt (Go.wrap64 ((n : Int) * 2)) 1 = ((2 * n + 1 : Nat) : Int) := by
  have h1 : Go.wrap64 ((n : Int) * 2) = 2 * (n : Int) := by
    rw [Go.wrap64_id] <;> omega
  rw [h1, Go.orInt_double_one _ (by omega)]
  omega

theorem ci_loop_eq (get : Nat → Option CI.Ent) (x : UInt64) (max : Nat) (hmax : max < 2^62) (ioErr : Err)
    (getter : Int → M Compactindexsized_Entry) (fuel0 : Nat)
    (hget : ∀ i : Nat, i < max → getter (i : Int) = match get i with | none => .error ioErr | some e => .ok (mkEntry e))
    (hr : ∀ i e, get i = some e → e.1 < 2^64) :
    ∀ (fuel n : Nat), max < n + fuel → 0 < fuel →
      lookToLoop ioErr (CI.searchB get x.toNat max fuel n) (ciSearchEytzinger.loop1 fuel0 getter (max : Int) 0 x fuel (n : Int)) := by
  intro fuel
  induction fuel with
  | zero => intro n h h0; omega
  | succ f ih =>
    intro n h _
    rw [CI.searchB, ciSearchEytzinger.loop1]
    by_cases hn : n < max
    · have hn' : (n : Int) < (max : Int) := by omega
      simp only [hn, hn', if_true, decide_true, Bool.not_true, Bool.false_eq_true, if_false]
      rw [hget n hn]
      cases hg : get n with
      | none => simp [lookToLoop, bind, Except.bind]
      | some e =>
        have he := hr n e hg
        simp only [bind, Except.bind, pure, Except.pure, mkEntry]
        by_cases hx : e.1 = x.toNat
        · have : UInt64.ofNat e.1 = x := by rw [hx]; simp
          simp [hx, lookToLoop]
        · have hne : ¬ UInt64.ofNat e.1 = x := by
            intro hc; apply hx; rw [← hc]; simp [UInt64.toNat_ofNat', Nat.mod_eq_of_lt he]
          simp only [hx, if_false, beq_iff_eq, hne]
          rw [orInt_step n (by omega)]
          by_cases hlt : e.1 < x.toNat
          · have hlt' : UInt64.ofNat e.1 < x := by
              rw [UInt64.lt_iff_toNat_lt]; simp [UInt64.toNat_ofNat', Nat.mod_eq_of_lt he]; exact hlt
            simp only [hlt, hlt', if_true, decide_true]
            have hw : Go.wrap64 (((2 * n + 1 : Nat) : Int) + 1) = ((2 * n + 2 : Nat) : Int) := by
              rw [Go.wrap64_id] <;> omega
            rw [hw]
            have hm : ¬ (((2 * n + 2 : Nat) : Int) < 0) := by omega
            simp only [hm, decide_false, Bool.false_eq_true, if_false]
            exact ih (2*n+2) (by omega) (by omega)
          · have hlt' : ¬ UInt64.ofNat e.1 < x := by
              rw [UInt64.lt_iff_toNat_lt]; simp [UInt64.toNat_ofNat', Nat.mod_eq_of_lt he]; omega
            simp only [hlt, hlt', if_false, decide_false, Bool.false_eq_true]
            have hm : ¬ (((2 * n + 1 : Nat) : Int) < 0) := by omega
            simp only [hm, decide_false, Bool.false_eq_true, if_false]
            exact ih (2*n+1) (by omega) (by omega)
    · have hn' : ¬ (n : Int) < (max : Int) := by omega
      simp only [hn, hn', if_false, decide_false, Bool.not_false, if_true, lookToLoop]
      exact Or.inl ⟨_, rfl⟩

/-- **tie**: `searchEytzinger(0, max, x, getter)` of query.go, as translated from the source, answers exactly what the
    model's `searchB` answers, for every getter (failing reads included), every table size below 2^62 and every target;
    `max + 1` units of fuel are enough (the Go loop terminates). -/
theorem gen_ciSearchEytzinger_eq_model (get : Nat → Option CI.Ent) (x : UInt64) (max : Nat) (hmax : max < 2^62) (ioErr : Err)
    (getter : Int → M Compactindexsized_Entry)
    (hget : ∀ i : Nat, i < max → getter (i : Int) = match get i with | none => .error ioErr | some e => .ok (mkEntry e))
    (hr : ∀ i e, get i = some e → e.1 < 2^64) :
    ciSearchEytzinger (max + 1) 0 (max : Int) x getter = lookToM ioErr (CI.searchB get x.toNat max (max + 1) 0) := by
  have h := ci_loop_eq get x max hmax ioErr getter (max + 1) hget hr (max + 1) 0 (by omega) (by omega)
  unfold ciSearchEytzinger
  simp only [Int.natCast_zero] at h
  cases hs : CI.searchB get x.toNat max (max + 1) 0 with
  | found v => rw [hs] at h; simp only [lookToLoop] at h; simp [h, lookToM, bind, Except.bind, pure, Except.pure]
  | notFound =>
    rw [hs] at h; simp only [lookToLoop] at h
    rcases h with ⟨i, h⟩ | h <;> simp [h, lookToM, bind, Except.bind, throw, throwThe, MonadExceptOf.throw]
  | err => rw [hs] at h; simp only [lookToLoop] at h; simp [h, lookToM, bind, Except.bind]
  | hang => rw [hs] at h; exact h.elim

/-! ### hashUint64, Header.BucketHash (compactindex.go) = `CI.bucketHash` -/

theorem gen_ciHashUint64_eq_model (x : UInt64) : ciHashUint64 x = .ok (H.hashUint64 x) := by
  simp only [ciHashUint64, H.hashUint64, pure, Except.pure]

theorem bucketLoop_eq (xx : List UInt8 → UInt64) (fuel0 : Nat) (r : UInt64) : ∀ (fuel : Nat) (u : UInt64),
    ciBucketHash.loop1 xx fuel0 r fuel u =
      match CI.bucketHashLoop fuel r u with
      | some v => .ok (.done v)
      | none => .error .hang := by
  intro fuel
  induction fuel with
  | zero => intro u; rfl
  | succ f ih =>
    intro u
    rw [ciBucketHash.loop1, CI.bucketHashLoop]
    by_cases h : u < r
    · simp only [h, decide_true, Bool.not_true, Bool.false_eq_true, if_false, if_true, gen_ciHashUint64_eq_model, bind_ok]
      by_cases h2 : H.hashUint64 u = u
      · simp [h2]
      · simp only [h2, beq_iff_eq, if_false]
        exact ih _
    · simp [h]

/-- **tie**: `Header.BucketHash(key)` as translated from the source = the model's `bucketHash`, for every key and every
    non-zero bucket count, with the same fuel on both sides (running out of fuel = the model's `none`). -/
theorem gen_ciBucketHash_eq_model (h : Compactindexsized_Header) (key : List UInt8) (hn : h.NumBuckets ≠ 0) :
    ciBucketHash H.xxhash64 64 h key =
      match CI.bucketHash key h.NumBuckets.toNat with
      | some b => .ok (UInt64.ofNat b)
      | none => .error .hang := by
  unfold ciBucketHash CI.bucketHash
  have hn64 : h.NumBuckets.toUInt64 ≠ 0 := by
    intro hc; apply hn
    have := congrArg UInt64.toNat hc
    simp at this
    exact UInt32.toNat_inj.mp (by simpa using this)
  have hcast : h.NumBuckets.toNat.toUInt64 = h.NumBuckets.toUInt64 := by
    apply UInt64.toNat_inj.mp; simp [Nat.toUInt64]
  simp only [Go.modU64, hn64, if_false, bind_ok, pure_eq_ok, hcast]
  rw [bucketLoop_eq]
  cases CI.bucketHashLoop 64 (((0:UInt64) - h.NumBuckets.toUInt64) % h.NumBuckets.toUInt64) (H.xxhash64 key) with
  | none => rfl
  | some u =>
    simp only [bind_ok, pure_eq_ok]
    congr 1
    apply UInt64.toNat_inj.mp
    have hlt : u.toNat % h.NumBuckets.toNat < 2^64 := by
      have := u.toNat_lt
      have h0 : 0 < h.NumBuckets.toNat := by
        rcases Nat.eq_zero_or_pos h.NumBuckets.toNat with hz | hp
        · exact (hn (UInt32.toNat_inj.mp (by simpa using hz))).elim
        · exact hp
      have := Nat.mod_lt u.toNat h0
      have := h.NumBuckets.toNat_lt
      omega
    simp [UInt64.toNat_mod, UInt64.toNat_ofNat', Nat.mod_eq_of_lt hlt]

/-! ### uintLe / putUintLe (compactindex.go) = `B.unle` / `B.le` -/

/-- **tie**: `uintLe(buf)` = little-endian value of the first 8 bytes (fewer when `buf` is shorter) -/
theorem gen_ciUintLe_eq_model (buf : List UInt8) : ciUintLe buf = .ok (UInt64.ofNat (B.unle (buf.take 8))) := by
  unfold ciUintLe
  simp only [Go.copy, Go.leU64, List.length_replicate, pure_eq_ok, bind_ok]
  have hl : 8 ≤ (List.take (min 8 buf.length) buf ++ List.drop (min 8 buf.length) (List.replicate 8 (0:UInt8))).length := by
    simp; omega
  simp only [hl, if_true, leDecode_eq_unle]
  congr 2
  have e1 : List.take (min 8 buf.length) buf = buf.take 8 := by
    by_cases hb : 8 ≤ buf.length
    · rw [Nat.min_eq_left hb]
    · rw [Nat.min_eq_right (by omega), List.take_of_length_le (Nat.le_refl _), List.take_of_length_le (by omega)]
  rw [e1, List.drop_replicate]
  have e2 : List.take 8 (List.take 8 buf ++ List.replicate (8 - min 8 buf.length) (0:UInt8)) = List.take 8 buf ++ List.replicate (8 - min 8 buf.length) 0 := by
    apply List.take_of_length_le; simp; omega
  rw [e2, unle_append_zeros]

/-- **tie**: `putUintLe(buf, x)` overwrites the first `min 8 len` bytes with the little-endian bytes of `x` -/
theorem gen_ciPutUintLe_eq_model (buf : List UInt8) (x : UInt64) :
    ciPutUintLe buf x = .ok ((B.le 8 x.toNat).take buf.length ++ buf.drop 8) := by
  unfold ciPutUintLe
  simp only [Go.putLeU64, List.length_replicate, Nat.le_refl, if_true, bind_ok, pure_eq_ok, Go.copy, leEncode_eq_le,
    List.drop_replicate, Nat.sub_self, List.replicate_zero, List.append_nil, B.le_length]
  congr 1
  by_cases hb : 8 ≤ buf.length
  · rw [Nat.min_eq_right hb, List.take_of_length_le (by simp [B.le_length]), List.take_of_length_le (by simp [B.le_length]; omega)]
  · rw [Nat.min_eq_left (by omega), List.drop_of_length_le (by omega), List.drop_of_length_le (by omega)]


/-! ### BucketHeader.Store / Load (compactindex.go) = the 16-byte bucket header of `CI.bucketHeader` / `CI.lookupB` -/

theorem slice_ok (b : List UInt8) (lo hi : Nat) (h1 : lo ≤ hi) (h2 : hi ≤ b.length) :
    Go.slice b (lo : Int) (hi : Int) = .ok (B.slice b lo (hi - lo)) := by
  unfold Go.slice B.slice
  have : (0:Int) ≤ lo ∧ (lo:Int) ≤ hi ∧ (hi:Int) ≤ b.length := by omega
  simp [this]

/-- **tie**: `BucketHeader.Store(buf)` writes `le4 HashDomain ‖ le4 NumEntries ‖ HashLen ‖ 0 ‖ le6 FileOffset` into a
    16-byte buffer — the layout `CI.bucketHeader` gives (FileOffset is truncated to 48 bits by both). -/
theorem gen_ciBucketHeaderStore_eq_model (b : Compactindexsized_BucketHeader) (buf : List UInt8) (hl : buf.length = 16) :
    ciBucketHeaderStore b buf =
      .ok (B.le 4 b.HashDomain.toNat ++ B.le 4 b.NumEntries.toNat ++ [b.HashLen, 0] ++ B.le 6 b.FileOffset.toNat) := by
  match buf, hl with
  | [b0,b1,b2,b3,b4,b5,b6,b7,b8,b9,b10,b11,b12,b13,b14,b15], _ =>
    unfold ciBucketHeaderStore
    simp [Go.slice, Go.putLeU32, Go.setSlice, Go.setIdx, gen_ciPutUintLe_eq_model, leEncode_eq_le, B.le, List.take, List.drop]

/-- **tie**: `BucketHeader.Load(buf)` reads the four fields from the offsets the model's `lookupB` reads them from. -/
theorem gen_ciBucketHeaderLoad_eq_model (b : Compactindexsized_BucketHeader) (buf : List UInt8) (hl : buf.length = 16) :
    ciBucketHeaderLoad b buf =
      .ok { b with HashDomain := UInt32.ofNat (B.unle (B.slice buf 0 4)), NumEntries := UInt32.ofNat (B.unle (B.slice buf 4 4)),
                   HashLen := buf.getD 8 0, FileOffset := UInt64.ofNat (B.unle (B.slice buf 10 6)) } := by
  match buf, hl with
  | [b0,b1,b2,b3,b4,b5,b6,b7,b8,b9,b10,b11,b12,b13,b14,b15], _ =>
    unfold ciBucketHeaderLoad
    simp [Go.slice, Go.leU32, Go.idx, gen_ciUintLe_eq_model, leDecode_eq_unle, B.slice, List.take, List.drop]

/-! ### unmarshalEntry (compactindex.go) = the entry decoding of `CI.lookupB` -/

/-- **tie**: `unmarshalEntry(buf)`: hash = little-endian value of the first `HashLen` bytes, value = the next
    `OffsetWidth` bytes — what `lookupB`'s getter extracts — whenever the entry buffer holds `HashLen + OffsetWidth`
    bytes, `HashLen ≤ 8` and the uint8 sum does not wrap (the reader refuses value sizes above 252). -/
theorem gen_ciUnmarshalEntry_eq_model (b : Compactindexsized_BucketDescriptor) (buf : List UInt8)
    (h8 : b.BucketHeader.HashLen.toNat ≤ 8)
    (hs : b.BucketHeader.HashLen.toNat + b.OffsetWidth.toNat ≤ buf.length)
    (hw : b.BucketHeader.HashLen.toNat + b.OffsetWidth.toNat < 256) :
    ciUnmarshalEntry b buf =
      .ok { Hash := UInt64.ofNat (B.unle (buf.take b.BucketHeader.HashLen.toNat)),
            Value := (buf.drop b.BucketHeader.HashLen.toNat).take b.OffsetWidth.toNat } := by
  unfold ciUnmarshalEntry
  have hsum : (b.BucketHeader.HashLen + b.OffsetWidth).toNat = b.BucketHeader.HashLen.toNat + b.OffsetWidth.toNat := by
    rw [UInt8.toNat_add]; exact Nat.mod_eq_of_lt hw
  have s1 := slice_ok buf 0 b.BucketHeader.HashLen.toNat (by omega) (by omega)
  have s2 := slice_ok buf b.BucketHeader.HashLen.toNat (b.BucketHeader.HashLen.toNat + b.OffsetWidth.toNat) (by omega) hs
  simp only [Int.natCast_zero] at s1
  rw [hsum]
  simp only [s1, s2, bind_ok, pure_eq_ok, gen_ciUintLe_eq_model, Go.makeOf]
  have hm : (0:Int) ≤ (b.OffsetWidth.toNat : Int) ∧ (b.OffsetWidth.toNat : Int) < 281474976710656 := by
    have := b.OffsetWidth.toNat_lt; omega
  simp only [hm, and_self, if_true, bind_ok, Go.copy, B.slice, Nat.sub_zero, List.drop_zero, Int.toNat_natCast,
    List.length_replicate, Nat.add_sub_cancel_left]
  have hlen : ((buf.drop b.BucketHeader.HashLen.toNat).take b.OffsetWidth.toNat).length = b.OffsetWidth.toNat := by
    simp; omega
  have ht8 : (buf.take b.BucketHeader.HashLen.toNat).take 8 = buf.take b.BucketHeader.HashLen.toNat := by
    apply List.take_of_length_le; simp; omega
  simp [hlen, ht8, List.take_take]

/-- **tie**: `bucketOffset(headerSize, i) = headerSize + 16·i` (no wrap for files below 2^62 bytes) -/
theorem gen_ciBucketOffset_eq_model (hs : Nat) (i : UInt64) (h1 : hs < 2^62) (h2 : i.toNat < 2^56) :
    ciBucketOffset (hs : Int) i = .ok ((hs + Generated.bucketHdrLen * i.toNat : Nat) : Int) := by
  unfold ciBucketOffset Go.intOfU64
  have e : Generated.bucketHdrLen = 16 := by decide
  rw [e]
  simp only [pure_eq_ok]
  rw [Go.wrap64_id (x := (i.toNat : Int)) (by omega) (by omega)]
  rw [Go.wrap64_id (x := (i.toNat : Int) * 16) (by omega) (by omega)]
  rw [Go.wrap64_id (by omega) (by omega)]
  congr 1; omega

/-! ### non-vacuity: the translated functions run -/

example : ciUintLe [1, 2, 3] = .ok 0x030201 := by rfl
example : ciPutUintLe [9, 9, 9] 0x0a0b0c0d = .ok [0x0d, 0x0c, 0x0b] := by rfl
example : ciSearchEytzinger 4 0 3 7 (fun i => if i = 0 then .ok ⟨5, [1]⟩ else if i = 2 then .ok ⟨7, [2]⟩ else .error (.err "io"))
    = .ok [2] := by rfl
example : ciSearchEytzinger 4 0 3 4 (fun i => if i = 0 then .ok ⟨5, [1]⟩ else if i = 1 then .ok ⟨3, [0]⟩ else .error (.err "io"))
    = .error (.err "ErrNotFound") := by rfl

end GoTies.C04

import Faithful.Generated.GoFns
import Faithful.Lib.IndexMeta
import Faithful.Ties.Basic
/-!
C10 ties: the index metadata codec (`indexmeta/indexmeta.go`: `MarshalBinary`, `UnmarshalBinary` / `UnmarshalWithDecoder`,
`Get`, `GetUint64`), translated from /repo's working tree on every run, computes what the model `IndexMeta.*` says — so
`IndexMeta.decode_encode` / `ident_roundtrip` ("epoch, root CID, network and kind written at build time are read back
unchanged") speak about the code in the tree.

Assumption recorded with the translation: `indexmeta.Decoder` (gagliardetto/binary's Borsh decoder over the byte slice) is
given the meaning of an in-memory byte reader (`ReadByte` = next byte or io.EOF, `io.ReadFull` = exactly n bytes or an error).
-/
namespace GoTies.C10
open Go Generated.G GoTies

def kvs (m : Indexmeta_Meta) : IndexMeta.KVs := m.KeyVals.map fun kv => (kv.Key, kv.Value)
def ofKvs (l : IndexMeta.KVs) : Indexmeta_Meta := { KeyVals := l.map fun kv => { Key := kv.1, Value := kv.2 } }

theorem kvs_ofKvs (l : IndexMeta.KVs) : kvs (ofKvs l) = l := by
  unfold kvs ofKvs
  induction l with
  | nil => rfl
  | cons a r ih => simp at ih ⊢; exact ih

def encKV (kv : Indexmeta_KV) : List UInt8 :=
  (UInt8.ofNat kv.Key.length :: kv.Key) ++ (UInt8.ofNat kv.Value.length :: kv.Value)

def okKV (kv : Indexmeta_KV) : Prop := kv.Key.length ≤ 255 ∧ kv.Value.length ≤ 255
instance (kv : Indexmeta_KV) : Decidable (okKV kv) := by unfold okKV; exact inferInstance

theorem u8_len (n : Nat) (h : n ≤ 255) : Go.u8OfInt (n : Int) = UInt8.ofNat n := by
  unfold Go.u8OfInt
  congr 1
  omega

/-- the marshal loop from position `k`: all remaining pairs appended if they fit, otherwise a Go error -/
theorem marshal_loop (fuel0 : Nat) (m : Indexmeta_Meta) (l : List Indexmeta_KV) (hl : l.length < 2 ^ 62) :
    ∀ (fuel k : Nat) (buf : List UInt8), k ≤ l.length → l.length - k < fuel →
      (if ∀ kv ∈ l.drop k, okKV kv then
         metaMarshal.loop1 fuel0 m l fuel buf (k : Int) = .ok (.done (buf ++ (l.drop k).flatMap encKV, (l.length : Int)))
       else ∃ t, metaMarshal.loop1 fuel0 m l fuel buf (k : Int) = .error (.err t)) := by
  intro fuel
  induction fuel with
  | zero => intro k buf _ h; omega
  | succ f ih =>
    intro k buf hk hf
    rw [metaMarshal.loop1]
    by_cases hlt : k < l.length
    · have hlt' : (k : Int) < Go.len l := by unfold Go.len; omega
      have hgd : l.getD k default = l[k] := by
        simp [List.getD_eq_getElem?_getD, List.getElem?_eq_getElem hlt]
      have hidx : Go.idx l (k : Int) = .ok l[k] := by
        unfold Go.idx
        have : (0:Int) ≤ k ∧ (k:Int) < l.length := by omega
        simp only [this, and_self, if_true, pure_eq_ok, Int.toNat_natCast, hgd]
      have hdrop : l.drop k = l[k] :: l.drop (k + 1) := List.drop_eq_getElem_cons hlt
      have hw : Go.wrap64 ((k : Int) + 1) = ((k + 1 : Nat) : Int) := by rw [Go.wrap64_id] <;> omega
      simp only [hlt', decide_true, Bool.not_true, Bool.false_eq_true, if_false, hidx, bind_ok, hw]
      have hlk : Go.len l[k].Key = (l[k].Key.length : Int) := id rfl
      have hlv : Go.len l[k].Value = (l[k].Value.length : Int) := id rfl
      simp only [hlk, hlv]
      by_cases hkey : l[k].Key.length ≤ 255
      · have hk1 : ¬ ((l[k].Key.length : Int) > 255) := by omega
        simp only [hk1, decide_false, Bool.false_eq_true, if_false]
        by_cases hval : l[k].Value.length ≤ 255
        · have hv1 : ¬ ((l[k].Value.length : Int) > 255) := by omega
          simp only [hv1, decide_false, Bool.false_eq_true, if_false, u8_len _ hkey, u8_len _ hval]
          have := ih (k + 1) (buf ++ [UInt8.ofNat l[k].Key.length] ++ l[k].Key ++ [UInt8.ofNat l[k].Value.length] ++ l[k].Value)
            (by omega) (by omega)
          by_cases hall : ∀ kv ∈ l.drop (k + 1), okKV kv
          · have hall' : ∀ kv ∈ l.drop k, okKV kv := by
              rw [hdrop]; intro kv hkv
              rcases List.mem_cons.mp hkv with rfl | h
              · exact ⟨hkey, hval⟩
              · exact hall kv h
            rw [if_pos hall] at this
            rw [if_pos hall', this]
            conv => rhs; rw [hdrop]
            simp only [List.flatMap_cons, encKV, List.append_assoc, List.cons_append, List.nil_append]
          · have hall' : ¬ ∀ kv ∈ l.drop k, okKV kv := by
              intro h; apply hall; intro kv hkv; exact h kv (by rw [hdrop]; exact List.mem_cons_of_mem _ hkv)
            rw [if_neg hall] at this
            rw [if_neg hall']
            exact this
        · have hv1 : ((l[k].Value.length : Int) > 255) := by omega
          have hall' : ¬ ∀ kv ∈ l.drop k, okKV kv := by
            intro h; exact hval (h l[k] (by rw [hdrop]; exact List.mem_cons_self ..)).2
          rw [if_neg hall']
          simp only [hv1, decide_true, if_true, throw_eq]
          exact ⟨_, rfl⟩
      · have hk1 : ((l[k].Key.length : Int) > 255) := by omega
        have hall' : ¬ ∀ kv ∈ l.drop k, okKV kv := by
          intro h; exact hkey (h l[k] (by rw [hdrop]; exact List.mem_cons_self ..)).1
        rw [if_neg hall']
        simp only [hk1, decide_true, if_true, throw_eq, bind_error]
        exact ⟨_, rfl⟩
    · have hke : k = l.length := by omega
      subst hke
      have hlt' : ¬ ((l.length : Nat) : Int) < Go.len l := by unfold Go.len; omega
      simp [hlt']


theorem metaBytes_eq (m : Indexmeta_Meta) :
    CI.metaBytes (kvs m) = UInt8.ofNat m.KeyVals.length :: m.KeyVals.flatMap encKV := by
  unfold CI.metaBytes kvs
  simp only [List.length_map, List.flatMap_map]
  rfl

theorem fits_iff (m : Indexmeta_Meta) : IndexMeta.fits (kvs m) ↔ (m.KeyVals.length ≤ 255 ∧ ∀ kv ∈ m.KeyVals, okKV kv) := by
  unfold IndexMeta.fits kvs okKV
  have e1 : Generated.metaMaxNumKVs = 255 := rfl
  have e2 : Generated.metaMaxKeySize = 255 := rfl
  have e3 : Generated.metaMaxValueSize = 255 := rfl
  simp only [List.length_map, e1, e2, e3, List.mem_map, forall_exists_index, and_imp]
  constructor
  · rintro ⟨h1, h2⟩; exact ⟨h1, fun kv hkv => h2 _ kv hkv rfl⟩
  · rintro ⟨h1, h2⟩; exact ⟨h1, fun p kv hkv he => by subst he; exact h2 kv hkv⟩

/-- **tie**: `Meta.MarshalBinary` as translated from the source returns the bytes of the model's `encode` when the metadata
    fits the format's limits, and a Go error exactly when the model refuses (more than 255 pairs, a key or value longer than
    255 bytes); `fuel` > number of pairs. -/
theorem gen_metaMarshal_eq_model (m : Indexmeta_Meta) (fuel : Nat) (hf : m.KeyVals.length < fuel) (hl : m.KeyVals.length < 2 ^ 62) :
    match IndexMeta.encode (kvs m) with
    | some b => metaMarshal fuel m = .ok b
    | none => ∃ t, metaMarshal fuel m = .error (.err t) := by
  unfold IndexMeta.encode metaMarshal
  by_cases hn : m.KeyVals.length ≤ 255
  · have hn' : ¬ (Go.len m.KeyVals > 255) := by unfold Go.len; omega
    simp only [hn', decide_false, Bool.false_eq_true, if_false, List.nil_append]
    have hloop := marshal_loop fuel m m.KeyVals hl fuel 0 [Go.u8OfInt (Go.len m.KeyVals)] (by omega) (by omega)
    simp only [Int.natCast_zero, List.drop_zero] at hloop
    by_cases hall : ∀ kv ∈ m.KeyVals, okKV kv
    · have hfit : IndexMeta.fits (kvs m) := (fits_iff m).mpr ⟨hn, hall⟩
      rw [if_pos hall] at hloop
      rw [if_pos hfit]
      simp only [hloop, bind_ok, pure_eq_ok, metaBytes_eq]
      have : Go.u8OfInt (Go.len m.KeyVals) = UInt8.ofNat m.KeyVals.length := u8_len _ hn
      rw [this]; rfl
    · have hfit : ¬ IndexMeta.fits (kvs m) := fun h => hall ((fits_iff m).mp h).2
      rw [if_neg hall] at hloop
      rw [if_neg hfit]
      obtain ⟨t, ht⟩ := hloop
      exact ⟨t, by simp only [ht, bind_error]⟩
  · have hn' : (Go.len m.KeyVals > 255) := by unfold Go.len; omega
    have hfit : ¬ IndexMeta.fits (kvs m) := fun h => hn ((fits_iff m).mp h).1
    rw [if_neg hfit]
    simp only [hn', decide_true, if_true, throw_eq, bind_error]
    exact ⟨_, rfl⟩


/-! ### UnmarshalBinary -/

theorem readByte_eq (d : List UInt8) (p : Nat) :
    Go.readByte ⟨d, p⟩ = match d.drop p with
      | [] => .error (.err "EOF")
      | b :: _ => .ok (⟨d, p + 1⟩, b) := by
  unfold Go.readByte
  cases d.drop p <;> rfl

theorem readFull_gen (d : List UInt8) (p n : Nat) :
    (d.drop p).length < n → ∃ t, Go.readFull ⟨d, p⟩ (n : Int) = .error (.err t) := by
  intro h
  unfold Go.readFull
  have hn : ¬ n = 0 := by omega
  simp only [Int.toNat_natCast, hn, if_false]
  by_cases h1 : d.length ≤ p
  · simp only [h1, if_true]; exact ⟨_, rfl⟩
  · have : d.length - p < n := by simp at h; omega
    simp only [h1, if_false, this, if_true]; exact ⟨_, rfl⟩

theorem readFull_ok (d : List UInt8) (p n : Nat) (h : ¬ (d.drop p).length < n) :
    Go.readFull ⟨d, p⟩ (n : Int) = .ok (⟨d, p + n⟩, (d.drop p).take n) := by
  unfold Go.readFull
  by_cases hn : n = 0
  · subst hn; simp
  · have h1 : ¬ d.length ≤ p := by simp at h; omega
    have h2 : ¬ d.length - p < n := by simp at h; omega
    simp [hn, h1, h2]

def mkKV (kv : List UInt8 × List UInt8) : Indexmeta_KV := { Key := kv.1, Value := kv.2 }

theorem makeOf_u8 (n : UInt8) : Go.makeOf (0 : UInt8) ((n.toNat : Nat) : Int) = .ok (List.replicate n.toNat 0) := by
  unfold Go.makeOf
  have := n.toNat_lt
  have : (0:Int) ≤ (n.toNat : Int) ∧ (n.toNat : Int) < 281474976710656 := by omega
  simp [this]

/-- the unmarshal loop with `c` pairs still to read from position `p` -/
theorem unmarshal_loop (fuel0 : Nat) (n : UInt8) (d : List UInt8) : ∀ (c fuel i p : Nat) (m : Indexmeta_Meta),
    i + c = n.toNat → c < fuel →
    match CI.parseMetaKVs c (d.drop p) with
    | some l => ∃ r', metaUnmarshalDec.loop1 fuel0 n fuel ⟨d, p⟩ (i : Int) m
        = .ok (.done (r', (n.toNat : Int), { m with KeyVals := m.KeyVals ++ l.map mkKV }))
    | none => ∃ t, metaUnmarshalDec.loop1 fuel0 n fuel ⟨d, p⟩ (i : Int) m = .error (.err t) := by
  intro c
  induction c with
  | zero =>
    intro fuel i p m hi hf
    obtain ⟨f, rfl⟩ : ∃ f, fuel = f + 1 := ⟨fuel - 1, by omega⟩
    rw [metaUnmarshalDec.loop1]
    simp only [CI.parseMetaKVs]
    have : ¬ ((i : Int) < (n.toNat : Int)) := by omega
    simp only [this, decide_false, Bool.not_false, if_true, pure_eq_ok, List.map_nil, List.append_nil]
    have hi' : (i : Int) = (n.toNat : Int) := by omega
    rw [hi']
    exact ⟨_, rfl⟩
  | succ c ih =>
    intro fuel i p m hi hf
    obtain ⟨f, rfl⟩ : ∃ f, fuel = f + 1 := ⟨fuel - 1, by omega⟩
    rw [metaUnmarshalDec.loop1]
    simp only [CI.parseMetaKVs]
    have hlt : ((i : Int) < (n.toNat : Int)) := by omega
    simp only [hlt, decide_true, Bool.not_true, Bool.false_eq_true, if_false, readByte_eq]
    cases h1 : d.drop p with
    | nil => simp only [bind_error]; exact ⟨_, rfl⟩
    | cons kl r =>
      have hr : d.drop (p + 1) = r := by
        have := congrArg List.tail h1; simpa [List.tail_drop] using this
      simp only [bind_ok, makeOf_u8, Go.len, List.length_replicate]
      by_cases hk : r.length < kl.toNat
      · simp only [hk, if_true]
        obtain ⟨t, ht⟩ := readFull_gen d (p + 1) kl.toNat (by rw [hr]; exact hk)
        simp only [ht, bind_error]; exact ⟨_, rfl⟩
      · simp only [hk, if_false]
        rw [readFull_ok d (p + 1) kl.toNat (by rw [hr]; exact hk)]
        simp only [bind_ok, readByte_eq, hr]
        have hd2 : d.drop (p + 1 + kl.toNat) = r.drop kl.toNat := by rw [← hr, List.drop_drop]
        rw [hd2]
        cases h2 : r.drop kl.toNat with
        | nil => simp only [bind_error]; exact ⟨_, rfl⟩
        | cons vl r2 =>
          have hr2 : d.drop (p + 1 + kl.toNat + 1) = r2 := by
            have := congrArg List.tail h2
            rw [← hd2] at this
            simpa [List.tail_drop, Nat.add_assoc] using this
          simp only [bind_ok, makeOf_u8, List.length_replicate]
          by_cases hv : r2.length < vl.toNat
          · simp only [hv, if_true]
            obtain ⟨t, ht⟩ := readFull_gen d (p + 1 + kl.toNat + 1) vl.toNat (by rw [hr2]; exact hv)
            simp only [ht, bind_error]; exact ⟨_, rfl⟩
          · simp only [hv, if_false]
            rw [readFull_ok d (p + 1 + kl.toNat + 1) vl.toNat (by rw [hr2]; exact hv)]
            simp only [bind_ok, hr2]
            have hw : Go.wrap64 ((i : Int) + 1) = ((i + 1 : Nat) : Int) := by
              have := n.toNat_lt
              rw [Go.wrap64_id] <;> omega
            rw [hw]
            have hd3 : d.drop (p + 1 + kl.toNat + 1 + vl.toNat) = r2.drop vl.toNat := by rw [← hr2, List.drop_drop]
            have := ih f (i + 1) (p + 1 + kl.toNat + 1 + vl.toNat)
              { m with KeyVals := m.KeyVals ++ [{ Indexmeta_KV.zero with Key := r.take kl.toNat, Value := r2.take vl.toNat }] }
              (by omega) (by omega)
            rw [hd3] at this
            cases h3 : CI.parseMetaKVs c (r2.drop vl.toNat) with
            | none =>
              rw [h3] at this
              simpa using this
            | some l =>
              rw [h3] at this
              obtain ⟨r', hr'⟩ := this
              refine ⟨r', ?_⟩
              simp only [hr', List.map_cons, mkKV, List.append_assoc, List.cons_append, List.nil_append]


theorem ofKvs_eq (l : IndexMeta.KVs) : ofKvs l = { KeyVals := l.map mkKV } := rfl

/-- **tie**: `Meta.UnmarshalBinary(b)` on an empty `Meta`, as translated from the source, returns the pairs the model's
    `decode` returns, and a Go error exactly when the model rejects `b` — for every byte string (`fuel` > 256: at most 255
    pairs are announced by the count byte). -/
theorem gen_metaUnmarshal_eq_model (b : List UInt8) (fuel : Nat) (hf : 256 < fuel) :
    match IndexMeta.decode b with
    | some l => metaUnmarshal fuel Indexmeta_Meta.zero b = .ok (ofKvs l)
    | none => ∃ t, metaUnmarshal fuel Indexmeta_Meta.zero b = .error (.err t) := by
  unfold IndexMeta.decode CI.parseMeta metaUnmarshal
  cases b with
  | nil => simp [Go.len, ofKvs, Indexmeta_Meta.zero]
  | cons c r =>
    have hne : ¬ (Go.len (c :: r) = 0) := by unfold Go.len; simp; omega
    simp only [beq_iff_eq, hne, if_false]
    unfold metaUnmarshalDec
    simp only [readByte_eq, List.drop_zero, bind_ok]
    have h255 : ¬ (c > 255) := by
      rw [gt_iff_lt, UInt8.lt_iff_toNat_lt]; have := c.toNat_lt; simp; omega
    simp only [h255, decide_false, Bool.false_eq_true, if_false]
    have hloop := unmarshal_loop fuel c (c :: r) c.toNat fuel 0 (0 + 1) Indexmeta_Meta.zero (by omega) (by have := c.toNat_lt; omega)
    simp only [Int.natCast_zero, Nat.zero_add, List.drop_succ_cons, List.drop_zero] at hloop
    simp only [Indexmeta_Meta.zero, List.nil_append] at hloop
    cases hp : CI.parseMetaKVs c.toNat r with
    | none =>
      rw [hp] at hloop
      obtain ⟨t, ht⟩ := hloop
      exact ⟨t, by simp only [Indexmeta_Meta.zero, Nat.zero_add, ht, bind_error]⟩
    | some l =>
      rw [hp] at hloop
      obtain ⟨r', hr'⟩ := hloop
      simp only [Indexmeta_Meta.zero, Nat.zero_add, hr', bind_ok, pure_eq_ok, ofKvs_eq]

/-! ### Get / GetUint64 -/

theorem get_loop (fuel0 : Nat) (m : Indexmeta_Meta) (l : List Indexmeta_KV) (key : List UInt8) (hl : l.length < 2 ^ 62) :
    ∀ (fuel k : Nat), k ≤ l.length → l.length - k < fuel →
      metaGet.loop1 fuel0 m l fuel key (k : Int) =
        match (l.drop k).find? (fun kv => kv.Key == key) with
        | some kv => .ok (.ret (kv.Value, true))
        | none => .ok (.done (key, (l.length : Int))) := by
  intro fuel
  induction fuel with
  | zero => intro k _ h; omega
  | succ f ih =>
    intro k hk hf
    rw [metaGet.loop1]
    by_cases hlt : k < l.length
    · have hlt' : (k : Int) < Go.len l := by unfold Go.len; omega
      have hgd : l.getD k default = l[k] := by
        simp [List.getD_eq_getElem?_getD, List.getElem?_eq_getElem hlt]
      have hidx : Go.idx l (k : Int) = .ok l[k] := by
        unfold Go.idx
        have : (0:Int) ≤ k ∧ (k:Int) < l.length := by omega
        simp only [this, and_self, if_true, pure_eq_ok, Int.toNat_natCast, hgd]
      have hdrop : l.drop k = l[k] :: l.drop (k + 1) := List.drop_eq_getElem_cons hlt
      have hw : Go.wrap64 ((k : Int) + 1) = ((k + 1 : Nat) : Int) := by rw [Go.wrap64_id] <;> omega
      simp only [hlt', decide_true, Bool.not_true, Bool.false_eq_true, if_false, hidx, bind_ok, hw]
      conv => rhs; rw [hdrop, List.find?_cons]
      by_cases he : l[k].Key == key
      · simp only [he, if_true, pure_eq_ok]
      · simp only [he, Bool.false_eq_true, if_false]
        exact ih (k + 1) (by omega) (by omega)
    · have hke : k = l.length := by omega
      subst hke
      have hlt' : ¬ ((l.length : Nat) : Int) < Go.len l := by unfold Go.len; omega
      simp [hlt']

/-- **tie**: `Meta.Get(key)` = the model's `get`: the first value stored under the key, or `(nil, false)` -/
theorem gen_metaGet_eq_model (m : Indexmeta_Meta) (key : List UInt8) (fuel : Nat) (hf : m.KeyVals.length < fuel)
    (hl : m.KeyVals.length < 2 ^ 62) :
    metaGet fuel m key = .ok (match IndexMeta.get (kvs m) key with | some v => (v, true) | none => ([], false)) := by
  unfold metaGet IndexMeta.get kvs
  have h := get_loop fuel m m.KeyVals key hl fuel 0 (by omega) (by omega)
  simp only [Int.natCast_zero, List.drop_zero] at h
  simp only [h, bind_ok]
  rw [List.find?_map]
  cases hfind : m.KeyVals.find? (fun kv => kv.Key == key) with
  | none =>
    have : List.find? ((fun kv => kv.1 == key) ∘ fun kv => (kv.Key, kv.Value)) m.KeyVals = none := by
      simpa [Function.comp_def] using hfind
    simp [this]
  | some kv =>
    have : List.find? ((fun kv => kv.1 == key) ∘ fun kv => (kv.Key, kv.Value)) m.KeyVals = some kv := by
      simpa [Function.comp_def] using hfind
    simp [this]


/-- **tie**: `Meta.GetUint64(key)` = the model's `getUint64`: absent key or a value shorter than 8 bytes give `(0, false)`,
    otherwise the little-endian value of the first 8 bytes -/
theorem gen_metaGetUint64_eq_model (m : Indexmeta_Meta) (key : List UInt8) (fuel : Nat) (hf : m.KeyVals.length < fuel)
    (hl : m.KeyVals.length < 2 ^ 62) :
    metaGetUint64 fuel m key = .ok (match IndexMeta.getUint64 (kvs m) key with
      | .val n => (UInt64.ofNat n, true)
      | _ => (0, false)) := by
  unfold metaGetUint64 IndexMeta.getUint64
  simp only [gen_metaGet_eq_model m key fuel hf hl, bind_ok]
  cases hg : IndexMeta.get (kvs m) key with
  | none => simp
  | some v =>
    simp only [Bool.not_true, Bool.false_eq_true, if_false]
    by_cases h8 : v.length < 8
    · have : (Go.len v < 8) := by unfold Go.len; omega
      simp [this, h8]
    · have : ¬ (Go.len v < 8) := by unfold Go.len; omega
      simp only [this, decide_false, Bool.false_eq_true, if_false, h8]
      unfold metaDecodeUint64
      have h8' : 8 ≤ v.length := by omega
      simp [Go.leU64, h8', leDecode_eq_unle]

/-! ### non-vacuity -/

example : metaMarshal 10 (ofKvs [([1, 2], [3])]) = .ok [1, 2, 1, 2, 1, 3] := by rfl
example : metaUnmarshal 300 Indexmeta_Meta.zero [1, 2, 1, 2, 1, 3] = .ok (ofKvs [([1, 2], [3])]) := by rfl
example : ∃ t, metaUnmarshal 300 Indexmeta_Meta.zero [1, 2, 1, 2, 5, 3] = .error (.err t) := ⟨_, rfl⟩
example : metaGet 10 (ofKvs [([1, 2], [3]), ([7], [8, 9])]) [7] = .ok ([8, 9], true) := by rfl

end GoTies.C10

import Faithful.Generated.GoFns
import Faithful.Lib.Bucketteer
import Faithful.Ties.Basic
import Faithful.Ties.C05
/-!
C05 tie: the whole read path of the signature-existence index, `bucketteer.Reader.Has` (`read.go`), translated from
/repo's working tree on every run — the prefix table lookup, the `math.MaxUint64` sentinel, the 4-byte count read, the
`io.SectionReader` over `numHashes*8` bytes (product in uint32), the getter closure over `readUint64Le`, `searchEytzinger`,
the `errors.Is(err, ErrNotFound)` dispatch — computes `hasSpec` over an in-memory content reader, for every content,
every prefix table, every signature and every hash function.

The content reader is `memRd c` (what `bytes.Reader.ReadAt` / `mmap.ReaderAt.ReadAt` do over the bytes `c`: the io.ReaderAt
contract with io.EOF on a short read).  The hash `xxhash.Sum64` is a parameter.
-/
namespace GoTies.BkHas
open Go Generated.G GoTies GoTies.C05

/-- `ReadAt` of an in-memory reader over `c` -/
def memRd (c : List UInt8) : Go.ReaderAt := fun n off =>
  if off < 0 then ([], Go.Error.other "negative offset")
  else if off.toNat ≥ c.length then ([], Go.Error.eof)
  else ((c.drop off.toNat).take n.toNat, if c.length - off.toNat < n.toNat then Go.Error.eof else Go.Error.nil)

/-- the entry getter the model's search uses -/
def getSpec (c : List UInt8) (base n : Nat) : Nat → Option Nat := fun i =>
  if i * 8 + 8 ≤ n then
    (if base + i * 8 + 8 ≤ c.length then some (B.unle ((c.drop (base + i * 8)).take 8)) else none)
  else none

/-- `Reader.Has` over the content bytes `c` (the file after the header), for prefix number `p` and wanted hash `x` -/
def hasSpec (c : List UInt8) (table : List UInt64) (p : Nat) (x : Nat) (fuel : Nat) : BK.Res :=
  let off := (table.getD p 0).toNat
  if off = 2 ^ 64 - 1 then .no
  else if off ≥ 2 ^ 63 then .err
  else if off + 4 > c.length then .err
  else
    let nb := B.unle ((c.drop off).take 4)
    BK.searchB (getSpec c (off + 4) ((nb * 8) % 2 ^ 32)) x nb fuel 0

/-- general-fuel form of the search tie of `Ties/C05.lean` -/
theorem search_eq (get : Nat → Option Nat) (x : UInt64) (max : Nat) (hmax : max < 2 ^ 62) (ioErr : Err)
    (getter : Int → M UInt64) (fuel : Nat) (hf : max < fuel)
    (hget : ∀ i : Nat, i < max → getter (i : Int) = match get i with | none => .error ioErr | some k => .ok (UInt64.ofNat k))
    (hr : ∀ i k, get i = some k → k < 2 ^ 64) :
    bkSearchEytzinger fuel 0 (max : Int) x getter = resToM x ioErr (BK.searchB get x.toNat max fuel 0) := by
  have h := bk_loop_eq get x max hmax ioErr getter fuel hget hr fuel 0 (by omega) (by omega)
  unfold bkSearchEytzinger
  simp only [Int.natCast_zero] at h
  cases hs : BK.searchB get x.toNat max fuel 0 with
  | yes => rw [hs] at h; simp only [resToLoop] at h; simp [h, resToM]
  | no =>
    rw [hs] at h; simp only [resToLoop] at h
    obtain ⟨i, h⟩ := h
    simp [h, resToM, throw, throwThe, MonadExceptOf.throw]
  | err => rw [hs] at h; simp only [resToLoop] at h; simp [h, resToM]

/-- the getter closure of `Has` -/
def getterOf (bucketReader : Go.ReaderAt) : Int → M UInt64 := fun index =>
  bkReadUint64Le bucketReader (Go.wrap64 (index * 8)) >>= fun t =>
  if (t.2 != Go.Error.nil) = true then throw (Err.err (Go.Error.tag t.2)) else pure t.1

/-- the translated `Has`, restated (tied to the translation by `rfl`) -/
def hasM (xx : List UInt8 → UInt64) (fuel : Nat) (r : Bucketteer_Reader) (sig : List UInt8) : M (Bool × Go.Error) :=
  Go.idx sig 0 >>= fun t1 =>
  Go.idx sig 1 >>= fun t2 =>
  bkPrefixToUint16 [t1, t2] >>= fun t4 =>
  Go.idx r.prefixToOffset (t4.toNat : Int) >>= fun offset =>
  if (offset == (18446744073709551615 : UInt64)) = true then pure (false, Go.Error.nil) else
  Go.makeOf (0 : UInt8) 4 >>= fun t5 =>
  let t6 := r.contentReader (Go.len t5) (Go.intOfU64 offset)
  if (t6.2 != Go.Error.nil) = true then pure (false, t6.2) else
  Go.leU32 (t6.1 ++ t5.drop t6.1.length) >>= fun numHashes =>
  bkHash xx sig >>= fun wantedHash =>
  Go.catchErr (bkSearchEytzinger fuel 0 (numHashes.toNat : Int) wantedHash
      (getterOf (Go.sectionReader r.contentReader (Go.wrap64 (Go.intOfU64 offset + 4)) ((numHashes * 8).toNat : Int)))) 0 >>= fun t10 =>
  if (t10.2 != Go.Error.nil) = true then
    (if (Go.Error.is t10.2 (Go.Error.other "ErrNotFound")) = true then pure (false, Go.Error.nil) else pure (false, t10.2))
  else pure ((t10.1 == wantedHash), Go.Error.nil)

theorem has_unfold (xx : List UInt8 → UInt64) (fuel : Nat) (r : Bucketteer_Reader) (sig : List UInt8) :
    bkReaderHas xx fuel r sig = hasM xx fuel r sig := rfl

theorem readU64_eq (rdr : Go.ReaderAt) (pos : Int) :
    bkReadUint64Le rdr pos =
      if ((rdr 8 pos).2 != Go.Error.nil) = true then .ok (0, (rdr 8 pos).2)
      else (Go.leU64 ((rdr 8 pos).1 ++ (List.replicate 8 (0 : UInt8)).drop (rdr 8 pos).1.length) >>= fun v => pure (v, Go.Error.nil)) := by
  unfold bkReadUint64Le
  have hmk : Go.makeOf (0 : UInt8) (8 : Int) = .ok (List.replicate 8 0) := by
    unfold Go.makeOf; rw [if_pos (by omega)]; rfl
  simp only [hmk, bind_ok]
  have hl : Go.len (List.replicate 8 (0 : UInt8)) = 8 := by unfold Go.len; simp
  rw [hl]
  by_cases h : ((rdr 8 pos).2 != Go.Error.nil) = true
  · simp only [h, if_true]; rfl
  · simp only [h]; rfl

/-- an in-memory read of 8 bytes at a non-negative offset -/
theorem memRd8 (c : List UInt8) (k : Nat) :
    memRd c 8 (k : Int) = if k + 8 ≤ c.length then ((c.drop k).take 8, Go.Error.nil)
      else (if k ≥ c.length then [] else (c.drop k).take 8, Go.Error.eof) := by
  unfold memRd
  have h0 : ¬ ((k : Int) < 0) := by omega
  simp only [h0, if_false, Int.toNat_natCast]
  have e8 : (8 : Int).toNat = 8 := rfl
  rw [e8]
  by_cases h1 : k ≥ c.length
  · have : ¬ (k + 8 ≤ c.length) := by omega
    simp [h1, this]
  · by_cases h2 : k + 8 ≤ c.length
    · have : ¬ (c.length - k < 8) := by omega
      simp [h1, h2, this]
    · have : c.length - k < 8 := by omega
      simp [h1, h2, this]

theorem memRd_err (c : List UInt8) (n : Int) (k : Nat) : (memRd c n (k : Int)).2 = Go.Error.nil ∨ (memRd c n (k : Int)).2 = Go.Error.eof := by
  unfold memRd
  have h0 : ¬ ((k : Int) < 0) := by omega
  simp only [h0, if_false]
  split
  · right; rfl
  · split
    · right; rfl
    · left; rfl

/-- the section reader of `Has` (over `n` bytes from `base`) asked for the 8 bytes of entry `i` -/
theorem section8 (c : List UInt8) (base n i : Nat) (hb : base + n < 2 ^ 62) (hi : i < 2 ^ 40) :
    (if i * 8 + 8 ≤ n then Go.sectionReader (memRd c) (base : Int) (n : Int) 8 ((i * 8 : Nat) : Int) = memRd c 8 ((base + i * 8 : Nat) : Int)
     else (Go.sectionReader (memRd c) (base : Int) (n : Int) 8 ((i * 8 : Nat) : Int)).2 = Go.Error.eof) := by
  unfold Go.sectionReader
  have hlim : ((base : Int) ≤ 9223372036854775807 - (n : Int)) := by omega
  simp only [hlim, if_true]
  by_cases h : i * 8 + 8 ≤ n
  · simp only [h, if_true]
    have h1 : ¬ ((((i * 8 : Nat) : Int) < 0) ∨ (((i * 8 : Nat) : Int) ≥ (base : Int) + (n : Int) - (base : Int))) := by omega
    have h2 : ¬ ((8 : Int) > (base : Int) + (n : Int) - (((i * 8 : Nat) : Int) + (base : Int))) := by omega
    simp only [h1, if_false, h2]
    congr 1
    omega
  · simp only [h, if_false]
    by_cases h1 : (((i * 8 : Nat) : Int) < 0) ∨ (((i * 8 : Nat) : Int) ≥ (base : Int) + (n : Int) - (base : Int))
    · simp only [h1, if_true]
    · have h2 : ((8 : Int) > (base : Int) + (n : Int) - (((i * 8 : Nat) : Int) + (base : Int))) := by omega
      simp only [h1, if_false, h2, if_true]
      have he : (((i * 8 : Nat) : Int) + (base : Int)) = ((i * 8 + base : Nat) : Int) := by omega
      rw [he]
      rcases memRd_err c ((base : Int) + (n : Int) - ((i * 8 + base : Nat) : Int)) (i * 8 + base) with h3 | h3
      · rw [h3]; rfl
      · rw [h3]; rfl

theorem getter_eq (c : List UInt8) (base n i : Nat) (hb : base + n < 2 ^ 62) (hi : i < 2 ^ 40) :
    getterOf (Go.sectionReader (memRd c) (base : Int) (n : Int)) (i : Int) =
      match getSpec c base n i with
      | none => .error (.err "EOF")
      | some k => .ok (UInt64.ofNat k) := by
  unfold getterOf getSpec
  have hw : Go.wrap64 ((i : Int) * 8) = ((i * 8 : Nat) : Int) := by
    rw [Go.wrap64_id] <;> omega
  rw [hw, readU64_eq]
  have hs := section8 c base n i hb hi
  by_cases h : i * 8 + 8 ≤ n
  · simp only [h, if_true] at hs ⊢
    rw [hs, memRd8]
    by_cases h2 : base + i * 8 + 8 ≤ c.length
    · simp only [h2, if_true]
      have hnil : ¬ ((Go.Error.nil != Go.Error.nil) = true) := by decide
      simp only [hnil]
      have hl : ((c.drop (base + i * 8)).take 8).length = 8 := by simp; omega
      rw [hl]
      have : Go.leU64 ((c.drop (base + i * 8)).take 8 ++ (List.replicate 8 (0 : UInt8)).drop 8)
          = .ok (UInt64.ofNat (B.unle ((c.drop (base + i * 8)).take 8))) := by
        unfold Go.leU64
        simp only [List.drop_replicate, Nat.sub_self, List.replicate_zero, List.append_nil]
        rw [if_pos (by omega), leDecode_eq_unle, List.take_take]; rfl
      rw [this]
      rfl
    · simp only [h2, if_false]
      have : ((Go.Error.eof != Go.Error.nil) = true) := by decide
      simp only [this, if_true]
      rfl
  · simp only [h, if_false] at hs ⊢
    rw [hs]
    have : ((Go.Error.eof != Go.Error.nil) = true) := by decide
    simp only [this, if_true]
    rfl

theorem unle8_lt (b : List UInt8) : B.unle (b.take 8) < 2 ^ 64 := by
  have := unle_lt (b.take 8)
  have h2 : (b.take 8).length ≤ 8 := by simp; omega
  have e : (256 : Nat) ^ 8 = 2 ^ 64 := by decide
  calc B.unle (b.take 8) < 256 ^ (b.take 8).length := this
    _ ≤ 256 ^ 8 := Nat.pow_le_pow_right (by omega) h2
    _ = 2 ^ 64 := e

theorem unle4_lt (b : List UInt8) : B.unle (b.take 4) < 2 ^ 32 := by
  have := unle_lt (b.take 4)
  have h2 : (b.take 4).length ≤ 4 := by simp; omega
  have e : (256 : Nat) ^ 4 = 2 ^ 32 := by decide
  calc B.unle (b.take 4) < 256 ^ (b.take 4).length := this
    _ ≤ 256 ^ 4 := Nat.pow_le_pow_right (by omega) h2
    _ = 2 ^ 32 := e

theorem bound62 (off n L : Nat) (h1 : off + 4 ≤ L) (h2 : L < 2 ^ 61) (h3 : n < 2 ^ 32) : off + 4 + n < 2 ^ 62 := by omega
theorem bound40 (i nb : Nat) (h1 : i < nb) (h2 : nb < 2 ^ 32) : i < 2 ^ 40 := by omega
theorem bound62b (nb : Nat) (h2 : nb < 2 ^ 32) : nb < 2 ^ 62 := by omega
theorem boundf (nb fuel : Nat) (h2 : nb < 2 ^ 32) (hf : 2 ^ 32 ≤ fuel) : nb < fuel := by omega

theorem memRd4 (c : List UInt8) (k : Nat) :
    memRd c 4 (k : Int) = if k + 4 ≤ c.length then ((c.drop k).take 4, Go.Error.nil)
      else (if k ≥ c.length then [] else (c.drop k).take 4, Go.Error.eof) := by
  unfold memRd
  have h0 : ¬ ((k : Int) < 0) := by omega
  simp only [h0, if_false, Int.toNat_natCast]
  have e4 : (4 : Int).toNat = 4 := rfl
  rw [e4]
  by_cases h1 : k ≥ c.length
  · have : ¬ (k + 4 ≤ c.length) := by omega
    simp [h1, this]
  · by_cases h2 : k + 4 ≤ c.length
    · have : ¬ (c.length - k < 4) := by omega
      simp [h1, h2, this]
    · have : c.length - k < 4 := by omega
      simp [h1, h2, this]

/-- **tie**: `Reader.Has(sig)`, as translated from the source, over an in-memory content reader = `hasSpec`: `true` exactly
    when the search finds the wanted hash in the bucket of the signature's two-byte prefix, `false` when the prefix has no
    bucket (the `MaxUint64` sentinel) or the search ends, and an error (never a panic) when a read fails — for every
    content below 2^61 bytes, every 65 536-entry table, every signature of at least two bytes, every hash function and
    every fuel ≥ 2^32 (the count field is a uint32) -/
theorem gen_bkReaderHas_eq_spec (xx : List UInt8 → UInt64) (c : List UInt8) (table : List UInt64) (m : Indexmeta_Meta)
    (a b : UInt8) (rest : List UInt8) (fuel : Nat)
    (htab : table.length = 65536) (hc : c.length < 2 ^ 61) (hf : 2 ^ 32 ≤ fuel) :
    match hasSpec c table (BK.prefixOf [a, b]) (xx (a :: b :: rest)).toNat fuel with
    | .yes => bkReaderHas xx fuel { contentReader := memRd c, meta_ := m, prefixToOffset := table } (a :: b :: rest) = .ok (true, Go.Error.nil)
    | .no => bkReaderHas xx fuel { contentReader := memRd c, meta_ := m, prefixToOffset := table } (a :: b :: rest) = .ok (false, Go.Error.nil)
    | .err => ∃ e, e ≠ Go.Error.nil ∧
        bkReaderHas xx fuel { contentReader := memRd c, meta_ := m, prefixToOffset := table } (a :: b :: rest) = .ok (false, e) := by
  rw [has_unfold]
  unfold hasM hasSpec
  have i0 : Go.idx (a :: b :: rest) 0 = .ok a := by
    unfold Go.idx; rw [if_pos (by simp; omega)]; rfl
  have i1 : Go.idx (a :: b :: rest) 1 = .ok b := by
    unfold Go.idx; rw [if_pos (by simp; omega)]; rfl
  simp only [i0, i1, bind_ok, gen_bkPrefixToUint16_eq_model]
  have hp : BK.prefixOf [a, b] < 65536 := by
    unfold BK.prefixOf; have := a.toNat_lt; have := b.toNat_lt; simp; omega
  generalize BK.prefixOf [a, b] = p at hp ⊢
  have hpn : (UInt16.ofNat p).toNat = p := by rw [UInt16.toNat_ofNat']; exact Nat.mod_eq_of_lt hp
  have it : Go.idx table ((UInt16.ofNat p).toNat : Int) = .ok (table.getD p 0) := by
    unfold Go.idx; rw [hpn, if_pos (by omega)]; rfl
  simp only [it, bind_ok]
  generalize table.getD p 0 = offset
  by_cases hmax : offset.toNat = 2 ^ 64 - 1
  · have : (offset == (18446744073709551615 : UInt64)) = true := by
      rw [beq_iff_eq, ← UInt64.toNat_inj, hmax]; rfl
    simp only [hmax, if_true, this]
    rfl
  · have hne : ¬ ((offset == (18446744073709551615 : UInt64)) = true) := by
      rw [beq_iff_eq, ← UInt64.toNat_inj]; intro h; apply hmax; rw [h]; rfl
    simp only [hmax, if_false, hne]
    have hmk : Go.makeOf (0 : UInt8) (4 : Int) = .ok (List.replicate 4 0) := by
      unfold Go.makeOf; rw [if_pos (by omega)]; rfl
    simp only [hmk, bind_ok]
    have hl4 : Go.len (List.replicate 4 (0 : UInt8)) = 4 := by unfold Go.len; simp
    rw [hl4]
    by_cases hneg : offset.toNat ≥ 2 ^ 63
    · -- int64(offset) is negative: the in-memory reader refuses the offset
      have hio : Go.intOfU64 offset < 0 := by
        unfold Go.intOfU64 Go.wrap64; have := offset.toNat_lt; omega
      have hrd : memRd c 4 (Go.intOfU64 offset) = ([], Go.Error.other "negative offset") := by
        unfold memRd; rw [if_pos hio]
      simp only [hneg, if_true, hrd]
      refine ⟨Go.Error.other "negative offset", (by intro h; cases h), ?_⟩
      have : ((Go.Error.other "negative offset" != Go.Error.nil) = true) := by simp
      simp only [this, if_true]
      rfl
    · have hio : Go.intOfU64 offset = (offset.toNat : Int) := by
        unfold Go.intOfU64; rw [Go.wrap64_id] <;> omega
      simp only [hneg, if_false, hio, memRd4]
      generalize offset.toNat = off at hneg hmax ⊢
      by_cases hshort : off + 4 > c.length
      · have h4 : ¬ (off + 4 ≤ c.length) := by omega
        simp only [hshort, if_true, h4, if_false]
        refine ⟨Go.Error.eof, (by intro h; cases h), ?_⟩
        have : ((Go.Error.eof != Go.Error.nil) = true) := by decide
        simp only [this, if_true]
        rfl
      · have h4 : off + 4 ≤ c.length := by omega
        simp only [hshort, if_false, h4, if_true]
        have hnil : ¬ ((Go.Error.nil != Go.Error.nil) = true) := by decide
        simp only [hnil]
        have hlen : ((c.drop off).take 4).length = 4 := by simp; omega
        have hle : Go.leU32 ((c.drop off).take 4 ++ (List.replicate 4 (0 : UInt8)).drop ((c.drop off).take 4).length)
            = .ok (UInt32.ofNat (B.unle ((c.drop off).take 4))) := by
          rw [hlen]
          unfold Go.leU32
          simp only [List.drop_replicate, Nat.sub_self, List.replicate_zero, List.append_nil]
          rw [if_pos (by omega), leDecode_eq_unle, List.take_take]; rfl
        rw [hle, bind_ok]
        have hnb : B.unle ((c.drop off).take 4) < 2 ^ 32 := unle4_lt (c.drop off)
        generalize B.unle ((c.drop off).take 4) = nb at hnb ⊢
        have hh : bkHash xx (a :: b :: rest) = .ok (xx (a :: b :: rest)) := rfl
        rw [hh, bind_ok]
        generalize xx (a :: b :: rest) = x
        have hnbn : (UInt32.ofNat nb).toNat = nb := by rw [UInt32.toNat_ofNat']; exact Nat.mod_eq_of_lt hnb
        have hmul : ((UInt32.ofNat nb * 8).toNat : Int) = (((nb * 8) % 2 ^ 32 : Nat) : Int) := by
          rw [UInt32.toNat_mul, hnbn]; rfl
        have hbase : Go.wrap64 ((off : Int) + 4) = ((off + 4 : Nat) : Int) := by
          rw [Go.wrap64_id] <;> omega
        rw [hnbn, hmul, hbase]
        have hn32 : (nb * 8) % 2 ^ 32 < 2 ^ 32 := Nat.mod_lt _ (by decide)
        have hs := search_eq (getSpec c (off + 4) ((nb * 8) % 2 ^ 32)) x nb (bound62b nb hnb) (.err "EOF")
          (getterOf (Go.sectionReader (memRd c) ((off + 4 : Nat) : Int) (((nb * 8) % 2 ^ 32 : Nat) : Int))) fuel (boundf nb fuel hnb hf)
          (fun i hi => getter_eq c (off + 4) ((nb * 8) % 2 ^ 32) i (bound62 off _ c.length h4 hc hn32) (bound40 i nb hi hnb))
          (by
            intro i k hk
            unfold getSpec at hk
            split at hk
            · split at hk
              · simp only [Option.some.injEq] at hk
                rw [← hk]
                exact unle8_lt (c.drop (off + 4 + i * 8))
              · cases hk
            · cases hk)
        rw [hs]
        cases hres : BK.searchB (getSpec c (off + 4) ((nb * 8) % 2 ^ 32)) x.toNat nb fuel 0 with
        | yes =>
          simp only [resToM, Go.catchErr, bind_ok, pure_eq_ok]
          simp only [hnil, beq_self_eq_true]
          rfl
        | no =>
          simp only [resToM, Go.catchErr, bind_ok, pure_eq_ok]
          have h1 : ((Go.Error.other "ErrNotFound" != Go.Error.nil) = true) := by simp
          have h2 : (Go.Error.is (Go.Error.other "ErrNotFound") (Go.Error.other "ErrNotFound")) = true := by
            unfold Go.Error.is; simp
          simp only [h1, if_true, h2]
          rfl
        | err =>
          simp only [resToM, Go.catchErr, bind_ok, pure_eq_ok]
          refine ⟨Go.Error.other "EOF", (by intro h; cases h), ?_⟩
          have h1 : ((Go.Error.other "EOF" != Go.Error.nil) = true) := by simp
          have h2 : ¬ ((Go.Error.is (Go.Error.other "EOF") (Go.Error.other "ErrNotFound")) = true) := by
            unfold Go.Error.is; simp
          simp only [h1, if_true, h2]
          rfl

/-- never a panic, never out of fuel -/
theorem gen_bkReaderHas_total (xx : List UInt8 → UInt64) (c : List UInt8) (table : List UInt64) (m : Indexmeta_Meta)
    (a b : UInt8) (rest : List UInt8) (fuel : Nat)
    (htab : table.length = 65536) (hc : c.length < 2 ^ 61) (hf : 2 ^ 32 ≤ fuel) :
    ∃ r, bkReaderHas xx fuel { contentReader := memRd c, meta_ := m, prefixToOffset := table } (a :: b :: rest) = .ok r := by
  have := gen_bkReaderHas_eq_spec xx c table m a b rest fuel htab hc hf
  cases h : hasSpec c table (BK.prefixOf [a, b]) (xx (a :: b :: rest)).toNat fuel with
  | yes => rw [h] at this; exact ⟨_, this⟩
  | no => rw [h] at this; exact ⟨_, this⟩
  | err => rw [h] at this; obtain ⟨e, _, he⟩ := this; exact ⟨_, he⟩

/-! ### `hasSpec` is the model's `BK.hasB` (the reader the no-false-negative theorems of C05 are about) -/

/-- the search does not depend on the fuel once the fuel exceeds what is left of the table -/
theorem searchB_fuel (get : Nat → Option Nat) (x max : Nat) :
    ∀ (f1 f2 n : Nat), max < n + f1 → max < n + f2 → BK.searchB get x max f1 n = BK.searchB get x max f2 n := by
  intro f1
  induction f1 with
  | zero =>
    intro f2 n h1 h2
    cases f2 with
    | zero => rfl
    | succ f2 =>
      have : ¬ n < max := by omega
      simp [BK.searchB, this]
  | succ f1 ih =>
    intro f2 n h1 h2
    cases f2 with
    | zero =>
      have : ¬ n < max := by omega
      simp [BK.searchB, this]
    | succ f2 =>
      rw [BK.searchB, BK.searchB]
      by_cases hn : n < max
      · simp only [hn, if_true]
        cases get n with
        | none => rfl
        | some k =>
          simp only
          by_cases hk : k = x
          · simp [hk]
          · simp only [hk, if_false]
            by_cases hl : k < x
            · simp only [hl, if_true]; exact ih f2 (2 * n + 2) (by omega) (by omega)
            · simp only [hl, if_false]; exact ih f2 (2 * n + 1) (by omega) (by omega)
      · simp only [hn, if_false]

/-- the prefix table of a version-2 reader as the array of 65 536 `uint64` the Go reader holds -/
def TableRep (t : Array (Option Nat)) (T : List UInt64) : Prop :=
  T.length = 65536 ∧ ∀ p, p < 65536 →
    match t.getD p none with
    | none => T.getD p 0 = 18446744073709551615
    | some off => off < 2 ^ 64 ∧ T.getD p 0 = UInt64.ofNat off

/-- **`hasSpec` over the content = the model's `hasB` over the file**, for a version-2 reader whose content starts at `base` -/
theorem hasSpec_eq_hasB (l : List UInt8) (r : BK.Rdr) (T : List UInt64) (p x fuel : Nat)
    (hv2 : r.fmt = .v2) (hT : TableRep r.table T) (hp : p < 65536) (hbase : r.base ≤ l.length) (hf : 2 ^ 32 ≤ fuel) :
    hasSpec (l.drop r.base) T p x fuel = BK.hasB l.toArray r p x := by
  obtain ⟨_, hrep⟩ := hT
  have hr := hrep p hp
  unfold hasSpec BK.hasB
  cases ht : r.table.getD p none with
  | none =>
    rw [ht] at hr
    simp only at hr
    rw [hr]
    simp
  | some off =>
    rw [ht] at hr
    obtain ⟨holt, hTo⟩ := hr
    rw [hTo]
    have hton : (UInt64.ofNat off).toNat = off := by rw [UInt64.toNat_ofNat']; exact Nat.mod_eq_of_lt holt
    simp only [hton, hv2, true_and]
    by_cases hmax : off = 2 ^ 64 - 1
    · simp [hmax]
    · simp only [hmax, if_false]
      by_cases hneg : off ≥ 2 ^ 63
      · simp [hneg]
      · simp only [hneg, if_false]
        rw [BK.rd_toArray]
        have hlen : (l.drop r.base).length = l.length - r.base := by simp
        by_cases h4 : off + 4 > (l.drop r.base).length
        · have : ¬ (r.base + off + 4 ≤ l.length) := by rw [hlen] at h4; omega
          simp only [h4, if_true, this, if_false]
        · have h4' : r.base + off + 4 ≤ l.length := by rw [hlen] at h4; omega
          simp only [h4, if_false, h4', if_true]
          have hnbeq : B.slice l (r.base + off) 4 = ((l.drop r.base).drop off).take 4 := by
            unfold B.slice; rw [List.drop_drop]
          rw [hnbeq]
          have hnb := unle4_lt ((l.drop r.base).drop off)
          generalize B.unle (((l.drop r.base).drop off).take 4) = nb at hnb ⊢
          have hget : getSpec (l.drop r.base) (off + 4) ((nb * 8) % 2 ^ 32)
              = (fun i => if i * 8 + 8 ≤ (nb * 8) % 2 ^ 32 then (BK.rd l.toArray (r.base + off + 4 + i * 8) 8).map B.unle else none) := by
            funext i
            unfold getSpec
            by_cases hi : i * 8 + 8 ≤ (nb * 8) % 2 ^ 32
            · simp only [hi, if_true]
              rw [BK.rd_toArray]
              by_cases h8 : off + 4 + i * 8 + 8 ≤ (l.drop r.base).length
              · have h8' : r.base + off + 4 + i * 8 + 8 ≤ l.length := by rw [hlen] at h8; omega
                simp only [h8, if_true, h8', Option.map_some]
                unfold B.slice
                rw [List.drop_drop]
                congr 4
                omega
              · have h8' : ¬ (r.base + off + 4 + i * 8 + 8 ≤ l.length) := by rw [hlen] at h8; omega
                simp only [h8, if_false, h8', Option.map_none]
            · simp only [hi, if_false]
          rw [hget]
          exact searchB_fuel _ x nb fuel (nb + 1) 0 (by omega) (by omega)

/-- the chain on the code in the tree: translated `Reader.Has` over the content of a version-2 file answers what the
    model's `hasB` answers (the function `has_bytes_agree` / `seal_has_bytes` / `has_only_if_bytes` of C05 are stated about) -/
theorem gen_bkReaderHas_eq_hasB (xx : List UInt8 → UInt64) (l : List UInt8) (r : BK.Rdr) (T : List UInt64) (m : Indexmeta_Meta)
    (a b : UInt8) (rest : List UInt8) (fuel : Nat)
    (hv2 : r.fmt = .v2) (hT : TableRep r.table T) (hbase : r.base ≤ l.length) (hl : l.length < 2 ^ 61) (hf : 2 ^ 32 ≤ fuel) :
    match BK.hasB l.toArray r (BK.prefixOf [a, b]) (xx (a :: b :: rest)).toNat with
    | .yes => bkReaderHas xx fuel { contentReader := memRd (l.drop r.base), meta_ := m, prefixToOffset := T } (a :: b :: rest) = .ok (true, Go.Error.nil)
    | .no => bkReaderHas xx fuel { contentReader := memRd (l.drop r.base), meta_ := m, prefixToOffset := T } (a :: b :: rest) = .ok (false, Go.Error.nil)
    | .err => ∃ e, e ≠ Go.Error.nil ∧
        bkReaderHas xx fuel { contentReader := memRd (l.drop r.base), meta_ := m, prefixToOffset := T } (a :: b :: rest) = .ok (false, e) := by
  have hp : BK.prefixOf [a, b] < 65536 := by
    unfold BK.prefixOf; have := a.toNat_lt; have := b.toNat_lt; simp; omega
  have := gen_bkReaderHas_eq_spec xx (l.drop r.base) T m a b rest fuel hT.1 (by simp; omega) hf
  rw [hasSpec_eq_hasB l r T _ _ fuel hv2 hT hp hbase hf] at this
  exact this

/-! examples (the spec on a bucket of two hashes laid out as [5, 3]; prefix 0 has the bucket at content offset 0) -/
def exContent : List UInt8 := [2, 0, 0, 0] ++ B.le 8 5 ++ B.le 8 3
def exTable : List UInt64 := 0 :: List.replicate 65535 18446744073709551615

example : hasSpec exContent exTable 0 3 100 = .yes := by decide
example : hasSpec exContent exTable 0 4 100 = .no := by decide
example : hasSpec exContent exTable 1 3 100 = .no := by decide
example : hasSpec (exContent.take 19) exTable 0 3 100 = .err := by decide
example : exTable.length = 65536 := by unfold exTable; rw [List.length_cons, List.length_replicate]

end GoTies.BkHas

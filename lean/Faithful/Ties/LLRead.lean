import Faithful.Generated.GoFns
import Faithful.Lib.GsfaLog
import Faithful.Ties.Basic
import Faithful.Ties.C01
import Faithful.Ties.LinkedLog
import Faithful.Ties.BkHas
import Faithful.Ties.CILookup
/-!
C06 / C12 / C13 tie: the record reader of the address index's linked log — `LinkedLog.ReadWithSize` and
`decompressIndexes` (`gsfa/linkedlog/linked-log.go`), translated from /repo's working tree on every run — is the model's
`Gsfa.readWithSize` (the function `record_roundtrip`, `walk_chain` and `gsfa_roundtrip` of C06 are stated about): the 256 MiB
cap, the file-size guard, the uvarint prefix whose width is taken from the record itself, the 9-byte pointer to the previous
record, zstd (an arbitrary partial function) and the entry decoder.

`*os.File` is an in-memory `io.ReaderAt` here (`memRd file`), `os.File.Stat().Size()` the length of the file.
-/
namespace GoTies.LLRead
open Go Generated.G GoTies GoTies.BkHas GoTies.CILookup GoTies.LinkedLog

/-- zstd as the translated code sees it: the partial function `Z` in the monad -/
def zOf (Z : List UInt8 → Option (List UInt8)) : List UInt8 → M (List UInt8) := fun b =>
  match Z b with
  | some r => .ok r
  | none => .error (.err "zstd")

theorem frSpec_bounds (buf : List UInt8) (p : Nat) (e : Gsfa.Entry) (p' : Nat) (h : frSpec buf p = .ok e p') :
    p < p' ∧ p' ≤ buf.length := by
  unfold frSpec at h
  split at h
  · cases h
  · split at h
    · cases h
    · rename_i off n1 _
      split at h
      · cases h
      · split at h
        · cases h
        · rename_i sz n2 _
          split at h
          · cases h
          · split at h
            · cases h
            · rename_i slot n3 _
              split at h
              · cases h
              · rename_i fl tl hd
                simp only [FR.ok.injEq] at h
                obtain ⟨_, h2⟩ := h
                have hlt : p + n1 + n2 + n3 < buf.length := by
                  rcases Nat.lt_or_ge (p + n1 + n2 + n3) buf.length with hh | hh
                  · exact hh
                  · have := List.drop_eq_nil_iff.mpr hh; rw [this] at hd; cases hd
                omega

/-- `parseEntries` does not depend on the fuel once the fuel exceeds the length of the input -/
theorem parseEntries_fuel_drop (buf : List UInt8) : ∀ (f1 f2 p : Nat), buf.length - p < f1 → buf.length - p < f2 →
    Gsfa.parseEntries f1 (buf.drop p) = Gsfa.parseEntries f2 (buf.drop p) := by
  intro f1
  induction f1 with
  | zero => intro f2 p h; omega
  | succ f1 ih =>
    intro f2 p h1 h2
    cases f2 with
    | zero => omega
    | succ f2 =>
      rw [parseEntries_succ, parseEntries_succ]
      cases hs : frSpec buf p with
      | eof => rfl
      | bad => rfl
      | ok e p' =>
        obtain ⟨hlt, hle⟩ := frSpec_bounds buf p e p' hs
        simp only
        rw [ih f2 p' (by omega) (by omega)]

theorem parseEntries_fuel (f1 f2 : Nat) (b : List UInt8) (h1 : b.length < f1) (h2 : b.length < f2) :
    Gsfa.parseEntries f1 b = Gsfa.parseEntries f2 b := by
  have := parseEntries_fuel_drop b f1 f2 0 (by omega) (by omega)
  simpa using this

/-! ### `decompressIndexes` -/

def decompressM (zd : List UInt8 → M (List UInt8)) (fuel : Nat) (data : List UInt8) :
    M (List Linkedlog_OffsetAndSizeAndSlot × Go.Error) :=
  Go.catchErr (zd data) ([] : List UInt8) >>= fun t1 =>
  if (t1.2 != Go.Error.nil) = true then
    pure (([] : List Linkedlog_OffsetAndSizeAndSlot), Go.Error.wrap "error while decompressing data: %w" t1.2)
  else oassSliceFromBytes fuel t1.1 >>= fun t2 => pure (t2.1, t2.2)

theorem decompress_unfold (zd : List UInt8 → M (List UInt8)) (fuel : Nat) (data : List UInt8) :
    llDecompressIndexes zd fuel data = decompressM zd fuel data := rfl

/-- the outcome of the model's `decompress` + `parseEntries` as the Go result -/
def entriesRes : Gsfa.Res (List Gsfa.Entry) → M (List Linkedlog_OffsetAndSizeAndSlot × Go.Error) → Prop
  | .ok es, r => r = .ok (es.map toGo, Go.Error.nil)
  | .error _, r => ∃ e, e ≠ Go.Error.nil ∧ r = .ok ([], e)

theorem decompress_eq (Z : List UInt8 → Option (List UInt8)) (fuel : Nat) (data : List UInt8)
    (hZ : ∀ r, Z data = some r → r.length < fuel ∧ r.length < 2 ^ 62) :
    entriesRes (match Z data with
        | none => .error (.err "error while decompressing indexes")
        | some raw => Gsfa.parseEntries (raw.length + 1) raw)
      (llDecompressIndexes (zOf Z) fuel data) := by
  rw [decompress_unfold]
  unfold decompressM zOf
  cases hz : Z data with
  | none =>
    simp only [entriesRes]
    refine ⟨Go.Error.other "zstd", (by intro h; cases h), ?_⟩
    rfl
  | some raw =>
    obtain ⟨h1, h2⟩ := hZ raw hz
    simp only
    have hnil : ¬ ((Go.Error.nil != Go.Error.nil) = true) := by simp
    show entriesRes _ (if (Go.Error.nil != Go.Error.nil) = true then
        pure (([] : List Linkedlog_OffsetAndSizeAndSlot), Go.Error.wrap "error while decompressing data: %w" Go.Error.nil) else
      oassSliceFromBytes fuel raw >>= fun t2 => pure (t2.1, t2.2))
    rw [if_neg hnil, parseEntries_fuel (raw.length + 1) fuel raw (by omega) h1]
    have := gen_oassSliceFromBytes_eq_model raw fuel h1 h2
    cases hp : Gsfa.parseEntries fuel raw with
    | ok es =>
      rw [hp] at this
      simp only [entriesRes]
      rw [this]; rfl
    | error x =>
      rw [hp] at this
      obtain ⟨t, ht⟩ := this
      simp only [entriesRes]
      refine ⟨Go.Error.other t, (by intro h; cases h), ?_⟩
      rw [ht]; rfl

/-! ### `LinkedLog.ReadWithSize` -/

def rwsM (fs : Linkedlog_LinkedLog → M UInt64) (zd : List UInt8 → M (List UInt8)) (fuel : Nat) (s : Linkedlog_LinkedLog)
    (o sz : UInt64) : M (List Linkedlog_OffsetAndSizeAndSlot × Indexes_OffsetAndSize × Go.Error) :=
  if decide (sz > 268435456) = true then
    pure ([], Indexes_OffsetAndSize.zero, Go.Error.other "compacted indexes length too large: %d")
  else Go.catchErr (fs s) 0 >>= fun t1 =>
  if (t1.2 != Go.Error.nil) = true then pure ([], Indexes_OffsetAndSize.zero, t1.2)
  else if (decide (o > t1.1) || decide (sz > t1.1 - o)) = true then
    pure ([], Indexes_OffsetAndSize.zero, Go.Error.other "record of size %d at offset %d exceeds the file size %d")
  else Go.makeOf (0 : UInt8) (sz.toNat : Int) >>= fun t2 =>
  let t3 := s.file (Go.len t2) (Go.intOfU64 o)
  if (t3.2 != Go.Error.nil) = true then pure ([], Indexes_OffsetAndSize.zero, t3.2)
  else
    let record := t3.1 ++ t2.drop t3.1.length
    if (decide ((Go.uvarint record).2 ≤ 0) || Go.u64OfInt (Go.uvarint record).2 + (Go.uvarint record).1 != sz
        || decide ((Go.uvarint record).1 < 9)) = true then
      pure ([], Indexes_OffsetAndSize.zero, Go.Error.other "invalid record of size %d at offset %d")
    else Go.slice record (Go.uvarint record).2 (Go.len record) >>= fun data =>
    Go.slice data 0 (Go.wrap64 (Go.len data - 9)) >>= fun indexesBytes =>
    Go.slice data (Go.wrap64 (Go.len data - 9)) (Go.len data) >>= fun t7 =>
    Go.catchErr (oasFromBytes Indexes_OffsetAndSize.zero t7) Indexes_OffsetAndSize.zero >>= fun t8 =>
    if (t8.2 != Go.Error.nil) = true then
      pure ([], Indexes_OffsetAndSize.zero, Go.Error.wrap "error while reading next offset: %w" t8.2)
    else llDecompressIndexes zd fuel indexesBytes >>= fun t9 =>
    if (t9.2 != Go.Error.nil) = true then
      pure ([], Indexes_OffsetAndSize.zero, Go.Error.wrap "error while decompressing indexes: %w" t9.2)
    else pure (t9.1, t8.1, Go.Error.nil)

theorem rws_unfold (fs : Linkedlog_LinkedLog → M UInt64) (zd : List UInt8 → M (List UInt8)) (fuel : Nat) (s : Linkedlog_LinkedLog)
    (o sz : UInt64) : llReadWithSize fs zd fuel s o sz = rwsM fs zd fuel s o sz := rfl

/-- how the model's answer reads as the Go result -/
def resOf : Gsfa.Res (List Gsfa.Entry × Gsfa.Ptr) →
    M (List Linkedlog_OffsetAndSizeAndSlot × Indexes_OffsetAndSize × Go.Error) → Prop
  | .ok (es, ptr), r => r = .ok (es.map toGo, { Offset := UInt64.ofNat ptr.off, Size := UInt64.ofNat ptr.size }, Go.Error.nil)
  | .error _, r => ∃ e, e ≠ Go.Error.nil ∧ r = .ok ([], Indexes_OffsetAndSize.zero, e)

theorem u64lt (a b : UInt64) : (a > b) ↔ a.toNat > b.toNat := by
  rw [gt_iff_lt, UInt64.lt_iff_toNat_lt]

theorem guard_iff (o sz : UInt64) (L : Nat) (hL : L < 2 ^ 62) :
    ((decide (o > UInt64.ofNat L) || decide (sz > UInt64.ofNat L - o)) = true) ↔ (o.toNat > L ∨ sz.toNat > L - o.toNat) := by
  have hLn : (UInt64.ofNat L).toNat = L := by
    rw [UInt64.toNat_ofNat']; exact Nat.mod_eq_of_lt (by omega)
  simp only [Bool.or_eq_true, decide_eq_true_eq, u64lt, hLn]
  by_cases h : o.toNat > L
  · simp [h]
  · have hsub : (UInt64.ofNat L - o).toNat = L - o.toNat := by
      rw [UInt64.toNat_sub_of_le _ _ (by rw [UInt64.le_iff_toNat_le, hLn]; omega), hLn]
    rw [hsub]

theorem sum_ne_iff (n l size : Nat) (hn : n ≤ size) (hn10 : n ≤ 10) (hl : l < 2 ^ 64) (hs : size < 2 ^ 64) :
    ((n + l) % 2 ^ 64 ≠ size) ↔ (n + l ≠ size) := by
  by_cases hw : n + l < 2 ^ 64
  · rw [Nat.mod_eq_of_lt hw]
  · have h1 : (n + l) % 2 ^ 64 = n + l - 2 ^ 64 := by
      rw [Nat.mod_eq_sub_mod (by omega), Nat.mod_eq_of_lt (by omega)]
    rw [h1]
    constructor
    · intro _; omega
    · intro _; omega

theorem slice_from (b : List UInt8) (n : Nat) (h : n ≤ b.length) : Go.slice b (n : Int) (Go.len b) = .ok (b.drop n) := by
  unfold Go.slice Go.len
  rw [if_pos (by omega)]
  simp only [Int.toNat_natCast, pure_eq_ok]
  rw [List.take_of_length_le (by rw [List.length_drop]; omega)]

theorem slice_upto (b : List UInt8) (n : Nat) (h : n ≤ b.length) : Go.slice b 0 (n : Int) = .ok (b.take n) := by
  unfold Go.slice
  rw [if_pos (by omega)]
  simp only [Int.toNat_natCast, pure_eq_ok]
  rfl

theorem get_le_fuel (b : List UInt8) : ∀ (f v n : Nat), Varint.get b f = some (v, n) → n ≤ f := by
  induction b with
  | nil => intro f v n h; simp [Varint.get] at h
  | cons c rest ih =>
    intro f v n h
    cases f with
    | zero => simp [Varint.get] at h
    | succ f =>
      simp only [Varint.get] at h
      by_cases hc : c.toNat < 128
      · simp only [hc, if_true, Option.some.injEq, Prod.mk.injEq] at h
        omega
      · simp only [hc, if_false] at h
        cases hg : Varint.get rest f with
        | none => rw [hg] at h; simp at h
        | some p =>
          obtain ⟨v', n'⟩ := p
          rw [hg] at h
          simp only [Option.some.injEq, Prod.mk.injEq] at h
          have := ih f v' n' hg
          omega

theorem uvarint64_facts (b : List UInt8) (l n : Nat) (h : Gsfa.uvarint64 b = some (l, n)) : n ≤ 10 ∧ l < 2 ^ 64 := by
  unfold Gsfa.uvarint64 at h
  cases hg : Varint.get b 10 with
  | none => rw [hg] at h; simp at h
  | some p =>
    obtain ⟨v', n'⟩ := p
    rw [hg] at h
    simp only at h
    by_cases hv : v' < 2 ^ 64
    · simp only [hv, if_true, Option.some.injEq, Prod.mk.injEq] at h
      obtain ⟨rfl, rfl⟩ := h
      exact ⟨get_le_fuel b 10 _ _ hg, hv⟩
    · simp [hv] at h

theorem cond_iff (l n : Nat) (size : UInt64) (hn0 : 0 < n) (hn : n ≤ size.toNat) (hn10 : n ≤ 10) (hl : l < 2 ^ 64) :
    ((decide ((n : Int) ≤ 0) || Go.u64OfInt (n : Int) + UInt64.ofNat l != size || decide (UInt64.ofNat l < 9)) = true)
      ↔ (n + l ≠ size.toNat ∨ l < 9) := by
  have h1 : decide ((n : Int) ≤ 0) = false := by rw [decide_eq_false_iff_not]; omega
  have h2 : Go.u64OfInt (n : Int) = UInt64.ofNat n := by
    unfold Go.u64OfInt
    have : ((n : Int) % 18446744073709551616).toNat = n := by omega
    rw [this]
  have hln : (UInt64.ofNat l).toNat = l := by rw [UInt64.toNat_ofNat']; exact Nat.mod_eq_of_lt hl
  have hnn : (UInt64.ofNat n).toNat = n := by rw [UInt64.toNat_ofNat']; exact Nat.mod_eq_of_lt (by omega)
  have h3 : (UInt64.ofNat n + UInt64.ofNat l != size) = true ↔ n + l ≠ size.toNat := by
    rw [bne_iff_ne, Ne, ← UInt64.toNat_inj, UInt64.toNat_add, hln, hnn]
    exact sum_ne_iff n l size.toNat hn hn10 hl size.toNat_lt
  have h4 : (UInt64.ofNat l < 9) ↔ l < 9 := by
    rw [UInt64.lt_iff_toNat_lt, hln]; rfl
  rw [h1, h2]
  simp only [Bool.false_or, Bool.or_eq_true, decide_eq_true_eq, h3, h4]

/-- the model's `readWithSize` after the size cap, on the record bytes (restated without local definitions) -/
def modelTail (Zs : Gsfa.Zstd) (rec_ : List UInt8) (size : Nat) : Gsfa.Res (List Gsfa.Entry × Gsfa.Ptr) :=
  if rec_.length < size then .error (.err "EOF") else
  match Gsfa.uvarint64 rec_ with
  | none => .error (.err "invalid record")
  | some (l, n) =>
    if n + l ≠ size ∨ l < 9 then .error (.err "invalid record") else
    match Zs.decompress ((rec_.drop n).take ((rec_.drop n).length - 9)) with
    | none => .error (.err "error while decompressing indexes")
    | some raw =>
      match Gsfa.parseEntries (raw.length + 1) raw with
      | .ok es => .ok (es, Gsfa.ptrOfBytes ((rec_.drop n).drop ((rec_.drop n).length - 9)))
      | .error e => .error e

theorem model_unfold (Zs : Gsfa.Zstd) (file : List UInt8) (off size : Nat) :
    Gsfa.readWithSize Zs file off size =
      if size > Gsfa.mib256 then .error (.err "compacted indexes length too large")
      else modelTail Zs (B.slice file off size) size := rfl

theorem modelTail_short (Zs : Gsfa.Zstd) (rec_ : List UInt8) (size : Nat) (h : rec_.length < size ∨ rec_ = []) :
    ∃ x, modelTail Zs rec_ size = .error x := by
  unfold modelTail
  by_cases hs : rec_.length < size
  · rw [if_pos hs]; exact ⟨_, rfl⟩
  · rw [if_neg hs]
    rcases h with h | h
    · exact absurd h hs
    · rw [h]; exact ⟨_, rfl⟩

/-- **tie**: `LinkedLog.ReadWithSize(offset, size)`, as translated from the source, over an in-memory file = the model's
    `Gsfa.readWithSize` — for every file content below 2^62 bytes, every offset and size, every partial function in the
    place of zstd whose outputs are shorter than the fuel: the entries and the pointer to the previous record, or a
    non-nil error exactly when the model fails; never a panic -/
theorem gen_llReadWithSize_eq_model (Zs : Gsfa.Zstd) (file : List UInt8) (fuel : Nat) (s : Linkedlog_LinkedLog)
    (off size : UInt64) (hfile : s.file = memRd file) (hlen : file.length < 2 ^ 62)
    (hZ : ∀ b r, Zs.decompress b = some r → r.length < fuel ∧ r.length < 2 ^ 62) :
    resOf (Gsfa.readWithSize Zs file off.toNat size.toNat)
      (llReadWithSize (fun _ => .ok (UInt64.ofNat file.length)) (zOf Zs.decompress) fuel s off size) := by
  rw [rws_unfold, model_unfold]
  unfold rwsM
  have hmib : Gsfa.mib256 = 268435456 := by decide
  rw [hmib]
  by_cases hbig : size.toNat > 268435456
  · have : decide (size > 268435456) = true := by
      rw [decide_eq_true_eq, u64lt]; exact hbig
    rw [if_pos hbig, if_pos this]
    exact ⟨_, (by intro h; cases h), rfl⟩
  · have hnb : ¬ (decide (size > 268435456) = true) := by
      rw [decide_eq_true_eq, u64lt]; exact hbig
    rw [if_neg hbig, if_neg hnb]
    have hc : Go.catchErr (Except.ok (UInt64.ofNat file.length) : M UInt64) 0 = .ok (UInt64.ofNat file.length, Go.Error.nil) := rfl
    rw [hc, bind_ok]
    have hnil : ¬ ((Go.Error.nil != Go.Error.nil) = true) := by simp
    rw [if_neg hnil]
    have hg := guard_iff off size file.length hlen
    have hslen : (B.slice file off.toNat size.toNat).length = min size.toNat (file.length - off.toNat) := by
      unfold B.slice; rw [List.length_take, List.length_drop]
    by_cases hout : off.toNat > file.length ∨ size.toNat > file.length - off.toNat
    · rw [if_pos (hg.mpr hout)]
      have hsh : (B.slice file off.toNat size.toNat).length < size.toNat ∨ B.slice file off.toNat size.toNat = [] := by
        by_cases hz : size.toNat = 0
        · right; unfold B.slice; rw [hz]; simp
        · left; rw [hslen]; omega
      obtain ⟨x, hx⟩ := modelTail_short Zs _ _ hsh
      rw [hx]
      exact ⟨_, (by intro h; cases h), rfl⟩
    · have hin : off.toNat ≤ file.length ∧ size.toNat ≤ file.length - off.toNat := by omega
      rw [if_neg (fun h => hout (hg.mp h))]
      have hmk : Go.makeOf (0 : UInt8) (size.toNat : Int) = .ok (List.replicate size.toNat 0) := by
        unfold Go.makeOf; rw [if_pos (by omega), Int.toNat_natCast]; rfl
      rw [hmk, bind_ok, hfile]
      have hlr : Go.len (List.replicate size.toNat (0 : UInt8)) = (size.toNat : Int) := by unfold Go.len; simp
      have hio : Go.intOfU64 off = (off.toNat : Int) := by
        unfold Go.intOfU64; rw [Go.wrap64_id] <;> omega
      rw [hlr, hio]
      by_cases hz : size.toNat = 0
      · -- an empty record: the model finds no uvarint; the code gets io.EOF or an empty record
        obtain ⟨x, hx⟩ := modelTail_short Zs (B.slice file off.toNat size.toNat) size.toNat
          (Or.inr (by unfold B.slice; rw [hz]; simp))
        rw [hx, hz]
        simp only [resOf]
        by_cases he : ((memRd file ((0 : Nat) : Int) (off.toNat : Int)).2 != Go.Error.nil) = true
        · rw [if_pos he]
          exact ⟨_, (by simpa using he), rfl⟩
        · rw [if_neg he]
          have h1 : (memRd file ((0 : Nat) : Int) (off.toNat : Int)).1 = [] := by
            unfold memRd
            simp only [Int.toNat_natCast, List.take_zero]
            split
            · rfl
            · split <;> rfl
          refine ⟨Go.Error.other "invalid record of size %d at offset %d", (by intro h; cases h), ?_⟩
          simp only [h1, List.length_nil, List.drop_zero, List.replicate_zero, List.append_nil]
          rfl
      · have hpos : 0 < size.toNat := by omega
        rw [memRd_ok file size.toNat off.toNat (by omega) hpos]
        rw [if_neg hnil]
        have hrl : ((file.drop off.toNat).take size.toNat).length = size.toNat := by
          rw [List.length_take, List.length_drop]; omega
        have hrec : (file.drop off.toNat).take size.toNat ++ (List.replicate size.toNat (0 : UInt8)).drop ((file.drop off.toNat).take size.toNat).length
            = B.slice file off.toNat size.toNat := by
          rw [hrl]; unfold B.slice; simp
        simp only [hrec]
        have hrl2 : (B.slice file off.toNat size.toNat).length = size.toNat := by unfold B.slice; exact hrl
        generalize B.slice file off.toNat size.toNat = rec_ at hrl2 ⊢
        unfold modelTail
        rw [if_neg (by omega)]
        have hu := uvarint_eq_model rec_
        cases hm : Gsfa.uvarint64 rec_ with
        | none =>
          rw [hm] at hu
          have : (decide ((Go.uvarint rec_).2 ≤ 0) || Go.u64OfInt (Go.uvarint rec_).2 + (Go.uvarint rec_).1 != size
              || decide ((Go.uvarint rec_).1 < 9)) = true := by
            have : decide ((Go.uvarint rec_).2 ≤ 0) = true := by simpa using hu
            simp [this]
          rw [if_pos this]
          exact ⟨_, (by intro h; cases h), rfl⟩
        | some q =>
          obtain ⟨l, n⟩ := q
          rw [hm] at hu
          obtain ⟨hu1, hu2⟩ := hu
          have hnle := uvarint64_le rec_ l n hm
          obtain ⟨hn10, hl64⟩ := uvarint64_facts rec_ l n hm
          rw [hu1]
          simp only
          have hci := cond_iff l n size hu2 (by omega) hn10 hl64
          by_cases hbad : n + l ≠ size.toNat ∨ l < 9
          · rw [if_pos (hci.mpr hbad), if_pos hbad]
            exact ⟨_, (by intro h; cases h), rfl⟩
          · rw [if_neg (fun h => hbad (hci.mp h)), if_neg hbad]
            have hsum : n + l = size.toNat ∧ 9 ≤ l := by omega
            have hdl : (rec_.drop n).length = l := by rw [List.length_drop]; omega
            have s1 : Go.slice rec_ (n : Int) (Go.len rec_) = .ok (rec_.drop n) := slice_from rec_ n hnle
            rw [s1, bind_ok]
            generalize rec_.drop n = data at hdl ⊢
            have hlen9 : Go.wrap64 (Go.len data - 9) = ((l - 9 : Nat) : Int) := by
              unfold Go.len; rw [hdl, Go.wrap64_id] <;> omega
            rw [hlen9]
            have s2 : Go.slice data 0 ((l - 9 : Nat) : Int) = .ok (data.take (l - 9)) := slice_upto data (l - 9) (by omega)
            have s3 : Go.slice data ((l - 9 : Nat) : Int) (Go.len data) = .ok (data.drop (l - 9)) := slice_from data (l - 9) (by omega)
            rw [s2, bind_ok, s3, bind_ok]
            have h9 : (data.drop (l - 9)).length = 9 := by rw [List.length_drop]; omega
            rw [C01.gen_oasFromBytes_eq_model Indexes_OffsetAndSize.zero _ h9]
            have hc2 : ∀ v : Indexes_OffsetAndSize, Go.catchErr (Except.ok v : M Indexes_OffsetAndSize) Indexes_OffsetAndSize.zero
                = .ok (v, Go.Error.nil) := fun _ => rfl
            rw [hc2, bind_ok, if_neg hnil, hdl]
            have hdec := decompress_eq Zs.decompress fuel (data.take (l - 9)) (hZ _)
            cases hzd : Zs.decompress (data.take (l - 9)) with
            | none =>
              rw [hzd] at hdec
              simp only [entriesRes] at hdec
              obtain ⟨e, hne, he⟩ := hdec
              rw [he, bind_ok]
              have : (e != Go.Error.nil) = true := by simpa using hne
              rw [if_pos this]
              simp only [resOf]
              refine ⟨Go.Error.wrap "error while decompressing indexes: %w" e, ?_, rfl⟩
              cases e <;> first | exact absurd rfl hne | (intro h; cases h)
            | some raw =>
              rw [hzd] at hdec
              simp only at hdec ⊢
              cases hpe : Gsfa.parseEntries (raw.length + 1) raw with
              | ok es =>
                rw [hpe] at hdec
                simp only [entriesRes] at hdec
                rw [hdec, bind_ok, if_neg hnil]
                rfl
              | error x =>
                rw [hpe] at hdec
                simp only [entriesRes] at hdec
                obtain ⟨e, hne, he⟩ := hdec
                rw [he, bind_ok]
                have : (e != Go.Error.nil) = true := by simpa using hne
                rw [if_pos this]
                simp only [resOf]
                refine ⟨Go.Error.wrap "error while decompressing indexes: %w" e, ?_, rfl⟩
                cases e <;> first | exact absurd rfl hne | (intro h; cases h)

/-- never a panic, never out of fuel -/
theorem gen_llReadWithSize_total (Zs : Gsfa.Zstd) (file : List UInt8) (fuel : Nat) (s : Linkedlog_LinkedLog)
    (off size : UInt64) (hfile : s.file = memRd file) (hlen : file.length < 2 ^ 62)
    (hZ : ∀ b r, Zs.decompress b = some r → r.length < fuel ∧ r.length < 2 ^ 62) :
    ∃ r, llReadWithSize (fun _ => .ok (UInt64.ofNat file.length)) (zOf Zs.decompress) fuel s off size = .ok r := by
  have := gen_llReadWithSize_eq_model Zs file fuel s off size hfile hlen hZ
  cases h : Gsfa.readWithSize Zs file off.toNat size.toNat with
  | ok v => obtain ⟨es, ptr⟩ := v; rw [h] at this; exact ⟨_, this⟩
  | error x => rw [h] at this; obtain ⟨e, _, he⟩ := this; exact ⟨_, he⟩

/-- **on the code in the tree**: the record `Put` writes for a batch (`Gsfa.mkRecord`: uvarint prefix, compressed entries
    newest first, pointer to the previous record), read back by the translated `ReadWithSize` at the offset and with the
    size `Put` reported, yields the batch newest first and the previous pointer — for every lawful zstd, every batch,
    every position in the file (via `Gsfa.record_roundtrip`) -/
theorem gen_record_roundtrip (Zs : Gsfa.Zstd) (hLaw : Zs.Lawful) (es : List Gsfa.Entry) (prev : Gsfa.Ptr) (pb : List UInt8)
    (hpb : Gsfa.ptrBytes prev = .ok pb) (hprev : prev.size < 2 ^ 32)
    (file : List UInt8) (off size : UInt64) (fuel : Nat) (s : Linkedlog_LinkedLog)
    (hsz : size.toNat = (Gsfa.mkRecord Zs es pb).length)
    (hslice : B.slice file off.toNat (Gsfa.mkRecord Zs es pb).length = Gsfa.mkRecord Zs es pb)
    (hsize : (Gsfa.mkRecord Zs es pb).length ≤ Gsfa.mib256)
    (hfile : s.file = memRd file) (hlen : file.length < 2 ^ 62)
    (hZ : ∀ b r, Zs.decompress b = some r → r.length < fuel ∧ r.length < 2 ^ 62) :
    llReadWithSize (fun _ => .ok (UInt64.ofNat file.length)) (zOf Zs.decompress) fuel s off size =
      .ok (es.reverse.map toGo, { Offset := UInt64.ofNat prev.off, Size := UInt64.ofNat prev.size }, Go.Error.nil) := by
  have := gen_llReadWithSize_eq_model Zs file fuel s off size hfile hlen hZ
  rw [hsz, Gsfa.record_roundtrip Zs hLaw es prev pb hpb hprev file off.toNat hslice hsize] at this
  exact this

end GoTies.LLRead

import Faithful.Lib.Bucketteer

/-!
Property C05 — the signature-existence index (bucketteer) has no false negatives.

All statements are about the definitions the driver `fdrv-C05` executes (`BK.put`, `BK.writerHas`, `BK.sealA`,
`BK.hasA`, `BK.encode`, `BK.openB`, `BK.hasB`), for EVERY list of signatures (any multiset, any distribution over
the 65 536 prefixes, no size bound), EVERY hash function `h` (so in particular xxhash64), and BOTH formats
(`fmt = .v2` current, `fmt = .v1` deprecated: there a prefix that was never `Put` has no offset-table entry and
the table is ordered by the big-endian reading of the prefix).

* abstract level (no hypothesis at all): `seal_has`, `has_only_if`, `writer_agrees`;
* byte level: `has_bytes_agree` — `NewReader`/`Reader.Has` as the Go code does it (header size, magic, version,
  metadata, offset table, `uint32` count, `numHashes*8` in `uint32`, eytzinger search over 8-byte LE hashes) on
  the very bytes `Seal` writes opens without error and answers exactly what the abstract reader answers; its
  size hypotheses are explicit: 64-bit hash values, fewer than 2^29 distinct hashes per bucket, metadata the
  format can hold and shorter than 2^31 bytes (the header length is a `uint32`);
  `seal_has_bytes` / `has_only_if_bytes` are the property itself at the byte level.
-/
namespace C05
open BK

/-- No false negative: every signature added before sealing is reported present by the sealed index. -/
theorem seal_has (fmt : Fmt) (h : Sig → Nat) (sigs : List Sig) (s : Sig) (hs : s ∈ sigs) :
    hasA (sealA fmt (putAll h sigs)) (prefixOf s) (h s) = true := by
  rw [hasA_sealA_iff fmt _ _ _ (by rw [size_putAll]; exact prefixOf_lt s)]
  exact (mem_putAll h sigs _ _ (prefixOf_lt s)).2 ⟨s, hs, rfl, rfl⟩

/-- A signature is reported present only if its hash equals that of an added signature with the same prefix. -/
theorem has_only_if (fmt : Fmt) (h : Sig → Nat) (sigs : List Sig) (s : Sig)
    (hh : hasA (sealA fmt (putAll h sigs)) (prefixOf s) (h s) = true) :
    ∃ s' ∈ sigs, prefixOf s' = prefixOf s ∧ h s' = h s := by
  rw [hasA_sealA_iff fmt _ _ _ (by rw [size_putAll]; exact prefixOf_lt s)] at hh
  exact (mem_putAll h sigs _ _ (prefixOf_lt s)).1 hh

/-- The writer's in-memory `Has` agrees with the sealed index, at every moment (after any sequence of `Put`s). -/
theorem writer_agrees (fmt : Fmt) (h : Sig → Nat) (sigs : List Sig) (s : Sig) :
    writerHas h (putAll h sigs) s = hasA (sealA fmt (putAll h sigs)) (prefixOf s) (h s) := by
  rw [Bool.eq_iff_iff, hasA_sealA_iff fmt _ _ _ (by rw [size_putAll]; exact prefixOf_lt s)]
  simp [writerHas]

/-- The two formats answer identically (they differ only in the byte layout and in omitting empty buckets). -/
theorem v1_same (h : Sig → Nat) (sigs : List Sig) (s : Sig) :
    hasA (sealA .v1 (putAll h sigs)) (prefixOf s) (h s) = hasA (sealA .v2 (putAll h sigs)) (prefixOf s) (h s) := by
  rw [← writer_agrees .v1, ← writer_agrees .v2]

/-- The eytzinger search is run with fuel `numHashes + 1`; the Go loop has no bound.  More fuel never changes
    the answer, so the fuel is sufficient. -/
theorem search_fuel_sufficient (lay : Lay) (x extra : Nat) :
    Eytz.search lay x (lay.size + 1 + extra) 0 = Eytz.search lay x (lay.size + 1) 0 :=
  search_fuel_enough lay x (lay.size + 1) 0 (by omega) extra

/-- Byte level: on the file `Seal` writes, `NewReader` succeeds and `Reader.Has` (over the bytes) returns, without
    error, the verdict of the abstract reader — for every signature queried. -/
theorem has_bytes_agree (fmt : Fmt) (h : Sig → Nat) (m : MetaKVs) (sigs : List Sig)
    (h64 : ∀ s, h s < 2^64)
    (hm : metaOk fmt m) (hmlen : (metaBytes fmt m).length < 2^31)
    (hsmall : ∀ p, (cleanSet ((putAll h sigs).getD p [])).length < 2^29) :
    ∃ r, openB fmt (encode fmt m (sealA fmt (putAll h sigs))).toArray = some r ∧
      ∀ s, hasB (encode fmt m (sealA fmt (putAll h sigs))).toArray r (prefixOf s) (h s)
            = if hasA (sealA fmt (putAll h sigs)) (prefixOf s) (h s) then Res.yes else Res.no := by
  have hok : SealedOk (sealA fmt (putAll h sigs)) := by
    apply sealedOk_sealA fmt _ _ hsmall
    intro p x hx
    by_cases hp : p < numPrefixes
    · obtain ⟨s, _, _, rfl⟩ := (mem_putAll h sigs p x hp).1 hx
      exact h64 s
    · have : (putAll h sigs).getD p [] = [] := by simp [Array.getD, size_putAll, hp]
      rw [this] at hx; simp at hx
  obtain ⟨hhdr, hlen⟩ := sizes_ok fmt m _ hok hmlen
  exact ⟨_, openB_encode fmt m _ hm hhdr, fun s => hasB_encode fmt m _ hok hlen _ _ (prefixOf_lt s)⟩

/-- No false negative, at the byte level. -/
theorem seal_has_bytes (fmt : Fmt) (h : Sig → Nat) (m : MetaKVs) (sigs : List Sig)
    (h64 : ∀ s, h s < 2^64) (hm : metaOk fmt m) (hmlen : (metaBytes fmt m).length < 2^31)
    (hsmall : ∀ p, (cleanSet ((putAll h sigs).getD p [])).length < 2^29) :
    ∃ r, openB fmt (encode fmt m (sealA fmt (putAll h sigs))).toArray = some r ∧
      ∀ s ∈ sigs, hasB (encode fmt m (sealA fmt (putAll h sigs))).toArray r (prefixOf s) (h s) = Res.yes := by
  obtain ⟨r, hr, hall⟩ := has_bytes_agree fmt h m sigs h64 hm hmlen hsmall
  refine ⟨r, hr, fun s hs => ?_⟩
  rw [hall s, seal_has fmt h sigs s hs]; rfl

/-- A positive answer of the byte-level reader implies a hash+prefix match with an added signature. -/
theorem has_only_if_bytes (fmt : Fmt) (h : Sig → Nat) (m : MetaKVs) (sigs : List Sig)
    (h64 : ∀ s, h s < 2^64) (hm : metaOk fmt m) (hmlen : (metaBytes fmt m).length < 2^31)
    (hsmall : ∀ p, (cleanSet ((putAll h sigs).getD p [])).length < 2^29) :
    ∃ r, openB fmt (encode fmt m (sealA fmt (putAll h sigs))).toArray = some r ∧
      ∀ s, hasB (encode fmt m (sealA fmt (putAll h sigs))).toArray r (prefixOf s) (h s) = Res.yes →
        ∃ s' ∈ sigs, prefixOf s' = prefixOf s ∧ h s' = h s := by
  obtain ⟨r, hr, hall⟩ := has_bytes_agree fmt h m sigs h64 hm hmlen hsmall
  refine ⟨r, hr, fun s hyes => ?_⟩
  rw [hall s] at hyes
  apply has_only_if fmt h sigs s
  cases hb : hasA (sealA fmt (putAll h sigs)) (prefixOf s) (h s) with
  | true => rfl
  | false => rw [hb] at hyes; simp at hyes

/-- The per-bucket size hypothesis holds whenever fewer than 2^29 signatures were added in total. -/
theorem small_of_length (h : Sig → Nat) (sigs : List Sig) (hn : sigs.length < 2^29) :
    ∀ p, (cleanSet ((putAll h sigs).getD p [])).length < 2^29 := by
  intro p
  have h1 := cleanSet_length_le ((putAll h sigs).getD p [])
  have h2 := bucket_length_le h sigs emptyW p
  have h3 : (emptyW.getD p []).length = 0 := by
    by_cases hp : p < numPrefixes <;> simp [emptyW, Array.getD, hp]
  unfold putAll at h1 ⊢
  omega

/-! ### non-vacuity: the hypotheses are satisfiable and the reader is not constant -/

/-- a toy 64-bit hash: the third byte -/
def toyHash (s : Sig) : Nat := (s.getD 2 0).toNat
theorem toyHash_lt (s : Sig) : toyHash s < 2^64 := by
  have := (s.getD 2 0).toNat_lt; unfold toyHash; omega

-- seal_has: a member (here added twice, next to another prefix) is found, in both formats
example : hasA (sealA .v1 (putAll toyHash [[1, 2, 3], [9, 9, 9], [1, 2, 3]])) (prefixOf [1, 2, 3]) (toyHash [1, 2, 3]) = true :=
  seal_has .v1 toyHash _ _ (by simp)
example : hasA (sealA .v2 (putAll toyHash [[1, 2, 3], [9, 9, 9], [1, 2, 3]])) (prefixOf [1, 2, 3]) (toyHash [1, 2, 3]) = true :=
  seal_has .v2 toyHash _ _ (by simp)

-- has_only_if: its hypothesis is satisfiable (by seal_has) ...
example : ∃ s' ∈ [[1, 2, 3], [9, 9, 9]], prefixOf s' = prefixOf [1, 2, 3] ∧ toyHash s' = toyHash [1, 2, 3] :=
  has_only_if .v2 toyHash _ _ (seal_has .v2 toyHash _ _ (by simp))

-- ... and it makes the reader answer `false` for a non-member: same prefix, other hash; and same hash, other prefix
example (fmt : Fmt) : hasA (sealA fmt (putAll toyHash [[1, 2, 3], [9, 9, 9]])) (prefixOf [1, 2, 4]) (toyHash [1, 2, 4]) = false := by
  rw [Bool.eq_false_iff]
  intro ht
  obtain ⟨s', hs', hp, hh⟩ := has_only_if fmt toyHash _ _ ht
  simp only [List.mem_cons, List.mem_nil_iff, or_false] at hs'
  rcases hs' with rfl | rfl
  · exact absurd hh (by decide)
  · exact absurd hp (by decide)
example (fmt : Fmt) : hasA (sealA fmt (putAll toyHash [[1, 2, 3], [9, 9, 9]])) (prefixOf [2, 1, 3]) (toyHash [2, 1, 3]) = false := by
  rw [Bool.eq_false_iff]
  intro ht
  obtain ⟨s', hs', hp, hh⟩ := has_only_if fmt toyHash _ _ ht
  simp only [List.mem_cons, List.mem_nil_iff, or_false] at hs'
  rcases hs' with rfl | rfl
  · exact absurd hp (by decide)
  · exact absurd hp (by decide)

-- writer_agrees: both sides are `true` for a member
example : writerHas toyHash (putAll toyHash [[1, 2, 3]]) [1, 2, 3] = true := by
  rw [writer_agrees .v2]; exact seal_has .v2 toyHash _ _ (by simp)

-- has_bytes_agree / seal_has_bytes: all size hypotheses are satisfiable together (both formats, with metadata)
example (fmt : Fmt) :
    ∃ r, openB fmt (encode fmt [([1], [2, 3])] (sealA fmt (putAll toyHash [[1, 2, 3], [9, 9, 9], [1, 2, 7]]))).toArray = some r ∧
      ∀ s ∈ [[1, 2, 3], [9, 9, 9], [1, 2, 7]],
        hasB (encode fmt [([1], [2, 3])] (sealA fmt (putAll toyHash [[1, 2, 3], [9, 9, 9], [1, 2, 7]]))).toArray r
          (prefixOf s) (toyHash s) = Res.yes :=
  seal_has_bytes fmt toyHash _ _ toyHash_lt
    (by cases fmt <;> simp [metaOk])
    (by cases fmt <;> decide)
    (small_of_length toyHash _ (by decide))

end C05

import Faithful.Lib.Bucketteer

/-!
Property C05 — the signature-existence index (bucketteer) has no false negatives.

All statements are about the definitions the driver `fdrv C05` executes (`BK.put`, `BK.writerHas`, `BK.sealA`,
`BK.hasA`, `BK.encode`, `BK.openB`, `BK.hasB`), for EVERY list of signatures (any multiset, any distribution over the
65 536 prefixes), EVERY hash function `h` (so in particular xxhash64), and BOTH formats (`fmt = .v2` current,
`fmt = .v1` deprecated: prefixes that were never `Put` have no offset-table entry there).
-/
namespace C05
open BK

/-- No false negative: every signature added before sealing is reported present by the sealed index. -/
theorem seal_has (fmt : Fmt) (h : Sig → Nat) (sigs : List Sig) (s : Sig) (hs : s ∈ sigs) :
    hasA (sealA fmt (putAll h sigs)) (prefixOf s) (h s) = true := by
  rw [hasA_sealA_iff fmt _ _ _ (by rw [size_putAll]; exact prefixOf_lt s)]
  exact (mem_putAll h sigs _ _ (prefixOf_lt s)).2 ⟨s, hs, rfl, rfl⟩

/-- A signature is reported present only if its hash equals that of an added signature with the same prefix. -/
theorem has_only_if (fmt : Fmt) (h : Sig → Nat) (sigs : List Sig) (s : Sig)
    (hh : hasA (sealA fmt (putAll h sigs)) (prefixOf s) (h s) = true) :
    ∃ s' ∈ sigs, prefixOf s' = prefixOf s ∧ h s' = h s := by
  rw [hasA_sealA_iff fmt _ _ _ (by rw [size_putAll]; exact prefixOf_lt s)] at hh
  exact (mem_putAll h sigs _ _ (prefixOf_lt s)).1 hh

/-- The writer's in-memory `Has` agrees with the sealed index, at every moment (after any sequence of `Put`s). -/
theorem writer_agrees (fmt : Fmt) (h : Sig → Nat) (sigs : List Sig) (s : Sig) :
    writerHas h (putAll h sigs) s = hasA (sealA fmt (putAll h sigs)) (prefixOf s) (h s) := by
  rw [Bool.eq_iff_iff, hasA_sealA_iff fmt _ _ _ (by rw [size_putAll]; exact prefixOf_lt s)]
  simp [writerHas]

end C05

/-! Property C05 — theorems (statements live here, helper lemmas in Faithful/Lib) -/
namespace C05
end C05

/-! Property C08 — theorems (statements live here, helper lemmas in Faithful/Lib) -/
namespace C08
end C08

import Faithful.Lib.Request
import Faithful.Lib.RequestProofs
import Faithful.Generated.Derefs
import Faithful.Generated.Consts
/-!
# Property C08 — no request can crash the server

For every HTTP request and every gRPC request message the server produces a response or an error status; no
request makes a handler panic.

The model (`Faithful/Lib/Request.lean`) mirrors the repaired code (fixes C08-1, C08-2, C08-3 and, for the
`vote` / `failed` optionals of the stream filter, the C19 fix); every Go operation that can fail at run time
(`*p`, `xs[i]`, `s[n:]`, `Must…`, `make` with a request-sized capacity) is an explicit step returning
`Outcome.panic`, so the theorems below are about reachability of those steps, for **all** inputs.

`C08_partial` is partial in exactly this sense: decoding of the bytes on the wire (fasthttp, encoding/json,
jsoniter, protobuf, solana-go) and the data layer behind the parsed request are *assumed* not to panic (hypothesis
`T.total`; `Backend` answers are plain values).  The tie to the source is `derefs_guarded` (regenerated from the
tree on every run) and the correspondence run.
-/

namespace C08
open Req Req.Outcome

/-! ### request parsing is total -/

theorem parseGetBlock_total : ∀ (p : Option Json) (why : String), parseGetBlock p ≠ .panic why := by
  intro p
  rw [← isPanic_false_iff]
  cases p with
  | none => rfl
  | some r => simpa [parseGetBlock, deref_some] using parseGetBlockBody_noPanic r

theorem parseGetTransaction_total : ∀ (p : Option Json) (why : String), parseGetTransaction p ≠ .panic why := by
  intro p
  rw [← isPanic_false_iff]
  cases p with
  | none => rfl
  | some r => simpa [parseGetTransaction, deref_some] using parseGetTransactionBody_noPanic r

theorem parseGetBlockTime_total : ∀ (p : Option Json) (why : String), parseGetBlockTime p ≠ .panic why := by
  intro p
  rw [← isPanic_false_iff]
  cases p with
  | none => rfl
  | some r => simpa [parseGetBlockTime, deref_some] using parseGetBlockTimeBody_noPanic r

theorem parseGetSignaturesForAddress_total : ∀ (p : Option Json) (why : String), parseGsfa p ≠ .panic why := by
  intro p
  rw [← isPanic_false_iff]
  cases p with
  | none => rfl
  | some r => simpa [parseGsfa, deref_some] using parseGsfaBody_noPanic r

-- non-vacuity: the parsers do accept requests (and reject others without panicking)
example : parseGetBlock (some (.arr [.num ⟨432001, true, true⟩])) = .ok ⟨432001, blockDefaults⟩ := by decide
example : parseGetBlock (some (.arr [.num ⟨5, true, true⟩, .obj [("rewards", .bool false)]])) =
    .ok ⟨5, { blockDefaults with rewards := some false }⟩ := by decide
example : parseGetBlock none = .err "params are required" := rfl
example : parseGetBlock (some .null) = .err "params must have at least one argument" := by decide
example : parseGetBlockTime (some (.arr [.num ⟨7, true, true⟩])) = .ok 7 := by decide
example : parseGetTransaction (some (.arr [.str "abc"])) = .err "failed to parse signature from base58" := by decide
example : parseGsfa (some (.arr [.str "11111111111111111111111111111111"])) = .ok {} := by decide

/-! ### a successful parse establishes every option the handler later dereferences -/

theorem parseGetBlock_establishes {p : Option Json} {r : GetBlockReq} (h : parseGetBlock p = .ok r) :
    r.opts.commitment.isSome = true ∧ r.opts.encoding.isSome = true ∧ r.opts.txDetails.isSome = true ∧
      r.opts.rewards.isSome = true := by
  cases p with
  | none => cases h
  | some j => exact parseGetBlockBody_establishes (by simpa [parseGetBlock, deref_some] using h)

theorem parseGetTransaction_establishes {p : Option Json} {r : GetTxReq} (h : parseGetTransaction p = .ok r) :
    r.opts.encoding.isSome = true := by
  cases p with
  | none => cases h
  | some j => exact parseGetTransactionBody_establishes (by simpa [parseGetTransaction, deref_some] using h)

example : ∃ p r, parseGetBlock p = .ok r := ⟨some (.arr [.num ⟨1, true, true⟩]), ⟨1, blockDefaults⟩, by decide⟩
example : ∃ p r, parseGetTransaction p = .ok r :=
  ⟨some (.arr [.str "1111111111111111111111111111111111111111111111111111111111111111"]), ⟨0, { encoding := some "json" }⟩, by decide⟩

/-! ### the handler preludes (`*params.Options.Rewards`, `*params.Options.Encoding`) are total -/

theorem handler_prelude_total (B : Backend) (r : GetBlockReq)
    (hr : r.opts.rewards.isSome = true) (he : r.opts.encoding.isSome = true) :
    ∀ why, preludeGetBlock B r ≠ .panic why := by
  rw [← isPanic_false_iff]
  unfold preludeGetBlock
  obtain ⟨rw_, hrw⟩ := Option.isSome_iff_exists.mp hr
  obtain ⟨en, hen⟩ := Option.isSome_iff_exists.mp he
  rw [hrw, hen]
  simp only [deref_some, bind_ok]
  split <;> rfl

theorem handler_prelude_tx_total (r : GetTxReq) (he : r.opts.encoding.isSome = true) :
    ∀ why, preludeGetTransaction r ≠ .panic why := by
  rw [← isPanic_false_iff]
  unfold preludeGetTransaction
  obtain ⟨en, hen⟩ := Option.isSome_iff_exists.mp he
  rw [hen]
  rfl

-- non-vacuity: without the established options the prelude does panic
example : preludeGetBlock ⟨fun _ => true, fun _ => 1, fun _ => true⟩ ⟨1, {}⟩ =
    .panic "nil pointer dereference: *params.Options.Rewards" := rfl
example : preludeGetBlock ⟨fun _ => true, fun _ => 1, fun _ => true⟩ ⟨1, blockDefaults⟩ = .ok "data" := rfl

theorem handleGetBlock_total (w : World) (B : Backend) (raw : Option Json) : ∀ why, handleGetBlock w B raw ≠ .panic why := by
  rw [← isPanic_false_iff]
  unfold handleGetBlock
  split
  · rename_i s hs
    exact absurd hs (parseGetBlock_total raw s)
  · rfl
  · rename_i params hp
    obtain ⟨_, he, _, hr⟩ := parseGetBlock_establishes hp
    apply bind_isPanic _ _ (validateEncoding_noPanic _ _)
    intro v _
    split
    · rfl
    · split
      · rfl
      · split
        · rfl
        · have := handler_prelude_total B params hr he
          rw [← isPanic_false_iff] at this
          exact this

theorem handleGetTransaction_total (w : World) (B : Backend) (raw : Option Json) :
    ∀ why, handleGetTransaction w B raw ≠ .panic why := by
  rw [← isPanic_false_iff]
  unfold handleGetTransaction
  split
  · rfl
  · split
    · rename_i s hs
      exact absurd hs (parseGetTransaction_total raw s)
    · rfl
    · rename_i params hp
      have he := parseGetTransaction_establishes hp
      split
      · rfl
      · apply bind_isPanic _ _ (validateEncoding_noPanic _ _)
        intro v _
        split
        · rfl
        · split
          · rfl
          · have := handler_prelude_tx_total params he
            rw [← isPanic_false_iff] at this
            exact this

theorem handleRequest_total (w : World) (B : Backend) (rq : RpcRequest) : ∀ why, handleRequest w B rq ≠ .panic why := by
  intro why
  unfold handleRequest
  split
  · exact handleGetBlock_total w B _ why
  · split
    · exact handleGetTransaction_total w B _ why
    · split
      · unfold handleGsfa
        split
        · rename_i s hs; exact absurd hs (parseGetSignaturesForAddress_total _ s)
        · simp [invalidParams]
        · split <;> simp [dataResp]
      · split
        · unfold handleGetBlockTime
          split
          · rename_i s hs; exact absurd hs (parseGetBlockTime_total _ s)
          · simp [invalidParams]
          · split <;> simp [dataResp]
        · repeat' split
          all_goals simp

/-- every HTTP request is answered: the closure of `newMultiEpochHandler` never panics -/
theorem http_total (w : World) (B : Backend) (r : HttpReq) : ∀ why, handleHttp w B r ≠ .panic why := by
  intro why
  unfold handleHttp
  split
  · simp
  · split
    · simp
    · split
      · have := apiHandler_noPanic w r
        rw [isPanic_false_iff] at this
        exact this why
      · split
        · simp
        · split
          · simp
          · split
            · simp
            · split
              · simp
              · exact handleRequest_total w B _ why

-- non-vacuity: one request of each kind
example : handleHttp ⟨[(1, true)], false⟩ ⟨fun _ => true, fun _ => 1, fun _ => true⟩
    ⟨"POST", "/", 40, .json (.obj [("method", .str "getBlock"), ("id", .num ⟨1, true, true⟩)])⟩ = .ok "200:e-32602" := by decide
example : handleHttp ⟨[(1, true)], false⟩ ⟨fun _ => true, fun _ => 1, fun _ => true⟩
    ⟨"POST", "/", 40, .json (.obj [("method", .str "getBlock"), ("params", .arr [.num ⟨432001, true, true⟩])])⟩ = .ok "data" := by decide
example : handleHttp ⟨[], false⟩ ⟨fun _ => true, fun _ => 1, fun _ => true⟩ ⟨"GET", "/api/v1/slot-to-cid/x", 0, .malformed⟩ = .ok "400:empty" := by decide

/-! ### gRPC: stream filter, account filter, dispatcher -/

/-- the filter step is total once the account strings have been validated (which `StreamTransactions` now does
    first); absent `vote` / `failed` need no hypothesis at all -/
theorem grpc_filter_total (f : Option TxFilter) (hv : validateFilter f = true) (gsfaLoaded : Bool) (tx : TxFacts) :
    ∀ why, filterStep f gsfaLoaded tx ≠ .panic why := by
  rw [← isPanic_false_iff]
  exact filterStep_noPanic f hv gsfaLoaded tx

-- non-vacuity: `StreamTransactionsFilter{}` (all optionals absent) passes a transaction; an invalid account is
-- what the hypothesis excludes
example : filterStep (some ⟨none, none, [], [], []⟩) false ⟨true, true, fun _ => false⟩ = .ok true := by decide
example : validateFilter (some ⟨none, none, ["11111111111111111111111111111111"], [], []⟩) = true := by decide
example : validateFilter (some ⟨none, none, [], [""], []⟩) = false := by decide
example : (filterStep (some ⟨some true, some true, [], ["0OIl"], []⟩) false ⟨false, false, fun _ => false⟩).isPanic = true := by decide

/-- `StreamTransactions` for every request (any slots, absent optionals, malformed accounts, any transactions met) -/
theorem streamTransactions_total (w : World) (hw : w.WF) (r : StreamTxReq) (txs : List TxFacts) :
    ∀ why, streamTransactions w r txs ≠ .panic why := by
  rw [← isPanic_false_iff]
  unfold streamTransactions
  split
  · rfl
  · rename_i hv
    have hv : validateFilter r.filter = true := by simpa using hv
    have hcap : gsfaReadersCap w = .ok () := by
      unfold gsfaReadersCap makeCap
      simp only [World.WF] at hw
      simp [hw]
    rw [hcap]
    simp only [bind_ok]
    have hscan : ∀ g, (scanTxs r.filter g txs).isPanic = false := fun g => scanTxs_noPanic _ hv g txs
    split
    · split
      · rfl
      · exact bind_isPanic _ _ (hscan _) (fun _ _ => rfl)
    · apply bind_isPanic
      · cases hf : r.filter with
        | none => rfl
        | some f =>
          simp only [validateFilter, hf, Bool.and_eq_true] at hv
          exact mustAll_noPanic _ hv.1.1
      · intro _ _
        exact bind_isPanic _ _ (hscan _) (fun _ _ => rfl)

example : streamTransactions ⟨[(1, true)], false⟩ ⟨432000, some 432020, some ⟨none, none, [], [], []⟩, false⟩
    [⟨true, false, fun _ => false⟩] = .ok "data" := by decide
example : streamTransactions ⟨[(1, true)], false⟩ ⟨432000, some 432020, some ⟨some true, some true, [""], [], []⟩, false⟩ [] =
    .ok "InvalidArgument" := by decide
example : streamTransactions ⟨[], false⟩ ⟨5, some (2 ^ 64 - 1), none, true⟩ [] = .ok "Canceled" := by decide

theorem blockContainsAccounts_total (txs : List BcaTx) : ∀ why, blockContainsAccounts txs ≠ .panic why := by
  rw [← isPanic_false_iff]
  induction txs with
  | nil => rfl
  | cons t rest ih =>
    unfold blockContainsAccounts
    split
    · exact ih
    · split
      · rfl
      · split
        · exact ih
        · rename_i hm
          have hm : t.metaOk = true := by simpa using hm
          simp only [hm, if_true, deref_some, bind_ok]
          split
          · rfl
          · exact ih

example : blockContainsAccounts [⟨true, false, false, false⟩, ⟨true, false, true, true⟩] = .ok true := by decide

theorem streamBlocks_total (r : StreamBlocksReq) (blocks : List (List BcaTx)) : ∀ why, streamBlocks r blocks ≠ .panic why := by
  rw [← isPanic_false_iff]
  unfold streamBlocks
  have hgo : ∀ nf, (scanBlocks nf blocks).isPanic = false := by
    intro nf
    induction blocks with
    | nil => rfl
    | cons b rest ih =>
      unfold scanBlocks
      split
      · have := blockContainsAccounts_total b
        rw [← isPanic_false_iff] at this
        exact bind_isPanic _ _ this (fun _ _ => ih)
      · exact ih
  simp only
  split
  · rfl
  · exact bind_isPanic _ _ (hgo _) (fun _ _ => rfl)

example : streamBlocks ⟨432000, none, some ["x"], false⟩ [[⟨true, false, false, false⟩]] = .ok "data" := by decide

theorem get_dispatch_total (w : World) (items : List GetItem) (tailErr : Bool) (sf : Nat) (sent : List Resp) :
    ∀ why, getLoop w items tailErr sf sent ≠ .panic why := by
  rw [← isPanic_false_iff]
  induction items generalizing sent with
  | nil => rfl
  | cons it rest ih =>
    unfold getLoop
    cases it <;> simp only <;> first | rfl | (split <;> first | rfl | exact ih _)

example : getLoop ⟨[], false⟩ [.version, .block 5, .nothing, .version] false 0 [] = .ok (["version", "epoch"], "InvalidArgument") := by decide

/-! ### the whole server -/

/-- No request makes a handler panic — under the explicit hypothesis that third-party decoding of the wire
    bytes is total (`T.total`), and with the data layer's answers taken as values (`Backend`).
    PARTIAL: fasthttp, encoding/json, jsoniter, protobuf and solana-go decoding and the data layer below the
    parsed request are assumed, not proved, to be panic-free (the data layer is property C12's subject). -/
theorem C08_partial (T : ThirdParty) (hT : T.total) (w : World) (hw : w.WF) (B : Backend) :
    ∀ (bytes : List UInt8) (why : String), handleWire T w B bytes ≠ .panic why := by
  intro bytes why
  unfold handleWire
  split
  · rename_i r _
    cases r with
    | http r => exact http_total w B r why
    | grpcGetVersion => simp [handle]
    | grpcGetBlock s => simp [handle]
    | grpcGetBlockTime s => simp [handle]
    | grpcGetTransaction => simp [handle]
    | grpcStreamBlocks r bs => exact streamBlocks_total r bs why
    | grpcStreamTransactions r txs => exact streamTransactions_total w hw r txs why
    | grpcGet items te sf =>
      simp only [handle]
      have := get_dispatch_total w items te sf []
      rw [← isPanic_false_iff] at this
      have h2 := bind_isPanic (getLoop w items te sf []) (fun p => Outcome.ok (String.intercalate "," p.1 ++ ";" ++ p.2)) this (fun _ _ => rfl)
      rw [isPanic_false_iff] at h2
      exact h2 why
  · simp
  · rename_i s hs
    exact absurd hs (hT bytes s)

-- non-vacuity of the hypothesis: a total decoder exists, and the conclusion is about real answers
example : ∃ T : ThirdParty, T.total := ⟨⟨fun _ => .ok .grpcGetVersion⟩, by intro b w; simp⟩
example : handleWire ⟨fun _ => .ok (.grpcGetBlock 5)⟩ ⟨[(1, false)], false⟩ ⟨fun _ => true, fun _ => 0, fun _ => true⟩ [] = .ok "epoch" := by decide

/-! ### the defects of the pinned tree, formally -/

/-- `parseGetBlockRequest(nil)` — a request without a `params` member — dereferences nil (same for the siblings) -/
theorem pinned_parse_panics :
    parseGetBlockPinned none = .panic "nil pointer dereference: *raw in parseGetBlockRequest" ∧
    parseGetTransactionPinned none = .panic "nil pointer dereference: *raw in parseGetTransactionRequest" ∧
    parseGetBlockTimePinned none = .panic "nil pointer dereference: *raw in parseGetBlockTimeRequest" ∧
    parseGsfaPinned none = .panic "nil pointer dereference: *raw in parseGetSignaturesForAddressParams" :=
  ⟨rfl, rfl, rfl, rfl⟩

/-- but `"params": null` was always fine -/
theorem pinned_parse_null_ok : parseGetBlockPinned (some .null) = .err "params must have at least one argument" := by decide

/-- `StreamTransactionsFilter{}`: `*filter.Vote` on an absent optional -/
theorem pinned_filter_panics (tx : TxFacts) :
    filterStepPinned (some ⟨none, none, [], [], []⟩) false tx = .panic "nil pointer dereference: *filter.Vote" := rfl

/-- a malformed account reaches `MustPublicKeyFromBase58` when nothing validates the filter -/
theorem pinned_must_panics : (streamTransactionsPinned ⟨[(1, true)], false⟩
    ⟨432000, some 432020, some ⟨some true, some true, [], [""], []⟩, false⟩ [⟨false, false, fun _ => false⟩]).isPanic = true := by decide

/-- `make([]*Epoch, 0, endEpoch-startEpoch+1)`: an end slot far ahead, or more than an epoch behind the start -/
theorem pinned_makeslice_panics :
    (gsfaReadersCapPinned 5 (2 ^ 64 - 1)).isPanic = true ∧ (gsfaReadersCapPinned 864005 5).isPanic = true := by decide

/-- `blockContainsAccounts` with a transaction whose metadata does not parse: nil container dereferenced -/
theorem pinned_bca_panics : blockContainsAccountsPinned [⟨true, false, false, false⟩] =
    .panic "nil pointer dereference: meta.GetLoadedAccounts()" := rfl

/-! ### the tie to the source, regenerated on every run -/

/-- the two constants of the model are the ones in the tree (`slottools.EpochLen`, `maxSlotsToStream`) -/
theorem gen_consts_eq_model : Generated.epochLen = Req.epochLen ∧ Generated.maxSlotsToStream = Req.maxSlotsToStream := by decide

/-- every pointer dereference, unchecked type assertion, `Must…` call, constant index / slice expression and
    request-sized `make` on a request-derived value in the anchored request-parsing functions and the gRPC
    filter / dispatch code is dominated by a guard the translator recognises (unknown ⇒ unguarded) -/
theorem derefs_guarded : ∀ d ∈ Generated.derefs, d.guarded = true := by decide

example : Generated.derefs ≠ [] := by decide

end C08

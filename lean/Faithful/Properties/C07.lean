import Faithful.Lib.Paging
import Faithful.Generated.IntFns

/-!
# C07 — getSignaturesForAddress paging slices the newest-first history correctly

The model (`Faithful/Lib/Paging.lean`) is the three nested loops of `GsfaReaderMultiepoch.iterBeforeUntil`
(`recLoop` / `epochLoop` / `allEpochs` with their `continue` / `break epochLoop` exits), the slot-bounded
`iterBeforeUntilSlot`, and the loop of `handleGetSignaturesForAddress` that turns the result map into the
response array.  The driver `fdrv-C07` executes exactly these definitions on the op lines of the harness.

A history `hs : Hist σ` lists the loaded epochs **in the order of `multi.epochs`** (the handler supplies them
newest first); for each epoch the address is `notFound`, its index lookup `failed`, or `found` with the chain of
linked-log records (newest record first, newest transaction first inside a record).  `flatten hs` is the
complete history of the address, every entry tagged with its epoch.  The Go result map `epoch → []tx` is
represented by the tagged sequence of appends; `group` recovers `map[e]`.

Repaired behaviour is what the driver runs (`fixed = true`, `responseFixed`); the pinned tree's behaviour is
modelled as well (`fixed = false`, `responsePinned order`) and shown to violate the property by witnesses.

Signatures are *not* assumed distinct in `iterBeforeUntil_spec` (the code and the specification both act on
the first occurrence); distinctness is a hypothesis only where positions are named (`spec_index…`).
-/
namespace C07
open Paging

variable {σ : Type} [DecidableEq σ]

/-- tie: the translated Go `slottools.CalcEpochForSlot` is the model's `epochOf` -/
theorem gen_calcEpochForSlot_eq_model (s : UInt64) :
    (Generated.calcEpochForSlot s).toNat = epochOf s.toNat := by
  unfold Generated.calcEpochForSlot epochOf
  rw [UInt64.toNat_div]
  rfl

/-- **paging = slicing.**  For every history (any number of epochs, records and entries, address absent from any
    subset of the epochs), every `limit` (≤ 0 included: empty), every `before` / `until` (drawn from the history
    or not): the loops return the contiguous run of the flattened history that starts just after `before`
    (or at the newest entry), ends with `until` inclusive (or at the oldest entry) and is cut to `limit`. -/
theorem iterBeforeUntil_spec (hs : Hist σ) (limit : Int) (before untl : Option σ)
    (hok : ∀ h ∈ hs, isFailed h.2 = false) :
    iterBeforeUntil hs limit before untl
      = .ok ((takeThrough untl (dropAfter before (flatten hs))).take limit.toNat) :=
  iterBeforeUntil_eq_spec hs limit before untl hok

example : iterBeforeUntil [(2, Lookup.found [[⟨10, 7⟩, ⟨11, 6⟩], [⟨12, 5⟩]]), (1, .notFound), (0, .found [[⟨13, 2⟩]])]
    2 (some 10) (some 13) = .ok [(2, ⟨11, 6⟩), (2, ⟨12, 5⟩)] := by rfl

/-- what the code does when `before` is given but is not in the history: it never starts collecting —
    the answer is empty and the request succeeds -/
theorem before_absent_empty (hs : Hist σ) (limit : Int) (b : σ) (untl : Option σ)
    (hok : ∀ h ∈ hs, isFailed h.2 = false) (habs : ∀ x ∈ flatten hs, x.2.sig ≠ b) :
    iterBeforeUntil hs limit (some b) untl = .ok [] := by
  rw [iterBeforeUntil_spec hs limit (some b) untl hok, dropAfter_absent b _ habs, takeThrough_nil, List.take_nil]

example : iterBeforeUntil [(2, Lookup.found [[⟨10, 7⟩, ⟨11, 6⟩]])] 5 (some 99) none = .ok [] := by rfl

/-- `until` given but not in the history (after `before`): nothing is cut but `limit` -/
theorem until_absent_no_cut (hs : Hist σ) (limit : Int) (before : Option σ) (u : σ)
    (hok : ∀ h ∈ hs, isFailed h.2 = false) (habs : ∀ x ∈ flatten hs, x.2.sig ≠ u) :
    iterBeforeUntil hs limit before (some u) = .ok ((dropAfter before (flatten hs)).take limit.toNat) := by
  rw [iterBeforeUntil_spec hs limit before (some u) hok, takeThrough_absent]
  intro x hx
  exact habs x ((dropAfter_sublist before _).subset hx)

example : iterBeforeUntil [(2, Lookup.found [[⟨10, 7⟩, ⟨11, 6⟩]])] 5 (some 10) (some 99) = .ok [(2, ⟨11, 6⟩)] := by
  rfl

/-- index form, signatures distinct: `before = history[i]`, `until = history[j]`, `i < j` → `history[i+1 .. j]`
    cut to `limit` -/
theorem spec_index (hs : Hist σ) (limit : Int) (i j : Nat) (hij : i < j) (hj : j < (flatten hs).length)
    (hok : ∀ h ∈ hs, isFailed h.2 = false) (hd : (sigs (flatten hs)).Nodup) :
    iterBeforeUntil hs limit (some ((flatten hs)[i]'(by omega)).2.sig) (some ((flatten hs)[j]).2.sig)
      = .ok ((((flatten hs).drop (i + 1)).take (j - i)).take limit.toNat) := by
  rw [iterBeforeUntil_eq_spec _ _ _ _ hok]
  exact congrArg _ (specL_index (flatten hs) limit i j hij hj hd)

/-- index form: an `until` that is not strictly older than `before` is never met -/
theorem spec_index_until_not_after (hs : Hist σ) (limit : Int) (i j : Nat) (hji : j ≤ i) (hi : i < (flatten hs).length)
    (hok : ∀ h ∈ hs, isFailed h.2 = false) (hd : (sigs (flatten hs)).Nodup) :
    iterBeforeUntil hs limit (some ((flatten hs)[i]).2.sig) (some ((flatten hs)[j]'(by omega)).2.sig)
      = .ok (((flatten hs).drop (i + 1)).take limit.toNat) := by
  rw [iterBeforeUntil_eq_spec _ _ _ _ hok]
  exact congrArg _ (specL_index_until_not_after (flatten hs) limit i j hji hi hd)

example : (sigs (flatten [(2, Lookup.found [[(⟨10, 7⟩ : Tx Nat), ⟨11, 6⟩]]), (1, .found [[⟨12, 3⟩]])])).Nodup := by decide

-- `before` = entry 0, `until` = entry 2 of a history of three: entries 1..2
example : iterBeforeUntil [(2, Lookup.found [[(⟨10, 7⟩ : Tx Nat), ⟨11, 6⟩]]), (1, .found [[⟨12, 3⟩]])] 5 (some 10) (some 12)
    = .ok [(2, ⟨11, 6⟩), (1, ⟨12, 3⟩)] := by rfl

/-- the reader sees a record chain up to its first empty record; the writer never writes one, and then the
    visible history is the whole chain -/
theorem visible_is_flatten {α : Type} (recs : List (List α)) (h : ∀ r ∈ recs, r ≠ []) :
    visible recs = recs.flatten := visible_eq_flatten recs h

example : visible [[1, 2], [3], [], [4]] = [1, 2, 3] ∧ visible [[1, 2], [3], [4]] = [[1, 2], [3], [4]].flatten := by decide

/-- **response order (repaired handler).**  When the loaded epochs are pairwise different, walking the result map
    by the epoch numbers in the order the readers were queried lists the entries exactly in slice order. -/
theorem response_order (hs : Hist σ) (limit : Int) (before untl : Option σ)
    (hok : ∀ h ∈ hs, isFailed h.2 = false) (hn : (hs.map fun h => h.1).Nodup) :
    handler hs limit before untl = .ok ((spec hs (normLimit limit) before untl).map fun x => x.2.sig) := by
  unfold handler
  rw [iterBeforeUntil_eq_spec _ _ _ _ hok]
  simp only
  rw [responseFixed_eq, blocked_regroup _ _ hn]
  exact blocked_sublist _ _ _ (blocked_flatten hs hn) (specL_sublist _ _ _ _)

example : handler [(2, Lookup.found [[⟨10, 7⟩]]), (1, .found [[⟨12, 3⟩, ⟨13, 2⟩]])] 0 none (some 12) = .ok [10, 12] := by
  rfl

/-- **pinned handler**: `for ei := range foundTransactions` visits the map keys in an unspecified order; for the
    two-epoch history below one of the two orders lists the older epoch first -/
theorem response_pinned_order_dependent :
    ∃ (hs : Hist Nat) (limit : Int) (order : List Nat),
      order.Perm (keys (spec hs limit none none)) ∧
      responsePinned order (spec hs limit none none) ≠ (spec hs limit none none).map fun x => x.2.sig := by
  refine ⟨[(2, .found [[⟨10, 7⟩]]), (1, .found [[⟨12, 3⟩]])], 1000, [1, 2], ?_, by decide⟩
  have : keys (spec [(2, Lookup.found [[(⟨10, 7⟩ : Tx Nat)]]), (1, .found [[⟨12, 3⟩]])] 1000 none none) = [2, 1] := by
    decide
  rw [this]
  exact List.Perm.swap 2 1 []

omit [DecidableEq σ] in
/-- with the keys taken in the order of the loaded epochs the pinned loop is the repaired one -/
theorem response_pinned_right_order (hs : Hist σ) (out : Tagged σ) :
    responsePinned (hs.map fun h => h.1) out = responseFixed (hs.map fun h => h.1) out := rfl

omit [DecidableEq σ] in
/-- **slot window (repaired `iterBeforeUntilSlot`)**: only transactions with `until ≤ slot < before` -/
theorem slot_window (hs : Hist σ) (limit : Int) (before untl : Nat) (r : Tagged σ)
    (h : iterBeforeUntilSlot true hs limit before untl = .ok r) :
    ∀ x ∈ r, untl ≤ x.2.slot ∧ x.2.slot < before := by
  unfold iterBeforeUntilSlot at h
  split at h
  · cases h; intro x hx; cases hx
  · split at h
    · cases h
    · cases h
      intro x hx
      rcases allEpochsSlot_mem _ _ _ _ _ x hx with h | h
      · cases h
      · simpa [inWin] using h

example : iterBeforeUntilSlot true [(1, Lookup.found [[(⟨10, 432009⟩ : Tx Nat), ⟨11, 432005⟩, ⟨12, 432001⟩]])] 100 432006 432002
    = .ok [(1, ⟨11, 432005⟩)] := by rfl

/-- **pinned tree**: a transaction above the requested range is returned -/
theorem slot_window_pinned_fails :
    ∃ (hs : Hist Nat) (limit : Int) (before untl : Nat) (r : Tagged Nat),
      iterBeforeUntilSlot false hs limit before untl = .ok r ∧ ∃ x ∈ r, ¬ x.2.slot < before :=
  ⟨[(1, .found [[⟨10, 432009⟩, ⟨11, 432005⟩]])], 100, 432006, 432002, [(1, ⟨10, 432009⟩), (1, ⟨11, 432005⟩)],
    by rfl, (1, ⟨10, 432009⟩), by decide, by decide⟩

omit [DecidableEq σ] in
/-- **slot window, completeness**: on a history whose slots do not increase (newest first) and whose entries lie
    in (or after) the epoch they are filed under, every in-window entry is returned, in history order, up to
    `limit` -/
theorem slot_complete (hs : Hist σ) (limit : Int) (before untl : Nat)
    (hok : ∀ h ∈ hs, isFailed h.2 = false) (hd : Desc (flatten hs))
    (hep : ∀ x ∈ flatten hs, x.1 * Generated.epochLen ≤ x.2.slot) :
    iterBeforeUntilSlot true hs limit before untl
      = .ok (((flatten hs).filter (inWin before untl)).take limit.toNat) := by
  unfold iterBeforeUntilSlot
  split
  · rename_i h
    rcases h with h | h
    · have : limit.toNat = 0 := by omega
      simp [this]
    · have : (flatten hs).filter (inWin before untl) = [] := by
        rw [List.filter_eq_nil_iff]
        intro x _; simp [inWin]; omega
      simp [this]
  · have := allEpochsSlot_sim limit.toNat before untl hs (start none) [] rfl (by simpa using hd) hep hok
    rw [finSlot_nil] at this
    have hf : (allEpochsSlot true limit.toNat before untl hs (start none)).failed = false := this.2
    simp only [hf]
    rw [this.1]
    simp [finSlot, start]

example : Desc (flatten [(2, Lookup.found [[(⟨10, 864007⟩ : Tx Nat)]]), (1, .found [[⟨11, 432005⟩], [⟨12, 432005⟩]])]) := by
  unfold Desc; decide

-- the hypotheses of `slot_complete` hold for a two-epoch history, and its conclusion picks the window
example : ∀ x ∈ flatten [(2, Lookup.found [[(⟨10, 864007⟩ : Tx Nat)]]), (1, .found [[⟨11, 432005⟩], [⟨12, 432005⟩]])],
    x.1 * Generated.epochLen ≤ x.2.slot := by decide

example : iterBeforeUntilSlot true [(2, Lookup.found [[(⟨10, 864007⟩ : Tx Nat)]]), (1, .found [[⟨11, 432005⟩], [⟨12, 432005⟩]])]
    1 864000 432005 = .ok [(1, ⟨11, 432005⟩)] := by rfl

/-- **epochs in which the address never appears are skipped**: removing such an epoch from the loaded set changes
    neither variant's answer (in particular it does not turn it into an error) … -/
theorem absent_epochs_skipped (hs1 hs2 : Hist σ) (e : Nat) (limit : Int) (before untl : Option σ)
    (fixed : Bool) (sb su : Nat) :
    iterBeforeUntil (hs1 ++ (e, .notFound) :: hs2) limit before untl = iterBeforeUntil (hs1 ++ hs2) limit before untl
    ∧ iterBeforeUntilSlot fixed (hs1 ++ (e, .notFound) :: hs2) limit sb su
        = iterBeforeUntilSlot fixed (hs1 ++ hs2) limit sb su := by
  constructor
  · unfold iterBeforeUntil; rw [allEpochs_skip]
  · unfold iterBeforeUntilSlot; rw [allEpochsSlot_skip]

/-- … and a request over epochs none of whose lookups failed with a real error always succeeds -/
theorem absent_epochs_do_not_fail (hs : Hist σ) (limit : Int) (before untl : Option σ)
    (hok : ∀ h ∈ hs, isFailed h.2 = false) : ∃ r, iterBeforeUntil hs limit before untl = .ok r :=
  ⟨_, iterBeforeUntil_eq_spec hs limit before untl hok⟩

example : iterBeforeUntil [(3, Lookup.notFound), (2, .found [[(⟨10, 7⟩ : Tx Nat)]]), (1, .notFound)] 5 none none
    = .ok [(2, ⟨10, 7⟩)] := by rfl

/-- a lookup error other than not-found does fail the request (the hypothesis `hok` above is not vacuous) -/
theorem failed_lookup_fails (hs : Hist σ) (e : Nat) (limit : Int) (before untl : Option σ) (hl : 0 < limit) :
    iterBeforeUntil ((e, .failed) :: hs) limit before untl = .error "error while getting initial offset" := by
  unfold iterBeforeUntil
  have : ¬ limit ≤ 0 := by omega
  simp [this, allEpochs]

end C07

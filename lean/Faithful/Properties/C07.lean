/-! Property C07 — theorems (statements live here, helper lemmas in Faithful/Lib) -/
namespace C07
end C07

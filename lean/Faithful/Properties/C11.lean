import Faithful.Lib.LedgerProofs
import Faithful.Lib.LedgerLimits
import Faithful.Lib.ParsersCbor
/-! Property C11 — the hand-written IPLD node decoders agree with the schema-driven reference decoder.

`Ledger.Fast.decode` is the model of `cbor.go` as pinned (unchecked assertions = `panic` outcomes); the tree now carries
fix 8c63bd7 (those sites return errors), whose model is `Ledger.FastFixed.decode` — the one the driver executes.  The
theorems are proved for the pinned model and transferred to the current one (`current_*`) through the refinement
`FastFixed.ref_decode` (same outcome wherever the pinned model does not panic).
Statements are about the definitions the driver executes (`Ledger.FastFixed.decode`, `Ledger.Ref.decode`,
`Ledger.Ref.encode`, `Ledger.obs` of Faithful/Lib/Ledger.lean), for ALL typed values of the seven kinds that satisfy the
schema's own constraints (`Node.WF`: the kind field carries the kind, Go ints are int64, links are CIDs) — no bound on
list lengths, byte-string lengths or integer magnitudes.  bytes ⇄ CBOR tree is third-party code on both paths and is
outside these statements (compared on every op line of the correspondence run). -/
namespace C11
open Ledger Cbor

/-- **agreement**: a schema-conforming node, encoded by the reference encoder, is accepted by the hand-written decoder
    (never an error, never a panic) and by the schema-driven decoder, and both results carry the observation of the
    original typed value: same kind, field values, optional-field presence (`Has*/Get*`) and links. -/
theorem fast_agrees (n : Node) (wf : n.WF) :
    (∃ n', Fast.decode n.kind (Ref.encode n) = .ok n' ∧ obs n' = obs n) ∧
    (∃ n'', Ref.decode n.kind (Ref.encode n) = .ok n'' ∧ obs n'' = obs n) := by
  cases n with
  | transaction x =>
    exact ⟨⟨_, fast_transaction x wf, by simp [obs, obs_fast_normDF]⟩, ⟨_, ref_transaction x wf, by simp [obs, obs_ref_normDF]⟩⟩
  | entry x => exact ⟨⟨_, fast_entry x wf, rfl⟩, ⟨_, ref_entry x wf, rfl⟩⟩
  | block x => exact ⟨⟨_, fast_block x wf, by simp [obs, Fast.normBlock]⟩, ⟨_, ref_block x wf, rfl⟩⟩
  | subset x => exact ⟨⟨_, fast_subset x wf, rfl⟩, ⟨_, ref_subset x wf, rfl⟩⟩
  | epoch x => exact ⟨⟨_, fast_epoch x wf, rfl⟩, ⟨_, ref_epoch x wf, rfl⟩⟩
  | rewards x =>
    exact ⟨⟨_, fast_rewards x wf, by simp [obs, obs_fast_normDF]⟩, ⟨_, ref_rewards x wf, by simp [obs, obs_ref_normDF]⟩⟩
  | dataFrame x =>
    exact ⟨⟨_, fast_dataFrame x wf, by simp [obs, obs_fast_normDF]⟩, ⟨_, ref_dataFrame x wf, by simp [obs, obs_ref_normDF]⟩⟩

/-- the byte parser in front of the hand-written decoders (fxamacker/cbor with the element limit of the proposed
    repair, 2^31-1; 32 nesting levels) accepts the encoding of every typed value whose lists stay within that limit:
    reference encodings have no maps and nest at most 4 deep -/
theorem parser_limits (n : Node) (h : n.maxList ≤ Fast.maxArrayElements) :
    Fast.parserAccepts (Cbor.stats 64 (Ref.encode n)) = true := by
  have b := bd_encode 64 n Fast.maxArrayElements (by decide) h
  have hd : (Cbor.stats 64 (Ref.encode n)).depth ≤ Fast.maxNestedLevels := Nat.le_trans b.depth (by decide)
  simp [Fast.parserAccepts, b.arr, b.map, hd]

/-- agreement including the parser limits: what the driver executes for the hand-written path -/
theorem fast_agrees_limited (n : Node) (wf : n.WF) (h : n.maxList ≤ Fast.maxArrayElements) :
    ∃ n', Fast.decodeLimited n.kind (Ref.encode n) = .ok n' ∧ obs n' = obs n := by
  obtain ⟨n', hn, ho⟩ := (fast_agrees n wf).1
  exact ⟨n', by simp [Fast.decodeLimited, parser_limits n h, hn], ho⟩

/-- the two decoders agree with each other (the form the harness oracle checks) -/
theorem fast_eq_classic (n : Node) (wf : n.WF) :
    ∃ f c, Fast.decode n.kind (Ref.encode n) = .ok f ∧ Ref.decode n.kind (Ref.encode n) = .ok c ∧ obs f = obs c := by
  obtain ⟨⟨f, hf, hof⟩, ⟨c, hc, hoc⟩⟩ := fast_agrees n wf
  exact ⟨f, c, hf, hc, hof.trans hoc.symm⟩

/-- **agreement for the current tree** (decoders with fix 8c63bd7, the model the driver runs): same statement -/
theorem current_fast_agrees (n : Node) (wf : n.WF) :
    (∃ n', FastFixed.decode n.kind (Ref.encode n) = .ok n' ∧ obs n' = obs n) ∧
    (∃ n'', Ref.decode n.kind (Ref.encode n) = .ok n'' ∧ obs n'' = obs n) := by
  obtain ⟨⟨n', hn, ho⟩, hr⟩ := fast_agrees n wf
  exact ⟨⟨n', FastFixed.decode_ok_of_pinned_ok hn, ho⟩, hr⟩

theorem current_fast_agrees_limited (n : Node) (wf : n.WF) (h : n.maxList ≤ Fast.maxArrayElements) :
    ∃ n', FastFixed.decodeLimited n.kind (Ref.encode n) = .ok n' ∧ obs n' = obs n := by
  obtain ⟨n', hn, ho⟩ := fast_agrees_limited n wf h
  exact ⟨n', FastFixed.decodeLimited_ok_of_pinned_ok hn, ho⟩

/-- the current hand-written decoders never panic, on any CBOR tree of any kind (shared with property C12) -/
theorem current_never_panics (k : Kind) (v : Cbor.Val) : ∀ w, FastFixed.decode k v ≠ Ledger.Outcome.panic w :=
  FastFixed.np_decode k v

/-! ### a node of one kind is never accepted as another kind -/

theorem dropTrailing_head (a : Val) (xs : List (Option Val)) :
    ∃ t, Ref.dropTrailingAbsent (some a :: xs) = some a :: t := by
  simp only [Ref.dropTrailingAbsent]
  split
  · exact ⟨[], rfl⟩
  · exact ⟨_, rfl⟩

theorem tupleItems_head (a : Val) (xs : List (Option Val)) : ∃ t, Ref.tupleItems' (some a :: xs) = a :: t := by
  obtain ⟨t, ht⟩ := dropTrailing_head a xs
  exact ⟨t.map Ref.fill, by simp [Ref.tupleItems', ht]⟩

/-- every encoded node is an array that starts with its kind number -/
theorem encode_head (n : Node) (wf : n.WF) : ∃ t, Ref.encode n = .arr (Ref.encInt n.kind.num :: t) := by
  cases n with
  | transaction x => obtain ⟨hk, _⟩ := wf; simp only [Ref.encode, Ref.tuple, Node.kind, Kind.num, hk]; obtain ⟨t, ht⟩ := tupleItems_head (Ref.encInt 0) _; exact ⟨t, by rw [ht]⟩
  | entry x => obtain ⟨hk, _⟩ := wf; simp only [Ref.encode, Ref.tuple, Node.kind, Kind.num, hk]; obtain ⟨t, ht⟩ := tupleItems_head (Ref.encInt 1) _; exact ⟨t, by rw [ht]⟩
  | block x => obtain ⟨hk, _⟩ := wf; simp only [Ref.encode, Ref.tuple, Node.kind, Kind.num, hk]; obtain ⟨t, ht⟩ := tupleItems_head (Ref.encInt 2) _; exact ⟨t, by rw [ht]⟩
  | subset x => obtain ⟨hk, _⟩ := wf; simp only [Ref.encode, Ref.tuple, Node.kind, Kind.num, hk]; obtain ⟨t, ht⟩ := tupleItems_head (Ref.encInt 3) _; exact ⟨t, by rw [ht]⟩
  | epoch x => obtain ⟨hk, _⟩ := wf; simp only [Ref.encode, Ref.tuple, Node.kind, Kind.num, hk]; obtain ⟨t, ht⟩ := tupleItems_head (Ref.encInt 4) _; exact ⟨t, by rw [ht]⟩
  | rewards x => obtain ⟨hk, _⟩ := wf; simp only [Ref.encode, Ref.tuple, Node.kind, Kind.num, hk]; obtain ⟨t, ht⟩ := tupleItems_head (Ref.encInt 5) _; exact ⟨t, by rw [ht]⟩
  | dataFrame x => obtain ⟨hk, _⟩ := wf; simp only [Ref.encode, Ref.encDataFrame, Ref.dfItems, Node.kind, Kind.num, hk]; obtain ⟨t, ht⟩ := tupleItems_head (Ref.encInt 6) _; exact ⟨t, by rw [ht]⟩

theorem kindNum_I64 (k : Kind) : I64 k.num := by cases k <;> decide

theorem kindNum_inj (a b : Kind) (h : a.num = b.num) : a = b := by
  cases a <;> cases b <;> first | rfl | (exact absurd h (by decide))

theorem readKind_mismatch (have_ want : Int) (h : I64 have_) (hne : have_ ≠ want) (t : List Val) :
    ∃ e, Fast.readKind (Ref.encInt have_ :: t) want = .err e := by
  simp [Fast.readKind, Fast.get, getUint64_encInt have_ h, castI64_castU64 have_ h, hne]

/-- **kind exclusivity**: offered to the decoder of any other kind, the encoding of a schema-conforming node is rejected
    with an error — never accepted, never a panic. -/
theorem kind_exclusive (n : Node) (wf : n.WF) (k : Kind) (hk : k ≠ n.kind) :
    ∃ e, Fast.decode k (Ref.encode n) = .err e := by
  obtain ⟨t, ht⟩ := encode_head n wf
  have hne : n.kind.num ≠ k.num := fun h => hk (kindNum_inj _ _ h).symm
  rw [ht]
  cases k with
  | transaction => obtain ⟨e, he⟩ := readKind_mismatch _ 0 (kindNum_I64 _) hne t; exact ⟨e, by simp [Fast.decode, Fast.unmarshalTransaction, Fast.topArray, he]⟩
  | entry => obtain ⟨e, he⟩ := readKind_mismatch _ 1 (kindNum_I64 _) hne t; exact ⟨e, by simp [Fast.decode, Fast.unmarshalEntry, Fast.topArray, he]⟩
  | block => obtain ⟨e, he⟩ := readKind_mismatch _ 2 (kindNum_I64 _) hne t; exact ⟨e, by simp [Fast.decode, Fast.unmarshalBlock, Fast.topArray, he]⟩
  | subset => obtain ⟨e, he⟩ := readKind_mismatch _ 3 (kindNum_I64 _) hne t; exact ⟨e, by simp [Fast.decode, Fast.unmarshalSubset, Fast.topArray, he]⟩
  | epoch => obtain ⟨e, he⟩ := readKind_mismatch _ 4 (kindNum_I64 _) hne t; exact ⟨e, by simp [Fast.decode, Fast.unmarshalEpoch, Fast.topArray, he]⟩
  | rewards => obtain ⟨e, he⟩ := readKind_mismatch _ 5 (kindNum_I64 _) hne t; exact ⟨e, by simp [Fast.decode, Fast.unmarshalRewards, Fast.topArray, he]⟩
  | dataFrame => obtain ⟨e, he⟩ := readKind_mismatch _ 6 (kindNum_I64 _) hne t; exact ⟨e, by simp [Fast.decode, Fast.unmarshalDataFrame, Fast.dataFrameFromArray, Fast.topArray, he]⟩

/-- **kind exclusivity for the current tree** -/
theorem current_kind_exclusive (n : Node) (wf : n.WF) (k : Kind) (hk : k ≠ n.kind) :
    ∃ e, FastFixed.decode k (Ref.encode n) = .err e := by
  obtain ⟨e, he⟩ := kind_exclusive n wf k hk
  rcases FastFixed.ref_decode k (Ref.encode n) with h | ⟨w, h⟩
  · exact ⟨e, by rw [← h, he]⟩
  · rw [he] at h; cases h

/-! ### integer sign handling through the casts of cbor.go -/

/-- every Go `int` (negative, zero, MinInt64, MaxInt64) survives `encode → i.(uint64)/i.(int64) → uint64(·) → int(·)`
    and the schema-driven path unchanged -/
theorem int_sign (v : Int) (h : I64 v) :
    (∃ u, Fast.getUint64 (Ref.encInt v) = .ok u ∧ castI64 u = v) ∧ Ref.decInt (Ref.encInt v) = .ok v :=
  ⟨⟨_, getUint64_encInt v h, castI64_castU64 v h⟩, decInt_encInt v h⟩

/-- a uint64 (a CRC64 hash, a block height) stored in a Go `int`: values from 2^63 up are negative as `int`, are written
    by the reference encoder as negative CBOR integers, come back through both decoders as the same `int`, and the
    accessors `GetHash` / `GetBlockHeight` (`uint64(**p)`) return the original uint64 -/
theorem int_sign_uint64 (u : Nat) (h : u < 18446744073709551616) :
    I64 (castI64 u) ∧ (9223372036854775808 ≤ u → castI64 u < 0) ∧
    (∃ w, Fast.getUint64 (Ref.encInt (castI64 u)) = .ok w ∧ castI64 w = castI64 u) ∧
    Ref.decInt (Ref.encInt (castI64 u)) = .ok (castI64 u) ∧
    obsOptU64 (some (some (castI64 u))) = some u := by
  refine ⟨castI64_I64 u, ?_, (int_sign _ (castI64_I64 u)).1, (int_sign _ (castI64_I64 u)).2, ?_⟩
  · intro h2; unfold castI64; split <;> omega
  · simp [obsOptU64, castU64_castI64 u h]

/-- a CBOR unsigned integer above MaxInt64 (never produced by the reference encoder, but by other writers): both
    decoders wrap it to the same negative `int` -/
theorem int_sign_large_uint (u : Nat) :
    (do let w ← Fast.getUint64 (.uint u); Outcome.ok (castI64 w)) = Outcome.ok (castI64 u) ∧
    Ref.decInt (.uint u) = .ok (castI64 u) := by
  constructor
  · simp [Fast.getUint64]
  · simp [Ref.decInt, Ref.untag]

/-- the casts are Go's fixed-width two's-complement conversions (stated with Lean's own `UInt64`/`Int64`) -/
theorem castI64_eq_toInt64 (u : Nat) : castI64 u = (UInt64.ofNat u).toInt64.toInt := by
  have hc : (Int64.toBitVec ⟨UInt64.ofNat u⟩).toNat = u % 18446744073709551616 := by
    show (UInt64.ofNat u).toBitVec.toNat = _
    simp [UInt64.toBitVec_ofNat']
  unfold castI64
  rw [UInt64.toInt64, Int64.toInt]
  simp only [BitVec.toInt_eq_toNat_cond, hc]
  split <;> split <;> omega

theorem castU64_eq_toUInt64 (v : Int) : castU64 v = (Int64.ofInt v).toUInt64.toNat := by
  unfold castU64
  simp [Int64.ofInt, UInt64.toNat, BitVec.toNat_ofInt]

/-! ### non-vacuity: the hypotheses are satisfiable, the conclusions are not trivial -/

/-- CIDv1 / raw / identity multihash of the empty digest -/
def cidA : Cid := [0x01, 0x55, 0x00, 0x00]
/-- CIDv1 / dag-cbor / sha2-256, the shape the CAR writers produce -/
def cidB : Cid := [0x01, 0x71, 0x12, 0x20,
  0xc7, 0x17, 0xfd, 0xdb, 0x1b, 0x84, 0xd2, 0xc5, 0x2b, 0x9e, 0xf9, 0xfe, 0x29, 0x92, 0x4b, 0x04,
  0x4d, 0x7f, 0x67, 0xaa, 0x74, 0xa6, 0x38, 0x56, 0x6d, 0xf3, 0x71, 0x83, 0x3b, 0x56, 0xb7, 0x7b]

def exFrame : DataFrame := ⟨6, some (some (-5)), none, some none, [1, 2, 3], some (some [cidA, cidB])⟩
def exFrame2 : DataFrame := ⟨6, none, some (some 0), some (some 2), [], none⟩
def exEpoch : Node := .epoch ⟨4, 39, [cidA, cidB]⟩
def exSubset : Node := .subset ⟨3, 0, 431999, [cidB]⟩
def exBlock : Node := .block ⟨2, 17, [⟨0, 1⟩, ⟨-1, -9223372036854775808⟩], [cidA], ⟨16, 1700000000, some (some 9223372036854775807)⟩, cidB⟩
def exEntry : Node := .entry ⟨1, 12500, [0xaa, 0xbb], []⟩
def exRewards : Node := .rewards ⟨5, 17, exFrame⟩
def exTransaction : Node := .transaction ⟨0, exFrame, exFrame2, 17, some none⟩
def exDataFrame : Node := .dataFrame exFrame

example : exEpoch.WF := by decide
example : exSubset.WF := by decide
example : exBlock.WF := by decide
example : exEntry.WF := by decide
example : exRewards.WF := by decide
example : exTransaction.WF := by decide
example : exDataFrame.WF := by decide

example : ∃ n', Fast.decode .transaction (Ref.encode exTransaction) = .ok n' ∧ obs n' = obs exTransaction :=
  (fast_agrees exTransaction (by decide)).1
example : ∃ e, Fast.decode .block (Ref.encode exEpoch) = .err e := kind_exclusive exEpoch (by decide) .block (by decide)
example : ∃ e, Fast.decode .dataFrame (Ref.encode exTransaction) = .err e := kind_exclusive exTransaction (by decide) .dataFrame (by decide)

/-- WF is a real restriction: a value whose int does not fit int64, a link that is not a CID, a wrong kind -/
example : ¬ (Node.epoch ⟨4, 9223372036854775808, []⟩).WF := by decide
example : ¬ (Node.epoch ⟨4, 1, [[0x01, 0x55, 0x00]]⟩).WF := by decide
example : ¬ (Node.epoch ⟨3, 1, []⟩).WF := by decide

/-- the model's panic outcomes are reachable (so "accepted, never a panic" says something): the unchecked assertions of
    cbor.go on inputs outside the schema — `hash.([]byte)`, `meta.([]interface{})`, `data.([]interface{})`, `rawBytes[1:]` -/
example : ∃ w, Fast.decode .entry (.arr [.uint 1, .uint 1, .uint 7, .arr []]) = .panic w := ⟨_, rfl⟩
example : ∃ w, Fast.decode .block (.arr [.uint 2, .uint 1, .arr [], .arr [], .uint 5, Ref.encLink cidA]) = .panic w := ⟨_, rfl⟩
example : ∃ w, Fast.decode .rewards (.arr [.uint 5, .uint 1, .null]) = .panic w := ⟨_, rfl⟩
example : ∃ w, Fast.decode .epoch (.arr [.uint 4, .uint 1, .arr [.tag 42 (.bytes [])]]) = .panic w := ⟨_, rfl⟩
/-- and the two decoders really differ outside the schema: an extra tuple entry -/
example : (∃ n, Fast.decode .epoch (.arr [.uint 4, .uint 1, .arr [], .uint 99]) = .ok n) ∧
    (∃ e, Ref.decode .epoch (.arr [.uint 4, .uint 1, .arr [], .uint 99]) = .error e) := ⟨⟨_, rfl⟩, ⟨_, rfl⟩⟩

/-- integers: -1 and MinInt64 through the hand-written path; 2^64-1 wraps to -1 on both paths -/
example : castI64 (castU64 (-9223372036854775808)) = -9223372036854775808 := by decide
example : castI64 18446744073709551615 = -1 := by decide
example : obsOptU64 (some (some (-1))) = some 18446744073709551615 := by decide

end C11

/-! Property C11 — theorems (statements live here, helper lemmas in Faithful/Lib) -/
namespace C11
end C11

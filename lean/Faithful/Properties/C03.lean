import Faithful.Lib.EpochLookupProofs
import Faithful.Properties.C01

/-!
# C03 — a request is never answered with an object that belongs to a different key

Model: Faithful/Lib/EpochLookup.lean (the definitions the driver `fdrv-C03` executes).

* The on-disk hash index stores no keys (`lookup_collision`, `collision_found`, `index_alone_cannot_reject`): the
  index alone cannot tell an absent key from a stored one with the same bucket and 24-bit hash.
* A CID-addressed fetch compares the CID of the section it read (`getNodeByCid_sound`, `getNodeByCid_archived`).
* `Epoch.GetBlock` / `Epoch.GetTransaction` WITH the comparison of the decoded slot / first signature
  (the repaired behaviour, fix C03-1) are sound for EVERY index content, even a corrupted or colliding one
  (`getBlock_sound`, `getTx_sound`, `multiGetBlock_sound`, `multiGetTx_sound`), answer nothing for absent keys of a
  well-built archive (`getBlock_absent`, `getTx_absent`) and lose nothing (`getBlock_complete`, `getTx_complete`).
* WITHOUT the comparison (the pinned tree) a well-built archive answers an absent slot with the block of another
  slot (`getBlock_unsound_without_check`, `getTx_unsound_without_check`).
* The address lookup with the per-transaction membership check (fix C03-2) returns only transactions that mention
  the address (`gsfa_sound`, `gsfa_absent`), keeps every answer for present addresses (`gsfa_complete`); without it
  a colliding address gets the other address's list (`gsfaNoCheck_collision`, `gsfa_unsound_without_check`).

All statements hold for an arbitrary pair of hash functions `hf` and an arbitrary node decoder `info`.
-/
namespace C03
open B CI Car IndexAll EpochLookup

/-! ## the hash index stores no keys -/

/-- two keys with the same bucket and the same in-bucket hash get the same answer from ANY index -/
theorem lookup_collision (hf : HF) (ix : IndexA) (k k' : Bytes) (i : Nat) (b : BucketA)
    (hk : hf.bucket k ix.numBuckets = some i) (hk' : hf.bucket k' ix.numBuckets = some i)
    (hb : ix.buckets[i]? = some b) (he : hf.entry b.nonce k' = hf.entry b.nonce k) :
    lookupA hf ix k' = lookupA hf ix k := by
  unfold lookupA
  simp only [hk, hk', hb, he]

/-- in an index built by the real builder, a key that was never inserted but collides with an inserted one is
    answered "found" with the inserted key's value -/
theorem collision_found (hf : HF) (vs declared : Nat) (m : List (Bytes × Bytes)) (kvs : List KV) (ix : IndexA)
    (h : buildA hf vs declared m kvs = .ok ix) (kv : KV) (hkv : kv ∈ kvs) (k' : Bytes)
    (hbkt : hf.bucket k' ix.numBuckets = hf.bucket kv.key ix.numBuckets)
    (hent : ∀ nonce, hf.entry nonce k' = hf.entry nonce kv.key) :
    lookupA hf ix k' = .found kv.val := by
  rw [← C04.build_lookup hf vs declared m kvs ix h kv hkv]
  unfold lookupA
  rw [hbkt]
  cases hf.bucket kv.key ix.numBuckets with
  | none => rfl
  | some i =>
    simp only []
    cases ix.buckets[i]? with
    | none => rfl
    | some b => simp only [hent]

/-- **the index alone cannot reject an absent key**: there is a successfully built index and a key that was never
    inserted for which the lookup does not answer not-found (toy hash pair: bucket and in-bucket hash by key length) -/
theorem index_alone_cannot_reject :
    ∃ (hf : HF) (kvs : List KV) (ix : IndexA) (k : Bytes),
      buildA hf 36 25000 [] kvs = .ok ix ∧ k ∉ kvs.map (·.key) ∧ lookupA hf ix k ≠ .notFound := by
  obtain ⟨ix, h⟩ := C04.build_singleton_ok C04.toyHF 36 25000 [] ⟨[4,5], [8]⟩ (by omega) (by omega) 2 (by decide) (by decide)
  refine ⟨C04.toyHF, [⟨[4,5], [8]⟩], ix, [9,9], h, by decide, ?_⟩
  rw [collision_found C04.toyHF 36 25000 [] _ ix h ⟨[4,5], [8]⟩ (by simp) [9,9] rfl (fun _ => rfl)]
  simp

/-! ## fetch by CID -/

/-- re-export of C01's theorem: whatever the index says and whatever file is read, data comes back only from a
    section labelled with the requested CID -/
theorem getNodeByCid_sound (hf : HF) (ix : IndexSet) (car c d : Bytes) (h : getNodeByCid hf ix car c = .ok d) :
    ∃ off sz, off + sz ≤ car.length ∧ parseSection (slice car off sz) = some (c, d) :=
  C01.getNodeByCid_sound hf ix car c d h

/-- strengthened for a well-built archive: a successful fetch returns exactly an archived object stored under the
    requested CID (never bytes stored under a different CID, never bytes cut out of the middle of the file) -/
theorem getNodeByCid_archived (hf : HF) (info : Bytes → Info) (hdr : Bytes) (secs : List Sec) (a b c : Nat) (ix : IndexSet)
    (hwf : ∀ s ∈ secs, s.cid.length = 36)
    (h : build hf info hdr.length secs a b c = .ok ix) (k d : Bytes)
    (hg : getNodeByCid hf ix (Car.encode hdr secs) k = .ok d) : (⟨k, d⟩ : Sec) ∈ secs := by
  obtain ⟨hsmall, hc, _, _, _, _⟩ := build_ok hf info hdr.length secs a b c ix h
  unfold getNodeByCid at hg
  split at hg
  · rename_i v hv
    obtain ⟨kv, hkv, _, _, _, _, _, _, hval⟩ := C04.lookup_sound hf 9 a [] _ ix.cidIx hc k v hv
    unfold cidKVs at hkv
    obtain ⟨l, hl, hkvl⟩ := List.mem_map.mp hkv
    obtain ⟨i, hiL, hli⟩ := List.getElem_of_mem hl
    have hi : i < secs.length := by rw [scan_length] at hiL; exact hiL
    have hloc := scan_getElem hdr.length secs i hi
    rw [hli] at hloc
    obtain ⟨ho, hs⟩ := hsmall l hl
    rw [hloc] at ho hs
    simp only at ho hs
    have hv' : v = oasEncode (hdr.length + prefixLen (secs.map secBytes) i) (secBytes secs[i]).length := by
      rw [← hval, ← hkvl, hloc]
    subst hv'
    simp only [oas_roundtrip _ _ ho hs] at hg
    have hslice := slice_at_loc hdr secs i hi
    have hfit : hdr.length + prefixLen (secs.map secBytes) i + (secBytes secs[i]).length ≤ (Car.encode hdr secs).length := by
      unfold Car.encode
      have hi' : i < (secs.map secBytes).length := by simpa using hi
      have := prefix_le_total (secs.map secBytes) i hi'
      simp only [List.getElem_map] at this
      simp only [List.length_append]
      omega
    have hsz : secs[i].cid.length + secs[i].data.length < 268435456 := by
      rw [secBytes_length] at hs
      have : (2:Nat)^24 = 16777216 := by decide
      omega
    unfold nodeAt at hg
    have hnot : ¬ (hdr.length + prefixLen (secs.map secBytes) i + (secBytes secs[i]).length > (Car.encode hdr secs).length) := by omega
    simp only [hnot, if_false, hslice, parseSection_secBytes secs[i] (hwf _ (List.getElem_mem hi)) hsz] at hg
    by_cases hck : secs[i].cid = k
    · simp only [hck, if_true, Got.ok.injEq] at hg
      have : (⟨k, d⟩ : Sec) = secs[i] := by rw [← hck, ← hg]
      rw [this]; exact List.getElem_mem hi
    · simp [hck] at hg
  · cases hg
  · cases hg

/-! ## blocks -/

/-- what an `ok` of the checked `GetBlock` means, for every index content and every file -/
theorem getBlock_ok (hf : HF) (info : Bytes → Info) (ix : IndexSet) (car : Bytes) (s : Nat) (n : Node) (slot : Nat)
    (h : getBlock hf info ix car s = .ok (n, slot)) :
    slot = s ∧ findCidFromSlot hf ix s = .found n.cid ∧ getNodeByCid hf ix car n.cid = .ok n.data ∧
      ∃ bt, info n.data = .block s bt := by
  unfold getBlock at h
  obtain ⟨h1, hs⟩ := checkSlot_ok s _ n slot h
  unfold getBlockNoCheck getBlockWith at h1
  obtain ⟨h2, bt, hi⟩ := asBlock_ok info _ n slot h1
  obtain ⟨h3, h4⟩ := fetchFound_ok _ _ n h2
  subst hs
  exact ⟨rfl, h3, h4, bt, hi⟩

/-- **getBlock never answers with a block of another slot** — for every hash pair, every decoder, EVERY index
    content (corrupted, colliding, built for another CAR) and every file: an answer is a node that decodes as a block
    of the requested slot and was read from a section labelled with the CID the index gave. -/
theorem getBlock_sound (hf : HF) (info : Bytes → Info) (ix : IndexSet) (car : Bytes) (s : Nat) (n : Node) (slot : Nat)
    (h : getBlock hf info ix car s = .ok (n, slot)) :
    slot = s ∧ (∃ bt, info n.data = .block s bt) ∧
      ∃ off sz, off + sz ≤ car.length ∧ parseSection (slice car off sz) = some (n.cid, n.data) := by
  obtain ⟨hs, _, hg, hb⟩ := getBlock_ok hf info ix car s n slot h
  exact ⟨hs, hb, getNodeByCid_sound hf ix car n.cid n.data hg⟩

/-- a slot that has no block in a well-built archive is never answered with a block
    (skipped slots, slots of other epochs, slots whose 24-bit hash collides with a stored slot alike) -/
theorem getBlock_absent (hf : HF) (info : Bytes → Info) (hdr : Bytes) (secs : List Sec) (a b c : Nat) (ix : IndexSet)
    (hwf : ∀ s ∈ secs, s.cid.length = 36)
    (h : build hf info hdr.length secs a b c = .ok ix) (s : Nat)
    (habs : ∀ sec ∈ secs, ∀ bt, info sec.data ≠ .block s bt) (r : Node × Nat) :
    getBlock hf info ix (Car.encode hdr secs) s ≠ .ok r := by
  intro hg
  obtain ⟨n, slot⟩ := r
  obtain ⟨_, _, hget, bt, hi⟩ := getBlock_ok hf info ix _ s n slot hg
  have hm := getNodeByCid_archived hf info hdr secs a b c ix hwf h n.cid n.data hget
  exact habs _ hm bt hi

/-- the comparison loses nothing: every archived block is still returned for its own slot -/
theorem getBlock_complete (hf : HF) (info : Bytes → Info) (hdr : Bytes) (secs : List Sec) (a b c : Nat) (ix : IndexSet)
    (hwf : ∀ s ∈ secs, s.cid.length = 36)
    (h : build hf info hdr.length secs a b c = .ok ix) (i : Nat) (hi : i < secs.length) (slot bt : Nat)
    (hinfo : info secs[i].data = .block slot bt) :
    getBlock hf info ix (Car.encode hdr secs) slot = .ok (⟨secs[i].cid, secs[i].data⟩, slot) := by
  have h1 := (C01.C01_slots hf info hdr secs a b c ix h secs[i] (List.getElem_mem hi) slot bt hinfo).1
  have h2 := C01.C01_objects hf info hdr secs a b c ix hwf h i hi
  unfold getBlock getBlockNoCheck getBlockWith
  rw [h1]
  simp only [fetchFound, h2, asBlock, hinfo, checkSlot, if_true]

/-! ## transactions -/

theorem getTx_ok (hf : HF) (info : Bytes → Info) (ix : IndexSet) (car : Bytes) (g : Bytes) (n : Node) (sig : Bytes)
    (h : getTx hf info ix car g = .ok (n, sig)) :
    sig = g ∧ findCidFromSig hf ix g = .found n.cid ∧ getNodeByCid hf ix car n.cid = .ok n.data ∧
      info n.data = .tx g := by
  unfold getTx at h
  obtain ⟨h1, hs⟩ := checkSig_ok g _ n sig h
  unfold getTxNoCheck getTxWith at h1
  obtain ⟨h2, hi⟩ := asTx_ok info _ n sig h1
  obtain ⟨h3, h4⟩ := fetchFound_ok _ _ n h2
  subst hs
  exact ⟨rfl, h3, h4, hi⟩

/-- **getTransaction never answers with a transaction that does not carry the requested signature** — for every
    index content and every file -/
theorem getTx_sound (hf : HF) (info : Bytes → Info) (ix : IndexSet) (car : Bytes) (g : Bytes) (n : Node) (sig : Bytes)
    (h : getTx hf info ix car g = .ok (n, sig)) :
    sig = g ∧ info n.data = .tx g ∧
      ∃ off sz, off + sz ≤ car.length ∧ parseSection (slice car off sz) = some (n.cid, n.data) := by
  obtain ⟨hs, _, hg, hi⟩ := getTx_ok hf info ix car g n sig h
  exact ⟨hs, hi, getNodeByCid_sound hf ix car n.cid n.data hg⟩

/-- a signature that no archived transaction carries first is never answered with a transaction -/
theorem getTx_absent (hf : HF) (info : Bytes → Info) (hdr : Bytes) (secs : List Sec) (a b c : Nat) (ix : IndexSet)
    (hwf : ∀ s ∈ secs, s.cid.length = 36)
    (h : build hf info hdr.length secs a b c = .ok ix) (g : Bytes)
    (habs : ∀ sec ∈ secs, info sec.data ≠ .tx g) (r : Node × Bytes) :
    getTx hf info ix (Car.encode hdr secs) g ≠ .ok r := by
  intro hg
  obtain ⟨n, sig⟩ := r
  obtain ⟨_, _, hget, hi⟩ := getTx_ok hf info ix _ g n sig hg
  have hm := getNodeByCid_archived hf info hdr secs a b c ix hwf h n.cid n.data hget
  exact habs _ hm hi

theorem getTx_complete (hf : HF) (info : Bytes → Info) (hdr : Bytes) (secs : List Sec) (a b c : Nat) (ix : IndexSet)
    (hwf : ∀ s ∈ secs, s.cid.length = 36)
    (h : build hf info hdr.length secs a b c = .ok ix) (i : Nat) (hi : i < secs.length) (sig : Bytes)
    (hinfo : info secs[i].data = .tx sig) :
    getTx hf info ix (Car.encode hdr secs) sig = .ok (⟨secs[i].cid, secs[i].data⟩, sig) := by
  have h1 := (C01.C01_sigs hf info hdr secs a b c ix h secs[i] (List.getElem_mem hi) sig hinfo).1
  have h2 := C01.C01_objects hf info hdr secs a b c ix hwf h i hi
  unfold getTx getTxNoCheck getTxWith
  rw [h1]
  simp only [fetchFound, h2, asTx, hinfo, checkSig, if_true]

/-! ## several epochs loaded -/

/-- JSON-RPC / gRPC getBlock over any set of loaded epochs: an answer is a block of the requested slot taken from
    the epoch the slot belongs to -/
theorem multiGetBlock_sound (hf : HF) (info : Bytes → Info) (es : List Ep) (s : Nat) (n : Node) (slot : Nat)
    (h : multiGetBlock hf info es s = .ok (n, slot)) :
    slot = s ∧ ∃ e ∈ es, e.num = s / Generated.epochLen ∧ getNodeByCid hf e.ix e.car n.cid = .ok n.data ∧
      ∃ bt, info n.data = .block s bt := by
  unfold multiGetBlock multiGetBlockG at h
  split at h
  · cases h
  · rename_i e he
    obtain ⟨hs, _, hg, hb⟩ := getBlock_ok hf info e.ix e.car s n slot h
    have hm := List.mem_of_find?_eq_some he
    have hp := List.find?_some he
    simp only [beq_iff_eq, epochOfSlot] at hp
    exact ⟨hs, e, hm, hp, hg, hb⟩

/-- a slot of an epoch that is not loaded is answered epoch-not-available, whatever the other epochs' indexes say -/
theorem multiGetBlock_not_loaded (hf : HF) (info : Bytes → Info) (es : List Ep) (s : Nat)
    (h : ∀ e ∈ es, e.num ≠ s / Generated.epochLen) : multiGetBlock hf info es s = .epochNotAvailable := by
  unfold multiGetBlock multiGetBlockG
  have : es.find? (fun e => e.num == epochOfSlot s) = none := by
    apply List.find?_eq_none.mpr
    intro e he
    simpa [epochOfSlot] using h e he
  rw [this]

/-- JSON-RPC / gRPC getTransaction, one epoch loaded (no sig-exists filter consulted) or several: an answer carries
    the requested signature, whichever epoch the routing picked -/
theorem multiGetTx_sound (hf : HF) (info : Bytes → Info) (es : List Ep) (g : Bytes) (n : Node) (sig : Bytes)
    (h : multiGetTx hf info es g = .ok (n, sig)) :
    sig = g ∧ info n.data = .tx g ∧ ∃ e : Ep, getNodeByCid hf e.ix e.car n.cid = .ok n.data := by
  unfold multiGetTx multiGetTxG at h
  split at h
  · cases h
  · rename_i e _
    obtain ⟨hs, _, hg, hi⟩ := getTx_ok hf info e.ix e.car g n sig h
    exact ⟨hs, hi, e, hg⟩

/-! ## the pinned tree: without the comparison -/

theorem buildA_nil_ok (hf : HF) (vs declared : Nat) (m : List (Bytes × Bytes)) (hvs : 0 < vs ∧ vs ≤ 255) (hd : 0 < declared) :
    ∃ ix, buildA hf vs declared m [] = .ok ix := by
  unfold buildA
  have h1 : ¬ (vs = 0 ∨ vs > 255 ∨ declared = 0) := by omega
  simp only [h1, if_false, List.any_nil]
  obtain ⟨r, hr⟩ := C04.allSome_map_some (fun j => sealBucket hf (bucketKVs hf (numBucketsFor declared) [] j))
    (List.range (numBucketsFor declared)) (by
      intro j _
      apply C04.sealBucket_small
      simp [bucketKVs])
  exact ⟨⟨vs, numBucketsFor declared, m, r⟩, by simp [hr]⟩

/-- a one-block archive for the toy hash pair: the witness of the two theorems below -/
def exCid : Bytes := List.replicate 36 1
def exSecs : List Sec := [⟨exCid, [2]⟩]
def exInfoBlock : Bytes → Info := fun _ => .block 5 0
def exInfoTx : Bytes → Info := fun _ => .tx [7]

theorem exSec_len : (secBytes ⟨exCid, [2]⟩).length = 38 := by
  rw [secBytes_length]
  simp only [exCid, List.length_replicate, List.length_cons, List.length_nil]
  rw [Varint.width_lt128 (by omega)]

theorem ex_build_ok (info : Bytes → Info) (key : Bytes)
    (hs : slotKVs info exSecs = [⟨key, exCid⟩] ∧ sigKVs info exSecs = [] ∨
          slotKVs info exSecs = [] ∧ sigKVs info exSecs = [⟨key, exCid⟩]) :
    ∃ ix, build C04.toyHF info ([] : Bytes).length exSecs 1 1 1 = .ok ix := by
  have hnb : numBucketsFor 1 = 1 := by decide
  have hscan : scan 0 exSecs = [⟨exCid, 0, 38⟩] := by simp [exSecs, scan, exSec_len]
  have hcid : cidKVs 0 exSecs = [⟨exCid, oasEncode 0 38⟩] := by simp [cidKVs, hscan]
  have hbk : ∀ k : Bytes, C04.toyHF.bucket k (numBucketsFor 1) = some 0 := by
    intro k; rw [hnb]; simp [C04.toyHF, Nat.mod_one]
  obtain ⟨c, hc⟩ := C04.build_singleton_ok C04.toyHF 9 1 [] ⟨exCid, oasEncode 0 38⟩ (by omega) (by omega) 0 (hbk _) (by rw [hnb]; omega)
  obtain ⟨one, hone⟩ := C04.build_singleton_ok C04.toyHF 36 1 [] ⟨key, exCid⟩ (by omega) (by omega) 0 (hbk _) (by rw [hnb]; omega)
  obtain ⟨nil, hnil⟩ := buildA_nil_ok C04.toyHF 36 1 [] (by omega) (by omega)
  unfold build
  have hany : (scan 0 exSecs).any (fun l => decide (l.offset ≥ 2^48 ∨ l.secLen ≥ 2^24)) = false := by
    simp [hscan]
  simp only [List.length_nil, hany, Bool.false_eq_true, if_false, hcid, hc]
  rcases hs with ⟨h1, h2⟩ | ⟨h1, h2⟩
  · simp only [h1, h2, hone, hnil]
    exact ⟨_, rfl⟩
  · simp only [h1, h2, hone, hnil]
    exact ⟨_, rfl⟩

/-- **without the comparison `GetBlock` is unsound**: a successfully indexed archive, a slot that has no block in
    it, and the unchecked lookup answers with the block of another slot — while the checked lookup answers not-found.
    (Toy hash pair in the kernel; with the real xxhash64 the correspondence run finds such slots in every generated
    epoch: e.g. GetBlock(515629) → block of slot 432211.) -/
theorem getBlock_unsound_without_check :
    ∃ (hf : HF) (info : Bytes → Info) (hdr : Bytes) (secs : List Sec) (a b c : Nat) (ix : IndexSet) (s : Nat) (n : Node) (slot : Nat),
      build hf info hdr.length secs a b c = .ok ix ∧
      (∀ sec ∈ secs, ∀ bt, info sec.data ≠ .block s bt) ∧
      getBlockNoCheck hf info ix (Car.encode hdr secs) s = .ok (n, slot) ∧ slot ≠ s ∧
      getBlock hf info ix (Car.encode hdr secs) s = .notFound := by
  have hkv : slotKVs exInfoBlock exSecs = [⟨slotKey 5, exCid⟩] ∧ sigKVs exInfoBlock exSecs = [] := by
    constructor <;> simp [slotKVs, sigKVs, exSecs, exInfoBlock]
  obtain ⟨ix, h⟩ := ex_build_ok exInfoBlock (slotKey 5) (Or.inl hkv)
  have hwf : ∀ s ∈ exSecs, s.cid.length = 36 := by
    intro s hs; simp only [exSecs, List.mem_cons, List.mem_nil_iff, or_false] at hs; subst hs; simp [exCid]
  obtain ⟨_, _, hsl, _, _, _⟩ := build_ok _ _ _ _ _ _ _ ix h
  rw [hkv.1] at hsl
  -- slot 6 is absent, but its key collides with the key of slot 5
  have hfind : findCidFromSlot C04.toyHF ix 6 = .found exCid :=
    collision_found C04.toyHF 36 1 [] _ ix.slotIx hsl ⟨slotKey 5, exCid⟩ (by simp) (slotKey 6) rfl (fun _ => rfl)
  have hobj := C01.C01_objects C04.toyHF exInfoBlock [] exSecs 1 1 1 ix hwf h 0 (by simp [exSecs])
  have hno : getBlockNoCheck C04.toyHF exInfoBlock ix (Car.encode [] exSecs) 6 = .ok (⟨exCid, [2]⟩, 5) := by
    unfold getBlockNoCheck getBlockWith
    rw [hfind]
    simp only [exSecs, List.getElem_cons_zero] at hobj
    simp only [fetchFound, exSecs, hobj, asBlock, exInfoBlock]
  refine ⟨C04.toyHF, exInfoBlock, [], exSecs, 1, 1, 1, ix, 6, ⟨exCid, [2]⟩, 5, h, ?_, hno, by decide, ?_⟩
  · intro sec _ bt; simp [exInfoBlock]
  · unfold getBlock; rw [hno]; simp [checkSlot]

/-- the same for `GetTransaction` -/
theorem getTx_unsound_without_check :
    ∃ (hf : HF) (info : Bytes → Info) (hdr : Bytes) (secs : List Sec) (a b c : Nat) (ix : IndexSet) (g : Bytes) (n : Node) (sig : Bytes),
      build hf info hdr.length secs a b c = .ok ix ∧
      (∀ sec ∈ secs, info sec.data ≠ .tx g) ∧
      getTxNoCheck hf info ix (Car.encode hdr secs) g = .ok (n, sig) ∧ sig ≠ g ∧
      getTx hf info ix (Car.encode hdr secs) g = .notFound := by
  have hkv : slotKVs exInfoTx exSecs = [] ∧ sigKVs exInfoTx exSecs = [⟨[7], exCid⟩] := by
    constructor <;> simp [slotKVs, sigKVs, exSecs, exInfoTx]
  obtain ⟨ix, h⟩ := ex_build_ok exInfoTx [7] (Or.inr hkv)
  have hwf : ∀ s ∈ exSecs, s.cid.length = 36 := by
    intro s hs; simp only [exSecs, List.mem_cons, List.mem_nil_iff, or_false] at hs; subst hs; simp [exCid]
  obtain ⟨_, _, _, hsg, _, _⟩ := build_ok _ _ _ _ _ _ _ ix h
  rw [hkv.2] at hsg
  have hfind : findCidFromSig C04.toyHF ix [9] = .found exCid :=
    collision_found C04.toyHF 36 1 [] _ ix.sigIx hsg ⟨[7], exCid⟩ (by simp) [9] rfl (fun _ => rfl)
  have hobj := C01.C01_objects C04.toyHF exInfoTx [] exSecs 1 1 1 ix hwf h 0 (by simp [exSecs])
  have hno : getTxNoCheck C04.toyHF exInfoTx ix (Car.encode [] exSecs) [9] = .ok (⟨exCid, [2]⟩, [7]) := by
    unfold getTxNoCheck getTxWith
    rw [hfind]
    simp only [exSecs, List.getElem_cons_zero] at hobj
    simp only [fetchFound, exSecs, hobj, asTx, exInfoTx]
  refine ⟨C04.toyHF, exInfoTx, [], exSecs, 1, 1, 1, ix, [9], ⟨exCid, [2]⟩, [7], h, ?_, hno, by decide, ?_⟩
  · intro sec _; simp [exInfoTx]
  · unfold getTx; rw [hno]; simp [checkSig]

/-! ## addresses -/

theorem gsfaEpoch_sound (hf : HF) (g : AddrIndex) (a : Bytes) (l : List Tx) (h : gsfaEpoch hf g a = .ok l) :
    ∀ t ∈ l, a ∈ t.mentions := by
  unfold gsfaEpoch at h
  split at h
  · rename_i l' _
    cases h
    intro t ht
    have := mem_takeWhile_true _ t _ ht
    simpa using this
  · rename_i hne
    exact absurd h (by intro h'; exact hne l h')

/-- **getSignaturesForAddress lists only transactions that mention the address** — for every content of the
    pubkey indexes and of the linked logs, any number of epochs, any limit -/
theorem gsfa_sound (hf : HF) (gs : List AddrIndex) (a : Bytes) (limit : Nat) (l : List Tx)
    (h : gsfa hf gs a limit = .ok l) : ∀ t ∈ l, a ∈ t.mentions := by
  unfold gsfa at h
  split at h
  · rename_i l' hl
    cases h
    intro t ht
    exact gsfaAll_all (fun t => a ∈ t.mentions) _ (fun g l h => gsfaEpoch_sound hf g a l h) gs l' hl t (List.mem_of_mem_take ht)
  · rename_i hne
    exact absurd h (by intro h'; exact hne l h')

theorem gsfaEpoch_absent (hf : HF) (g : AddrIndex) (a : Bytes)
    (habs : ∀ v, ∀ t ∈ g.log v, a ∉ t.mentions) (l : List Tx) (h : gsfaEpoch hf g a = .ok l) : l = [] := by
  unfold gsfaEpoch at h
  split at h
  · rename_i l' hl'
    cases h
    unfold gsfaEpochNoCheck at hl'
    split at hl'
    · rename_i v _
      cases hl'
      apply takeWhile_nil_of_all_false
      intro t ht
      have := habs v t ht
      simpa using this
    · cases hl'; rfl
    · cases hl'
  · rename_i hne
    exact absurd h (by intro h'; exact hne l h')

/-- an address that no transaction of the loaded epochs mentions gets the empty list — even when its 24-bit hash
    equals that of an indexed address in some (or every) epoch -/
theorem gsfa_absent (hf : HF) (gs : List AddrIndex) (a : Bytes) (limit : Nat)
    (habs : ∀ g ∈ gs, ∀ v, ∀ t ∈ g.log v, a ∉ t.mentions) (l : List Tx)
    (h : gsfa hf gs a limit = .ok l) : l = [] := by
  unfold gsfa at h
  split at h
  · rename_i l' hl
    cases h
    have := gsfaAll_nil _ gs (fun g hg l h => gsfaEpoch_absent hf g a (habs g hg) l h) l' hl
    simp [this]
  · rename_i hne
    exact absurd h (by intro h'; exact hne l h')

/-- the same with paging (`limit`, `before`, `until` in any combination): whatever window of the listing is asked
    for, it holds only transactions that mention the address … -/
theorem gsfaPaged_sound (hf : HF) (gs : List AddrIndex) (a : Bytes) (limit : Nat) (before upto : Option Bytes) (l : List Tx)
    (h : gsfaPaged hf gs a limit before upto = .ok l) : ∀ t ∈ l, a ∈ t.mentions := by
  unfold gsfaPaged at h
  split at h
  · rename_i l' hl
    cases h
    intro t ht
    exact gsfaAll_all (fun t => a ∈ t.mentions) _ (fun g l h => gsfaEpoch_sound hf g a l h) gs l' hl t
      (page_subset limit before upto l' t ht)
  · rename_i hne
    exact absurd h (by intro h'; exact hne l h')

/-- … and an epoch in which the address merely collides contributes nothing, wherever it sits among the loaded
    epochs (newer or older than the epochs that hold the address's real history): the answer over `pre ++ g :: post`
    is the answer over `pre ++ post` -/
theorem gsfaPaged_colliding_epoch_irrelevant (hf : HF) (pre post : List AddrIndex) (g : AddrIndex) (a : Bytes)
    (limit : Nat) (before upto : Option Bytes)
    (habs : ∀ v, ∀ t ∈ g.log v, a ∉ t.mentions) (hok : ∃ l, gsfaEpoch hf g a = .ok l) :
    gsfaPaged hf (pre ++ g :: post) a limit before upto = gsfaPaged hf (pre ++ post) a limit before upto := by
  obtain ⟨l, hl⟩ := hok
  have hnil : l = [] := gsfaEpoch_absent hf g a habs l hl
  subst hnil
  have key : gsfaAll (fun g => gsfaEpoch hf g a) (pre ++ g :: post) = gsfaAll (fun g => gsfaEpoch hf g a) (pre ++ post) := by
    induction pre with
    | nil =>
      simp only [List.nil_append]
      rw [gsfaAll, hl]
      cases gsfaAll (fun g => gsfaEpoch hf g a) post <;> simp
    | cons p r ih =>
      simp only [List.cons_append]
      rw [gsfaAll, gsfaAll, ih]
  unfold gsfaPaged
  rw [key]

theorem gsfaPaged_default (hf : HF) (gs : List AddrIndex) (a : Bytes) (limit : Nat) :
    gsfaPaged hf gs a limit none none = gsfa hf gs a limit := by
  unfold gsfaPaged gsfa
  cases gsfaAll (fun g => gsfaEpoch hf g a) gs <;> simp [page_default]

/-- the check loses nothing: an address whose list holds only transactions that mention it (what `index gsfa`
    writes) gets its whole list -/
theorem gsfa_complete (hf : HF) (g : AddrIndex) (a v : Bytes) (hl : lookupA hf g.ix a = .found v)
    (hm : ∀ t ∈ g.log v, a ∈ t.mentions) : gsfaEpoch hf g a = .ok (g.log v) := by
  unfold gsfaEpoch gsfaEpochNoCheck
  rw [hl]
  simp only
  rw [takeWhile_all _ _ (fun t ht => by simpa using hm t ht)]

/-- on the pinned tree an address that collides with an indexed one gets that address's list -/
theorem gsfaNoCheck_collision (hf : HF) (g : AddrIndex) (a a' : Bytes) (i : Nat) (b : BucketA)
    (hk : hf.bucket a g.ix.numBuckets = some i) (hk' : hf.bucket a' g.ix.numBuckets = some i)
    (hb : g.ix.buckets[i]? = some b) (he : hf.entry b.nonce a' = hf.entry b.nonce a) :
    gsfaEpochNoCheck hf g a' = gsfaEpochNoCheck hf g a := by
  unfold gsfaEpochNoCheck
  rw [lookup_collision hf g.ix a a' i b hk hk' hb he]

/-- concrete witness: a built pubkey index, an address no transaction mentions, and the unchecked lookup lists a
    transaction of another address while the checked lookup lists nothing -/
theorem gsfa_unsound_without_check :
    ∃ (hf : HF) (g : AddrIndex) (a : Bytes) (t : Tx),
      (∀ v, ∀ t ∈ g.log v, a ∉ t.mentions) ∧
      gsfaNoCheck hf [g] a 1000 = .ok [t] ∧ a ∉ t.mentions ∧ gsfa hf [g] a 1000 = .ok [] := by
  obtain ⟨ix, h⟩ := C04.build_singleton_ok C04.toyHF 9 25000 [] ⟨[1,1], [7]⟩ (by omega) (by omega) 2 (by decide) (by decide)
  have hl : lookupA C04.toyHF ix [2,2] = .found [7] :=
    collision_found C04.toyHF 9 25000 [] _ ix h ⟨[1,1], [7]⟩ (by simp) [2,2] rfl (fun _ => rfl)
  refine ⟨C04.toyHF, ⟨ix, fun _ => [⟨[9], [[1,1]]⟩]⟩, [2,2], ⟨[9], [[1,1]]⟩, ?_, ?_, by decide, ?_⟩
  · intro v t ht
    simp only [List.mem_cons, List.mem_nil_iff, or_false] at ht
    subst ht; decide
  · simp [gsfaNoCheck, gsfaAll, gsfaEpochNoCheck, hl]
  · simp [gsfa, gsfaAll, gsfaEpoch, gsfaEpochNoCheck, hl, List.takeWhile]

/-! ## non-vacuity -/

/-- the hypotheses of `getBlock_complete` / `getBlock_absent` are satisfiable: the one-block archive above is
    indexed successfully, its block is returned for its slot and nothing is returned for slot 6 -/
example : ∃ ix, build C04.toyHF exInfoBlock ([] : Bytes).length exSecs 1 1 1 = .ok ix ∧
    getBlock C04.toyHF exInfoBlock ix (Car.encode [] exSecs) 5 = .ok (⟨exCid, [2]⟩, 5) ∧
    ∀ r, getBlock C04.toyHF exInfoBlock ix (Car.encode [] exSecs) 6 ≠ .ok r := by
  have hkv : slotKVs exInfoBlock exSecs = [⟨slotKey 5, exCid⟩] ∧ sigKVs exInfoBlock exSecs = [] := by
    constructor <;> simp [slotKVs, sigKVs, exSecs, exInfoBlock]
  obtain ⟨ix, h⟩ := ex_build_ok exInfoBlock (slotKey 5) (Or.inl hkv)
  have hwf : ∀ s ∈ exSecs, s.cid.length = 36 := by
    intro s hs; simp only [exSecs, List.mem_cons, List.mem_nil_iff, or_false] at hs; subst hs; simp [exCid]
  refine ⟨ix, h, ?_, ?_⟩
  · exact getBlock_complete C04.toyHF exInfoBlock [] exSecs 1 1 1 ix hwf h 0 (by simp [exSecs]) 5 0 rfl
  · intro r
    exact getBlock_absent C04.toyHF exInfoBlock [] exSecs 1 1 1 ix hwf h 6 (by intro sec _ bt; simp [exInfoBlock]) r

/-- `getBlock_sound` / `getTx_sound` are not vacuous: the checked lookups do answer `ok` (previous example,
    `getTx_complete`), and `gsfa_sound` is not: a present address gets a non-empty list -/
example : ∃ (g : AddrIndex) (l : List Tx), gsfa C04.toyHF [g] [1,1] 1000 = .ok l ∧ l ≠ [] := by
  obtain ⟨ix, h⟩ := C04.build_singleton_ok C04.toyHF 9 25000 [] ⟨[1,1], [7]⟩ (by omega) (by omega) 2 (by decide) (by decide)
  have hl := C04.build_lookup C04.toyHF 9 25000 [] _ ix h ⟨[1,1], [7]⟩ (by simp)
  refine ⟨⟨ix, fun _ => [⟨[9], [[1,1]]⟩]⟩, [⟨[9], [[1,1]]⟩], ?_, by simp⟩
  have := gsfa_complete C04.toyHF ⟨ix, fun _ => [⟨[9], [[1,1]]⟩]⟩ [1,1] [7] hl (by
    intro t ht
    simp only [List.mem_cons, List.mem_nil_iff, or_false] at ht
    subst ht; decide)
  simp [gsfa, gsfaAll, this]

/-- `multiGetBlock_not_loaded`: with epochs 1 and 3 loaded a slot of epoch 2 is not served -/
example (hf : HF) (info : Bytes → Info) (ix : IndexSet) :
    multiGetBlock hf info [⟨1, ix, []⟩, ⟨3, ix, []⟩] 900000 = .epochNotAvailable := by
  apply multiGetBlock_not_loaded
  intro e he
  simp only [List.mem_cons, List.mem_nil_iff, or_false] at he
  rcases he with rfl | rfl <;> simp [Generated.epochLen]

end C03

/-! Property C03 — theorems (statements live here, helper lemmas in Faithful/Lib) -/
namespace C03
end C03

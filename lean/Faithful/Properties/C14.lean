/-! Property C14 — theorems (statements live here, helper lemmas in Faithful/Lib) -/
namespace C14
end C14

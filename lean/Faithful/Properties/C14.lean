import Faithful.Lib.Frames

/-! Property C14 — multi-frame payloads reassemble to the original bytes or are rejected.

Theorems about the definitions of `Faithful/Lib/Frames.lean` that the driver `Driver/C14.lean` executes
(`Frames.load`, `Frames.outcomes`, `Frames.accRun`).  Quantified over: every payload and every chunking of it
(`chunks : List Bytes`, any number ≥ 1 of chunks of any sizes), every fan-out `F ≥ 1`, every order `σ` in which a
frame lists its links, every store that holds the frames (so every storage order), every sort function that
satisfies the contract of `sort.Slice` (`SortFn`: a sorted permutation, stability not assumed), every pair of
checksum functions (`Hashes`; collisions are never assumed away), every fuel large enough.
Helper lemmas live in `Faithful/Lib/Frames.lean`. -/

namespace C14
open Frames

/-- toy checksums for the non-vacuity examples: byte sum / length (collisions are easy to exhibit) -/
def toyH : Hashes := ⟨fun b => (b.map (·.toNat)).sum, fun b => 1000 + b.length⟩
def ch : List Bytes := [[1,2],[3],[],[4,5,6],[7]]
def rev : Nat → List Cid → List Cid := fun _ l => l.reverse

/-! ### 1. the writer's layout reassembles, for every payload, chunking, fan-out and order -/

/-- A payload cut into any `k ≥ 1` chunks, laid out as the comment in `ledger.ipldsch` prescribes with any
fan-out `F ≥ 1`, every frame listing its links in any order `σ`, stored in any store that returns these
frames, with or without the `total` field, with no hash or the CRC-64 or the legacy FNV of the payload,
sorted by any implementation of `sort.Slice`: `LoadDataFromDataFrames` returns exactly the payload. -/
theorem reassemble_ok (H : Hashes) (S : SortFn) (chunks : List Bytes) (F : Nat) (tot : Bool) (h : Option Nat)
    (σ : Nat → List Cid → List Cid) (hne : chunks ≠ []) (hF : 1 ≤ F) (hσ : ∀ j l, (σ j l).Perm l)
    (hh : ∀ x, h = some x → H.crc chunks.flatten = x ∨ H.fnv chunks.flatten = x)
    (get : Store) (hget : ∀ c, c < chunks.length → get c = some (mkFrame chunks F tot h σ c))
    (n : Nat) (hn : chunks.length ≤ n) :
    load H S.sort get n (mkFrame chunks F tot h σ 0) = .ok chunks.flatten := by
  rw [load_layout H S chunks F tot h σ hne hF hσ get hget n hn]
  unfold hashStep
  cases h with
  | none => rfl
  | some x =>
    have : verifyHash H chunks.flatten x = true := by
      unfold verifyHash
      rcases hh x rfl with e | e <;> simp [e]
    simp [this]

/-- non-vacuity: five chunks (one empty), fan-out 2, links listed in reverse, CRC accepted -/
example : load toyH SortFn.ins.sort (layoutStore ch 2 true (some 28) rev) 6 (mkFrame ch 2 true (some 28) rev 0)
    = .ok [1,2,3,4,5,6,7] := by decide
/-- … the legacy FNV value is accepted too, and a layout without `total`/`hash` -/
example : load toyH SortFn.ins.sort (layoutStore ch 1 true (some 1007) rev) 6 (mkFrame ch 1 true (some 1007) rev 0)
    = .ok [1,2,3,4,5,6,7] := by decide
example : load toyH SortFn.ins.sort (layoutStore ch 10 false none rev) 6 (mkFrame ch 10 false none rev 0)
    = .ok [1,2,3,4,5,6,7] := by decide
/-- the layout is the one of the schema comment: 10 frames, fan-out 5 -/
example : (List.range 10).map (nextOf 10 5) = [[1,2,3,4,5],[],[],[],[],[6,7,8,9],[],[],[],[]] := by decide

/-- The same for every link graph, not only the comment's: if the traversal fetches exactly the frames `canon`
(each once, in whatever order and nesting) and these carry distinct increasing indices, the answer is their
concatenation.  The order of fetching is irrelevant because the sorted permutation is unique. -/
theorem reassemble_ok_any_graph (H : Hashes) (S : SortFn) (get : Store) (n : Nat) (first : Frame)
    (ws canon : List Frame)
    (hw : walk get n first = .ok ws) (hp : ws.Perm canon) (hc : StrictIdx canon)
    (ht : ∀ t, first.total = some t → t = (canon.length : Int))
    (hh : ∀ h, first.hash = some h → H.crc (payloadOf canon) = h ∨ H.fnv (payloadOf canon) = h) :
    load H S.sort get n first = .ok (payloadOf canon) :=
  load_of_walk_perm H S get n first ws canon hw hp hc ht hh

/-- two sort implementations cannot disagree on such a frame set -/
theorem sort_choice_irrelevant (H : Hashes) (S S' : SortFn) (get : Store) (n : Nat) (first : Frame)
    (ws canon : List Frame) (hw : walk get n first = .ok ws) (hp : ws.Perm canon) (hc : StrictIdx canon) :
    load H S.sort get n first = load H S'.sort get n first := by
  unfold load
  rw [collect_of_walk_perm S get n first ws canon hw hp hc,
    collect_of_walk_perm S' get n first ws canon hw hp hc]

example : load toyH SortFn.ins.sort (layoutStore ch 2 true (some 28) rev) 6 (mkFrame ch 2 true (some 28) rev 0)
    = load toyH SortFn.merge.sort (layoutStore ch 2 true (some 28) rev) 6 (mkFrame ch 2 true (some 28) rev 0) :=
  sort_choice_irrelevant toyH _ _ _ 6 _ ([0, 2, 4, 3, 1].map (mkFrame ch 2 true (some 28) rev))
    ((List.range' 0 5).map (mkFrame ch 2 true (some 28) rev)) (by decide) (by decide)
    (canon_strict ch 2 true (some 28) rev 0 5)

/-! ### 2. soundness of an `ok` answer -/

/-- Whatever the store contains: when `LoadDataFromDataFrames` returns bytes, they are the concatenation of
the collected frames in sorted order, the number of collected frames equals the first frame's `total` when
present, and the first frame's `hash`, when present, is the CRC-64 or the FNV of the returned bytes — exactly
what `VerifyHash` accepts. -/
theorem reassemble_sound (H : Hashes) (S : SortFn) (get : Store) (n : Nat) (first : Frame) (b : Bytes)
    (hb : load H S.sort get n first = .ok b) :
    ∃ fs ws, collect S.sort get n first = .ok fs ∧ walk get n first = .ok ws ∧ fs.Perm ws ∧ Sorted fs ∧
      b = payloadOf fs ∧
      (∀ t, first.total = some t → (fs.length : Int) = t) ∧
      (∀ h, first.hash = some h → H.crc b = h ∨ H.fnv b = h) := by
  unfold load at hb
  cases hc : collect S.sort get n first with
  | err e => rw [hc] at hb; cases hb
  | ok fs =>
    rw [hc] at hb
    obtain ⟨ws, hw, hp, hs⟩ := collect_ok_iff S get n first fs hc
    refine ⟨fs, ws, rfl, hw, hp, hs, ?_⟩
    unfold finish at hb
    cases htot : first.total with
    | none =>
      cases hh : first.hash with
      | none =>
        simp [htot, hh] at hb
        exact ⟨hb.symm, fun t ht => (by cases ht), fun h hh' => (by cases hh')⟩
      | some h =>
        simp only [htot, hh, if_true] at hb
        by_cases hv : verifyHash H (payloadOf fs) h = true
        · simp only [hv, if_true] at hb
          injection hb with hb
          refine ⟨hb.symm, fun t ht => (by cases ht), fun h' hh' => ?_⟩
          injection hh' with hh'; subst hh'; subst hb
          unfold verifyHash at hv
          simpa using hv
        · simp [hv] at hb
    | some t =>
      by_cases hcnt : (fs.length : Int) = t
      · cases hh : first.hash with
        | none =>
          simp [htot, hh, hcnt] at hb
          exact ⟨hb.symm, fun t' ht => (by injection ht with ht; omega), fun h hh' => (by cases hh')⟩
        | some h =>
          simp only [htot, hh, hcnt, decide_true, if_true] at hb
          by_cases hv : verifyHash H (payloadOf fs) h = true
          · simp only [hv, if_true] at hb
            injection hb with hb
            refine ⟨hb.symm, fun t' ht => (by injection ht with ht; omega), fun h' hh' => ?_⟩
            injection hh' with hh'; subst hh'; subst hb
            unfold verifyHash at hv
            simpa using hv
          · simp [hv] at hb
      · simp [htot, hcnt] at hb

/-! ### 3. faults (payloads carrying the frame count and the checksum the writer records) -/

/-- The general statement.  `first` carries `total = k` and `hash = h`, where `h` is what the writer recorded
for `payload` (CRC-64 or FNV).  Whatever the — possibly corrupted, mixed, incomplete — store delivers:
* a traversal that fetches a number of frames other than `k` (frames dropped or duplicated) is a count error;
* an error of the getter is the answer;
* otherwise the answer is an error, or the original payload, or bytes `b ≠ payload` that collide with it
  under the accepted checksums (`H.crc b = h ∨ H.fnv b = h`) — the collision is part of the statement. -/
theorem fault_detected (H : Hashes) (S : SortFn) (get : Store) (n : Nat) (first : Frame) (payload : Bytes)
    (k : Int) (h : Nat) (ht : first.total = some k) (hh : first.hash = some h)
    (_hrec : H.crc payload = h ∨ H.fnv payload = h) :
    (∀ ws, walk get n first = .ok ws → (ws.length : Int) ≠ k → load H S.sort get n first = .err .count) ∧
    (∀ e, walk get n first = .err e → load H S.sort get n first = .err e) ∧
    (∀ b, load H S.sort get n first = .ok b →
        b = payload ∨ (b ≠ payload ∧ (H.crc b = h ∨ H.fnv b = h))) := by
  refine ⟨fun ws hw hlen => count_fault_detected H S get n first ws k hw ht hlen,
    fun e hw => fetch_fault_detected H S get n first e hw, fun b hb => ?_⟩
  obtain ⟨_, _, _, _, _, _, _, _, hhash⟩ := reassemble_sound H S get n first b hb
  by_cases hbp : b = payload
  · exact Or.inl hbp
  · exact Or.inr ⟨hbp, hhash h hh⟩

/-- the first frame lists one link less: a frame (with everything below it) is dropped ⇒ count error -/
theorem drop_detected (H : Hashes) (S : SortFn) (get : Store) (n : Nat) (first : Frame) (ws : List Frame)
    (c : Cid) (hw : walk get (n+1) first = .ok ws) (ht : first.total = some (ws.length : Int))
    (hc : c ∈ first.next) :
    load H S.sort get (n+1) { first with next := first.next.erase c } = .err .count :=
  drop_link_detected H S get n first ws c hw ht hc

/-- the first frame lists one link twice: a frame is duplicated ⇒ count error -/
theorem duplicate_detected (H : Hashes) (S : SortFn) (get : Store) (n : Nat) (first : Frame) (ws : List Frame)
    (c : Cid) (hw : walk get (n+1) first = .ok ws) (ht : first.total = some (ws.length : Int))
    (hc : c ∈ first.next) :
    load H S.sort get (n+1) { first with next := c :: first.next } = .err .count :=
  dup_link_detected H S get n first ws c hw ht hc

/-- a link, anywhere below the first frame, to a frame the store does not hold ⇒ never an `ok` answer -/
theorem missing_detected (H : Hashes) (S : SortFn) (get : Store) (n : Nat) (first g : Frame) (c : Cid)
    (hg : g = first ∨ Reach get first g) (hc : c ∈ g.next) (hnone : get c = none) :
    ∀ b, load H S.sort get n first ≠ .ok b :=
  missing_frame_detected H S get n first g c hg hc hnone

/-- The data of one frame `c` of a layout is altered (bit flip, or the bytes of a frame of another payload put
in its place), every other field as written, the first frame still carrying the hash `h` of the original:
the answer is a hash error, unless the altered bytes collide — in which case exactly the altered bytes come
back.  In no case are the original bytes or anything else returned. -/
theorem alter_detected (H : Hashes) (S : SortFn) (chunks : List Bytes) (F : Nat) (tot : Bool) (h : Nat)
    (σ : Nat → List Cid → List Cid) (hF : 1 ≤ F) (hσ : ∀ j l, (σ j l).Perm l)
    (c : Nat) (d : Bytes) (hc : c < chunks.length) (hd : d ≠ chunks.getD c [])
    (get : Store) (hget : ∀ x, x < chunks.length → get x = some (mkFrame (chunks.set c d) F tot (some h) σ x))
    (n : Nat) (hn : chunks.length ≤ n) :
    (chunks.set c d).flatten ≠ chunks.flatten ∧
    ((load H S.sort get n (mkFrame (chunks.set c d) F tot (some h) σ 0) = .err .hash ∧
        H.crc (chunks.set c d).flatten ≠ h ∧ H.fnv (chunks.set c d).flatten ≠ h) ∨
     (load H S.sort get n (mkFrame (chunks.set c d) F tot (some h) σ 0) = .ok (chunks.set c d).flatten ∧
        (H.crc (chunks.set c d).flatten = h ∨ H.fnv (chunks.set c d).flatten = h))) := by
  refine ⟨flatten_set_ne chunks c d hc hd, ?_⟩
  have hne : chunks.set c d ≠ [] := by
    apply List.ne_nil_of_length_pos; rw [List.length_set]; omega
  have hl := load_layout H S (chunks.set c d) F tot (some h) σ hne hF hσ get
    (by simpa using hget) n (by simpa using hn)
  rw [hl]
  unfold hashStep verifyHash
  by_cases h1 : H.crc (chunks.set c d).flatten = h
  · right; simp [h1]
  · by_cases h2 : H.fnv (chunks.set c d).flatten = h
    · right; simp [h2]
    · left; simp [h1, h2]

/-- non-vacuity of the fault statements on the toy checksums: a dropped link and a duplicated link are count
errors, a deleted frame a getter error, an altered byte a hash error … -/
def st : Store := layoutStore ch 2 true (some 28) rev
def f0 : Frame := mkFrame ch 2 true (some 28) rev 0
example : load toyH SortFn.ins.sort st 6 { f0 with next := f0.next.erase 1 } = .err .count := by decide
example : load toyH SortFn.ins.sort st 6 { f0 with next := 1 :: f0.next } = .err .count := by decide
example : load toyH SortFn.ins.sort (fun c => if c = 3 then none else st c) 6 f0 = .err .get := by decide
example : load toyH SortFn.ins.sort (layoutStore (ch.set 3 [4,5,7]) 2 true (some 28) rev) 6 f0 = .err .hash := by
  decide
/-- … and the collision disjunct cannot be dropped: with a byte-sum checksum, swapping two bytes inside a frame
returns different bytes without an error -/
example : load toyH SortFn.ins.sort (layoutStore (ch.set 3 [5,4,6]) 2 true (some 28) rev) 6 f0
    = .ok [1,2,3,5,4,6,7] := by decide

/-! ### 4. the unstable sort -/

/-- Whatever `sort.Slice` does with equal or missing indices, the answer is one of `outcomes`: the answers for
the sorted permutations of the fetched frames (a single one when the indices are distinct).  The driver prints
this set for op lines in the duplicate-index regime and the real answer must be a member. -/
theorem sort_freedom_bounded (H : Hashes) (S : SortFn) (get : Store) (n : Nat) (first : Frame) :
    load H S.sort get n first ∈ outcomes H get n first :=
  load_mem_outcomes H S get n first

/-- non-vacuity: frame 2 carries index 1 a second time — two answers are possible, both sort functions
land in the set (here both are hash errors or the bytes in either order when no hash is recorded) -/
def dupStore : Store := fun c =>
  if c = 1 then some ⟨some 1, none, none, [20], []⟩ else if c = 2 then some ⟨some 1, none, none, [30], []⟩ else none
def dupFirst : Frame := ⟨some 0, some 3, none, [10], [1, 2]⟩
example : outcomes toyH dupStore 3 dupFirst = [.ok [10, 20, 30], .ok [10, 30, 20]] := by decide
example : load toyH SortFn.ins.sort dupStore 3 dupFirst ∈ outcomes toyH dupStore 3 dupFirst := by decide

/-! ### 5. fuel -/

/-- an answer other than `fuel` does not depend on the fuel: the fuel the driver supplies (number of frames
on the op lines + 1) can only matter for graphs on which the Go recursion does not return -/
theorem fuel_irrelevant (H : Hashes) (S : SortFn) (get : Store) (n m : Nat) (f : Frame)
    (h : load H S.sort get n f ≠ .err .fuel) (hnm : n ≤ m) : load H S.sort get m f = load H S.sort get n f :=
  load_fuel_mono H S.sort get n m f h hnm

/-- a frame that reaches itself through `next` links is never reassembled, whatever the fuel; the Go code
recurses without bound on such a graph (forged CAR: property C12) -/
theorem cyclic_never_returns (H : Hashes) (S : SortFn) (get : Store) (f : Frame) (hcyc : Reach get f f) (n : Nat) :
    ∀ b, load H S.sort get n f ≠ .ok b := by
  intro b hb
  unfold load at hb
  cases hc : collect S.sort get n f with
  | err e => rw [hc] at hb; cases hb
  | ok fs => exact cyclic_never_ok S get f hcyc n fs hc

/-- The fuel the driver supplies is sufficient: when the store holds at most `D.length` frames and `load`
still answers `fuel` with more fuel than that, a frame below the first one reaches itself — the graph is
cyclic and (by `cyclic_never_returns`) no amount of fuel gives an answer, as the Go recursion never returns. -/
theorem fuel_sufficient (H : Hashes) (S : SortFn) (get : Store) (D : List Cid) (hD : ∀ c, get c ≠ none → c ∈ D)
    (n : Nat) (hn : D.length < n) (first : Frame) (h : load H S.sort get n first = .err .fuel) :
    ∃ g, Reach get first g ∧ Reach get g g := by
  have hc : collect S.sort get n first = .err .fuel := by
    unfold load at h
    cases hc : collect S.sort get n first with
    | err e => rw [hc] at h; simpa using h
    | ok fs => rw [hc] at h; exact absurd h (finish_ne_fuel H first fs)
  exact fuel_exhausted_cyclic get D hD n hn first ((collect_err_iff S get n first .fuel).mp hc)

def loopStore : Store := fun c => if c = 7 then some ⟨some 0, none, none, [1], [7]⟩ else none
example : load toyH SortFn.ins.sort loopStore 50 ⟨some 0, none, none, [1], [7]⟩ = .err .fuel := by decide
example : Reach loopStore ⟨some 0, none, none, [1], [7]⟩ ⟨some 0, none, none, [1], [7]⟩ :=
  Reach.step (c := 7) (by simp) (by simp [loopStore])

/-! ### 6. the per-transaction frame map of `accum.ObjectsToTransactionsAndMetadata` -/

/-- The loop that resolves frames from the map filled since the previous transaction gives, whenever it
succeeds, exactly the bytes the epoch-wide getter gives (every DataFrame object of the stream being what the
getter returns for its CID): the map is a restriction of the epoch-wide lookup and can only fail more often
("dataframe not found"), never return other bytes. -/
theorem accum_map_variant (H : Hashes) (S : SortFn) (fuel : Nat) (get : Store) (objs : List Obj)
    (m : List (Cid × Frame)) (bs : List Bytes) (hcons : Consistent get m objs)
    (h : accRun H S.sort fuel m objs = .ok bs) : globalRun H S.sort fuel get objs = .ok bs :=
  accRun_global H S.sort fuel get objs m bs hcons h

/-- and it succeeds on what a writer produces: the frames of the layout placed, in any order, between the
previous transaction and their own (all `k` frames in the map) reassemble to the payload -/
theorem accum_map_complete (H : Hashes) (S : SortFn) (chunks : List Bytes) (F : Nat) (h : Option Nat)
    (σ : Nat → List Cid → List Cid) (hk : 2 ≤ chunks.length) (hF : 1 ≤ F) (hσ : ∀ j l, (σ j l).Perm l)
    (hh : ∀ x, h = some x → H.crc chunks.flatten = x ∨ H.fnv chunks.flatten = x)
    (m : List (Cid × Frame)) (hm : ∀ c, c < chunks.length → lookup m c = some (mkFrame chunks F true h σ c))
    (fuel : Nat) (hfuel : chunks.length ≤ fuel) (rest : List Obj) :
    accRun H S.sort fuel m (.tx (mkFrame chunks F true h σ 0) :: rest) =
      match accRun H S.sort fuel [] rest with
      | .err e => .err e
      | .ok bs => .ok (chunks.flatten :: bs) := by
  have hne : chunks ≠ [] := by intro e; rw [e] at hk; simp at hk
  have hs : single (mkFrame chunks F true h σ 0) = false := by
    simp [single, mkFrame]; omega
  conv => lhs; unfold accRun
  unfold txMeta
  simp only [hs]
  rw [reassemble_ok H S chunks F true h σ hne hF hσ hh (lookup m) hm fuel hfuel]
  simp only [Bool.false_eq_true, if_false]
  cases accRun H S.sort fuel [] rest <;> rfl

/-- a single-frame payload: the shortcut used by `accum` and `Transaction.GetSolanaTransaction` (the frame's
own bytes checked against its own hash) is what `LoadDataFromDataFrames` answers for a frame without links -/
theorem accum_single_agrees (H : Hashes) (S : SortFn) (get : Store) (n : Nat) (first : Frame)
    (hnext : first.next = []) (hs : single first = true) :
    load H S.sort get (n+1) first = txMeta H S.sort (n+1) get first := by
  rw [single_agrees H S.sort get n first hnext hs]
  unfold txMeta; simp [hs]

/-- non-vacuity: frames of the first transaction arrive in shuffled order before it, a single-frame
transaction follows; the map is cleared in between, so a frame listed before the first transaction is not
available to the second one -/
def objs : List Obj :=
  [.frame 3 (mkFrame ch 2 true (some 28) rev 3), .other, .frame 1 (mkFrame ch 2 true (some 28) rev 1),
   .frame 4 (mkFrame ch 2 true (some 28) rev 4), .frame 2 (mkFrame ch 2 true (some 28) rev 2),
   .tx (mkFrame ch 2 true (some 28) rev 0), .tx ⟨some 0, some 1, some 9, [9], []⟩]
example : accRun toyH SortFn.ins.sort 6 [] objs = .ok [[1,2,3,4,5,6,7], [9]] := by decide
example : globalRun toyH SortFn.ins.sort 6 st objs = .ok [[1,2,3,4,5,6,7], [9]] := by decide
example : accRun toyH SortFn.ins.sort 6 [] (objs ++ [.tx (mkFrame ch 2 true (some 28) rev 0)]) = .err .get := by
  decide

end C14

import Faithful.Lib.GsfaIndex
import Faithful.Generated.Gsfa
/-!
# Property C06 — the address index returns every indexed transaction of an address, newest first

The model is the **repaired** writer and reader (/verif/fixes/C06-1.patch: flusher capacity, drain on exit,
wait before flushing the accumulator; /verif/fixes/C06-2.patch: prefix width taken from the record).

* thresholds (`itemsPerBatch`, parked-buffer limit, periodic-flush thresholds, `rankListSize`) are the fields of
  `Params`; every theorem is for arbitrary values, so shrinking them in the harness is sound;
* a schedule is an event list: the client's events with `bgRecv` events of the background goroutine anywhere
  in between (`evs.filter Ev.isClient = ps.flatMap clientEvents`); the theorems quantify over all of them;
* zstd is abstract (`Z.Lawful`: decompress ∘ compress = id; nothing about lengths);
* the three hashmaps are abstract (`FMap`): the theorems hold for every lawful implementation, in particular
  for the `Std.HashMap` one the driver runs and the function one the examples evaluate.

Hypotheses that remain, and why: `index … = .ok idx` (the writer completed: the only modelled failures are a
record offset ≥ 2^48 or a record size ≥ 2^24, which the 6+3-byte pointers cannot hold); no record of 4 GiB or
more (`uint32(numWritten)` truncates silently); and the rank bound (see `rank_eviction_reorders`).
-/
namespace C06
open Gsfa

/-! ## linked-log records -/

/-- every record reads back — for **all** compressed lengths (no case split on the varint width) -/
theorem record_roundtrip (Z : Zstd) (hZ : Z.Lawful) (es : List Entry) (prev : Ptr) (pb : Bytes)
    (hpb : ptrBytes prev = .ok pb) (hprev : prev.size < 2 ^ 32)
    (file : Bytes) (off : Nat) (hslice : B.slice file off (mkRecord Z es pb).length = mkRecord Z es pb)
    (hsize : (mkRecord Z es pb).length ≤ mib256) :
    readWithSize Z file off (mkRecord Z es pb).length = .ok (es.reverse, prev) :=
  Gsfa.record_roundtrip Z hZ es prev pb hpb hprev file off hslice hsize

/-- why the pinned reader failed: it skipped `width (total)` bytes, and for a prefix value `L` (payload + 9)
    below 16384 that is the real prefix width exactly when `L ∉ {127, 16382, 16383}` (totals 128, 16384, 16385) -/
theorem old_reader_prefix_width_iff (L : Nat) (h : L < 16384) :
    Varint.width (L + Varint.width L) = Varint.width L ↔ (L ≠ 127 ∧ L < 16382) := by
  by_cases h1 : L < 128
  · rw [Varint.reader_width_iff_1 h1]
    constructor
    · intro hne; exact ⟨hne, by omega⟩
    · intro hh; exact hh.1
  · rw [Varint.reader_width_iff_2 (by omega) h]
    constructor
    · intro hl; exact ⟨by omega, hl⟩
    · intro hh; exact hh.2

/-! ## the writer under every schedule -/

variable {A : AccMap} {Rk : RankMap} {H : HeadMap}

/-- after `Close`, for every event list (= every interleaving of the background goroutine with `Push`), the
    log holds per address exactly its pushes, in push order: nothing lost, duplicated or reordered -/
theorem writer_log_ordered (p : Params) (evs : List Ev) (hne : NoEvict p (init : St A Rk) evs) (a : Addr) :
    ofKey a (close p (run p evs (init : St A Rk))).log = hist a evs :=
  closed_log p evs hne a

/-- the invariant behind it, at every moment of every schedule: each entry pushed for `a` is in exactly one of
    log / parked / channel / accumulator, and reading them in that order gives `a`'s pushes in push order
    (together with: a key with a batch in flight is in the popularity list) -/
theorem writer_view_invariant (p : Params) (evs : List Ev) (hne : NoEvict p (init : St A Rk) evs) :
    (∀ a, view (run p evs (init : St A Rk)) a = hist a evs) ∧ Inv (run p evs (init : St A Rk)) := by
  obtain ⟨h1, h2⟩ := view_run p evs (init : St A Rk) inv_init hne
  refine ⟨fun a => ?_, h2⟩
  rw [h1 a]
  simp [view, init, St.log, A.get_empty]

/-- `purge` cannot evict before `B · (R+1)(R+2)/2` entries have been pushed, whatever the schedule -/
theorem no_evict_below_rank_bound (p : Params) (evs : List Ev) (hb : pushCount evs < p.B * tri (p.R + 1)) :
    NoEvict p (init : St A Rk) evs :=
  noEvict_of_bound p evs hb

/-- **C06** for every push history `ps`, every schedule `evs` of it, every threshold setting, every lawful
    zstd and hashmap implementation: reading any address returns exactly the entries pushed with it, each once,
    newest first (cut at `limit`); an address never pushed is "not found".
    Side condition `NoEvict`: `purge` never finds more than `R` distinct counts (discharged from a size bound
    in `gsfa_roundtrip_bounded_rank`). -/
theorem gsfa_roundtrip (Z : Zstd) (hZ : Z.Lawful) (p : Params) (ps : List PushCall) (evs : List Ev)
    (hsched : evs.filter Ev.isClient = ps.flatMap clientEvents)
    (hne : NoEvict p (init : St A Rk) evs)
    (idx : LogSt H) (hidx : index A Rk H Z p evs = .ok idx) (hrec : ∀ r ∈ idx.rrecs, r.length < 2 ^ 32)
    (a : Addr) (limit : Nat) (hl : 0 < limit) :
    readerGet Z idx a limit =
      if pushesOf a ps = [] then .error (.err "notfound") else .ok ((pushesOf a ps).reverse.take limit) := by
  have hh : hist a evs = pushesOf a ps := by
    rw [← hist_filter_client, hsched, hist_calls]
  rw [index_roundtrip Z hZ p evs hne idx hidx hrec a limit hl, hh]

/-- **C06 with the explicit rank bound**: as `gsfa_roundtrip`, the side condition replaced by
    "fewer than `B · (R+1)(R+2)/2` (address, entry) pairs were pushed" (≈ 5·10^10 for the real constants) -/
theorem gsfa_roundtrip_bounded_rank (Z : Zstd) (hZ : Z.Lawful) (p : Params) (ps : List PushCall) (evs : List Ev)
    (hsched : evs.filter Ev.isClient = ps.flatMap clientEvents)
    (hbound : pairCount ps < p.B * tri (p.R + 1))
    (idx : LogSt H) (hidx : index A Rk H Z p evs = .ok idx) (hrec : ∀ r ∈ idx.rrecs, r.length < 2 ^ 32)
    (a : Addr) (limit : Nat) (hl : 0 < limit) :
    readerGet Z idx a limit =
      if pushesOf a ps = [] then .error (.err "notfound") else .ok ((pushesOf a ps).reverse.take limit) := by
  have hpc : pushCount evs = pairCount ps := by
    rw [← pushCount_filter_client, hsched, pushCount_calls]
  exact gsfa_roundtrip Z hZ p ps evs hsched (noEvict_of_bound p evs (by rw [hpc]; exact hbound)) idx hidx hrec a limit hl

/-! ## ties to the source tree (regenerated by /verif/harness/extract/c06_gsfa.go on every run) -/

/-- the seven threshold literals of `gsfa-write.go` are where the translator expects them -/
theorem gen_thresholds_recognised :
    (Generated.gsfaItemsPerBatch.isSome && Generated.gsfaParkLimit.isSome && Generated.gsfaChanCap.isSome &&
     Generated.gsfaPeriodicKeys.isSome && Generated.gsfaPeriodicSlot.isSome && Generated.gsfaPeriodicValues.isSome &&
     Generated.gsfaRankListSize.isSome) = true := by decide

/-- the writer in the tree has the three repairs the model describes: `tmpBuf` starts empty, the goroutine
    writes what it parked before it signals completion, `Close` waits for it before flushing the accumulator -/
theorem gen_writer_is_repaired :
    Generated.gsfaTmpBufStartsEmpty = some true ∧ Generated.gsfaDrainsParkedOnExit = some true ∧
    Generated.gsfaCloseWaitsBeforeFlush = some true := by decide

/-- the thresholds of the tree -/
def realParams : Params :=
  { B := Generated.gsfaItemsPerBatch.getD 0, P := Generated.gsfaParkLimit.getD 0, K := Generated.gsfaPeriodicKeys.getD 0,
    M := Generated.gsfaPeriodicSlot.getD 0, T := Generated.gsfaPeriodicValues.getD 0, R := Generated.gsfaRankListSize.getD 0 }

theorem bound_closed_form (B R n : Nat) (h : 2 * n < B * ((R + 1) * (R + 2))) : n < B * tri (R + 1) := by
  have h2 : 2 * (B * tri (R + 1)) = B * ((R + 1) * (R + 2)) := by
    rw [show R + 2 = R + 1 + 1 from rfl, ← two_tri (R + 1), Nat.mul_left_comm]
  omega

/-- **C06 at the thresholds of the tree**, the rank bound in closed form
    (`2 · pairs < itemsPerBatch · (R+1)(R+2)`, i.e. pairs < 50 015 001 000 for 1000 / 10 000) -/
theorem gsfa_roundtrip_real_thresholds (Z : Zstd) (hZ : Z.Lawful) (ps : List PushCall) (evs : List Ev)
    (hsched : evs.filter Ev.isClient = ps.flatMap clientEvents)
    (hbound : 2 * pairCount ps < realParams.B * ((realParams.R + 1) * (realParams.R + 2)))
    (idx : LogSt H) (hidx : index A Rk H Z realParams evs = .ok idx) (hrec : ∀ r ∈ idx.rrecs, r.length < 2 ^ 32)
    (a : Addr) (limit : Nat) (hl : 0 < limit) :
    readerGet Z idx a limit =
      if pushesOf a ps = [] then .error (.err "notfound") else .ok ((pushesOf a ps).reverse.take limit) :=
  gsfa_roundtrip_bounded_rank Z hZ realParams ps evs hsched (bound_closed_form _ _ _ hbound) idx hidx hrec a limit hl

/-! ## concrete instances: non-vacuity, and the counter-example beyond the rank bound -/

abbrev Af : AccMap := FMap.fn (List Entry) []
abbrev Rf : RankMap := FMap.fn Nat 0
abbrev Hf : HeadMap := FMap.fn Ptr Ptr.zero

/-- a lawful stand-in for zstd -/
def Zid : Zstd := ⟨id, some⟩
theorem Zid_lawful : Zid.Lawful := fun _ => rfl

def mkE (n : Nat) : Entry := ⟨UInt64.ofNat (1000 + n), UInt64.ofNat (200 + n), UInt64.ofNat n, 3⟩

/-- batch size 3, two parked buffers, periodic flush on even slots with more than one key accumulating -/
def exP : Params := { B := 3, P := 2, K := 1, M := 2, T := 2, R := 8 }

def exCalls : List PushCall :=
  [⟨1, [7], mkE 1⟩, ⟨2, [7, 9, 7], mkE 2⟩, ⟨3, [7], mkE 3⟩, ⟨4, [9, 7], mkE 4⟩, ⟨5, [8], mkE 5⟩, ⟨6, [7], mkE 6⟩]

/-- one schedule of `exCalls`: the goroutine runs at some points in between -/
def exEvs : List Ev :=
  [.begin 1, .push 7 (mkE 1), .begin 2, .push 7 (mkE 2), .bgRecv, .push 9 (mkE 2), .begin 3, .push 7 (mkE 3),
   .begin 4, .push 7 (mkE 4), .bgRecv, .push 9 (mkE 4), .begin 5, .push 8 (mkE 5), .bgRecv, .begin 6, .push 7 (mkE 6)]

theorem ex_sched : exEvs.filter Ev.isClient = exCalls.flatMap clientEvents := by decide

theorem ex_bound : pairCount exCalls < exP.B * tri (exP.R + 1) := by decide

theorem ex_index_ok : ∃ idx, index Af Rf Hf Zid exP exEvs = .ok idx ∧ ∀ r ∈ idx.rrecs, r.length < 2 ^ 32 := by
  have h : (match index Af Rf Hf Zid exP exEvs with
      | .ok idx => decide (∀ r ∈ idx.rrecs, r.length < 2 ^ 32)
      | .error _ => false) = true := by decide
  revert h
  cases index Af Rf Hf Zid exP exEvs with
  | ok idx => intro h; exact ⟨idx, rfl, of_decide_eq_true h⟩
  | error e => intro h; cases h

/-- non-vacuity of `gsfa_roundtrip(_bounded_rank)`: all hypotheses hold for `exCalls` under `exEvs`, and the
    conclusion is the expected concrete list -/
example : ∃ idx : LogSt Hf, index Af Rf Hf Zid exP exEvs = .ok idx ∧
    readerGet Zid idx 7 100 = .ok [mkE 6, mkE 4, mkE 3, mkE 2, mkE 1] ∧
    readerGet Zid idx 9 1 = .ok [mkE 4] ∧ readerGet Zid idx 5 100 = .error (.err "notfound") := by
  obtain ⟨idx, hidx, hrec⟩ := ex_index_ok
  refine ⟨idx, hidx, ?_, ?_, ?_⟩
  · rw [gsfa_roundtrip_bounded_rank Zid Zid_lawful exP exCalls exEvs ex_sched ex_bound idx hidx hrec 7 100 (by decide)]
    decide
  · rw [gsfa_roundtrip_bounded_rank Zid Zid_lawful exP exCalls exEvs ex_sched ex_bound idx hidx hrec 9 1 (by decide)]
    decide
  · rw [gsfa_roundtrip_bounded_rank Zid Zid_lawful exP exCalls exEvs ex_sched ex_bound idx hidx hrec 5 100 (by decide)]
    decide

/-- non-vacuity of `gsfa_roundtrip_real_thresholds` / `bound_closed_form`: the same history at the thresholds of
    the tree (nothing reaches a threshold: one record per address) -/
example : ∃ idx : LogSt Hf, index Af Rf Hf Zid realParams exEvs = .ok idx ∧
    readerGet Zid idx 7 3 = .ok [mkE 6, mkE 4, mkE 3] := by
  have h : (match index Af Rf Hf Zid realParams exEvs with
      | .ok idx => decide (∀ r ∈ idx.rrecs, r.length < 2 ^ 32)
      | .error _ => false) = true := by decide
  revert h
  cases hi : index Af Rf Hf Zid realParams exEvs with
  | error e => intro h; cases h
  | ok idx =>
    intro h
    refine ⟨idx, rfl, ?_⟩
    rw [gsfa_roundtrip_real_thresholds Zid Zid_lawful exCalls exEvs ex_sched (by decide) idx hi (of_decide_eq_true h) 7 3
      (by decide)]
    decide

/-- non-vacuity of `writer_view_invariant`: in the middle of the run (before `Close`) the view is the history -/
example : view (run exP (exEvs.take 12) (init : St Af Rf)) 7 = [mkE 1, mkE 2, mkE 3, mkE 4] := by
  rw [(writer_view_invariant exP (exEvs.take 12) (no_evict_below_rank_bound exP _ (by decide))).1 7]
  decide

/-- non-vacuity of `writer_log_ordered` / `no_evict_below_rank_bound` -/
example : ofKey 7 (close exP (run exP exEvs (init : St Af Rf))).log = [mkE 1, mkE 2, mkE 3, mkE 4, mkE 6] := by
  rw [writer_log_ordered exP exEvs (no_evict_below_rank_bound exP exEvs (by decide)) 7]
  decide

/-- non-vacuity of `record_roundtrip`: a record with a previous pointer, somewhere inside a file -/
example : readWithSize Zid ([1, 2, 3] ++ mkRecord Zid [mkE 1, mkE 2] (B.le 6 77 ++ B.le 3 30) ++ [9]) 3
    (mkRecord Zid [mkE 1, mkE 2] (B.le 6 77 ++ B.le 3 30)).length = .ok ([mkE 2, mkE 1], ⟨77, 30⟩) := by
  decide

/-- non-vacuity of `old_reader_prefix_width_iff`: both sides are false at 127 and true at 126 -/
example : ¬ Varint.width (127 + Varint.width 127) = Varint.width 127 := by
  rw [old_reader_prefix_width_iff 127 (by decide)]; decide
example : Varint.width (126 + Varint.width 126) = Varint.width 126 := by
  rw [old_reader_prefix_width_iff 126 (by decide)]; decide

/-- 19 entries whose encoding is 118 bytes: with the 9 pointer bytes the prefix value is 127, the record 128 -/
def es128 : List Entry := (List.range 18).map mkE ++ [⟨20000, 20000, 20000, 0⟩]

set_option maxRecDepth 8192 in
/-- the pinned reader on a 128-byte record: it does not return the record (the repaired one does) -/
theorem old_reader_fails_at_128 :
    (mkRecord Zid es128 (B.le 6 0 ++ B.le 3 0)).length = 128 ∧
    readWithSize Zid (mkRecord Zid es128 (B.le 6 0 ++ B.le 3 0)) 0 128 = .ok (es128.reverse, Ptr.zero) ∧
    readWithSizeOld Zid (mkRecord Zid es128 (B.le 6 0 ++ B.le 3 0)) 0 128 ≠ .ok (es128.reverse, Ptr.zero) := by
  refine ⟨by decide, by decide, by decide⟩

/-! ### beyond the rank bound the property fails (shrunk constants) -/

/-- one distinct count allowed (`R = 1`), batch size 3, periodic flush on slots divisible by 100 -/
def cxP : Params := { B := 3, P := 2, K := 0, M := 100, T := 2, R := 1 }

/-- address 2 fills two batches, address 1 fills one (still in flight: the goroutine has only parked it) and
    gets a fourth entry; then a push on slot 100 runs the periodic flush: `purge` sees the counts {1, 2}, evicts
    address 1, and its fourth entry is written *before* the parked batch -/
def cxCalls : List PushCall :=
  [⟨1, [2], mkE 1⟩, ⟨2, [2], mkE 2⟩, ⟨3, [2], mkE 3⟩, ⟨4, [2], mkE 4⟩, ⟨5, [2], mkE 5⟩, ⟨6, [2], mkE 6⟩,
   ⟨7, [1], mkE 7⟩, ⟨8, [1], mkE 8⟩, ⟨9, [1], mkE 9⟩, ⟨10, [1], mkE 10⟩, ⟨100, [3], mkE 11⟩]

def cxEvs : List Ev := cxCalls.flatMap (fun c => clientEvents c ++ [.bgRecv])

/-- **the latent defect**: with 11 ≥ `B · tri (R+1)` = 9 pushed entries the round trip fails — address 1 reads
    back in the wrong order.  (For the real constants the bound is ≈ 5·10^10 entries, so this cannot be
    replayed against the unmodified code; the harness replays it against the threshold-shrunk copy.) -/
theorem rank_eviction_reorders :
    cxEvs.filter Ev.isClient = cxCalls.flatMap clientEvents ∧
    ¬ pairCount cxCalls < cxP.B * tri (cxP.R + 1) ∧
    (match index Af Rf Hf Zid cxP cxEvs with
      | .ok idx => decide (readerGet Zid idx 1 100 = .ok [mkE 9, mkE 8, mkE 7, mkE 10])
      | .error _ => false) = true ∧
    (pushesOf 1 cxCalls).reverse = [mkE 10, mkE 9, mkE 8, mkE 7] := by
  refine ⟨by decide, by decide, by decide, by decide⟩

end C06

/-! Property C06 — theorems (statements live here, helper lemmas in Faithful/Lib) -/
namespace C06
end C06

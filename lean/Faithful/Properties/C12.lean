/-! Property C12 — theorems (statements live here, helper lemmas in Faithful/Lib) -/
namespace C12
end C12

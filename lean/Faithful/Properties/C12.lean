import Faithful.Lib.Parsers
import Faithful.Lib.ParsersCbor

/-!
Property C12 — parsers of external data return errors, never crash, on arbitrary bytes.

For every parser that is this repository's own code there is a total model `X : … bytes … → Res α` in
`Faithful/Lib/Parsers.lean` (the REPAIRED code, fixes/C12-*.patch, line by line; `Res` = outcome ok|err|panic + the
largest single allocation requested).  For each of them:

* `X_no_panic : ∀ input w, (X input).outcome ≠ .panic w`
* `X_alloc    : ∀ input, (X input).maxAlloc ≤ c·|input| + d`            ("not out of proportion")
* termination: every model is defined by structural or well-founded recursion, without fuel — being a total Lean
  function IS the termination theorem (there is no `hang` outcome to exclude).

Quantifiers: ALL byte strings (`List UInt8`), all offsets / sizes / slots (`Nat`), every hash function, every zstd
decoder, every CID parser that consumes no more than it is handed (`CidSpec`).  Two theorems carry the hypothesis
`InMemory bs` (`bs.length ≤ 2^47`): they contain a `make` proportional to the input, and Go itself cannot hold a byte
slice beyond 2^48 — without the hypothesis the *model's* `make` would hit the runtime limit for lists no machine can hold.

The pinned behaviour is kept as `…Pinned` variants; `decide`-checked witnesses show the panics / the 4 GiB requests the
design round measured.  The seven CBOR node decoders: `Ledger.FastFixed.decode` (repaired) over an arbitrary CBOR tree,
`fast_decode_no_panic`, and `fast_decode_refines`: it equals property C11's model `Ledger.Fast.decode` of the pinned
code wherever that one does not panic.

Not proved (exercised by the harness only): zstd, protobuf / bincode metadata readers, go-cid, go-car's header codec,
the CBOR byte parsers, `Bucket.Load`, `bucketteer.Reader.Has`.
-/
namespace C12
open Px Px.Res

/-- a `Safe` fact, unpacked into the two statements the property asks for -/
theorem np_of_safe {α : Type} {B : Nat} {r : Res α} (h : Safe B r) : ∀ w, r.outcome ≠ .panic w := h.1
theorem alloc_of_safe {α : Type} {B : Nat} {r : Res α} (h : Safe B r) : r.maxAlloc ≤ B := h.2

/-! ## index metadata (indexmeta) -/

theorem metaUnmarshal_no_panic (bs : Bytes) : ∀ w, (metaUnmarshal bs).outcome ≠ .panic w := (metaUnmarshal_safe bs).1
/-- constant: the `KeyVals` slice of at most 255 pairs -/
theorem metaUnmarshal_alloc (bs : Bytes) : (metaUnmarshal bs).maxAlloc ≤ 0 * bs.length + 24480 := by
  have := (metaUnmarshal_safe bs).2
  have h : metaMaxAlloc = 24480 := by decide
  omega
theorem metaGetUint64_no_panic (m : List KV) (k : Bytes) : ∀ w, (metaGetUint64 m k).outcome ≠ .panic w :=
  (metaGetUint64_safe m k).1
/-- `UnmarshalBinary` followed by `GetUint64`: the composition the index readers perform -/
theorem meta_then_getUint64_no_panic (bs k : Bytes) :
    ∀ w, (metaUnmarshal bs >>= fun m => metaGetUint64 m k).outcome ≠ .panic w :=
  (safe_bind (safe_mono (metaUnmarshal_safe bs) (Nat.le_refl _)) (fun m _ => safe_mono (metaGetUint64_safe m k) (Nat.zero_le _))).1

example : (metaUnmarshal [1, 1, 107, 1, 118]).outcome.isOk = true := by decide
example : (metaGetUint64 [⟨[1], [1, 0, 0, 0, 0, 0, 0, 0]⟩] [1]).outcome.isOk = true := by decide
/-- pinned: `GetUint64` on a 2-byte value panics (index out of range) -/
theorem getUint64_pinned_panics : (metaGetUint64Pinned [⟨[101], [1, 2]⟩] [101]).outcome.isPanic = true := by decide
/-- … and the repaired accessor answers "not there" on the same input -/
example : (metaGetUint64 [⟨[101], [1, 2]⟩] [101]).outcome.isOk = true := by decide

/-! ## typed index metadata (indexes.getDefaultMetadata) and offset-and-size values -/

theorem defaultMetadata_no_panic (kvs : List KV) (castOk : Bool) : ∀ w, (defaultMetadata kvs castOk).outcome ≠ .panic w :=
  (defaultMetadata_safe kvs castOk).1
theorem defaultMetadata_alloc (kvs : List KV) (castOk : Bool) : (defaultMetadata kvs castOk).maxAlloc ≤ 0 :=
  (defaultMetadata_safe kvs castOk).2

def exampleMeta : List KV :=
  [⟨keyKind, [1]⟩, ⟨keyEpoch, [7, 0, 0, 0, 0, 0, 0, 0]⟩, ⟨keyRootCid, [1]⟩, ⟨keyNetwork, [2]⟩]
example : (defaultMetadata exampleMeta true).outcome.isOk = true := by decide
/-- pinned: an epoch value shorter than 8 bytes panics in `BtoUint64` -/
theorem defaultMetadata_pinned_panics :
    (defaultMetadataPinned [⟨keyKind, [1]⟩, ⟨keyEpoch, []⟩] true).outcome.isPanic = true := by decide

theorem oasFromBytes_no_panic (bs : Bytes) : ∀ w, (oasFromBytes bs).outcome ≠ .panic w := (oasFromBytes_safe bs).1
theorem oasFromBytes_alloc (bs : Bytes) : (oasFromBytes bs).maxAlloc ≤ 0 * bs.length + 8 := by
  have := (oasFromBytes_safe bs).2; omega
theorem oasSliceFromBytes_no_panic (bs : Bytes) (hm : InMemory bs) : ∀ w, (oasSliceFromBytes bs).outcome ≠ .panic w :=
  (oasSliceFromBytes_safe bs hm).1
theorem oasSliceFromBytes_alloc (bs : Bytes) (hm : InMemory bs) : (oasSliceFromBytes bs).maxAlloc ≤ 2 * bs.length + 8 :=
  (oasSliceFromBytes_safe bs hm).2

example : (oasFromBytes [1, 0, 0, 0, 0, 0, 2, 0, 0]).outcome.isOk = true := by decide
example : (oasSliceFromBytes [1, 0, 0, 0, 0, 0, 2, 0, 0, 3, 0, 0, 0, 0, 0, 4, 0, 0]).outcome.isOk = true := by decide

/-! ## compact index (compactindexsized): Open / Header.Load, GetBucket, Lookup -/

theorem ciOpen_no_panic (f : Bytes) : ∀ w, (ciOpen f).outcome ≠ .panic w := (ciOpen_safe f).1
/-- constant: the header buffer, bounded by the largest header the format can express -/
theorem ciOpen_alloc (f : Bytes) : (ciOpen f).maxAlloc ≤ 0 * f.length + 130586 := by
  have := (ciOpen_safe f).2
  have h : ciOpenMaxAlloc = 130586 := by decide
  omega
theorem ciLoad_no_panic (buf : Bytes) : ∀ w, (ciLoad buf).outcome ≠ .panic w := (ciLoad_safe buf).1
/-- every lookup on every opened file: any bucket index, any key hash, with and without prefetch -/
theorem ciLookup_no_panic (f : Bytes) (h : CIHeader) (prefetch : Bool) (bucket : Nat) (hash : Nat → Nat) :
    ∀ w, (ciLookup f h prefetch bucket hash).outcome ≠ .panic w := (ciLookup_safe f h prefetch bucket hash).1
/-- constant: the prefetch buffer (3000 entries of at most 255 bytes) -/
theorem ciLookup_alloc (f : Bytes) (h : CIHeader) (prefetch : Bool) (bucket : Nat) (hash : Nat → Nat) :
    (ciLookup f h prefetch bucket hash).maxAlloc ≤ 0 * f.length + 765000 := by
  have := (ciLookup_safe f h prefetch bucket hash).2
  have h : ciLookupMaxAlloc = 765000 := by decide
  omega
/-- open, then look up: the composition, on ALL bytes -/
theorem ciOpen_then_lookup_no_panic (f : Bytes) (prefetch : Bool) (bucket : Nat) (hash : Nat → Nat) :
    ∀ w, (ciOpen f >>= fun h => ciLookup f h prefetch bucket hash).outcome ≠ .panic w :=
  (safe_bind (safe_mono (ciOpen_safe f) (Nat.le_max_left _ ciLookupMaxAlloc))
    (fun h _ => safe_mono (ciLookup_safe f h prefetch bucket hash) (Nat.le_max_right ciOpenMaxAlloc _))).1

/-- magic ‖ length 14 ‖ value size 9 ‖ 1 bucket ‖ version 1 ‖ no metadata -/
def ciMinimal : Bytes := ciMagic ++ [14, 0, 0, 0] ++ [9, 0, 0, 0, 0, 0, 0, 0] ++ [1, 0, 0, 0] ++ [1] ++ [0]
example : (ciOpen ciMinimal).outcome.isOk = true := by decide
/-- a header whose length field is 12: 24 bytes in all -/
def ciLen12 : Bytes := ciMagic ++ [12, 0, 0, 0] ++ [9, 0, 0, 0, 0, 0, 0, 0] ++ [1, 0, 0, 0]
/-- pinned `Open` panics on it (`buf[24]` after `len ≥ 12`) … -/
theorem open_pinned_panics : (ciOpenPinned ciLen12).outcome.isPanic = true := by decide
/-- … the repaired `Open` returns an error -/
example : (ciOpen ciLen12).outcome.cls = "err" := by decide
/-- pinned: length field 0xFFFFFFFF wraps `8+4+size` to 11 and `buf[8:12]` panics -/
theorem open_pinned_wrap_panics : (ciOpenPinned (ciMagic ++ [255, 255, 255, 255] ++ [0, 0, 0, 0])).outcome.isPanic = true := by decide
/-- pinned: length field 0xFFFFFFF0 on a 16-byte file requests 4 GiB before failing -/
theorem open_pinned_alloc : (ciOpenPinned (ciMagic ++ [240, 255, 255, 255] ++ [0, 0, 0, 0])).maxAlloc = 4294967292 := by decide
example : (ciOpen (ciMagic ++ [240, 255, 255, 255] ++ [0, 0, 0, 0])).maxAlloc = 0 := by decide

/-! ## signature-existence index (bucketteer): NewReader / readHeader -/

theorem bkOpen_no_panic (f : Bytes) : ∀ w, (bkOpen f).outcome ≠ .panic w := (bkOpen_safe f).1
/-- constant: the header buffer, bounded by the largest header the format can express -/
theorem bkOpen_alloc (f : Bytes) : (bkOpen f).maxAlloc ≤ 0 * f.length + 785945 := by
  have := (bkOpen_safe f).2
  have h : bkOpenMaxAlloc = 785945 := by decide
  omega

/-- size 25 ‖ "buckette" ‖ version 2 ‖ no metadata ‖ 0 prefixes -/
def bkMinimal : Bytes := [25, 0, 0, 0] ++ bkMagic ++ [2, 0, 0, 0, 0, 0, 0, 0] ++ [0] ++ [0, 0, 0, 0, 0, 0, 0, 0]
example : (bkOpen bkMinimal).outcome.isOk = true := by decide
/-- pinned: header size 0xFFFFFFF0 on a 7-byte input requests 4 GiB, then fails -/
theorem bk_pinned_alloc : (bkOpenPinnedAlloc [240, 255, 255, 255, 0, 0, 0]).maxAlloc = 4294967280 := by decide
example : (bkOpen [240, 255, 255, 255, 0, 0, 0]).maxAlloc ≤ 524288 := by decide

/-! ## slot-to-blocktime index (blocktimeindex) -/

theorem btUnmarshal_no_panic (bs : Bytes) (hm : InMemory bs) : ∀ w, (btUnmarshal bs).outcome ≠ .panic w :=
  (btUnmarshal_safe bs hm).1
theorem btUnmarshal_alloc (bs : Bytes) (hm : InMemory bs) : (btUnmarshal bs).maxAlloc ≤ 2 * bs.length + 14 :=
  (btUnmarshal_safe bs hm).2
theorem btGet_no_panic (i : BT) (slot : Nat) : ∀ w, (btGet i slot).outcome ≠ .panic w := (btGet_safe i slot).1

def btHeader (capacity : Bytes) : Bytes :=
  btMagic ++ [128, 151, 6, 0, 0, 0, 0, 0] ++ [138, 151, 6, 0, 0, 0, 0, 0] ++ [1, 0, 0, 0, 0, 0, 0, 0] ++ capacity
/-- start 432000, end 432010, epoch 1, capacity 1, one value -/
def btOne : Bytes := btHeader [1, 0, 0, 0, 0, 0, 0, 0] ++ [7, 0, 0, 0]
example : (btUnmarshal btOne).outcome.isOk = true := by decide
example : (btUnmarshal btOne >>= fun i => btGet i 432000).outcome.isOk = true := by decide
/-- pinned: capacity 2^62 panics in `make` -/
theorem bt_pinned_makeslice_panics : (btUnmarshalPinned (btHeader [0, 0, 0, 0, 0, 0, 0, 64])).outcome.isPanic = true := by decide
/-- pinned: capacity 1, then `Get(start+5)` indexes out of range -/
theorem bt_pinned_get_panics : (btUnmarshalPinned btOne >>= fun i => btGetPinned i 432005).outcome.isPanic = true := by decide
example : (btUnmarshal btOne >>= fun i => btGet i 432005).outcome.isOk = true := by decide

/-! ## CAR sections -/

theorem readSectionLength_no_panic (bs : Bytes) : ∀ w, (readSectionLength bs).outcome ≠ .panic w := (readSectionLength_safe bs).1
theorem readNodeInfoWithData_no_panic (cidLen : Bytes → Option Nat) (bs : Bytes) :
    ∀ w, (readNodeInfoWithData cidLen bs).outcome ≠ .panic w := (readNodeInfoWithData_safe cidLen bs).1
/-- constant: go-car's section limit (32 MiB) and the bufio buffer; the input length does not enter -/
theorem readNodeInfoWithData_alloc (cidLen : Bytes → Option Nat) (bs : Bytes) :
    (readNodeInfoWithData cidLen bs).maxAlloc ≤ 0 * bs.length + 33558528 := by
  have := (readNodeInfoWithData_safe cidLen bs).2
  have h : sectionMaxAlloc = 33558528 := by decide
  omega
theorem readNodeInfoWithoutData_no_panic (cidLen : Bytes → Option Nat) (bs : Bytes) :
    ∀ w, (readNodeInfoWithoutData cidLen bs).outcome ≠ .panic w := (readNodeInfoWithoutData_safe cidLen bs).1
theorem parseNodeFromSection_no_panic (cidLen : Bytes → Option Nat) (hc : CidSpec cidLen) (sec : Bytes) (want : Option Bytes) :
    ∀ w, (parseNodeFromSection cidLen sec want).outcome ≠ .panic w := (parseNodeFromSection_safe cidLen hc sec want).1
theorem parseNodeFromSection_alloc (cidLen : Bytes → Option Nat) (hc : CidSpec cidLen) (sec : Bytes) (want : Option Bytes) :
    (parseNodeFromSection cidLen sec want).maxAlloc ≤ 0 := (parseNodeFromSection_safe cidLen hc sec want).2
theorem readNodeSize_no_panic (f : Bytes) (off : Nat) : ∀ w, (readNodeSize f off).outcome ≠ .panic w := (readNodeSize_safe f off).1
theorem readNodeSize_alloc (f : Bytes) (off : Nat) : (readNodeSize f off).maxAlloc ≤ 0 * f.length + 10 := by
  have := (readNodeSize_safe f off).2; omega

/-- a CID parser for the examples: two bytes, if they are there -/
def cid2 (b : Bytes) : Option Nat := if b.length < 2 then none else some 2
theorem cid2_spec : CidSpec cid2 := by
  intro b n h; unfold cid2 at h; split at h
  · cases h
  · cases h; omega
example : (readNodeInfoWithData cid2 [3, 1, 2, 9]).outcome.isOk = true := by decide
example : (parseNodeFromSection cid2 [3, 1, 2, 9] (some [1, 2])).outcome.isOk = true := by decide
/-- pinned: a section whose declared length (1) is smaller than its CID (2) panics in `make` -/
theorem rnid_pinned_panics : (readNodeInfoWithDataPinned cid2 [1, 1, 2, 9]).outcome.isPanic = true := by decide
example : (readNodeInfoWithData cid2 [1, 1, 2, 9]).outcome.cls = "err" := by decide

/-! ## kind dispatch and first signature -/

theorem getKind_no_panic (data : Bytes) : ∀ w, (getKind data).outcome ≠ .panic w := (getKind_safe data).1
theorem getKind_alloc (data : Bytes) : (getKind data).maxAlloc ≤ 0 := (getKind_safe data).2
example : (getKind [134, 2]).outcome.isOk = true := by decide
/-- pinned: `data[1]` on a 1-byte object panics -/
theorem kind_pinned_panics : (kindPinned [128]).outcome.isPanic = true := by decide

theorem readFirstSignature_no_panic (buf : Bytes) : ∀ w, (readFirstSignature buf).outcome ≠ .panic w := (readFirstSignature_safe buf).1
theorem readFirstSignature_alloc (buf : Bytes) : (readFirstSignature buf).maxAlloc ≤ 0 * buf.length + 64 := by
  have := (readFirstSignature_safe buf).2; omega
example : (readFirstSignature (1 :: List.replicate 64 5)).outcome.isOk = true := by decide

/-! ## gsfa linked log and manifest -/

theorem llFrame_no_panic (f : Bytes) (off size : Nat) : ∀ w, (llFrame f off size).outcome ≠ .panic w := (llFrame_safe f off size).1
/-- the record buffer is never larger than the file -/
theorem llFrame_alloc (f : Bytes) (off size : Nat) : (llFrame f off size).maxAlloc ≤ 1 * f.length + 10 := by
  have := (llFrame_safe f off size).2; omega
theorem llRead_no_panic (f : Bytes) (off : Nat) : ∀ w, (llRead f off).outcome ≠ .panic w := (llRead_safe f off).1
theorem llRead_alloc (f : Bytes) (off : Nat) : (llRead f off).maxAlloc ≤ 1 * f.length + 10 := by
  have := (llRead_safe f off).2; omega
theorem entriesFromBytes_no_panic (bs : Bytes) : ∀ w, (entriesFromBytes bs).outcome ≠ .panic w := (entriesFromBytes_safe bs).1
theorem entriesFromBytes_alloc (bs : Bytes) : (entriesFromBytes bs).maxAlloc ≤ 64 * bs.length + 64 := (entriesFromBytes_safe bs).2
theorem entryFromBytes_no_panic (bs : Bytes) : ∀ w, (entryFromBytes bs).outcome ≠ .panic w := (entryFromBytes_safe bs).1
/-- `ReadWithSize` end to end, for EVERY zstd decoder `z`: no panic; allocation bounded by the file and by what the
    decoder hands back (`R` bounds its output) -/
theorem llReadWithSize_safe (z : Bytes → Option Bytes) (R : Nat) (hz : ∀ p r, z p = some r → r.length ≤ R)
    (f : Bytes) (off size : Nat) : Safe (f.length + 64 * R + 74) (llReadWithSize z f off size) := by
  unfold llReadWithSize
  refine safe_bind (safe_mono (llFrame_safe f off size) (by omega)) (fun p _ => ?_)
  obtain ⟨payload, next⟩ := p
  simp only []
  split
  · exact safe_fail _ _
  · rename_i raw hr
    have := hz _ _ hr
    refine safe_bind (safe_mono (entriesFromBytes_safe raw) (by omega)) (fun _ _ => safe_ok _ _)
theorem llReadWithSize_no_panic (z : Bytes → Option Bytes) (f : Bytes) (off size : Nat) :
    ∀ w, (llReadWithSize z f off size).outcome ≠ .panic w := by
  unfold llReadWithSize
  refine noPanic_bind (llFrame_safe f off size).noPanic (fun p _ => ?_)
  obtain ⟨payload, next⟩ := p
  simp only []
  split
  · exact (safe_fail 0 _).noPanic
  · exact noPanic_bind (entriesFromBytes_safe _).noPanic (fun _ _ => (safe_ok 0 _).noPanic)

/-- a record: prefix 9 ‖ empty payload ‖ 9-byte previous pointer -/
def llOne : Bytes := [9, 0, 0, 0, 0, 0, 0, 0, 0, 0]
example : (llFrame llOne 0 10).outcome.isOk = true := by decide
example : (llRead llOne 0).outcome.isOk = true := by decide
/-- before fix C12: a bogus size of 200 MiB on an empty file is allocated, then the read fails -/
theorem ll_unchecked_alloc : (llFrameG false [] 0 209715200).maxAlloc = 209715200 := by decide
example : (llFrame [] 0 209715200).maxAlloc = 0 := by decide
example : (entryFromBytes [1, 2, 3, 7]).outcome.isOk = true := by decide

theorem mfOpen_no_panic (f : Bytes) (hm : InMemory f) : ∀ w, (mfOpen f).outcome ≠ .panic w := (mfOpen_safe f hm).1
theorem mfOpen_alloc (f : Bytes) (hm : InMemory f) : (mfOpen f).maxAlloc ≤ 1 * f.length + 28576 := by
  have := (mfOpen_safe f hm).2
  have h : mfConst = 28576 := by decide
  omega
/-- "gsfamnfs" ‖ version 5 ‖ no metadata ‖ one tuple -/
def mfOne : Bytes := mfMagic ++ [5, 0, 0, 0, 0, 0, 0, 0] ++ [0] ++ List.replicate 16 1
example : (mfOpen mfOne).outcome.isOk = true := by decide

/-! ## the seven hand-written CBOR node decoders, over an arbitrary CBOR tree -/

open Ledger in
/-- the repaired decoders (`iplddecoders.Decode<Kind>`) never panic, for every kind and every CBOR tree -/
theorem fast_decode_no_panic (k : Kind) (v : Cbor.Val) : ∀ w, FastFixed.decode k v ≠ Ledger.Outcome.panic w :=
  FastFixed.np_decode k v

open Ledger in
/-- the repair changes nothing else: C11's model of the pinned decoders returns the same outcome, or a panic -/
theorem fast_decode_refines (k : Kind) (v : Cbor.Val) :
    Fast.decode k v = FastFixed.decode k v ∨ ∃ w, Fast.decode k v = Ledger.Outcome.panic w :=
  FastFixed.ref_decode k v

open Ledger Cbor in
example : ∃ n, FastFixed.decode .epoch (.arr [.uint 4, .uint 7, .arr []]) = Ledger.Outcome.ok n := ⟨_, rfl⟩

/-- pinned: `DecodeBlock` with `meta` not a list -/
theorem block_meta_pinned_panics : ∃ w, Ledger.Fast.decode .block
    (.arr [.uint 2, .uint 1, .arr [], .arr [], .uint 0, .null]) = Ledger.Outcome.panic w := ⟨_, rfl⟩
/-- pinned: `DecodeEntry` with `hash` not bytes -/
theorem entry_hash_pinned_panics : ∃ w, Ledger.Fast.decode .entry
    (.arr [.uint 1, .uint 1, .uint 0, .arr []]) = Ledger.Outcome.panic w := ⟨_, rfl⟩
/-- pinned: `DecodeTransaction` with `data` not a list -/
theorem transaction_data_pinned_panics : ∃ w, Ledger.Fast.decode .transaction
    (.arr [.uint 0, .uint 0, .arr [], .uint 1]) = Ledger.Outcome.panic w := ⟨_, rfl⟩
/-- pinned: `DecodeRewards` with `data` not a list -/
theorem rewards_data_pinned_panics : ∃ w, Ledger.Fast.decode .rewards
    (.arr [.uint 5, .uint 1, .text []]) = Ledger.Outcome.panic w := ⟨_, rfl⟩
/-- pinned: a link whose tag-42 content is the empty byte string -/
theorem empty_link_pinned_panics : ∃ w, Ledger.Fast.decode .epoch
    (.arr [.uint 4, .uint 7, .arr [.tag 42 (.bytes [])]]) = Ledger.Outcome.panic w := ⟨_, rfl⟩
/-- … each of which the repaired decoders turn into an error -/
example : ∃ e, Ledger.FastFixed.decode .block
    (.arr [.uint 2, .uint 1, .arr [], .arr [], .uint 0, .null]) = Ledger.Outcome.err e := ⟨_, rfl⟩
example : ∃ e, Ledger.FastFixed.decode .epoch
    (.arr [.uint 4, .uint 7, .arr [.tag 42 (.bytes [])]]) = Ledger.Outcome.err e := ⟨_, rfl⟩

end C12

/-! Property C15 — theorems (statements live here, helper lemmas in Faithful/Lib) -/
namespace C15
end C15

import Faithful.Lib.AccumCar
import Faithful.Lib.AccumQueue
import Faithful.Lib.AccumQueueProofs

/-!
# C15 — block-by-block CAR traversal delivers each object once with its true offset

Model: `Accum.run` (`Faithful/Lib/AccumCar.lean`) is `/repo/accum/block.go: ObjectAccumulator.Run` + `flush` as a fold
over the sections of a CAR; `Accum.exec` (`Faithful/Lib/AccumQueue.lean`) is the same code as two goroutines stepping
through the channel / pool / WaitGroup under an arbitrary schedule, with explicit backing arrays.  The driver
(`Driver/C15.lean`) prints `run` for every `run` op line and also replays `exec` under a schedule drawn from the op's
seed; the harness compares with what the real callbacks received.

Assumptions (stated in props/C15.json): the CAR header is the canonical dag-cbor go-car writes (the real code derives
the first offset from the *re-encoded* header; compared on every `car` op); CIDs are the 36-byte form the writers
produce; every node has at least the two bytes `data[1]` needs (otherwise `Run` fails with an error and so says the driver);
the sync primitives are linearizable and order memory as the Go memory model says (the model's atomic steps are exactly
the accesses to them).
-/
set_option linter.unusedSimpArgs false

namespace C15
open Accum

/-! ## the parsed structure is the file -/

/-- what the driver parses out of the op line is a decomposition of those very bytes, every section being
    `uvarint(len) ‖ cid(36) ‖ data` -/
theorem parse_faithful (b : Bytes) (c : Car) (h : parse b = some c) : c.bytes = b ∧ ∀ s ∈ c.secs, s.wf :=
  parse_sound b c h

/-! ## grouping -/

theorem flatMap_filter_nonEmpty (l : List Group) :
    (l.filter Group.nonEmpty).flatMap Group.members = l.flatMap Group.members := by
  induction l with
  | nil => rfl
  | cons g l ih =>
    by_cases h : g.nonEmpty = true
    · simp [List.filter_cons, h, ih]
    · have hm : g.members = [] := by
        cases g with
        | mk p ch =>
          cases p <;> cases ch <;> simp_all [Group.nonEmpty, Group.members]
      simp [List.filter_cons, h, ih, hm]

theorem filterMap_filter_nonEmpty (l : List Group) :
    (l.filter Group.nonEmpty).filterMap Group.parent = l.filterMap Group.parent := by
  induction l with
  | nil => rfl
  | cons g l ih =>
    by_cases h : g.nonEmpty = true
    · rw [List.filter_cons_of_pos h, List.filterMap_cons, List.filterMap_cons, ih]
    · have hm : g.parent = none := by
        cases g with
        | mk p ch => cases p <;> simp_all [Group.nonEmpty]
      simp [List.filter_cons, h, ih, hm]

/-- **Every object once, in file order, grouped under its block.**  The objects handed to the callbacks, group after
    group (children first, then their parent), are exactly the sections after the skipped ones that are of the flush
    kind or not ignored — same order, same multiplicity; the parents are exactly the flush-kind sections, in order, each
    once; a parent is always of the flush kind and children never are (so a group ends at the first block that follows
    its children), and no ignored kind is ever delivered as a child. -/
theorem groups_partition (c : Car) (ig : List UInt8) (k : UInt8) (skip : Nat) :
    (run c ig k skip).flatMap Group.members = (c.objs.drop skip).filter (keep ig k) ∧
    (run c ig k skip).filterMap Group.parent = (c.objs.drop skip).filter (fun o => o.kind == k) ∧
    ∀ g ∈ run c ig k skip,
      (∀ p, g.parent = some p → p.kind = k) ∧ (∀ o ∈ g.children, o.kind ≠ k ∧ ignored ig o.kind = false) := by
  refine ⟨?_, ?_, ?_⟩
  · unfold run
    rw [flatMap_filter_nonEmpty]
    simpa [sends, Car.objs] using go_members ig k c.secs c.header.length skip []
  · unfold run
    rw [filterMap_filter_nonEmpty]
    exact go_parents ig k c.secs c.header.length skip []
  · intro g hg
    have hg' : g ∈ sends c ig k skip := (List.mem_filter.mp hg).1
    exact go_kinds ig k c.secs c.header.length skip [] (by intro o ho; cases ho) g hg'

/-- **Together with exactly the non-ignored objects stored since the previous block.**  The groups put on the channel
    are the kept objects (flush kind or not ignored, after the skipped ones, in file order) cut after every object of
    the flush kind, the remainder being the final group; the callbacks are these groups except an empty final one. -/
theorem groups_are_cuts (c : Car) (ig : List UInt8) (k : UInt8) (skip : Nat) :
    run c ig k skip = (splitAfter k [] ((c.objs.drop skip).filter (keep ig k))).filter Group.nonEmpty := by
  unfold run sends Car.objs
  rw [go_split]

/-- non-vacuity: two blocks with children of three kinds, an ignored kind, trailing objects -/
def exCar : Car :=
  { header := [2, 0xa0, 0],
    secs := [ ⟨[4], [1], [0x80, 0, 7]⟩,      -- transaction
              ⟨[3], [2], [0x80, 1]⟩,         -- entry (ignored below)
              ⟨[3], [3], [0x80, 2]⟩,         -- block
              ⟨[3], [4], [0x80, 2]⟩,         -- block without children
              ⟨[5], [5], [0x80, 6, 1, 2]⟩,   -- dataframe after the last block
              ⟨[3], [6], [0x80, 1]⟩ ] }      -- entry after the last block (ignored)

example : run exCar [1] 2 =
    [ ⟨some ⟨[3], 12, 4, [0x80, 2]⟩, [⟨[1], 3, 5, [0x80, 0, 7]⟩]⟩,
      ⟨some ⟨[4], 16, 4, [0x80, 2]⟩, []⟩,
      ⟨none, [⟨[5], 20, 6, [0x80, 6, 1, 2]⟩]⟩ ] := by decide

example : ((run exCar [1] 2).flatMap Group.members).length = 4 ∧ (exCar.objs.filter (keep [1] 2)).length = 4 := by decide

/-! ## offsets -/

/-- **Every delivered object carries the offset and length at which it really sits in the file**: it is section `i`
    for some `i ≥ skip`, its offset is the header length plus the lengths of ALL sections before it (ignored and skipped
    ones included), and the file bytes at `[offset, offset + sectionLength)` are exactly that section
    (`prefix ‖ cid ‖ data` with the delivered cid and data). -/
theorem offsets_true (c : Car) (ig : List UInt8) (k : UInt8) (skip : Nat) :
    ∀ g ∈ run c ig k skip, ∀ o ∈ g.members,
      ∃ i, ∃ h : i < c.secs.length, skip ≤ i ∧
        o.cid = c.secs[i].cid ∧ o.data = c.secs[i].data ∧ o.secLen = c.secs[i].secLen ∧
        o.offset = c.header.length + ((c.secs.take i).map Sec.secLen).sum ∧
        B.slice c.bytes o.offset o.secLen = c.secs[i].pre ++ (o.cid ++ o.data) := by
  intro g hg o ho
  have hmem : o ∈ (c.objs.drop skip).filter (keep ig k) := by
    rw [← (groups_partition c ig k skip).1]
    exact List.mem_flatMap.mpr ⟨g, hg, ho⟩
  have hmem2 : o ∈ c.objs.drop skip := (List.mem_filter.mp hmem).1
  obtain ⟨j, hj, hjo⟩ := List.getElem_of_mem hmem2
  rw [List.getElem_drop] at hjo
  have hlen : c.objs.length = c.secs.length := by unfold Car.objs; exact objsFrom_length _ _
  have hi : skip + j < c.secs.length := by
    have : j < (c.objs.drop skip).length := hj
    rw [List.length_drop] at this
    omega
  have hobj := c.objs_getElem (skip + j) hi
  rw [hjo] at hobj
  refine ⟨skip + j, hi, by omega, ?_⟩
  subst hobj
  refine ⟨rfl, rfl, rfl, rfl, ?_⟩
  have := c.slice_at (skip + j) hi
  simpa [Sec.raw] using this

/-- the same, for the bytes of a file the parser accepted -/
theorem offsets_true_file (b : Bytes) (c : Car) (hp : parse b = some c) (ig : List UInt8) (k : UInt8) (skip : Nat) :
    ∀ g ∈ run c ig k skip, ∀ o ∈ g.members,
      ∃ pre, B.slice b o.offset o.secLen = pre ++ (o.cid ++ o.data) ∧
        Varint.get pre 10 = some (o.cid.length + o.data.length, pre.length) ∧ o.cid.length = 36 := by
  intro g hg o ho
  obtain ⟨hb, hwf⟩ := parse_sound b c hp
  obtain ⟨i, hi, _, hc, hd, _, _, hs⟩ := offsets_true c ig k skip g hg o ho
  have := hwf _ (List.getElem_mem hi)
  refine ⟨c.secs[i].pre, by rw [← hb]; exact hs, ?_, ?_⟩
  · rw [hc, hd]; exact this.1
  · rw [hc]; exact this.2

example : ∀ g ∈ run exCar [1] 2, ∀ o ∈ g.members, B.slice exCar.bytes o.offset o.secLen ≠ [] := by decide

/-! ## the final group -/

/-- **Objects after the last block are delivered as one final group with `parent = nil`** (and only then is a group
    without parent delivered; it is the last callback; nothing is delivered for an empty tail). -/
theorem trailing_group (c : Car) (ig : List UInt8) (k : UInt8) (skip : Nat) :
    ∃ blocks tail pre post,
      run c ig k skip = blocks ++ (if tail = [] then [] else [⟨none, tail⟩]) ∧
      (∀ g ∈ blocks, g.parent.isSome = true) ∧
      c.objs.drop skip = pre ++ post ∧
      (∀ o ∈ post, o.kind ≠ k) ∧ (pre = [] ∨ ∃ pre0 b, pre = pre0 ++ [b] ∧ b.kind = k) ∧
      tail = post.filter (fun o => !ignored ig o.kind) ∧
      blocks.flatMap Group.members = pre.filter (keep ig k) := by
  obtain ⟨bl, tl, pre, post, h1, h2, h3, h4, h5, h6, h7⟩ := go_shape ig k c.secs c.header.length skip []
  refine ⟨bl, tl, pre, post, ?_, h2, h3, h4, h5, ?_, ?_⟩
  · unfold run sends
    rw [h1, List.filter_append]
    have hb : bl.filter Group.nonEmpty = bl := by
      apply List.filter_eq_self.mpr
      intro g hg
      simp [Group.nonEmpty, h2 g hg]
    rw [hb]
    congr 1
    by_cases ht : tl = []
    · simp [ht, Group.nonEmpty]
    · simp [ht, Group.nonEmpty, List.isEmpty_iff]
  · simpa using h6
  · by_cases hp : pre = [] <;> simpa [hp] using h7

example : ∃ tail, tail ≠ [] ∧ (run exCar [1] 2).getLast? = some ⟨none, tail⟩ :=
  ⟨[⟨[5], 20, 6, [0x80, 6, 1, 2]⟩], by decide, by decide⟩

/-! ## the two goroutines -/

/-- **For every schedule of reader steps, flusher steps and pool clean-ups**, from a start with any number of stale
    buffers in the global pool, with any buffer sizes, with or without the callback appending into the delivered slice
    (as `cmd-car-split.go` does):
    * the callbacks made so far are a prefix of `run` — in order, none invented, none twice;
    * when both goroutines have returned the callbacks made are exactly `run`;
    * the reading goroutine never wrote into an array after sending it, and every `(parent, children)` ever handed to a
      callback still reads, at any later time, exactly as it did when the callback was invoked. -/
theorem fifo_any_speed (cfg : Cfg) (c : Car) (ig : List UInt8) (k : UInt8) (skip npool : Nat) (σ : List Ev) :
    (exec cfg ig k (init c skip npool) σ).observed <+: run c ig k skip ∧
    ((exec cfg ig k (init c skip npool) σ).finished = true →
      (exec cfg ig k (init c skip npool) σ).observed = run c ig k skip) ∧
    (exec cfg ig k (init c skip npool) σ).bad = false ∧
    (exec cfg ig k (init c skip npool) σ).reread = (exec cfg ig k (init c skip npool) σ).seen := by
  have inv := inv_exec cfg ig k _ _ σ (inv_init c ig k skip npool)
  refine ⟨?_, ?_, inv.notBad, inv.stable⟩
  · exact List.IsPrefix.filter _ (seen_prefix inv)
  · intro hf
    unfold St.observed run
    rw [seen_all_of_finished inv hf]

/-- the number of effective steps of a whole run is at most `9 · sections + 12` -/
theorem mu_init (c : Car) (skip npool : Nat) : mu (init c skip npool) = 9 * c.secs.length + 12 := by
  simp [mu, init, prodM, toSend, consPc]; omega

theorem mu_exec_le (cfg : Cfg) (ig : List UInt8) (k : UInt8) (s : St) (σ : List Ev) : mu (exec cfg ig k s σ) ≤ mu s := by
  induction σ generalizing s with
  | nil => exact Nat.le_refl _
  | cons e σ ih => exact Nat.le_trans (ih _) (step_mu_le cfg ig k s e)

/-- **No deadlock, no starvation needed beyond fairness**: whatever happened so far (`σ`), every continuation `τ`
    that schedules each of the two goroutines at least once per round for `9 · sections + 12` rounds (in any order, any
    number of steps each, any speed ratio) ends with both goroutines returned and exactly `run` delivered.
    The channel only needs room for one element. -/
theorem fifo_fair_completes (cfg : Cfg) (hq : 1 ≤ cfg.qcap) (c : Car) (ig : List UInt8) (k : UInt8) (skip npool : Nat)
    (σ τ : List Ev) (hfair : 9 * c.secs.length + 12 ≤ rounds false false τ) :
    (exec cfg ig k (init c skip npool) (σ ++ τ)).finished = true ∧
    (exec cfg ig k (init c skip npool) (σ ++ τ)).observed = run c ig k skip := by
  have inv := inv_exec cfg ig k _ _ σ (inv_init c ig k skip npool)
  have hmu : mu (exec cfg ig k (init c skip npool) σ) ≤ rounds false false τ := by
    have := mu_exec_le cfg ig k (init c skip npool) σ
    rw [mu_init] at this
    omega
  have hfin : (exec cfg ig k (init c skip npool) (σ ++ τ)).finished = true := by
    rw [exec_append]
    exact fair_core cfg hq ig k _ τ _ false false _ inv (Or.inl ⟨Nat.le_refl _, by simp, by simp⟩) hmu
  exact ⟨hfin, (fifo_any_speed cfg c ig k skip npool (σ ++ τ)).2.1 hfin⟩

/-- while the run is not over one of the two goroutines can always take an effective step, and effective steps are
    bounded: the reader blocked on a full channel or on the WaitGroup is always released by the flusher -/
theorem fifo_no_deadlock (cfg : Cfg) (hq : 1 ≤ cfg.qcap) (c : Car) (ig : List UInt8) (k : UInt8) (skip npool : Nat)
    (σ : List Ev) (hf : (exec cfg ig k (init c skip npool) σ).finished = false) :
    (∀ n, mu (exec cfg ig k (init c skip npool) (σ ++ [.p n])) < mu (exec cfg ig k (init c skip npool) σ)) ∨
    (∀ a, mu (exec cfg ig k (init c skip npool) (σ ++ [.c a])) < mu (exec cfg ig k (init c skip npool) σ)) := by
  have inv := inv_exec cfg ig k _ _ σ (inv_init c ig k skip npool)
  rcases not_stuck cfg hq inv hf with h | h
  · left; intro n; rw [exec_append]; exact stepP_mu cfg ig k n _ h
  · right; intro a; rw [exec_append]; exact stepC_mu a _ h

/-! non-vacuity: a tiny channel (capacity 1), a preallocation of 1 (so `append` reallocates), two stale pooled buffers,
    the callback appending in place, the pool emptied in the middle: the run completes and delivers `run`. -/
def exCfg : Cfg := { cap0 := 1, qcap := 1, grow := fun n => 2 * n + 1 }

def exSched : List Ev :=
  [.p 0, .p 0, .p 0, .p 0, .p 0, .p 0, .p 1, .p 0, .p 0, .c true, .gc, .p 0, .p 0, .p 0, .p 0, .p 5, .p 0] ++
  roundRobin 40

example : (exec exCfg [1] 2 (init exCar 0 2) exSched).finished = true := by decide +kernel
example : (exec exCfg [1] 2 (init exCar 0 2) exSched).observed = run exCar [1] 2 := by decide +kernel
example : 9 * exCar.secs.length + 12 ≤ rounds false false (roundRobin 66) := by decide
/-- a schedule in which the reader runs alone gets stuck on the full channel: not finished, a strict prefix delivered -/
example : (exec exCfg [1] 2 (init exCar 0 0) (List.replicate 50 (.p 0))).finished = false ∧
    (exec exCfg [1] 2 (init exCar 0 0) (List.replicate 50 (.p 0))).observed = [] := by decide +kernel

end C15

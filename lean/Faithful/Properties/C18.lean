/-! Property C18 — theorems (statements live here, helper lemmas in Faithful/Lib) -/
namespace C18
end C18

import Faithful.Lib.FirstSuccessSys

/-! Property C18 — parallel epoch search returns a hit whenever one exists.

All statements are about `FSys.step` / `FSys.run` (the transition system of /repo/first-success.go the driver
executes), for an arbitrary number of jobs `c.n`, an arbitrary `concurrency` argument `c.limit : Int`, arbitrary
outcomes `c.out` and EVERY schedule (`Reach c s` = `s` is the end state of some list of atomic actions accepted by
`run` from the initial state).  Scope: the live-context path only (the property's own restriction); every job
function eventually returns (a running job's `send` is always enabled — `no_send_blocks` — and a maximal schedule
is one in which nothing enabled is left).
-/
namespace C18
open FS FSys

variable {V E : Type}

/-- never a success with a value no job produced: whenever main has returned `ok v`, some job `j < n` returned `ok v` -/
theorem fs_sound (c : Cfg V E) (s : State V E) (v : V) (hr : Reach c s) (hd : s.main = .done (.ok v)) :
    ∃ j, j < c.n ∧ c.out j = .ok v := by
  have hi := inv_reach c s hr
  have hmi : MainP c.n s.next (s.log.map c.out) s.buf s.closed s.main := hi.main_inv
  rw [hd] at hmi; simp only [MainP] at hmi
  obtain ⟨_, pre, post, h⟩ := hmi
  have hmem : Out.ok v ∈ s.log.map c.out := by rw [h]; simp
  obtain ⟨j, hj, hout⟩ := List.mem_map.mp hmem
  have : j ∈ List.range s.next := hi.perm.subset (List.mem_append_right _ hj)
  have hn := hi.next_le
  exact ⟨j, by have := List.mem_range.mp this; omega, hout⟩

/-- when main has returned an error list, every job has sent: the arrival list is a permutation of all jobs -/
theorem arrivals_perm_of_err (c : Cfg V E) (s : State V E) (es : List E) (hr : Reach c s)
    (hd : s.main = .done (.err es)) : s.log.Perm (List.range c.n) ∧ s.log.map c.out = es.map Out.err := by
  have hi := inv_reach c s hr
  have hmi : MainP c.n s.next (s.log.map c.out) s.buf s.closed s.main := hi.main_inv
  rw [hd] at hmi; simp only [MainP] at hmi
  obtain ⟨hn, h, hl⟩ := hmi
  have hlen := hi.len
  have hll : s.log.length = es.length := by
    have := congrArg List.length h; simpa using this
  have hrun : s.running = [] := List.length_eq_zero_iff.mp (by omega)
  have hp := hi.perm
  rw [hrun, hn] at hp
  exact ⟨by simpa using hp, h⟩

/-- a hit whenever one exists: whenever main has returned and some job succeeds, the result is `ok` of the value of
a job that succeeded (no fairness hypothesis needed: main cannot return an error list before all `n` results arrived) -/
theorem fs_complete (c : Cfg V E) (s : State V E) (r : Res V E) (hr : Reach c s) (hd : s.main = .done r)
    (hex : ∃ j, j < c.n ∧ isOk (c.out j) = true) :
    ∃ v j, r = .ok v ∧ j < c.n ∧ c.out j = .ok v := by
  cases r with
  | ok v =>
    obtain ⟨j, hj, ho⟩ := fs_sound c s v hr hd
    exact ⟨v, j, rfl, hj, ho⟩
  | err es =>
    exfalso
    obtain ⟨hp, h⟩ := arrivals_perm_of_err c s es hr hd
    obtain ⟨j, hj, hok⟩ := hex
    have hjl : j ∈ s.log := hp.symm.subset (List.mem_range.mpr hj)
    have : c.out j ∈ es.map Out.err := by rw [← h]; exact List.mem_map_of_mem hjl
    obtain ⟨e, _, he⟩ := List.mem_map.mp this
    rw [← he] at hok; simp [isOk] at hok

/-- otherwise the complete list of errors: if every job fails, main's result is the list of all `n` errors, a
permutation of `[e 0, …, e (n-1)]`, in arrival order -/
theorem fs_all_fail (c : Cfg V E) (s : State V E) (r : Res V E) (e : Nat → E) (hr : Reach c s)
    (hd : s.main = .done r) (hall : ∀ j, j < c.n → c.out j = .err (e j)) :
    ∃ es, r = .err es ∧ es.Perm ((List.range c.n).map e) ∧ es = errsOf (s.log.map c.out) := by
  cases r with
  | ok v =>
    obtain ⟨j, hj, ho⟩ := fs_sound c s v hr hd
    rw [hall j hj] at ho; cases ho
  | err es =>
    obtain ⟨hp, h⟩ := arrivals_perm_of_err c s es hr hd
    refine ⟨es, rfl, ?_, by rw [h, errsOf_map_err]⟩
    have h1 : (errsOf (s.log.map c.out)).Perm (errsOf ((List.range c.n).map c.out)) := errsOf_perm (hp.map c.out)
    rw [h, errsOf_map_err] at h1
    have h2 : (List.range c.n).map c.out = ((List.range c.n).map e).map Out.err := by
      rw [List.map_map]
      apply List.map_congr_left
      intro j hj
      exact hall j (List.mem_range.mp hj)
    rw [h2, errsOf_map_err] at h1
    exact h1

/-- the transition system and the collector prototype agree: whatever main returns is `FS.collect` applied to the
arrival sequence (so `collect_sound / collect_complete / collect_all_fail` speak about every run) -/
theorem fs_result_eq_collect (c : Cfg V E) (s : State V E) (r : Res V E) (hr : Reach c s) (hd : s.main = .done r) :
    r.toExcept = collect c.n [] (s.log.map c.out) := by
  have hi := inv_reach c s hr
  have hmi : MainP c.n s.next (s.log.map c.out) s.buf s.closed s.main := hi.main_inv
  have hlen := hi.len
  have hn := hi.next_le
  rw [hd] at hmi
  cases r with
  | ok v =>
    simp only [MainP] at hmi
    obtain ⟨_, pre, post, h⟩ := hmi
    have hl : (s.log.map c.out).length = pre.length + (post.length + 1) := by rw [h]; simp
    rw [h, collect_prefix_ok c.n v post pre [] (by simp at hl ⊢; omega)]
    rfl
  | err es =>
    simp only [MainP] at hmi
    obtain ⟨_, h, hl⟩ := hmi
    rw [h, collect_all_err c.n es hl]
    rfl

/-- the channel capacity `len(fns)` suffices: in every reachable state at most `n` results are buffered and the send
of every running job is enabled (its guard `buf.length < n` holds) -/
theorem no_send_blocks (c : Cfg V E) (s : State V E) (hr : Reach c s) :
    s.buf.length ≤ c.n ∧ ∀ j, j ∈ s.running → (step c s (.send j)).isSome = true := by
  have hi := inv_reach c s hr
  have hlen := hi.len
  have hn := hi.next_le
  have hb := hi.buf_le
  refine ⟨by omega, ?_⟩
  intro j hj
  have : 0 < s.running.length := List.length_pos_of_mem hj
  have hlt : s.buf.length < c.n := by omega
  simp [step, hj, hlt]

/-- the concurrency limit: a positive `concurrency` bounds the number of jobs holding a semaphore token (running or
sent-but-not-yet-released); `concurrency ≤ 0` means no semaphore at all (SetLimit is not called) -/
theorem fs_limit (c : Cfg V E) (s : State V E) (hr : Reach c s) :
    (0 < c.limit → (s.running.length + s.sentq.length : Int) ≤ c.limit) ∧ (c.limit ≤ 0 → semCap c = none) := by
  have hi := inv_reach c s hr
  constructor
  · intro hpos
    have := hi.sem c.limit.toNat (by simp [semCap, hpos])
    omega
  · intro h
    simp [semCap]; omega

/-- termination: every schedule has at most `5n + 3` actions; a schedule that cannot be extended has ended with main
returned, no goroutine left and the channel closed; and from every reachable state such an end can be reached -/
theorem fs_terminates (c : Cfg V E) (sched : List Act) (s : State V E) (hrun : run c init sched = some s) :
    sched.length ≤ 5 * c.n + 3 ∧
    ((∀ a, step c s a = none) → Final s) ∧
    ∃ sched' s', run c s sched' = some s' ∧ Final s' := by
  have hi := inv_reach c s ⟨sched, hrun⟩
  refine ⟨?_, progress c s hi, can_finish c (mu c s) s (Nat.le_refl _) hi⟩
  have := run_mu c sched init s hrun
  rw [mu_init] at this
  omega

/-- every maximal run: main has returned `collect n [] arrivals`, where the arrivals are a permutation of all jobs -/
theorem fs_maximal_run (c : Cfg V E) (sched : List Act) (s : State V E) (hrun : run c init sched = some s)
    (hmax : ∀ a, step c s a = none) :
    ∃ r, s.main = .done r ∧ r.toExcept = collect c.n [] (s.log.map c.out) ∧ s.log.Perm (List.range c.n) := by
  have hr : Reach c s := ⟨sched, hrun⟩
  have hi := inv_reach c s hr
  obtain ⟨⟨r, hd⟩, hrn, _, _, hc⟩ := progress c s hi hmax
  refine ⟨r, hd, fs_result_eq_collect c s r hr hd, ?_⟩
  have hp := hi.perm
  rw [hrn, (hi.closed_imp hc).1] at hp
  simpa using hp

/-! ### findEpochNumberFromSignature -/
open FindEpoch

theorem cfgOf_out (limit : Int) (eps : List (Nat × Kind)) (j : Nat) (hj : j < eps.length) :
    (cfgOf limit eps).out j = jobOut eps[j].1 eps[j].2 := by
  simp [cfgOf, List.getElem?_eq_getElem hj]

/-- classification after the search, for every schedule of the search over the epochs `eps`:
 (1) `found e` only for an epoch whose job hit;
 (2) if some epoch hits, the answer is `found e` for a hitting epoch;
 (3) if every job's error is a not-found error, the answer is `notFound`;
 (4) if no epoch hits and some error is not a not-found error, the answer is `internal es` with `es` the errors of
     all epochs (a permutation, arrival order). -/
theorem find_epoch_classification (limit : Int) (eps : List (Nat × Kind)) (s : State Nat JErr) (r : Res Nat JErr)
    (hr : Reach (cfgOf limit eps) s) (hd : s.main = .done r) :
    (∀ e, classify r = .found e → (e, Kind.hit) ∈ eps) ∧
    ((∃ num, (num, Kind.hit) ∈ eps) → ∃ e, classify r = .found e ∧ (e, Kind.hit) ∈ eps) ∧
    ((∀ j, j < eps.length → ∃ x, (cfgOf limit eps).out j = .err x ∧ x.isNF = true) → classify r = .notFound) ∧
    (∀ errOf : Nat → JErr, (∀ j, j < eps.length → (cfgOf limit eps).out j = .err (errOf j)) →
        (∃ j, j < eps.length ∧ (errOf j).isNF = false) →
        ∃ es, classify r = .internal es ∧ es.Perm ((List.range eps.length).map errOf)) := by
  have hfound : ∀ e, r = .ok e → (e, Kind.hit) ∈ eps := by
    intro e he
    subst he
    obtain ⟨j, hj, ho⟩ := fs_sound _ s e hr hd
    have hj' : j < eps.length := hj
    rw [cfgOf_out limit eps j hj'] at ho
    have hmem : eps[j] ∈ eps := List.getElem_mem hj'
    rcases hx : eps[j] with ⟨num, k⟩
    rw [hx] at ho hmem
    cases k <;> simp [jobOut] at ho
    subst ho; exact hmem
  refine ⟨?_, ?_, ?_, ?_⟩
  · intro e he
    cases r with
    | ok v => simp [classify] at he; subst he; exact hfound v rfl
    | err es => simp only [classify] at he; split at he <;> cases he
  · rintro ⟨num, hmem⟩
    obtain ⟨j, hj, hx⟩ := List.getElem_of_mem hmem
    have hex : ∃ j, j < (cfgOf limit eps).n ∧ isOk ((cfgOf limit eps).out j) = true :=
      ⟨j, hj, by rw [cfgOf_out limit eps j hj, hx]; rfl⟩
    obtain ⟨v, _, hrv, _, _⟩ := fs_complete _ s r hr hd hex
    exact ⟨v, by rw [hrv]; rfl, hfound v hrv⟩
  · intro hall
    cases r with
    | ok v =>
      obtain ⟨j, hj, ho⟩ := fs_sound _ s v hr hd
      obtain ⟨x, hx, _⟩ := hall j hj
      rw [hx] at ho; cases ho
    | err es =>
      obtain ⟨hp, h⟩ := arrivals_perm_of_err _ s es hr hd
      have : es.all JErr.isNF = true := by
        rw [List.all_eq_true]
        intro x hx
        have hm : Out.err x ∈ s.log.map (cfgOf limit eps).out := by rw [h]; exact List.mem_map_of_mem hx
        obtain ⟨j, hj, ho⟩ := List.mem_map.mp hm
        have hjn : j < eps.length := List.mem_range.mp (hp.subset hj)
        obtain ⟨y, hy, hnf⟩ := hall j hjn
        rw [hy] at ho; injection ho with ho; subst ho; exact hnf
      simp [classify, this]
  · intro errOf hall ⟨j, hj, hnf⟩
    obtain ⟨es, hres, hperm, _⟩ := fs_all_fail _ s r errOf hr hd hall
    subst hres
    refine ⟨es, ?_, hperm⟩
    have hmem : errOf j ∈ es := hperm.symm.subset (List.mem_map_of_mem (List.mem_range.mpr hj))
    have : es.all JErr.isNF = false := by
      rw [List.all_eq_false]
      exact ⟨errOf j, hmem, by simp [hnf]⟩
    simp [classify, this]

/-- with exactly one epoch the search is skipped: that epoch is the answer whatever its indexes say -/
theorem find_single_epoch (num : Nat) (k : Kind) (r : Res Nat JErr) : findResult [(num, k)] r = .found num := rfl

/-- with zero or at least two epochs the answer is the classification of the search result -/
theorem find_multi_epoch (eps : List (Nat × Kind)) (r : Res Nat JErr) (h : eps.length ≠ 1) :
    findResult eps r = classify r := by
  match eps, h with
  | [], _ => rfl
  | [_], h => simp at h
  | _ :: _ :: _, _ => rfl

/-! ### non-vacuity: concrete runs of the very definitions above -/

/-- three jobs (error 1, success 7, error 3), limit 2 -/
def exCfg : Cfg Nat Nat :=
  { n := 3, limit := 2, out := fun j => if j = 0 then .err 1 else if j = 1 then .ok 7 else .err 3 }

def exSched : List Act :=
  [.start, .start, .send 0, .release 0, .start, .send 2, .send 1, .wgdone 0, .fork, .recv, .recv, .recv,
   .release 1, .release 2, .wgdone 2, .wgdone 1, .close]

-- a complete run under limit 2 in which job 2 overtakes job 1: errors 1 and 3 arrive first, then the success
example : (run exCfg init exSched).map (·.main) = some (.done (.ok 7)) := by decide
example : (run exCfg init exSched).map (·.log) = some [0, 2, 1] := by decide
example : ∃ s, run exCfg init exSched = some s ∧ ∀ a ∈ allActs 3, step exCfg s a = none := by
  refine ⟨_, rfl, ?_⟩; decide
-- the limit blocks: a third start is not accepted while two jobs hold a token
example : run exCfg init [.start, .start, .start] = none := by decide
-- all jobs fail: the complete error list in arrival order; main returns at the n-th error, before the channel is closed
def exFail : Cfg Nat Nat := { n := 2, limit := -1, out := fun j => .err (10 + j) }
example : (run exFail init [.start, .start, .send 1, .send 0, .fork, .recv, .recv]).map (·.main)
    = some (.done (.err [11, 10])) := by decide
-- zero jobs: the closer closes the empty channel and main returns the empty error list
example : (run ({ n := 0, limit := 0, out := fun _ => .err 0 } : Cfg Nat Nat) init [.fork, .close, .recvClosed]).map (·.main)
    = some (.done (.err [])) := by decide
-- limit 0 is "no limit": three jobs run at once
example : (run { exCfg with limit := 0 } init [.start, .start, .start]).map (·.running) = some [0, 1, 2] := by decide
-- the scheduler used by the driver realises completion order 2,1,0 under limit 2 as 1,2,0 (job 2 starts only after job 1 left)
example : (prioRun exCfg [2, 1, 0] 19 init [] 0).2.1.log = [1, 2, 0] := by decide
-- classification: hit in epoch 7; all not found; one failing bucketteer
example : classify (.ok 7) = .found 7 := rfl
example : classify (.err [.notFound, .hasFailed 5 true]) = .notFound := rfl
example : classify (.err [.notFound, .hasFailed 5 false]) = .internal [.notFound, .hasFailed 5 false] := rfl
example : (cfgOf 2 [(9, .hasFalse), (7, .hit)]).out 1 = .ok 7 := rfl

end C18

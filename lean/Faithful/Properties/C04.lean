import Faithful.Lib.CompactIndex
import Faithful.Generated.IntFns

namespace C04
open CI

/-- tie: the translated Go `hashUint64` is the model's Murmur finaliser -/
theorem gen_hashUint64_eq_model : Generated.hashUint64 = H.hashUint64 := by
  funext x; rfl

end C04

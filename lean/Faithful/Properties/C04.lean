import Faithful.Lib.CompactIndexProofs
import Faithful.Lib.CompactIndexBytes
import Faithful.Lib.CompactIndexLegacyBytes
import Faithful.Generated.IntFns

/-!
# C04 — compact hash index: every inserted key is found with its value

Statements are about `CI.buildA` / `CI.lookupA` (Faithful/Lib/CompactIndex.lean), the abstract layer of the
model the driver executes; the byte layer (`CI.encode`, `CI.openB`, `CI.lookupB`) is tied to the real files
byte for byte by the correspondence run, and to the abstract layer by proof (second half of this file:
`open_encode`, `lookup_bytes_agree`, `build_lookup_bytes`, `lookup_sound_bytes`, and the `…_legacy` versions for
the two deprecated formats); the driver's `MODEL-LAYERS-DISAGREE` marker remains as a run-time cross-check.
All theorems hold for an arbitrary pair of hash functions `hf`, so they never rely on
xxhash being collision free: a bad hash can only make `buildA` fail.
-/
namespace C04
open CI B

/-- tie: the translated Go `hashUint64` is the model's Murmur finaliser -/
theorem gen_hashUint64_eq_model : Generated.hashUint64 = H.hashUint64 := by
  funext x; rfl

/-- the two legacy copies use the same finaliser -/
theorem gen_legacy_hashUint64_eq_model :
    Generated.legacy8HashUint64 = H.hashUint64 ∧ Generated.legacy36HashUint64 = H.hashUint64 := by
  constructor <;> (funext x; rfl)

/-- **every inserted key is found with exactly its value** — any key set, any value size the builder accepts,
    any declared count, any metadata, any number of buckets and any bucket population. -/
theorem build_lookup (hf : HF) (vs declared : Nat) (m : List (Bytes × Bytes)) (kvs : List KV) (ix : IndexA)
    (h : buildA hf vs declared m kvs = .ok ix) (kv : KV) (hkv : kv ∈ kvs) :
    lookupA hf ix kv.key = .found kv.val := by
  obtain ⟨_, _, _, hbk, _⟩ := buildA_ok hf vs declared m kvs ix h
  obtain ⟨i, hi, hlt⟩ := hbk kv hkv
  obtain ⟨b, hb, hseal⟩ := bucket_of_build hf vs declared m kvs ix h i hlt
  have hin : kv ∈ bucketKVs hf ix.numBuckets kvs i := by
    unfold bucketKVs
    rw [List.mem_filter]
    exact ⟨hkv, by simp [hi]⟩
  have := sealBucket_lookup hf _ b hseal kv hin
  unfold lookupA
  simp only [hi, hb, this]

/-- a hit is always an inserted pair from the same bucket with the same 24-bit in-bucket hash
    (no answer is invented; used by C03) -/
theorem lookup_sound (hf : HF) (vs declared : Nat) (m : List (Bytes × Bytes)) (kvs : List KV) (ix : IndexA)
    (h : buildA hf vs declared m kvs = .ok ix) (key v : Bytes) (hl : lookupA hf ix key = .found v) :
    ∃ kv ∈ kvs, ∃ i b, hf.bucket key ix.numBuckets = some i ∧ hf.bucket kv.key ix.numBuckets = some i ∧
      ix.buckets[i]? = some b ∧ hf.entry b.nonce kv.key = hf.entry b.nonce key ∧ kv.val = v := by
  unfold lookupA at hl
  split at hl
  · cases hl
  · rename_i i hi
    split at hl
    · cases hl
    · rename_i b hb
      split at hl
      · rename_i v' hs
        simp only [Look.found.injEq] at hl; subst hl
        have hlt : i < ix.numBuckets := by
          obtain ⟨_, _, _, _, hall⟩ := buildA_ok hf vs declared m kvs ix h
          have hlen := (allSome_get _ _ hall)
          have : i < ix.buckets.length := by
            have := List.getElem?_eq_some_iff.mp hb
            exact this.1
          -- buckets has exactly numBuckets entries
          have hl2 : ix.buckets.length = ix.numBuckets := by
            have : ∀ (l : List (Option BucketA)) (r : List BucketA), allSome l = some r → r.length = l.length := by
              intro l
              induction l with
              | nil => intro r hr; simp [allSome] at hr; subst hr; rfl
              | cons a l ih =>
                intro r hr
                cases a with
                | none => simp [allSome] at hr
                | some a =>
                  simp only [allSome] at hr
                  split at hr
                  · cases hr
                  · rename_i l' hl'
                    simp only [Option.some.injEq] at hr; subst hr
                    simp [ih l' hl']
            simpa using this _ _ hall
          omega
        obtain ⟨b', hb', hseal⟩ := bucket_of_build hf vs declared m kvs ix h i hlt
        have : b' = b := by rw [hb] at hb'; exact (Option.some.inj hb').symm
        subst this
        obtain ⟨kv, hkv, he, hv⟩ := sealBucket_sound hf _ b' hseal _ _ hs
        unfold bucketKVs at hkv
        rw [List.mem_filter] at hkv
        refine ⟨kv, hkv.1, i, b', hi, ?_, hb, he, hv⟩
        simpa using hkv.2
      · cases hl

/-- **failing loudly**: the same key inserted twice (with any values) can never produce an index -/
theorem duplicate_key_fails (hf : HF) (vs declared : Nat) (m : List (Bytes × Bytes)) (pre mid post : List KV)
    (k : Bytes) (v1 v2 : Bytes) (ix : IndexA) :
    buildA hf vs declared m (pre ++ ⟨k, v1⟩ :: mid ++ ⟨k, v2⟩ :: post) ≠ .ok ix := by
  intro h
  obtain ⟨_, _, _, hbk, hall⟩ := buildA_ok hf vs declared m _ ix h
  obtain ⟨i, hi, hlt⟩ := hbk ⟨k, v1⟩ (by simp)
  obtain ⟨b, _, hseal⟩ := bucket_of_build hf vs declared m _ ix h i hlt
  -- in bucket i both copies are present: every nonce collides
  unfold sealBucket at hseal
  split at hseal
  · cases hseal
  · rename_i nonce sorted hm
    obtain ⟨hperm, hstrict⟩ := mine_strict hf _ nonce sorted hm
    have hnd := strict_nodup sorted hstrict
    have hnd2 : ((hashed hf nonce (bucketKVs hf ix.numBuckets (pre ++ ⟨k, v1⟩ :: mid ++ ⟨k, v2⟩ :: post) i)).map (·.1)).Nodup :=
      (hperm.map _).nodup_iff.mp hnd
    -- the filtered list contains the two copies at distinct positions
    have hfilter : bucketKVs hf ix.numBuckets (pre ++ ⟨k, v1⟩ :: mid ++ ⟨k, v2⟩ :: post) i
        = bucketKVs hf ix.numBuckets pre i ++ ⟨k, v1⟩ :: (bucketKVs hf ix.numBuckets mid i ++ ⟨k, v2⟩ :: bucketKVs hf ix.numBuckets post i) := by
      unfold bucketKVs
      simp [List.filter_append, List.filter_cons, hi]
    rw [hfilter] at hnd2
    unfold hashed at hnd2
    simp only [List.map_append, List.map_cons, List.map_map] at hnd2
    have := (List.nodup_append.mp hnd2).2.1
    rw [List.nodup_cons] at this
    apply this.1
    simp

/-- **insertion-order independence**: any permutation of the same inserts gives the same sealed index
    (hence, through `CI.encode`, the byte-identical file; the real builder's two sealings are compared byte for
    byte by the `reseal` op of the correspondence run). Also covers "sealing the same inserts twice". -/
theorem build_perm (hf : HF) (vs declared : Nat) (m : List (Bytes × Bytes)) (kvs kvs' : List KV) (hp : kvs.Perm kvs') :
    buildA hf vs declared m kvs = buildA hf vs declared m kvs' ∧
    (buildA hf vs declared m kvs).toOption.map encode = (buildA hf vs declared m kvs').toOption.map encode := by
  have := buildA_perm hf vs declared m kvs kvs' hp
  exact ⟨this, by rw [this]⟩

/-- parameters the format cannot hold are refused by the constructor (after the `fix:` commits: value sizes
    above 255 − HashSize were accepted by the pinned tree and made `Seal` panic) -/
theorem bad_params_fail (hf : HF) (vs declared : Nat) (m : List (Bytes × Bytes)) (kvs : List KV)
    (h : vs = 0 ∨ vs > 255 ∨ declared = 0) : buildA hf vs declared m kvs = .error .badParams := by
  unfold buildA; simp [h]

/-- success does not depend on the declared item count beyond the number of buckets it selects:
    the statement of `build_lookup` has no hypothesis on `declared` (1×..10× the real count included). -/
theorem build_declared_irrelevant (hf : HF) (vs d1 d2 : Nat) (m : List (Bytes × Bytes)) (kvs : List KV) (ix1 ix2 : IndexA)
    (h1 : buildA hf vs d1 m kvs = .ok ix1) (h2 : buildA hf vs d2 m kvs = .ok ix2) (kv : KV) (hkv : kv ∈ kvs) :
    lookupA hf ix1 kv.key = lookupA hf ix2 kv.key := by
  rw [build_lookup hf vs d1 m kvs ix1 h1 kv hkv, build_lookup hf vs d2 m kvs ix2 h2 kv hkv]

/-! non-vacuity: the hypothesis `buildA … = .ok ix` of the theorems above is satisfiable — a one-key build
    succeeds for every hash pair, value size 1..255 and declared count (in-kernel); builds of up to 60 000 keys with
    the real xxhash64 succeed on every correspondence run (`sealed-ok` in the evidence). -/
theorem allSome_map_some {α β : Type} (f : α → Option β) : ∀ (l : List α), (∀ x ∈ l, ∃ y, f x = some y) →
    ∃ r, allSome (l.map f) = some r
  | [], _ => ⟨[], rfl⟩
  | a :: l, h => by
    obtain ⟨y, hy⟩ := h a (List.mem_cons_self ..)
    obtain ⟨r, hr⟩ := allSome_map_some f l (fun x hx => h x (List.mem_cons_of_mem _ hx))
    exact ⟨y :: r, by simp [allSome, hy, hr]⟩

theorem sealBucket_small (hf : HF) (kvs : List KV) (h : kvs.length ≤ 1) : ∃ b, sealBucket hf kvs = some b := by
  have hm : ∃ r, mine hf kvs = some r := by
    unfold mine
    have : Generated.mineAttempts = 999 + 1 := by decide
    rw [this, mineFrom]
    match kvs, h with
    | [], _ => simp [hashed, adjDup]
    | [kv], _ => simp [hashed, adjDup]
  obtain ⟨⟨n, s⟩, hr⟩ := hm
  exact ⟨⟨n, Eytz.layout s.toArray⟩, by simp [sealBucket, hr]⟩

theorem build_singleton_ok (hf : HF) (vs declared : Nat) (m : List (Bytes × Bytes)) (kv : KV)
    (hvs : 0 < vs ∧ vs ≤ 255) (hd : 0 < declared) (i : Nat)
    (hb : hf.bucket kv.key (numBucketsFor declared) = some i) (hi : i < numBucketsFor declared) :
    ∃ ix, buildA hf vs declared m [kv] = .ok ix := by
  unfold buildA
  have h1 : ¬ (vs = 0 ∨ vs > 255 ∨ declared = 0) := by omega
  simp only [h1, if_false, List.any_cons, List.any_nil, Bool.or_false, hb, Option.isNone_some]
  have h2 : ¬ (decide (numBucketsFor declared ≤ i)) = true := by simp; omega
  simp only [h2]
  obtain ⟨r, hr⟩ := allSome_map_some (fun j => sealBucket hf (bucketKVs hf (numBucketsFor declared) [kv] j))
    (List.range (numBucketsFor declared)) (by
      intro j _
      apply sealBucket_small
      unfold bucketKVs
      exact Nat.le_trans (List.length_filter_le _ _) (by simp))
  exact ⟨⟨vs, numBucketsFor declared, m, r⟩, by simp [hr]⟩

def toyHF : HF := ⟨fun k n => if n = 0 then none else some (k.length % n), fun nonce k => k.length * 7 + nonce⟩
example : ∃ ix, buildA toyHF 9 25000 [] [⟨[4,5], [8]⟩] = .ok ix ∧ lookupA toyHF ix [4,5] = .found [8] := by
  obtain ⟨ix, h⟩ := build_singleton_ok toyHF 9 25000 [] ⟨[4,5], [8]⟩ (by omega) (by omega) 2 (by decide) (by decide)
  exact ⟨ix, h, build_lookup toyHF 9 25000 [] _ ix h ⟨[4,5], [8]⟩ (by simp)⟩

/-! ## the byte layer: `Open` / `Lookup` over the file `Seal` writes

`CI.encode ix` is the file (compared byte for byte with the real builder's file on every run) and `CI.openB`,
`CI.lookupB` are the Go `Open` / `Lookup` reading that file through `ReadAt` (`CI.rd`).  The theorems below replace
the run-time `MODEL-LAYERS-DISAGREE` comparison by a proof: on the file of ANY successfully built index the
byte-level reader opens without error and answers, for EVERY key, exactly what the abstract reader answers.

Size hypotheses (all on the inputs of the build, all explicit; lemmas in `Faithful/Lib/CompactIndexBytes.lean`):
* `MetaOk m`: the metadata obeys the `indexmeta` limits (≤ `MaxNumKVs` pairs, keys ≤ `MaxKeySize`, values ≤ `MaxValueSize`
  bytes: one length byte each);
* `vs ≤ 255 − HashSize`: the entry stride `HashSize + valueSize` is a `uint8` in the Go code;
* `numBucketsFor declared < 2^32`: `Header.NumBuckets` is a `uint32`;
* `kvs.length < 2^32`: `BucketHeader.NumEntries` is a `uint32`.
Derived, not assumed: nonces < 1000 < 2^32 (`mineFrom` gives up after `mineAttempts`), stored hashes < 2^24
(`HF.entry` masks to `HashSize` bytes), header length < 2^32, and the total file size < 2^48 so that the 6-byte
`BucketHeader.FileOffset` is exact (`CI.encode_length_lt`).
For the lookups, additionally every inserted value has exactly `vs` bytes (`Builder.Insert` refuses any other length;
the model's `marshalEntry` would zero-pad a shorter one).
No hypothesis on the hash functions: a key whose `hf.bucket` is out of range gets `.err` from both readers, one on
which it does not terminate gets `.hang` from both. -/

/-- `Open` succeeds on the sealed file and reads back value size, bucket count, metadata and header size. -/
theorem open_encode (hf : HF) (vs declared : Nat) (m : List (Bytes × Bytes)) (kvs : List KV) (ix : IndexA)
    (h : buildA hf vs declared m kvs = .ok ix)
    (hm : MetaOk m) (hvs : vs ≤ 255 - Generated.hashSize)
    (hnb : numBucketsFor declared < 2^32) (hn : kvs.length < 2^32) :
    ∃ db, openB (encode ix).toArray = .ok db ∧
      db.valueSize = ix.valueSize ∧ db.numBuckets = ix.numBuckets ∧ db.metaKVs = ix.metaKVs ∧
      db.headerSize = (headerBytes ix.valueSize ix.numBuckets ix.metaKVs).length :=
  ⟨_, openB_encode ix (encOk_of_build hf vs declared m kvs ix h hm hvs hnb hn), rfl, rfl, rfl, rfl⟩

/-- **the two layers of the model agree**: on the sealed file, the byte-level `Lookup` (bucket header read, 24-bit
    hash mask, eytzinger search over `ReadAt`) returns for EVERY key — present, absent, colliding, or hashing
    outside the table — exactly the answer of the abstract `lookupA`. -/
theorem lookup_bytes_agree (hf : HF) (vs declared : Nat) (m : List (Bytes × Bytes)) (kvs : List KV) (ix : IndexA)
    (h : buildA hf vs declared m kvs = .ok ix)
    (hm : MetaOk m) (hvs : vs ≤ 255 - Generated.hashSize)
    (hnb : numBucketsFor declared < 2^32) (hn : kvs.length < 2^32)
    (hval : ∀ kv ∈ kvs, kv.val.length = vs) :
    ∃ db, openB (encode ix).toArray = .ok db ∧
      ∀ key, lookupB hf (encode ix).toArray db key = lookupA hf ix key :=
  ⟨_, openB_encode ix (encOk_of_build hf vs declared m kvs ix h hm hvs hnb hn),
    lookupB_encode hf ix (encOk_of_build hf vs declared m kvs ix h hm hvs hnb hn)
      (valsOk_of_build hf vs declared m kvs ix h hval)⟩

/-- the same, for whatever `Open` returned (`openB` is a function, so `db` is the one of `open_encode`) -/
theorem lookup_bytes_agree_db (hf : HF) (vs declared : Nat) (m : List (Bytes × Bytes)) (kvs : List KV) (ix : IndexA)
    (h : buildA hf vs declared m kvs = .ok ix)
    (hm : MetaOk m) (hvs : vs ≤ 255 - Generated.hashSize)
    (hnb : numBucketsFor declared < 2^32) (hn : kvs.length < 2^32)
    (hval : ∀ kv ∈ kvs, kv.val.length = vs)
    (db : DB) (hdb : openB (encode ix).toArray = .ok db) (key : Bytes) :
    lookupB hf (encode ix).toArray db key = lookupA hf ix key := by
  obtain ⟨db', hdb', hall⟩ := lookup_bytes_agree hf vs declared m kvs ix h hm hvs hnb hn hval
  rw [hdb] at hdb'
  cases hdb'
  exact hall key

/-- **C04 at the byte level: every inserted key is found with exactly its value by `Open` + `Lookup` over the
    sealed file.** -/
theorem build_lookup_bytes (hf : HF) (vs declared : Nat) (m : List (Bytes × Bytes)) (kvs : List KV) (ix : IndexA)
    (h : buildA hf vs declared m kvs = .ok ix)
    (hm : MetaOk m) (hvs : vs ≤ 255 - Generated.hashSize)
    (hnb : numBucketsFor declared < 2^32) (hn : kvs.length < 2^32)
    (hval : ∀ kv ∈ kvs, kv.val.length = vs) :
    ∃ db, openB (encode ix).toArray = .ok db ∧
      ∀ kv ∈ kvs, lookupB hf (encode ix).toArray db kv.key = .found kv.val := by
  obtain ⟨db, hdb, hall⟩ := lookup_bytes_agree hf vs declared m kvs ix h hm hvs hnb hn hval
  exact ⟨db, hdb, fun kv hkv => by rw [hall kv.key]; exact build_lookup hf vs declared m kvs ix h kv hkv⟩

/-- a hit of the byte-level reader is always an inserted pair from the same bucket with the same 24-bit hash -/
theorem lookup_sound_bytes (hf : HF) (vs declared : Nat) (m : List (Bytes × Bytes)) (kvs : List KV) (ix : IndexA)
    (h : buildA hf vs declared m kvs = .ok ix)
    (hm : MetaOk m) (hvs : vs ≤ 255 - Generated.hashSize)
    (hnb : numBucketsFor declared < 2^32) (hn : kvs.length < 2^32)
    (hval : ∀ kv ∈ kvs, kv.val.length = vs) :
    ∃ db, openB (encode ix).toArray = .ok db ∧
      ∀ key v, lookupB hf (encode ix).toArray db key = .found v →
        ∃ kv ∈ kvs, ∃ i b, hf.bucket key ix.numBuckets = some i ∧ hf.bucket kv.key ix.numBuckets = some i ∧
          ix.buckets[i]? = some b ∧ hf.entry b.nonce kv.key = hf.entry b.nonce key ∧ kv.val = v := by
  obtain ⟨db, hdb, hall⟩ := lookup_bytes_agree hf vs declared m kvs ix h hm hvs hnb hn hval
  exact ⟨db, hdb, fun key v hl => lookup_sound hf vs declared m kvs ix h key v (by rw [← hall key]; exact hl)⟩

/-- the byte-level versions for an arbitrary abstract index within the format limits (`CI.EncOk`: uint8 stride,
    uint32 counts and nonces, 24-bit hashes, uint48 offsets; `CI.ValsOk`: values of exactly `valueSize` bytes),
    not only for built ones — used by `build_perm` consumers that compare encodings -/
theorem lookup_bytes_agree_encOk (hf : HF) (ix : IndexA) (ok : EncOk ix) (hv : ValsOk ix) :
    ∃ db, openB (encode ix).toArray = .ok db ∧ ∀ key, lookupB hf (encode ix).toArray db key = lookupA hf ix key :=
  ⟨_, openB_encode ix ok, lookupB_encode hf ix ok hv⟩

/-! non-vacuity of the byte-level theorems: all hypotheses are jointly satisfiable (one key, 9-byte value, two
    metadata pairs, three buckets, toy hash), and the conclusion is then a hit with the inserted value; an absent key
    in another bucket is reported `notFound` by the byte-level reader too. -/
example : ∃ ix db, buildA toyHF 9 25000 [([1], [2, 3]), ([], [7])] [⟨[4,5], [1,2,3,4,5,6,7,8,9]⟩] = .ok ix ∧
    openB (encode ix).toArray = .ok db ∧ db.valueSize = 9 ∧ db.numBuckets = 3 ∧
    lookupB toyHF (encode ix).toArray db [4,5] = .found [1,2,3,4,5,6,7,8,9] := by
  obtain ⟨ix, h⟩ := build_singleton_ok toyHF 9 25000 [([1], [2, 3]), ([], [7])] ⟨[4,5], [1,2,3,4,5,6,7,8,9]⟩
    (by omega) (by omega) 2 (by decide) (by decide)
  have hm : MetaOk [([1], [2, 3]), ([], [7])] := by
    refine ⟨by decide, ?_⟩
    intro kv hkv
    simp only [List.mem_cons, List.mem_nil_iff, or_false] at hkv
    rcases hkv with rfl | rfl <;> decide
  obtain ⟨db, hdb, hall⟩ := build_lookup_bytes toyHF 9 25000 _ _ ix h hm (by decide) (by decide) (by decide)
    (by intro kv hkv; simp only [List.mem_cons, List.mem_nil_iff, or_false] at hkv; subst hkv; rfl)
  obtain ⟨db', hdb', e1, e2, _, _⟩ := open_encode toyHF 9 25000 _ _ ix h hm (by decide) (by decide) (by decide)
  rw [hdb] at hdb'; cases hdb'
  obtain ⟨f1, f2, _⟩ := buildA_ok toyHF 9 25000 _ _ ix h
  exact ⟨ix, db, h, hdb, by rw [e1, f1], by rw [e2, f2]; decide, hall ⟨[4,5], [1,2,3,4,5,6,7,8,9]⟩ (by simp)⟩

example : ∃ ix db, buildA toyHF 9 25000 [] [⟨[4,5], [1,2,3,4,5,6,7,8,9]⟩] = .ok ix ∧
    openB (encode ix).toArray = .ok db ∧ lookupB toyHF (encode ix).toArray db [4] = .notFound := by
  obtain ⟨ix, h⟩ := build_singleton_ok toyHF 9 25000 [] ⟨[4,5], [1,2,3,4,5,6,7,8,9]⟩
    (by omega) (by omega) 2 (by decide) (by decide)
  obtain ⟨db, hdb, hall⟩ := lookup_bytes_agree toyHF 9 25000 _ _ ix h ⟨by decide, by simp⟩ (by decide) (by decide)
    (by decide) (by intro kv hkv; simp only [List.mem_cons, List.mem_nil_iff, or_false] at hkv; subst hkv; rfl)
  refine ⟨ix, db, h, hdb, ?_⟩
  rw [hall]
  obtain ⟨_, f2, _⟩ := buildA_ok toyHF 9 25000 _ _ ix h
  have f3 : ix.numBuckets = 3 := by rw [f2]; decide
  have hlen := (bucket_mem_of_build toyHF 9 25000 _ _ ix h).1
  have hb : toyHF.bucket [4] ix.numBuckets = some 1 := by rw [f3]; decide
  have hget : ix.buckets[1]? = some ix.buckets[1] := List.getElem?_eq_getElem (by omega)
  cases hl : lookupA toyHF ix [4] with
  | found v =>
    obtain ⟨kv, hkv, i, b, h1, h2, _⟩ := lookup_sound toyHF 9 25000 _ _ ix h _ _ hl
    simp only [List.mem_cons, List.mem_nil_iff, or_false] at hkv
    subst hkv
    rw [f3] at h1 h2
    have e1 : i = 1 := (Option.some.inj h1).symm
    have e2 : i = 2 := (Option.some.inj h2).symm
    omega
  | notFound => rfl
  | hang => simp only [lookupA, hb, hget] at hl; split at hl <;> cases hl
  | err => simp only [lookupA, hb, hget] at hl; split at hl <;> cases hl

/-! ## the byte layer of the legacy formats (`deprecated/compactindex`, `deprecated/compactindex36`)

Same statement for the two formats the server still reads: the index is built with the value width of the format
(`legacyWidth f fileSize`: `intWidth(FileSize)` bytes for the 8-byte-offset format, 36 for the other) and written by
`CI.encodeLegacy` (fixed 32-byte header, no metadata).  Hypotheses: `FileSize` is a `uint64`, bucket and item
counts fit `uint32`, inserted values have exactly the format's width (the 8-byte format stores
`le width offset`, the 36-byte format 36-byte values).  The stride limit and the 48-bit offset limit are derived. -/

/-- legacy `Open` succeeds on the sealed file, and legacy `Lookup` answers, for EVERY key, exactly what the
    abstract reader answers -/
theorem lookup_bytes_agree_legacy (hf : HF) (f : Legacy) (fs declared : Nat) (m : List (Bytes × Bytes))
    (kvs : List KV) (ix : IndexA)
    (h : buildA hf (legacyWidth f fs) declared m kvs = .ok ix)
    (hfs : fs < 2^64) (hnb : numBucketsFor declared < 2^32) (hn : kvs.length < 2^32)
    (hval : ∀ kv ∈ kvs, kv.val.length = legacyWidth f fs) :
    ∃ db, openLegacy f (encodeLegacy f fs ix).toArray = some db ∧ db.fileSize = fs ∧ db.numBuckets = ix.numBuckets ∧
      ∀ key, lookupLegacy hf f (encodeLegacy f fs ix).toArray db key = lookupA hf ix key :=
  ⟨_, openLegacy_encode f fs ix (legOk_of_build hf f fs declared m kvs ix h hfs hnb hn), rfl, rfl,
    lookupLegacy_encode hf f fs ix (legOk_of_build hf f fs declared m kvs ix h hfs hnb hn)
      (valsOk_of_build hf _ declared m kvs ix h hval)⟩

/-- C04 for the legacy files: every inserted key is found with exactly its value by the legacy byte-level reader -/
theorem build_lookup_bytes_legacy (hf : HF) (f : Legacy) (fs declared : Nat) (m : List (Bytes × Bytes))
    (kvs : List KV) (ix : IndexA)
    (h : buildA hf (legacyWidth f fs) declared m kvs = .ok ix)
    (hfs : fs < 2^64) (hnb : numBucketsFor declared < 2^32) (hn : kvs.length < 2^32)
    (hval : ∀ kv ∈ kvs, kv.val.length = legacyWidth f fs) :
    ∃ db, openLegacy f (encodeLegacy f fs ix).toArray = some db ∧
      ∀ kv ∈ kvs, lookupLegacy hf f (encodeLegacy f fs ix).toArray db kv.key = .found kv.val := by
  obtain ⟨db, hdb, _, _, hall⟩ := lookup_bytes_agree_legacy hf f fs declared m kvs ix h hfs hnb hn hval
  exact ⟨db, hdb, fun kv hkv => by rw [hall kv.key]; exact build_lookup hf _ declared m kvs ix h kv hkv⟩

/-- a hit of the legacy byte-level reader is always an inserted pair from the same bucket with the same 24-bit hash -/
theorem lookup_sound_bytes_legacy (hf : HF) (f : Legacy) (fs declared : Nat) (m : List (Bytes × Bytes))
    (kvs : List KV) (ix : IndexA)
    (h : buildA hf (legacyWidth f fs) declared m kvs = .ok ix)
    (hfs : fs < 2^64) (hnb : numBucketsFor declared < 2^32) (hn : kvs.length < 2^32)
    (hval : ∀ kv ∈ kvs, kv.val.length = legacyWidth f fs) :
    ∃ db, openLegacy f (encodeLegacy f fs ix).toArray = some db ∧
      ∀ key v, lookupLegacy hf f (encodeLegacy f fs ix).toArray db key = .found v →
        ∃ kv ∈ kvs, ∃ i b, hf.bucket key ix.numBuckets = some i ∧ hf.bucket kv.key ix.numBuckets = some i ∧
          ix.buckets[i]? = some b ∧ hf.entry b.nonce kv.key = hf.entry b.nonce key ∧ kv.val = v := by
  obtain ⟨db, hdb, _, _, hall⟩ := lookup_bytes_agree_legacy hf f fs declared m kvs ix h hfs hnb hn hval
  exact ⟨db, hdb, fun key v hl => lookup_sound hf _ declared m kvs ix h key v (by rw [← hall key]; exact hl)⟩

/-! non-vacuity, both legacy formats at once: FileSize 70000 (three offset bytes in the 8-byte format), one key whose
    value is the format's encoding of offset 5 -/
example (f : Legacy) : ∃ ix db, buildA toyHF (legacyWidth f 70000) 25000 [] [⟨[4,5], le (legacyWidth f 70000) 5⟩] = .ok ix ∧
    openLegacy f (encodeLegacy f 70000 ix).toArray = some db ∧
    lookupLegacy toyHF f (encodeLegacy f 70000 ix).toArray db [4,5] = .found (le (legacyWidth f 70000) 5) := by
  have hw1 : 0 < legacyWidth f 70000 := by
    cases f with
    | l36 => simp [legacyWidth]
    | l8 =>
      simp only [legacyWidth]
      rw [show (70000:Nat) = 69999 + 1 from rfl, intWidth_succ]; omega
  have hw2 := legacyWidth_le f 70000 (by decide)
  obtain ⟨ix, h⟩ := build_singleton_ok toyHF (legacyWidth f 70000) 25000 [] ⟨[4,5], le (legacyWidth f 70000) 5⟩
    ⟨hw1, by omega⟩ (by omega) 2 (show toyHF.bucket [4,5] (numBucketsFor 25000) = some 2 by decide) (by decide)
  obtain ⟨db, hdb, hall⟩ := build_lookup_bytes_legacy toyHF f 70000 25000 _ _ ix h (by decide) (by decide) (by simp)
    (by intro kv hkv; simp only [List.mem_cons, List.mem_nil_iff, or_false] at hkv; subst hkv; exact le_length _ _)
  exact ⟨ix, db, h, hdb, hall ⟨[4,5], le (legacyWidth f 70000) 5⟩ (by simp)⟩

end C04

/-! Property C16 — theorems (statements live here, helper lemmas in Faithful/Lib) -/
namespace C16
end C16

import Faithful.Lib.SplitCar

/-!
# Property C16 — split CARs read back as the exact concatenation of their pieces

Model: `Faithful/Lib/SplitCar.lean` (+ `Faithful/Lib/Multi.lean`).  The driver `Driver/C16.lean` executes
`SplitCar.readAt`, `SplitCar.newReader`, `SplitCar.Reader.readAt`, `SplitCar.splitCmd` — the definitions
these theorems are about.

Reading adopted for "the sizes recorded in the metadata match the files written" (DESIGN.md §C16): the
recorded range `[HeaderSize, HeaderSize+ContentSize)` of a piece delimits exactly its block DAGs
(`split_sizes`, `split_content_range`); the file itself is longer (Subset / Epoch node appended), which is
the `tail` in `SplitCar.pieceFile`.
-/

namespace C16
open SplitCar
open Multi (Bytes want)

/-! ## MultiReaderAt.ReadAt -/

/-- Every reader holds its declared size (what `NewSplitCarReader` sets up).  For any number and sizes of
    pieces (zero-length ones included), any offset (also past the end) and any positive length: the bytes
    returned are the requested window of the concatenation, and io.EOF is returned iff the window is short. -/
theorem multiReadAt_spec (segs : List Bytes) (off len : Nat) (hne : segs ≠ []) (_hlen : 0 < len) :
    (readAt (segs.map Seg.exact) off len).1 = (segs.flatten.drop off).take len ∧
    ((readAt (segs.map Seg.exact) off len).2 = true ↔ ((segs.flatten.drop off).take len).length < len) := by
  have h := readAt_total segs off len
  refine ⟨h.1, ?_⟩
  rw [h.2]; unfold want
  exact ⟨fun x => x.2, fun x => ⟨hne, x⟩⟩

/-- The same without any hypothesis: the bytes are *always* the requested window; io.EOF iff the window is
    short *and there is at least one segment*.  (`len = 0`: a window of length 0 is never short.) -/
theorem multiReadAt_total (segs : List Bytes) (off len : Nat) :
    (readAt (segs.map Seg.exact) off len).1 = (segs.flatten.drop off).take len ∧
    ((readAt (segs.map Seg.exact) off len).2 = true ↔
      segs ≠ [] ∧ ((segs.flatten.drop off).take len).length < len) :=
  readAt_total segs off len

/-- "end-of-file reported only at the true end": io.EOF iff the requested range reaches past the last byte. -/
theorem multiReadAt_eof_iff_past_end (segs : List Bytes) (off len : Nat) (hne : segs ≠ []) (hlen : 0 < len) :
    (readAt (segs.map Seg.exact) off len).2 = true ↔ segs.flatten.length < off + len := by
  rw [(readAt_total segs off len).2, want_length]
  rcases Nat.le_total len (segs.flatten.length - off) with h1 | h1
  · rw [Nat.min_eq_left h1]
    constructor
    · intro h; have := h.2; omega
    · intro h; omega
  · rw [Nat.min_eq_right h1]
    constructor
    · intro h; have := h.2; omega
    · intro h; exact ⟨hne, by omega⟩

/-- and the number of bytes returned is `min len (total - off)` -/
theorem multiReadAt_count (segs : List Bytes) (off len : Nat) :
    (readAt (segs.map Seg.exact) off len).1.length = min len (segs.flatten.length - off) := by
  rw [(readAt_total segs off len).1, want_length]

/-- corner case excluded from `multiReadAt_spec`: a `MultiReaderAt` with no reader answers `(0, nil)` to
    every read, also to a non-empty one (short read without error).  Not reachable through
    `NewSplitCarReader`, which always supplies the header segment. -/
theorem multiReadAt_no_segments (off : Int) (len : Nat) : readAt [] off len = ([], false) :=
  readAt_nil off len

/-- corner case excluded from `multiReadAt_spec`: a zero-length read answers `(0, nil)` at every offset,
    also past the end (any size table, any reader contents). -/
theorem multiReadAt_len_zero (segs : List Seg) (off : Int) : readAt segs off 0 = ([], false) :=
  readAt_len_zero segs off

/-- a negative offset answers `(0, nil)` (no segment starts at or before it) -/
theorem multiReadAt_negative_offset (segs : List Seg) (off : Int) (len : Nat) (h : off < 0) :
    readAt segs off len = ([], false) :=
  readAt_neg segs off len h

/-! ## SplitCarReader -/

/-- when does `NewSplitCarReader` succeed (for local-file and in-memory readers) -/
theorem splitReader_new_ok_iff (md : Meta) (pieces : List PieceIn) :
    (∃ r, newReader md pieces = .ok r) ↔
      (Varint.put md.header.length ++ md.header).length = md.headerSize ∧
      ∀ p ∈ pieces, p.kind = RKind.file → p.file.length = p.headerSize + p.contentSize := by
  unfold newReader origHeader
  by_cases hh : (Varint.put md.header.length ++ md.header).length = md.headerSize
  · rw [if_pos hh]
    simp only [hh, true_and]
    rw [← checkPieces_none pieces 0]
    cases hc : checkPieces pieces 0 with
    | none => simp
    | some e => simp
  · rw [if_neg hh]
    constructor
    · intro ⟨r, hr⟩; cases hr
    · intro h; exact absurd h.1 hh

theorem newReader_segs (md : Meta) (pieces : List PieceIn) (r : Reader) (hnew : newReader md pieces = .ok r) :
    r.segs = Seg.exact (Varint.put md.header.length ++ md.header) ::
      pieces.map fun p => ⟨content p, p.contentSize⟩ := by
  unfold newReader origHeader at hnew
  simp only at hnew
  split at hnew
  · cases hnew
  · rename_i h heq
    split at heq
    · cases heq
      split at hnew
      · cases hnew
      · cases hnew; rfl
    · cases heq

/-- `SplitCarReader.ReadAt` = the window of (original header ‖ content of every piece in order), where the
    content of a piece is `file[HeaderSize, HeaderSize+ContentSize)`; io.EOF iff the window is short.
    Hypothesis `hsz`: every piece file is at least `HeaderSize+ContentSize` long (what `NewSplitCarReader`
    itself demands of local and remote files). -/
theorem splitReader_spec (md : Meta) (pieces : List PieceIn) (r : Reader)
    (hnew : newReader md pieces = .ok r)
    (hsz : ∀ p ∈ pieces, p.headerSize + p.contentSize ≤ p.file.length) (off len : Nat) :
    (r.readAt off len).1 =
      ((((Varint.put md.header.length ++ md.header) :: pieces.map content).flatten.drop off).take len) ∧
    ((r.readAt off len).2 = true ↔
      ((((Varint.put md.header.length ++ md.header) :: pieces.map content).flatten.drop off).take len).length < len) := by
  have hs := newReader_segs md pieces r hnew
  have hmap : (pieces.map fun p => (⟨content p, p.contentSize⟩ : Seg)) = (pieces.map content).map Seg.exact := by
    rw [List.map_map]
    apply List.map_congr_left
    intro p hp
    simp [Seg.exact, content_length p (hsz p hp)]
  have hsegs : r.segs = ((Varint.put md.header.length ++ md.header) :: pieces.map content).map Seg.exact := by
    rw [hs, hmap]; rfl
  unfold Reader.readAt
  rw [hsegs]
  have h := readAt_total ((Varint.put md.header.length ++ md.header) :: pieces.map content) off len
  refine ⟨h.1, ?_⟩
  rw [h.2]; unfold want
  exact ⟨fun x => x.2, fun x => ⟨by simp, x⟩⟩

/-! ## split-car -/

section
variable {α : Type} (size : α → Nat) (hdr target maxLinks : Nat)

/-- The pieces' DAG lists, concatenated in piece order, are the input list: every block DAG is in exactly
    one piece (the i-th DAG of the CAR is the i-th element of the concatenation), none is lost, duplicated,
    split or reordered. -/
theorem split_partition (ds : List α) :
    (split size hdr target maxLinks ds).flatMap Piece.dags = ds := by
  unfold split
  simpa using splitGo_partition size hdr target maxLinks ds none

/-- The recorded sizes: no piece is empty, the recorded file size is header + the DAG sections written to
    it, so `ContentSize` is exactly the sum of the section lengths of its DAGs. -/
theorem split_sizes (ds : List α) (p : Piece α) (hp : p ∈ split size hdr target maxLinks ds) :
    p.dags ≠ [] ∧ p.fileSize = hdr + dagSum size p.dags ∧ p.contentSize hdr = dagSum size p.dags := by
  have h := splitGo_good size hdr target maxLinks ds none (by intro c hc; cases hc) p hp
  refine ⟨h.1, h.2, ?_⟩
  unfold Piece.contentSize; rw [h.2]; omega

/-- The rollover rule's bound: the DAG that would cross the target opens the next piece, so a piece exceeds
    the target only if it holds a single DAG; and a piece holds at most `maxLinks + 1` DAGs. -/
theorem split_rollover (ds : List α) (p : Piece α) (hp : p ∈ split size hdr target maxLinks ds) :
    (p.fileSize ≤ target ∨ p.dags.length = 1) ∧ p.dags.length ≤ maxLinks + 1 :=
  ⟨splitGo_fits size hdr target maxLinks ds none (by intro c hc; cases hc) p hp,
   splitGo_links size hdr target maxLinks ds none (by intro c hc; cases hc) p hp⟩

/-- the command panics iff the CAR holds no block -/
theorem splitCmd_none_iff (ds : List α) : splitCmd size hdr target maxLinks ds = none ↔ ds = [] := by
  unfold splitCmd; cases ds <;> simp

end

theorem dagBytes_flatMap (ps : List (Piece Dag)) :
    (ps.map fun p => dagBytes p.dags).flatten = dagBytes (ps.flatMap Piece.dags) := by
  induction ps with
  | nil => rfl
  | cons p r ih =>
    simp only [List.map_cons, List.flatten_cons, List.flatMap_cons, ih]
    simp [dagBytes]

/-- Byte level, order and identity: the pieces' contents concatenated are the CAR's block DAG sections
    concatenated (the data part of the original CAR without its Subset / Epoch nodes). -/
theorem split_content_concat (hdr target maxLinks : Nat) (ds : List Dag) :
    ((split Dag.size hdr target maxLinks ds).map fun p => dagBytes p.dags).flatten = dagBytes ds := by
  rw [dagBytes_flatMap, split_partition]

/-- The recorded range delimits the content in the file written: whatever header `H` of the fixed size and
    whatever `tail` (Subset node, Epoch node) surround it, `file[HeaderSize, HeaderSize+ContentSize)` is
    exactly the piece's DAG sections, and the file is at least that long. -/
theorem split_content_range (target maxLinks : Nat) (ds : List Dag) (H tail : Bytes)
    (p : Piece Dag) (hp : p ∈ split Dag.size H.length target maxLinks ds) :
    B.slice (pieceFile H p tail) H.length (p.contentSize H.length) = dagBytes p.dags ∧
    H.length + p.contentSize H.length ≤ (pieceFile H p tail).length := by
  have hs := (split_sizes Dag.size H.length target maxLinks ds p hp).2.2
  have hl : (dagBytes p.dags).length = p.contentSize H.length := by rw [hs, dagBytes_length]
  unfold pieceFile
  constructor
  · rw [List.append_assoc]
    have := B.slice_append_right H (dagBytes p.dags ++ tail) 0 (p.contentSize H.length)
    rw [Nat.add_zero] at this
    rw [this, B.slice_append_left _ _ _ _ (by omega), ← hl]
    exact B.slice_self _
  · simp [List.length_append]; omega

/-- End to end: split a CAR, hand the written pieces and the recorded metadata to `NewSplitCarReader`
    (readers without the local-file size check, e.g. remote ones); then every read returns the window of
    original header ‖ all block DAG sections in CAR order, with io.EOF iff the window is short. -/
theorem split_then_read (md : Meta) (h : Bytes) (hh : origHeader md = some h)
    (hdr target maxLinks : Nat) (ds : List Dag)
    (H T : Piece Dag → Bytes) (hH : ∀ p, (H p).length = hdr) (off len : Nat) :
    let ins := (split Dag.size hdr target maxLinks ds).map fun p =>
      (⟨RKind.mem, hdr, p.contentSize hdr, pieceFile (H p) p (T p)⟩ : PieceIn)
    ∃ r, newReader md ins = .ok r ∧
      (r.readAt off len).1 = ((h ++ dagBytes ds).drop off).take len ∧
      ((r.readAt off len).2 = true ↔ (((h ++ dagBytes ds).drop off).take len).length < len) := by
  intro ins
  have hhe : h = Varint.put md.header.length ++ md.header := by
    unfold origHeader at hh; simp only at hh; split at hh
    · cases hh; rfl
    · cases hh
  have hhl : (Varint.put md.header.length ++ md.header).length = md.headerSize := by
    unfold origHeader at hh; simp only at hh; split at hh
    · assumption
    · cases hh
  have hok : ∃ r, newReader md ins = .ok r := by
    rw [splitReader_new_ok_iff]
    refine ⟨hhl, ?_⟩
    intro p hp hk
    simp only [ins, List.mem_map] at hp
    obtain ⟨q, _, rfl⟩ := hp
    cases hk
  obtain ⟨r, hr⟩ := hok
  refine ⟨r, hr, ?_⟩
  have hcontent : ∀ q ∈ split Dag.size hdr target maxLinks ds,
      content ⟨RKind.mem, hdr, q.contentSize hdr, pieceFile (H q) q (T q)⟩ = dagBytes q.dags ∧
      hdr + q.contentSize hdr ≤ (pieceFile (H q) q (T q)).length := by
    intro q hq
    have := split_content_range target maxLinks ds (H q) (T q) q (by rw [hH q]; exact hq)
    rw [hH q] at this
    exact this
  have hsz : ∀ p ∈ ins, p.headerSize + p.contentSize ≤ p.file.length := by
    intro p hp
    simp only [ins, List.mem_map] at hp
    obtain ⟨q, hq, rfl⟩ := hp
    exact (hcontent q hq).2
  have hflat : ((Varint.put md.header.length ++ md.header) :: ins.map content).flatten = h ++ dagBytes ds := by
    rw [List.flatten_cons, ← hhe]
    congr 1
    rw [← split_content_concat hdr target maxLinks ds]
    congr 1
    simp only [ins, List.map_map]
    apply List.map_congr_left
    intro q hq
    exact (hcontent q hq).1
  have hspec := splitReader_spec md ins r hr hsz off len
  rw [hflat] at hspec
  exact hspec

/-! ## non-vacuity -/

/-- three pieces, one of them empty; a read that spans all of them and runs past the end -/
example : readAt ([[1, 2], [], [3, 4, 5]].map Seg.exact) 1 10 = ([2, 3, 4, 5], true) := by decide
example : readAt ([[1, 2], [], [3, 4, 5]].map Seg.exact) 1 4 = ([2, 3, 4, 5], false) := by decide
example : readAt ([[1, 2], [], [3, 4, 5]].map Seg.exact) 7 1 = ([], true) := by decide
/-- the hypotheses of `multiReadAt_spec` are satisfiable and its conclusion is not trivially true:
    a window that is short and one that is not -/
example : ∃ segs : List Bytes, segs ≠ [] ∧ (readAt (segs.map Seg.exact) 0 3).2 = true ∧
    (readAt (segs.map Seg.exact) 0 2).2 = false := ⟨[[1], [2]], by decide, by decide, by decide⟩
/-- the excluded corner really differs from the spec: no segments, non-empty read, no EOF -/
example : (readAt [] 0 5).2 = false ∧ ((([] : List Bytes).flatten.drop 0).take 5).length < 5 := by decide
/-- a reader shorter than its declared size (outside `multiReadAt_spec`): the short read in the middle stops
    the walk, no EOF is reported -/
example : readAt [⟨[1], 3⟩, ⟨[9, 9], 2⟩] 0 4 = ([1], false) := by decide

/-- `splitReader_spec` instance: header of 2 bytes (uvarint 1 ‖ 0xa0), two pieces with their own headers
    skipped and trailing bytes ignored -/
example :
    (newReader ⟨[0xa0], 2⟩ [⟨.mem, 1, 2, [7, 1, 2, 8, 8]⟩, ⟨.file, 2, 1, [7, 7, 3]⟩]).toOption.map
      (fun r => (r.readAt 0 9, r.readAt 3 2)) = some (([1, 0xa0, 1, 2, 3], true), ([2, 3], false)) := by
  unfold newReader; rw [origHeader_a0]; decide
/-- a local file whose size is not HeaderSize+ContentSize is refused; a wrong recorded header size too -/
example : (newReader ⟨[0xa0], 2⟩ [⟨.file, 1, 2, [7, 1, 2, 8]⟩]).toOption.isNone = true := by
  unfold newReader; rw [origHeader_a0]; decide
example : (newReader ⟨[0xa0], 3⟩ []).toOption.isNone = true := by
  unfold newReader; rw [origHeader_a0]; decide

/-- the rollover rule on DAG sizes 30 30 50 10 100 10, header 10, target 75: the DAG that would cross
    opens the next piece; an oversized DAG gets a piece of its own -/
example : (split id 10 75 1000 [30, 30, 50, 10, 100, 10]).map (fun p => (p.dags, p.fileSize)) =
    [([30, 30], 70), ([50, 10], 70), ([100], 110), ([10], 20)] := by decide
/-- the link limit: `> maxLinks` is tested before appending, so a piece takes maxLinks+1 DAGs -/
example : (split id 10 1000 2 [1, 1, 1, 1, 1]).map (fun p => p.dags.length) = [3, 2] := by decide
example : splitCmd id 10 75 1000 ([] : List Nat) = none := by decide

end C16

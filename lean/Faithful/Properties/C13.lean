import Faithful.Lib.TruncReaders
import Faithful.Generated.ReadSites

/-!
# Property C13 — truncated index or CAR files fail loudly instead of answering "not found"

Every reader of an on-disk file is written as a `RA.Prog` (Faithful/Lib/TruncReaders.lean): a program whose only
access to the file is `read off len`, which fails when the range is not entirely inside the file — the contract
of `io.ReaderAt` / `io.ReadFull` the Go readers rely on.  For such programs

* `RA.truncation_safe`  : a cut anywhere gives the same answer or an error;
* `RA.truncation_exact` : … and exactly: the same answer iff the cut is at or after the last byte the lookup reads.

Whether the Go call sites really are of that shape (no short read is swallowed) is the generated fact
`readsites_ok`, re-extracted from the source on every run.

All statements are for EVERY file `f` (not only well-formed ones), every cut, every key, and — where a hash
function, zstd or a third-party decoder is involved — for an arbitrary one.
-/
namespace C13
open RA TR
open B (unle le slice)

/-! ## the generic facts, restated for an arbitrary reader -/

/-- never "not found", never another value: if the complete file answers `a`, a prefix answers `a` or fails -/
theorem found_stays_found_or_fails {α : Type} (p : Prog α) (f : List UInt8) (cut : Nat) (hc : cut ≤ f.length)
    (a : α) (h : run p f = .ok a) : run p (f.take cut) = .ok a ∨ ∃ e, run p (f.take cut) = .err e := by
  rcases truncation_safe p f cut hc with h1 | h1
  · left; rw [h1, h]
  · right; exact h1

/-- the sharper fact (`search_touches_prefix` in the design): the lookup of a stored key on the truncated file
    succeeds iff every byte it reads lies before the cut; otherwise it is a short-read error -/
theorem lookup_succeeds_iff_reads_before_cut {α : Type} (p : Prog α) (f : List UInt8) (cut : Nat) (hc : cut ≤ f.length)
    (a : α) (h : run p f = .ok a) :
    (run p (f.take cut) = .ok a ↔ hw p f ≤ cut) ∧ (cut < hw p f → run p (f.take cut) = .err "short read") :=
  ⟨succeeds_iff_reads_before_cut p f cut hc a h, fun hlt => (truncation_exact p f cut).2 hlt hc⟩

/-- what the driver executes (`runA` on an array and a cut) is `run` on the prefix -/
theorem driver_runs_the_prefix {α : Type} (p : Prog α) (a : Array UInt8) (n : Nat) :
    runA p a n = run p (a.toList.take n) := runA_eq p a n

/-! ## compact index (cid→offset-and-size, slot→cid, sig→cid, pubkey→offset-and-size: one format, four key/value sizes) -/

/-- `OpenWithReader_X` + `Get` on a file cut anywhere: the same answer or an error.
    `pre` = the old-format probe of the slot/sig readers, `chk` = the metadata checks of the wrapper, `hf` = the two
    hash functions — all arbitrary. -/
theorem C13_compact (pre : Bool) (chk : CI.DB → Option String) (hf : CI.HF) (key : Bytes)
    (f : Bytes) (cut : Nat) (hc : cut ≤ f.length) :
    run (ciGetP pre chk hf key) (f.take cut) = run (ciGetP pre chk hf key) f ∨
      ∃ e, run (ciGetP pre chk hf key) (f.take cut) = .err e :=
  truncation_safe _ f cut hc

/-- in particular a key the complete file finds is never reported `notFound` (nor found with another value) -/
theorem C13_compact_never_notfound (pre : Bool) (chk : CI.DB → Option String) (hf : CI.HF) (key v : Bytes)
    (f : Bytes) (cut : Nat) (hc : cut ≤ f.length) (h : run (ciGetP pre chk hf key) f = .ok (.found v)) :
    run (ciGetP pre chk hf key) (f.take cut) ≠ .ok .notFound ∧
    ∀ v', run (ciGetP pre chk hf key) (f.take cut) = .ok (.found v') → v' = v := by
  rcases found_stays_found_or_fails _ f cut hc _ h with h1 | ⟨e, h1⟩
  · rw [h1]; constructor
    · intro h2; cases h2
    · intro v' h2; cases h2; rfl
  · rw [h1]; constructor
    · intro h2; cases h2
    · intro v' h2; cases h2

/-- the stored key is still found on the prefix exactly when the cut is behind the last entry the eytzinger
    search touched (and behind the header and the bucket header) -/
theorem C13_compact_exact (pre : Bool) (chk : CI.DB → Option String) (hf : CI.HF) (key v : Bytes)
    (f : Bytes) (cut : Nat) (hc : cut ≤ f.length) (h : run (ciGetP pre chk hf key) f = .ok (.found v)) :
    run (ciGetP pre chk hf key) (f.take cut) = .ok (.found v) ↔ hw (ciGetP pre chk hf key) f ≤ cut :=
  succeeds_iff_reads_before_cut _ f cut hc _ h

/-- the `Prog` readers are the readers of Faithful/Lib/CompactIndex.lean (which C04 compares with the real code) -/
theorem C13_compact_is_the_C04_reader (hf : CI.HF) (f : Array UInt8) (db : CI.DB) (key : Bytes) :
    lookOf (run (ciLookupP hf db key) f.toList) = CI.lookupB hf f db key ∧
    resOk (run ciOpenP f.toList) = (match CI.openB f with | .ok db => some db | _ => none) :=
  ⟨ciLookup_agrees hf f db key, ciOpen_agrees f⟩

/-! ## sig-exists (bucketteer) -/

theorem C13_sigexists (chk : MetaKVs → Option String) (p x : Nat) (f : Bytes) (cut : Nat) (hc : cut ≤ f.length) :
    run (bkHasP chk p x) (f.take cut) = run (bkHasP chk p x) f ∨ ∃ e, run (bkHasP chk p x) (f.take cut) = .err e :=
  truncation_safe _ f cut hc

/-- a signature the complete index reports present is never reported absent by a truncated copy -/
theorem C13_sigexists_no_false_negative (chk : MetaKVs → Option String) (p x : Nat) (f : Bytes) (cut : Nat)
    (hc : cut ≤ f.length) (h : run (bkHasP chk p x) f = .ok true) : run (bkHasP chk p x) (f.take cut) ≠ .ok false := by
  rcases found_stays_found_or_fails _ f cut hc _ h with h1 | ⟨e, h1⟩ <;> rw [h1] <;> intro h2 <;> cases h2

/-! ## slot-to-blocktime -/

/-- repaired decoder (`io.ReadFull` per field, /verif/fixes/C13-1.patch): same value or an error -/
theorem C13_blocktime (slot : Nat) (f : Bytes) (cut : Nat) (hc : cut ≤ f.length) :
    run (btGetP slot) (f.take cut) = run (btGetP slot) f ∨ ∃ e, run (btGetP slot) (f.take cut) = .err e :=
  truncation_safe _ f cut hc

/-- **exact-size read**: the decoder needs all `46 + 4·capacity` bytes, so ANY cut inside the index is an open
    error — whatever slot is asked for -/
theorem C13_blocktime_any_cut_is_an_open_error (slot : Nat) (f : Bytes) (ix : BT) (h : run btOpenP f = .ok ix)
    (cut : Nat) (hc : cut ≤ f.length) (hlt : cut < 46 + 4 * ix.cap) :
    run (btGetP slot) (f.take cut) = .err "short read" := by
  have h1 : run btOpenP (f.take cut) = .err "short read" :=
    (truncation_exact btOpenP f cut).2 (Nat.lt_of_lt_of_le hlt (hw_btOpen h)) hc
  unfold btGetP
  rw [run_bind, h1]

/-- the server's load path reads exactly `size` bytes with one `ReadAt` BEFORE decoding: any cut is an error for
    every decoder, including the pinned one that accepts short fields -/
theorem C13_blocktime_server {α : Type} (size : Nat) (decode : Bytes → Res α) (f : Bytes) (cut : Nat) (hlt : cut < size) :
    run (exactThenP size decode) (f.take cut) = .err "short read" := by
  unfold exactThenP
  simp only [run]
  rw [readAt_take_none f cut 0 size (by omega)]

/-- the decoder of the pinned tree is NOT truncation safe: a file that lost its last byte decodes "successfully"
    and answers another block time for the last slot (capacity 1, time 0x01020304 → 0x020304) -/
theorem C13_blocktime_pinned_decoder_violates :
    ∃ (f : Bytes) (cut slot a b : Nat), cut ≤ f.length ∧ btGetPinned f slot = some a ∧
      btGetPinned (f.take cut) slot = some b ∧ a ≠ b :=
  ⟨Generated.blocktimeMagic ++ B.le 8 0 ++ B.le 8 0 ++ B.le 8 0 ++ B.le 8 1 ++ [4, 3, 2, 1], 49, 0, 0x01020304, 0x020304,
    by decide, by decide, by decide, by decide⟩

/-! ## gsfa: linked log, pubkey index, manifest -/

theorem C13_linkedlog (Z : Gsfa.Zstd) (off size : Nat) (f : Bytes) (cut : Nat) (hc : cut ≤ f.length) :
    run (llReadP Z off size) (f.take cut) = run (llReadP Z off size) f ∨ ∃ e, run (llReadP Z off size) (f.take cut) = .err e :=
  truncation_safe _ f cut hc

/-- a record is readable from the prefix iff it ends before the cut -/
theorem C13_linkedlog_exact (Z : Gsfa.Zstd) (off size : Nat) (f : Bytes) (cut : Nat) (hc : cut ≤ f.length)
    (a : List Gsfa.Entry × Gsfa.Ptr) (h : run (llReadP Z off size) f = .ok a) :
    run (llReadP Z off size) (f.take cut) = .ok a ↔ off + size ≤ cut := by
  have hh : hw (llReadP Z off size) f = off + size := by
    unfold llReadP at h ⊢
    by_cases h0 : size > Gsfa.mib256
    · simp [h0, run] at h
    · simp only [h0, if_false, hw, run] at h ⊢
      cases hr : readAt f off size with
      | none => rfl
      | some r =>
        simp only [hr] at h ⊢
        have := hw_llParse Z size r f
        omega
  rw [← hh]
  exact succeeds_iff_reads_before_cut _ f cut hc a h

/-- the whole walk of `GsfaReader.Get` over the log -/
theorem C13_linkedlog_walk (Z : Gsfa.Zstd) (fuel : Nat) (head : Gsfa.Ptr) (limit : Nat) (f : Bytes) (cut : Nat)
    (hc : cut ≤ f.length) :
    run (llWalkP Z fuel head limit []) (f.take cut) = run (llWalkP Z fuel head limit []) f ∨
      ∃ e, run (llWalkP Z fuel head limit []) (f.take cut) = .err e :=
  truncation_safe _ f cut hc

theorem C13_pubkeyindex (chk : CI.DB → Option String) (hf : CI.HF) (pk : Bytes) (f : Bytes) (cut : Nat) (hc : cut ≤ f.length) :
    run (ciGetP false chk hf pk) (f.take cut) = run (ciGetP false chk hf pk) f ∨
      ∃ e, run (ciGetP false chk hf pk) (f.take cut) = .err e :=
  truncation_safe _ f cut hc

/-- `GsfaReader.Get` with the index file AND the linked log cut (independently, anywhere): the same list or an
    error — in particular never an empty or shorter list for an address the complete index answers -/
theorem C13_gsfa_get (Z : Gsfa.Zstd) (chk : CI.DB → Option String) (hf : CI.HF) (fuel : Nat) (pk : Bytes) (limit : Nat)
    (idx log : Bytes) (ci cl : Nat) (hi : ci ≤ idx.length) (hl : cl ≤ log.length) :
    gsfaGet Z chk hf fuel pk limit (idx.take ci) (log.take cl) = gsfaGet Z chk hf fuel pk limit idx log ∨
      ∃ e, gsfaGet Z chk hf fuel pk limit (idx.take ci) (log.take cl) = .err e := by
  unfold gsfaGet
  by_cases h0 : limit = 0
  · simp [h0]
  · simp only [h0, if_false]
    rcases truncation_safe (ciGetP false chk hf pk) idx ci hi with h1 | ⟨e, h1⟩
    · rw [h1]
      cases hr : run (ciGetP false chk hf pk) idx with
      | err e => right; exact ⟨e, rfl⟩
      | ok look =>
        cases look with
        | hang => left; rfl
        | err => left; rfl
        | notFound => left; rfl
        | found v =>
          simp only
          by_cases hv : v.length ≠ 9
          · simp [hv]
          · simp only [hv, if_false]
            rcases truncation_safe (llWalkP Z fuel (Gsfa.ptrOfBytes v) limit []) log cl hl with h2 | ⟨e, h2⟩
            · rw [h2]; left; rfl
            · rw [h2]; right; exact ⟨e, rfl⟩
    · rw [h1]; right; exact ⟨e, rfl⟩

/-- gsfa manifest as the epoch loader uses it.  The opener is not a pure reader (an empty file gets a fresh header
    and opens), yet: if the complete manifest passes the loader's checks with `(epoch, root)`, a truncated copy
    passes them with the same values or the load fails — in particular the fresh header written into an empty file
    carries no epoch, so the load fails -/
theorem C13_manifest (wantEpoch : Nat) (wantRoot : Bytes) (f : Bytes) (cut : Nat) (hc : cut ≤ f.length)
    (v : Nat × Bytes) (h : manifestLoad wantEpoch wantRoot f = .ok v) :
    manifestLoad wantEpoch wantRoot (f.take cut) = .ok v ∨ ∃ e, manifestLoad wantEpoch wantRoot (f.take cut) = .err e := by
  have hver : ¬ Generated.manifestVersion < 2 := by decide
  by_cases hz : (f.take cut).length = 0
  · -- fresh header, empty metadata: the epoch is missing
    right
    unfold manifestLoad manifestOpen
    simp only [hz, if_true, hver, if_false]
    exact ⟨_, rfl⟩
  · have hfz : ¬ f.length = 0 := by
      intro h0; apply hz; simp [List.length_take, h0]
    unfold manifestLoad manifestOpen at h ⊢
    simp only [hz, hfz, if_false] at h ⊢
    rcases truncation_safe manHeaderP f cut hc with h1 | ⟨e, h1⟩
    · rw [h1]
      cases hr : run manHeaderP f with
      | err e => right; exact ⟨e, rfl⟩
      | ok hd =>
        rw [hr] at h
        by_cases c1 : hd.version ≠ Generated.manifestVersion
        · simp [c1] at h
        · simp only [c1, if_false] at h ⊢
          by_cases c2 : ((f.take cut).length - 16 - hd.metaSize) % 16 ≠ 0
          · right; rw [if_pos c2]; exact ⟨_, rfl⟩
          · by_cases c3 : (f.length - 16 - hd.metaSize) % 16 ≠ 0
            · simp [c3] at h
            · rw [if_neg c3] at h; rw [if_neg c2]
              left; exact h
    · rw [h1]; right; exact ⟨e, rfl⟩

/-! ## CAR -/

/-- `getNodeByCid`'s read of an indexed section (local file: `carv2.OpenReader` + `io.ReadFull`; `hdrOk` = the
    third-party header decoder, arbitrary) -/
theorem C13_car (hdrOk : Bytes → Bool) (off size : Nat) (want : Bytes) (f : Bytes) (cut : Nat) (hc : cut ≤ f.length) :
    run (carGetP hdrOk off size want) (f.take cut) = run (carGetP hdrOk off size want) f ∨
      ∃ e, run (carGetP hdrOk off size want) (f.take cut) = .err e :=
  truncation_safe _ f cut hc

/-- the remote path (`readNodeFromReaderAtWithOffsetAndSize`: one `ReadAt`, no header read): the object is
    delivered from a prefix iff its section ends before the cut -/
theorem C13_car_section_exact (off size : Nat) (want : Bytes) (f : Bytes) (cut : Nat) (hc : cut ≤ f.length)
    (d : Bytes) (h : run (carNodeP off size want) f = .ok d) :
    run (carNodeP off size want) (f.take cut) = .ok d ↔ off + size ≤ cut := by
  have hh : hw (carNodeP off size want) f = off + size := by
    unfold carNodeP at h ⊢
    by_cases h0 : size = 0
    · simp [h0, run] at h
    · simp only [h0, if_false, hw, run] at h ⊢
      cases hr : readAt f off size with
      | none => rfl
      | some r =>
        simp only [hr] at h ⊢
        have := hw_carParse want r f
        omega
  rw [← hh]
  exact succeeds_iff_reads_before_cut _ f cut hc d h

/-- `Epoch.GetNodeByCid` with the cid→offset-and-size index AND the CAR cut: the archived object or an error -/
theorem C13_epoch_get_node (hdrOk : Bytes → Bool) (chk : CI.DB → Option String) (hf : CI.HF) (cid : Bytes)
    (idx car : Bytes) (ci cc : Nat) (hi : ci ≤ idx.length) (hcar : cc ≤ car.length) :
    epochGetNode hdrOk chk hf cid (idx.take ci) (car.take cc) = epochGetNode hdrOk chk hf cid idx car ∨
      ∃ e, epochGetNode hdrOk chk hf cid (idx.take ci) (car.take cc) = .err e := by
  unfold epochGetNode
  rcases truncation_safe (ciGetP false chk hf cid) idx ci hi with h1 | ⟨e, h1⟩
  · rw [h1]
    cases hr : run (ciGetP false chk hf cid) idx with
    | err e => right; exact ⟨e, rfl⟩
    | ok look =>
      cases look with
      | hang => left; rfl
      | err => left; rfl
      | notFound => left; rfl
      | found v =>
        simp only
        by_cases hv : v.length ≠ 9
        · simp [hv]
        · simp only [hv, if_false]
          exact truncation_safe _ car cc hcar
  · rw [h1]; right; exact ⟨e, rfl⟩

/-- the section read agrees with `Car.nodeAt`, the function C01 compares with the real `GetNodeByCid` -/
theorem C13_car_is_the_C01_reader (car : Bytes) (off size : Nat) (want : Bytes) (hs : size ≠ 0) :
    resOk (run (carNodeP off size want) car) = Car.nodeAt car off size want := carNode_agrees car off size want hs

/-! ## the call sites: no read on an open/lookup path swallows a short read -/

/-- generated from the source on every run (harness/extract/readsites.go): every `ReadAt` / `io.ReadFull` / `Read` /
    `ReadByte` call in the reader files that lies on an open or lookup path either returns the error or compares
    the byte count with the buffer length.  The EOF-tolerant sites (prefetch in `GetBucket`, `Bucket.Load`,
    `isReaderEmpty`, `Manifest.readAllContent`) are listed by function in the extractor, each with the reason why it
    is not on a lookup path; for the prefetch the reason "bytes discarded" is itself checked (the buffer is not
    mentioned again after the read), so a change that starts serving lookups from that buffer puts the site back
    on the lookup path and breaks this `decide`. -/
theorem readsites_ok : ∀ s ∈ Generated.readSites, s.onLookupPath = true →
    (s.cls = .propagated ∨ s.cls = .comparedWithLen) := by decide

/-! ## non-vacuity -/

/-- constant hash functions: bucket 0, entry hash 5 -/
def hf0 : CI.HF := ⟨fun _ _ => some 0, fun _ _ => 5⟩

/-- a complete one-bucket, one-entry index (value size 1): hash 5 ↦ value [7] -/
def file0 : Bytes := CI.encode ⟨1, 1, [], [⟨0, #[(5, [7])]⟩]⟩

-- the complete file finds the key; cut inside the entry, the header or to nothing: an error, never `notFound`
example : run (ciGetP false (fun _ => none) hf0 [1, 2, 3]) file0 = .ok (.found [7]) := by decide
example : file0.length = 46 := by decide
example : run (ciGetP false (fun _ => none) hf0 [1, 2, 3]) (file0.take 45) = .err "short read" := by decide
example : run (ciGetP false (fun _ => none) hf0 [1, 2, 3]) (file0.take 20) = .err "short read" := by decide
example : run (ciGetP false (fun _ => none) hf0 [1, 2, 3]) (file0.take 0) = .err "short read" := by decide
example : hw (ciGetP false (fun _ => none) hf0 [1, 2, 3]) file0 = 46 := by decide
-- the same reader does answer `notFound` for an absent key (the hash differs), so `notFound` is a possible answer
example : run (ciGetP false (fun _ => none) ⟨fun _ _ => some 0, fun _ _ => 6⟩ [9]) file0 = .ok .notFound := by decide

-- blocktime: capacity 2, times 100 and 200 for slots 0 and 1
def bt0 : Bytes := Generated.blocktimeMagic ++ B.le 8 0 ++ B.le 8 1 ++ B.le 8 0 ++ B.le 8 2 ++ B.le 4 100 ++ B.le 4 200
example : run (btGetP 1) bt0 = .ok 200 := by decide
example : run (btGetP 0) (bt0.take 53) = .err "short read" := by decide   -- slot 0's own bytes are all there
example : run (exactThenP 54 (fun b => run (btGetP 1) b)) bt0 = .ok 200 := by decide

-- manifest: complete header with the epoch and a root, one tuple; the empty file gets a fresh header and the load fails
def man0 : Bytes := Generated.manifestMagic ++ B.le 8 5 ++ [2] ++ ([5] ++ Generated.metaKeyEpoch ++ [8] ++ B.le 8 7)
  ++ ([7] ++ Generated.metaKeyRootCid ++ [2, 1, 2]) ++ B.le 8 1 ++ B.le 8 2
example : manifestLoad 7 [1, 2] man0 = .ok (7, [1, 2]) := by decide
example : manifestOpen (man0.take 0) = .ok ⟨5, [], 1⟩ := by decide
example : manifestLoad 7 [1, 2] (man0.take 0) = .err "the gsfa index does not have the epoch metadata" := by decide
example : manifestLoad 7 [1, 2] (man0.take (man0.length - 16)) = .ok (7, [1, 2]) := by decide
example : manifestLoad 7 [1, 2] (man0.take (man0.length - 3)) = .err "manifest is corrupt" := by decide

-- CAR section read: a 1-byte header, one section (36-byte CID of zeroes, data [9]) at offset 2
def car0 : Bytes := [1, 0xa0] ++ ([37] ++ List.replicate 36 0 ++ [9])
example : run (carGetP (fun _ => true) 2 38 (List.replicate 36 0)) car0 = .ok [9] := by decide
example : run (carGetP (fun _ => true) 2 38 (List.replicate 36 0)) (car0.take 39) = .err "short read" := by decide
example : run (carGetP (fun _ => true) 2 38 (List.replicate 36 0)) (car0.take 1) = .err "short read" := by decide

-- sig-exists: a header with ONE prefix entry (prefix 0x0201 -> offset 0), one bucket holding the hash 77
def bk0 : Bytes :=
  B.le 4 35 ++ (Generated.bucketteerMagic ++ B.le 8 Generated.bucketteerVersion ++ [0] ++ B.le 8 1 ++ [1, 2] ++ B.le 8 0)
    ++ (B.le 4 1 ++ B.le 8 77)
example : run (bkHasP (fun _ => none) 513 77) bk0 = .ok true := by decide
example : run (bkHasP (fun _ => none) 513 78) bk0 = .ok false := by decide
example : run (bkHasP (fun _ => none) 513 77) (bk0.take (bk0.length - 1)) = .err "short read" := by decide
example : run (bkHasP (fun _ => none) 513 77) (bk0.take 20) = .err "short read" := by decide

-- linked log with the identity "compression": one record holding the entry (1, 2, 3, flags 0), no previous record
def zid : Gsfa.Zstd := ⟨id, some⟩
def ll0 : Bytes := [13, 1, 2, 3, 0] ++ List.replicate 9 0
example : run (llReadP zid 0 14) ll0 = .ok ([⟨1, 2, 3, 0⟩], ⟨0, 0⟩) := by decide
example : run (llReadP zid 0 14) (ll0.take 13) = .err "short read" := by decide
example : run (llWalkP zid 5 ⟨0, 14⟩ 10 []) ll0 = .ok [⟨1, 2, 3, 0⟩] := by decide

-- the read-site table is not empty and does contain sites that are exempt for a stated reason
example : Generated.readSites.length > 20 := by decide
example : (Generated.readSites.filter (fun s => !s.onLookupPath)).length = 4 := by decide

end C13

/-! Property C13 — theorems (statements live here, helper lemmas in Faithful/Lib) -/
namespace C13
end C13

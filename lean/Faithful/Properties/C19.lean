import Faithful.Lib.StreamProofs
import Faithful.Generated.Consts
/-!
# Property C19 — streaming a slot range returns exactly the archived items matching the filter

Model: `Faithful/Lib/Stream.lean` (the repaired control flow of grpc-server.go: fixes C19-1 … C19-6), executed by
`Driver/C19.lean` against the real `StreamBlocks` / `StreamTransactions` on every run.  All theorems are about the
definitions the driver executes, with the constants of the tree (`Generated.Consts`).

* `streamBlocks_spec`, `streamTx_spec`, `streamTx_spec_noinclude`, `gsfa_irrelevant_noinclude`: full strength.
* `streamTx_spec_partial`, `gsfa_irrelevant_partial`: the index (gsfa) path, under the hypothesis `WindowFits`
  (no included account has more than `batchSize` = 100 index entries at or after the start of the range in the epochs
  the query consults).  What is missing: the code asks the address index for at most 100 newest entries per account
  and never pages (known finding `C19:gsfa-window:GetBeforeUntilSlot(batch=100)`); `window_loses_transactions` shows
  the hypothesis cannot be dropped.
* `pinned_…`: the behaviour of the unrepaired tree, refuted on concrete inputs.
-/
namespace C19
open Stream

/-- the constants of the tree: slottools.EpochLen, `batchSize` of processSlotTransactions, maxSlotsToStream; `hb` says
whether the address-index reader honours `before` (measured by the harness; every theorem holds for both values) -/
def PP (hb : Bool) : Params := ⟨Generated.epochLen, Generated.streamGsfaBatchSize, Generated.maxSlotsToStream, hb⟩

variable {hb : Bool}
local notation "P" => PP hb

theorem flatMap_ite_singleton {α : Type} (p : α → Bool) (l : List α) :
    l.flatMap (fun b => if p b then [b] else []) = l.filter p := by
  induction l with
  | nil => rfl
  | cons x t ih => cases h : p x <;> simp [List.flatMap_cons, h, ih]

theorem blockFilter_iff (f : Option (List Acct)) (b : Block) : blockFilter f b = true ↔ blockWanted f b := by
  cases f with
  | none => simp [blockFilter, blockWanted]
  | some l =>
    simp only [blockFilter, blockWanted, blockContainsAccounts, Bool.or_eq_true, List.isEmpty_iff, List.any_eq_true,
      List.contains_iff_mem]

/-- **StreamBlocks**: exactly the archived blocks of the range that the filter wants, in ascending slot order;
slots without a block are skipped -/
theorem streamBlocks_spec {es : List Epoch} (h : WF P es) (lo : Nat) (hi : Option Nat) (f : Option (List Acct)) :
    streamBlocks P es lo hi f = (blocksIn es lo (endSlot P lo hi)).filter (fun b => decide (blockWanted f b)) := by
  unfold streamBlocks
  rw [scanRange_spec h, flatMap_ite_singleton]
  apply List.filter_congr
  intro b _
  rw [Bool.eq_iff_iff, blockFilter_iff, decide_eq_true_iff]

/-- the block scan with the property's predicate is the specification -/
theorem scan_is_spec {es : List Epoch} (h : WF P es) (lo hi : Nat) (f : Option Filter) (p : Tx → Bool)
    (hp : ∀ t, p t = true ↔ wantTx f t) :
    scanSlots P es (fun b => b.txs.filter p) lo (nSlots lo hi) = (txsIn es lo hi).filter (fun t => decide (wantTx f t)) := by
  rw [scanRange_spec h, txsIn, List.filter_flatMap]
  congr 1
  funext b
  apply List.filter_congr
  intro t _
  rw [Bool.eq_iff_iff, hp, decide_eq_true_iff]

/-- **StreamTransactions without an address index**: exactly the archived transactions of the range that satisfy
the filter, in ascending slot and position order -/
theorem streamTx_spec {es : List Epoch} (h : WF P es) (lo : Nat) (hi : Option Nat) (f : Option Filter) :
    streamTransactions P es lo hi f false =
      (txsIn es lo (endSlot P lo hi)).filter (fun t => decide (wantTx f t)) := by
  unfold streamTransactions streamTransactionsRange gsfaLoaded
  cases f with
  | none => exact scan_is_spec h _ _ none _ (sendScan_false_iff none)
  | some fl =>
    simp only [Bool.false_and, Bool.not_false, Bool.or_true, if_true]
    exact scan_is_spec h _ _ (some fl) _ (sendScan_false_iff (some fl))

/-- … and with an address index, for every filter without an include list (those take the block scan too) -/
theorem streamTx_spec_noinclude {es : List Epoch} (h : WF P es) (lo : Nat) (hi : Option Nat) (f : Option Filter)
    (hinc : ∀ fl, f = some fl → fl.inc = []) (gsfa : Bool) :
    streamTransactions P es lo hi f gsfa =
      (txsIn es lo (endSlot P lo hi)).filter (fun t => decide (wantTx f t)) := by
  unfold streamTransactions streamTransactionsRange
  cases f with
  | none => exact scan_is_spec h _ _ none _ (sendScan_of_no_include _ none hinc)
  | some fl =>
    have : fl.inc = [] := hinc fl rfl
    simp only [this, List.isEmpty_nil, Bool.true_or, if_true]
    exact scan_is_spec h _ _ (some fl) _ (sendScan_of_no_include _ (some fl) hinc)

/-- **StreamTransactions, any configuration** — partial: the index path needs `WindowFits`.
Missing for full strength: paging through the address index (the code asks once for `batchSize` entries). -/
theorem streamTx_spec_partial {es : List Epoch} (h : WF P es) (lo : Nat) (hi : Option Nat) (f : Option Filter) (gsfa : Bool)
    (hfit : ∀ fl, f = some fl → gsfa = true → WindowFits P es lo (endSlot P lo hi) fl) :
    streamTransactions P es lo hi f gsfa =
      (txsIn es lo (endSlot P lo hi)).filter (fun t => decide (wantTx f t)) := by
  cases gsfa with
  | false => exact streamTx_spec h lo hi f
  | true =>
    cases f with
    | none => exact streamTx_spec_noinclude h lo hi none (fun _ hh => by cases hh) true
    | some fl =>
      by_cases hinc : fl.inc = []
      · exact streamTx_spec_noinclude h lo hi (some fl) (fun fl' hh => by cases hh; exact hinc) true
      · unfold streamTransactions streamTransactionsRange
        have hne : fl.inc.isEmpty = false := by
          cases hie : fl.inc.isEmpty with
          | false => rfl
          | true => exact absurd (List.isEmpty_iff.1 hie) hinc
        cases hl : gsfaLoaded P es true lo (endSlot P lo hi) with
        | false =>
          simp only [hne, Bool.not_false, Bool.or_true, if_true]
          exact scan_is_spec h _ _ (some fl) _ (sendScan_false_iff (some fl))
        | true =>
          simp only [hne, Bool.not_true, Bool.or_false, Bool.false_eq_true, if_false]
          rw [index_eq_scan h _ _ fl hinc (hfit fl rfl rfl)]
          exact scan_is_spec h _ _ (some fl) _ (sendScan_false_iff (some fl))

/-- **the address index is irrelevant** for filters without an include list -/
theorem gsfa_irrelevant_noinclude {es : List Epoch} (h : WF P es) (lo : Nat) (hi : Option Nat) (f : Option Filter)
    (hinc : ∀ fl, f = some fl → fl.inc = []) :
    streamTransactions P es lo hi f true = streamTransactions P es lo hi f false := by
  rw [streamTx_spec_noinclude h lo hi f hinc true, streamTx_spec h]

/-- **the address index is irrelevant** — partial: under `WindowFits` (see `streamTx_spec_partial`) -/
theorem gsfa_irrelevant_partial {es : List Epoch} (h : WF P es) (lo : Nat) (hi : Option Nat) (f : Option Filter)
    (hfit : ∀ fl, f = some fl → WindowFits P es lo (endSlot P lo hi) fl) :
    streamTransactions P es lo hi f true = streamTransactions P es lo hi f false := by
  rw [streamTx_spec_partial h lo hi f true (fun fl hf _ => hfit fl hf), streamTx_spec h]

/-- the order in which the goroutines of the index path fill the buffer does not matter -/
theorem flush_order_irrelevant {es : List Epoch} (h : WF P es) (buf buf' : List Tx) (ha : Archived es buf)
    (hperm : ∀ t, t ∈ buf' ↔ t ∈ buf) (lo hi : Nat) : flush buf' lo hi = flush buf lo hi := by
  have ha' : Archived es buf' := fun t ht => ha t ((hperm t).1 ht)
  unfold flush
  rw [flushSlots_eq_scan h buf ha, flushSlots_eq_scan h buf' ha']
  apply scanSlots_congr
  intro s _ _ b _
  apply List.filter_congr
  intro t _
  rw [Bool.eq_iff_iff, decide_eq_true_iff, decide_eq_true_iff]
  exact hperm t

/-- the filter closure is the property's predicate (scan path) -/
theorem matchesFilter_is_wantTx (f : Option Filter) (t : Tx) : sendScan false f t = true ↔ wantTx f t :=
  sendScan_false_iff f t

/-! ## a concrete archive (non-vacuity) -/

/-- two consecutive epochs; slot 432001 is skipped; account 7 is only table-loaded in the first transaction -/
def exEs : List Epoch :=
  [ { num := 0, blocks := [ { slot := 431998, txs := [ ⟨431998, 0, [1, 2], [7], false, false⟩, ⟨431998, 1, [2, 3], [], true, false⟩ ] },
                            { slot := 431999, txs := [ ⟨431999, 0, [3, 7], [], false, true⟩ ] } ] },
    { num := 1, blocks := [ { slot := 432000, txs := [ ⟨432000, 0, [1, 7], [], false, false⟩ ] },
                            { slot := 432002, txs := [ ⟨432002, 0, [2], [], true, true⟩, ⟨432002, 1, [7, 1], [], false, false⟩ ] } ] } ]

theorem exEs_wf : WF P exEs := by
  cases hb <;> refine ⟨by decide, by decide, by decide, by decide, by decide, by decide⟩

def exFilter : Filter := { vote := some false, failed := none, inc := [7], exc := [3], req := [1] }

theorem exFilter_fits : WindowFits P exEs 431998 432002 exFilter := by
  intro a ha
  simp only [exFilter, List.mem_singleton] at ha
  subst ha
  cases hb <;> decide

example : streamBlocks P exEs 431998 (some 432002) (some [3]) = [exEs[0].blocks[0], exEs[0].blocks[1]] := by cases hb <;> decide
example : (streamBlocks P exEs 431999 (some 432002) none).map (·.slot) = [431999, 432000, 432002] := by cases hb <;> decide
example : (streamTransactions P exEs 431998 (some 432002) none false).map (fun t => (t.slot, t.pos)) =
    [(431998, 0), (431998, 1), (431999, 0), (432000, 0), (432002, 0), (432002, 1)] := by cases hb <;> decide
example : (streamTransactions P exEs 431998 (some 432002) (some exFilter) false).map (fun t => (t.slot, t.pos)) =
    [(431998, 0), (432000, 0), (432002, 1)] := by cases hb <;> decide
/-- the index path is really taken (readers non-empty, include list non-empty) and gives the same answer -/
example : gsfaLoaded P exEs true 431998 432002 = true ∧
    streamTransactions P exEs 431998 (some 432002) (some exFilter) true =
      streamTransactions P exEs 431998 (some 432002) (some exFilter) false := by cases hb <;> decide
example : streamTransactions P exEs 431998 (some 432002) (some exFilter) true =
    (txsIn exEs 431998 432002).filter (fun t => decide (wantTx (some exFilter) t)) :=
  streamTx_spec_partial exEs_wf 431998 (some 432002) (some exFilter) true (fun fl hf _ => by cases hf; exact exFilter_fits)
example : ∃ t, wantTx (some exFilter) t ∧ ∃ t', ¬ wantTx (some exFilter) t' := by
  refine ⟨⟨431998, 0, [1, 2], [7], false, false⟩, by decide, ⟨431999, 0, [3, 7], [], false, true⟩, by decide⟩

/-! ## the window hypothesis cannot be dropped (known finding) -/

/-- one epoch, one block: `batchSize + 1` transactions of account 7 in slot 432000 -/
def busyEs : List Epoch :=
  [ { num := 1, blocks := [ { slot := 432000, txs := (List.range (Generated.streamGsfaBatchSize + 1)).map fun i => ⟨432000, i, [7], [], false, false⟩ } ] } ]

def busyFilter : Filter := { vote := none, failed := none, inc := [7], exc := [], req := [] }

/-- with the address index the stream over slot 432000 lacks the first transaction of the block (the walk stops
after the `batchSize` newest entries), without it the stream is complete — whether or not the reader honours `before` -/
theorem window_loses_transactions :
    (streamTransactions P busyEs 432000 (some 432000) (some busyFilter) true).length = Generated.streamGsfaBatchSize ∧
    (streamTransactions P busyEs 432000 (some 432000) (some busyFilter) false).length = Generated.streamGsfaBatchSize + 1 ∧
    ⟨432000, 0, [7], [], false, false⟩ ∉ streamTransactions P busyEs 432000 (some 432000) (some busyFilter) true := by
  cases hb <;> decide

/-- on the pinned reader (`before` not honoured) entries *behind* the range use up the window as well: a
transaction of slot 432000 is lost to `batchSize` entries of slot 432001 -/
theorem window_loses_transactions_behind_range :
    streamTransactions (PP false)
      [ { num := 1, blocks := [ { slot := 432000, txs := [ ⟨432000, 0, [7], [], false, false⟩ ] },
                                { slot := 432001, txs := (List.range Generated.streamGsfaBatchSize).map fun i => ⟨432001, i, [7], [], false, false⟩ } ] } ]
      432000 (some 432000) (some busyFilter) true = [] := by
  decide

/-! ## the pinned tree -/

/-- defect 1 (polarity): with no filter nothing is sent although every transaction is wanted -/
theorem pinned_polarity_wrong : ∃ f t, sendPinned false f t ≠ .ok (decide (wantTx f t)) :=
  ⟨none, ⟨1, 0, [], [], false, false⟩, by decide⟩

theorem pinned_nil_filter_sends_nothing (g : Bool) (t : Tx) : sendPinned g none t = .ok false := rfl

/-- defect 1: a filter that excludes vote transactions sends exactly those -/
theorem pinned_vote_false_sends_votes (g : Bool) (f : Filter) (t : Tx) (hv : f.vote = some false) (ht : t.isVote = true) :
    sendPinned g (some f) t = .ok true := by
  simp [sendPinned, filterOutTxnPinned, hv, ht]

/-- defect 3: an absent optional flag is dereferenced -/
theorem pinned_absent_flag_panics (g : Bool) (f : Filter) (t : Tx) (hv : f.vote = none) : sendPinned g (some f) t = .panic := by
  simp [sendPinned, filterOutTxnPinned, hv]

/-- defect 4: `failed = false` treats every transaction as failed; combined with the inverted send sites every
non-vote transaction is sent, failed or not -/
theorem pinned_failed_false_ignores_status (g : Bool) (f : Filter) (t : Tx) (hv : f.vote = some true) (hf : f.failed = some false) :
    sendPinned g (some f) t = .ok true := by
  simp [sendPinned, filterOutTxnPinned, hv, hf]

/-- defect 2: the pinned block scan ends at the first slot without a block -/
theorem pinned_scan_stops_at_gap :
    scanSlotsPinned P exEs (fun b => b.txs) 432000 (nSlots 432000 432002) ≠ txsIn exEs 432000 432002 := by cases hb <;> decide

/-- the repaired loop on the same input -/
example : scanSlots P exEs (fun b => b.txs) 432000 (nSlots 432000 432002) = txsIn exEs 432000 432002 := by cases hb <;> decide

/-- defect 7 (found by the harness): the pinned closure looks at static keys only, so an excluded account that is
table-loaded is not seen -/
theorem pinned_ignores_loaded_accounts :
    ∃ f t, (∃ a ∈ f.exc, a ∈ t.accts) ∧ filterOutTxnPinned true (some f) t = .ok true :=
  ⟨{ vote := some true, failed := some true, inc := [], exc := [7], req := [] }, ⟨1, 0, [1], [7], false, false⟩, by decide⟩

end C19

/-! Property C19 — theorems (statements live here, helper lemmas in Faithful/Lib) -/
namespace C19
end C19

/-! Property C09 — theorems (statements live here, helper lemmas in Faithful/Lib) -/
namespace C09
end C09

import Faithful.Lib.RWSys
import Faithful.Lib.EpochSet
import Faithful.Generated.LockPrograms

/-!
# Property C09 — queries and epoch reloads never deadlock and see a consistent epoch set

*Lock part.*  `Generated.lockPrograms` is the translation (by /verif/harness/extract/lockprogs.go, on every run) of
every package-main function that reaches `MultiEpoch.mu` into its sequence of lock events and calls.
`generated_nonnesting` decides that each of them, with all calls inlined, is a sequence of non-nested critical
sections; `nonnesting_deadlock_free` / `every_schedule_can_finish` prove for ANY number of goroutines running any
such programs under ANY interleaving that no reachable state is stuck and every schedule ends with all operations
completed; `nested_rlock_can_deadlock` is the converse for the shape the pinned tree had.

*Epoch-set part.*  `EpochSet.step` models the five writers, `EpochSet.numbers` etc. the readers (each runs in one
critical section, so a concurrent history is a sequence of them): the listing is strictly descending for every
history, and an epoch no writer addresses is returned unchanged by every read and is never closed.

Assumed, not proved (props/C09.json): the semantics of `sync.RWMutex` (writer preference), the extractor.
-/
namespace C09
open RW

/-! ## the translated lock programs -/

def conv : Generated.LEv → Ev
  | .rlock => .rlock | .runlock => .runlock | .lock => .lock | .unlock => .unlock
  | .call f => .call f | .unknown => .unknown

/-- the call table -/
def table : List (List Ev) := Generated.lockPrograms.map (·.map conv)

/-- call depth cannot exceed the number of functions unless there is recursion (then `inline` gives `none`) -/
def fuel : Nat := Generated.lockPrograms.length

/-- a translated program with every `.call f` resolved; `none` = recursion, `.unknown`, or a dangling call -/
def inline (p : List Generated.LEv) : Option (List Op) := inlineEv table fuel (p.map conv)

/-- **Regenerated obligation**: every function of package main that reaches `MultiEpoch.mu` — handlers, accessors,
    writers, the start-up loader goroutine, the fsnotify callback — runs a sequence of non-nested critical sections,
    and nothing it calls while holding the lock is unknown to the extractor. -/
theorem generated_nonnesting : ∀ p ∈ Generated.lockPrograms, nonNestingB (inline p) = true := by decide

/-- the lock program of the function with id `f` (empty for ids outside the table) -/
def progOf (f : Nat) : List Op := ((Generated.lockPrograms[f]?).bind inline).getD []

theorem progOf_nonnesting (f : Nat) : NonNesting (progOf f) := by
  unfold progOf
  cases h : Generated.lockPrograms[f]? with
  | none => simp [Pairs]
  | some p =>
    have hp := generated_nonnesting p (List.mem_of_getElem? h)
    obtain ⟨q, hq, hn⟩ := (nonNestingB_iff _).1 hp
    simp [hq, hn]

/-- a goroutine that calls any sequence of extracted functions, one after the other (a request worker serving
    requests, the loader adding epochs, the watcher handling file events …) -/
def threadProg (calls : List Nat) : List Op := (calls.map progOf).flatten

theorem threadProg_nonnesting (calls : List Nat) : NonNesting (threadProg calls) :=
  pairs_flatten (by
    intro p hp
    obtain ⟨f, _, rfl⟩ := List.mem_map.1 hp
    exact progOf_nonnesting f)

/-! ## deadlock freedom -/

/-- **Any number of threads, any non-nesting programs, any interleaving**: a reachable state that is not finished
    has an enabled step. -/
theorem nonnesting_deadlock_free (ps : List (List Op)) (h : ∀ p ∈ ps, NonNesting p) :
    ∀ s, Reachable ps s → finished s = false → ∃ s', Step s s' :=
  RW.nonnesting_deadlock_free ps h

/-- **Every operation completes**: every schedule from a reachable state `s` has at most `work s` steps
    (`schedule_bounded`), and from every reachable state the all-finished state can be reached — together with
    deadlock freedom: however the scheduler continues, it ends, and it ends with every program finished. -/
theorem every_schedule_can_finish (ps : List (List Op)) (h : ∀ p ∈ ps, NonNesting p) :
    ∀ s, Reachable ps s → ∃ n s', Steps n s s' ∧ finished s' = true :=
  RW.every_schedule_can_finish ps h

theorem schedule_bounded {n : Nat} {s s' : St} (h : Steps n s s') : n + work s' ≤ work s :=
  RW.schedule_bounded h

theorem maximal_schedule_finished (ps : List (List Op)) (h : ∀ p ∈ ps, NonNesting p) {n : Nat} {s : St}
    (hs : Steps n (initSt ps) s) (hmax : ∀ s', ¬ Step s s') : finished s = true :=
  RW.maximal_schedule_finished ps h hs hmax

/-- **The server**: any number of goroutines, each calling any sequence of the functions extracted from the tree,
    never reach a stuck state … -/
theorem generated_system_deadlock_free (threads : List (List Nat)) :
    ∀ s, Reachable (threads.map threadProg) s → finished s = false → ∃ s', Step s s' :=
  RW.nonnesting_deadlock_free _ (by
    intro p hp
    obtain ⟨c, _, rfl⟩ := List.mem_map.1 hp
    exact threadProg_nonnesting c)

/-- … and all their calls complete. -/
theorem generated_system_completes (threads : List (List Nat)) :
    ∀ s, Reachable (threads.map threadProg) s → ∃ n s', Steps n s s' ∧ finished s' = true :=
  RW.every_schedule_can_finish _ (by
    intro p hp
    obtain ⟨c, _, rfl⟩ := List.mem_map.1 hp
    exact threadProg_nonnesting c)

/-- **The defect of the pinned tree, formally**: `RLock; RLock; RUnlock; RUnlock` against one writer reaches a
    state where nobody is finished and nobody can move. -/
theorem nested_rlock_can_deadlock :
    ∃ s, Reachable [nestedProg, writerProg] s ∧ finished s = false ∧ ∀ s', ¬ Step s s' :=
  RW.nested_rlock_can_deadlock

/-! non-vacuity: three threads (two readers, one writer) satisfy the hypotheses; the table is not empty and
    contains real critical sections; inlining really resolves calls -/
example : ∀ p ∈ [[Op.rlock, .runlock, .rlock, .runlock], [.lock, .unlock], [.rlock, .runlock]], NonNesting p := by
  decide
example : Reachable [[Op.rlock, .runlock], [.lock, .unlock]] (initSt [[Op.rlock, .runlock], [.lock, .unlock]]) :=
  Reachable.init
example : finished (initSt [[Op.rlock, .runlock], [.lock, .unlock]]) = false := by decide
example : Generated.lockPrograms.length > 20 := by decide
example : ∃ f, progOf f = [.lock, .unlock] := ⟨0, by decide⟩
example : (Generated.lockPrograms.any fun p => p.length == 1 && inline p == some [.rlock, .runlock]) = true := by
  decide
/-- the check is not trivially true: the pinned tree's shape, an `.unknown` under the lock and a recursive
    function are all rejected -/
example : nonNestingB (inlineEv [[.rlock, .call 1, .runlock], [.rlock, .runlock]] 2 [.call 0]) = false := by decide
example : nonNestingB (inlineEv [] 2 [.lock, .unknown, .unlock]) = false := by decide
example : nonNestingB (inlineEv [[.call 0]] 5 [.call 0]) = false := by decide
example : nonNestingB (inlineEv [[.rlock, .runlock], [.call 0, .call 0]] 2 [.call 1]) = true := by decide

/-! ## the epoch set -/
open EpochSet

/-- **The list of available epochs is always duplicate-free and sorted newest first**: after any sequence of
    AddEpoch / ReplaceEpoch / ReplaceOrAddEpoch / RemoveEpoch / RemoveEpochByConfigFilepath (any map iteration
    order), `GetEpochNumbers` is strictly descending. -/
theorem epoch_numbers_sorted_nodup (ops : List EpochOp) : (numbers (run {} ops)).Pairwise (· > ·) :=
  numbers_strict_desc (wf_run wf_empty ops)

/-- the listing is exactly the set of loaded epochs -/
theorem epoch_numbers_complete (ops : List EpochOp) (e : Nat) :
    e ∈ numbers (run {} ops) ↔ hasEpoch (run {} ops) e = true :=
  mem_numbers _ e

/-- `GetMostRecentAvailableEpoch` (getSlot) answers with the loaded epoch of the largest number -/
theorem most_recent_is_newest (ops : List EpochOp) (v : Ep) (hv : mostRecent (run {} ops) = some v) :
    ∃ e, getEpoch (run {} ops) e = some v ∧ ∀ e', hasEpoch (run {} ops) e' = true → e' ≤ e :=
  mostRecent_spec (wf_run wf_empty ops) hv

/-- **A query addressed to an epoch that stays loaded behaves as on an idle server**: if no writer of the history
    is addressed to epoch `e` (or its config file), every read of `e` at every point of the history returns the
    object loaded at the start. -/
theorem stable_epoch_unaffected (s : EpochSet.St) (e : Nat) (v : Ep) (hl : getEpoch s e = some v)
    (ops : List EpochOp) (h : ∀ op ∈ ops, ¬ touches e op) :
    ∀ k, getEpoch (run s (ops.take k)) e = some v :=
  EpochSet.stable_epoch_unaffected s e v hl ops h

/-- **No loaded epoch is ever closed** (so no query runs on closed files): along every history whose writers are
    handed fresh epoch objects, the objects in the map are pairwise distinct and none has had `Close()` called. -/
theorem loaded_never_closed (ops : List EpochOp) (hf : FreshRun {} ops) : LiveOpen (run {} ops) :=
  EpochSet.loaded_never_closed liveOpen_empty hf

/-! non-vacuity -/
def ep (i : Nat) : Ep := { id := i, path := "p", gsfa := false, sig := false }
example : (numbers (run {} [.add 3 (ep 1), .add 7 (ep 2), .add 3 (ep 3), .remove 9])).length = 2 := by
  rw [length_numbers]; decide
example : getEpoch (run {} [.add 3 (ep 1)]) 3 = some (ep 1) ∧
    ∀ op ∈ [EpochOp.add 3 (ep 9), .replaceOrAdd 4 (ep 2), .remove 5, .removeByConfig "q" (some 4)], ¬ touches 3 op := by
  decide
example : FreshRun {} [.add 3 (ep 1), .replaceOrAdd 3 (ep 2), .removeByConfig "p" (some 3)] := by
  refine .cons ?_ (.cons ?_ (.cons ?_ (.nil _)))
  · simp [freshOp, EpochSet.lookup]
  · refine ⟨fun e' v' h => ?_, by simp [step, EpochSet.lookup]⟩
    have hs : (step {} (.add 3 (ep 1))).m = EpochSet.insert 3 (ep 1) [] := by decide
    rw [hs, lookup_insert] at h
    split at h
    · cases h; simp [ep]
    · cases h
  · trivial
example : (run {} [.add 3 (ep 1), .replaceOrAdd 3 (ep 2), .removeByConfig "p" (some 3)]).closed = [1, 2] := by decide

end C09

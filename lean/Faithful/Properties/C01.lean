/-! Property C01 — theorems (statements live here, helper lemmas in Faithful/Lib) -/
namespace C01
end C01

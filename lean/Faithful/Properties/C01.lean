import Faithful.Lib.IndexAll
import Faithful.Properties.C04

/-!
# C01 — every archived object, slot and signature resolves through the generated indexes

The CAR is `Car.encode hdr secs` (any header bytes, any list of sections); `IndexAll.build` is the model of
`createAllIndexes`; the lookups are the models of `Epoch.GetNodeByCid`, `FindCidFromSlot`,
`FindCidFromSignature`, the block-time index and the sig-exists writer input.  Everything is stated for an
arbitrary hash pair `hf` and an arbitrary node-info extractor `info` (CBOR decoding is C11's subject).
"Index generation never reports success while leaving a lookup missing or wrong" is exactly the shape
`build … = .ok ix → ∀ object, lookup = that object`.
-/
namespace C01
open B CI Car IndexAll

/-- every object of the CAR can be fetched by its CID and the bytes returned are exactly that object's bytes:
    any number of sections, any section sizes (1-, 2-, 3-, 4-byte length varints), any header length. -/
theorem C01_objects (hf : HF) (info : Bytes → Info) (hdr : Bytes) (secs : List Sec) (a b c : Nat) (ix : IndexSet)
    (hwf : ∀ s ∈ secs, s.cid.length = 36)
    (h : build hf info hdr.length secs a b c = .ok ix) (i : Nat) (hi : i < secs.length) :
    getNodeByCid hf ix (Car.encode hdr secs) secs[i].cid = .ok secs[i].data := by
  obtain ⟨hsmall, hc, _, _, _, _⟩ := build_ok hf info hdr.length secs a b c ix h
  have hiL : i < (scan hdr.length secs).length := by rw [scan_length]; exact hi
  have hloc := scan_getElem hdr.length secs i hi
  have hmem : (scan hdr.length secs)[i] ∈ scan hdr.length secs := List.getElem_mem hiL
  obtain ⟨ho, hs⟩ := hsmall _ hmem
  rw [hloc] at ho hs
  simp only at ho hs
  have hkv : (⟨secs[i].cid, oasEncode (hdr.length + prefixLen (secs.map secBytes) i) (secBytes secs[i]).length⟩ : KV)
      ∈ cidKVs hdr.length secs := by
    unfold cidKVs
    refine List.mem_map.mpr ⟨(scan hdr.length secs)[i], hmem, ?_⟩
    rw [hloc]
  have hl := C04.build_lookup hf 9 a [] _ ix.cidIx hc _ hkv
  unfold getNodeByCid
  simp only at hl
  rw [hl]
  simp only [oas_roundtrip _ _ ho hs]
  -- the range read
  have hslice := slice_at_loc hdr secs i hi
  have hfit : hdr.length + prefixLen (secs.map secBytes) i + (secBytes secs[i]).length ≤ (Car.encode hdr secs).length := by
    unfold Car.encode
    have hi' : i < (secs.map secBytes).length := by simpa using hi
    have := prefix_le_total (secs.map secBytes) i hi'
    simp only [List.getElem_map] at this
    simp only [List.length_append]
    omega
  have hsz : secs[i].cid.length + secs[i].data.length < 268435456 := by
    rw [secBytes_length] at hs
    have : (2:Nat)^24 = 16777216 := by decide
    omega
  unfold nodeAt
  have hnot : ¬ (hdr.length + prefixLen (secs.map secBytes) i + (secBytes secs[i]).length > (Car.encode hdr secs).length) := by omega
  simp only [hnot, if_false, hslice, parseSection_secBytes secs[i] (hwf _ (List.getElem_mem hi)) hsz, if_true]

/-- every block's slot resolves to that block's CID and to its recorded block time -/
theorem C01_slots (hf : HF) (info : Bytes → Info) (hdr : Bytes) (secs : List Sec) (a b c : Nat) (ix : IndexSet)
    (h : build hf info hdr.length secs a b c = .ok ix) (s : Sec) (hs : s ∈ secs) (slot bt : Nat)
    (hinfo : info s.data = .block slot bt) :
    findCidFromSlot hf ix slot = .found s.cid ∧ (slot, bt) ∈ ix.blocktime := by
  obtain ⟨_, _, hsl, _, hbt, _⟩ := build_ok hf info hdr.length secs a b c ix h
  constructor
  · have hkv : (⟨slotKey slot, s.cid⟩ : KV) ∈ slotKVs info secs := by
      unfold slotKVs
      exact List.mem_filterMap.mpr ⟨s, hs, by simp [hinfo]⟩
    exact C04.build_lookup hf 36 b [] _ ix.slotIx hsl _ hkv
  · rw [hbt]; unfold blocktimes
    exact List.mem_filterMap.mpr ⟨s, hs, by simp [hinfo]⟩

/-- with distinct slots the block-time lookup returns exactly the recorded time -/
theorem C01_blocktime (hf : HF) (info : Bytes → Info) (hdr : Bytes) (secs : List Sec) (a b c : Nat) (ix : IndexSet)
    (h : build hf info hdr.length secs a b c = .ok ix) (s : Sec) (hs : s ∈ secs) (slot bt : Nat)
    (hinfo : info s.data = .block slot bt)
    (hdistinct : ∀ p ∈ ix.blocktime, p.1 = slot → p.2 = bt) :
    getBlocktime ix slot = some bt := by
  have hm := (C01_slots hf info hdr secs a b c ix h s hs slot bt hinfo).2
  unfold getBlocktime
  cases hf' : ix.blocktime.find? (·.1 == slot) with
  | none =>
    have := List.find?_eq_none.mp hf' (slot, bt) hm
    simp at this
  | some p =>
    have hp := List.find?_some hf'
    have hpm := List.mem_of_find?_eq_some hf'
    simp only [beq_iff_eq] at hp
    simp [hdistinct p hpm hp]

/-- every transaction's first signature resolves to that transaction's CID and is handed to the sig-exists writer
    (C05's `seal_has` then gives "reported as existing") -/
theorem C01_sigs (hf : HF) (info : Bytes → Info) (hdr : Bytes) (secs : List Sec) (a b c : Nat) (ix : IndexSet)
    (h : build hf info hdr.length secs a b c = .ok ix) (s : Sec) (hs : s ∈ secs) (sig : Bytes)
    (hinfo : info s.data = .tx sig) :
    findCidFromSig hf ix sig = .found s.cid ∧ sig ∈ ix.sigs := by
  obtain ⟨_, _, _, hsg, _, hsigs⟩ := build_ok hf info hdr.length secs a b c ix h
  have hkv : (⟨sig, s.cid⟩ : KV) ∈ sigKVs info secs := by
    unfold sigKVs
    exact List.mem_filterMap.mpr ⟨s, hs, by simp [hinfo]⟩
  constructor
  · exact C04.build_lookup hf 36 c [] _ ix.sigIx hsg _ hkv
  · rw [hsigs]; exact List.mem_map.mpr ⟨_, hkv, rfl⟩

/-- a CID-addressed fetch never returns bytes stored under a different CID (C03, C10 "wrong CAR"):
    whatever the index says and whatever file is read, data comes back only from a section labelled with the
    requested CID at that location. -/
theorem getNodeByCid_sound (hf : HF) (ix : IndexSet) (car c d : Bytes) (h : getNodeByCid hf ix car c = .ok d) :
    ∃ off sz, off + sz ≤ car.length ∧ parseSection (slice car off sz) = some (c, d) := by
  unfold getNodeByCid at h
  split at h
  · rename_i v _
    simp only at h
    split at h
    · rename_i d' hn
      cases h
      unfold nodeAt at hn
      split at hn
      · cases hn
      · rename_i hfit
        split at hn
        · cases hn
        · rename_i c' d'' hp
          split at hn
          · rename_i hc
            cases hn
            exact ⟨(oasDecode v).1, (oasDecode v).2, by omega, by rw [hp, hc]⟩
          · cases hn
    · cases h
  · cases h
  · cases h

/-- indexing refuses (instead of succeeding wrongly) when an offset or a section does not fit the 6+3-byte value -/
theorem too_big_fails (hf : HF) (info : Bytes → Info) (hdrLen : Nat) (secs : List Sec) (a b c : Nat)
    (l : Loc) (hl : l ∈ scan hdrLen secs) (hbig : l.offset ≥ 2^48 ∨ l.secLen ≥ 2^24) :
    build hf info hdrLen secs a b c = .error .tooBig := by
  unfold build
  have : (scan hdrLen secs).any (fun l => decide (l.offset ≥ 2^48 ∨ l.secLen ≥ 2^24)) = true :=
    List.any_eq_true.mpr ⟨l, hl, by simpa using hbig⟩
  rw [if_pos this]

/-! non-vacuity: the location arithmetic on a concrete two-section CAR -/
def exSecs : List Sec := [⟨List.replicate 36 1, [2, 0, 5]⟩, ⟨List.replicate 36 7, List.replicate 200 9⟩]
example : ∀ s ∈ exSecs, s.cid.length = 36 := by
  intro s hs; simp only [exSecs, List.mem_cons, List.mem_nil_iff, or_false] at hs
  rcases hs with rfl | rfl <;> simp only [List.length_replicate]
example : (scan 59 exSecs).map (fun l => (l.offset, l.secLen)) = [(59, 40), (99, 238)] := by
  have h1 : (secBytes ⟨List.replicate 36 1, [2, 0, 5]⟩).length = 40 := by
    rw [secBytes_length]; simp only [List.length_replicate, List.length_cons, List.length_nil]; rw [Varint.width_lt128 (by omega)]
  have h2 : (secBytes ⟨List.replicate 36 7, List.replicate 200 9⟩).length = 238 := by
    rw [secBytes_length]; simp only [List.length_replicate]; rw [Varint.width_two (by omega) (by omega)]
  simp only [exSecs, scan, h1, h2, List.map]

end C01

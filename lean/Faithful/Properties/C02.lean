/-! Property C02 — theorems (statements live here, helper lemmas in Faithful/Lib) -/
namespace C02
end C02

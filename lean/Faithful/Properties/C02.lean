import Faithful.Lib.Rpc
import Faithful.Properties.C18

/-! Property C02 — RPC answers for archived slots and signatures reproduce the archive exactly.

Theorems about the definitions of `Faithful/Lib/Rpc.lean` that the driver `Driver/C02.lean` executes
(`Rpc.getBlockS`, `Rpc.getTransactionS`, `Rpc.getBlockTime`, `Rpc.searchRun`).  Quantified over: every set of loaded
epochs with distinct numbers, every archived block / transaction, every completion order of the fetch goroutines
(`Sched`), every implementation of `sort.Slice` (`SortFn`), every `EpochSearchConcurrency` (`limit : Int`) and every
schedule of the parallel epoch search (`FSys.Reach`, property C18 — imported, not re-modelled), every content of the
raw-object cache and every sound content of the offset cache.

Hypotheses that are somebody else's theorem are explicit: the index files implement exact maps over the archive
(`findBlock`, `findTx`, `blocktimeIdx`: C01/C03/C05), every archived object resolves through index + CAR (`StoreOk`:
C01), payload reassembly and zstd give back the archived bytes (`Tx.payload`, `Tx.mdata`: C14 / third party).

`partial`: the byte-identity of the `json` rendering of a transaction and of the JSON rendering of the metadata rest on
solana-go / protobuf / jsoniter (`Tx.tag` is opaque here) — `json_encoding_partial`.
Helper lemmas live in `Faithful/Lib/Rpc.lean`. -/

namespace C02
open Rpc FS FSys FindEpoch

/-! ### ties to the code -/

/-- tie: the translated Go `slottools.CalcEpochForSlot` is the model's `epochOf` -/
theorem gen_calcEpochForSlot_eq_model (s : UInt64) :
    (Generated.calcEpochForSlot s).toNat = epochOf s.toNat := by
  unfold Generated.calcEpochForSlot epochOf
  rw [UInt64.toNat_div]
  rfl

/-- tie: the epoch length is the constant extracted from `slottools` -/
theorem gen_epochLen_eq_model : Generated.epochLen = Rpc.epochLen := rfl

/-! ### getBlock -/

/-- **getBlock returns the archived block.**  For every loaded epoch set with distinct numbers, every block `b` of a
complete loaded epoch `ep`, every completion order `σ` of the fetch goroutines and every `sort.Slice` `S`: the call
succeeds and returns the block's slot, parent slot, block time, block height, blockhash = hash of its last entry,
previousBlockhash = hash of the parent's last entry whenever the parent slot is in the same epoch (`wantsParent`:
`slot ≠ 0 ∧ epoch(parent) = epoch(slot)` — see `wantsParent_iff`), and ALL transactions of the block — a permutation of the
archived list sorted by recorded position, hence exactly the archived list when positions are distinct and recorded in
entry order.  Slot 0: block time = genesis creation time, parent 0, previousBlockhash = own blockhash. -/
theorem getBlock_fields (S : SortFn) (σ : Sched) (es : List Epoch) (ep : Epoch) (b : Block)
    (hu : UniqueNums es) (hep : ep ∈ es) (hok : EpochOk ep) (hb : b ∈ ep.blocks) :
    ∃ r, getBlock S σ es b.slot = .ok r ∧
      r.slot = b.slot ∧
      r.parentSlot = (if b.slot = 0 then 0 else b.parent) ∧
      r.blockTime = (if b.slot = 0 then ep.genesisTime.getD b.time else b.time) ∧
      (∀ h, b.height = some h → r.blockHeight = some h) ∧
      r.blockhash = lastHash b ∧
      (wantsParent ep b = true → ∀ pb ∈ ep.blocks, pb.slot = b.parent → ∀ e, pb.entries.getLast? = some e →
        r.previousBlockhash = some (hash32 e.hash)) ∧
      (wantsParent ep b = false → r.previousBlockhash = if b.slot = 0 then some (lastHash b) else none) ∧
      r.txs.Perm (blockTxs b) ∧
      r.txs.Pairwise (fun x y => posKey x ≤ posKey y) ∧
      (((blockTxs b).map posKey).Nodup → (blockTxs b).Pairwise (fun x y => posKey x ≤ posKey y) → r.txs = blockTxs b) := by
  obtain ⟨prev, hprev, hno, hyes⟩ := prevHash_ok ep b hok hb
  refine ⟨blockRespOf ep b (S.sort (blockTxs b)) prev, ?_, rfl, rfl, rfl, ?_, rfl, hyes, hno, S.perm _, S.sorted _, ?_⟩
  · unfold getBlock
    simp only [route es ep hu hep b.slot (hok.inEpoch b hb), findBlock_of_mem ep b hok.slots hb, blockAnswer, assemble_eq, hprev]
  · intro h hh; simp [blockRespOf, hh]
  · intro hd hs
    exact sorted_perm_unique _ _ (S.perm _) hd (S.sorted _) hs

/-- the same-epoch condition, spelled out -/
theorem wantsParent_iff (ep : Epoch) (b : Block) :
    wantsParent ep b = true ↔ b.slot ≠ 0 ∧ epochOf b.parent = ep.num := by
  simp [wantsParent]

/-- the pinned tree's condition differs from it exactly on blocks with slot ≥ 2 whose parent is slot 0 in epoch 0
(there the pinned handler answers previousBlockhash = null although the parent is in the same epoch) -/
theorem wantsParent_pinned_differs (ep : Epoch) (b : Block) (hz : b.slot = 0 → b.parent = 0) :
    wantsParentPinned ep b ≠ wantsParent ep b ↔ (b.parent = 0 ∧ 2 ≤ b.slot ∧ ep.num = 0) := by
  unfold wantsParentPinned wantsParent epochOf epochLen
  by_cases h0 : b.parent = 0 <;> by_cases h1 : b.slot = 1 <;> by_cases hs : b.slot = 0 <;>
    by_cases he : b.parent / 432000 = ep.num <;> simp_all <;> omega

/-- **the answer does not depend on the completion order of the fetch goroutines** — for every request, archived or
not, loaded or not -/
theorem getBlock_schedule_independent (S : SortFn) (σ σ' : Sched) (es : List Epoch) (slot : Nat) :
    getBlock S σ es slot = getBlock S σ' es slot := by
  unfold getBlock blockAnswer
  simp only [assemble_eq]

/-- the slots after all completions do not depend on their order either (the statement one level below) -/
theorem fill_schedule_independent (b : Block) (cs cs' : List Comp) (h : cs.Perm (completions b)) (h' : cs'.Perm (completions b)) :
    fill emptySlots cs = fill emptySlots cs' := by
  funext i j
  rw [fill_completions b cs h, fill_completions b cs' h']

/-- two implementations of `sort.Slice` cannot disagree on a block whose recorded positions are distinct -/
theorem getBlock_sort_independent (S S' : SortFn) (σ : Sched) (es : List Epoch) (slot : Nat)
    (hd : ∀ ep ∈ es, ∀ b ∈ ep.blocks, ((blockTxs b).map posKey).Nodup) :
    getBlock S σ es slot = getBlock S' σ es slot := by
  unfold getBlock
  cases hl : lookupEpoch es (epochOf slot) with
  | none => rfl
  | some ep =>
    dsimp only
    cases hf : findBlock ep slot with
    | none => rfl
    | some b =>
      dsimp only
      have hbm : b ∈ ep.blocks := List.mem_of_find?_eq_some hf
      have hepm := (lookupEpoch_some es _ ep hl).1
      have : S.sort (blockTxs b) = S'.sort (blockTxs b) :=
        sorted_perm_unique _ _ ((S.perm _).trans (S'.perm _).symm)
          ((S'.perm (blockTxs b)).map posKey |>.nodup_iff.mpr (hd ep hepm b hbm)) (S.sorted _) (S'.sorted _)
      simp only [blockAnswer, assemble_eq, this]

/-- the gRPC comparator orders recorded positions exactly as the JSON-RPC comparator does -/
theorem lessGrpc_eq_lessJson (a b : Tx) (ha : a.pos.isSome) (hb : b.pos.isSome) :
    lessGrpc a b = decide (posKey a < posKey b) := by
  unfold lessGrpc posKey
  cases hpa : a.pos <;> cases hpb : b.pos <;> simp_all

/-! ### getBlockTime -/

/-- **getBlockTime returns the archived block time** -/
theorem getBlockTime_fields (es : List Epoch) (ep : Epoch) (b : Block)
    (hu : UniqueNums es) (hep : ep ∈ es) (hok : EpochOk ep) (hb : b ∈ ep.blocks) :
    getBlockTime es b.slot = .ok b.time := by
  unfold getBlockTime
  rw [route es ep hu hep b.slot (hok.inEpoch b hb)]
  simp [blocktimeIdx, hok.inEpoch b hb, findBlock_of_mem ep b hok.slots hb]

/-! ### getTransaction -/

/-- the epoch search finds the one epoch that archives the signature: for every concurrency limit and every schedule
of the search (C18), and directly when a single epoch is loaded -/
theorem search_finds (es : List Epoch) (ep : Epoch) (sig : Nat) (hu : UniqueNums es) (hep : ep ∈ es)
    (hhit : (findTx ep sig).isSome = true)
    (huniq : ∀ ep' ∈ es, (findTx ep' sig).isSome = true → ep' = ep)
    (limit : Int) (s : State Nat JErr) (r : Res Nat JErr)
    (hr : Reach (cfgOf limit (searchEps es sig)) s) (hd : s.main = .done r) :
    findResult (searchEps es sig) r = .found ep.num := by
  have hmem : (ep.num, Kind.hit) ∈ searchEps es sig := by
    have := mem_searchEps_of_mem es ep sig hu hep
    rwa [(kindOf_hit ep sig).mpr hhit] at this
  by_cases h1 : (searchEps es sig).length = 1
  · match hs : searchEps es sig, h1 with
    | [(n, k)], _ =>
      rw [hs] at hmem
      simp only [List.mem_singleton, Prod.mk.injEq] at hmem
      rw [C18.find_single_epoch, hmem.1]
  · rw [C18.find_multi_epoch _ r h1]
    obtain ⟨e, hc, he⟩ := (C18.find_epoch_classification limit _ s r hr hd).2.1 ⟨ep.num, hmem⟩
    obtain ⟨ep', hep', hn, hk⟩ := mem_searchEps es sig e .hit he
    have := huniq ep' hep' ((kindOf_hit ep' sig).mp hk.symm)
    subst this
    rw [hc, hn]

/-- **getTransaction returns the archived transaction.**  For every loaded epoch set with distinct numbers in which
the signature is archived in exactly one epoch `ep`, every `EpochSearchConcurrency` and every schedule of the search:
the call succeeds and returns the transaction's slot, the block time of that slot, the recorded position and the
archived transaction (payload and metadata bytes). -/
theorem getTransaction_fields (es : List Epoch) (ep : Epoch) (b : Block) (t : Tx)
    (hu : UniqueNums es) (hep : ep ∈ es) (hok : EpochOk ep)
    (hsigs : ((allTxs ep).map (·.sig)).Nodup) (hb : b ∈ ep.blocks) (ht : t ∈ blockTxs b) (hslot : t.slot = b.slot)
    (huniq : ∀ ep' ∈ es, (findTx ep' t.sig).isSome = true → ep' = ep)
    (limit : Int) (s : State Nat JErr) (r : Res Nat JErr)
    (hr : Reach (cfgOf limit (searchEps es t.sig)) s) (hd : s.main = .done r) :
    getTransaction es r t.sig = .ok { slot := b.slot, blockTime := b.time, pos := t.pos, tx := t } := by
  have htm : t ∈ allTxs ep := List.mem_flatMap.mpr ⟨b, hb, ht⟩
  have hft : findTx ep t.sig = some t := findTx_of_mem ep t hsigs htm
  have hfind := search_finds es ep t.sig hu hep (by rw [hft]; rfl) huniq limit s r hr hd
  unfold getTransaction
  have hne : es.isEmpty = false := by cases es with
    | nil => cases hep
    | cons _ _ => rfl
  simp only [hne, Bool.false_eq_true, if_false, hfind, lookupEpoch_of_mem es ep hu hep, txAnswer, hft]
  simp [blocktimeIdx, hslot, hok.inEpoch b hb, findBlock_of_mem ep b hok.slots hb]

/-- **every epoch-search concurrency setting and every schedule of the search give the same answer**, for every
signature that at most one loaded epoch archives (archived or unknown) -/
theorem search_concurrency_irrelevant (es : List Epoch) (sig : Nat) (hu : UniqueNums es)
    (hone : ∀ ep ∈ es, ∀ ep' ∈ es, (findTx ep sig).isSome = true → (findTx ep' sig).isSome = true → ep' = ep)
    (limit limit' : Int) (s s' : State Nat JErr) (r r' : Res Nat JErr)
    (hr : Reach (cfgOf limit (searchEps es sig)) s) (hd : s.main = .done r)
    (hr' : Reach (cfgOf limit' (searchEps es sig)) s') (hd' : s'.main = .done r') :
    getTransaction es r sig = getTransaction es r' sig := by
  by_cases hex : ∃ ep ∈ es, (findTx ep sig).isSome = true
  · obtain ⟨ep, hep, hhit⟩ := hex
    have h1 := search_finds es ep sig hu hep hhit (fun ep' hep' h' => hone ep hep ep' hep' hhit h') limit s r hr hd
    have h2 := search_finds es ep sig hu hep hhit (fun ep' hep' h' => hone ep hep ep' hep' hhit h') limit' s' r' hr' hd'
    unfold getTransaction
    rw [h1, h2]
  · -- nobody archives the signature: every job answers not-found, whatever the schedule
    have hall : ∀ lim : Int, ∀ j, j < (searchEps es sig).length →
        ∃ x, (cfgOf lim (searchEps es sig)).out j = .err x ∧ x.isNF = true := by
      intro lim j hj
      rw [C18.cfgOf_out lim _ j hj]
      obtain ⟨ep, hep, _, hk⟩ := mem_searchEps es sig _ _ (List.getElem_mem hj)
      have : kindOf ep sig = .hasFalse := by
        unfold kindOf
        rw [if_neg (fun h => hex ⟨ep, hep, h⟩)]
      have hk' : (searchEps es sig)[j].2 = .hasFalse := by rw [← this]; exact hk
      rw [hk']
      exact ⟨_, rfl, rfl⟩
    unfold getTransaction
    by_cases h1 : (searchEps es sig).length = 1
    · match hs : searchEps es sig, h1 with
      | [(n, k)], _ => simp only [C18.find_single_epoch]
    · rw [C18.find_multi_epoch _ r h1, C18.find_multi_epoch _ r' h1,
        (C18.find_epoch_classification limit _ s r hr hd).2.2.1 (hall limit),
        (C18.find_epoch_classification limit' _ s' r' hr' hd').2.2.1 (hall limit')]

/-! ### routing is independent of the other loaded epochs -/

/-- **loading more epochs does not change the answer for a slot of a loaded epoch** (getBlock, getBlockTime), archived
or skipped -/
theorem routing_independent_of_other_epochs (S : SortFn) (σ : Sched) (es es' : List Epoch) (ep : Epoch) (slot : Nat)
    (hu : UniqueNums es) (hu' : UniqueNums es') (hsub : ∀ e ∈ es, e ∈ es') (hep : ep ∈ es) (h : epochOf slot = ep.num) :
    getBlock S σ es' slot = getBlock S σ es slot ∧ getBlockTime es' slot = getBlockTime es slot := by
  unfold getBlock getBlockTime
  rw [route es ep hu hep slot h, route es' ep hu' (hsub ep hep) slot h]
  exact ⟨rfl, rfl⟩

/-- **… nor for a signature archived in a loaded epoch** (unique among the epochs of the larger set), whatever the two
searches' concurrency limits and schedules -/
theorem routing_independent_of_other_epochs_tx (es es' : List Epoch) (ep : Epoch) (sig : Nat)
    (hu : UniqueNums es) (hu' : UniqueNums es') (hsub : ∀ e ∈ es, e ∈ es') (hep : ep ∈ es)
    (hhit : (findTx ep sig).isSome = true)
    (huniq : ∀ ep' ∈ es', (findTx ep' sig).isSome = true → ep' = ep)
    (limit limit' : Int) (s s' : State Nat JErr) (r r' : Res Nat JErr)
    (hr : Reach (cfgOf limit (searchEps es sig)) s) (hd : s.main = .done r)
    (hr' : Reach (cfgOf limit' (searchEps es' sig)) s') (hd' : s'.main = .done r') :
    getTransaction es' r' sig = getTransaction es r sig := by
  have h1 := search_finds es ep sig hu hep hhit (fun e he hh => huniq e (hsub e he) hh) limit s r hr hd
  have h2 := search_finds es' ep sig hu' (hsub ep hep) hhit huniq limit' s' r' hr' hd'
  have hne : es.isEmpty = false := by cases es with
    | nil => cases hep
    | cons _ _ => rfl
  have hne' : es'.isEmpty = false := by cases es' with
    | nil => cases hsub ep hep
    | cons _ _ => rfl
  unfold getTransaction
  simp only [hne, hne', h1, h2, lookupEpoch_of_mem es ep hu hep, lookupEpoch_of_mem es' ep hu' (hsub ep hep)]

/-! ### the shared cache: the object fetches behind the handlers -/

/-- **getBlock through the shared caches = getBlock over the archive**, for every sound keying of the offset cache,
every content of the raw-object cache, every sound content of the offset cache (so: after any earlier requests, to any
epochs, in any order); and the offset cache stays sound. -/
theorem getBlockS_eq (key : Key) (raw : Cid → Bool) (S : SortFn) (σ : Sched) (cache : Cache) (es : List Epoch) (slot : Nat)
    (hk : KeyOk es key) (hc : CacheOk es key cache) (hs : ∀ ep ∈ es, StoreOk ep) :
    (getBlockS key raw S σ cache es slot).1 = getBlock S σ es slot ∧
      CacheOk es key (getBlockS key raw S σ cache es slot).2 := by
  unfold getBlockS getBlock
  cases hl : lookupEpoch es (epochOf slot) with
  | none => exact ⟨rfl, hc⟩
  | some ep =>
    have hep := (lookupEpoch_some es _ ep hl).1
    dsimp only
    cases hf : findBlock ep slot with
    | none => exact ⟨rfl, hc⟩
    | some b =>
      dsimp only
      have hbm : b ∈ ep.blocks := List.mem_of_find?_eq_some hf
      obtain ⟨hb0, hbe⟩ := hs ep hep b hbm
      obtain ⟨a1, a2⟩ := getNode_ok es key raw cache ep b.cid hk hc hep hb0
      obtain ⟨b1, b2⟩ := getNodes_ok es key raw ep hk hep (b.entries.map (·.cid)) _ a2 (by
        intro c hc'
        obtain ⟨e, he, rfl⟩ := List.mem_map.mp hc'
        exact (hbe e he).1)
      obtain ⟨c1, c2⟩ := fetchTxs_ok es key raw ep hk hep (blockTxs b) _ b2 (by
        intro t ht
        obtain ⟨e, he, hte⟩ := List.mem_flatMap.mp ht
        exact (hbe e he).2 t hte)
      obtain ⟨d1, d2⟩ := getNodes_ok es key raw ep hk hep (parentCids ep b) _ c2 (parentCids_ok ep b (hs ep hep))
      refine ⟨?_, d2⟩
      simp only [a1, b1, d1, txOutcome_all_true _ c1, Bool.not_true, Bool.false_eq_true, if_false]

/-- **getTransaction through the shared caches = getTransaction over the archive**, under the same conditions -/
theorem getTransactionS_eq (key : Key) (raw : Cid → Bool) (cache : Cache) (es : List Epoch) (r : Res Nat JErr) (sig : Nat)
    (hk : KeyOk es key) (hc : CacheOk es key cache) (hs : ∀ ep ∈ es, StoreOk ep) :
    (getTransactionS key raw cache es r sig).1 = getTransaction es r sig ∧
      CacheOk es key (getTransactionS key raw cache es r sig).2 := by
  unfold getTransactionS getTransaction
  cases hne : es.isEmpty with
  | true => exact ⟨rfl, hc⟩
  | false =>
    simp only [Bool.false_eq_true, if_false]
    cases hfr : findResult (searchEps es sig) r with
    | notFound => exact ⟨rfl, hc⟩
    | internal x => exact ⟨rfl, hc⟩
    | found e =>
      simp only
      cases hl : lookupEpoch es e with
      | none => exact ⟨rfl, hc⟩
      | some ep =>
        have hep := (lookupEpoch_some es _ ep hl).1
        simp only
        cases hft : findTx ep sig with
        | none => simp only [txAnswer, hft]; exact ⟨trivial, hc⟩
        | some t =>
          have htm := (findTx_some ep sig t hft).1
          obtain ⟨b, hb, htb⟩ := List.mem_flatMap.mp htm
          obtain ⟨e', he', hte⟩ := List.mem_flatMap.mp htb
          obtain ⟨h1, h2⟩ := (hs ep hep b hb).2 e' he' |>.2 t hte
          obtain ⟨g1, g2⟩ := getNodes_ok es key raw ep hk hep (t.cid :: t.frames) cache hc (by
            intro c hc'
            rcases List.mem_cons.mp hc' with rfl | hc''
            · exact h1
            · exact h2 c hc'')
          simp only [g1, if_true]
          exact ⟨trivial, g2⟩

/-- **with the repaired cache key (epoch, CID) no hypothesis about CIDs shared between epochs is needed**: whatever
other epochs are loaded and whatever was requested before (start from the empty cache and apply this theorem request
after request), getBlock answers as the archive layer says -/
theorem getBlockS_pairKey (raw : Cid → Bool) (S : SortFn) (σ : Sched) (cache : Cache) (es : List Epoch) (slot : Nat)
    (hu : UniqueNums es) (hc : CacheOk es pairKey cache) (hs : ∀ ep ∈ es, StoreOk ep) :
    (getBlockS pairKey raw S σ cache es slot).1 = getBlock S σ es slot ∧
      CacheOk es pairKey (getBlockS pairKey raw S σ cache es slot).2 :=
  getBlockS_eq pairKey raw S σ cache es slot (keyOk_pair es hu) hc hs

theorem getTransactionS_pairKey (raw : Cid → Bool) (cache : Cache) (es : List Epoch) (r : Res Nat JErr) (sig : Nat)
    (hu : UniqueNums es) (hc : CacheOk es pairKey cache) (hs : ∀ ep ∈ es, StoreOk ep) :
    (getTransactionS pairKey raw cache es r sig).1 = getTransaction es r sig ∧
      CacheOk es pairKey (getTransactionS pairKey raw cache es r sig).2 :=
  getTransactionS_eq pairKey raw cache es r sig (keyOk_pair es hu) hc hs

/-- **"whichever other epochs are loaded alongside", caches included**: a server with the epochs `es'` and a server with
fewer epochs `es ⊆ es'`, each with its own shared cache in ANY sound state (any request history) and any raw-object
cache, give the same getBlock answer for every slot of an epoch loaded in both — with the repaired cache key and no
assumption about CIDs shared between epochs. -/
theorem routing_independent_through_cache (raw raw' : Cid → Bool) (S : SortFn) (σ : Sched) (cache cache' : Cache)
    (es es' : List Epoch) (ep : Epoch) (slot : Nat)
    (hu : UniqueNums es) (hu' : UniqueNums es') (hsub : ∀ e ∈ es, e ∈ es') (hep : ep ∈ es) (h : epochOf slot = ep.num)
    (hc : CacheOk es pairKey cache) (hc' : CacheOk es' pairKey cache') (hs : ∀ e ∈ es', StoreOk e) :
    (getBlockS pairKey raw' S σ cache' es' slot).1 = (getBlockS pairKey raw S σ cache es slot).1 := by
  rw [(getBlockS_pairKey raw' S σ cache' es' slot hu' hc' hs).1,
    (getBlockS_pairKey raw S σ cache es slot hu hc (fun e he => hs e (hsub e he))).1]
  exact (routing_independent_of_other_epochs S σ es es' ep slot hu hu' hsub hep h).1

/-- with the CID-only key of the pinned tree the same holds ONLY under the explicit hypothesis that no CID is stored
at different offsets in two loaded epochs -/
theorem getTransactionS_cidKey_needs_no_shared_cid (raw : Cid → Bool) (cache : Cache) (es : List Epoch)
    (r : Res Nat JErr) (sig : Nat) (hn : NoSharedCid es) (hc : CacheOk es cidKey cache) (hs : ∀ ep ∈ es, StoreOk ep) :
    (getTransactionS cidKey raw cache es r sig).1 = getTransaction es r sig ∧
      CacheOk es cidKey (getTransactionS cidKey raw cache es r sig).2 :=
  getTransactionS_eq cidKey raw cache es r sig (keyOk_cid es hn) hc hs

/-! #### … and that hypothesis cannot be dropped: the defect of the pinned tree as a theorem -/

/-- two one-block epochs whose transactions share one continuation frame (CID 7), stored at offset 10 in epoch 1 and
at offset 20 in epoch 2 -/
def txA : Tx := { sig := 101, slot := 432000, pos := some 0, payload := [1], mdata := [9, 9], cid := 11, frames := [7] }
def txB : Tx := { sig := 202, slot := 864000, pos := some 0, payload := [2], mdata := [9, 9], cid := 21, frames := [7] }
def epA : Epoch :=
  { num := 1, blocks := [{ slot := 432000, parent := 431999, time := 5, height := some 1, cid := 13,
                           entries := [{ hash := [1], txs := [txA], cid := 12 }] }],
    objs := [(7, 10), (11, 30), (12, 40), (13, 50)] }
def epB : Epoch :=
  { num := 2, blocks := [{ slot := 864000, parent := 863999, time := 6, height := some 2, cid := 23,
                           entries := [{ hash := [2], txs := [txB], cid := 22 }] }],
    objs := [(21, 10), (7, 20), (22, 40), (23, 50)] }

/-- **the CID-only cache key breaks the property**: after the transaction of epoch 1 has been served, the archived
transaction of epoch 2 gets "Internal error" (epoch 2's CAR is read at epoch 1's offset); in the other order the
transaction of epoch 1 fails.  With the (epoch, CID) key both orders succeed. -/
theorem cidKey_breaks_shared_frame :
    let noRaw : Cid → Bool := fun _ => false
    let afterA := (getTransactionS cidKey noRaw [] [epA, epB] (.ok 1) 101)
    let afterB := (getTransactionS cidKey noRaw [] [epA, epB] (.ok 2) 202)
    afterA.1 = txAnswer epA 101 ∧
    (getTransactionS cidKey noRaw afterA.2 [epA, epB] (.ok 2) 202).1 = .internal ∧
    afterB.1 = txAnswer epB 202 ∧
    (getTransactionS cidKey noRaw afterB.2 [epA, epB] (.ok 1) 101).1 = .internal ∧
    (getTransactionS pairKey noRaw (getTransactionS pairKey noRaw [] [epA, epB] (.ok 1) 101).2 [epA, epB] (.ok 2) 202).1
      = txAnswer epB 202 := by
  decide

/-! ### what is not proved -/

/-- `partial`: for the `json` encoding (and for the JSON rendering of the metadata in every JSON-RPC encoding) the
model only says WHICH archived transaction is rendered (`r.tx = t`, so the rendering is a function of the archived
payload and metadata bytes); that solana-go's `MarshalJSON`, the protobuf parser and jsoniter render those bytes
faithfully is outside the model (third party; compared field by field in the correspondence run). -/
theorem json_encoding_partial (r : TxResp) (t : Tx) (render : Tx → String) (h : r.tx = t) : render r.tx = render t := by
  rw [h]

/-! ### non-vacuity: concrete runs of the very definitions above -/

def exTx (sig pos : Nat) : Tx := { sig := sig, slot := 432001, pos := some pos, payload := [UInt8.ofNat sig], mdata := [7], cid := 100 + sig, frames := [] }
def exBlock0 : Block :=
  { slot := 432000, parent := 431999, time := 50, height := some 9, cid := 1,
    entries := [{ hash := List.replicate 32 1, txs := [], cid := 2 }] }
def exBlock1 : Block :=
  { slot := 432001, parent := 432000, time := 51, height := some 10, cid := 3,
    entries := [{ hash := [3], txs := [exTx 1 0, exTx 2 1], cid := 4 }, { hash := List.replicate 32 5, txs := [exTx 3 2], cid := 5 }] }
def exEp : Epoch :=
  { num := 1, blocks := [exBlock0, exBlock1],
    objs := [(2, 10), (1, 20), (101, 30), (102, 40), (4, 50), (103, 60), (5, 70), (3, 80)] }
def exEp2 : Epoch := { num := 2, blocks := [{ slot := 864000, parent := 863999, time := 70, height := none, cid := 6, entries := [] }], objs := [(6, 10)] }

-- the hypotheses of the theorems are satisfiable
example : EpochOk exEp := ⟨by decide, by decide, by decide⟩
example : StoreOk exEp := by unfold StoreOk; decide
example : UniqueNums [exEp, exEp2] := by unfold UniqueNums; decide
-- getBlock: all fields, transactions in position order under the LIFO schedule, parent hash from the same epoch
example : getBlock SortFn.ins Sched.lifo [exEp2, exEp] 432001 =
    .ok { slot := 432001, parentSlot := 432000, blockTime := 51, blockHeight := some 10,
          blockhash := List.replicate 32 5, previousBlockhash := some (List.replicate 32 1),
          txs := [exTx 1 0, exTx 2 1, exTx 3 2] } := by decide
-- first block of the epoch: the parent is in another epoch, previousBlockhash stays absent
example : (match getBlock SortFn.ins Sched.fifo [exEp] 432000 with | .ok r => r.previousBlockhash | _ => some []) = none := by decide
-- a block without entries: zero blockhash; no recorded height
example : (match getBlock SortFn.ins Sched.fifo [exEp, exEp2] 864000 with | .ok r => (r.blockhash, r.blockHeight) | _ => ([], some 1))
    = (List.replicate 32 0, none) := by decide
-- skipped slot, epoch not loaded
example : getBlock SortFn.ins Sched.fifo [exEp] 432002 = .null := by decide
example : getBlock SortFn.ins Sched.fifo [exEp] 864000 = .epochUnavailable 2 := by decide
-- an incomplete set of completions leaves a nil slot (what the fetch-error path of the handler runs into)
example : allSome (merge exBlock1 (fill emptySlots [⟨0, 1, exTx 2 1⟩, ⟨1, 0, exTx 3 2⟩])) = none := by decide
example : (completions exBlock1).length = 3 := by decide
-- getBlockTime
example : getBlockTime [exEp, exEp2] 432001 = .ok 51 := by decide
-- getTransaction: the search over two epochs under limit 1 (driver's scheduler) finds epoch 1
example : getTransaction [exEp, exEp2] (searchRun 1 (searchEps [exEp, exEp2] 3) []) 3 =
    .ok { slot := 432001, blockTime := 51, pos := some 2, tx := exTx 3 2 } := by decide
example : searchEps [exEp, exEp2] 3 = [(2, .hasFalse), (1, .hit)] := by decide
-- the hypotheses of `getTransaction_fields` / `search_concurrency_irrelevant` are satisfiable: a complete run of the
-- search (limit 2: both jobs at once; the error of epoch 2 arrives first) that ends with main returning epoch 1
example : getTransaction [exEp, exEp2] (.ok 1) 3 = .ok { slot := 432001, blockTime := 51, pos := some 2, tx := exTx 3 2 } :=
  getTransaction_fields [exEp, exEp2] exEp exBlock1 (exTx 3 2) (by unfold UniqueNums; decide) (by decide)
    ⟨by decide, by decide, by decide⟩ (by decide) (by decide) (by decide) rfl (by decide) 2
    { next := 2, running := [], sentq := [0, 1], relq := [], buf := [], log := [0, 1], main := .done (.ok 1), closed := false }
    (.ok 1) ⟨[.start, .start, .send 0, .send 1, .fork, .recv, .recv], rfl⟩ rfl
-- unknown signature: null; one epoch loaded: the search is skipped
example : getTransaction [exEp, exEp2] (searchRun 2 (searchEps [exEp, exEp2] 77) []) 77 = .null := by decide
example : getTransaction [exEp] (.err []) 2 = .ok { slot := 432001, blockTime := 51, pos := some 1, tx := exTx 2 1 } := by decide
-- through the store, from the empty cache: same answer, offsets of epoch 1 cached under (1, cid)
example : (getBlockS pairKey (fun _ => false) SortFn.ins Sched.lifo [] [exEp, exEp2] 432001).1
    = getBlock SortFn.ins Sched.lifo [exEp, exEp2] 432001 := by decide
example : ((getBlockS pairKey (fun _ => false) SortFn.ins Sched.lifo [] [exEp, exEp2] 432001).2.map (·.1.1)).all (· == 1) = true := by decide
-- slot 0 with genesis
def exEp0 : Epoch :=
  { num := 0, genesisTime := some 1584368940,
    blocks := [{ slot := 0, parent := 0, time := 0, height := none, cid := 1, entries := [{ hash := List.replicate 32 4, txs := [], cid := 2 }] },
               { slot := 1, parent := 0, time := 11, height := some 1, cid := 3, entries := [{ hash := List.replicate 32 6, txs := [], cid := 4 }] }] }
example : getBlock SortFn.ins Sched.fifo [exEp0] 0 =
    .ok { slot := 0, parentSlot := 0, blockTime := 1584368940, blockHeight := some 0, blockhash := List.replicate 32 4,
          previousBlockhash := some (List.replicate 32 4), txs := [] } := by decide
example : (match getBlock SortFn.ins Sched.fifo [exEp0] 1 with | .ok r => r.previousBlockhash | _ => none) = some (List.replicate 32 4) := by decide
-- slot 1 skipped: block 2 has parent 0 in the same epoch; the pinned condition says no lookup, the repaired one yes
example : wantsParentPinned exEp0 { slot := 2, parent := 0, time := 1, height := none, cid := 9, entries := [] } = false := by decide
example : wantsParent exEp0 { slot := 2, parent := 0, time := 1, height := none, cid := 9, entries := [] } = true := by decide

end C02

import Faithful.Lib.RangeCacheProofs

/-! # Property C17 — the remote-file range cache is transparent

Model: `Faithful/Lib/RangeCache.lean` (the definitions `fdrv-C17` executes), helper lemmas:
`Faithful/Lib/RangeCacheProofs.lean`.

A *history* is a list of atomic steps, each one lock-protected section of `RangeCache`:
`check` (GetRange under the read lock), `fetchSet` (GetRange after a miss, under the write lock, with the outcome
of the remote fetch), `set` (SetRange), `deleteOld` (DeleteOldEntries with any set of expired entries).  Every step
carries its own map iteration order and its own context.  Since the sections are serialised by the RWMutex (readers
do not write), every execution of any number of concurrent clients is such a list, and a client's `GetRange` is a
`check` step followed — if it missed — by a later `fetchSet` step with the same arguments, with any number of other
clients' steps in between.  All theorems quantify over ALL histories: no bound on length, file size, clients.

Assumptions, stated as hypotheses (`Step.Fed`):
* arguments are int64 values and the file size fits int64 (Go types);
* **fetcher contract** `Fetch.Honest`: when the fetcher returns `err == nil` for a range inside the file, the whole
  buffer holds the remote's bytes.  `GetRange` ignores the returned `n`; `fetcher_contract_is_needed` shows the
  property fails without it.  `remoteReadAt_honours_contract` proves it for the HTTP fetcher of remote-file.go
  (once it checks the status code: `remoteReadAt_without_status_check_breaks_contract` is the defect of the
  pinned tree, fix C17-1);
* callers of the exported `SetRange` pass the file's own bytes.
-/
namespace C17
open RC

/-! ## 0. the iteration-order parameter is exactly "any permutation" -/

theorem iteration_order_is_any_permutation {α : Type} (l : List α) :
    (∀ ks : Order, (reorder ks l).Perm l) ∧ (∀ p : List α, p.Perm l → ∃ ks : Order, reorder ks l = p) :=
  ⟨fun ks => reorder_perm ks l, fun p hp => reorder_complete l p hp⟩

example : reorder [5, 0, 1] [10, 20, 30] = [20, 30, 10] := by decide

/-! ## 1. the invariant, per step and for every history -/

/-- every atomic step — whatever the iteration order, the context, the expired set — keeps every cached entry
    inside the file and equal to the file's bytes there -/
theorem inv_preserved (file : Bytes) (hF : IsI64 (file.length : Int)) (st : State) (hinv : Inv file st)
    (x : Step) (hx : x.Fed file) : Inv file (step (file.length : Int) st x).1 :=
  step_inv file st hinv hF x hx

/-- every state reachable from the empty cache, by any interleaving of any clients, is truthful -/
theorem reachable_inv (file : Bytes) (hF : IsI64 (file.length : Int)) (steps : List Step)
    (hfed : ∀ x ∈ steps, x.Fed file) : Inv file (run (file.length : Int) State.empty steps).1 :=
  run_inv file hF steps State.empty (Inv.empty file) hfed

-- non-vacuity: a history that really caches, replaces a subset, and expires
example :
    let file : Bytes := [1, 2, 3, 4, 5, 6]
    (run 6 State.empty
      [.fetchSet [] none 1 2 ⟨2, false, [2, 3]⟩, .fetchSet [] none 0 4 ⟨4, false, [1, 2, 3, 4]⟩,
       .check [] none 1 2, .deleteOld [] none .all, .check [] none 1 2]).2
    = [.ret (.ok [2, 3]), .ret (.ok [1, 2, 3, 4]), .ret (.ok (slice file 1 2)), .unit, .missed] := by decide

/-! ## 2. transparency -/

/-- **Every answer of every step of every history is right**: position by position, the output of the history
    satisfies `OutOK` — a read inside the file returns exactly `file[start, start+ln)`, or `missed` (goes on to
    fetch), or the context error (only with a cancellable context), or the fetch error (only when this call's
    fetch failed); a read reaching outside the file returns the range error. -/
theorem getRange_transparent (file : Bytes) (hF : IsI64 (file.length : Int)) (steps : List Step)
    (hfed : ∀ x ∈ steps, x.Fed file) :
    Pointwise (OutOK file) steps (run (file.length : Int) State.empty steps).2 :=
  run_outs file hF steps State.empty (Inv.empty file) hfed

/-- the same, spelled out for the `i`-th step of a history when that step is either half of some client's
    `GetRange(start, ln)`: what the call may return -/
theorem getRange_call_transparent (file : Bytes) (hF : IsI64 (file.length : Int)) (steps : List Step)
    (hfed : ∀ x ∈ steps, x.Fed file) (i : Nat) (x : Step) (o : Out)
    (hx : steps[i]? = some x) (ho : (run (file.length : Int) State.empty steps).2[i]? = some o)
    (ks : Order) (ctx : Ctx) (start ln : Int)
    (hget : x = .check ks ctx start ln ∨ ∃ f, x = .fetchSet ks ctx start ln f) :
    -- data is exactly the file's bytes, and only for ranges inside the file
    (∀ b, o = .ret (.ok b) → b = slice file start.toNat ln.toNat ∧ 0 ≤ start ∧ 0 ≤ ln ∧ start + ln ≤ (file.length : Int))
    -- reads reaching outside the file are refused, and nothing else is
    ∧ (o = .ret (.err .range) ↔ (start < 0 ∨ ln < 0 ∨ start + ln > (file.length : Int)))
    -- a fetch error only when the fetch of this very call failed
    ∧ (o = .ret (.err .fetch) → ∃ f, x = .fetchSet ks ctx start ln f ∧ f.failed = true)
    -- a context error only with a cancellable context
    ∧ (o = .ret (.err .ctx) → ctx ≠ none)
    -- never a crash, never one of the internal consistency errors
    ∧ o ≠ .ret .panic ∧ o ≠ .ret (.err .len) ∧ o ≠ .ret (.err .tooLarge) := by
  have h := (getRange_transparent file hF steps hfed).get i x o hx ho
  rcases hget with rfl | ⟨f, rfl⟩
  · simp only [OutOK] at h
    rcases h with ⟨rfl, hr⟩ | ⟨hr, rfl | ⟨rfl, hc⟩ | rfl⟩
    · exact ⟨(by simp), ⟨fun _ => hr, fun _ => rfl⟩, (by simp), (by simp), (by simp), (by simp), (by simp)⟩
    · exact ⟨(by simp), ⟨(by simp), (by intro h; omega)⟩, (by simp), (by simp), (by simp), (by simp), (by simp)⟩
    · exact ⟨(by simp), ⟨(by simp), (by intro h; omega)⟩, (by simp), (fun _ => hc), (by simp), (by simp), (by simp)⟩
    · exact ⟨(by intro b hb; simp at hb; exact ⟨hb.symm, hr⟩), ⟨(by simp), (by intro h; omega)⟩, (by simp), (by simp),
        (by simp), (by simp), (by simp)⟩
  · simp only [OutOK] at h
    rcases h with ⟨rfl, hr⟩ | ⟨hr, ⟨rfl, hf⟩ | ⟨rfl, hf⟩⟩
    · exact ⟨(by simp), ⟨fun _ => hr, fun _ => rfl⟩, (by simp), (by simp), (by simp), (by simp), (by simp)⟩
    · exact ⟨(by simp), ⟨(by simp), (by intro h; omega)⟩, (fun _ => ⟨f, rfl, hf⟩), (by simp), (by simp), (by simp), (by simp)⟩
    · exact ⟨(by intro b hb; simp at hb; exact ⟨hb.symm, hr⟩), ⟨(by simp), (by intro h; omega)⟩, (by simp), (by simp),
        (by simp), (by simp), (by simp)⟩

/-- a whole `GetRange` with nothing interleaved between its halves (the sequential reading), from any truthful state -/
theorem getRange_sequential (file : Bytes) (hF : IsI64 (file.length : Int)) (ks1 ks2 : Order) (ctx1 ctx2 : Ctx)
    (st : State) (hinv : Inv file st) (start ln : Int) (f : Fetch) (hs : IsI64 start) (hl : IsI64 ln)
    (hf : f.Honest file start ln) :
    let r := getRange ks1 ks2 ctx1 ctx2 (file.length : Int) st start ln f
    Inv file r.1 ∧
    (((start < 0 ∨ ln < 0 ∨ start + ln > (file.length : Int)) ∧ r = (st, .err .range))
     ∨ ((0 ≤ start ∧ 0 ≤ ln ∧ start + ln ≤ (file.length : Int)) ∧
         (r = (st, .err .ctx) ∧ ctx1 ≠ none ∨ f.failed = true ∧ r = (st, .err .fetch)
           ∨ r.2 = .ok (slice file start.toNat ln.toNat)))) :=
  getRange_correct file ks1 ks2 ctx1 ctx2 st hinv start ln f hF hs hl hf

example : (getRange [] [] none none 6 ⟨[⟨0, 4, [1, 2, 3, 4]⟩], 4⟩ 1 2 ⟨0, true, []⟩).2 = .ok [2, 3] := by decide

/-! ## 3. a failed fetch is not cached -/

/-- a failed remote fetch leaves the cache exactly as it was (and the call returns an error), in every state -/
theorem failed_fetch_not_cached (size : Int) (st : State) (ks : Order) (ctx : Ctx) (start ln : Int) (f : Fetch)
    (hf : f.failed = true) :
    (step size st (.fetchSet ks ctx start ln f)).1 = st ∧
    ((step size st (.fetchSet ks ctx start ln f)).2 = .ret (.err .fetch)
      ∨ (step size st (.fetchSet ks ctx start ln f)).2 = .ret (.err .range)) := by
  simp only [step, fetchSet, hf]
  split <;> simp

/-- … and therefore leaves no trace in anything that happens later, in any history -/
theorem failed_fetch_leaves_no_trace (size : Int) (st : State) (ks : Order) (ctx : Ctx) (start ln : Int) (f : Fetch)
    (hf : f.failed = true) (rest : List Step) :
    (run size st (.fetchSet ks ctx start ln f :: rest)).1 = (run size st rest).1 ∧
    (run size st (.fetchSet ks ctx start ln f :: rest)).2.tail = (run size st rest).2 := by
  have h := (failed_fetch_not_cached size st ks ctx start ln f hf).1
  simp only [run, h, List.tail_cons, and_self]

example : step 6 ⟨[⟨0, 2, [1, 2]⟩], 2⟩ (.fetchSet [] none 3 2 ⟨0, true, [0xEE, 0xEE]⟩)
    = (⟨[⟨0, 2, [1, 2]⟩], 2⟩, .ret (.err .fetch)) := by decide

/-! ## 4. reads reaching past the end are refused, never padded -/

/-- a read reaching outside the file is refused by both halves of `GetRange` (and by `SetRange`), in EVERY state —
    truthful or not — without touching the cache and without consulting the fetcher: no bytes are returned at all -/
theorem past_end_refused (size : Int) (st : State) (ks : Order) (ctx : Ctx) (start ln : Int)
    (hs : IsI64 start) (hl : IsI64 ln) (hout : start < 0 ∨ ln < 0 ∨ start + ln > size) :
    step size st (.check ks ctx start ln) = (st, .ret (.err .range))
    ∧ (∀ f, step size st (.fetchSet ks ctx start ln f) = (st, .ret (.err .range)))
    ∧ (∀ ks2 ctx2 f, getRange ks ks2 ctx ctx2 size st start ln f = (st, .err .range))
    ∧ (∀ v, step size st (.set ks ctx start ln v) = (st, .set .errRange)) := by
  have hv := wrap64_invalid start ln size hs hl hout
  refine ⟨?_, ?_, ?_, ?_⟩
  · simp [step, check, hv]
  · intro f; simp [step, fetchSet, hv]
  · intro ks2 ctx2 f; simp [getRange, check, hv]
  · intro v; simp [step, setRange, hv]

example : step 6 State.empty (.check [] none 4 3) = (State.empty, .ret (.err .range)) := by decide
example : step 6 State.empty (.check [] none 9223372036854775807 1) = (State.empty, .ret (.err .range)) := by decide

/-! ## 5. ReadAt of the remote file (remote-file.go) -/

/-- `HTTPSingleFileRemoteReaderAt.ReadAt(p, off)` over a truthful cache: `(0, io.EOF)` at or after the end; a read
    reaching past the end (or a negative offset) is refused with `n = 0`; otherwise all `len(p)` bytes of the file,
    or `(0, err)` when this call's fetch failed.  Never a partial read, never padding, never io.ErrUnexpectedEOF. -/
theorem readAt_spec (file : Bytes) (hF : IsI64 (file.length : Int)) (ks1 ks2 : Order) (st : State) (hinv : Inv file st)
    (pLen : Nat) (off : Int) (f : Fetch) (ho : IsI64 off) (hp : IsI64 (pLen : Int)) (hf : f.Honest file off pLen) :
    let r := readAt ks1 ks2 (file.length : Int) st pLen off f
    Inv file r.1 ∧
    ((off ≥ (file.length : Int) ∧ r = (st, .ret [] .eof))
     ∨ (off < (file.length : Int) ∧ (off < 0 ∨ off + pLen > (file.length : Int)) ∧ r = (st, .ret [] (.other .range)))
     ∨ (0 ≤ off ∧ off + pLen ≤ (file.length : Int) ∧ off < (file.length : Int) ∧
         (r.2 = .ret (slice file off.toNat pLen) .nil ∨ f.failed = true ∧ r = (st, .ret [] (.other .fetch))))) :=
  readAt_correct file ks1 ks2 st hinv pLen off f hF ho hp hf

example : (readAt [] [] 6 State.empty 2 5 ⟨2, false, [6, 0]⟩).2 = .ret [] (.other .range) := by decide
example : (readAt [] [] 6 State.empty 2 6 ⟨2, false, [0, 0]⟩).2 = .ret [] .eof := by decide
example : (readAt [] [] 6 State.empty 2 4 ⟨2, false, [5, 6]⟩).2 = .ret [5, 6] .nil := by decide

/-- the HTTP fetcher `remoteReadAt` (with the status check of fix C17-1) honours the fetcher contract against any
    server whose 206 answers carry the file's bytes — whatever else the server does (transport errors, any other
    status with any body, bodies cut short) is turned into a failed fetch -/
theorem remoteReadAt_honours_contract (file : Bytes) (off ln : Nat) (attempts : List HttpResp)
    (hsrv : HonestServer file off ln attempts) :
    (remoteReadAt true ln attempts).Honest file off ln := by
  intro hok _ _ _
  simpa using remoteReadAt_contract file off ln attempts hsrv hok

/-- the pinned tree's `remoteReadAt` does not look at the status code and breaks the contract: the body of an error
    response is handed to the cache as file content (the defect repaired by /verif/fixes/C17-1.patch) -/
theorem remoteReadAt_without_status_check_breaks_contract :
    ∃ (file : Bytes) (off ln : Nat) (attempts : List HttpResp), HonestServer file off ln attempts ∧
      (remoteReadAt false ln attempts).failed = false ∧ (remoteReadAt false ln attempts).buf ≠ slice file off ln := by
  refine ⟨[1, 2, 3, 4], 1, 2, [.resp 500 [60, 104, 116]], ?_, by decide, by decide⟩
  intro body hb
  simp at hb

example : remoteReadAt true 2 [.resp 500 [60, 104, 116]] = ⟨0, true, [0, 0]⟩ := by decide
example : remoteReadAt true 2 [.transportErr, .resp 206 [2, 3, 4]] = ⟨2, false, [2, 3]⟩ := by decide
example : (remoteReadAt true 2 [.transportErr, .transportErr, .transportErr, .resp 206 [2, 3, 4]]).failed = true := by decide

/-- end to end: `ReadAt` through the cache through `remoteReadAt` against an honest-or-failing HTTP server -/
theorem http_readAt_transparent (file : Bytes) (hF : IsI64 (file.length : Int)) (ks1 ks2 : Order) (st : State)
    (hinv : Inv file st) (pLen : Nat) (off : Int) (attempts : List HttpResp) (ho : IsI64 off) (hp : IsI64 (pLen : Int))
    (hsrv : HonestServer file off.toNat pLen attempts) :
    let f := remoteReadAt true pLen attempts
    let r := readAt ks1 ks2 (file.length : Int) st pLen off f
    Inv file r.1 ∧
    ((off ≥ (file.length : Int) ∧ r = (st, .ret [] .eof))
     ∨ (off < (file.length : Int) ∧ (off < 0 ∨ off + pLen > (file.length : Int)) ∧ r = (st, .ret [] (.other .range)))
     ∨ (0 ≤ off ∧ off + pLen ≤ (file.length : Int) ∧ off < (file.length : Int) ∧
         (r.2 = .ret (slice file off.toNat pLen) .nil ∨ f.failed = true ∧ r = (st, .ret [] (.other .fetch))))) := by
  intro f r
  apply readAt_correct file ks1 ks2 st hinv pLen off f hF ho hp
  intro hok h0 _ _
  have := remoteReadAt_contract file off.toNat pLen attempts hsrv hok
  simpa using this

/-- the fetcher contract is needed: `GetRange` ignores the `n` the fetcher returns, so a fetcher answering
    `(n < len(p), nil)` gets the unfilled tail of the buffer returned — and cached — as file content -/
theorem fetcher_contract_is_needed :
    ∃ (file : Bytes) (start ln : Int) (f : Fetch), f.failed = false ∧ (f.n : Int) < ln ∧
      ∃ b, (getRange [] [] none none (file.length : Int) State.empty start ln f).2 = .ok b ∧ b ≠ slice file start.toNat ln.toNat :=
  ⟨[1, 2, 3, 4], 0, 4, ⟨2, false, [1, 2, 0, 0]⟩, rfl, by decide, [1, 2, 0, 0], by decide, by decide⟩

/-! ## 6. structure of every reachable state — no assumption at all on fetcher, callers, contexts -/

/-- in every state reachable by any history whatsoever: every entry lies inside the file and holds exactly
    `end - start` bytes (so the sub-slice arithmetic of a superset hit cannot go out of bounds), no cached range
    contains another one (in particular map keys are unique), and `occupiedSpace` is exactly the number of cached
    bytes (mod 2^64) — it never underflows -/
theorem reachable_wf (size : Int) (steps : List Step) : WF size (run size State.empty steps).1 :=
  run_wf size steps State.empty (WF.empty size)

example : (run 6 State.empty [.set [] none 0 2 [9, 9], .set [] none 1 4 [7, 7, 7, 7], .set [] none 0 6 [1, 2, 3, 4, 5, 6],
    .set [] none 2 2 [0, 0]]).1 = ⟨[⟨0, 6, [1, 2, 3, 4, 5, 6]⟩], 6⟩ := by decide

/-! ## 7. with live contexts, neither the answers nor the state (as a set) depend on the map iteration order -/

theorem setRange_order_independent (ks ks' : Order) (size : Int) (st : State) (hwf : WF size st) (start ln : Int) (v : Bytes) :
    (setRange ks none size st start ln v).2 = (setRange ks' none size st start ln v).2 ∧
    (setRange ks none size st start ln v).1.cache.Perm (setRange ks' none size st start ln v).1.cache ∧
    (setRange ks none size st start ln v).1.occ = (setRange ks' none size st start ln v).1.occ :=
  RC.setRange_order_independent ks ks' size st hwf start ln v

theorem deleteOld_order_independent (ks ks' : Order) (ex : Entry → Bool) (size : Int) (st : State) (hwf : WF size st) :
    (deleteOld ks none ex st).cache.Perm (deleteOld ks' none ex st).cache ∧
    (deleteOld ks none ex st).occ = (deleteOld ks' none ex st).occ :=
  RC.deleteOld_order_independent ks ks' ex size st hwf

theorem check_order_independent (file : Bytes) (hF : IsI64 (file.length : Int)) (ks ks' : Order) (st : State)
    (hinv : Inv file st) (start ln : Int) (hs : IsI64 start) (hl : IsI64 ln) :
    check ks none (file.length : Int) st start ln = check ks' none (file.length : Int) st start ln := by
  by_cases hin : 0 ≤ start ∧ 0 ≤ ln ∧ start + ln ≤ (file.length : Int)
  · rw [check_live file ks st hinv start ln hF hs hl hin.1 hin.2.1 hin.2.2,
        check_live file ks' st hinv start ln hF hs hl hin.1 hin.2.1 hin.2.2]
  · have hv := wrap64_invalid start ln (file.length : Int) hs hl (by omega)
    simp [check, hv]

-- the early return of the Go loop matters only outside reachable states: with nested entries the order shows
example : (setRange [] none 6 ⟨[⟨1, 2, [2]⟩, ⟨0, 6, [1, 2, 3, 4, 5, 6]⟩], 7⟩ 1 3 [2, 3, 4]).1
        ≠ (setRange [1] none 6 ⟨[⟨1, 2, [2]⟩, ⟨0, 6, [1, 2, 3, 4, 5, 6]⟩], 7⟩ 1 3 [2, 3, 4]).1 := by decide

/-! ## 8. the cache does cache -/

/-- after a successful fetch (live context) every read nested in the fetched range is a hit with the file's bytes —
    for every iteration order, with no further fetch -/
theorem fetched_range_is_cached (file : Bytes) (hF : IsI64 (file.length : Int)) (ks ks' : Order) (st : State)
    (hinv : Inv file st) (start ln : Int) (f : Fetch) (hs : IsI64 start) (hl : IsI64 ln) (hf : f.Honest file start ln)
    (hok : f.failed = false) (h0 : 0 ≤ start) (h1 : 0 ≤ ln) (h2 : start + ln ≤ (file.length : Int))
    (s' ln' : Int) (hs' : start ≤ s') (hl' : 0 ≤ ln') (he' : s' + ln' ≤ start + ln) :
    check ks' none (file.length : Int) (fetchSet ks none (file.length : Int) st start ln f).1 s' ln'
      = some (.ok (slice file s'.toNat ln'.toNat)) := by
  have hfs := fetchSet_correct file ks none st hinv start ln f hF hs hl hf
  have hv : invalidB start (wrap64 (start + ln)) (file.length : Int) = false := by
    simp only [invalidB, Bool.or_eq_false_iff, decide_eq_false_iff_not]
    unfold wrap64; unfold IsI64 at hs hl hF; omega
  obtain ⟨he, _, _, _⟩ := wrap64_valid start ln _ hs hl hv
  have hb := hf hok h0 h1 h2
  have hst : (fetchSet ks none (file.length : Int) st start ln f).1 = (setRange ks none (file.length : Int) st start ln f.buf).1 := by
    simp [fetchSet, hv, hok]
  have hlen : (f.buf.length : Int) = wrap64 (start + ln) - start := by
    rw [hb, slice_length _ _ _ (by omega), he]; omega
  obtain ⟨en, hen, hcov⟩ := setRange_live_covers ks (file.length : Int) st start ln f.buf hv hlen
  have hI64s : IsI64 s' := by unfold IsI64 at *; omega
  have hI64l : IsI64 ln' := by unfold IsI64 at *; omega
  rw [check_live file ks' _ hfs.1 s' ln' hF hI64s hI64l (by omega) hl' (by omega)]
  have hany : (fetchSet ks none (file.length : Int) st start ln f).1.cache.any
      (fun en => containsB en.s en.e s' (s' + ln')) = true := by
    rw [List.any_eq_true]
    refine ⟨en, by rw [hst]; exact hen, ?_⟩
    apply containsB_trans hcov
    rw [he]
    simp only [containsB, Bool.and_eq_true, decide_eq_true_eq]
    omega
  rw [hany, if_pos rfl]

example : check [] none 6 (fetchSet [] none 6 State.empty 1 4 ⟨4, false, [2, 3, 4, 5]⟩).1 2 2 = some (.ok [3, 4]) := by decide

end C17

/-! Property C17 — theorems (statements live here, helper lemmas in Faithful/Lib) -/
namespace C17
end C17

/-! Property C10 — theorems (statements live here, helper lemmas in Faithful/Lib) -/
namespace C10
end C10

import Faithful.Lib.EpochLoad
import Faithful.Lib.IndexMeta
import Faithful.Properties.C01

/-!
# C10 — an epoch is served only from indexes built for that epoch and CAR

* `EpochLoad.load : Config → FileSet → Except Err Loaded` is `NewEpochFromConfig` on the identities carried by the configured
  index files.  It is *defined* as the interpretation of `Generated.loadChecks`, the ordered list of opens, kind
  assertions and epoch / root comparisons that /verif/harness/extract/loadchecks.go reads out of epoch.go,
  indexes/index-*.go and gsfa/gsfa-read.go on every run (anything it cannot classify becomes `.unknown`).
* `generated_chain_ok` is the obligation that ties the theorem to the source: a decidable test of the extracted chain (every
  opened role that can carry a kind / an epoch / a root has the corresponding check under guards that hold, in each of the
  8 configuration modes × old-format combinations; the root comparisons chain up to one common value).  Removing a
  comparison from /repo makes the `decide` fail.
  **On the pinned tree it fails**: the gsfa `pubkey-to-offset-and-size.index` is opened (kind asserted) but its epoch and
  root CID are never compared (no `.checkEpoch .gsfaPubkeyIndex` / `.checkRoot .gsfaPubkeyIndex` in the chain).  With
  /verif/fixes/C10-1.patch applied the two steps are extracted and everything below checks.
* `load_sound` is then the property, for every configuration and every set of files.
* `meta_roundtrip`, `ident_roundtrip`, `plain_roundtrip`: what the writers record is read back unchanged.
* `wrong_car_fails`: whatever CAR is behind the indexes, a CID-addressed fetch only returns the data of a section labelled
  with the requested CID (re-export of C01.getNodeByCid_sound).
-/
namespace C10
open B EpochLoad Generated

/-- nothing in NewEpochFromConfig / OpenWithReader_* / NewGsfaReader touching identity data was left unclassified -/
theorem generated_no_unknown : (Generated.loadChecks.all fun p => !isUnknown p.2) = true := by decide

/-- the extracted chain passes the static test (this is where a removed comparison shows) -/
theorem generated_chain_ok : chainOK Generated.loadChecks = true := by decide

/-- **load_sound**: if `NewEpochFromConfig` succeeds then, for every index file it opened,
    the kind recorded in a compact index is the one of its role, every recorded epoch is the configured epoch, every
    recorded root CID is the root the epoch serves (so all recorded roots are equal), and in Filecoin mode that root is the
    configured one.  All configurations (CAR / Filecoin mode, deprecated indexes, gsfa present or not), all files. -/
theorem load_sound (cfg : Config) (fs : FileSet) (L : Loaded) (h : load cfg fs = .ok L) :
    (∀ r, opened cfg.mode r = true → ∀ k, (fs r).kind? = some k → k = expectedKind r) ∧
    (∀ r, opened cfg.mode r = true → ∀ e, (fs r).epoch? = some e → e = cfg.epoch) ∧
    (∀ r r', opened cfg.mode r = true → opened cfg.mode r' = true →
        ∀ x y, (fs r).root? = some x → (fs r').root? = some y → x = y) ∧
    (∀ r, opened cfg.mode r = true → ∀ x, (fs r).root? = some x → L.root = some x) ∧
    (cfg.mode.filecoin = true → L.root = some cfg.filecoinRoot) ∧
    L.epoch = cfg.epoch := by
  obtain ⟨hk, he, hr, hf, hep⟩ := loadWith_sound cfg fs Generated.loadChecks generated_chain_ok L h
  refine ⟨hk, he, ?_, hr, hf, hep⟩
  intro r r' ho ho' x y hx hy
  have h1 := hr r ho x hx
  have h2 := hr r' ho' y hy
  rw [h1] at h2
  exact Option.some.inj h2

/-- contrapositive, the way the property is worded: a file of the wrong kind, of another epoch, or of another CAR than
    some other opened file makes loading fail -/
theorem mismatch_fails (cfg : Config) (fs : FileSet) (r : LRole) (ho : opened cfg.mode r = true)
    (hbad : (∃ k, (fs r).kind? = some k ∧ k ≠ expectedKind r) ∨
            (∃ e, (fs r).epoch? = some e ∧ e ≠ cfg.epoch) ∨
            (∃ r' x y, opened cfg.mode r' = true ∧ (fs r).root? = some x ∧ (fs r').root? = some y ∧ x ≠ y) ∨
            (∃ x, cfg.mode.filecoin = true ∧ (fs r).root? = some x ∧ x ≠ cfg.filecoinRoot)) :
    ∀ L, load cfg fs ≠ .ok L := by
  intro L h
  obtain ⟨hk, he, hrr, hr, hf, _⟩ := load_sound cfg fs L h
  rcases hbad with ⟨k, h1, h2⟩ | ⟨e, h1, h2⟩ | ⟨r', x, y, ho', h1, h2, h3⟩ | ⟨x, hm, h1, h2⟩
  · exact h2 (hk r ho k h1)
  · exact h2 (he r ho e h1)
  · exact h3 (hrr r r' ho ho' x y h1 h2)
  · have := hr r ho x h1
    rw [hf hm] at this
    exact h2 (Option.some.inj this).symm

/-- **meta_roundtrip**: `UnmarshalBinary (MarshalBinary m) = m` whenever `MarshalBinary` succeeds
    (≤ 255 pairs, keys/values ≤ 255 bytes; beyond that it returns an error) -/
theorem meta_roundtrip (m : IndexMeta.KVs) (b : Bytes) (h : IndexMeta.encode m = some b) : IndexMeta.decode b = some m :=
  IndexMeta.decode_encode m b h

/-- kind, epoch (8-byte little endian), root CID bytes and network written by `setDefaultMetadata` are what
    `getDefaultMetadata` returns from the sealed header -/
theorem ident_roundtrip (i : IndexMeta.Ident) (he : i.epoch < 2 ^ 64) (hk : i.kind.length ≤ 255)
    (hr : i.root.length ≤ 255) (hn : i.network.length ≤ 255) :
    ∃ b, IndexMeta.encode (IndexMeta.defaultMeta i) = some b ∧ (IndexMeta.decode b).bind IndexMeta.readDefault = some i :=
  IndexMeta.ident_roundtrip i he hk hr hn

/-- epoch, root CID and network written into a gsfa manifest / sig-exists header are what `GetUint64`, `GetCid`,
    `GetString` return -/
theorem plain_roundtrip (epoch : Nat) (root network : Bytes) (he : epoch < 2 ^ 64) (hr : root.length ≤ 255)
    (hn : network.length ≤ 255) :
    ∃ b, IndexMeta.encode (IndexMeta.plainMeta epoch root network) = some b ∧
      ∃ m, IndexMeta.decode b = some m ∧ IndexMeta.getUint64 m IndexMeta.keyEpoch = .val epoch ∧
        IndexMeta.get m IndexMeta.keyRootCid = some root ∧ IndexMeta.get m IndexMeta.keyNetwork = some network ∧
        IndexMeta.get m IndexMeta.keyKind = none :=
  IndexMeta.plain_roundtrip epoch root network he hr hn

/-- **wrong_car_fails**: whatever file sits behind the indexes (`car` is arbitrary — in particular a CAR the indexes were
    not built from), `Epoch.GetNodeByCid c` returns data only out of a section of that file that is labelled with `c`;
    otherwise it fails.  (Re-export of C01.getNodeByCid_sound.) -/
theorem wrong_car_fails (hf : CI.HF) (ix : IndexAll.IndexSet) (car c d : Bytes)
    (h : IndexAll.getNodeByCid hf ix car c = .ok d) :
    ∃ off sz, off + sz ≤ car.length ∧ Car.parseSection (slice car off sz) = some (c, d) :=
  C01.getNodeByCid_sound hf ix car c d h

/-! ### non-vacuity -/

def rootA : Bytes := [1, 113, 18, 32, 7]
def rootB : Bytes := [1, 113, 18, 32, 9]
def mainnet : Bytes := [109, 97, 105, 110, 110, 101, 116]

/-- a complete, consistent epoch-5 file set -/
def goodFiles (e : Nat) (root : Bytes) : FileSet
  | .cidToOffsetAndSize => .compact (expectedKind .cidToOffsetAndSize) e root mainnet
  | .slotToCid => .compact (expectedKind .slotToCid) e root mainnet
  | .sigToCid => .compact (expectedKind .sigToCid) e root mainnet
  | .sigExists => .bucketteer (some e) (some root) (some mainnet)
  | .gsfaManifest => .manifest Generated.gsfaManifestVersion (some e) (some root) (some mainnet)
  | .gsfaPubkeyIndex => .compact (expectedKind .gsfaPubkeyIndex) e root mainnet
  | .slotToBlocktime => .blocktime e

def carCfg : Config := ⟨⟨false, false, true⟩, 5, []⟩
def fcCfg : Config := ⟨⟨true, false, true⟩, 5, rootA⟩

def outcome (r : Except Err Loaded) : Option (Option Bytes) × Option Err :=
  match r with
  | .ok L => (some L.root, none)
  | .error e => (none, some e)

/-- the hypothesis of `load_sound` is satisfiable: consistent files load, in CAR mode and in Filecoin mode -/
example : outcome (load carCfg (goodFiles 5 rootA)) = (some (some rootA), none) := by decide
example : outcome (load fcCfg (goodFiles 5 rootA)) = (some (some rootA), none) := by decide
/-- … and loading does reject: another epoch's pubkey index inside this epoch's gsfa directory -/
example : outcome (load carCfg fun r => if r = .gsfaPubkeyIndex then goodFiles 6 rootA r else goodFiles 5 rootA r)
    = (none, some (.reject .gsfaPubkeyIndex)) := by decide
/-- another CAR's pubkey index -/
example : outcome (load carCfg fun r => if r = .gsfaPubkeyIndex then goodFiles 5 rootB r else goodFiles 5 rootA r)
    = (none, some (.reject .gsfaPubkeyIndex)) := by decide
/-- a sig-to-cid file in the slot-to-cid role -/
example : outcome (load carCfg fun r => if r = .slotToCid then goodFiles 5 rootA .sigToCid else goodFiles 5 rootA r)
    = (none, some (.reject .slotToCid)) := by decide
/-- Filecoin mode with another configured root -/
example : outcome (load fcCfg (goodFiles 5 rootB)) = (none, some .filecoinRoot) := by decide
/-- the chain is not trivial -/
example : Generated.loadChecks.length > 25 := by decide
/-- metadata: a concrete identity goes through bytes and back -/
example : (IndexMeta.encode (IndexMeta.defaultMeta ⟨expectedKind .slotToCid, 5, rootA, mainnet⟩)).bind IndexMeta.decode
    = some (IndexMeta.defaultMeta ⟨expectedKind .slotToCid, 5, rootA, mainnet⟩) := by decide
/-- `MarshalBinary` does refuse what the one-byte lengths cannot hold -/
example : IndexMeta.encode [(List.replicate 256 0, [])] = none := by
  unfold IndexMeta.encode
  rw [if_neg]
  intro h
  have := (h.2 _ (List.mem_singleton.mpr rfl)).1
  rw [List.length_replicate] at this
  exact absurd this (by decide)

end C10

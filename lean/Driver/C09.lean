import Driver.Util
import Faithful.Lib.EpochSet
open Drv EpochSet

namespace DrvC09

/-!
model side of the C09 line protocol (one answer line per op line); the state is `EpochSet.St`, every answer is
computed with the definitions the theorems of `Faithful/Properties/C09.lean` are about.

```
case <name>                              -> ok                      (fresh MultiEpoch)
add|replace|replaceoradd e id path g s   -> ok | exists | notfound  (g, s ∈ {0,1}: has gsfa reader / sig-exists index)
remove e                                 -> ok | notfound
removebyconfig path pick                 -> removed e | notfound | illegal-pick      (pick = epoch or "-")
numbers | version | gsfa | bucketteers | closed   -> space separated list, "-" when empty
mostrecent | oldest | get e              -> id n | none
mostrecentnumber                         -> n | none
has e                                    -> true | false
count                                    -> n
concurrent …                             -> ok   (the concurrency phase of the harness: all workers completed, every
                                                  observation satisfied the invariants proved for the model)
```
-/

def showList (l : List Nat) : String :=
  if l.isEmpty then "-" else " ".intercalate (l.map toString)

def showEp : Option Ep → String
  | some v => s!"id {v.id}"
  | none => "none"

def showRes : Res → String
  | .ok => "ok"
  | .alreadyExists => "exists"
  | .notFound => "notfound"
  | .removed e => s!"removed {e}"
  | .illegalPick => "illegal-pick"

def mkEp (id path g sg : String) : Ep := { id := id.toNat!, path := path, gsfa := g == "1", sig := sg == "1" }

def write (s : St) (op : EpochOp) : St × Option String := (step s op, some (showRes (result s op)))

def stepLine (s : St) (l : String) : St × Option String :=
  match words l with
  | "case" :: _ => ({}, some "ok")
  | ["add", e, id, path, g, sg] => write s (.add e.toNat! (mkEp id path g sg))
  | ["replace", e, id, path, g, sg] => write s (.replace e.toNat! (mkEp id path g sg))
  | ["replaceoradd", e, id, path, g, sg] => write s (.replaceOrAdd e.toNat! (mkEp id path g sg))
  | ["remove", e] => write s (.remove e.toNat!)
  | ["removebyconfig", path, pick] => write s (.removeByConfig path (if pick == "-" then none else some pick.toNat!))
  | ["numbers"] => (s, some (showList (numbers s)))
  | ["version"] => (s, some (showList (numbers s)))
  | ["gsfa"] => (s, some (showList (gsfaNumbers s)))
  | ["bucketteers"] => (s, some (showList (bucketteerNumbers s)))
  | ["closed"] => (s, some (showList s.closed))
  | ["mostrecent"] => (s, some (showEp (mostRecent s)))
  | ["oldest"] => (s, some (showEp (oldest s)))
  | ["mostrecentnumber"] => (s, some (match numbers s with | [] => "none" | e :: _ => toString e))
  | ["get", e] => (s, some (showEp (getEpoch s e.toNat!)))
  | ["has", e] => (s, some (toString (hasEpoch s e.toNat!)))
  | ["count"] => (s, some (toString (count s)))
  | "concurrent" :: _ => (s, some "ok")
  | "concurrent-single" :: _ => (s, some "ok")   -- stable_epoch_unaffected: every schedule answers as the idle server
  | _ => (s, some "bad-op")

def run (lines : Array String) : IO Unit := do
  let out ← IO.getStdout
  let mut st : St := {}
  for l in lines do
    let (st', o) := stepLine st l
    st := st'
    match o with
    | some s => out.putStrLn s
    | none => pure ()

end DrvC09

import Driver.Util
import Faithful.Lib.Paging
import Std.Data.HashMap
open Drv Paging

/-!
model side of the C07 line protocol (one answer line per op line)

  case …                                         → ok
  hist <addr> e=<epoch> absent                   → ok      the address is not in that epoch's index
  hist <addr> e=<epoch> <rec>|<rec>|…            → ok      record chain, newest record first; <rec> = sig@slot,sig@slot… newest first
  q   <view> <addr> <limit> <before|-> <until|-> → ok <epoch>:sig,sig;<epoch>:…   GetBeforeUntil      (`ok -` = empty, `err`)
  qs  <view> <addr> <limit> <before> <until>     → same                            GetBeforeUntilSlot (repaired)
  rpc <view> <addr> <limit|-> <before|-> <until|-> → ok sig,sig,…                  JSON-RPC handler (repaired)

<view> = the loaded epochs in the order they are supplied to the multi-epoch reader, comma separated;
`!` after an epoch = that reader's index lookup fails.
-/
namespace DrvC07

abbrev Db := Std.HashMap String (List (Nat × Lookup String))

def parseRec (s : String) : List (Tx String) :=
  (s.splitOn ",").filterMap fun e =>
    match e.splitOn "@" with
    | [sig, slot] => some ⟨sig, slot.toNat!⟩
    | _ => none

def parseLookup (s : String) : Lookup String :=
  if s = "absent" then .notFound
  else if s = "failed" then .failed
  else .found ((s.splitOn "|").map parseRec)

def parseView (s : String) : List (Nat × Bool) :=
  (s.splitOn ",").map fun p =>
    if p.endsWith "!" then ((p.dropEnd 1).toString.toNat!, true) else (p.toNat!, false)

def histOf (db : Db) (view : List (Nat × Bool)) (addr : String) : Hist String :=
  let mine := db.getD addr []
  view.map fun (e, broken) =>
    if broken then (e, Lookup.failed)
    else match mine.find? (fun x => x.1 == e) with
      | some x => (e, x.2)
      | none => (e, Lookup.notFound)

def opt (s : String) : Option String := if s = "-" then none else some s

def canon (view : List (Nat × Bool)) (out : Tagged String) : String :=
  if out.isEmpty then "ok -" else
  let parts := view.filterMap fun (e, _) =>
    let g := group out e
    if g.isEmpty then none else some (s!"{e}:" ++ ",".intercalate (g.map (·.sig)))
  "ok " ++ ";".intercalate parts

def step (db : Db) (l : String) : Db × String :=
  match words l with
  | "case" :: _ => (db, "ok")
  | ["hist", addr, e, lk] =>
    let epoch := (e.drop 2).toString.toNat!
    (db.insert addr ((db.getD addr []).filter (fun x => x.1 != epoch) ++ [(epoch, parseLookup lk)]), "ok")
  | ["q", view, addr, limit, b, u] =>
    let v := parseView view
    match iterBeforeUntil (histOf db v addr) (limit.toInt?.getD 0) (opt b) (opt u) with
    | .ok out => (db, canon v out)
    | .error _ => (db, "err")
  | ["qs", view, addr, limit, b, u] =>
    let v := parseView view
    match iterBeforeUntilSlot true (histOf db v addr) (limit.toInt?.getD 0) b.toNat! u.toNat! with
    | .ok out => (db, canon v out)
    | .error _ => (db, "err")
  | ["rpc", view, addr, limit, b, u] =>
    let v := parseView view
    match handler (histOf db v addr) (if limit = "-" then 0 else limit.toInt?.getD 0) (opt b) (opt u) with
    | .ok sigs => (db, if sigs.isEmpty then "ok -" else "ok " ++ ",".intercalate sigs)
    | .error _ => (db, "err")
  | _ => (db, "bad-op")

/-- model side of the C07 line protocol: one answer line per op line -/
def run (lines : Array String) : IO Unit := do
  let out ← IO.getStdout
  let mut db : Db := {}
  for l in lines do
    let (db', ans) := step db l
    db := db'
    out.putStrLn ans

end DrvC07

import Driver.C02

def main : IO UInt32 := do
  let lines ← Drv.readAll (← IO.getStdin) #[]
  DrvC02.run lines
  return 0

import Driver.C16

def main : IO UInt32 := do
  let lines ← Drv.readAll (← IO.getStdin) #[]
  DrvC16.run lines
  return 0

import Driver.C17

def main : IO UInt32 := do
  let lines ← Drv.readAll (← IO.getStdin) #[]
  DrvC17.run lines
  return 0

import Driver.C08

def main : IO UInt32 := do
  let lines ← Drv.readAll (← IO.getStdin) #[]
  DrvC08.run lines
  return 0

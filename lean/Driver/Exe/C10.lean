import Driver.C10

def main : IO UInt32 := do
  let lines ← Drv.readAll (← IO.getStdin) #[]
  DrvC10.run lines
  return 0

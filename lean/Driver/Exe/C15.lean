import Driver.C15

def main : IO UInt32 := do
  let lines ← Drv.readAll (← IO.getStdin) #[]
  DrvC15.run lines
  return 0

import Driver.C07

def main : IO UInt32 := do
  let lines ← Drv.readAll (← IO.getStdin) #[]
  DrvC07.run lines
  return 0

import Driver.C18

def main : IO UInt32 := do
  let lines ← Drv.readAll (← IO.getStdin) #[]
  DrvC18.run lines
  return 0

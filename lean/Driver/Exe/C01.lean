import Driver.C01

def main : IO UInt32 := do
  let lines ← Drv.readAll (← IO.getStdin) #[]
  DrvC01.run lines
  return 0

import Driver.C14

def main : IO UInt32 := do
  let lines ← Drv.readAll (← IO.getStdin) #[]
  DrvC14.run lines
  return 0

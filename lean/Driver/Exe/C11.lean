import Driver.C11

def main : IO UInt32 := do
  let lines ← Drv.readAll (← IO.getStdin) #[]
  DrvC11.run lines
  return 0

import Driver.C13

def main : IO UInt32 := do
  let lines ← Drv.readAll (← IO.getStdin) #[]
  DrvC13.run lines
  return 0

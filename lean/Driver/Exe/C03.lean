import Driver.C03

def main : IO UInt32 := do
  let lines ← Drv.readAll (← IO.getStdin) #[]
  DrvC03.run lines
  return 0

import Driver.C19

def main : IO UInt32 := do
  let lines ← Drv.readAll (← IO.getStdin) #[]
  DrvC19.run lines
  return 0

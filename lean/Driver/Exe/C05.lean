import Driver.C05

def main : IO UInt32 := do
  let lines ← Drv.readAll (← IO.getStdin) #[]
  DrvC05.run lines
  return 0

import Driver.C09

def main : IO UInt32 := do
  let lines ← Drv.readAll (← IO.getStdin) #[]
  DrvC09.run lines
  return 0

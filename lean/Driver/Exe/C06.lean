import Driver.C06

def main : IO UInt32 := do
  let lines ← Drv.readAll (← IO.getStdin) #[]
  DrvC06.run lines
  return 0

import Driver.C12

def main : IO UInt32 := do
  let lines ← Drv.readAll (← IO.getStdin) #[]
  DrvC12.run lines
  return 0

import Driver.C04

def main : IO UInt32 := do
  let lines ← Drv.readAll (← IO.getStdin) #[]
  DrvC04.run lines
  return 0

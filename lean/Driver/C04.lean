import Driver.Util
import Faithful.Lib.CompactIndex
open Drv CI

namespace DrvC04

structure St where
  vs : Nat := 0
  declared : Nat := 0
  newOk : Bool := false
  mta : Array (Bytes × Bytes) := #[]
  kvs : Array KV := #[]
  insErr : Bool := false
  ix : Option IndexA := none
  file : File := #[]
  db : Option DB := none

def showLook : Look → String
  | .found v => s!"found {hex v}"
  | .notFound => "notfound"
  | .hang => "hang"
  | .err => "err"

def step (st : St) (l : String) : St × Option String :=
  match words l with
  | ["new", a, b] =>
    let vs := a.toNat!; let d := b.toNat!
    let ok := !(vs = 0 ∨ vs > 255 - Generated.hashSize ∨ d = 0)
    ({ vs := vs, declared := d, newOk := ok }, some (if ok then "ok" else "err"))
  | ["meta", k, v] =>
    if !st.newOk then (st, some "nobuilder")
    -- indexmeta.Meta.Add: at most MaxNumKVs pairs, keys and values at most MaxKeySize / MaxValueSize bytes
    else if st.mta.size ≥ Generated.metaMaxNumKVs ∨ (unhex k).length > Generated.metaMaxKeySize ∨ (unhex v).length > Generated.metaMaxValueSize then (st, some "err")
    else ({ st with mta := st.mta.push (unhex k, unhex v) }, some "ok")
  | ["ins", k, v] =>
    if !st.newOk then (st, some "nobuilder") else
    let key := unhex k
    -- Insert: a key the spill file cannot represent (length > 65535) is an error; a key whose bucket hash
    -- does not terminate is `hang`
    if key.length > 65535 then (st, some "err")
    else match HF.real.bucket key (numBucketsFor st.declared) with
      | none => (st, some "hang")
      | some _ => ({ st with kvs := st.kvs.push ⟨key, unhex v⟩ }, some "ok")
  | ["seal"] =>
    if !st.newOk then (st, some "nobuilder") else
    match buildA HF.real st.vs st.declared st.mta.toList st.kvs.toList with
    | .error e => ({ st with ix := none, db := none }, some s!"err {repr e}")
    | .ok ix =>
      let f := (encode ix).toArray
      let db := match openB f with | .ok db => some db | _ => none
      ({ st with ix := some ix, file := f, db := db },
        some s!"file {f.size} {hexNat (H.xxhash64 f.toList).toNat 16} open={db.isSome}")
  | ["lookup", k] =>
    match st.ix, st.db with
    | some ix, some db =>
      let key := unhex k
      let a := lookupA HF.real ix key
      let b := lookupB HF.real st.file db key
      (st, some (showLook b ++ (if a = b then "" else " MODEL-LAYERS-DISAGREE")))
    | _, _ => (st, some "nofile")
  | "case" :: _ => (st, some "ok")
  | ["reseal", _] => (st, some (if st.ix.isSome then "same" else "nofile"))
  | ["dump"] => (st, some (hex st.file.toList))
  | _ => (st, some "bad-op")

def run (lines : Array String) : IO Unit := do
  let out ← IO.getStdout
  let mut st : St := {}
  for l in lines do
    let (st', o) := step st l
    st := st'
    match o with
    | some s => out.putStrLn s
    | none => pure ()

end DrvC04

import Driver.Util
import Faithful.Lib.CompactIndexLegacy
open Drv CI

namespace DrvC04

structure St where
  vs : Nat := 0
  declared : Nat := 0
  newOk : Bool := false
  mta : Array (Bytes × Bytes) := #[]
  kvs : Array KV := #[]
  insErr : Bool := false
  ix : Option IndexA := none
  file : File := #[]
  db : Option DB := none
  legacy : Option Legacy := none
  fileSize : Nat := 0
  ldb : Option LDB := none

def showLook : Look → String
  | .found v => s!"found {hex v}"
  | .notFound => "notfound"
  | .hang => "hang"
  | .err => "err"

def step (st : St) (l : String) : St × Option String :=
  match words l with
  | ["new", a, b] =>
    let vs := a.toNat!; let d := b.toNat!
    let ok := !(vs = 0 ∨ vs > 255 - Generated.hashSize ∨ d = 0)
    ({ vs := vs, declared := d, newOk := ok }, some (if ok then "ok" else "err"))
  | ["newl8", fsz, b] =>
    -- deprecated/compactindex NewBuilder(dir, numItems, targetFileSize); targetFileSize 0 means MaxUint64
    let fs0 := fsz.toNat!
    let fs := if fs0 = 0 then 2^64 - 1 else fs0
    ({ vs := intWidth fs, declared := b.toNat!, newOk := true, legacy := some .l8, fileSize := fs }, some "ok")
  | ["newl36", fsz, b] =>
    let fs0 := fsz.toNat!
    let fs := if fs0 = 0 then 2^64 - 1 else fs0
    ({ vs := 36, declared := b.toNat!, newOk := true, legacy := some .l36, fileSize := fs }, some "ok")
  | ["meta", k, v] =>
    if !st.newOk then (st, some "nobuilder")
    -- indexmeta.Meta.Add: at most MaxNumKVs pairs, keys and values at most MaxKeySize / MaxValueSize bytes
    else if st.mta.size ≥ Generated.metaMaxNumKVs ∨ (unhex k).length > Generated.metaMaxKeySize ∨ (unhex v).length > Generated.metaMaxValueSize then (st, some "err")
    else ({ st with mta := st.mta.push (unhex k, unhex v) }, some "ok")
  | ["ins", k, v] =>
    if !st.newOk then (st, some "nobuilder") else
    let key := unhex k
    -- Insert: a key the spill file cannot represent (length > 65535) is an error; a key whose bucket hash
    -- does not terminate is `hang`
    if key.length > 65535 then (st, some "err")
    -- legacy 8-byte format: a value that needs more bytes than intWidth(FileSize) is refused
    else if st.legacy = some .l8 ∧ intWidth (B.unle (unhex v)) > st.vs then (st, some "err")
    else match HF.real.bucket key (numBucketsFor st.declared) with
      | none => (st, some "hang")
      | some _ =>
        let val := if st.legacy = some .l8 then B.le st.vs (B.unle (unhex v)) else unhex v
        ({ st with kvs := st.kvs.push ⟨key, val⟩ }, some "ok")
  | ["seal"] =>
    if !st.newOk then (st, some "nobuilder") else
    match buildA HF.real st.vs st.declared st.mta.toList st.kvs.toList with
    | .error e => ({ st with ix := none, db := none }, some s!"err {repr e}")
    | .ok ix =>
      match st.legacy with
      | some lf =>
        let f := (encodeLegacy lf st.fileSize ix).toArray
        let ldb := openLegacy lf f
        ({ st with ix := some ix, file := f, ldb := ldb, db := none },
          some s!"file {f.size} {hexNat (H.xxhash64 f.toList).toNat 16} open={ldb.isSome}")
      | none =>
      let f := (encode ix).toArray
      let db := match openB f with | .ok db => some db | _ => none
      ({ st with ix := some ix, file := f, db := db },
        some s!"file {f.size} {hexNat (H.xxhash64 f.toList).toNat 16} open={db.isSome}")
  | ["lookup", k] =>
    match st.legacy, st.ix, st.ldb with
    | some lf, some ix, some ldb =>
      let key := unhex k
      let a := lookupA HF.real ix key
      let b := lookupLegacy HF.real lf st.file ldb key
      (st, some (showLook b ++ (if a = b then "" else " MODEL-LAYERS-DISAGREE")))
    | some _, _, _ => (st, some "nofile")
    | none, _, _ =>
    match st.ix, st.db with
    | some ix, some db =>
      let key := unhex k
      let a := lookupA HF.real ix key
      let b := lookupB HF.real st.file db key
      (st, some (showLook b ++ (if a = b then "" else " MODEL-LAYERS-DISAGREE")))
    | _, _ => (st, some "nofile")
  | "case" :: _ => (st, some "ok")
  | ["reseal", _] => (st, some (if st.ix.isSome then "same" else "nofile"))
  | ["cseal", _, _] => (st, some (if st.ix.isSome then "same" else "nofile"))   -- build_perm: the file is a function of the set of inserts
  | ["dump"] => (st, some (hex st.file.toList))
  | _ => (st, some "bad-op")

def run (lines : Array String) : IO Unit := do
  let out ← IO.getStdout
  let mut st : St := {}
  for l in lines do
    let (st', o) := step st l
    st := st'
    match o with
    | some s => out.putStrLn s
    | none => pure ()

end DrvC04

import Driver.Util
import Faithful.Lib.TruncReaders
import Faithful.Lib.Hash
open Drv RA
open TR hiding Bytes

/-!
Model side of the C13 line protocol.  For every `cut <kind> <n> <key…>` the `Prog` reader of that file kind is run
on the first `n` bytes of the file given by the preceding `file <kind> <hex>` line (`RA.runA`, proved equal to
`RA.run` on `file.take n`), and the outcome is classified against the run on the complete file:
`same | err | NOTFOUND | EMPTY | DIFFERENT` — the classes the harness computes for the real readers.
-/
namespace DrvC13

structure St where
  files : List (String × Array UInt8) := []
  full : List (String × String) := []
  ztab : List (Bytes × Bytes) := []

def St.file (st : St) (kind : String) : Option (Array UInt8) := (st.files.find? (·.1 == kind)).map (·.2)

def St.setFile (st : St) (kind : String) (a : Array UInt8) : St :=
  { st with files := (kind, a) :: st.files.filter (·.1 != kind), full := st.full.filter (fun e => !(e.1.startsWith (kind ++ " "))) }

def St.zstd (st : St) : Gsfa.Zstd := ⟨fun _ => [], fun b => (st.ztab.find? (·.1 == b)).map (·.2)⟩

def pmap {α β : Type} (p : Prog α) (g : α → β) : Prog β := p.bind fun a => .pure (g a)

def xxh (b : Bytes) : String := hexNat (H.xxhash64 b).toNat 16

/-- the harness's canonical rendering of a list of linked-log entries -/
def entriesStr (l : List Gsfa.Entry) : String :=
  let s := String.join (l.map fun e => s!"{e.off.toNat}:{e.size.toNat}:{e.slot.toNat}:{e.flags.toNat},")
  s!"n={l.length} h={xxh s.toUTF8.toList}"

def lookStr (render : Bytes → Option String) : CI.Look → Prog String
  | .found v => match render v with | some s => .pure ("found " ++ s) | none => .fail "bad value"
  | .notFound => .pure "notfound"
  | .hang => .fail "hang"
  | .err => .fail "err"

def oasStr (v : Bytes) : Option String :=
  if v.length ≠ 9 then none else some s!"{B.unle (v.take 6)} {B.unle (v.drop 6)}"

def cidStr (v : Bytes) : Option String := some (hex v)

def limitAll : Nat := 2 ^ 30

/-- the program (over the file of `kind`) that answers `key`, rendered as the harness renders the real answer -/
def progFor (st : St) (kind : String) (key : List String) : Option (Prog String) :=
  match kind, key with
  | "cid2oas", [k] => some ((ciGetP false (kindChk Generated.kindCidToOffsetAndSize) CI.HF.real (unhex k)).bind (lookStr oasStr))
  | "slot2cid", [k] => some ((ciGetP true (kindChk Generated.kindSlotToCid) CI.HF.real (unhex k)).bind (lookStr cidStr))
  | "sig2cid", [k] => some ((ciGetP true (kindChk Generated.kindSigToCid) CI.HF.real (unhex k)).bind (lookStr cidStr))
  | "pubkey2oas", [k] => some ((ciGetP false (kindChk Generated.kindPubkeyToOffsetAndSize) CI.HF.real (unhex k)).bind (lookStr oasStr))
  | "sigexists", [k] =>
    let sig := unhex k
    some (pmap (bkHasP (fun _ => none) (BK.prefixOf sig) (H.xxhash64 sig).toNat) fun b => if b then "found" else "notfound")
  | "blocktime", [k] => some (pmap (btGetP k.toNat!) fun v => s!"found {v}")
  | "linkedlog", [o, s] =>
    some (pmap (llReadP st.zstd o.toNat! s.toNat!) fun r => s!"found {entriesStr r.1} next={r.2.off}+{r.2.size}")
  | "gsfa-idx", [k] =>
    match st.file "gsfa-log" with
    | none => none
    | some log =>
      some ((ciGetP false (kindChk Generated.kindPubkeyToOffsetAndSize) CI.HF.real (unhex k)).bind fun look =>
        match look with
        | .found v =>
          if v.length ≠ 9 then .fail "invalid byte slice length" else
          match runA (llWalkP st.zstd (log.size + 1) (Gsfa.ptrOfBytes v) limitAll []) log log.size with
          | .ok l => .pure ("found " ++ entriesStr l)
          | .err e => .fail e
        | .notFound => .pure "notfound"
        | .hang => .fail "hang"
        | .err => .fail "err")
  | "gsfa-log", [k] =>
    match st.file "gsfa-idx", st.file "gsfa-log" with
    | some idx, some log =>
      match runA (ciGetP false (kindChk Generated.kindPubkeyToOffsetAndSize) CI.HF.real (unhex k)) idx idx.size with
      | .ok (.found v) =>
        if v.length ≠ 9 then some (.fail "invalid byte slice length") else
        some (pmap (llWalkP st.zstd (log.size + 1) (Gsfa.ptrOfBytes v) limitAll []) fun l => "found " ++ entriesStr l)
      | .ok .notFound => some (.pure "notfound")
      | _ => some (.fail "index error")
    | _, _ => none
  | "car", [k] =>
    match st.file "car-idx" with
    | none => none
    | some idx =>
      match runA (ciGetP false (kindChk Generated.kindCidToOffsetAndSize) CI.HF.real (unhex k)) idx idx.size with
      | .ok (.found v) =>
        if v.length ≠ 9 then some (.fail "invalid byte slice length") else
        some (pmap (carGetP (fun _ => true) (B.unle (v.take 6)) (B.unle (v.drop 6)) (unhex k)) fun d => s!"found {d.length} {xxh d}")
      | .ok .notFound => some ((carOpenP (fun _ => true)).bind fun _ => .pure "notfound")
      | _ => some (.fail "index error")
  | _, _ => none

/-- the answer on the first `n` bytes -/
def answer (st : St) (kind : String) (key : List String) (n : Nat) : Option String :=
  match st.file kind with
  | none => none
  | some f =>
    if kind = "manifest" then
      match key with
      | [e, r] =>
        match manifestLoad e.toNat! (unhex r) (f.toList.take n) with
        | .ok v => some s!"found {v.1} {hex v.2}"
        | .err _ => some "err"
      | _ => none
    else if kind = "gsfa-man" then
      -- only the manifest of the directory is cut: NewGsfaReader fails, or Get answers from the complete index and log
      match manifestOpen (f.toList.take n), st.file "gsfa-idx" with
      | .err _, _ => some "err"
      | .ok _, some idx =>
        match progFor st "gsfa-idx" key with
        | none => none
        | some p => match runA p idx idx.size with
          | .ok s => some s
          | .err _ => some "err"
      | .ok _, none => none
    else
      match progFor st kind key with
      | none => none
      | some p =>
        match runA p f n with
        | .ok s => some s
        | .err _ => some "err"

def classOf (full got : String) : String :=
  if got = full then "same"
  else if got = "err" then "err"
  else if got = "notfound" then "NOTFOUND"
  else if got.startsWith "found n=0 " && !full.startsWith "found n=0 " then "EMPTY"
  else "DIFFERENT"

def step (st : St) (l : String) : St × String :=
  match words l with
  | "case" :: _ => ({}, "ok")
  | ["zstd", c, r] => ({ st with ztab := (unhex c, unhex r) :: st.ztab }, "ok")
  | ["file", kind, h] =>
    let a := (unhex h).toArray
    (st.setFile kind a, s!"file {kind} {a.size}")
  | op :: kind :: key =>
    if op = "get" ∨ op = "getrec" then
      match st.file kind with
      | none => (st, "nofile")
      | some f =>
        match answer st kind key f.size with
        | none => (st, "bad-op")
        | some a => ({ st with full := (kind ++ " " ++ " ".intercalate key, a) :: st.full }, a)
    else if op = "cut" ∨ op = "cutload" then
      match key with
      | ns :: key =>
        match st.file kind with
        | none => (st, "nofile")
        | some f =>
          match ns.toNat? with
          | none => (st, "bad-cut")
          | some n =>
            if n > f.size then (st, "bad-cut") else
            match st.full.find? (·.1 == kind ++ " " ++ " ".intercalate key) with
            | none => (st, "no-full-answer")
            | some (_, full) =>
              match answer st kind key n with
              | none => (st, "bad-op")
              | some a => (st, classOf full a)
      | [] => (st, "bad-op")
    else (st, "bad-op")
  | _ => (st, "bad-op")

def run (lines : Array String) : IO Unit := do
  let out ← IO.getStdout
  let mut st : St := {}
  for l in lines do
    let (st', o) := step st l
    st := st'
    out.putStrLn o

end DrvC13

import Driver.C04

def main (args : List String) : IO UInt32 := do
  let lines ← Drv.readAll (← IO.getStdin) #[]
  match args with
  | ["C04"] => DrvC04.run lines; return 0
  | _ => IO.eprintln "usage: fdrv <property>"; return 2

import Driver.C01
import Driver.C02
import Driver.C03
import Driver.C04
import Driver.C05
import Driver.C06
import Driver.C07
import Driver.C08
import Driver.C09
import Driver.C10
import Driver.C11
import Driver.C12
import Driver.C13
import Driver.C14
import Driver.C15
import Driver.C16
import Driver.C17
import Driver.C18
import Driver.C19

def main (args : List String) : IO UInt32 := do
  let lines ← Drv.readAll (← IO.getStdin) #[]
  match args with
  | ["C01"] => DrvC01.run lines; return 0
  | ["C02"] => DrvC02.run lines; return 0
  | ["C03"] => DrvC03.run lines; return 0
  | ["C04"] => DrvC04.run lines; return 0
  | ["C05"] => DrvC05.run lines; return 0
  | ["C06"] => DrvC06.run lines; return 0
  | ["C07"] => DrvC07.run lines; return 0
  | ["C08"] => DrvC08.run lines; return 0
  | ["C09"] => DrvC09.run lines; return 0
  | ["C10"] => DrvC10.run lines; return 0
  | ["C11"] => DrvC11.run lines; return 0
  | ["C12"] => DrvC12.run lines; return 0
  | ["C13"] => DrvC13.run lines; return 0
  | ["C14"] => DrvC14.run lines; return 0
  | ["C15"] => DrvC15.run lines; return 0
  | ["C16"] => DrvC16.run lines; return 0
  | ["C17"] => DrvC17.run lines; return 0
  | ["C18"] => DrvC18.run lines; return 0
  | ["C19"] => DrvC19.run lines; return 0
  | _ => IO.eprintln "usage: fdrv <property> < ops.txt"; return 2

import Driver.Util
import Faithful.Lib.EpochLoad
import Faithful.Lib.IndexMeta
import Faithful.Lib.IndexAll
open Drv

namespace DrvC10
open EpochLoad Generated

/-- optional field: `_` = absent -/
def optBytes (s : String) : Option Bytes := if s = "_" then none else some (unhex s)
def optNat (s : String) : Option Nat := if s = "_" then none else s.toNat?

/-- `compact:<kind>:<epoch>:<root>:<network>` | `legacy` | `bucketteer:<e>:<r>:<n>` | `bucketteerLegacy` |
    `manifest:<version>:<e>:<r>:<n>` | `blocktime:<e>` | anything else = unreadable -/
def parseFile (s : String) : FileId :=
  match s.splitOn ":" with
  | ["compact", k, e, r, n] => .compact (unhex k) e.toNat! (unhex r) (unhex n)
  | ["legacy"] => .compactLegacy
  | ["bucketteer", e, r, n] => .bucketteer (optNat e) (optBytes r) (optBytes n)
  | ["bucketteerLegacy"] => .bucketteerLegacy
  | ["manifest", v, e, r, n] => .manifest v.toNat! (optNat e) (optBytes r) (optBytes n)
  | ["blocktime", e] => .blocktime e.toNat!
  | _ => .unreadable

def roleName : LRole → String
  | .cidToOffsetAndSize => "cidToOffsetAndSize"
  | .slotToCid => "slotToCid"
  | .sigToCid => "sigToCid"
  | .sigExists => "sigExists"
  | .gsfaManifest => "gsfaManifest"
  | .gsfaPubkeyIndex => "gsfaPubkeyIndex"
  | .slotToBlocktime => "slotToBlocktime"

def showLoad : Except Err Loaded → String
  | .ok L => "ok " ++ (match L.root with | some r => hex r | none => "none")
  | .error (.reject r) => "reject:" ++ roleName r
  | .error .filecoinRoot => "reject:filecoinRoot"
  | .error .unknown => "unknown"

def showOpt (o : Option Bytes) : String := match o with | some b => hex b | none => "_"

def parseKV (s : String) : Bytes × Bytes :=
  match s.splitOn ":" with
  | [k, v] => (unhex k, unhex v)
  | _ => ([], [])

def step (l : String) : String :=
  match words l with
  | ["load", e, fc, dep, g, fcroot, cid, slot, sig, se, man, pk, bt] =>
    let cfg : Config := ⟨⟨fc == "1", dep == "1", g == "1"⟩, e.toNat!, unhex fcroot⟩
    let fs : FileSet := fun r =>
      match r with
      | .cidToOffsetAndSize => parseFile cid
      | .slotToCid => parseFile slot
      | .sigToCid => parseFile sig
      | .sigExists => parseFile se
      | .gsfaManifest => parseFile man
      | .gsfaPubkeyIndex => parseFile pk
      | .slotToBlocktime => parseFile bt
    showLoad (load cfg fs)
  | "menc" :: kvs =>
    match IndexMeta.encode (kvs.map parseKV) with
    | some b => hex b
    | none => "err"
  | ["mdec", h] =>
    match IndexMeta.decode (unhex h) with
    | none => "err"
    | some [] => "empty"
    | some m => " ".intercalate (m.map fun kv => hex kv.1 ++ ":" ++ hex kv.2)
  | ["ident", h] =>
    match IndexMeta.decode (unhex h) with
    | none => "err"
    | some m =>
      let ep := match IndexMeta.getUint64 m IndexMeta.keyEpoch with
        | .absent => "_" | .invalid => "invalid" | .val n => toString n
      s!"kind={showOpt (IndexMeta.get m IndexMeta.keyKind)} epoch={ep} root={showOpt (IndexMeta.get m IndexMeta.keyRootCid)} network={showOpt (IndexMeta.get m IndexMeta.keyNetwork)}"
  | ["fetch", _variant, c, _off, sz, bytes] =>
    -- `bytes` = what the CAR behind the epoch holds at [off, off+sz) (shorter if the file ends before)
    match Car.nodeAt (unhex bytes) 0 sz.toNat! (unhex c) with
    | some d => s!"ok {d.length} {hexNat (H.xxhash64 d).toNat 16}"
    | none => "err"
  | ["pfetch", _variant, _kind, _key, c, _off, sz, bytes] =>
    -- the same fetch after Epoch.GetBlock / GetTransaction ran with the prefetch flag the RPC handlers set:
    -- prefetching must not change what a CID-addressed fetch answers
    match Car.nodeAt (unhex bytes) 0 sz.toNat! (unhex c) with
    | some d => s!"ok {d.length} {hexNat (H.xxhash64 d).toNat 16}"
    | none => "err"
  | "case" :: _ => "ok"
  | _ => "bad-op"

/-- model side of the C10 line protocol: one answer line per op line -/
def run (lines : Array String) : IO Unit := do
  let out ← IO.getStdout
  for l in lines do
    out.putStrLn (step l)

end DrvC10

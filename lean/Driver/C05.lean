import Driver.Util
open Drv

namespace DrvC05

/-- model side of the C05 line protocol: one answer line per op line -/
def run (lines : Array String) : IO Unit := do
  let out ← IO.getStdout
  for _ in lines do
    out.putStrLn "unimplemented"

end DrvC05

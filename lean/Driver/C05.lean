import Driver.Util
import Faithful.Lib.Bucketteer
open Drv BK

namespace DrvC05

/-- the hash the real code uses: `bucketteer.Hash(sig) = xxhash.Sum64(sig[:])` -/
def hR (s : Sig) : Nat := (H.xxhash64 s).toNat

/-- bytewise `<` (Go string comparison), used only to canonicalise the v1 metadata map -/
def ltBytes : Bytes → Bytes → Bool
  | [], [] => false
  | [], _ :: _ => true
  | _ :: _, [] => false
  | a :: r, b :: q => if a < b then true else if b < a then false else ltBytes r q

/-- v1 metadata is a Go map: assignment replaces; the harness re-orders the entries of the real file by key -/
def mapInsert (k v : Bytes) : List (Bytes × Bytes) → List (Bytes × Bytes)
  | [] => [(k, v)]
  | e :: r => if e.1 = k then (k, v) :: r else if ltBytes k e.1 then (k, v) :: e :: r else e :: mapInsert k v r

structure St where
  fmt : Fmt := .v2
  live : Bool := false
  mta : List (Bytes × Bytes) := []
  w : Buckets := #[]
  sd : Option Sealed := none
  file : File := #[]
  rdr : Option Rdr := none

def showRes : Res → String
  | .yes => "true"
  | .no => "false"
  | .err => "err"

def step (st : St) (l : String) : St × String :=
  match words l with
  | "case" :: _ => (st, "ok")
  | ["new", v] =>
    if v = "v2" then ({ fmt := .v2, live := true, w := emptyW }, "ok")
    else if v = "v1" then ({ fmt := .v1, live := true, w := emptyW }, "ok")
    else (st, "bad-op")
  | ["meta", k, v] =>
    if !st.live then (st, "nowriter") else
    let kb := unhex k; let vb := unhex v
    match st.fmt with
    | .v2 =>
      -- indexmeta.Meta.Add
      if st.mta.length ≥ Generated.metaMaxNumKVs ∨ kb.length > Generated.metaMaxKeySize ∨ vb.length > Generated.metaMaxValueSize
      then (st, "err") else ({ st with mta := st.mta ++ [(kb, vb)] }, "ok")
    | .v1 => ({ st with mta := mapInsert kb vb st.mta }, "ok")
  | ["put", s] =>
    if !st.live then (st, "nowriter") else
    if (unhex s).length ≠ 64 then (st, "bad-op") else      -- Go signatures are [64]byte
    let w := st.w
    let st := { st with w := #[] }
    ({ st with w := put hR w (unhex s) }, "ok")
  | ["whas", s] =>
    if !st.live then (st, "nowriter") else
    if (unhex s).length ≠ 64 then (st, "bad-op") else
    (st, toString (writerHas hR st.w (unhex s)))
  | ["seal"] =>
    if !st.live then (st, "nowriter") else
    let sd := sealA st.fmt st.w
    let f := (encode st.fmt st.mta sd).toArray
    let r := openB st.fmt f
    ({ st with sd := some sd, file := f, rdr := r },
      s!"file {f.size} {hexNat (H.xxhash64 f.toList).toNat 16} size={f.size} open={r.isSome}")
  | ["has", s] =>
    match st.sd, st.rdr with
    | some sd, some r =>
      let sig := unhex s
      if sig.length ≠ 64 then (st, "bad-op") else
      let b := hasB st.file r (prefixOf sig) (hR sig)
      let a := hasA sd (prefixOf sig) (hR sig)
      (st, showRes b ++ (if b = (if a then Res.yes else Res.no) then "" else " MODEL-LAYERS-DISAGREE"))
    | _, _ => (st, "nofile")
  | ["chas", _] =>
    -- every added signature asked by several goroutines at once of one shared Reader: `Has` is a function of the
    -- file (seal_has: every added signature answers true), so the answer does not depend on who else is asking
    match st.sd, st.rdr with
    | some _, some _ => (st, "ok")
    | _, _ => (st, "nofile")
  | ["dump"] => (st, hex st.file.toList)
  | _ => (st, "bad-op")

/-- model side of the C05 line protocol: one answer line per op line -/
def run (lines : Array String) : IO Unit := do
  let out ← IO.getStdout
  let mut st : St := {}
  for l in lines do
    let (st', o) := step st l
    st := st'
    out.putStrLn o

end DrvC05

import Driver.Util
import Faithful.Lib.Parsers
import Faithful.Lib.ParsersCbor
import Faithful.Lib.Hash
open Drv Px

/-! model side of the C12 line protocol: one answer line per op line, computed with the definitions
`Faithful/Properties/C12.lean` is about (`Px.*` in `Faithful/Lib/Parsers.lean`, `Ledger.FastFixed` in ParsersCbor).

Where the model decides success vs error the answer is exact (`ok …` / `err`); where the outcome is decided by
third-party code (zstd, protobuf, bincode, the CBOR byte parsers, go-car's header) the comparable answer is `nopanic`
(resp. `z` for a linked-log record whose framing was accepted).  A model that said `panic` would print `panic`. -/
namespace DrvC12

/-- hex → bytes without recursion on the input (files of megabytes) -/
def unhexT (s : String) : Px.Bytes :=
  if s = "-" then [] else Id.run do
    let bs := s.toUTF8
    let n := bs.size / 2
    let mut out : Array UInt8 := Array.mkEmpty n
    for i in [0:n] do
      let a := hexVal (Char.ofNat (bs.get! (2 * i)).toNat)
      let b := hexVal (Char.ofNat (bs.get! (2 * i + 1)).toNat)
      out := out.push (UInt8.ofNat (a * 16 + b))
    return out.toList

def cls {α : Type} (r : Res α) : String := r.outcome.cls

/-- `ok <detail>` / `err` / `panic` -/
def showWith {α : Type} (r : Res α) (f : α → String) : String :=
  match r.outcome with
  | .ok a => let d := f a; if d.isEmpty then "ok" else "ok " ++ d
  | .err _ => "err"
  | .panic _ => "panic"

/-- `cid=<n|x>`: go-cid's verdict, carried on the op line -/
def cidArg (w : String) : Px.Bytes → Option Nat :=
  let v := (w.drop 4).toString
  if v = "x" then fun _ => none else fun _ => some v.toNat!

def kindOfNat : Nat → Option Ledger.Kind
  | 0 => some .transaction | 1 => some .entry | 2 => some .block | 3 => some .subset
  | 4 => some .epoch | 5 => some .rewards | 6 => some .dataFrame | _ => none

/-- the repaired CBOR decoders on whatever tree the byte parser of the model delivers -/
def decAnswer (k : Nat) (b : Px.Bytes) : String :=
  match kindOfNat k, Cbor.decodeFirst b with
  | some kind, some (v, _) =>
    (match Ledger.FastFixed.decode kind v with
     | .panic _ => "panic"
     | _ => "nopanic")
  | _, _ => "nopanic"

def answer (l : String) : String :=
  match words l with
  -- compactindexsized
  | ["open-ci", f, _] => cls (ciOpen (unhexT f))
  | ["load-ci", _] => "nopanic"
  -- indexmeta
  | ["meta", b, k] =>
    (match (metaUnmarshal (unhexT b)).outcome with
     | .ok m => showWith (metaGetUint64 m (unhexT k)) fun o => match o with | some v => toString v | none => "none"
     | .err _ => "err"
     | .panic _ => "panic")
  -- indexes
  | ["oas", b] => showWith (oasFromBytes (unhexT b)) fun (o, s) => s!"{o} {s}"
  | ["oass", b] => showWith (oasSliceFromBytes (unhexT b)) fun l =>
      match l.getLast? with
      | some (o, s) => s!"{l.length} {o} {s}"
      | none => "0 0 0"
  | ["defmeta", b, c] =>
    (match (metaUnmarshal (unhexT b)).outcome with
     | .ok m => showWith (defaultMetadata m (c = "cast=ok")) toString
     | .err _ => "err"
     | .panic _ => "panic")
  | "open-idx" :: _ => "nopanic"
  -- bucketteer
  | ["bkt", f, sig] =>
    let file := unhexT f
    (match (bkOpen file).outcome with
     | .ok h =>
       -- `Has(sig)`: prefix = first two bytes (little endian) of the 64-byte signature, hash = xxhash64(sig)
       let s := (unhexT sig ++ List.replicate 64 0).take 64
       let r := bkHas file h (B.unle (s.take 2)) (H.xxhash64 s).toNat
       "ok " ++ (match r.outcome with | .ok true => "t" | .ok false => "f" | .err _ => "e" | .panic _ => "panic")
     | .err _ => "err"
     | .panic _ => "panic")
  | "bkt1" :: _ => "nopanic"
  -- blocktimeindex
  | ["bt", f, "get", slot] =>
    (match (btUnmarshal (unhexT f)).outcome with
     | .ok i => showWith (btGet i slot.toNat!) fun o => match o with | some v => toString v | none => "oor"
     | .err _ => "err"
     | .panic _ => "panic")
  -- gsfa linked log
  | ["ll", f, off, size] =>
    let r := if size = "-" then llRead (unhexT f) off.toNat! else llFrame (unhexT f) off.toNat! size.toNat!
    (match r.outcome with
     | .ok _ => "z"
     | .err _ => "err"
     | .panic _ => "panic")
  | ["unz", _] => "nopanic"
  | ["oass3", b] => showWith (entriesFromBytes (unhexT b)) fun l =>
      match l.getLast? with
      | some e => s!"{l.length} {e.offset} {e.size} {e.slot} {e.flags}"
      | none => "0"
  | ["oas3", b] => showWith (entryFromBytes (unhexT b)) fun e => s!"{e.offset} {e.size} {e.slot} {e.flags}"
  -- gsfa manifest
  | ["mf", f] => showWith (mfOpen (unhexT f)) toString
  -- carreader
  | "car" :: _ => "nopanic"
  | ["rsl", b] => showWith (readSectionLength (unhexT b)) fun (l, n) => s!"{l} {n}"
  | ["rnid", b, c] => showWith (readNodeInfoWithData (cidArg c) (unhexT b)) fun (t, d) => s!"{t} {d}"
  | ["rniw", b, c] => showWith (readNodeInfoWithoutData (cidArg c) (unhexT b)) toString
  -- iplddecoders
  | ["dec", k, b] => decAnswer k.toNat! (unhexT b)
  | ["decany", b] =>
    let data := unhexT b
    (match (getKind data).outcome with
     | .ok k => decAnswer k data
     | .err _ => "nopanic"
     | .panic _ => "panic")
  -- solana-tx-meta-parsers, accum
  | "txmeta" :: _ => "nopanic"
  | "txmeta-proto" :: _ => "nopanic"
  | "txmeta-latest" :: _ => "nopanic"
  | "txmeta-oldest" :: _ => "nopanic"
  | "accum" :: _ => "nopanic"
  | "o2t" :: _ => "nopanic"
  -- package main
  | ["pnfs", sec, want, c] =>
    let w := (want.drop 5).toString
    showWith (parseNodeFromSection (cidArg c) (unhexT sec) (if w = "-" then none else some (unhexT w))) toString
  | ["rfs", b] => showWith (readFirstSignature (unhexT b)) hex
  | ["rns", f, off] => showWith (readNodeSize (unhexT f) off.toNat!) toString
  | ["rnfo", f, off, len, c] => showWith (readNodeAt (cidArg c) (unhexT f) off.toNat! len.toNat!) toString
  | "count-car" :: _ => "nopanic"
  | "find" :: _ => "nopanic"
  | "index-all" :: _ => "nopanic"
  | _ => "bad-op"

def run (lines : Array String) : IO Unit := do
  let out ← IO.getStdout
  for l in lines do
    out.putStrLn (answer l)

end DrvC12

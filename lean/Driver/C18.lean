import Driver.Util
import Faithful.Lib.FirstSuccessSys
import Std.Data.HashSet
import Std.Data.HashMap
open Drv FS FSys

/-!
Model side of the C18 line protocol.

  fs <limit> <outcomes> <order>     outcomes: `o<v>` / `e<k>` per job, comma separated ("-" = no job); order: job indices
      → `res=<r> eff=<send order> maxrun=<k> allowed=<set>`
        res/eff/maxrun: end state of `FSys.prioRun` (the schedule that realises the completion order under the limit)
        allowed:        results of ALL schedules, by exhaustive exploration of `FSys.step` (n ≤ 5; "skip" above)
  find <limit> <epochs>             epochs: `<num>:<kind>` (nb hf he hn hit fp), highest first ("-" = none)
      → `class=<deterministic part> allowed=<set>`
-/
namespace DrvC18

/-- all states reachable from `init`, level by level; the number of levels is the proven bound `5n+3` (+1 to see it is empty) -/
structure Expl (V E : Type) where
  results : List (Res V E) := []
  states : Nat := 0
  maxBuf : Nat := 0
  badDead : Bool := false      -- a state without enabled action that is not `Final`
  leftover : Bool := false     -- frontier not empty after 5n+3 levels

def isFinal {V E : Type} (s : State V E) : Bool :=
  (match s.main with | .done _ => true | _ => false) && s.running.isEmpty && s.sentq.isEmpty && s.relq.isEmpty && s.closed

/-- `step` never reads the ghost field `log` and uses `sentq` / `relq` only through membership, `erase` and `length`;
states that differ only there have the same futures, so they are explored once -/
def insSorted (x : Nat) : List Nat → List Nat
  | [] => [x]
  | y :: ys => if x ≤ y then x :: y :: ys else y :: insSorted x ys
def sortTiny (l : List Nat) : List Nat := l.foldl (fun acc x => insSorted x acc) []

def normKey {V E : Type} (s : State V E) : State V E :=
  match s.sentq, s.relq with
  | [], [] => { s with log := [] }
  | _, _ => { s with log := [], sentq := sortTiny s.sentq, relq := sortTiny s.relq }

def explore {V E : Type} [BEq V] [Hashable V] [BEq E] [Hashable E] (c : Cfg V E) : Expl V E := Id.run do
  let acts := allActs c.n
  let mut seen : Std.HashSet (State V E) := {}
  let mut frontier : Array (State V E) := #[init]
  seen := seen.insert (normKey init)
  let mut ex : Expl V E := {}
  for _ in [0:5 * c.n + 4] do
    let mut next : Array (State V E) := #[]
    for s in frontier do
      ex := { ex with states := ex.states + 1, maxBuf := max ex.maxBuf s.buf.length }
      match s.main with
      | .done r => if !ex.results.contains r then ex := { ex with results := r :: ex.results }
      | _ => pure ()
      let mut any := false
      for a in acts do
        match step c s a with
        | some s' =>
          any := true
          let k := normKey s'
          if !seen.contains k then
            seen := seen.insert k
            next := next.push s'
        | none => pure ()
      if !any && !isFinal s then ex := { ex with badDead := true }
    frontier := next
  if !frontier.isEmpty then ex := { ex with leftover := true }
  return ex

def sortStrs (l : List String) : List String := l.mergeSort (fun a b => decide (a ≤ b))
def sortNats (l : List Nat) : List Nat := l.mergeSort (fun a b => decide (a ≤ b))
def commas (l : List String) : String := ",".intercalate l
def natList (s : String) : List Nat := if s = "-" then [] else (s.splitOn ",").map String.toNat!

def perms : List Nat → List (List Nat)
  | [] => [[]]
  | l => go l.length l
where
  go : Nat → List Nat → List (List Nat)
    | 0, _ => [[]]
    | _, [] => [[]]
    | fuel + 1, l => l.flatMap fun x => (go fuel (l.erase x)).map (x :: ·)

/-- results of the order-realising scheduler over every completion order (cross-check of the exploration) -/
def prioUnion {V E : Type} [BEq V] [BEq E] (c : Cfg V E) : List (Res V E) :=
  (perms (List.range c.n)).foldl (fun acc order =>
    match (prioRun c order (5 * c.n + 4) init [] 0).2.1.main with
    | .done r => if acc.contains r then acc else r :: acc
    | _ => acc) []

/-! #### fs ops -/

def parseOut (t : String) : Out Nat Nat :=
  if t.startsWith "o" then .ok (t.drop 1).toNat! else .err (t.drop 1).toNat!

def parseOuts (s : String) : List (Out Nat Nat) := if s = "-" then [] else (s.splitOn ",").map parseOut

def errStr (k : Nat) : String := s!"e{k}"

def showRes : Res Nat Nat → String
  | .ok v => s!"ok:{v}"
  | .err es => "err:[" ++ commas (sortStrs (es.map errStr)) ++ "]"

def cfgFs (limit : Int) (outs : List (Out Nat Nat)) : Cfg Nat Nat :=
  { n := outs.length, limit := limit, out := fun j => outs.getD j (.err 0) }

/-- canonical set of results -/
def showAllowed (rs : List (Res Nat Nat)) : String :=
  let oks := rs.filterMap fun | .ok v => some v | _ => none
  let errs := rs.filterMap fun | .err es => some (commas (sortStrs (es.map errStr))) | _ => none
  if errs.isEmpty then "ok{" ++ commas ((sortNats oks.eraseDups).map toString) ++ "}"
  else if oks.isEmpty then
    match errs.eraseDups with
    | [e] => "err{" ++ e ++ "}"
    | es => "err-VARIANTS{" ++ "|".intercalate es ++ "}"
  else "MIXED-ok-and-err"

/-- what the theorems allow at most: any succeeding job's value, else the complete error list -/
def withinSpec (outs : List (Out Nat Nat)) (rs : List (Res Nat Nat)) : Bool :=
  let oks := outs.filterMap fun | .ok v => some v | _ => none
  let errs := sortStrs ((errsOf outs).map errStr)
  !rs.isEmpty && rs.all fun
    | .ok v => oks.contains v
    | .err es => oks.isEmpty && sortStrs (es.map errStr) == errs

def intOf (s : String) : Int := if s.startsWith "-" then - ((s.drop 1).toNat! : Int) else (s.toNat! : Int)

def flags {V E : Type} (n : Nat) (ex : Expl V E) : String :=
  (if ex.badDead then " MODEL-DEADLOCK" else "") ++ (if ex.leftover then " MODEL-BOUND-EXCEEDED" else "") ++
  (if ex.maxBuf > n then " MODEL-BUFFER-OVERFLOW" else "")

def fsAllowed (limit : Int) (outs : List (Out Nat Nat)) : String :=
  if outs.length > 5 then "skip" else
  let c := cfgFs limit outs
  let ex := explore c
  let a := showAllowed ex.results
  a ++ (if withinSpec outs ex.results then "" else " MODEL-LAYERS-DISAGREE") ++
    (if showAllowed (prioUnion c) == a then "" else " MODEL-PRIO-UNION-DIFFERS") ++ flags c.n ex

def fsLine (limit : Int) (outs : List (Out Nat Nat)) (order : List Nat) (allowed : String) : String :=
  let c := cfgFs limit outs
  let (_, s, m) := prioRun c order (5 * c.n + 4) init [] 0
  let res := match s.main with
    | .done r => showRes r
    | _ => "MODEL-NOT-DONE"
  let stuck := if isFinal s then "" else " MODEL-NOT-FINAL"
  s!"res={res} eff={if s.log.isEmpty then "-" else commas (s.log.map toString)} maxrun={m} allowed={allowed}{stuck}"

/-! #### find ops -/
open FindEpoch

def parseKind : String → Kind
  | "nb" => .noBucket | "hf" => .hasFalse | "he" => .hasErr false | "hn" => .hasErr true
  | "hit" => .hit | _ => .falsePos

/-- `numbers` are sorted from highest to lowest before the jobs are added -/
def parseEps (s : String) : List (Nat × Kind) :=
  let l := if s = "-" then [] else (s.splitOn ",").map fun t =>
    match t.splitOn ":" with
    | [a, b] => (a.toNat!, parseKind b)
    | _ => (0, .noBucket)
  l.mergeSort (fun a b => decide (a.1 ≥ b.1))

def jerrStr : JErr → String
  | .notFound => "nf"
  | .hasFailed e false => s!"he{e}"
  | .hasFailed e true => s!"hn{e}"

def showFind : FindRes → String
  | .found e => s!"found:{e}"
  | .notFound => "notfound"
  | .internal es => "internal:[" ++ commas (sortStrs (es.map jerrStr)) ++ "]"

def outStr : Out Nat JErr → String
  | .ok v => s!"o{v}"
  | .err e => jerrStr e

/-- search results of all schedules + model self-check flags -/
def findExplore (limit : Int) (eps : List (Nat × Kind)) : List (Res Nat JErr) × String :=
  let c := cfgOf limit eps
  let ex := explore c
  let canon (rs : List (Res Nat JErr)) : List String :=
    sortStrs (rs.map fun r => showFind (classify r)).eraseDups
  (ex.results, (if canon (prioUnion c) == canon ex.results then "" else " MODEL-PRIO-UNION-DIFFERS") ++ flags c.n ex)

def findLine (eps : List (Nat × Kind)) (explored : List (Res Nat JErr) × String) : String :=
  let outs := explored.1.map (fun r => showFind (findResult eps r))
  let outs := sortStrs outs.eraseDups
  let founds := outs.filter (·.startsWith "found:")
  let cls :=
    if founds.length = outs.length ∧ outs.length > 1 then "found:*"
    else match outs with
      | [o] => o
      | _ => "MODEL-AMBIGUOUS"
  s!"class={cls} allowed=" ++ "|".intercalate outs ++ explored.2

def run (lines : Array String) : IO Unit := do
  let out ← IO.getStdout
  let mut fsCache : Std.HashMap String String := {}
  let mut findCache : Std.HashMap String (List (Res Nat JErr) × String) := {}
  for l in lines do
    match words l with
    | ["fs", lim, outs, order] =>
      -- `step` consults the limit only through `semCap` (none for every limit ≤ 0)
      let key := s!"{semCap (cfgFs (intOf lim) [])} {outs}"
      let allowed ← match fsCache[key]? with
        | some a => pure a
        | none =>
          let a := fsAllowed (intOf lim) (parseOuts outs)
          fsCache := fsCache.insert key a
          pure a
      out.putStrLn (fsLine (intOf lim) (parseOuts outs) (natList order) allowed)
    | ["find", lim, epss] =>
      let eps := parseEps epss
      if eps.length > 5 then out.putStrLn "class=skip allowed=skip" else
      let c := cfgOf (intOf lim) eps
      let key := s!"{semCap c} " ++ commas ((List.range c.n).map fun j => outStr (c.out j))
      let ex ← match findCache[key]? with
        | some a => pure a
        | none =>
          let a := findExplore (intOf lim) eps
          findCache := findCache.insert key a
          pure a
      out.putStrLn (findLine eps ex)
    | _ => out.putStrLn "bad-op"

end DrvC18

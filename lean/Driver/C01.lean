import Driver.Util
import Faithful.Lib.CarInfo
import Faithful.Lib.Bucketteer
open Drv CI Car IndexAll

namespace DrvC01

structure St where
  car : Array UInt8 := #[]
  ix : Option IndexSet := none

def step (st : St) (l : String) : St × String :=
  match words l with
  | "case" :: _ => (st, "ok")
  | ["car", h] =>
    let bytes := unhex h
    match Car.parse bytes with
    | none => ({ st with ix := none }, "car parse-error")
    | some (hdr, sl) =>
      let secs := sl.map (·.1)
      let infos := secs.map fun s => CarInfo.info s.data
      let nb := (infos.filter fun i => match i with | .block .. => true | _ => false).length
      let nt := (infos.filter fun i => match i with | .tx .. => true | _ => false).length
      -- the scan of the abstract sections must reproduce the locations seen while parsing
      let locsOk := (scan hdr secs) == sl.map (·.2)
      match IndexAll.build HF.real CarInfo.info hdr secs secs.length nb nt with
      | .error e => ({ st with ix := none }, s!"car hdr={hdr} objs={secs.length} blocks={nb} txs={nt} build=err {repr e}")
      | .ok ix => ({ car := bytes.toArray, ix := some ix },
          s!"car hdr={hdr} objs={secs.length} blocks={nb} txs={nt} build=ok" ++ (if locsOk then "" else " SCAN-DISAGREES"))
  | ["idx", which, h] =>
    -- the real index file, byte for byte, against the model's file for the same archive
    -- (the metadata pairs are taken from the real header: they are C10's subject)
    match st.ix with
    | none => (st, "noindex")
    | some ix =>
      let real := unhex h
      if which = "sigexists" then
        match BK.openB .v2 real.toArray with
        | none => (st, "real-file-does-not-open")
        | some r =>
          let mine := BK.encode .v2 r.metaKVs (BK.sealA .v2 (BK.putAll (fun s => (H.xxhash64 s).toNat) ix.sigs))
          (st, if mine == real then "identical" else s!"differs model-len={mine.length} real-len={real.length}")
      else
      let sel : Option IndexA := match which with
        | "cid" => some ix.cidIx | "slot" => some ix.slotIx | "sig" => some ix.sigIx | _ => none
      match sel with
      | none => (st, "bad-op")
      | some a =>
        match CI.openB real.toArray with
        | .ok db =>
          let mine := CI.encode { a with metaKVs := db.metaKVs }
          (st, if mine == real then "identical" else s!"differs model-len={mine.length} real-len={real.length}")
        | _ => (st, "real-file-does-not-open")
  | ["obj", c] =>
    match st.ix with
    | none => (st, "noindex")
    | some ix =>
      let cid := unhex c
      match lookupA HF.real ix.cidIx cid with
      | .found v =>
        let (off, sz) := oasDecode v
        match nodeAtA st.car off sz cid with
        | some d => (st, s!"{off} {sz} {d.length} {hexNat (H.xxhash64 d).toNat 16}")
        | none => (st, "get-err")
      | .notFound => (st, "notfound")
      | _ => (st, "err")
  | ["slot", n] =>
    match st.ix with
    | none => (st, "noindex")
    | some ix =>
      let slot := n.toNat!
      match findCidFromSlot HF.real ix slot with
      | .found c =>
        let bt := match getBlocktime ix slot with | some t => toString t | none => "err"
        (st, s!"{hex c} bt={bt}")
      | .notFound => (st, "notfound")
      | _ => (st, "err")
  | ["sig", g] =>
    match st.ix with
    | none => (st, "noindex")
    | some ix =>
      let sig := unhex g
      match findCidFromSig HF.real ix sig with
      | .found c => (st, s!"{hex c} exists={ix.sigs.contains sig}")
      | .notFound => (st, "notfound")
      | _ => (st, "err")
  | _ => (st, "bad-op")

def run (lines : Array String) : IO Unit := do
  let out ← IO.getStdout
  let mut st : St := {}
  for l in lines do
    let (st', o) := step st l
    st := st'
    out.putStrLn o

end DrvC01

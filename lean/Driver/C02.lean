import Driver.Util
import Faithful.Lib.Rpc
import Faithful.Lib.Hash
open Drv Rpc FS FSys FindEpoch

/-!
Model side of the C02 line protocol (see /verif/harness/tree/c02_test.go for the op kinds).

The archive lines (`epoch`, `obj`, `block`, `entry`, `tx`) build `Rpc.Epoch` values; `load` selects the loaded subset,
the search concurrency and resets the offset cache; `gettx` / `getblock` / `getblocktime` run the very definitions the
theorems of `Faithful/Properties/C02.lean` are about — `Rpc.getTransactionS` / `Rpc.getBlockS` with the repaired cache
key `Rpc.pairKey`, the offset cache threaded from request to request, an empty raw-object cache, the LIFO completion
order of the fetch goroutines, insertion sort as `sort.Slice`, and the epoch search run by `FSys.prioRun` under the
loaded concurrency limit — and print the canonical record of the answer for the requested API / encoding.
-/
namespace DrvC02

structure EntryAcc where
  hash : Rpc.Bytes
  cid : Cid
  txs : Array Tx := #[]

structure BlockAcc where
  slot : Nat
  parent : Nat
  time : Nat
  height : Option Nat
  cid : Cid
  entries : Array EntryAcc := #[]

structure EpochAcc where
  num : Nat
  genesis : Option Nat
  objs : Array (Cid × Nat) := #[]
  blocks : Array BlockAcc := #[]

def EpochAcc.toEpoch (e : EpochAcc) : Epoch :=
  { num := e.num, genesisTime := e.genesis, objs := e.objs.toList,
    blocks := e.blocks.toList.map fun b =>
      { slot := b.slot, parent := b.parent, time := b.time, height := b.height, cid := b.cid,
        entries := b.entries.toList.map fun en => { hash := en.hash, cid := en.cid, txs := en.txs.toList } } }

structure St where
  univ : Array EpochAcc := #[]
  es : List Epoch := []
  conc : Int := 0
  cache : Cache := []

def natOfHex (s : String) : Nat := s.foldl (fun acc c => acc * 16 + hexVal c) 0

def digest (b : Rpc.Bytes) : String := s!"{hexNat (H.xxhash64 b).toNat 16}:{b.length}"

def optNat (s : String) : Option Nat := if s = "-" then none else some s.toNat!

def modifyLast {α : Type} (a : Array α) (f : α → α) : Array α :=
  if a.size = 0 then a else a.modify (a.size - 1) f

def modifyEpoch (st : St) (num : Nat) (f : EpochAcc → EpochAcc) : St :=
  { st with univ := st.univ.map fun e => if e.num = num then f e else e }

/-- the four renderings of a transaction kept in `Tx.tag`: binary payload digest, metadata bytes digest, digest of the
`json` rendering, digest of the JSON metadata fields (the last two are opaque inputs: third-party renderers) -/
def tagOf (payload mdata : Rpc.Bytes) (txJson metaJson : String) : String :=
  s!"{digest payload} {digest mdata} {txJson} {metaJson}"

def tagField (t : Tx) (i : Nat) : String := (t.tag.splitOn " ").getD i "?"

/-- (transaction, metadata) as the API prints them -/
def renderTx (api : String) (t : Tx) : String × String :=
  if api = "grpc" then (tagField t 0, tagField t 1)
  else if api = "json-json" then (tagField t 2, tagField t 3)
  else (tagField t 0, tagField t 3)

def showErr {α : Type} : Resp α → String
  | .ok _ => "ok"
  | .null => "null"
  | .epochUnavailable _ => "err:epoch"
  | .internal => "err:internal"
  | .panic => "panic"

def nullOr (n : Nat) : String := if n = 0 then "null" else toString n

def showBlock (api : String) (r : BlockResp) : String :=
  let grpc := api = "grpc"
  let txs := r.txs.map fun t =>
    let (a, m) := renderTx api t
    let pos := if grpc then (match t.pos with | some p => toString p | none => "-") else "-"
    s!"{pos}:{a}:{m}"
  let prev := match r.previousBlockhash with
    | some h => if h.isEmpty then "null" else hex h
    | none => "null"
  let height := if grpc then toString (r.blockHeight.getD 0) else (match r.blockHeight with | some h => toString h | none => "null")
  let slot := if grpc then toString r.slot else "-"
  let txl := ";".intercalate txs
  s!"ok slot={slot} parent={r.parentSlot} time={nullOr r.blockTime} height={height} hash={hex r.blockhash} prev={prev} txs=[{txl}]"

def showTx (api : String) (r : TxResp) : String :=
  let (a, m) := renderTx api r.tx
  let pos := if api = "grpc" then (match r.pos with | some p => toString p | none => "-") else "-"
  s!"ok slot={r.slot} time={r.blockTime} pos={pos} tx={a} meta={m}"

def step (st : St) (w : List String) : St × String :=
  match w with
  | "case" :: _ => ({ st with univ := #[], es := [], cache := [] }, "ok")
  | ["epoch", num, g] =>
    let gen := if g = "genesis=-" then none else some (g.drop 8).toNat!
    ({ st with univ := st.univ.push { num := num.toNat!, genesis := gen } }, "ok")
  | ["obj", ep, c, off] =>
    (modifyEpoch st ep.toNat! fun e => { e with objs := e.objs.push (natOfHex c, off.toNat!) }, "ok")
  | ["block", ep, slot, parent, time, height, c] =>
    let b : BlockAcc := { slot := slot.toNat!, parent := parent.toNat!, time := time.toNat!, height := optNat height, cid := natOfHex c }
    (modifyEpoch st ep.toNat! fun e => { e with blocks := e.blocks.push b }, "ok")
  | ["entry", ep, _slot, h, c] =>
    let en : EntryAcc := { hash := unhex h, cid := natOfHex c }
    let addE : BlockAcc → BlockAcc := fun b => { b with entries := b.entries.push en }
    (modifyEpoch st ep.toNat! fun e => { e with blocks := modifyLast e.blocks addE }, "ok")
  | ["tx", ep, slot, pos, sig, payload, md, c, frames, dj, mj] =>
    let p := unhex payload
    let m := unhex md
    let t : Tx := { sig := natOfHex sig, slot := slot.toNat!, pos := optNat pos, payload := p, mdata := m, cid := natOfHex c,
                    frames := if frames = "-" then [] else (frames.splitOn ",").map natOfHex, tag := tagOf p m dj mj }
    let addT : EntryAcc → EntryAcc := fun en => { en with txs := en.txs.push t }
    let addB : BlockAcc → BlockAcc := fun b => { b with entries := modifyLast b.entries addT }
    (modifyEpoch st ep.toNat! fun e => { e with blocks := modifyLast e.blocks addB }, "ok")
  | ["load", nums, conc, _order] =>
    let ns := (nums.splitOn ",").map String.toNat!
    let es := (st.univ.toList.filter fun e => ns.contains e.num).map EpochAcc.toEpoch
    let c := (conc.drop 5)
    let ci : Int := if c.startsWith "-" then - ((c.drop 1).toNat! : Int) else (c.toNat! : Int)
    ({ st with es := es, conc := ci, cache := [] }, s!"ok {es.length}")
  | ["getblocktime", api, slot] =>
    match getBlockTime st.es slot.toNat! with
    | .ok t => (st, if api = "grpc" then s!"ok {t}" else (if t = 0 then "null" else s!"ok {t}"))
    | r => (st, showErr r)
  | ["gettx", api, sig] =>
    let sg := natOfHex sig
    let r := searchRun st.conc (searchEps st.es sg) []
    let (res, cache) := getTransactionS pairKey (fun _ => false) st.cache st.es r sg
    ({ st with cache := cache }, match res with
      | .ok x => showTx api x
      | e => showErr e)
  | ["getblock", api, slot] =>
    let (res, cache) := getBlockS pairKey (fun _ => false) SortFn.ins Sched.lifo st.cache st.es slot.toNat!
    ({ st with cache := cache }, match res with
      | .ok x => showBlock api x
      | e => showErr e)
  | _ => (st, "unknown-op")

/-- model side of the C02 line protocol: one answer line per op line -/
def run (lines : Array String) : IO Unit := do
  let out ← IO.getStdout
  let mut st : St := {}
  for l in lines do
    let (st', ans) := step st (words l)
    st := st'
    out.putStrLn ans
  out.flush

end DrvC02

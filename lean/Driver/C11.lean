import Driver.Util
import Faithful.Lib.Ledger
import Faithful.Lib.ParsersCbor
open Drv Ledger

/-! model side of the C11 line protocol: one answer line per op line.

  node  <Kind> <hex>        decode the bytes as <Kind> with the model of the hand-written decoder (`Fast.decode`, after the
                            byte parser's resource limits) and with the schema-driven model (`Ref.decode`); print both
                            observations
  probe <Kind> <hex>        same (the harness applies no oracle to these lines: non-conforming inputs that validate the
                            model's error / panic branches)
  as    <Kind> <hex>        same, outcome classes only (cross-kind decoding)
  schema <Type>             the model's copy of that type of the compiled ledger schema (field order, types, optional,
                            nullable, representation) — compared with what bindnode actually loaded
  longlist <Kind> <n> <cidhex>   the node of that kind whose link list is n copies of the CID, built as a typed value and
                            encoded with `Ref.encode`; accepted-by-both iff both models return its observation
-/
namespace DrvC11

def unhexT (s : String) : Bytes :=
  if s = "-" then [] else Id.run do
    let bs := s.toUTF8
    let n := bs.size / 2
    let mut out : Array UInt8 := Array.mkEmpty n
    for i in [0:n] do
      let a := hexVal (Char.ofNat (bs.get! (2 * i)).toNat)
      let b := hexVal (Char.ofNat (bs.get! (2 * i + 1)).toNat)
      out := out.push (UInt8.ofNat (a * 16 + b))
    return out.toList

def parseKind : String → Option Kind
  | "Transaction" => some .transaction
  | "Entry" => some .entry
  | "Block" => some .block
  | "Subset" => some .subset
  | "Epoch" => some .epoch
  | "Rewards" => some .rewards
  | "DataFrame" => some .dataFrame
  | _ => none

def showOpt {α : Type} (f : α → String) : Option α → String
  | some a => f a
  | none => "-"

def showCids (l : List Cid) : String := "[" ++ ",".intercalate (l.map hex) ++ "]"

def showDF (d : DataFrameObs) : String :=
  "{kind=" ++ toString d.kind ++ " hash=" ++ showOpt toString d.hash ++ " index=" ++ showOpt toString d.index ++
  " total=" ++ showOpt toString d.total ++ " data=" ++ hex d.data ++ " hasnext=" ++ (if d.hasNext then "1" else "0") ++
  " next=" ++ showOpt showCids d.next ++ "}"

def showObs : Obs → String
  | .transaction k d m s i => s!"Transaction kind={k} data={showDF d} metadata={showDF m} slot={s} index={showOpt toString i}"
  | .entry k n h t => s!"Entry kind={k} numHashes={n} hash={hex h} transactions={showCids t}"
  | .block k s sh e p b h r =>
    let shs := "[" ++ ",".intercalate (sh.map fun x => s!"{x.entryEndIdx}:{x.shredEndIdx}") ++ "]"
    s!"Block kind={k} slot={s} shredding={shs} entries={showCids e} parent_slot={p} blocktime={b} block_height={showOpt toString h} rewards={hex r}"
  | .subset k f l b => s!"Subset kind={k} first={f} last={l} blocks={showCids b}"
  | .epoch k e s => s!"Epoch kind={k} epoch={e} subsets={showCids s}"
  | .rewards k s d => s!"Rewards kind={k} slot={s} data={showDF d}"
  | .dataFrame d => s!"DataFrame {showDF d}"

inductive Res where
  | ok (o : Obs)
  | err
  | panic

def fastRes (k : Kind) (b : Bytes) : Res :=
  match Cbor.decodeFirst b with
  | none => .err
  | some (v, _) =>
    match FastFixed.decodeLimited k v with
    | .ok n => .ok (obs n)
    | .err _ => .err
    | .panic _ => .panic

def refRes (k : Kind) (b : Bytes) : Res :=
  match Cbor.decodeAll b with
  | none => .err
  | some v =>
    match Ref.decode k v with
    | .ok n => .ok (obs n)
    | .error _ => .err

def cls : Res → String
  | .ok _ => "ok"
  | .err => "err"
  | .panic => "panic"

def line (f c : Res) (full : Bool) : String :=
  if !full then s!"F:{cls f} | C:{cls c}" else
  let fs := match f with | .ok o => "ok " ++ showObs o | r => cls r
  let cs := match f, c with
    | .ok o, .ok o' => if o = o' then "same" else "ok " ++ showObs o'
    | _, .ok o' => "ok " ++ showObs o'
    | _, r => cls r
  s!"F:{fs} | C:{cs}"

def longNode (k : Kind) (n : Nat) (c : Cid) : Option Node :=
  let l := List.replicate n c
  match k with
  | .epoch => some (.epoch ⟨4, 7, l⟩)
  | .subset => some (.subset ⟨3, 10, 20, l⟩)
  | .entry => some (.entry ⟨1, 12, [1, 2, 3], l⟩)
  | .block => some (.block ⟨2, 99, [⟨1, 2⟩], l, ⟨98, 1700000000, some (some 5)⟩, c⟩)
  | .dataFrame => some (.dataFrame ⟨6, some (some (-5)), some (some 0), some (some 2), [9], some (some l)⟩)
  | _ => none

def longlist (k : Kind) (n : Nat) (c : Cid) : String :=
  match longNode k n c with
  | none => "bad-op"
  | some node =>
    if !decide node.WF then "not-wf" else
    let v := Ref.encode node
    let f : Res := match FastFixed.decodeLimited k v with | .ok m => .ok (obs m) | .err _ => .err | .panic _ => .panic
    let c : Res := match Ref.decode k v with | .ok m => .ok (obs m) | .error _ => .err
    match f, c with
    | .ok a, .ok b => if a = obs node ∧ b = obs node then "accepted-by-both" else "observations-differ"
    | .ok _, _ => "classic-rejects"
    | .panic, _ => "fast-panics"
    | .err, .ok _ => "fast-rejects"
    | .err, _ => "both-reject"

def showField (f : FieldSpec) : String :=
  let flag := if f.optional ∧ f.nullable then "optnull" else if f.optional then "opt" else if f.nullable then "null" else "req"
  s!"{f.name}:{f.ty}:{flag}"

/-- the model's copy of the compiled schema, in the harness's canonical form -/
def showSchema (t : String) : String :=
  match Ledger.schema.find? (·.1 = t) with
  | some (_, fs) => "struct tuple " ++ " ".intercalate (fs.map showField)
  | none =>
    match Ledger.schemaLists.find? (·.1 = t) with
    | some (_, e) => s!"list {e} nonnull"
    | none => if Ledger.schemaBytes.contains t then "bytes" else "unknown-type"

def step (l : String) : String :=
  match words l with
  | ["schema", t] => showSchema t
  | ["schema-files"] => "same"
  | ["node", k, h] | ["probe", k, h] =>
    (match parseKind k with
     | some k => let b := unhexT h; line (fastRes k b) (refRes k b) true
     | none => "bad-op")
  | ["as", k, h] =>
    (match parseKind k with
     | some k => let b := unhexT h; line (fastRes k b) (refRes k b) false
     | none => "bad-op")
  | ["longlist", k, n, c] =>
    (match parseKind k with
     | some k => longlist k n.toNat! (unhexT c)
     | none => "bad-op")
  | "case" :: _ => "ok"
  | _ => "bad-op"

def run (lines : Array String) : IO Unit := do
  let out ← IO.getStdout
  for l in lines do
    out.putStrLn (step l)

end DrvC11

import Driver.Util
import Faithful.Lib.SplitCar
import Faithful.Lib.Hash
open Drv

/-! model side of the C16 line protocol (both harness runs: package splitcarfetcher and package main)

  case …                                              → ok
  segs  <hex>…                                        → ok <n> <total>        NewMultiReaderAt, sizes = lengths
  msegs <size>:<hex>…                                 → ok <n> <total>        NewMultiReaderAt, explicit size table
  read  <off> <len> [@tag]                            → <hex> eof|noeof       MultiReaderAt.ReadAt
  scr   <recordedHeaderSize> <headerhex> <k>:<hs>:<cs>:<filehex>…   (k = f local file | m in-memory)
                                                      → ok <nsegs> | err:header | err:piece-size:<i>
  sread <off> <len> [@tag]                            → <hex> eof|noeof | noreader
  split <id> hdr=<n> maxlinks=<n> target=<n> dags=<a+b,c+d+e,…>
                                                      → pieces <n> <HeaderSize>:<ContentSize>:<ndags>:<nsections>… | panic
  answers longer than 64 bytes are printed as  n=<len> h=<xxhash64>  -/

namespace DrvC16
open SplitCar

structure St where
  segs : List Seg := []
  rd : Option Reader := none

def showRead (r : Bytes × Bool) : String :=
  let b := if r.1.length ≤ 64 then hex r.1 else s!"n={r.1.length} h={hexNat (H.xxhash64 r.1).toNat 16}"
  b ++ (if r.2 then " eof" else " noeof")

def parseSized (w : String) : Seg :=
  match w.splitOn ":" with
  | [n, h] => ⟨unhex h, n.toNat!⟩
  | _ => ⟨[], 0⟩

def parsePiece (w : String) : PieceIn :=
  match w.splitOn ":" with
  | [k, hs, cs, f] => ⟨if k = "f" then .file else .mem, hs.toNat!, cs.toNat!, unhex f⟩
  | _ => ⟨.mem, 0, 0, []⟩

def kv (w pre : String) : Option String :=
  if w.startsWith pre then some ((w.drop pre.length).toString) else none

def parseDags (s : String) : List (List Nat) :=
  if s = "" then [] else (s.splitOn ",").map fun d => (d.splitOn "+").map String.toNat!

def step (st : St) (l : String) : St × String :=
  match words l with
  | "case" :: _ => (st, "ok")
  | "segs" :: hs =>
    let segs := hs.map fun h => Seg.exact (unhex h)
    ({ st with segs := segs }, s!"ok {segs.length} {(segs.map Seg.size).sum}")
  | "msegs" :: ws =>
    let segs := ws.map parseSized
    ({ st with segs := segs }, s!"ok {segs.length} {(segs.map Seg.size).sum}")
  | "read" :: o :: n :: _ => (st, showRead (readAt st.segs o.toInt! n.toNat!))
  | "scr" :: hsz :: hdr :: ps =>
    match newReader ⟨unhex hdr, hsz.toNat!⟩ (ps.map parsePiece) with
    | .ok r => ({ st with rd := some r }, s!"ok {r.segs.length}")
    | .error .header => ({ st with rd := none }, "err:header")
    | .error (.pieceSize i) => ({ st with rd := none }, s!"err:piece-size:{i}")
  | "sread" :: o :: n :: _ =>
    match st.rd with
    | some r => (st, showRead (r.readAt o.toInt! n.toNat!))
    | none => (st, "noreader")
  | ["split", _, a, b, c, d] =>
    match kv a "hdr=", kv b "maxlinks=", kv c "target=", kv d "dags=" with
    | some hdr, some ml, some tg, some ds =>
      let hdr := hdr.toNat!
      match splitCmd List.sum hdr tg.toNat! ml.toNat! (parseDags ds) with
      | none => (st, "panic")
      | some ps =>
        let body := ps.map fun p => s!" {hdr}:{p.contentSize hdr}:{p.dags.length}:{(p.dags.map List.length).sum}"
        (st, s!"pieces {ps.length}" ++ String.join body)
    | _, _, _, _ => (st, "bad-op")
  | _ => (st, "bad-op")

def run (lines : Array String) : IO Unit := do
  let out ← IO.getStdout
  let mut st : St := {}
  for l in lines do
    let (st', o) := step st l
    st := st'
    out.putStrLn o

end DrvC16

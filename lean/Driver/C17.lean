import Driver.Util
import Faithful.Lib.RangeCache
import Faithful.Lib.Hash
open Drv RC

/-! model side of the C17 line protocol (see /verif/harness/tree/range-cache/c17_test.go for the op lines).
    Every state-changing op is evaluated twice, with two different map iteration orders (`[]` = the list as
    it is, and "always insert at the end" = reversed); if the client-visible answer or the canonical state
    differ the answer line carries `MODEL-ORDER-DEPENDENT` (never expected: `C17.setRange_order_independent`). -/
namespace DrvC17

structure St where
  file : RC.Bytes := []
  size : Int := 0
  rc : State := State.empty
  stack : List State := []

def showBytes (b : RC.Bytes) : String :=
  if b.length ≤ 32 then hex b else s!"{b.length}#{hexNat (H.xxhash64 b).toNat 16}"

def errName : Err → String
  | .range => "range" | .tooLarge => "toolarge" | .ctx => "ctx" | .fetch => "fetch" | .len => "len"

def showRes : Res → String
  | .ok b => showBytes b
  | .err c => "err:" ++ errName c
  | .panic => "panic"

def showSet : SetRes → String
  | .ok => "ok" | .errRange => "err:range" | .errLen => "err:len" | .errCtx => "err:ctx"

def parseCtx (s : String) : Ctx := if s = "done" then some 0 else none

def entryLe (a b : Entry) : Bool := a.s < b.s || (a.s == b.s && a.e ≤ b.e)

def canon (st : State) : List (Int × Int × RC.Bytes) × Nat :=
  ((st.cache.mergeSort entryLe).map fun en => (en.s, en.e, en.v), st.occ)

def revOrder (st : State) : Order := List.replicate st.cache.length 1000000000

def parseFetch (file : RC.Bytes) (start ln : Int) (m : String) : Fetch :=
  let want := slice file start.toNat ln.toNat
  if m = "fail" then ⟨0, true, zeros ln.toNat⟩
  else match m.splitOn ":" with
    | ["short", n] => let k := n.toNat!; ⟨k, false, want.take k ++ zeros (ln.toNat - k)⟩
    | _ => ⟨ln.toNat, false, want⟩

def parseExpiry (s : String) : Expiry :=
  if s = "all" then .all
  else if s = "none" then .keys []
  else .keys ((s.splitOn ",").filterMap fun r =>
    match r.splitOn "-" with
    | [a, b] => some (a.toInt!, b.toInt!)
    | _ => none)

def parseHttp (file : RC.Bytes) (off : Int) (ln : Nat) (m : String) : List HttpResp :=
  let honest := HttpResp.resp 206 (honestBody file off.toNat ln)
  match m.splitOn ":" with
  | ["st", code, body] => [.resp code.toNat! (unhex body)]
  | ["terr", k] => List.replicate k.toNat! .transportErr ++ [honest]
  | _ => [honest]

def showRErr : RErr → String
  | .nil => "nil" | .eof => "eof" | .unexpectedEOF => "ueof" | .other c => errName c

def mark (same : Bool) (s : String) : String := if same then s else s ++ " MODEL-ORDER-DEPENDENT"

def step1 (st : St) (ws : List String) : St × String :=
  match ws with
  | "case" :: _ => (st, "ok")
  | "concurrent" :: _ => (st, "ok")
  | ["newhttp", f] =>
    let file := unhex f
    ({ file := file, size := file.length, rc := State.empty }, s!"ok size={file.length}")
  | ["new", f] => let file := unhex f; ({ file := file, size := file.length, rc := State.empty }, "ok")
  | ["get", a, b, fm, cm] =>
    let start := a.toInt!; let ln := b.toInt!
    -- the fetch outcome is only consulted for a valid range (never build a buffer for a refused one)
    let f := if invalidB start (wrap64 (start + ln)) st.size then ⟨0, true, []⟩ else parseFetch st.file start ln fm
    let ctx := parseCtx cm
    let r1 := getRange [] [] ctx ctx st.size st.rc start ln f
    let ro := revOrder st.rc
    let r2 := getRange ro ro ctx ctx st.size st.rc start ln f
    ({ st with rc := r1.1 }, mark (r1.2 == r2.2 && canon r1.1 == canon r2.1) (showRes r1.2))
  | ["set", a, b, v, cm] =>
    let ctx := parseCtx cm
    let r1 := setRange [] ctx st.size st.rc a.toInt! b.toInt! (unhex v)
    let r2 := setRange (revOrder st.rc) ctx st.size st.rc a.toInt! b.toInt! (unhex v)
    ({ st with rc := r1.1 }, mark (r1.2 == r2.2 && canon r1.1 == canon r2.1) (showSet r1.2))
  | ["deleteold", e, cm] =>
    let ctx := parseCtx cm
    let ex := parseExpiry e
    let r1 := deleteOld [] ctx ex.test st.rc
    let r2 := deleteOld (revOrder st.rc) ctx ex.test st.rc
    ({ st with rc := r1 }, mark (canon r1 == canon r2) "ok")
  | ["occ"] => (st, toString st.rc.occ)
  | ["dump"] =>
    let c := canon st.rc
    (st, s!"n={c.1.length} occ={c.2}" ++ String.join (c.1.map fun (s, e, _) => s!" {s}-{e}"))
  | ["push"] => ({ st with stack := st.rc :: st.stack }, "ok")
  | ["pop"] =>
    match st.stack with
    | s :: rest => ({ st with rc := s, stack := rest }, "ok")
    | [] => (st, "bad-op")
  | ["readat", a, b, m] =>
    let off := a.toInt!; let ln := b.toNat!
    let f := remoteReadAt true ln (parseHttp st.file off ln m)
    let r1 := readAt [] [] st.size st.rc ln off f
    let ro := revOrder st.rc
    let r2 := readAt ro ro st.size st.rc ln off f
    let s := match r1.2 with
      | .ret d e => s!"{d.length}:{showBytes d}:{showRErr e}"
      | .panic => "panic"
    ({ st with rc := r1.1 }, mark (r1.2 == r2.2 && canon r1.1 == canon r2.1) s)
  | _ => (st, "bad-op")

def step (st : St) (l : String) : St × String :=
  match words l with
  | "peek" :: rest => (st, (step1 st rest).2)      -- answer of the op, state restored
  | ws => step1 st ws

def run (lines : Array String) : IO Unit := do
  let out ← IO.getStdout
  let mut st : St := {}
  for l in lines do
    let (st', o) := step st l
    st := st'
    out.putStrLn o

end DrvC17

import Driver.Util
import Faithful.Lib.CarInfo
import Faithful.Lib.EpochLookup
open Drv CI Car IndexAll EpochLookup

/-!
Model side of the C03 line protocol (see /verif/harness/tree/c03_test.go for the op lines).
Every answer is computed with the definitions the theorems of Faithful/Properties/C03.lean are about:
`getBlockA` / `getTxA` / `multiGetBlockA` / `multiGetTxA` (= the list versions by `getBlockA_eq`, `getTxA_eq`,
`multiGetBlockA_eq`, `multiGetTxA_eq`), `getNodeByCidA`, `lookupA`, `gsfa`.
-/
namespace DrvC03

structure EpSt where
  ep : EpA
  /-- transactions of the epoch, newest first (from the `tx` lines, which come in archive order) -/
  txs : List Tx := []
  gsfa : Option AddrIndex := none

structure St where
  eps : List EpSt := []
  loaded : List Nat := []

def St.find (st : St) (n : Nat) : Option EpSt := st.eps.find? (·.ep.num == n)

def St.update (st : St) (e : EpSt) : St :=
  { st with eps := e :: st.eps.filter (·.ep.num != e.ep.num) }

/-- the loaded epochs, in the order of the server line -/
def St.loadedEps (st : St) : List EpSt := st.loaded.filterMap st.find

def ixWord : Look → String
  | .found _ => "found"
  | .notFound => "notfound"
  | _ => "err"

def dedupAppend (acc : List Bytes) (xs : List Bytes) : List Bytes :=
  xs.foldl (fun a x => if a.contains x then a else a ++ [x]) acc

/-- the address index of an epoch as `index gsfa` builds it: one entry per address mentioned by any transaction;
    the value is the address's ordinal, the list behind it holds the transactions that mention the address, newest first -/
def buildGsfa (e : EpSt) (numBuckets : Nat) : Except BuildErr (AddrIndex × Nat) :=
  let addrs : List Bytes := e.txs.reverse.foldl (fun a t => dedupAppend a t.mentions) []
  let arr := addrs.toArray
  let kvs : List KV := (List.range arr.size).map fun i => ⟨arr.getD i [], B.le 9 i⟩
  match buildA HF.real 9 (numBuckets * Generated.targetEntriesPerBucket) [] kvs with
  | .error err => .error err
  | .ok ix =>
    let log := fun (v : Bytes) =>
      let a := arr.getD (B.unle v) []
      e.txs.filter fun t => t.mentions.contains a
    .ok (⟨ix, log⟩, arr.size)

def numArg (w : List String) (key : String) (dflt : Nat) : Nat :=
  match w.find? (fun x => x.startsWith (key ++ "=")) with
  | some x => ((x.drop (key.length + 1)).toString).toNat!
  | none => dflt

def strArg (w : List String) (key : String) : Option String :=
  match w.find? (fun x => x.startsWith (key ++ "=")) with
  | some x => let v := ((x.drop (key.length + 1)).toString); if v == "-" || v == "" then none else some v
  | none => none

def slotAns (s : Nat) : Ans (Node × Nat) → String
  | .ok (_, slot) => if slot = s then s!"ok:{slot}" else s!"WRONG:{slot}"
  | .notFound => "notfound"
  | .epochNotAvailable => "epoch-not-available"
  | .err => "err"

def sigAns (g : Bytes) : Ans (Node × Bytes) → String
  | .ok (_, sig) => if sig = g then "ok" else "WRONG:" ++ hex (sig.take 8)
  | .notFound => "notfound"
  | .epochNotAvailable => "epoch-not-available"
  | .err => "err"

def step (st : St) (l : String) : St × String :=
  match words l with
  | "gen" :: _ => (st, "gen ok")
  | ["car", en, h] =>
    let bytes := unhex h
    match Car.parse bytes with
    | none => (st, "car parse-error")
    | some (hdr, sl) =>
      let secs := sl.map (·.1)
      let infos := secs.map fun s => CarInfo.info s.data
      let nb := (infos.filter fun i => match i with | .block .. => true | _ => false).length
      let nt := (infos.filter fun i => match i with | .tx .. => true | _ => false).length
      match IndexAll.build HF.real CarInfo.info hdr secs secs.length nb nt with
      | .error e => (st, s!"car hdr={hdr} objs={secs.length} blocks={nb} txs={nt} build=err {repr e}")
      | .ok ix => (st.update { ep := ⟨en.toNat!, ix, bytes.toArray⟩ },
          s!"car hdr={hdr} objs={secs.length} blocks={nb} txs={nt} build=ok")
  | "tx" :: en :: sig :: rest =>
    match st.find en.toNat! with
    | none => (st, "noepoch")
    | some e =>
      let addrs := match rest with
        | [a] => (a.splitOn ",").map unhex
        | _ => []
      (st.update { e with txs := ⟨unhex sig, addrs⟩ :: e.txs }, "ok")
  | "gsfa" :: en :: rest =>
    match st.find en.toNat! with
    | none => (st, "noepoch")
    | some e =>
      match buildGsfa e (numArg rest "buckets" 100) with
      | .error err => (st, s!"gsfa build=err {repr err}")
      | .ok (g, n) => (st.update { e with gsfa := some g }, s!"gsfa addrs={n} build=ok")
  | "server" :: es :: _ =>
    let ns := (es.splitOn ",").map String.toNat!
    if ns.all (fun n => (st.find n).isSome) then ({ st with loaded := ns }, "ok") else (st, "unknown-epoch")
  | ["slot", "epoch", en, n] =>
    let s := n.toNat!
    match (if st.loaded.contains en.toNat! then st.find en.toNat! else none) with
    | none => (st, "epoch-not-loaded")
    | some e =>
      (st, s!"ix={ixWord (findCidFromSlot HF.real e.ep.ix s)} {slotAns s (getBlockA HF.real CarInfo.info e.ep.ix e.ep.car s)}")
  | ["slot", _, n] =>
    let s := n.toNat!
    (st, slotAns s (multiGetBlockA HF.real CarInfo.info (st.loadedEps.map (·.ep)) s))
  | ["sig", "epoch", en, h] =>
    let g := unhex h
    match (if st.loaded.contains en.toNat! then st.find en.toNat! else none) with
    | none => (st, "epoch-not-loaded")
    | some e =>
      (st, s!"ix={ixWord (findCidFromSig HF.real e.ep.ix g)} {sigAns g (getTxA HF.real CarInfo.info e.ep.ix e.ep.car g)}")
  | ["sig", _, h] =>
    let g := unhex h
    (st, sigAns g (multiGetTxA HF.real CarInfo.info (st.loadedEps.map (·.ep)) g))
  | ["cid", "epoch", en, h] =>
    let c := unhex h
    match (if st.loaded.contains en.toNat! then st.find en.toNat! else none) with
    | none => (st, "epoch-not-loaded")
    | some e =>
      let ixw := ixWord (lookupA HF.real e.ep.ix.cidIx c)
      match getNodeByCidA HF.real e.ep.ix e.ep.car c with
      | .ok d => (st, s!"ix={ixw} ok:{d.length}:{hexNat (H.xxhash64 d).toNat 16}")
      | .notFound => (st, s!"ix={ixw} notfound")
      | .err => (st, s!"ix={ixw} err")
  | ["addr", "ix", en, h] =>
    match (st.find en.toNat!).bind (·.gsfa) with
    | none => (st, "unknown-epoch")
    | some g => (st, s!"ix={ixWord (lookupA HF.real g.ix (unhex h))}")
  | "addr" :: "rpc" :: h :: rest =>
    let a := unhex h
    let limit := effLimit (numArg rest "limit" 1000)
    let before := (strArg rest "before").map unhex
    let upto := (strArg rest "until").map unhex
    -- most recent epoch first (getGsfaReadersInEpochDescendingOrder)
    let gs := ((st.loadedEps.mergeSort fun x y => decide (x.ep.num ≥ y.ep.num)).filterMap (·.gsfa))
    match gsfaPaged HF.real gs a limit before upto with
    | .ok txs =>
      let wrong := (txs.filter fun t => !t.mentions.contains a).length
      if wrong > 0 then (st, s!"WRONG:{wrong}/{txs.length}") else
      let sum := txs.foldl (fun acc t => (acc + (H.xxhash64 t.sig).toNat) % 2^64) 0
      (st, s!"n={txs.length} h={hexNat sum 16}")
    | _ => (st, "err")
  -- concurrency phases: every request is answered as if it were alone (the lookups share no mutable state that
  -- depends on the key), so the summary is "ok" iff the stored key is served and the colliding absent key is not
  | "concurrent" :: "slot" :: via :: en :: s1 :: s2 :: _ =>
    let (sS, sA) := (s1.toNat!, s2.toNat!)
    let get := fun (s : Nat) =>
      if via == "epoch" then
        match (if st.loaded.contains en.toNat! then st.find en.toNat! else none) with
        | none => "epoch-not-loaded"
        | some e => slotAns s (getBlockA HF.real CarInfo.info e.ep.ix e.ep.car s)
      else slotAns s (multiGetBlockA HF.real CarInfo.info (st.loadedEps.map (·.ep)) s)
    let (x, y) := (get sS, get sA)
    (st, if x == s!"ok:{sS}" && y == "notfound" then "ok" else s!"stored={x} absent={y}")
  | "concurrent" :: "sig" :: via :: en :: g1 :: g2 :: _ =>
    let (gS, gA) := (unhex g1, unhex g2)
    let get := fun (g : Bytes) =>
      if via == "epoch" then
        match (if st.loaded.contains en.toNat! then st.find en.toNat! else none) with
        | none => "epoch-not-loaded"
        | some e => sigAns g (getTxA HF.real CarInfo.info e.ep.ix e.ep.car g)
      else sigAns g (multiGetTxA HF.real CarInfo.info (st.loadedEps.map (·.ep)) g)
    let (x, y) := (get gS, get gA)
    (st, if x == "ok" && y == "notfound" then "ok" else s!"stored={x} absent={y}")
  | _ => (st, "bad-op")

def run (lines : Array String) : IO Unit := do
  let out ← IO.getStdout
  let mut st : St := {}
  for l in lines do
    let (st', o) := step st l
    st := st'
    out.putStrLn o

end DrvC03

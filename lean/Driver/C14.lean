import Driver.Util
import Faithful.Lib.Frames
import Faithful.Lib.Hash
open Drv Frames
abbrev BytesL := List UInt8

/-! model side of the C14 line protocol (three harness runs share it: packages tooling, accum, main).

```
case <text…>                                  → ok          (forgets every frame, object and known payload)
frame <id> <index|-> <total|-> <hash|-> <datahex|-> <next ids, comma separated|-|[]>   → ok
del <id>                                      → ok          (the store no longer holds the frame)
expect …                                      → ok          (oracle bookkeeping of the harness, not modelled)
flag disableHashVerification true|false       → ok          (the harness sets ipldbindcode.DisableHashVerification, the state
                                                 `index gsfa` leaves behind; reassembly must not depend on it)
load <id> <seq>                               → ok <len> <xxhash64> | err:get | err:count | err:hash | hang
loadnd <id> <seq> <answer of the real code>   → member | notmember:<set>   (duplicate / missing indices: the
                                                 unstable sort may give any element of `Frames.outcomes`)
verify <hash> <datahex>                       → ok | err    (`ipldbindcode.VerifyHash`)
sums <datahex>                                → <crc64 iso> <fnv1a64>
known <len> <xxh of compressed> <xxh of content>  → ok      (zstd oracle table: these compressed bytes decode)
push <id> | pushtx <id> | pushother           → ok          (accum: append an object to the block's object list)
run <n>                                       → ok a;b;… | err:<class>     (`ObjectsToTransactionsAndMetadata`)
txmeta <data id> <meta id> <seq>              → ok <len> <xxh> | <len> <xxh>  | err:data:<c> | err:meta:<c> | err:zstd
```
-/
namespace DrvC14

def unhexFast (s : String) : BytesL := Id.run do
  if s = "-" then return []
  let b := s.toUTF8
  let hv (c : UInt8) : UInt8 :=
    if c ≥ 48 ∧ c ≤ 57 then c - 48 else if c ≥ 97 ∧ c ≤ 102 then c - 87 else if c ≥ 65 ∧ c ≤ 70 then c - 55 else 0
  let mut out : Array UInt8 := Array.mkEmpty (b.size / 2)
  let mut i := 0
  while i + 1 < b.size do
    out := out.push (hv (b.get! i) * 16 + hv (b.get! (i+1)))
    i := i + 2
  return out.toList

structure St where
  frames : List (Cid × Frame) := []      -- latest first; `del` removes
  known : List (Nat × UInt64) := []
  objs : Array Obj := #[]

def optInt (s : String) : Option Int := if s = "-" then none else s.toInt?
def optNat (s : String) : Option Nat := if s = "-" then none else s.toNat?

def parseNext (s : String) : List Cid :=
  if s = "-" ∨ s = "[]" then [] else (s.splitOn ",").filterMap (·.toNat?)

def digest (b : BytesL) : String := s!"{b.length} {hexNat (H.xxhash64 b).toNat 16}"

def showErr : Err → String
  | .get => "err:get"
  | .count => "err:count"
  | .hash => "err:hash"
  | .fuel => "hang"

def errClass : Err → String
  | .get => "get"
  | .count => "count"
  | .hash => "hash"
  | .fuel => "hang"

def showRes : Res BytesL → String
  | .ok b => "ok " ++ digest b
  | .err e => showErr e

def S : SortFn := SortFn.merge

def fuelOf (st : St) : Nat := st.frames.length + 2

def isKnown (st : St) (b : BytesL) : Bool :=
  st.known.any fun (l, x) => l == b.length && x == H.xxhash64 b

def parseFrame (ws : List String) : Option (Cid × Frame) :=
  match ws with
  | [id, ix, tot, h, d, nx] =>
    some (id.toNat!, { index := optInt ix, total := optInt tot, hash := optNat h, data := unhexFast d, next := parseNext nx })
  | _ => none

/-- `ObjectsToTransactionsAndMetadata` followed, per transaction, by the zstd oracle; the model's `accRun`
is run on the prefix ending at each transaction so that the first failing step in stream order wins -/
def runAccum (st : St) : String := Id.run do
  let objs := st.objs.toList
  let mut outs : Array String := #[]
  let mut i := 0
  for o in objs do
    i := i + 1
    match o with
    | .tx _ =>
      match accRun Real.hashes S.sort (fuelOf st) [] (objs.take i) with
      | .err e => return "err:" ++ errClass e
      | .ok bs =>
        let b := bs.getLastD []
        if b.isEmpty then outs := outs.push "empty"
        else if isKnown st b then outs := outs.push (digest b)
        else return "err:zstd"
    | _ => pure ()
  return "ok " ++ ";".intercalate outs.toList

def step (st : St) (l : String) : St × String :=
  match words l with
  | "case" :: _ => ({}, "ok")
  | "expect" :: _ => (st, "ok")
  | "flag" :: _ => (st, "ok")   -- process-wide switches of the real code: the model's answers do not depend on them
  | "frame" :: rest =>
    match parseFrame rest with
    | some (c, f) => ({ st with frames := (c, f) :: st.frames }, "ok")
    | none => (st, "bad-op")
  | ["del", id] => ({ st with frames := st.frames.filter (·.1 != id.toNat!) }, "ok")
  | "load" :: id :: _ =>
    match lookup st.frames id.toNat! with
    | none => (st, "nofirst")
    | some first => (st, showRes (load Real.hashes S.sort (lookup st.frames) (fuelOf st) first))
  | ["loadnd", id, _, a, b, c] => nd st id (a ++ " " ++ b ++ " " ++ c)
  | ["loadnd", id, _, a] => nd st id a
  | ["verify", h, d] => (st, if verifyHash Real.hashes (unhexFast d) h.toNat! then "ok" else "err")
  | ["sums", d] =>
    let b := unhexFast d
    (st, s!"{(Real.crc64 b).toNat} {(Real.fnv1a b).toNat}")
  | ["known", len, xp, _] => ({ st with known := (len.toNat!, UInt64.ofNat (unhexNat xp)) :: st.known }, "ok")
  | ["push", id] =>
    match lookup st.frames id.toNat! with
    | none => (st, "noframe")
    | some f => ({ st with objs := st.objs.push (.frame id.toNat! f) }, "ok")
  | ["pushtx", id] =>
    match lookup st.frames id.toNat! with
    | none => (st, "noframe")
    | some f => ({ st with objs := st.objs.push (.tx f) }, "ok")
  | ["pushother"] => ({ st with objs := st.objs.push .other }, "ok")
  | "run" :: _ => ({ st with objs := #[] }, runAccum st)
  | "txmeta" :: d :: m :: _ =>
    match lookup st.frames d.toNat!, lookup st.frames m.toNat! with
    | some fd, some fm =>
      match load Real.hashes S.sort (lookup st.frames) (fuelOf st) fd with
      | .err e => (st, "err:data:" ++ errClass e)
      | .ok bd =>
        match load Real.hashes S.sort (lookup st.frames) (fuelOf st) fm with
        | .err e => (st, "err:meta:" ++ errClass e)
        | .ok bm =>
          if bm.isEmpty then (st, s!"ok {digest bd} | empty")
          else if isKnown st bm then (st, s!"ok {digest bd} | {digest bm}")
          else (st, "err:zstd")
    | _, _ => (st, "nofirst")
  | _ => (st, "bad-op")
where
  unhexNat (s : String) : Nat := s.toList.foldl (fun a c => a * 16 + hexVal c) 0
  nd (st : St) (id : String) (answer : String) : St × String :=
    match lookup st.frames id.toNat! with
    | none => (st, "nofirst")
    | some first =>
      let outs := (outcomes Real.hashes (lookup st.frames) (fuelOf st) first).map showRes
      if outs.contains answer then (st, "member")
      else (st, "notmember:" ++ "|".intercalate outs.eraseDups)

def run (lines : Array String) : IO Unit := do
  let out ← IO.getStdout
  let mut st : St := {}
  for l in lines do
    let (st', o) := step st l
    st := st'
    out.putStrLn o

end DrvC14

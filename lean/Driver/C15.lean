import Driver.Util
import Faithful.Lib.AccumCar
import Faithful.Lib.Hash
open Drv

/-! model side of the C15 line protocol (see harness/tree/accum/c15_test.go): one answer line per op line -/
namespace DrvC15
open Accum

def hexRaw (b : List UInt8) : String :=
  String.ofList (b.flatMap fun x => [hexDigit (x.toNat / 16), hexDigit (x.toNat % 16)])

def showObj (o : Obj) : String :=
  s!"{o.kind.toNat}:{hexRaw o.cid}@{o.offset}+{o.secLen}#{hexNat (H.xxhash64 o.data).toNat 16}"

def showGroup (g : Group) : String :=
  (match g.parent with | none => "nil" | some p => showObj p) ++ "[" ++ ",".intercalate (g.children.map showObj) ++ "]"

def canon (gs : List Group) : String :=
  let s := ";".intercalate (gs.map showGroup)
  if s.utf8ByteSize > 6000 then
    let n := (gs.map fun g => g.members.length).sum
    s!"g={gs.length} o={n} xx={hexNat (H.xxhash64 s.toUTF8.toList).toNat 16}"
  else s!"g={gs.length} {s}"

def parseKinds (w : String) : List UInt8 :=
  if w = "-" then [] else (w.splitOn ",").map fun p => UInt8.ofNat p.toNat!

structure St where
  car : Option Car := none
  bytes : List UInt8 := []

def step (st : St) (l : String) : St × String :=
  match words l with
  | "case" :: _ => (st, "ok")
  | ["car", h] =>
    let b := unhex h
    match parse b with
    | none => ({ car := none, bytes := [] }, "err")
    | some c => ({ car := some c, bytes := b },
        s!"car hdr={c.header.length} secs={c.secs.length} xx={hexNat (H.xxhash64 b).toNat 16}")
  | ["run", ig, k, skip, _mode, _procs, _seed] =>
    match st.car with
    | none => (st, "nocar")
    | some c =>
      let skip := skip.toNat!
      -- `data[1]` on a node with fewer than two bytes: index out of range in the reading goroutine
      if !(c.secs.drop skip).all (fun s => decide (2 ≤ s.data.length)) then (st, "panic")
      else (st, canon (run c (parseKinds ig) (UInt8.ofNat k.toNat!) skip))
  | _ => (st, "bad-op")

def run (lines : Array String) : IO Unit := do
  let out ← IO.getStdout
  let mut st : St := {}
  for l in lines do
    let (st', o) := step st l
    st := st'
    out.putStrLn o

end DrvC15

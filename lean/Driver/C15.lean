import Driver.Util
import Faithful.Lib.AccumCar
import Faithful.Lib.AccumQueue
import Faithful.Lib.Hash
open Drv

/-! model side of the C15 line protocol (see harness/tree/accum/c15_test.go): one answer line per op line -/
namespace DrvC15
open Accum

def hexRaw (b : List UInt8) : String :=
  String.ofList (b.flatMap fun x => [hexDigit (x.toNat / 16), hexDigit (x.toNat % 16)])

def showObj (o : Obj) : String :=
  s!"{o.kind.toNat}:{hexRaw o.cid}@{o.offset}+{o.secLen}#{hexNat (H.xxhash64 o.data).toNat 16}"

def showGroup (g : Group) : String :=
  (match g.parent with | none => "nil" | some p => showObj p) ++ "[" ++ ",".intercalate (g.children.map showObj) ++ "]"

def canon (gs : List Group) : String :=
  let s := ";".intercalate (gs.map showGroup)
  if s.utf8ByteSize > 6000 then
    let n := (gs.map fun g => g.members.length).sum
    s!"g={gs.length} o={n} xx={hexNat (H.xxhash64 s.toUTF8.toList).toNat 16}"
  else s!"g={gs.length} {s}"

def parseKinds (w : String) : List UInt8 :=
  if w = "-" then [] else (w.splitOn ",").map fun p => UInt8.ofNat p.toNat!

/-- splitmix64, as `zzverif.RNG` -/
def nextRand (st : UInt64) : UInt64 × UInt64 :=
  let st := st + 0x9E3779B97F4A7C15
  let z := st
  let z := (z ^^^ (z >>> 30)) * 0xBF58476D1CE4E5B9
  let z := (z ^^^ (z >>> 27)) * 0x94D049BB133111EB
  (z ^^^ (z >>> 31), st)

/-- Replays the run as two goroutines (`Accum.exec`) under a schedule drawn from `seed`: a random stretch (reader steps,
    flusher steps, pool clean-ups, small or real buffer sizes, stale pooled buffers, callback appending in place or not)
    followed by round-robin until both have returned.  By `C15.fifo_any_speed` / `fifo_fair_completes` the callbacks
    observed are `run` whatever the schedule; the driver checks it on the spot and marks a disagreement. -/
def schedOK (c : Car) (ig : List UInt8) (k : UInt8) (skip : Nat) (seed : Nat) (expect : List Group) : Bool := Id.run do
  let mut r : UInt64 := UInt64.ofNat seed * 0x9E3779B97F4A7C15 + 0xc15
  let (x, r1) := nextRand r
  r := r1
  let cfg : Cfg := { cap0 := [1, 2, 7, 5000][(x % 4).toNat]!, qcap := [1, 3, 1000][((x >>> 8) % 3).toNat]!,
                     grow := fun n => 2 * n + 1 }
  let app := seed % 2 == 1
  let mut s := init c skip ((x >>> 16) % 3).toNat
  let n0 := 9 * c.secs.length + 12
  for _ in [0:2 * n0] do
    let (y, r2) := nextRand r
    r := r2
    let ev : Ev := match (y % 16).toNat with
      | 0 => .gc
      | 1 | 2 | 3 | 4 | 5 | 6 | 7 => .p ((y >>> 8) % 3).toNat
      | _ => .c app
    -- long one-sided stretches as well: every so often one side runs alone for a while
    let burst := if (y >>> 20) % 64 == 0 then ((y >>> 32) % 40).toNat else 0
    s := step cfg ig k s ev
    for _ in [0:burst] do
      s := step cfg ig k s ev
  for _ in [0:n0] do
    if s.finished then break
    s := step cfg ig k (step cfg ig k s (.p 0)) (.c app)
  return s.finished && s.observed == expect && !s.bad && s.reread == s.seen

structure St where
  car : Option Car := none
  bytes : List UInt8 := []

def step (st : St) (l : String) : St × String :=
  match words l with
  | "case" :: _ => (st, "ok")
  | ["car", h] =>
    let b := unhex h
    match parse b with
    | none => ({ car := none, bytes := [] }, "err")
    | some c => ({ car := some c, bytes := b },
        s!"car hdr={c.header.length} secs={c.secs.length} xx={hexNat (H.xxhash64 b).toNat 16}")
  | ["run", ig, k, skip, _mode, _procs, seed] =>
    match st.car with
    | none => (st, "nocar")
    | some c =>
      let skip := skip.toNat!
      -- a node with fewer than two bytes: `iplddecoders.GetKind` fails and `Run` returns that error (fix 74d949c;
      -- before it `data[1]` panicked in the reading goroutine)
      if !(c.secs.drop skip).all (fun s => decide (2 ≤ s.data.length)) then (st, "err")
      else
        let ig := parseKinds ig
        let k := UInt8.ofNat k.toNat!
        let gs := Accum.run c ig k skip
        (st, canon gs ++ (if schedOK c ig k skip seed.toNat! gs then "" else " MODEL-SCHED-DISAGREE"))
  | _ => (st, "bad-op")

def run (lines : Array String) : IO Unit := do
  let out ← IO.getStdout
  let mut st : St := {}
  for l in lines do
    let (st', o) := step st l
    st := st'
    out.putStrLn o

end DrvC15

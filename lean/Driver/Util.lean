/-! shared helpers of the line-protocol driver (core only) -/
namespace Drv

abbrev Bytes := List UInt8

def hexVal (c : Char) : Nat :=
  if c.isDigit then c.toNat - '0'.toNat
  else if 'a' ≤ c ∧ c ≤ 'f' then c.toNat - 'a'.toNat + 10
  else if 'A' ≤ c ∧ c ≤ 'F' then c.toNat - 'A'.toNat + 10 else 0

/-- "-" is the empty byte string -/
def unhex (s : String) : Bytes :=
  let rec go : List Char → Bytes
    | a :: b :: rest => UInt8.ofNat (hexVal a * 16 + hexVal b) :: go rest
    | _ => []
  if s = "-" then [] else go s.toList

def hexDigit (n : Nat) : Char := if n < 10 then Char.ofNat (n + 48) else Char.ofNat (n + 87)

def hex (b : Bytes) : String :=
  if b.isEmpty then "-" else
  String.ofList (b.flatMap fun x => [hexDigit (x.toNat / 16), hexDigit (x.toNat % 16)])

def hexNat (n : Nat) (digits : Nat) : String :=
  String.ofList ((List.range digits).reverse.map fun i => hexDigit ((n / 16 ^ i) % 16))

partial def readAll (h : IO.FS.Stream) (acc : Array String) : IO (Array String) := do
  let line ← h.getLine
  if line.isEmpty then return acc else readAll h (acc.push (line.trimAsciiEnd).toString)

def words (l : String) : List String := (l.splitOn " ").filter (· ≠ "")

end Drv

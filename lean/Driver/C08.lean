import Driver.Util
import Faithful.Lib.Request
open Drv Req

/-! model side of the C08 line protocol: one answer line per op line.

    world I E:G,E:G|- JP                                      → ok
    http METHOD RAWPATH BODY CHUNKED NORMPATH CL TREE          → response class (`data` = any data-layer answer)
    raw WIRE                                                  → nopanic   (the model's claim for every request)
    g GetVersion | GetBlock S | GetBlockTime S | GetTransaction SIG
    g StreamBlocks START END CANCEL FILTER | g StreamTransactions START END CANCEL FILTER
    g Get ITEMS TAIL SENDFAIL
    bca ITEMS ACCOUNTS                                        → true | false
-/
namespace DrvC08

def strOfHex (h : String) : String :=
  let bytes := unhex h
  match String.fromUTF8? (ByteArray.mk bytes.toArray) with
  | some s => s
  | none => String.ofList (bytes.map fun b => Char.ofNat b.toNat)

/-- the precise classes a data-layer answer may take, printed as `data` on both sides -/
def canon (r : String) : String :=
  if r = "200:result" || r = "200:null" || r = "200:e-32009" || r = "200:e-32603" || r = "200:body" ||
     r = "404:empty" || r = "500:empty" || r = "200:empty" then "data" else r

def showOutcome : Outcome String → String
  | .ok r => canon r
  | .err e => "err " ++ e
  | .panic _ => "panic"

partial def parseTree : List String → Option (Json × List String)
  | [] => none
  | t :: rest =>
    match t.toList with
    | ['z'] => some (.null, rest)
    | ['t'] => some (.bool true, rest)
    | ['f'] => some (.bool false, rest)
    | 'n' :: cs =>
      match (String.ofList cs).splitOn ":" with
      | [v, fl] =>
        let flags := fl.toNat!
        some (.num ⟨v.toNat!, flags % 2 = 1, (flags / 2) % 2 = 1⟩, rest)
      | _ => none
    | 's' :: cs => some (.str (strOfHex (String.ofList cs)), rest)
    | 'A' :: cs =>
      let n := (String.ofList cs).toNat!
      let rec items (k : Nat) (rest : List String) (acc : List Json) : Option (List Json × List String) :=
        if k = 0 then some (acc.reverse, rest) else
        match parseTree rest with
        | some (j, r) => items (k - 1) r (j :: acc)
        | none => none
      match items n rest [] with
      | some (xs, r) => some (.arr xs, r)
      | none => none
    | 'O' :: cs =>
      let n := (String.ofList cs).toNat!
      let rec pairs (k : Nat) (rest : List String) (acc : List (String × Json)) : Option (List (String × Json) × List String) :=
        if k = 0 then some (acc.reverse, rest) else
        match rest with
        | kt :: r1 =>
          match kt.toList with
          | 'k' :: kc =>
            match parseTree r1 with
            | some (j, r2) => pairs (k - 1) r2 ((strOfHex (String.ofList kc), j) :: acc)
            | none => none
          | _ => none
        | [] => none
      match pairs n rest [] with
      | some (kvs, r) => some (.obj kvs, r)
      | none => none
    | _ => none

def bodyOf (tree : String) : Body :=
  if tree = "M" then .malformed else
  match parseTree (tree.splitOn ",") with
  | some (j, []) => .json j
  | _ => .malformed

def parseWorld (eps jp : String) : World :=
  let es := if eps = "-" then [] else (eps.splitOn ",").map fun p =>
    match p.splitOn ":" with
    | [e, g] => (e.toNat!, g = "1")
    | _ => (0, false)
  ⟨es, jp = "1"⟩

def csvHex (s : String) : List String :=
  if s = "." then [] else (s.splitOn ",").map strOfHex

def optNat (s : String) : Option Nat := if s = "-" then none else some s.toNat!
def optB (s : String) : Option Bool := if s = "0" then some false else if s = "1" then some true else none

def parseTxFilter (s : String) : Option TxFilter :=
  if s = "-" then none else
  let parts := s.splitOn ";"
  let get (c : Char) : String :=
    match parts.find? (fun p => p.toList.head? = some c) with
    | some p => String.ofList (p.toList.drop 1)
    | none => "."
  some ⟨optB (get 'V'), optB (get 'F'), csvHex (get 'I'), csvHex (get 'E'), csvHex (get 'R')⟩

def parseGetItems (s : String) : List GetItem :=
  if s = "." then [] else (s.splitOn ";").map fun it =>
    match it.toList with
    | 'V' :: _ => .version
    | 'B' :: cs => .block (String.ofList cs).toNat!
    | 'T' :: cs => .blockTime (String.ofList cs).toNat!
    | 'X' :: _ => .transaction
    | _ => .nothing

def parseBca (s : String) : List BcaTx :=
  (s.splitOn ";").map fun it =>
    match it.splitOn ":" with
    | [_, mk, sh, lh] => ⟨true, sh = "1", mk ≠ "garbage", lh = "1"⟩
    | _ => ⟨false, false, false, false⟩

/-- the data layer is abstract; any instance will do for the outcome class -/
def backend : Backend := ⟨fun _ => true, fun _ => 1, fun _ => true⟩

def step (w : World) (l : String) : World × String :=
  match words l with
  | ["world", _, eps, jp] => (parseWorld eps jp, "ok")
  | ["http", m, _, _, _, np, cl, tree] =>
    if tree = "R" then (w, "http-reject") else
    let r : HttpReq := ⟨m, strOfHex np, cl.toInt!, bodyOf tree⟩
    (w, showOutcome (handle w backend (.http r)))
  | ["raw", _] => (w, "nopanic")
  | ["conc", _] => (w, "nopanic")   -- concurrent clients: each request is handled as if alone (handlers share no mutable state)
  | ["g", "GetVersion"] => (w, showOutcome (handle w backend .grpcGetVersion))
  | ["g", "GetBlock", s] => (w, showOutcome (handle w backend (.grpcGetBlock s.toNat!)))
  | ["g", "GetBlockTime", s] => (w, showOutcome (handle w backend (.grpcGetBlockTime s.toNat!)))
  | ["g", "GetTransaction", _] => (w, showOutcome (handle w backend .grpcGetTransaction))
  | ["g", "StreamBlocks", st, en, c, f] =>
    let filter := if f = "-" then none else some (csvHex f)
    (w, showOutcome (handle w backend (.grpcStreamBlocks ⟨st.toNat!, optNat en, filter, c = "1"⟩ [])))
  | ["g", "StreamTransactions", st, en, c, f] =>
    (w, showOutcome (handle w backend (.grpcStreamTransactions ⟨st.toNat!, optNat en, parseTxFilter f, c = "1"⟩ [])))
  | ["g", "Get", items, tail, sf] =>
    (w, match getLoop w (parseGetItems items) (tail = "err") (if sf = "-" then 0 else sf.toNat!) [] with
        | .ok (sent, final) => (if sent.isEmpty then "." else String.intercalate "," sent) ++ ";" ++ final
        | .err e => "err " ++ e
        | .panic _ => "panic")
  | ["bca", items, _] =>
    (w, match blockContainsAccounts (parseBca items) with
        | .ok b => if b then "true" else "false"
        | .err e => "err " ++ e
        | .panic _ => "panic")
  | _ => (w, "bad-op")

def run (lines : Array String) : IO Unit := do
  let out ← IO.getStdout
  let mut w : World := ⟨[], false⟩
  for l in lines do
    let (w', o) := step w l
    w := w'
    out.putStrLn o

end DrvC08

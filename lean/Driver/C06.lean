import Driver.Util
import Faithful.Lib.GsfaIndex
open Drv Gsfa

/-!
Model side of the C06 line protocol (one answer line per op line).

Writer-history stream (package gsfa):
  `case …` | `params B P C K M T R` | `sched lazy|eager|rand <seed>` | `push <slot> <off> <size> <flags> <a,b,…>`
  | `close` | `get <addr> <limit> [case tag]`
The events are applied with `Gsfa.step`; at `close` the recorded event list goes through `Gsfa.index`
(= `run`, `close`, `buildFrom`, `sealHeads`) with the `Std.HashMap` implementation of the three maps and the
identity as stand-in for zstd (the theorems hold for every lawful `Z`, and nothing that is compared depends on
the compressed bytes); `get` is `Gsfa.readerGet`.  The schedule (when `bgRecv` happens) is chosen by `sched`;
a send on a full channel (capacity `C`) forces a `bgRecv` first.

LinkedLog stream (package linkedlog):
  `newlog` | `put <addr> <prevoff> <prevsize> z=<hex> <entries oldest first>` | `read <off> <size>`
`put` is `Gsfa.flushRec` with zstd given by the table of (raw, compressed) pairs seen on the op lines,
`read` is `Gsfa.readWithSize`.
-/
namespace DrvC06

abbrev Ah : AccMap := FMap.hm (List Entry) []
abbrev Rh : RankMap := FMap.hm Nat 0
abbrev Hh : HeadMap := FMap.hm Ptr Ptr.zero

def Zid : Zstd := ⟨id, some⟩

def showEntry (e : Entry) : String := s!"{e.off.toNat}:{e.size.toNat}:{e.slot.toNat}:{e.flags.toNat}"

def showEntries (es : List Entry) : String := " ".intercalate (es.map showEntry)

def parseEntry (s : String) : Entry :=
  match s.splitOn ":" with
  | [a, b, c, d] => ⟨UInt64.ofNat a.toNat!, UInt64.ofNat b.toNat!, UInt64.ofNat c.toNat!, UInt8.ofNat d.toNat!⟩
  | _ => default

def parseEntries (s : String) : List Entry := if s = "-" then [] else (s.splitOn ",").map parseEntry

def parseAddrs (s : String) : List Nat := if s = "-" then [] else (s.splitOn ",").map String.toNat!

inductive Sched where
  | lazy | eager | rand (seed : Nat)

structure W where
  p : Params := ⟨1000, 256, 100000, 500, 100, 10000⟩
  cap : Nat := 50
  sched : Sched := .lazy
  st : St Ah Rh := init
  evs : Array Ev := #[]
  idx : Option (LogSt Hh) := none
  file : Gsfa.Bytes := []

def lcg (x : Nat) : Nat := (x * 6364136223846793005 + 1442695040888963407) % 2 ^ 64

def W.apply (w : W) (ev : Ev) : W := { w with st := step w.p w.st ev, evs := w.evs.push ev }

/-- background events the schedule inserts after a client event -/
partial def W.bg (w : W) : W :=
  match w.sched with
  | .lazy => w
  | .eager => if w.st.chan.isEmpty then w else (w.apply .bgRecv).bg
  | .rand seed =>
    let s' := lcg seed
    let w := { w with sched := .rand s' }
    if (s' / 2 ^ 33) % 2 = 0 ∨ w.st.chan.isEmpty then w else (w.apply .bgRecv).bg

def W.push (w : W) (c : PushCall) : W := Id.run do
  let mut w := (w.apply (.begin c.slot)).bg
  for ev in (clientEvents c).drop 1 do
    -- a send on a full channel blocks until the goroutine has received one batch
    if w.st.chan.length ≥ w.cap then w := w.apply .bgRecv
    w := (w.apply ev).bg
  return w

def showFail : Fail → String
  | .err "notfound" => "notfound"
  | .err _ => "err"
  | .panic _ => "panic"

/-- sizes (number of entries) of the records of an address, newest first -/
partial def chainSizes (file : Gsfa.Bytes) (p : Ptr) (acc : List Nat) (fuel : Nat) : List Nat :=
  if p.isZero || fuel = 0 then acc.reverse else
  match readWithSize Zid file p.off p.size with
  | .ok (es, nn) => chainSizes file nn (es.length :: acc) (fuel - 1)
  | .error _ => (0 :: acc).reverse

structure L where
  st : LogSt Hh := LogSt.init
  table : List (Gsfa.Bytes × Gsfa.Bytes) := []   -- (raw, compressed)

def L.z (l : L) : Zstd :=
  ⟨fun raw => match l.table.find? (fun t => t.1 == raw) with | some t => t.2 | none => raw,
   fun z => match l.table.find? (fun t => t.2 == z) with | some t => some t.1 | none => none⟩

structure S where
  w : W := {}
  l : L := {}

def stepLine (s : S) (line : String) : S × String :=
  match words line with
  | "case" :: _ => (s, "ok")
  | ["params", b, p, c, k, m, t, r] =>
    ({ s with w := { p := ⟨b.toNat!, p.toNat!, k.toNat!, m.toNat!, t.toNat!, r.toNat!⟩, cap := c.toNat! } }, "ok")
  | ["sched", "lazy"] => ({ s with w := { s.w with sched := .lazy } }, "ok")
  | ["sched", "eager"] => ({ s with w := { s.w with sched := .eager } }, "ok")
  | ["sched", "rand", seed] => ({ s with w := { s.w with sched := .rand seed.toNat! } }, "ok")
  | ["push", slot, off, size, flags, addrs] =>
    let e : Entry := ⟨UInt64.ofNat off.toNat!, UInt64.ofNat size.toNat!, UInt64.ofNat slot.toNat!, UInt8.ofNat flags.toNat!⟩
    ({ s with w := s.w.push ⟨slot.toNat!, parseAddrs addrs, e⟩ }, "ok")
  | ["close"] =>
    match index Ah Rh Hh Zid s.w.p s.w.evs.toList with
    | .ok idx => ({ s with w := { s.w with idx := some idx, file := idx.file } }, "ok")
    | .error f => ({ s with w := { s.w with idx := none } }, showFail f)
  | "get" :: a :: limit :: _ =>
    match s.w.idx with
    | none => (s, "noindex")
    | some idx =>
      match readerGetF Zid s.w.file idx.heads idx.rrecs.length a.toNat! limit.toNat! with
      | .ok es =>
        let sizes := chainSizes s.w.file (Hh.get idx.heads a.toNat!) [] (idx.rrecs.length + 1)
        (s, s!"ok n={es.length} chain={",".intercalate (sizes.map toString)} {showEntries es}".trimAsciiEnd.toString)
      | .error f => (s, showFail f)
  | ["newlog"] => ({ s with l := {} }, "ok")
  | ["put", a, po, ps, z, ents] =>
    let es := parseEntries ents
    let zb := unhex ((z.drop 2).toString)
    let raw := encEntries es.reverse
    let l := { s.l with table := (raw, zb) :: s.l.table }
    let st0 : LogSt Hh := { l.st with heads := Hh.set l.st.heads a.toNat! ⟨po.toNat!, ps.toNat!⟩ }
    match flushRec l.z st0 (a.toNat!, es) with
    | .error f => (s, showFail f)
    | .ok st1 =>
      if es.isEmpty then ({ s with l := { l with st := st1 } }, "skipped") else
      let r := st1.rrecs.headD []
      ({ s with l := { l with st := st1 } }, s!"ok {l.st.off} {(Hh.get st1.heads a.toNat!).size} {hex r}")
  | ["read", off, size] =>
    match readWithSize s.l.z s.l.st.file off.toNat! size.toNat! with
    | .ok (es, nn) => (s, s!"ok next={nn.off}:{nn.size} n={es.length} {showEntries es}".trimAsciiEnd.toString)
    | .error f => (s, showFail f)
  | _ => (s, "bad-op")

def run (lines : Array String) : IO Unit := do
  let out ← IO.getStdout
  let mut s : S := {}
  for l in lines do
    let (s', o) := stepLine s l
    s := s'
    out.putStrLn o

end DrvC06

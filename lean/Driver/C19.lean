import Driver.Util
import Faithful.Lib.Stream
import Faithful.Generated.Consts
open Drv Stream

namespace DrvC19

/-- the constants of the tree; `hb` = the reader honours `before` (measured by the harness, on the `world` line) -/
def P (hb : Bool) : Params := ⟨Generated.epochLen, Generated.streamGsfaBatchSize, Generated.maxSlotsToStream, hb⟩

structure St where
  epochs : Array (Nat × Array (Nat × Array Tx)) := #[]
  frozen : Option (List Epoch) := none
  hb : Bool := false

def St.archive (st : St) : List Epoch :=
  st.epochs.toList.map fun (n, bs) => { num := n, blocks := bs.toList.map fun (s, ts) => { slot := s, txs := ts.toList } }

def ids (s : String) : List Nat := if s = "-" then [] else (s.splitOn ",").map String.toNat!

def tri (s : String) : Option Bool := if s = "t" then some true else if s = "f" then some false else none

def parseFilter (ws : List String) : Option Filter :=
  if ws = ["nil"] then none else
  let get (k : String) : String :=
    match ws.find? (fun w => w.startsWith (k ++ "=")) with
    | some w => (w.drop (k.length + 1)).toString
    | none => "-"
  some { vote := tri (get "v"), failed := tri (get "f"), inc := ids (get "i"), exc := ids (get "x"), req := ids (get "r") }

def hiOf (s : String) : Option Nat := if s = "-" then none else some s.toNat!

def showTxs (l : List Tx) : String :=
  l.foldl (fun acc t => acc ++ s!" {t.slot}:{t.pos}") s!"ok {l.length}"

def showBlocks (l : List Block) : String :=
  l.foldl (fun acc b => acc ++ s!" {b.slot}/{b.txs.length}") s!"ok {l.length}"

def step (st : St) (l : String) : St × String :=
  match words l with
  | "world" :: ws => ({ hb := ws.contains "before=1" }, "ok")
  | "acct" :: _ => (st, "ok")
  | ["epoch", n] => ({ st with epochs := st.epochs.push (n.toNat!, #[]), frozen := none }, "ok")
  | ["block", s, _] =>
    match st.epochs.back? with
    | none => (st, "bad-op")
    | some (n, bs) => ({ st with epochs := st.epochs.pop.push (n, bs.push (s.toNat!, #[])), frozen := none }, "ok")
  | ["tx", s, p, v, f, stc, ld] =>
    match st.epochs.back? with
    | none => (st, "bad-op")
    | some (n, bs) =>
      match bs.back? with
      | none => (st, "bad-op")
      | some (bslot, ts) =>
        let t : Tx := { slot := s.toNat!, pos := p.toNat!, static := ids stc, loaded := ids ld, isVote := v == "1", failed := f == "1" }
        ({ st with epochs := st.epochs.pop.push (n, bs.pop.push (bslot, ts.push t)), frozen := none }, "ok")
  | "streamtx" :: lo :: hi :: g :: _via :: fw =>
    let es := st.frozen.getD st.archive
    let r := streamTransactions (P st.hb) es lo.toNat! (hiOf hi) (parseFilter fw) (g == "gsfa=1")
    ({ st with frozen := some es }, showTxs r)
  | ["streamblocks", lo, hi, f] =>
    let es := st.frozen.getD st.archive
    let flt : Option (List Acct) := if f = "nil" then none else some (ids f)
    ({ st with frozen := some es }, showBlocks (streamBlocks (P st.hb) es lo.toNat! (hiOf hi) flt))
  | _ => (st, "bad-op")

/-- model side of the C19 line protocol: one answer line per op line -/
def run (lines : Array String) : IO Unit := do
  let out ← IO.getStdout
  let mut st : St := {}
  for l in lines do
    let (st', o) := step st l
    st := st'
    out.putStrLn o

end DrvC19

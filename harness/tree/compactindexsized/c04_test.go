package compactindexsized

// C04 harness (injected by /verif/check with `go test -overlay`; nothing is written to /repo).
// Generates op sequences, executes them against the real Builder / DB, records the canonical answers
// (compared line by line with the Lean model's answers) and evaluates the property's own oracle.

import (
	"bytes"
	"context"
	"encoding/binary"
	"fmt"
	"os"
	"path/filepath"
	"strconv"
	"strings"
	"sync"
	"testing"
	"time"

	"github.com/cespare/xxhash/v2"
	zz "github.com/rpcpool/yellowstone-faithful/zzverif"
)

type c04Interp struct {
	s        *zz.Session
	b        *Builder
	vs       int
	inserted map[string][]byte
	order    [][2][]byte
	metas    [][2][]byte
	declared int
	dupKey   bool
	file     []byte
	db       *DB
	dbp      *DB // the same file opened with Prefetch(true), as the server does (epoch.go)
	dir      string
	caseName string
	caseOps  []string
	hungKey  bool
	held     []c04Held
}

type c04Held struct{ key, slice, was []byte }

func (in *c04Interp) reset() {
	if in.b != nil {
		in.b.Close()
		in.b = nil
	}
	in.inserted = map[string][]byte{}
	in.order = nil
	in.metas = nil
	in.dupKey = false
	in.file = nil
	in.db = nil
	in.hungKey = false
	in.held = nil
}

// withTimeout runs f; "hang" only if it does not return within the budget three times in a row.
func withTimeout(d time.Duration, f func() string) string {
	for attempt := 0; attempt < 3; attempt++ {
		ch := make(chan string, 1)
		go func() { ch <- zz.Guard(f) }()
		select {
		case r := <-ch:
			return r
		case <-time.After(d * time.Duration(1+9*attempt)):
		}
	}
	return "hang"
}

func (in *c04Interp) seal(order [][2][]byte) ([]byte, string) {
	dir, _ := os.MkdirTemp(in.dir, "b")
	b, err := NewBuilderSized(dir, uint(in.declared), uint(in.vs))
	if err != nil {
		return nil, "err"
	}
	defer b.Close()
	for _, m := range in.metas {
		b.Metadata().Add(m[0], m[1])
	}
	for _, kv := range order {
		if err := b.Insert(kv[0], kv[1]); err != nil {
			return nil, "err"
		}
	}
	path := filepath.Join(dir, "out.index")
	f, err := os.OpenFile(path, os.O_CREATE|os.O_RDWR, 0o644)
	if err != nil {
		panic(err)
	}
	defer f.Close()
	if err := b.Seal(context.Background(), f); err != nil {
		return nil, "err " + classifyBuildErr(err)
	}
	data, _ := os.ReadFile(path)
	return data, "ok"
}

func classifyBuildErr(err error) string {
	if strings.Contains(err.Error(), "collision") {
		return "CI.BuildErr.collision"
	}
	return "other:" + err.Error()
}

func (in *c04Interp) exec(line string) string {
	w := strings.Fields(line)
	if w[0] == "case" {
		in.caseOps = nil
	}
	in.caseOps = append(in.caseOps, line)
	switch w[0] {
	case "case":
		in.caseName = strings.Join(w[1:], " ")
		return "ok"
	case "new":
		in.reset()
		in.vs, _ = strconv.Atoi(w[1])
		in.declared, _ = strconv.Atoi(w[2])
		dir, _ := os.MkdirTemp(in.dir, "n")
		b, err := NewBuilderSized(dir, uint(in.declared), uint(in.vs))
		if err != nil {
			return "err"
		}
		in.b = b
		return "ok"
	case "meta":
		if in.b == nil {
			return "nobuilder"
		}
		k, v := zz.Unhex(w[1]), zz.Unhex(w[2])
		if err := in.b.Metadata().Add(k, v); err != nil {
			return "err"
		}
		in.metas = append(in.metas, [2][]byte{k, v})
		return "ok"
	case "ins":
		if in.b == nil {
			return "nobuilder"
		}
		k, v := zz.Unhex(w[1]), zz.Unhex(w[2])
		r := withTimeout(2*time.Second, func() string {
			if err := in.b.Insert(k, v); err != nil {
				return "err"
			}
			return "ok"
		})
		if r == "hang" {
			in.hungKey = true
			in.s.Violation("Insert never returns (BucketHash loops forever): builder neither succeeds nor fails",
				"C04:insert-hang:key="+zz.Hex(k), in.replayOf("ins "+w[1]))
		}
		if r == "ok" {
			if _, dup := in.inserted[string(k)]; dup {
				in.dupKey = true
			} else {
				in.inserted[string(k)] = v
			}
			in.order = append(in.order, [2][]byte{k, v})
		}
		return r
	case "seal":
		if in.b == nil {
			return "nobuilder"
		}
		if in.hungKey {
			return "skipped-after-hang"
		}
		var data []byte
		r := zz.Guard(func() string {
			path := filepath.Join(in.dir, "seal.index")
			os.Remove(path)
			f, err := os.OpenFile(path, os.O_CREATE|os.O_RDWR, 0o644)
			if err != nil {
				panic(err)
			}
			defer f.Close()
			if err := in.b.Seal(context.Background(), f); err != nil {
				return "err " + classifyBuildErr(err)
			}
			data, _ = os.ReadFile(path)
			return "ok"
		})
		if r == "panic" {
			in.s.Violation("Seal panics instead of failing with an error: "+zz.LastPanic,
				fmt.Sprintf("C04:seal-panic:valueSize=%d", in.vs), in.replayOf("seal"))
			return "panic"
		}
		if r != "ok" {
			if !in.dupKey && strings.Contains(r, "collision") {
				in.s.Count("collision-without-duplicate")
			}
			return r
		}
		if in.dupKey {
			in.s.Violation("Seal succeeded although the same key was inserted twice",
				"C04:dup-accepted", in.replayOf("seal"))
		}
		in.file = data
		db, err := Open(bytes.NewReader(data))
		if err != nil {
			in.s.Violation("sealed file cannot be opened: "+err.Error(), "C04:open-after-seal", in.replayOf("seal"))
			return fmt.Sprintf("file %d %016x open=false", len(data), xxhash.Sum64(data))
		}
		in.db = db
		in.dbp = nil
		if dbp, err := Open(bytes.NewReader(data)); err == nil {
			dbp.Prefetch(true)
			in.dbp = dbp
		}
		in.s.Count("sealed-ok")
		in.s.Add("keys-sealed", len(in.inserted))
		return fmt.Sprintf("file %d %016x open=true", len(data), xxhash.Sum64(data))
	case "lookup":
		if in.db == nil {
			return "nofile"
		}
		k := zz.Unhex(w[1])
		var got []byte
		r := withTimeout(2*time.Second, func() string {
			v, err := in.db.Lookup(k)
			if err != nil {
				if IsNotFound(err) {
					return "notfound"
				}
				return "err"
			}
			got = v
			return "found " + zz.Hex(v)
		})
		// the prefetching reader (what the server uses) answers what the plain reader answers
		if in.dbp != nil {
			rp := withTimeout(2*time.Second, func() string {
				v, err := in.dbp.Lookup(k)
				if err != nil {
					if IsNotFound(err) {
						return "notfound"
					}
					return "err"
				}
				return "found " + zz.Hex(v)
			})
			in.s.Count("lookup-prefetch-twin")
			if rp != r {
				in.s.Violation(fmt.Sprintf("Lookup(%s) with Prefetch(true) answers %q, without it %q", w[1], rp, r),
					"C04:prefetch-differs", in.replayOf("lookup "+w[1]))
			}
		}
		// a value handed to the caller stays the caller's: the results of earlier lookups must still read what they read
		// when they were returned (a reader that returns a slice of a reused buffer corrupts them)
		for _, h := range in.held {
			if !bytes.Equal(h.slice, h.was) {
				in.s.Violation(fmt.Sprintf("the value returned by an earlier Lookup(%s) changed from %x to %x after a later lookup", zz.Hex(h.key), h.was, h.slice),
					"C04:lookup-result-overwritten", in.replayOf("lookup "+w[1]))
				in.held = nil
				break
			}
		}
		if got != nil {
			if len(in.held) >= 8 {
				in.held = in.held[1:]
			}
			in.held = append(in.held, c04Held{key: append([]byte{}, k...), slice: got, was: append([]byte{}, got...)})
			in.s.Count("lookup-result-held")
		}
		// oracle: every inserted key is found with exactly its value
		if want, ok := in.inserted[string(k)]; ok {
			if r != "found "+zz.Hex(want) {
				kd := zz.Hex(k)
				if len(kd) > 80 {
					kd = fmt.Sprintf("%s…(len %d)", kd[:80], len(k))
				}
				in.s.Violation(fmt.Sprintf("inserted key not returned with its value: got %q", r),
					fmt.Sprintf("C04:lookup-wrong:keylen=%d:vs=%d", len(k), in.vs), in.replayOf("lookup "+w[1]))
			}
			in.s.Count("lookup-present")
		} else {
			in.s.Count("lookup-absent")
			if strings.HasPrefix(r, "found") {
				in.s.Count("lookup-absent-false-positive")
			}
		}
		return r
	case "cseal":
		// `cseal N SEED`: N builders over the same inserts (each in its own order) sealed concurrently
		if in.file == nil {
			return "nofile"
		}
		n, _ := strconv.Atoi(w[1])
		seed, _ := strconv.ParseUint(w[2], 10, 64)
		rng := zz.NewRNG(seed)
		orders := make([][][2][]byte, n)
		for gi := range orders {
			perm := rng.Perm(len(in.order))
			sh := make([][2][]byte, len(in.order))
			for i, j := range perm {
				sh[i] = in.order[j]
			}
			orders[gi] = sh
		}
		datas := make([][]byte, n)
		rs := make([]string, n)
		var wg sync.WaitGroup
		for gi := 0; gi < n; gi++ {
			wg.Add(1)
			go func(gi int) {
				defer wg.Done()
				rs[gi] = zz.Guard(func() string {
					d, r := in.seal(orders[gi])
					datas[gi] = d
					return r
				})
			}(gi)
		}
		wg.Wait()
		for gi := 0; gi < n; gi++ {
			if rs[gi] != "ok" {
				in.s.Violation(fmt.Sprintf("sealing the same inserts in %d builders at the same time: builder %d failed: %s", n, gi, rs[gi]), "C04:concurrent-seal-fail", in.replayOf(line))
				return "diff"
			}
			if !bytes.Equal(datas[gi], in.file) {
				// which inserted key does the concurrently sealed file answer wrongly, if any?
				what := "a different file"
				if db, err := Open(bytes.NewReader(datas[gi])); err == nil {
					for k, v := range in.inserted {
						got, err := db.Lookup([]byte(k))
						if err != nil || !bytes.Equal(got, v) {
							what = fmt.Sprintf("a file in which Lookup(%x) = %x, %v (inserted value %x)", k, got, err, v)
							break
						}
					}
				}
				in.s.Violation(fmt.Sprintf("sealing the same inserts in %d builders at the same time gives %s (builder %d)", n, what, gi), "C04:concurrent-seal-differs", in.replayOf(line))
				return "diff"
			}
		}
		in.s.Count("concurrent-seal-identical")
		return "same"
	case "reseal":
		// seal the same inserts again in another order: byte-identical file expected
		if in.file == nil {
			return "nofile"
		}
		seed, _ := strconv.ParseUint(w[1], 10, 64)
		rng := zz.NewRNG(seed)
		perm := rng.Perm(len(in.order))
		sh := make([][2][]byte, len(in.order))
		for i, j := range perm {
			sh[i] = in.order[j]
		}
		data, r := in.seal(sh)
		if r != "ok" {
			in.s.Violation("re-sealing the same inserts in another order failed: "+r, "C04:reseal-fail", in.replayOf(line))
			return "diff"
		}
		if !bytes.Equal(data, in.file) {
			in.s.Violation("sealing the same inserts in another order gives a different file", "C04:order-dependence", in.replayOf(line))
			return "diff"
		}
		in.s.Count("reseal-identical")
		return "same"
	}
	return "bad-op"
}

// replayOf writes the ops of the current case (from its `new`) up to and including `last` to a file.
func (in *c04Interp) replayOf(last string) string {
	return in.s.Replay(in.caseOps)
}

func truncate(s string, n int) string {
	if len(s) > n {
		return s[:n] + "…"
	}
	return s
}

// ---- generator ----

type c04Gen struct {
	rng *zz.RNG
	ops []string
}

func (g *c04Gen) emit(f string, a ...any) { g.ops = append(g.ops, fmt.Sprintf(f, a...)) }

func (g *c04Gen) keyset(n, keyLen int, tag uint32) [][]byte {
	seen := map[string]bool{}
	var out [][]byte
	for len(out) < n {
		k := g.rng.Bytes(keyLen)
		if keyLen >= 4 {
			binary.LittleEndian.PutUint32(k, uint32(len(out))^tag)
		} else if keyLen > 0 && len(out) >= 1<<(8*keyLen) {
			break
		} else if keyLen > 0 {
			for i := 0; i < keyLen; i++ {
				k[i] = byte(len(out) >> (8 * i))
			}
		}
		if seen[string(k)] {
			if keyLen == 0 {
				break
			}
			continue
		}
		seen[string(k)] = true
		out = append(out, k)
		if keyLen == 0 {
			break
		}
	}
	return out
}

func (g *c04Gen) buildCase(name string, vs, declared int, keys [][]byte, nmeta int, absent int, reseal bool) {
	g.emit("case %s n=%d vs=%d declared=%d", name, len(keys), vs, declared)
	g.emit("new %d %d", vs, declared)
	for i := 0; i < nmeta; i++ {
		g.emit("meta %s %s", zz.Hex(g.rng.Bytes(1+g.rng.Intn(12))), zz.Hex(g.rng.Bytes(g.rng.Intn(40))))
	}
	for _, k := range keys {
		g.emit("ins %s %s", zz.Hex(k), zz.Hex(g.rng.Bytes(vs)))
	}
	g.emit("seal")
	// look up every key for small sets, a sample for big ones
	step := 1
	if len(keys) > 4000 {
		step = len(keys) / 2000
	}
	for i := 0; i < len(keys); i += step {
		g.emit("lookup %s", zz.Hex(keys[i]))
	}
	for i := 0; i < absent; i++ {
		kl := 8
		if len(keys) > 0 {
			kl = len(keys[0])
		}
		g.emit("lookup %s", zz.Hex(g.rng.Bytes(kl+1)))
	}
	if reseal {
		g.emit("reseal %d", g.rng.U64()%1000000)
	}
}

// keysInBucket searches keys that the index's own BucketHash sends to one bucket.
func keysInBucket(rng *zz.RNG, n, keyLen int, nb uint32, bucket uint) [][]byte {
	h := Header{NumBuckets: nb}
	var out [][]byte
	seen := map[string]bool{}
	for len(out) < n {
		k := rng.Bytes(keyLen)
		if seen[string(k)] || h.BucketHash(k) != bucket {
			continue
		}
		seen[string(k)] = true
		out = append(out, k)
	}
	return out
}

func (g *c04Gen) generate(thorough bool) {
	// boundary-directed part: eytzinger shapes, value sizes, key lengths, declared counts
	for _, n := range []int{1, 2, 3, 4, 7, 8, 9, 15, 16, 17, 31, 33, 100} {
		g.buildCase("shape", 8, n, g.keyset(n, 8, 0), 1, 3, true)
	}
	for _, vs := range []int{1, 2, 3, 9, 36, 48, 128, 251, 252} {
		g.buildCase("valuesize", vs, 50, g.keyset(40, 32, 7), 2, 2, vs%2 == 1)
	}
	for _, vs := range []int{0, 253, 254, 255, 256, 1000} {
		// the constructor must refuse what the format cannot hold
		g.emit("case badvaluesize vs=%d", vs)
		g.emit("new %d 10", vs)
		for _, k := range g.keyset(3, 8, 5) {
			g.emit("ins %s %s", zz.Hex(k), zz.Hex(g.rng.Bytes(vs)))
		}
		g.emit("seal")
	}
	g.emit("case zero-declared")
	g.emit("new 8 0")
	for _, kl := range []int{0, 1, 2, 36, 64, 1000, 65535} {
		n := 20
		if kl == 0 {
			n = 1
		}
		if kl >= 1000 {
			n = 3
		}
		g.buildCase(fmt.Sprintf("keylen-%d", kl), 8, 30, g.keyset(n, kl, 3), 0, 2, false)
	}
	{ // a key the spill file cannot represent: must be refused (or else found again)
		g.emit("case keylen-65536")
		g.emit("new 8 10")
		g.emit("ins %s %s", zz.Hex(g.rng.Bytes(8)), zz.Hex(g.rng.Bytes(8)))
		long := g.rng.Bytes(65536)
		g.emit("ins %s %s", zz.Hex(long), zz.Hex(g.rng.Bytes(8)))
		g.emit("seal")
		g.emit("lookup %s", zz.Hex(long))
	}
	{ // duplicate key
		ks := g.keyset(10, 16, 1)
		g.emit("case duplicate")
		g.emit("new 4 10")
		for _, k := range ks {
			g.emit("ins %s %s", zz.Hex(k), zz.Hex(g.rng.Bytes(4)))
		}
		g.emit("ins %s %s", zz.Hex(ks[3]), zz.Hex(g.rng.Bytes(4)))
		g.emit("seal")
	}
	{ // CID-shaped key whose xxhash64 is 0: BucketHash's rehash loop has 0 as a fixed point
		k := zz.Unhex("017112201c232a3182903b4cad09e36770777e858c939aa1a8afb6bdc4cbd2d90e42aa92")
		for _, declared := range []int{25000, 10} {
			g.emit("case xxhash-zero-key declared=%d", declared)
			g.emit("new 9 %d", declared)
			g.emit("ins %s %s", zz.Hex(g.rng.Bytes(36)), zz.Hex(g.rng.Bytes(9)))
			g.emit("ins %s %s", zz.Hex(k), zz.Hex(g.rng.Bytes(9)))
			g.emit("seal")
			g.emit("lookup %s", zz.Hex(k))
		}
	}
	{ // metadata of every allowed shape: empty, maximal (255 pairs of 255+255 bytes), and what Add refuses
		g.emit("case meta-maximal")
		g.emit("new 8 5")
		for i := 0; i < 255; i++ {
			g.emit("meta %s %s", zz.Hex(g.rng.Bytes(255)), zz.Hex(g.rng.Bytes(255)))
		}
		g.emit("meta %s %s", zz.Hex(g.rng.Bytes(3)), zz.Hex(g.rng.Bytes(3))) // the 256th pair is refused
		ks := g.keyset(5, 8, 77)
		for _, k := range ks {
			g.emit("ins %s %s", zz.Hex(k), zz.Hex(g.rng.Bytes(8)))
		}
		g.emit("seal")
		for _, k := range ks {
			g.emit("lookup %s", zz.Hex(k))
		}
		g.emit("case meta-shapes")
		g.emit("new 8 5")
		g.emit("meta - -")
		g.emit("meta %s -", zz.Hex(g.rng.Bytes(255)))
		g.emit("meta - %s", zz.Hex(g.rng.Bytes(255)))
		g.emit("meta %s %s", zz.Hex(g.rng.Bytes(256)), zz.Hex(g.rng.Bytes(1))) // refused
		g.emit("meta %s %s", zz.Hex(g.rng.Bytes(1)), zz.Hex(g.rng.Bytes(256))) // refused
		for _, k := range ks {
			g.emit("ins %s %s", zz.Hex(k), zz.Hex(g.rng.Bytes(8)))
		}
		g.emit("seal")
		for _, k := range ks {
			g.emit("lookup %s", zz.Hex(k))
		}
		for _, np := range []int{1, 2, 127, 128, 254} {
			g.emit("case meta-count-%d", np)
			g.emit("new 4 3")
			for i := 0; i < np; i++ {
				g.emit("meta %s %s", zz.Hex(g.rng.Bytes(g.rng.Intn(256))), zz.Hex(g.rng.Bytes(g.rng.Intn(256))))
			}
			g.emit("ins %s %s", zz.Hex(ks[0]), zz.Hex(g.rng.Bytes(4)))
			g.emit("seal")
			g.emit("lookup %s", zz.Hex(ks[0]))
		}
	}
	// several buckets through the declared count, real count much smaller / larger
	g.buildCase("declared-10x", 9, 30000, g.keyset(3000, 36, 11), 3, 20, true)
	g.buildCase("declared-1", 9, 1, g.keyset(2500, 36, 12), 3, 20, false)
	// many buckets (13) with few entries each, sealed again three times: the file is a function of the inserts
	g.buildCase("many-buckets", 9, 120000, g.keyset(3000, 36, 13), 1, 10, true)
	g.emit("reseal %d", g.rng.U64()%1000000)
	g.emit("reseal %d", g.rng.U64()%1000000)
	// one full-size bucket (10 000 entries: several nonces are mined before the 24-bit hashes are collision-free), then
	// four builders sealing the same inserts AT THE SAME TIME in one process (as `index all` seals its three indexes)
	g.buildCase("full-bucket-concurrent-seal", 9, 10000, g.keyset(10000, 36, 14), 1, 10, false)
	g.emit("cseal 4 %d", g.rng.U64()%1000000)
	g.buildCase("adversarial-one-bucket", 8, 40000, keysInBucket(g.rng, 1500, 12, 4, 2), 1, 10, true)
	// random part
	nrand := 6
	if thorough {
		nrand = 30
	}
	for i := 0; i < nrand; i++ {
		n := 1 + g.rng.Intn(1500)
		vs := 1 + g.rng.Intn(60)
		kl := 1 + g.rng.Intn(70)
		if kl == 1 && n > 200 {
			n = 200
		}
		decl := 1 + g.rng.Intn(10*n)
		g.buildCase("random", vs, decl, g.keyset(n, kl, uint32(i)), g.rng.Intn(4), 10, g.rng.Bool())
	}
	if thorough {
		for _, n := range []int{9999, 10000, 10001, 20001, 60000} {
			g.buildCase("large", 9, n, g.keyset(n, 36, uint32(n)), 3, 50, n <= 20001)
		}
		for vs := 1; vs <= 252; vs += 7 {
			g.buildCase("valuesize-sweep", vs, 20, g.keyset(12, 8, uint32(vs)), 0, 1, false)
		}
	}
}

func TestVerifC04(t *testing.T) {
	s := zz.NewSession()
	defer s.Close()
	dir, err := os.MkdirTemp("", "verif-c04-")
	if err != nil {
		t.Fatal(err)
	}
	defer os.RemoveAll(dir)
	in := &c04Interp{s: s, dir: dir}
	in.reset()
	var ops []string
	if rp := zz.ReplayFile(); rp != "" {
		data, err := os.ReadFile(rp)
		if err != nil {
			t.Fatal(err)
		}
		for _, l := range strings.Split(strings.TrimSpace(string(data)), "\n") {
			if l != "" && !strings.HasPrefix(l, "#") {
				ops = append(ops, l)
			}
		}
	} else {
		g := &c04Gen{rng: zz.NewRNG(zz.Seed())}
		// corpus of minimised past failures first
		g.generate(zz.Thorough())
		ops = g.ops
	}
	for _, op := range ops {
		out := in.exec(op)
		s.Op(op, out, strings.HasPrefix(out, "found") || strings.HasPrefix(out, "file") || out == "same")
	}
	in.reset()
}

package compactindexsized

// C12 harness for the compact index reader (injected by /verif/check with `go test -overlay`; nothing is written to /repo).
//
//	open-ci <file hex> <key hex>   Open(bytes.NewReader(file)); when it opens: Lookup(key), GetBucket(first/last),
//	                               LookupBucket, with and without prefetch.  Answer: ok | err  (class of Open)
//	load-ci <file hex>             Open, GetBucket(0).Load(0) (the bulk loader).  Answer: nopanic
//
// Valid files come from the real Builder; then every length/count field is set to 0, 1, max and to values inconsistent
// with the file size, plus single-byte mutations, truncations and random bytes.

import (
	"bytes"
	"context"
	"os"
	"path/filepath"
	"strings"
	"testing"

	c12 "github.com/rpcpool/yellowstone-faithful/zzc12"
	zz "github.com/rpcpool/yellowstone-faithful/zzverif"
)

func c12ExecCI(op string) string {
	w := strings.Fields(op)
	switch w[0] {
	case "open-ci":
		data, key := zz.Unhex(w[1]), zz.Unhex(w[2])
		db, err := Open(bytes.NewReader(data))
		if err != nil {
			return "err"
		}
		for _, pf := range []bool{false, true} {
			db.Prefetch(pf)
			db.Lookup(key)
			db.Lookup(nil)
			db.LookupBucket(key)
			db.GetBucket(0)
			db.GetBucket(uint(db.Header.NumBuckets - 1))
			db.GetBucket(uint(db.Header.NumBuckets))
			db.GetKind()
			db.KindIs([]byte("x"))
			db.GetValueSize()
			db.Header.Metadata.GetUint64([]byte("epoch"))
		}
		return "ok"
	case "load-ci":
		data := zz.Unhex(w[1])
		db, err := Open(bytes.NewReader(data))
		if err != nil {
			return "nopanic"
		}
		for _, i := range []uint{0, uint(db.Header.NumBuckets - 1)} {
			b, err := db.GetBucket(i)
			if err != nil {
				continue
			}
			b.Load(0)
			b.Load(3)
		}
		return "nopanic"
	}
	return "bad-op"
}

type c12CIFile struct {
	data   []byte
	keys   [][]byte
	fields []c12.Field
}

func c12BuildCI(dir string, rng *zz.RNG, nkeys, keyLen, vs, declared, nmeta int) c12CIFile {
	d, _ := os.MkdirTemp(dir, "b")
	b, err := NewBuilderSized(d, uint(declared), uint(vs))
	if err != nil {
		panic(err)
	}
	defer b.Close()
	for i := 0; i < nmeta; i++ {
		if i == 0 {
			b.Metadata().Add([]byte("epoch"), rng.Bytes(8))
		} else {
			b.Metadata().Add(rng.Bytes(1+rng.Intn(6)), rng.Bytes(rng.Intn(12)))
		}
	}
	var out c12CIFile
	seen := map[string]bool{}
	for len(out.keys) < nkeys {
		k := rng.Bytes(keyLen)
		if seen[string(k)] {
			continue
		}
		seen[string(k)] = true
		if err := b.Insert(k, rng.Bytes(vs)); err != nil {
			panic(err)
		}
		out.keys = append(out.keys, k)
	}
	path := filepath.Join(d, "x.index")
	f, err := os.OpenFile(path, os.O_CREATE|os.O_RDWR, 0o644)
	if err != nil {
		panic(err)
	}
	if err := b.Seal(context.Background(), f); err != nil {
		panic(err)
	}
	f.Close()
	out.data, _ = os.ReadFile(path)
	db, err := Open(bytes.NewReader(out.data))
	if err != nil {
		panic(err)
	}
	hs := int(db.headerSize)
	out.fields = []c12.Field{
		{Name: "headerLen", Off: 8, Width: 4},
		{Name: "valueSize", Off: 12, Width: 8},
		{Name: "numBuckets", Off: 20, Width: 4},
		{Name: "version", Off: 24, Width: 1},
		{Name: "metaCount", Off: 25, Width: 1},
	}
	if nmeta > 0 {
		out.fields = append(out.fields, c12.Field{Name: "metaKeyLen0", Off: 26, Width: 1})
		kl := int(out.data[26])
		out.fields = append(out.fields, c12.Field{Name: "metaValLen0", Off: 27 + kl, Width: 1})
	}
	nb := int(db.Header.NumBuckets)
	for _, i := range []int{0, nb - 1} {
		o := hs + 16*i
		out.fields = append(out.fields,
			c12.Field{Name: "bucket.hashDomain", Off: o, Width: 4},
			c12.Field{Name: "bucket.numEntries", Off: o + 4, Width: 4},
			c12.Field{Name: "bucket.hashLen", Off: o + 8, Width: 1},
			c12.Field{Name: "bucket.pad", Off: o + 9, Width: 1},
			c12.Field{Name: "bucket.fileOffset", Off: o + 10, Width: 6})
		if nb == 1 {
			break
		}
	}
	return out
}

func c12GenCI(dir string, rng *zz.RNG, s *zz.Session, thorough bool) []string {
	var ops []string
	type spec struct{ n, kl, vs, decl, nmeta int }
	specs := []spec{{5, 8, 9, 5, 1}, {1, 32, 1, 1, 0}, {40, 36, 36, 25000, 3}, {12, 64, 36, 12, 2}, {3, 8, 252, 3, 1}}
	if thorough {
		specs = append(specs, spec{300, 8, 8, 300, 4}, spec{20, 1, 2, 30000, 0}, spec{64, 36, 9, 64, 2})
	}
	for si, sp := range specs {
		f := c12BuildCI(dir, rng, sp.n, sp.kl, sp.vs, sp.decl, sp.nmeta)
		nb, nr := 150, 30
		if thorough {
			nb, nr = 600, 200
		}
		muts := c12.Mutate(rng, f.data, f.fields, nb, nr, s.Count)
		for mi, m := range muts {
			key := f.keys[mi%len(f.keys)]
			if mi%5 == 4 {
				key = rng.Bytes(sp.kl)
			}
			ops = append(ops, "open-ci "+zz.Hex(m.Data)+" "+zz.Hex(key))
			if strings.HasPrefix(m.What, "field:") || mi%7 == 0 {
				ops = append(ops, "load-ci "+zz.Hex(m.Data))
			}
		}
		s.Count("valid-files")
		_ = si
	}
	// the smallest files that reach each check of Header.Load: magic + length field 0..40 with exactly that many bytes,
	// one byte more, one byte fewer, and none
	for l := 0; l <= 40; l++ {
		for _, extra := range []int{-1, 0, 1, 16, 40} {
			body := make([]byte, 0, 64)
			body = append(body, 9, 0, 0, 0, 0, 0, 0, 0) // value size 9
			body = append(body, 1, 0, 0, 0)             // one bucket
			body = append(body, Version)
			body = append(body, 0) // no metadata
			for len(body) < l+extra {
				body = append(body, 0)
			}
			if l+extra < len(body) {
				if l+extra < 0 {
					continue
				}
				body = body[:l+extra]
			}
			file := append([]byte{}, Magic[:]...)
			file = append(file, byte(l), 0, 0, 0)
			file = append(file, body...)
			ops = append(ops, "open-ci "+zz.Hex(file)+" 00")
			s.Count("boundary:headerLen-sweep")
		}
	}
	return ops
}

func TestVerifC12(t *testing.T) {
	if c12.IsChild() {
		c12.Serve(c12ExecCI)
		return
	}
	r := c12.NewRun("TestVerifC12")
	defer r.Close()
	r.Print = func(op string, res c12.Result) string {
		if strings.HasPrefix(op, "load-ci") && (res.Class == "ok" || res.Class == "err" || res.Class == "nopanic") {
			return "nopanic"
		}
		return res.Class
	}
	dir, err := os.MkdirTemp("", "verif-c12-ci-")
	if err != nil {
		t.Fatal(err)
	}
	defer os.RemoveAll(dir)
	ops := c12.ReplayOps()
	if ops == nil {
		ops = c12GenCI(dir, zz.NewRNG(zz.Seed()), r.S, zz.Thorough())
	}
	for _, op := range ops {
		r.Exec(op)
	}
}

package main

// C03 harness: a request is never answered with an object that belongs to a different key.
//
// Two generated epochs (real signed transactions, real CAR, real `index all` + `index gsfa`) are served by real
// Epoch / MultiEpoch objects.  The harness then SEARCHES adversarial absent keys with the index's own exported hash
// functions (compactindexsized.Open, Header.BucketHash, Bucket.Hash over the real slot-to-cid / sig-to-cid /
// cid-to-offset-and-size / gsfa pubkey-to-offset-and-size files): absent slots, signatures, CIDs and addresses
// whose bucket and 24-bit in-bucket hash equal those of a stored key.  Those, every skipped slot, random absent
// keys, keys of epochs that are not loaded and a sample of present keys are queried through Epoch.GetBlock /
// GetTransaction / GetNodeByCid, the JSON-RPC handler (getBlock, getTransaction, getSignaturesForAddress) and the
// gRPC methods, with one epoch loaded (no sig-exists pre-filter is consulted) and with two epochs loaded.
//
// One op line per query; the Lean driver answers the same lines with the model of Faithful/Lib/EpochLookup.lean
// (index lookup, CID-checked fetch, decode, COMPARISON with the requested key).  The oracle below is independent of
// the model: it looks the returned object up in the generator's ground truth.
//
// Op lines:
//   gen epoch=<E> blocks=<n> maxtx=<n> skip=<pct> nkeys=<n> base=<b> loaded=<pct> frame=<pct> rng=<seed>
//   car <E> <hex of the CAR file>
//   tx <E> <first signature hex> <hex addresses mentioned (static keys, then loaded), comma separated>
//   gsfa <E> buckets=<number of buckets of the real pubkey index>
//   server <E>[,<E>] [sigonly]
//   slot epoch <E> <n> | slot rpc <n> | slot grpc <n>
//   sig epoch <E> <hex64> | sig rpc <hex64> | sig grpc <hex64>
//   cid epoch <E> <hex36>
//   addr ix <E> <hex32> | addr rpc <hex32>

import (
	"bufio"
	"context"
	"encoding/base64"
	"encoding/binary"
	"encoding/hex"
	"encoding/json"
	"fmt"
	"os"
	"path/filepath"
	"sort"
	"strconv"
	"strings"
	"sync"
	"testing"

	"github.com/cespare/xxhash/v2"
	bin "github.com/gagliardetto/binary"
	"github.com/gagliardetto/solana-go"
	"github.com/ipfs/go-cid"
	"github.com/rpcpool/yellowstone-faithful/compactindexsized"
	"github.com/rpcpool/yellowstone-faithful/gsfa/linkedlog"
	hugecache "github.com/rpcpool/yellowstone-faithful/huge-cache"
	"github.com/rpcpool/yellowstone-faithful/indexes"
	old_faithful_grpc "github.com/rpcpool/yellowstone-faithful/old-faithful-proto/old-faithful-grpc"
	zz "github.com/rpcpool/yellowstone-faithful/zzverif"
	"github.com/valyala/fasthttp"
	"google.golang.org/grpc/codes"
	"google.golang.org/grpc/status"
)

// ---------------------------------------------------------------------------------------------------------------
// collision tables over a real index file, using only the package's exported functions

type c03Coll struct {
	f       *os.File
	db      *compactindexsized.DB
	buckets []*compactindexsized.Bucket
	hashes  []map[uint64]struct{}
	n       int
}

func c03OpenColl(path string) (*c03Coll, error) {
	f, err := os.Open(path)
	if err != nil {
		return nil, err
	}
	db, err := compactindexsized.Open(f)
	if err != nil {
		f.Close()
		return nil, err
	}
	c := &c03Coll{f: f, db: db}
	for i := uint(0); i < uint(db.Header.NumBuckets); i++ {
		b, err := db.GetBucket(i)
		if err != nil {
			f.Close()
			return nil, err
		}
		ents, err := b.Load(0)
		if err != nil {
			f.Close()
			return nil, err
		}
		m := make(map[uint64]struct{}, len(ents))
		for _, e := range ents {
			m[e.Hash] = struct{}{}
		}
		c.n += len(ents)
		c.buckets = append(c.buckets, b)
		c.hashes = append(c.hashes, m)
	}
	return c, nil
}

// collides: the key falls into a bucket that holds an entry with the same in-bucket hash (so Lookup answers "found")
func (c *c03Coll) collides(key []byte) bool {
	i := c.db.Header.BucketHash(key)
	m := c.hashes[i]
	if len(m) == 0 {
		return false
	}
	_, ok := m[c.buckets[i].Hash(key)]
	return ok
}

func (c *c03Coll) close() { c.f.Close() }

// c03Search evaluates candidates 0,1,2,… (key j is written into buf by mk) in parallel chunks and returns the first
// `want` colliding candidates in candidate order: a deterministic function of (index file, mk).
func c03Search(c *c03Coll, keyLen int, mk func(j uint64, buf []byte), want int, maxCand uint64, skip func(key []byte) bool) (hits [][]byte, tried uint64) {
	const workers = 8
	const chunk = uint64(1 << 20)
	for base := uint64(0); base < maxCand && len(hits) < want; base += chunk {
		type hit struct {
			j uint64
			k []byte
		}
		var mu sync.Mutex
		var found []hit
		var wg sync.WaitGroup
		for w := 0; w < workers; w++ {
			wg.Add(1)
			go func(w int) {
				defer wg.Done()
				buf := make([]byte, keyLen)
				for j := base + uint64(w); j < base+chunk && j < maxCand; j += workers {
					mk(j, buf)
					if c.collides(buf) {
						mu.Lock()
						found = append(found, hit{j, append([]byte(nil), buf...)})
						mu.Unlock()
					}
				}
			}(w)
		}
		wg.Wait()
		sort.Slice(found, func(a, b int) bool { return found[a].j < found[b].j })
		for _, h := range found {
			if skip != nil && skip(h.k) {
				continue
			}
			if len(hits) < want {
				hits = append(hits, h.k)
			}
		}
		tried = base + chunk
	}
	return hits, tried
}

// c03SiblingCids: CIDv1(codec, sha2-256, D) for the digests D of the stored objects and codecs 0, 1, 2, … (≠ dag-cbor)
// whose index position (bucket, in-bucket hash) is that of the stored CIDv1(dag-cbor, sha2-256, D).  The first `want`
// in (codec, object) order: a deterministic function of the index file.
func c03SiblingCids(c *c03Coll, objs []*gObj, want int, maxCodec uint64) (hits [][]byte, tried uint64) {
	type pos struct {
		b int
		h uint64
	}
	var own []pos
	var digests [][]byte
	for _, ob := range objs {
		cb := ob.Cid.Bytes()
		if len(cb) != 36 || cb[0] != 1 || cb[1] != 0x71 || cb[2] != 0x12 || cb[3] != 0x20 {
			continue
		}
		i := int(c.db.Header.BucketHash(cb))
		own = append(own, pos{i, c.buckets[i].Hash(cb)})
		digests = append(digests, cb[4:])
	}
	const workers = 8
	const chunk = uint64(1 << 12)
	for base := uint64(0); base < maxCodec && len(hits) < want; base += chunk {
		type hit struct {
			codec uint64
			oi    int
			k     []byte
		}
		var mu sync.Mutex
		var found []hit
		var wg sync.WaitGroup
		for w := 0; w < workers; w++ {
			wg.Add(1)
			go func(w int) {
				defer wg.Done()
				buf := make([]byte, 0, 48)
				for codec := base + uint64(w); codec < base+chunk && codec < maxCodec; codec += workers {
					if codec == 0x71 {
						continue
					}
					for oi, d := range digests {
						buf = append(buf[:0], 1)
						buf = binary.AppendUvarint(buf, codec)
						buf = append(buf, 0x12, 0x20)
						buf = append(buf, d...)
						i := int(c.db.Header.BucketHash(buf))
						if i == own[oi].b && c.buckets[i].Hash(buf) == own[oi].h {
							mu.Lock()
							found = append(found, hit{codec, oi, append([]byte(nil), buf...)})
							mu.Unlock()
						}
					}
				}
			}(w)
		}
		wg.Wait()
		sort.Slice(found, func(a, b int) bool {
			if found[a].codec != found[b].codec {
				return found[a].codec < found[b].codec
			}
			return found[a].oi < found[b].oi
		})
		for _, h := range found {
			if len(hits) < want {
				hits = append(hits, h.k)
			}
		}
		tried = (base + chunk) * uint64(len(digests))
	}
	return hits, tried
}

func c03Mix(seed, j uint64) uint64 {
	z := seed + (j+1)*0x9E3779B97F4A7C15
	z = (z ^ (z >> 30)) * 0xBF58476D1CE4E5B9
	z = (z ^ (z >> 27)) * 0x94D049BB133111EB
	return z ^ (z >> 31)
}

// pseudo-random key j of any length (counter based, so that the search can run in parallel)
func c03RandKey(seed uint64) func(j uint64, buf []byte) {
	return func(j uint64, buf []byte) {
		s := c03Mix(seed, j)
		for i := 0; i < len(buf); i += 8 {
			s = c03Mix(s, uint64(i))
			var w [8]byte
			binary.LittleEndian.PutUint64(w[:], s)
			copy(buf[i:], w[:])
		}
	}
}

// ---------------------------------------------------------------------------------------------------------------

type c03Epoch struct {
	num      uint64
	opts     genOpts
	ge       *gEpoch
	le       *loadedEpoch
	dir      string
	slotColl *c03Coll
	sigColl  *c03Coll
	cidColl  *c03Coll
	pkColl   *c03Coll
	pkIdx    *indexes.PubkeyToOffsetAndSize_Reader
	ll       *linkedlog.LinkedLog
	addrs    map[solana.PublicKey]int // address -> number of transactions mentioning it
}

type c03Harness struct {
	t      *testing.T
	s      *zz.Session
	dir    string
	epochs map[uint64]*c03Epoch
	order  []uint64
	// ground truth over all generated epochs
	bySig   map[solana.Signature]*gTx
	byBHash map[string]*gBlock
	// current server
	loaded     []uint64
	multi      *MultiEpoch
	handler    func(*fasthttp.RequestCtx)
	cache      *hugecache.Cache
	nserver    int
	serverLine string
	caseOps    []string // ops since (and including) the last server line, for replays
	setup      []string // gen lines
}

func (h *c03Harness) op(line, out string, nontrivial bool) {
	h.caseOps = append(h.caseOps, line)
	h.s.Op(line, out, nontrivial)
}

func (h *c03Harness) viol(what, key, line string) {
	lines := append([]string{fmt.Sprintf("# seed=%d tier=%s; replay: the gen lines rebuild the epochs, then the server line, then the failing op", zz.Seed(), zz.Tier())}, h.setup...)
	if len(h.caseOps) > 0 {
		lines = append(lines, h.caseOps[0])
	}
	lines = append(lines, line)
	h.s.Violation(what, key, h.s.Replay(lines))
}

func (h *c03Harness) mentions(tx *gTx, pk solana.PublicKey) bool {
	for _, a := range tx.Accounts {
		if a == pk {
			return true
		}
	}
	for _, a := range tx.Loaded {
		if a == pk {
			return true
		}
	}
	return false
}

// ---------------------------------------------------------------------------------------------------------------
// gen

func c03KV(w []string) map[string]uint64 {
	m := map[string]uint64{}
	for _, x := range w {
		if i := strings.IndexByte(x, '='); i > 0 {
			v, _ := strconv.ParseUint(x[i+1:], 10, 64)
			m[x[:i]] = v
		}
	}
	return m
}

func (h *c03Harness) execGen(line string, w []string) {
	kv := c03KV(w[1:])
	o := genOpts{Epoch: kv["epoch"], NBlocks: int(kv["blocks"]), MaxTx: int(kv["maxtx"]), SkipPct: int(kv["skip"]), NKeys: int(kv["nkeys"]),
		KeySeedBase: byte(kv["base"]), LoadedPct: int(kv["loaded"]), FramePct: int(kv["frame"])}
	for _, x := range w[1:] {
		if strings.HasPrefix(x, "embed=") {
			for _, a := range strings.Split(x[6:], ",") {
				o.DataEmbeds = append(o.DataEmbeds, zz.Unhex(a))
			}
		}
		if strings.HasPrefix(x, "extra=") {
			for _, a := range strings.Split(x[6:], ",") {
				var pk solana.PublicKey
				copy(pk[:], zz.Unhex(a))
				o.ExtraAccounts = append(o.ExtraAccounts, pk)
			}
		}
	}
	h.setup = append(h.setup, line)
	e := &c03Epoch{num: o.Epoch, opts: o, addrs: map[solana.PublicKey]int{}}
	e.dir = filepath.Join(h.dir, fmt.Sprintf("e%d", o.Epoch))
	os.MkdirAll(e.dir, 0o755)
	e.ge = genEpoch(zz.NewRNG(kv["rng"]), e.dir, o)
	le, err := buildIndexes(e.ge, e.dir, true)
	if err != nil {
		h.s.Op(line, "gen failed", false)
		h.viol("index all / index gsfa failed on a well-formed generated CAR: "+err.Error(), "C03:index-failed", line)
		return
	}
	e.le = le
	open := func(p string) *c03Coll {
		c, err := c03OpenColl(p)
		if err != nil {
			h.t.Fatalf("cannot open index %s with compactindexsized.Open: %v", p, err)
		}
		return c
	}
	e.slotColl = open(le.Paths.SlotToCid)
	e.sigColl = open(le.Paths.SignatureToCid)
	e.cidColl = open(le.Paths.CidToOffsetAndSize)
	pkPath := filepath.Join(le.GsfaDir, string(indexes.Kind_PubkeyToOffsetAndSize)+".index")
	e.pkColl = open(pkPath)
	e.pkIdx, err = indexes.Open_PubkeyToOffsetAndSize(pkPath)
	if err != nil {
		h.t.Fatalf("cannot open the gsfa pubkey index: %v", err)
	}
	e.ll, err = linkedlog.NewLinkedLog(filepath.Join(le.GsfaDir, "linked-log"))
	if err != nil {
		h.t.Fatalf("cannot open the gsfa linked log: %v", err)
	}
	nTx := 0
	for _, b := range e.ge.Blocks {
		h.byBHash[string(b.LastEntryHash)] = b
		for _, tx := range b.Txs {
			nTx++
			h.bySig[tx.Sig] = tx
			seen := map[solana.PublicKey]bool{}
			for _, a := range append(append([]solana.PublicKey{}, tx.Accounts...), tx.Loaded...) {
				if !seen[a] {
					seen[a] = true
					e.addrs[a]++
				}
			}
		}
	}
	h.epochs[o.Epoch] = e
	h.order = append(h.order, o.Epoch)
	h.s.Op(line, "gen ok", true)
	h.s.Add("blocks", len(e.ge.Blocks))
	h.s.Add("transactions", nTx)
	h.s.Add("objects", len(e.ge.Objs))
	h.s.Add("addresses", len(e.addrs))
	// what the model needs: the CAR bytes, and per transaction the addresses it mentions (solana-go message parsing,
	// protobuf and zstd are outside the model: the generator's ground truth is handed over)
	h.s.Op(fmt.Sprintf("car %d %s", o.Epoch, hex.EncodeToString(e.ge.CarData)),
		fmt.Sprintf("car hdr=%d objs=%d blocks=%d txs=%d build=ok", e.ge.HdrLen, len(e.ge.Objs), len(e.ge.Blocks), nTx), true)
	for _, b := range e.ge.Blocks {
		for _, tx := range b.Txs {
			var as []string
			for _, a := range tx.Accounts {
				as = append(as, hex.EncodeToString(a[:]))
			}
			for _, a := range tx.Loaded {
				as = append(as, hex.EncodeToString(a[:]))
			}
			h.s.Op(fmt.Sprintf("tx %d %s %s", o.Epoch, hex.EncodeToString(tx.Sig[:]), strings.Join(as, ",")), "ok", false)
		}
	}
	h.s.Op(fmt.Sprintf("gsfa %d buckets=%d", o.Epoch, e.pkColl.db.Header.NumBuckets), fmt.Sprintf("gsfa addrs=%d build=ok", len(e.addrs)), e.pkColl.n == len(e.addrs))
	if e.pkColl.n != len(e.addrs) {
		h.s.Count("gsfa-index-address-count-differs-from-ground-truth")
	}
}

// headReadable: the list the pubkey index points to for pk can be read from the linked log.  A record whose total
// size is 128 or 16384 cannot (gsfa/linkedlog ReadWithSize re-derives the width of the length prefix from the
// total): that is property C06's finding, and an address whose request ends in that read error is left out here.
func (e *c03Epoch) headReadable(pk solana.PublicKey) bool {
	oas, err := e.pkIdx.Get(pk)
	if err != nil {
		return true
	}
	ok := true
	func() {
		defer func() {
			if recover() != nil {
				ok = false
			}
		}()
		if _, _, err := e.ll.ReadWithSize(oas.Offset, oas.Size); err != nil {
			ok = false
		}
	}()
	return ok
}

// ---------------------------------------------------------------------------------------------------------------
// server

func (h *c03Harness) closeServer() {
	for _, n := range h.loaded {
		if e := h.epochs[n]; e != nil && e.le.Ep != nil {
			e.le.Ep.Close()
			e.le.Ep = nil
		}
	}
	h.loaded = nil
	h.multi = nil
}

func (h *c03Harness) execServer(line string, w []string) {
	h.caseOps = nil
	h.serverLine = line
	word, what := h.loadServer(w)
	h.op(line, word, word == "ok")
	if what != "" {
		h.viol(what, "C03:load-failed", line)
	}
	if word == "ok" {
		h.s.Count(fmt.Sprintf("server-with-%d-epochs", len(h.loaded)))
	}
}

// loadServer (re-)creates the server described by a server line: fresh cache, freshly loaded Epoch objects
func (h *c03Harness) loadServer(w []string) (string, string) {
	h.closeServer()
	h.nserver++
	sigonly := len(w) > 2 && w[2] == "sigonly"
	h.cache = newVerifCache() // one server = one cache shared by its epochs
	h.multi = NewMultiEpoch(&Options{EpochSearchConcurrency: 4, GsfaOnlySignatures: sigonly})
	sdir := filepath.Join(h.dir, fmt.Sprintf("server-%d", h.nserver))
	os.MkdirAll(sdir, 0o755)
	for _, x := range strings.Split(w[1], ",") {
		n, _ := strconv.ParseUint(x, 10, 64)
		e := h.epochs[n]
		if e == nil {
			return "unknown-epoch", ""
		}
		e.le.Cache = h.cache
		if err := e.le.load(sdir); err != nil {
			return "load-failed", "an epoch indexed by index all + index gsfa does not load: " + err.Error()
		}
		if err := h.multi.AddEpoch(n, e.le.Ep); err != nil {
			return "add-failed", ""
		}
		h.loaded = append(h.loaded, n)
	}
	h.handler = newMultiEpochHandler(h.multi, nil)
	return "ok", ""
}

func (h *c03Harness) isLoaded(n uint64) bool {
	for _, x := range h.loaded {
		if x == n {
			return true
		}
	}
	return false
}

// ---------------------------------------------------------------------------------------------------------------
// answers

func c03IxWord(err error) string {
	if err == nil {
		return "found"
	}
	if compactindexsized.IsNotFound(err) {
		return "notfound"
	}
	return "err"
}

func c03ErrWord(err error) string {
	if compactindexsized.IsNotFound(err) {
		return "notfound"
	}
	return "err"
}

type c03RPCResp struct {
	Result json.RawMessage `json:"result"`
	Error  *struct {
		Code    int    `json:"code"`
		Message string `json:"message"`
	} `json:"error"`
}

func c03RPCErrWord(r *c03RPCResp) string {
	if r.Error.Code == CodeNotFound {
		if strings.HasPrefix(r.Error.Message, "Epoch ") {
			return "epoch-not-available"
		}
		return "notfound"
	}
	return "err"
}

func c03GrpcErrWord(err error) string {
	st, ok := status.FromError(err)
	if ok && st.Code() == codes.NotFound {
		if strings.HasPrefix(st.Message(), "Epoch ") {
			return "epoch-not-available"
		}
		return "notfound"
	}
	return "err"
}

func (h *c03Harness) slotAnswer(want uint64, got uint64) string {
	if got == want {
		return fmt.Sprintf("ok:%d", got)
	}
	return fmt.Sprintf("WRONG:%d", got)
}

func (h *c03Harness) execSlot(line string, w []string) {
	ctx := context.Background()
	via := w[1]
	var out string
	var slot uint64
	switch via {
	case "epoch":
		en, _ := strconv.ParseUint(w[2], 10, 64)
		slot, _ = strconv.ParseUint(w[3], 10, 64)
		e := h.epochs[en]
		if e == nil || e.le.Ep == nil {
			h.op(line, "epoch-not-loaded", false)
			return
		}
		out = zz.Guard(func() string {
			_, ixErr := e.le.Ep.slotToCidIndex.Get(slot)
			blk, _, err := e.le.Ep.GetBlock(ctx, slot)
			if err != nil {
				return "ix=" + c03IxWord(ixErr) + " " + c03ErrWord(err)
			}
			return "ix=" + c03IxWord(ixErr) + " " + h.slotAnswer(slot, uint64(blk.Slot))
		})
	case "rpc":
		slot, _ = strconv.ParseUint(w[2], 10, 64)
		out = zz.Guard(func() string {
			body := fmt.Sprintf(`{"jsonrpc":"2.0","id":1,"method":"getBlock","params":[%d,{"encoding":"base64","transactionDetails":"full","rewards":false,"maxSupportedTransactionVersion":0}]}`, slot)
			_, resp := doRPC(h.handler, body)
			var r c03RPCResp
			if err := json.Unmarshal([]byte(resp), &r); err != nil {
				return "unparsable"
			}
			if r.Error != nil {
				return c03RPCErrWord(&r)
			}
			var br struct {
				Blockhash string  `json:"blockhash"`
				BlockTime *uint64 `json:"blockTime"`
			}
			if err := json.Unmarshal(r.Result, &br); err != nil || br.Blockhash == "" {
				return "unparsable-result"
			}
			bh, err := solana.HashFromBase58(br.Blockhash)
			if err != nil {
				return "unparsable-result"
			}
			gb := h.byBHash[string(bh[:])]
			if gb == nil {
				return "WRONG:unknown-block"
			}
			return h.slotAnswer(slot, gb.Slot)
		})
	case "grpc":
		slot, _ = strconv.ParseUint(w[2], 10, 64)
		out = zz.Guard(func() string {
			resp, err := h.multi.GetBlock(ctx, &old_faithful_grpc.BlockRequest{Slot: slot})
			if err != nil {
				return c03GrpcErrWord(err)
			}
			gb := h.byBHash[string(resp.Blockhash)]
			if gb == nil {
				return "WRONG:unknown-block"
			}
			return h.slotAnswer(slot, gb.Slot)
		})
	default:
		h.op(line, "bad-op", false)
		return
	}
	h.op(line, out, strings.Contains(out, "ok:"))
	h.s.Count("slot-" + via)
	if i := strings.Index(out, "WRONG:"); i >= 0 {
		h.s.Count("slot-answered-with-another-block:" + via)
		h.viol(fmt.Sprintf("getBlock(%d) via %s answered with the block of slot %s (epochs loaded %v); the archive has no block for slot %d",
			slot, via, out[i+6:], h.loaded, slot), "C03:getBlock-wrong-slot", line)
	}
	if out == "panic" {
		h.viol(fmt.Sprintf("getBlock(%d) via %s panicked: %s", slot, via, zz.LastPanic), "C03:getBlock-panic", line)
	}
}

func (h *c03Harness) sigAnswer(want, got solana.Signature) string {
	if got == want {
		return "ok"
	}
	return "WRONG:" + hex.EncodeToString(got[:8])
}

func c03FirstSig(raw []byte) (solana.Signature, bool) {
	var tx solana.Transaction
	if err := bin.UnmarshalBin(&tx, raw); err != nil || len(tx.Signatures) == 0 {
		return solana.Signature{}, false
	}
	return tx.Signatures[0], true
}

func (h *c03Harness) execSig(line string, w []string) {
	ctx := context.Background()
	via := w[1]
	var out string
	var sig solana.Signature
	switch via {
	case "epoch":
		en, _ := strconv.ParseUint(w[2], 10, 64)
		copy(sig[:], zz.Unhex(w[3]))
		e := h.epochs[en]
		if e == nil || e.le.Ep == nil {
			h.op(line, "epoch-not-loaded", false)
			return
		}
		out = zz.Guard(func() string {
			_, ixErr := e.le.Ep.sigToCidIndex.Get(sig)
			tx, _, err := e.le.Ep.GetTransaction(ctx, sig)
			if err != nil {
				return "ix=" + c03IxWord(ixErr) + " " + c03ErrWord(err)
			}
			got, err := tx.Signature()
			if err != nil {
				return "ix=" + c03IxWord(ixErr) + " WRONG:no-signature"
			}
			return "ix=" + c03IxWord(ixErr) + " " + h.sigAnswer(sig, got)
		})
	case "rpc":
		copy(sig[:], zz.Unhex(w[2]))
		out = zz.Guard(func() string {
			body := fmt.Sprintf(`{"jsonrpc":"2.0","id":1,"method":"getTransaction","params":["%s",{"encoding":"base64","maxSupportedTransactionVersion":0}]}`, sig.String())
			_, resp := doRPC(h.handler, body)
			var r c03RPCResp
			if err := json.Unmarshal([]byte(resp), &r); err != nil {
				return "unparsable"
			}
			if r.Error != nil {
				return c03RPCErrWord(&r)
			}
			if strings.TrimSpace(string(r.Result)) == "null" {
				return "notfound" // what the handler turns "Transaction not found" into, as Solana's RPC does
			}
			var tr struct {
				Transaction []string `json:"transaction"`
			}
			if err := json.Unmarshal(r.Result, &tr); err != nil || len(tr.Transaction) == 0 {
				if os.Getenv("VERIF_C03_DEBUG") != "" {
					fmt.Fprintf(os.Stderr, "getTransaction response: %.600s\n", resp)
				}
				return "unparsable-result"
			}
			raw, err := base64.StdEncoding.DecodeString(tr.Transaction[0])
			if err != nil {
				return "unparsable-result"
			}
			got, ok := c03FirstSig(raw)
			if !ok {
				return "WRONG:no-signature"
			}
			return h.sigAnswer(sig, got)
		})
	case "grpc":
		copy(sig[:], zz.Unhex(w[2]))
		out = zz.Guard(func() string {
			resp, err := h.multi.GetTransaction(ctx, &old_faithful_grpc.TransactionRequest{Signature: sig[:]})
			if err != nil {
				return c03GrpcErrWord(err)
			}
			got, ok := c03FirstSig(resp.GetTransaction().GetTransaction())
			if !ok {
				return "WRONG:no-signature"
			}
			return h.sigAnswer(sig, got)
		})
	default:
		h.op(line, "bad-op", false)
		return
	}
	h.op(line, out, strings.HasSuffix(out, "ok"))
	h.s.Count("sig-" + via)
	if i := strings.Index(out, "WRONG:"); i >= 0 {
		h.s.Count("sig-answered-with-another-transaction:" + via)
		h.viol(fmt.Sprintf("getTransaction(%s) via %s answered with a transaction whose first signature starts %s (epochs loaded %v); no archived transaction carries the requested signature",
			sig, via, out[i+6:], h.loaded), "C03:getTransaction-wrong-sig", line)
	}
	if out == "panic" {
		h.viol(fmt.Sprintf("getTransaction(%s) via %s panicked: %s", sig, via, zz.LastPanic), "C03:getTransaction-panic", line)
	}
}

func (h *c03Harness) execCid(line string, w []string) {
	ctx := context.Background()
	en, _ := strconv.ParseUint(w[2], 10, 64)
	e := h.epochs[en]
	if w[1] != "epoch" || e == nil || e.le.Ep == nil {
		h.op(line, "epoch-not-loaded", false)
		return
	}
	raw := zz.Unhex(w[3])
	_, c, err := cid.CidFromBytes(raw)
	if err != nil {
		h.op(line, "bad-cid", false)
		return
	}
	var data []byte
	out := zz.Guard(func() string {
		_, ixErr := e.le.Ep.cidToOffsetAndSizeIndex.Get(c)
		d, err := e.le.Ep.GetNodeByCid(ctx, c)
		if err != nil {
			return "ix=" + c03IxWord(ixErr) + " " + c03ErrWord(err)
		}
		data = d
		return fmt.Sprintf("ix=%s ok:%d:%016x", c03IxWord(ixErr), len(d), xxhash.Sum64(d))
	})
	h.op(line, out, strings.Contains(out, "ok:"))
	h.s.Count("cid-epoch")
	if data != nil {
		// oracle: the bytes returned must be the bytes stored under the requested CID (CID = hash of the bytes)
		if !mkCid(data).Equals(c) {
			h.s.Count("cid-answered-with-other-bytes")
			h.viol(fmt.Sprintf("GetNodeByCid(%s) returned %d bytes whose CID is %s", c, len(data), mkCid(data)), "C03:getNodeByCid-wrong-bytes", line)
		}
	}
	if out == "panic" {
		h.viol(fmt.Sprintf("GetNodeByCid(%s) panicked: %s", c, zz.LastPanic), "C03:getNodeByCid-panic", line)
	}
}

// history: the transactions of epoch e that mention pk, newest first
func (e *c03Epoch) history(h *c03Harness, pk solana.PublicKey) []*gTx {
	var out []*gTx
	for bi := len(e.ge.Blocks) - 1; bi >= 0; bi-- {
		b := e.ge.Blocks[bi]
		for ti := len(b.Txs) - 1; ti >= 0; ti-- {
			if h.mentions(b.Txs[ti], pk) {
				out = append(out, b.Txs[ti])
			}
		}
	}
	return out
}

// expectedGsfa: what getSignaturesForAddress has to list, from the generator's ground truth alone
func (h *c03Harness) expectedGsfa(pk solana.PublicKey, limit int, before, until *solana.Signature) []solana.Signature {
	eps := append([]uint64{}, h.loaded...)
	sort.Slice(eps, func(i, j int) bool { return eps[i] > eps[j] })
	var all []solana.Signature
	for _, en := range eps {
		for _, tx := range h.epochs[en].history(h, pk) {
			all = append(all, tx.Sig)
		}
	}
	if before != nil {
		i := 0
		for i < len(all) && all[i] != *before {
			i++
		}
		if i >= len(all) {
			all = nil
		} else {
			all = all[i+1:]
		}
	}
	if len(all) > limit {
		all = all[:limit]
	}
	if until != nil {
		for i, g := range all {
			if g == *until {
				all = all[:i+1]
				break
			}
		}
	}
	return all
}

func (h *c03Harness) execAddr(line string, w []string) {
	via := w[1]
	var pk solana.PublicKey
	switch via {
	case "ix":
		en, _ := strconv.ParseUint(w[2], 10, 64)
		copy(pk[:], zz.Unhex(w[3]))
		e := h.epochs[en]
		if e == nil {
			h.op(line, "unknown-epoch", false)
			return
		}
		out := zz.Guard(func() string {
			_, err := e.pkIdx.Get(pk)
			return "ix=" + c03IxWord(err)
		})
		h.op(line, out, out == "ix=found")
		h.s.Count("addr-ix")
	case "rpc":
		copy(pk[:], zz.Unhex(w[2]))
		wrong, total := 0, 0
		firstWrong := ""
		limit := 1000
		var before, until *solana.Signature
		optJSON := ""
		for _, x := range w[3:] {
			switch {
			case strings.HasPrefix(x, "limit="):
				limit, _ = strconv.Atoi(x[6:])
			case strings.HasPrefix(x, "before=") && x[7:] != "-":
				var g solana.Signature
				copy(g[:], zz.Unhex(x[7:]))
				before = &g
				optJSON += fmt.Sprintf(`,"before":"%s"`, g.String())
			case strings.HasPrefix(x, "until=") && x[6:] != "-":
				var g solana.Signature
				copy(g[:], zz.Unhex(x[6:]))
				until = &g
				optJSON += fmt.Sprintf(`,"until":"%s"`, g.String())
			}
		}
		eff := limit
		if eff <= 0 || eff > 1000 {
			eff = 1000 // what the request parser does with a limit outside 1..1000
		}
		want := h.expectedGsfa(pk, eff, before, until)
		var got []solana.Signature
		out := zz.Guard(func() string {
			body := fmt.Sprintf(`{"jsonrpc":"2.0","id":1,"method":"getSignaturesForAddress","params":["%s",{"limit":%d%s}]}`, pk.String(), limit, optJSON)
			_, resp := doRPC(h.handler, body)
			var r c03RPCResp
			if err := json.Unmarshal([]byte(resp), &r); err != nil {
				return "unparsable"
			}
			if r.Error != nil {
				return c03RPCErrWord(&r)
			}
			var items []*struct {
				Signature string `json:"signature"`
			}
			if err := json.Unmarshal(r.Result, &items); err != nil {
				return "unparsable-result"
			}
			var sum uint64
			for _, it := range items {
				total++
				if it == nil {
					wrong++
					continue
				}
				sig, err := solana.SignatureFromBase58(it.Signature)
				if err != nil {
					wrong++
					continue
				}
				tx := h.bySig[sig]
				if tx == nil || !h.mentions(tx, pk) {
					wrong++
					if firstWrong == "" {
						firstWrong = it.Signature
					}
					continue
				}
				sum += xxhash.Sum64(sig[:])
				got = append(got, sig)
			}
			if wrong > 0 {
				return fmt.Sprintf("WRONG:%d/%d", wrong, total)
			}
			return fmt.Sprintf("n=%d h=%016x", total, sum)
		})
		h.op(line, out, strings.HasPrefix(out, "n=") && total > 0)
		h.s.Count("addr-rpc")
		if wrong > 0 {
			h.s.Count("address-answered-with-foreign-signatures")
			h.viol(fmt.Sprintf("getSignaturesForAddress(%s) listed %d signatures, %d of them of transactions that do not mention the address (first: %s; epochs loaded %v)",
				pk, total, wrong, firstWrong, h.loaded), "C03:gsfa-wrong-address", line)
		}
		if wrong == 0 && strings.HasPrefix(out, "n=") {
			// exactly the address's own entries (ground truth of the generator over the loaded epochs, newest epoch
			// first, newest transaction first, then before / until / limit) — as a set: the order is C07's subject
			same := len(got) == len(want)
			if same {
				m := map[solana.Signature]int{}
				for _, g := range want {
					m[g]++
				}
				for _, g := range got {
					m[g]--
				}
				for _, v := range m {
					if v != 0 {
						same = false
					}
				}
			}
			if !same {
				h.s.Count("address-answer-differs-from-own-history")
				h.viol(fmt.Sprintf("getSignaturesForAddress(%s, limit=%d, before=%v, until=%v) listed %d signatures, the address's own history in the loaded epochs %v gives %d",
					pk, limit, before, until, len(got), h.loaded, len(want)), "C03:gsfa-wrong-list", line)
			}
		}
		if out == "panic" {
			h.viol(fmt.Sprintf("getSignaturesForAddress(%s) panicked: %s", pk, zz.LastPanic), "C03:gsfa-panic", line)
		}
	default:
		h.op(line, "bad-op", false)
	}
}

func (h *c03Harness) exec(line string) {
	w := strings.Fields(line)
	if len(w) == 0 || strings.HasPrefix(line, "#") {
		return
	}
	switch w[0] {
	case "gen":
		h.execGen(line, w)
	case "car", "tx", "gsfa":
		// emitted by gen; in a replay file they are redundant
	case "server":
		h.execServer(line, w)
	case "slot":
		if len(w) >= 3 {
			h.execSlot(line, w)
		}
	case "sig":
		if len(w) >= 3 {
			h.execSig(line, w)
		}
	case "cid":
		if len(w) >= 4 {
			h.execCid(line, w)
		}
	case "addr":
		if len(w) >= 3 {
			h.execAddr(line, w)
		}
	case "concurrent":
		if len(w) >= 6 {
			h.execConcurrent(line, w)
		}
	default:
		h.op(line, "bad-op", false)
	}
}

// ---------------------------------------------------------------------------------------------------------------
// generator

type c03Keys struct {
	collSlots, skipped, randAbsentSlots, presentSlots []uint64
	collSigs, randSigs, presentSigs                   [][]byte
	collCids, randCids, presentCids                   [][]byte
	collAddrs, randAddrs, presentAddrs                [][]byte
}

func (h *c03Harness) findKeys(rng *zz.RNG, e *c03Epoch, thorough bool) *c03Keys {
	k := &c03Keys{}
	ge := e.ge
	lo, hi := e.num*432000, (e.num+1)*432000
	// every slot of the epoch: which absent ones does the slot index answer "found" for?
	var buf [8]byte
	for s := lo; s < hi; s++ {
		if ge.bySlot[s] != nil {
			continue
		}
		binary.LittleEndian.PutUint64(buf[:], s)
		if e.slotColl.collides(buf[:]) {
			k.collSlots = append(k.collSlots, s)
		}
	}
	h.s.Add("absent-slots-enumerated", int(hi-lo)-len(ge.Blocks))
	h.s.Add("absent-slots-colliding", len(k.collSlots))
	first, last := ge.Blocks[0].Slot, ge.Blocks[len(ge.Blocks)-1].Slot
	for s := first; s <= last; s++ {
		if ge.bySlot[s] == nil {
			k.skipped = append(k.skipped, s)
		}
	}
	h.s.Add("skipped-slots", len(k.skipped))
	nRand, nPresent := 40, 25
	if thorough {
		nRand, nPresent = 200, 100
	}
	for len(k.randAbsentSlots) < nRand {
		s := lo + uint64(rng.Intn(432000))
		if ge.bySlot[s] == nil {
			k.randAbsentSlots = append(k.randAbsentSlots, s)
		}
	}
	k.randAbsentSlots = append(k.randAbsentSlots, lo, hi-1, first-1, last+1)
	for i := 0; i < nPresent; i++ {
		k.presentSlots = append(k.presentSlots, ge.Blocks[rng.Intn(len(ge.Blocks))].Slot)
	}
	k.presentSlots = append(k.presentSlots, first, last)

	// signatures
	wantSig, wantCid, wantAddr := 12, 8, 3
	if thorough {
		wantSig, wantCid, wantAddr = 60, 40, 10
	}
	var hits [][]byte
	var tried uint64
	hits, tried = c03Search(e.sigColl, 64, c03RandKey(rng.U64()), wantSig, 1<<28, func(key []byte) bool {
		var s solana.Signature
		copy(s[:], key)
		return h.bySig[s] != nil
	})
	k.collSigs = hits
	h.s.Add("absent-signatures-tried", int(tried))
	h.s.Add("absent-signatures-colliding", len(hits))
	for i := 0; i < nRand/2; i++ {
		k.randSigs = append(k.randSigs, rng.Bytes(64))
	}
	var allTx []*gTx
	for _, b := range ge.Blocks {
		allTx = append(allTx, b.Txs...)
	}
	for i := 0; i < nPresent && len(allTx) > 0; i++ {
		t := allTx[rng.Intn(len(allTx))]
		k.presentSigs = append(k.presentSigs, append([]byte(nil), t.Sig[:]...))
	}

	// CIDs: 36-byte CIDv1 dag-cbor sha2-256 with a random digest
	mkRandCid := c03RandKey(rng.U64())
	known := map[string]bool{}
	for _, ob := range ge.Objs {
		known[string(ob.Cid.Bytes())] = true
	}
	hits, tried = c03Search(e.cidColl, 36, func(j uint64, buf []byte) {
		mkRandCid(j, buf)
		buf[0], buf[1], buf[2], buf[3] = 0x01, 0x71, 0x12, 0x20
	}, wantCid, 1<<28, func(key []byte) bool { return known[string(key)] })
	k.collCids = hits
	h.s.Add("absent-cids-tried", int(tried))
	h.s.Add("absent-cids-colliding", len(hits))
	// absent CIDs with the DIGEST of a stored object under another codec that fall on that very object's index entry
	// (same bucket, same 24-bit hash): only the full CID comparison tells them from the stored key
	sib, sibTried := c03SiblingCids(e.cidColl, ge.Objs, 2, 1<<22)
	k.collCids = append(k.collCids, sib...)
	h.s.Add("absent-cids-same-digest-other-codec-tried", int(sibTried))
	h.s.Add("absent-cids-same-digest-other-codec-colliding-with-their-sibling", len(sib))
	for i := 0; i < 10; i++ {
		c := rng.Bytes(36)
		c[0], c[1], c[2], c[3] = 0x01, 0x71, 0x12, 0x20
		k.randCids = append(k.randCids, c)
	}
	for i := 0; i < nPresent; i++ {
		k.presentCids = append(k.presentCids, ge.Objs[rng.Intn(len(ge.Objs))].Cid.Bytes())
	}

	// addresses
	hits, tried = c03Search(e.pkColl, 32, c03RandKey(rng.U64()), wantAddr, 1<<31, func(key []byte) bool {
		var pk solana.PublicKey
		copy(pk[:], key)
		for _, x := range h.epochs {
			if x.addrs[pk] > 0 {
				return true
			}
		}
		if !e.headReadable(pk) {
			h.s.Count("address-left-out:linked-log-record-unreadable(C06)")
			return true
		}
		return false
	})
	k.collAddrs = hits
	h.s.Add("absent-addresses-tried", int(tried))
	h.s.Add("absent-addresses-colliding", len(hits))
	for i := 0; i < 10; i++ {
		k.randAddrs = append(k.randAddrs, rng.Bytes(32))
	}
	// present addresses with a history short enough to stay clear of the batch limits of the gsfa writer (C06's subject)
	var as []solana.PublicKey
	for a, n := range e.addrs {
		if n > 400 {
			continue
		}
		readable := true
		for _, x := range h.epochs {
			if !x.headReadable(a) {
				readable = false
			}
		}
		if !readable {
			h.s.Count("address-left-out:linked-log-record-unreadable(C06)")
			continue
		}
		as = append(as, a)
	}
	sort.Slice(as, func(i, j int) bool { return string(as[i][:]) < string(as[j][:]) })
	for i := 0; i < 10 && len(as) > 0; i++ {
		a := as[rng.Intn(len(as))]
		k.presentAddrs = append(k.presentAddrs, append([]byte(nil), a[:]...))
	}
	return k
}

func (h *c03Harness) generate(thorough bool) {
	rng := zz.NewRNG(zz.Seed())
	nb := 260
	if thorough {
		nb = 5000
	}
	hx := hex.EncodeToString
	// three epochs: A (oldest), C, B (newest).  A is built first; addresses X that are absent everywhere but collide
	// in A's pubkey index are then GIVEN a real history in the newer epoch B; addresses Y that collide in B's index
	// are given a history in the older epoch C.  [A,B] and [C,B] are the two placements "collision in the older /
	// in the newer epoch than the one holding the real history".
	A := uint64(2 + rng.Intn(6))
	C, B := A+1, A+2
	lastNKeys := 0
	var embed [][]byte
	genLine := func(en uint64, blocks int, base int, extra [][]byte) {
		nkeys := 90 + rng.Intn(40)
		if len(embed) > 0 {
			nkeys = lastNKeys // the same address set as the epoch the embedded addresses collide in
		}
		lastNKeys = nkeys
		line := fmt.Sprintf("gen epoch=%d blocks=%d maxtx=3 skip=%d nkeys=%d base=%d loaded=25 frame=0 rng=%d",
			en, blocks, 30+rng.Intn(30), nkeys, base, rng.U64()>>1)
		if len(embed) > 0 {
			var xs []string
			for _, x := range embed {
				xs = append(xs, hx(x))
			}
			line += " embed=" + strings.Join(xs, ",")
		}
		if len(extra) > 0 {
			var xs []string
			for _, x := range extra {
				xs = append(xs, hx(x))
			}
			line += " extra=" + strings.Join(xs, ",")
		}
		h.exec(line)
	}
	keys := map[uint64]*c03Keys{}
	nCross := 2
	genLine(A, nb+rng.Intn(nb/4), 1, nil)
	if h.epochs[A] == nil {
		return
	}
	keys[A] = h.findKeys(rng, h.epochs[A], thorough)
	nkeysA := lastNKeys
	crossX := keys[A].collAddrs
	if len(crossX) > nCross {
		crossX = crossX[:nCross]
	}
	genLine(B, nb+rng.Intn(nb/4), 2, crossX)
	if h.epochs[B] == nil {
		return
	}
	keys[B] = h.findKeys(rng, h.epochs[B], thorough)
	crossY := keys[B].collAddrs
	if len(crossY) > nCross {
		crossY = crossY[:nCross]
	}
	genLine(C, 60+rng.Intn(30), 3, crossY)
	if h.epochs[C] == nil {
		return
	}
	// the crossed placements: every limit around the size of the real history, before / until inside the history,
	// and a `before` / `until` taken from the FOREIGN list the collision points to
	crossed := func(histEp, collEp uint64, zs [][]byte) {
		for _, z := range zs {
			var pk solana.PublicKey
			copy(pk[:], z)
			hist := h.epochs[histEp].history(h, pk)
			n := len(hist)
			h.s.Add("crossed-address-history-entries", n)
			h.s.Count(fmt.Sprintf("crossed-address:history-in-%s-epoch", map[bool]string{true: "newer", false: "older"}[histEp > collEp]))
			h.exec(fmt.Sprintf("addr ix %d %s", histEp, hx(z)))
			h.exec(fmt.Sprintf("addr ix %d %s", collEp, hx(z)))
			for _, lim := range []int{1000, 1, 2, n - 1, n, n + 1, n + 5, 2 * n} {
				if lim >= 1 {
					h.exec(fmt.Sprintf("addr rpc %s limit=%d", hx(z), lim))
				}
			}
			if n >= 3 {
				g := func(i int) string { return hx(hist[i].Sig[:]) }
				h.exec(fmt.Sprintf("addr rpc %s limit=1000 before=%s", hx(z), g(0)))
				h.exec(fmt.Sprintf("addr rpc %s limit=1000 before=%s", hx(z), g(n-2)))
				h.exec(fmt.Sprintf("addr rpc %s limit=1000 before=%s", hx(z), g(n-1)))
				h.exec(fmt.Sprintf("addr rpc %s limit=1000 until=%s", hx(z), g(n-1)))
				h.exec(fmt.Sprintf("addr rpc %s limit=1000 until=%s", hx(z), g(1)))
				h.exec(fmt.Sprintf("addr rpc %s limit=2 before=%s until=%s", hx(z), g(0), g(n-1)))
				h.exec(fmt.Sprintf("addr rpc %s limit=1000 before=%s until=%s", hx(z), g(n/2), g(n-1)))
			}
			// signatures of the list the collision lands on (transactions of another address of collEp)
			var foreign []*gTx
			if oas, err := h.epochs[collEp].pkIdx.Get(pk); err == nil {
				if locs, _, err := h.epochs[collEp].ll.ReadWithSize(oas.Offset, oas.Size); err == nil {
					for _, l := range locs {
						for _, ob := range h.epochs[collEp].ge.Objs {
							if ob.Offset == l.Offset {
								for _, b := range h.epochs[collEp].ge.Blocks {
									for _, tx := range b.Txs {
										if tx.Cid == ob.Cid {
											foreign = append(foreign, tx)
										}
									}
								}
							}
						}
						if len(foreign) >= 2 {
							break
						}
					}
				}
			}
			for _, f := range foreign {
				h.s.Count("crossed-address:foreign-before/until")
				h.exec(fmt.Sprintf("addr rpc %s limit=1000 before=%s", hx(z), hx(f.Sig[:])))
				h.exec(fmt.Sprintf("addr rpc %s limit=1000 until=%s", hx(z), hx(f.Sig[:])))
			}
		}
	}
	queries := func(loaded []uint64, onlyAddr bool) {
		for _, en := range loaded {
			k := keys[en]
			if !onlyAddr {
				for _, grp := range [][]uint64{k.collSlots, k.skipped, k.randAbsentSlots, k.presentSlots} {
					for _, s := range grp {
						h.exec(fmt.Sprintf("slot epoch %d %d", en, s))
						h.exec(fmt.Sprintf("slot rpc %d", s))
						h.exec(fmt.Sprintf("slot grpc %d", s))
					}
				}
				for _, grp := range [][][]byte{k.collSigs, k.randSigs, k.presentSigs} {
					for _, g := range grp {
						h.exec(fmt.Sprintf("sig epoch %d %s", en, hx(g)))
						h.exec("sig rpc " + hx(g))
						h.exec("sig grpc " + hx(g))
					}
				}
				for _, grp := range [][][]byte{k.collCids, k.randCids, k.presentCids} {
					for _, c := range grp {
						h.exec(fmt.Sprintf("cid epoch %d %s", en, hx(c)))
					}
				}
			}
			for _, grp := range [][][]byte{k.collAddrs, k.randAddrs, k.presentAddrs} {
				for _, a := range grp {
					h.exec(fmt.Sprintf("addr ix %d %s", en, hx(a)))
					h.exec("addr rpc " + hx(a))
				}
			}
		}
		if onlyAddr {
			return
		}
		// keys that belong to epochs which are not loaded, and keys outside every generated epoch
		for _, en := range h.order {
			if h.isLoaded(en) || keys[en] == nil {
				continue
			}
			k := keys[en]
			for _, s := range append(append([]uint64{}, k.collSlots...), k.presentSlots[:5]...) {
				h.exec(fmt.Sprintf("slot rpc %d", s))
				h.exec(fmt.Sprintf("slot grpc %d", s))
				// asked directly of a loaded epoch's index (a slot of another epoch is just one more absent key)
				h.exec(fmt.Sprintf("slot epoch %d %d", loaded[0], s))
			}
			for _, g := range append(append([][]byte{}, k.collSigs...), k.presentSigs[:5]...) {
				h.exec("sig rpc " + hx(g))
				h.exec("sig grpc " + hx(g))
				h.exec(fmt.Sprintf("sig epoch %d %s", loaded[0], hx(g)))
			}
			for _, a := range append(append([][]byte{}, k.collAddrs...), k.presentAddrs[:3]...) {
				h.exec("addr rpc " + hx(a))
			}
			for _, c := range k.presentCids[:5] {
				h.exec(fmt.Sprintf("cid epoch %d %s", loaded[0], hx(c)))
			}
		}
		for _, s := range []uint64{0, 1, 431999, (B + 1) * 432000, (B+1)*432000 + 17, 1 << 40, 1<<63 + 5} {
			h.exec(fmt.Sprintf("slot rpc %d", s))
			h.exec(fmt.Sprintf("slot grpc %d", s))
			h.exec(fmt.Sprintf("slot epoch %d %d", loaded[0], s))
		}
	}
	// epoch D: the address set of A (so A's colliding absent addresses collide in D's pubkey index too), and every
	// transaction carries those addresses as 32 bytes of instruction DATA: they are still not mentioned by anything
	D := B + 1
	if za := keys[A].collAddrs; len(za) > 0 {
		if len(za) > 3 {
			za = za[:3]
		}
		embed, lastNKeys = za, nkeysA
		genLine(D, nb+rng.Intn(nb/4), 1, nil)
		embed = nil
		if eD := h.epochs[D]; eD != nil {
			h.exec(fmt.Sprintf("server %d", D))
			for _, z := range za {
				if eD.pkColl.collides(z) {
					h.s.Count("address-in-instruction-data-only:colliding")
				} else {
					h.s.Count("address-in-instruction-data-only:not-colliding-here")
				}
				h.exec(fmt.Sprintf("addr ix %d %s", D, hx(z)))
				h.exec("addr rpc " + hx(z))
				h.exec("addr rpc " + hx(z) + " limit=2")
			}
		}
	}
	h.exec(fmt.Sprintf("server %d", A))
	queries([]uint64{A}, false)
	crossed(B, A, crossX) // B is not loaded: the address is simply absent and colliding
	h.concurrentPhase(rng, A, keys[A], thorough)
	h.exec(fmt.Sprintf("server %d,%d", A, B))
	queries([]uint64{A, B}, false)
	crossed(B, A, crossX) // real history in the newer epoch, collision in the older one
	h.concurrentPhase(rng, A, keys[A], thorough)
	h.exec(fmt.Sprintf("server %d", B))
	queries([]uint64{B}, false)
	crossed(B, A, crossX) // only the epoch with the real history is loaded
	h.exec(fmt.Sprintf("server %d,%d sigonly", A, B))
	queries([]uint64{A, B}, true)
	crossed(B, A, crossX)
	h.exec(fmt.Sprintf("server %d,%d", C, B))
	crossed(C, B, crossY) // real history in the older epoch, collision in the newer one
	h.exec(fmt.Sprintf("server %d,%d,%d", A, C, B))
	crossed(B, A, crossX)
	crossed(C, B, crossY)
	h.exec(fmt.Sprintf("server %d,%d,%d sigonly", B, A, C))
	crossed(B, A, crossX)
	crossed(C, B, crossY)
}

func TestVerifC03(t *testing.T) {
	s := zz.NewSession()
	defer s.Close()
	dir, err := os.MkdirTemp("", "verif-c03-")
	if err != nil {
		t.Fatal(err)
	}
	defer os.RemoveAll(dir)
	h := &c03Harness{t: t, s: s, dir: dir, epochs: map[uint64]*c03Epoch{}, bySig: map[solana.Signature]*gTx{}, byBHash: map[string]*gBlock{}}
	defer func() {
		h.closeServer()
		for _, e := range h.epochs {
			for _, c := range []*c03Coll{e.slotColl, e.sigColl, e.cidColl, e.pkColl} {
				if c != nil {
					c.close()
				}
			}
			if e.pkIdx != nil {
				e.pkIdx.Close()
			}
			if e.ll != nil {
				e.ll.Close()
			}
		}
	}()
	if rp := zz.ReplayFile(); rp != "" {
		f, err := os.Open(rp)
		if err != nil {
			t.Fatal(err)
		}
		defer f.Close()
		sc := bufio.NewScanner(f)
		sc.Buffer(make([]byte, 1<<20), 1<<30)
		for sc.Scan() {
			h.exec(sc.Text())
		}
		return
	}
	h.generate(zz.Thorough())
}

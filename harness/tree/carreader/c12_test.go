package carreader

// C12 harness for the CAR reader (injected by /verif/check with `go test -overlay`; nothing is written to /repo).
//
//	car <pass> <file hex>     New(file); HeaderSize(); then NextNodeBytes (pass=bytes) / NextInfo (info) / NextNode (node)
//	                          until it fails                                                        -> nopanic
//	rsl <hex>                 ReadSectionLength                                -> err | ok <len> <prefix width>
//	rnid <hex> cid=<n|x>      ReadNodeInfoWithData on one section; n = number of bytes go-cid's CidFromReader
//	                          consumes after the length prefix (x = it fails; go-cid is third-party, so its verdict
//	                          travels on the op line)                          -> err | ok <section length> <data length>
//	rniw <hex> cid=<n|x>      ReadNodeInfoWithoutData                          -> err | ok <section length>
//
// Valid CARs are written with go-car's own WriteHeader / LdWrite.

import (
	"bufio"
	"bytes"
	"crypto/sha256"
	"encoding/binary"
	"fmt"
	"io"
	"strings"
	"testing"

	"github.com/ipfs/go-cid"
	carv1 "github.com/ipld/go-car"
	"github.com/ipld/go-car/util"
	c12 "github.com/rpcpool/yellowstone-faithful/zzc12"
	zz "github.com/rpcpool/yellowstone-faithful/zzverif"
)

func c12ExecCar(op string) string {
	w := strings.Fields(op)
	switch w[0] {
	case "car":
		// one pass per op, so that the allocation measured is that of one traversal
		data := zz.Unhex(w[2])
		cr, err := New(io.NopCloser(bytes.NewReader(data)))
		if err != nil {
			return "err"
		}
		cr.HeaderSize()
		for i := 0; i < 100000; i++ {
			switch w[1] {
			case "bytes":
				_, _, _, err = cr.NextNodeBytes()
			case "info":
				_, _, err = cr.NextInfo()
			default:
				_, _, _, err = cr.NextNode()
			}
			if err != nil {
				break
			}
		}
		return "ok"
	case "rsl":
		l, n, err := ReadSectionLength(bufio.NewReader(bytes.NewReader(zz.Unhex(w[1]))))
		if err != nil {
			return "err"
		}
		return fmt.Sprintf("ok %d %d", l, n)
	case "rnid":
		_, sl, data, err := ReadNodeInfoWithData(bufio.NewReader(bytes.NewReader(zz.Unhex(w[1]))))
		if err != nil {
			return "err"
		}
		return fmt.Sprintf("ok %d %d", sl, len(data))
	case "rniw":
		_, sl, err := ReadNodeInfoWithoutData(bufio.NewReader(bytes.NewReader(zz.Unhex(w[1]))))
		if err != nil {
			return "err"
		}
		return fmt.Sprintf("ok %d", sl)
	}
	return "bad-op"
}

func c12Cid(data []byte) cid.Cid {
	h := sha256.Sum256(data)
	b := append([]byte{0x01, 0x71, 0x12, 0x20}, h[:]...)
	c, err := cid.Cast(b)
	if err != nil {
		panic(err)
	}
	return c
}

// c12CidVerdict: what go-cid says about the bytes after the length prefix.
func c12CidVerdict(section []byte) string {
	_, n := binary.Uvarint(section)
	if n <= 0 {
		return "x"
	}
	cl, _, err := cid.CidFromReader(bytes.NewReader(section[n:]))
	if err != nil {
		return "x"
	}
	return fmt.Sprint(cl)
}

func c12Section(data []byte) []byte {
	var buf bytes.Buffer
	if err := util.LdWrite(&buf, c12Cid(data).Bytes(), data); err != nil {
		panic(err)
	}
	return buf.Bytes()
}

func c12GenCar(rng *zz.RNG, s *zz.Session, thorough bool) []string {
	var ops []string
	sec := func(b []byte) {
		v := c12CidVerdict(b)
		ops = append(ops, "rsl "+zz.Hex(b), "rnid "+zz.Hex(b)+" cid="+v, "rniw "+zz.Hex(b)+" cid="+v)
	}
	// single sections
	for _, dl := range []int{0, 1, 2, 90, 200} {
		b := c12Section(rng.Bytes(dl))
		_, n := binary.Uvarint(b)
		fields := []c12.Field{
			{Name: "sectionLen", Off: 0, Width: 0, UvLen: n},
			{Name: "cid.version", Off: n, Width: 1},
			{Name: "cid.codec", Off: n + 1, Width: 1},
			{Name: "cid.mhType", Off: n + 2, Width: 1},
			{Name: "cid.mhLen", Off: n + 3, Width: 1},
		}
		nb, nr := 100, 30
		if thorough {
			nb, nr = 400, 200
		}
		for _, mu := range c12.Mutate(rng, b, fields, nb, nr, s.Count) {
			sec(mu.Data)
		}
		// declared length below / at / above the CID length
		for l := 0; l <= 40; l++ {
			m := append(binary.AppendUvarint(nil, uint64(l)), b[n:]...)
			sec(m)
			s.Count("boundary:section-shorter-than-cid")
		}
		s.Count("valid-sections")
	}
	// CIDv0 (sha2-256 multihash without prefix) sections
	{
		h := sha256.Sum256([]byte("x"))
		c0 := append([]byte{0x12, 0x20}, h[:]...)
		for _, l := range []int{0, 1, 33, 34, 35, 40} {
			sec(append(append(binary.AppendUvarint(nil, uint64(l)), c0...), rng.Bytes(6)...))
		}
	}
	// uvarint prefixes: 1..11 bytes, overflow, the 32 MiB limit
	for _, v := range []uint64{0, 1, 127, 128, 32 << 20, 32<<20 + 1, 1 << 32, 1<<63 - 1, 1 << 63, ^uint64(0)} {
		sec(append(binary.AppendUvarint(nil, v), rng.Bytes(40)...))
		s.Count("boundary:uvarint-prefix")
	}
	sec([]byte{0x80, 0x80, 0x80, 0x80, 0x80, 0x80, 0x80, 0x80, 0x80, 0x02, 1, 2, 3})
	sec([]byte{0x80, 0x80, 0x80, 0x80, 0x80, 0x80, 0x80, 0x80, 0x80, 0x80, 0x01})
	sec([]byte{0x80})
	sec(nil)
	// whole CARs
	for _, nsec := range []int{0, 1, 3, 12} {
		var car bytes.Buffer
		var objs [][]byte
		for i := 0; i < nsec; i++ {
			objs = append(objs, rng.Bytes(1+rng.Intn(60)))
		}
		root := c12Cid([]byte("root"))
		if nsec > 0 {
			root = c12Cid(objs[nsec-1])
		}
		if err := carv1.WriteHeader(&carv1.CarHeader{Roots: []cid.Cid{root}, Version: 1}, &car); err != nil {
			panic(err)
		}
		hl := car.Len()
		var fields []c12.Field
		_, hn := binary.Uvarint(car.Bytes())
		fields = append(fields, c12.Field{Name: "headerLen", Off: 0, Width: 0, UvLen: hn})
		for i, o := range objs {
			if i < 2 {
				b := c12Section(o)
				_, n := binary.Uvarint(b)
				fields = append(fields, c12.Field{Name: fmt.Sprintf("sec%d.len", i), Off: car.Len(), Width: 0, UvLen: n})
			}
			car.Write(c12Section(o))
		}
		_ = hl
		nb, nr := 120, 30
		if thorough {
			nb, nr = 500, 200
		}
		for _, mu := range c12.Mutate(rng, car.Bytes(), fields, nb, nr, s.Count) {
			for _, pass := range []string{"bytes", "info", "node"} {
				ops = append(ops, "car "+pass+" "+zz.Hex(mu.Data))
			}
		}
		s.Count("valid-files")
	}
	return ops
}

func TestVerifC12(t *testing.T) {
	if c12.IsChild() {
		c12.Serve(c12ExecCar)
		return
	}
	r := c12.NewRun("TestVerifC12")
	defer r.Close()
	r.Print = func(op string, res c12.Result) string {
		if res.Class == "ok" || res.Class == "err" {
			if strings.HasPrefix(op, "car ") {
				return "nopanic"
			}
			return res.Answer
		}
		return res.Class
	}
	ops := c12.ReplayOps()
	if ops == nil {
		ops = c12GenCar(zz.NewRNG(zz.Seed()), r.S, zz.Thorough())
	}
	for _, op := range ops {
		r.Exec(op)
	}
}

package main

// C07 harness, package main (injected by /verif/check with `go test -overlay`; nothing is written to /repo).
//
// The real JSON-RPC handler `getSignaturesForAddress` (newMultiEpochHandler → handleGetSignaturesForAddress →
// GsfaReaderMultiepoch.GetBeforeUntil → the epochs' CARs) over 2–3 generated epochs that share their addresses
// (same KeySeedBase), each with the real `index all` and `index gsfa`.  limit / before / until are drawn from the
// true history of the address; every request is repeated (>= 20 times, up to 60 while the answers agree and the
// answer spans several epochs) because the pinned handler walks a Go map.  Oracle = the generator's ground truth:
// newest epoch first, newest block first, inside a block the reverse of the position.

import (
	"encoding/json"
	"fmt"
	"os"
	"path/filepath"
	"sort"
	"strconv"
	"strings"
	"testing"

	"github.com/gagliardetto/solana-go"
	zz "github.com/rpcpool/yellowstone-faithful/zzverif"
)

type c07rItem struct {
	epoch uint64
	sig   string
	slot  uint64
}

type c07rWorld struct {
	s       *zz.Session
	les     map[uint64]*loadedEpoch
	truth   map[string]map[uint64][]c07rItem // address -> epoch -> history newest first
	addrs   []string
	caseOps []string
	nviol   map[string]int
	twins   []*Epoch // epochs loaded without their address index for the live bring-up (closed by ReplaceOrAddEpoch)
}

func (w *c07rWorld) op(line, out string, nontrivial bool) {
	w.caseOps = append(w.caseOps, line)
	w.s.Op(line, out, nontrivial)
}

func (w *c07rWorld) viol(what, key string, lines []string) {
	w.nviol[key]++
	if w.nviol[key] > 3 {
		return
	}
	w.s.Violation(what, key, w.s.Replay(lines))
}

func (w *c07rWorld) addEpoch(ge *gEpoch) {
	for _, b := range ge.Blocks {
		for _, tx := range b.Txs {
			seen := map[solana.PublicKey]bool{}
			for _, k := range append(append([]solana.PublicKey{}, tx.Accounts...), tx.Loaded...) {
				if seen[k] {
					continue
				}
				seen[k] = true
				a := k.String()
				if w.truth[a] == nil {
					w.truth[a] = map[uint64][]c07rItem{}
				}
				// prepend: blocks ascend, positions ascend => newest first
				w.truth[a][ge.Epoch] = append([]c07rItem{{ge.Epoch, tx.Sig.String(), tx.Slot}}, w.truth[a][ge.Epoch]...)
			}
		}
	}
}

func (w *c07rWorld) flat(view []uint64, addr string) []c07rItem {
	var out []c07rItem
	for _, e := range view {
		out = append(out, w.truth[addr][e]...)
	}
	return out
}

func c07rSlice(flat []c07rItem, limit int, before, until string) []c07rItem {
	if limit <= 0 || limit > 1000 {
		limit = 1000
	}
	start := 0
	if before != "-" {
		start = len(flat)
		for i, it := range flat {
			if it.sig == before {
				start = i + 1
				break
			}
		}
	}
	var out []c07rItem
	for i := start; i < len(flat) && len(out) < limit; i++ {
		out = append(out, flat[i])
		if until != "-" && flat[i].sig == until {
			break
		}
	}
	return out
}

// bringUp loads a view into a fresh MultiEpoch.  The view of all generated epochs comes up through AddEpoch (the
// start-up path of cmd-rpc.go); every smaller view comes up the way a watched config directory does: each epoch is
// first there WITHOUT its address index, a request is served, then the same epoch number is replaced by the epoch
// with the index through ReplaceOrAddEpoch (a config file rewritten while the server is answering).
func (w *c07rWorld) bringUp(view []uint64, sigOnly bool, dir string) (*MultiEpoch, error) {
	multi := NewMultiEpoch(&Options{EpochSearchConcurrency: 2, GsfaOnlySignatures: sigOnly})
	if len(view) == len(w.les) {
		for _, e := range view {
			if err := multi.AddEpoch(e, w.les[e].Ep); err != nil {
				return nil, err
			}
		}
		return multi, nil
	}
	for _, e := range view {
		tw := *w.les[e]
		tw.GsfaDir = ""
		conf, err := LoadConfig(tw.writeConfig(dir, fmt.Sprintf("epoch-%d-noindex-%d.yml", e, len(w.twins))))
		if err != nil {
			return nil, err
		}
		ep, err := NewEpochFromConfig(conf, newCliCtx(), verifCache(), nil)
		if err != nil {
			return nil, err
		}
		w.twins = append(w.twins, ep)
		if err := multi.AddEpoch(e, ep); err != nil {
			return nil, err
		}
	}
	handler := newMultiEpochHandler(multi, nil)
	if len(w.addrs) > 0 {
		zz.Guard(func() string { _, b := doRPC(handler, c07rBody(w.addrs[0], "-", "-", "-")); return b })
	}
	for _, e := range view {
		if err := multi.ReplaceOrAddEpoch(e, w.les[e].Ep); err != nil {
			return nil, err
		}
	}
	w.s.Count("views-brought-up-live")
	return multi, nil
}

func c07rViewName(view []uint64) string {
	var p []string
	for _, e := range view {
		p = append(p, fmt.Sprint(e))
	}
	return strings.Join(p, ",")
}

func c07rBody(addr, limit, before, until string) string {
	var opts []string
	if limit != "-" {
		opts = append(opts, `"limit":`+limit)
	}
	if before != "-" {
		opts = append(opts, `"before":"`+before+`"`)
	}
	if until != "-" {
		opts = append(opts, `"until":"`+until+`"`)
	}
	if len(opts) == 0 {
		return fmt.Sprintf(`{"jsonrpc":"2.0","id":1,"method":"getSignaturesForAddress","params":["%s"]}`, addr)
	}
	return fmt.Sprintf(`{"jsonrpc":"2.0","id":1,"method":"getSignaturesForAddress","params":["%s",{%s}]}`, addr, strings.Join(opts, ","))
}

// one response -> "ok sig,sig,…" ; also checks the slot reported for every entry
func (w *c07rWorld) parse(body string, full bool) (string, []string) {
	var resp struct {
		Result []map[string]any `json:"result"`
		Error  any              `json:"error"`
	}
	if err := json.Unmarshal([]byte(body), &resp); err != nil {
		return "bad-json", nil
	}
	if resp.Error != nil {
		return "err", nil
	}
	var sigs []string
	for _, m := range resp.Result {
		s, _ := m["signature"].(string)
		if s == "" {
			return "bad-entry", nil
		}
		sigs = append(sigs, s)
	}
	if len(sigs) == 0 {
		return "ok -", nil
	}
	return "ok " + strings.Join(sigs, ","), sigs
}

func c07rSigs(items []c07rItem) string {
	if len(items) == 0 {
		return "ok -"
	}
	var p []string
	for _, it := range items {
		p = append(p, it.sig)
	}
	return "ok " + strings.Join(p, ",")
}

func c07rSameSet(a, b string) bool {
	x := strings.Split(strings.TrimPrefix(a, "ok "), ",")
	y := strings.Split(strings.TrimPrefix(b, "ok "), ",")
	sort.Strings(x)
	sort.Strings(y)
	return strings.Join(x, ",") == strings.Join(y, ",")
}

func (w *c07rWorld) replayFor(view []uint64, addr, line string) []string {
	lines := []string{fmt.Sprintf("# seed=%d tier=%s (epochs are regenerated from the seed; the op lines below are the model's input)", zz.Seed(), zz.Tier())}
	for _, e := range view {
		lines = append(lines, w.histLine(addr, e))
	}
	return append(lines, line)
}

func (w *c07rWorld) histLine(addr string, e uint64) string {
	h := w.truth[addr][e]
	if len(h) == 0 {
		return fmt.Sprintf("hist %s e=%d absent", addr, e)
	}
	var p []string
	for _, it := range h {
		p = append(p, fmt.Sprintf("%s@%d", it.sig, it.slot))
	}
	return fmt.Sprintf("hist %s e=%d %s", addr, e, strings.Join(p, ","))
}

func (w *c07rWorld) request(h func(string) string, view []uint64, addr, limit, before, until string, limN int) {
	line := fmt.Sprintf("rpc %s %s %s %s %s", c07rViewName(view), addr, limit, before, until)
	body := c07rBody(addr, limit, before, until)
	want := c07rSlice(w.flat(view, addr), limN, before, until)
	wantS := c07rSigs(want)
	span := map[uint64]bool{}
	for _, it := range want {
		span[it.epoch] = true
	}
	reps := 20
	maxReps := 20
	if len(span) >= 2 {
		maxReps = 60
	}
	first := ""
	varies := false
	wrongOrder, wrongOther := "", ""
	for i := 0; i < maxReps; i++ {
		if i >= reps && varies {
			break
		}
		got := zz.Guard(func() string { g, _ := w.parse(h(body), false); return g })
		if i == 0 {
			first = got
		} else if got != first {
			varies = true
		}
		if got != wantS {
			if strings.HasPrefix(got, "ok ") && c07rSameSet(got, wantS) {
				if wrongOrder == "" {
					wrongOrder = got
				}
			} else if wrongOther == "" {
				wrongOther = got
			}
		}
		w.s.Count("rpc-requests")
	}
	ans := first
	if varies {
		ans = "varies"
		w.s.Count("request-with-varying-answers")
	}
	w.op(line, ans, strings.HasPrefix(first, "ok ") && first != "ok -")
	w.s.Count(fmt.Sprintf("rpc-answer-spans-%d-epochs", len(span)))
	if wrongOrder != "" {
		w.viol(fmt.Sprintf("getSignaturesForAddress(%s limit=%s before=%s until=%s) with epochs [%s] loaded answered the right entries in the wrong order (identical requests answered differently: %v): got %q want %q",
			addr, limit, before, until, c07rViewName(view), varies, wrongOrder, wantS), "C07:response-order-follows-map-iteration", w.replayFor(view, addr, line))
	}
	if wrongOther != "" {
		w.viol(fmt.Sprintf("getSignaturesForAddress(%s limit=%s before=%s until=%s) with epochs [%s] loaded: got %q, the slice of the true history is %q",
			addr, limit, before, until, c07rViewName(view), wrongOther, wantS), "C07:rpc-slice-wrong", w.replayFor(view, addr, line))
	}
}

func TestVerifC07Rpc(t *testing.T) {
	s := zz.NewSession()
	defer s.Close()
	dir, err := os.MkdirTemp("", "verif-c07r-")
	if err != nil {
		t.Fatal(err)
	}
	defer os.RemoveAll(dir)
	rng := zz.NewRNG(zz.Seed())
	w := &c07rWorld{s: s, les: map[uint64]*loadedEpoch{}, truth: map[string]map[uint64][]c07rItem{}, nviol: map[string]int{}}

	opts := []genOpts{
		{Epoch: 11, NBlocks: 14, MaxTx: 3, SkipPct: 30, NKeys: 7, KeySeedBase: 7, LoadedPct: 25, FramePct: 10},
		{Epoch: 12, NBlocks: 5, MaxTx: 2, SkipPct: 50, NKeys: 7, KeySeedBase: 7, LoadedPct: 25},
	}
	if zz.Thorough() {
		opts = append(opts, genOpts{Epoch: 14, NBlocks: 30, MaxTx: 4, SkipPct: 20, NKeys: 7, KeySeedBase: 7, LoadedPct: 40, FirstSlotAt: 1000})
	}
	w.op(fmt.Sprintf("case rpc epochs=%d seed=%d", len(opts), zz.Seed()), "ok", false)
	var epochsDesc []uint64
	for _, o := range opts {
		edir := filepath.Join(dir, fmt.Sprintf("e%d", o.Epoch))
		os.MkdirAll(edir, 0o755)
		ge := genEpoch(rng, edir, o)
		le, err := buildIndexes(ge, edir, true)
		if err != nil {
			w.viol("index all / index gsfa failed on a well-formed CAR: "+err.Error(), "C07:fixture-index-failed", w.caseOps)
			return
		}
		if err := le.load(edir); err != nil {
			w.viol("epoch with a gsfa index does not load: "+err.Error(), "C07:fixture-load-failed", w.caseOps)
			return
		}
		defer le.Ep.Close()
		w.les[o.Epoch] = le
		w.addEpoch(ge)
		epochsDesc = append([]uint64{o.Epoch}, epochsDesc...)
	}
	// an address that is in no epoch
	ghost := genKeys(1, 99)[0].PublicKey().String()
	w.truth[ghost] = map[uint64][]c07rItem{}
	for a := range w.truth {
		w.addrs = append(w.addrs, a)
	}
	sort.Strings(w.addrs)
	for _, a := range w.addrs {
		present := 0
		for _, e := range epochsDesc {
			w.op(w.histLine(a, e), "ok", len(w.truth[a][e]) > 0)
			if len(w.truth[a][e]) > 0 {
				present++
			}
		}
		s.Count(fmt.Sprintf("address-present-in-%d-of-%d-epochs", present, len(epochsDesc)))
	}

	if rp := zz.ReplayFile(); rp != "" {
		// replay: the epochs are regenerated from VERIF_SEED / VERIF_TIER (see the header of the replay file);
		// only the `rpc` lines of the file are executed
		data, err := os.ReadFile(rp)
		if err != nil {
			t.Fatal(err)
		}
		servers := map[string]func(string) string{}
		for _, line := range strings.Split(string(data), "\n") {
			f := strings.Fields(line)
			if len(f) != 6 || f[0] != "rpc" {
				continue
			}
			var view []uint64
			ok := true
			for _, p := range strings.Split(f[1], ",") {
				e, err := strconv.ParseUint(p, 10, 64)
				if err != nil || w.les[e] == nil {
					ok = false
				}
				view = append(view, e)
			}
			if !ok {
				w.op(line, "unknown-epoch", false)
				continue
			}
			h := servers[f[1]]
			if h == nil {
				multi, err := w.bringUp(view, false, dir)
				if err != nil {
					t.Fatal(err)
				}
				handler := newMultiEpochHandler(multi, nil)
				h = func(body string) string { _, b := doRPC(handler, body); return b }
				servers[f[1]] = h
			}
			limN := 0
			if f[3] != "-" {
				limN, _ = strconv.Atoi(f[3])
			}
			w.request(h, view, f[2], f[3], f[4], f[5], limN)
		}
		return
	}

	// views: every non-empty subset of the generated epochs is loaded into its own server
	var views [][]uint64
	n := len(epochsDesc)
	for mask := 1; mask < 1<<n; mask++ {
		var v []uint64
		for i := 0; i < n; i++ {
			if mask&(1<<i) != 0 {
				v = append(v, epochsDesc[i])
			}
		}
		views = append(views, v)
	}
	sort.SliceStable(views, func(i, j int) bool { return len(views[i]) > len(views[j]) })
	for vi, view := range views {
		for _, sigOnly := range []bool{false, true} {
			if sigOnly && vi > 0 {
				continue
			}
			multi, err := w.bringUp(view, sigOnly, dir)
			if err != nil {
				t.Fatal(err)
			}
			handler := newMultiEpochHandler(multi, nil)
			h := func(body string) string { _, b := doRPC(handler, body); return b }
			for _, addr := range w.addrs {
				flat := w.flat(view, addr)
				if len(flat) == 0 && vi > 0 && addr != ghost {
					continue
				}
				// positions drawn from the history: all of them for short histories, boundary-directed otherwise
				pos := map[int]bool{}
				if (len(flat) <= 4 || zz.Thorough() && len(flat) <= 6) && vi == 0 && !sigOnly {
					for i := range flat {
						pos[i] = true
					}
				} else if len(flat) > 0 {
					pos[0], pos[len(flat)-1] = true, true
					// the entries on both sides of every epoch boundary
					for i := 1; i < len(flat); i++ {
						if flat[i].epoch != flat[i-1].epoch {
							pos[i], pos[i-1] = true, true
						}
					}
					for k := 0; k < 2; k++ {
						pos[rng.Intn(len(flat))] = true
					}
				}
				toks := []string{"-"}
				var ps []int
				for p := range pos {
					ps = append(ps, p)
				}
				sort.Ints(ps)
				for _, p := range ps {
					toks = append(toks, flat[p].sig)
				}
				// a signature that exists in the archive but not in this address's history
				for _, other := range w.addrs {
					if other == addr {
						continue
					}
					found := ""
					for _, it := range w.flat(view, other) {
						in := false
						for _, mine := range flat {
							if mine.sig == it.sig {
								in = true
							}
						}
						if !in {
							found = it.sig
							break
						}
					}
					if found != "" {
						toks = append(toks, found)
						break
					}
				}
				type lim struct {
					s string
					n int
				}
				lims := []lim{{"-", 0}, {"1", 1}, {"2", 2}, {"1000", 1000}}
				if vi == 0 && !sigOnly {
					lims = append(lims, lim{"0", 0}, lim{"-3", -3}, lim{"1001", 1001}, lim{fmt.Sprint(len(flat)), len(flat)}, lim{fmt.Sprint(len(flat) + 1), len(flat) + 1})
					if len(flat) > 3 {
						lims = append(lims, lim{fmt.Sprint(len(flat) - 1), len(flat) - 1}, lim{"3", 3})
					}
				}
				for _, b := range toks {
					for _, u := range toks {
						for _, l := range lims {
							if !zz.Thorough() && (vi > 0 || sigOnly) && rng.Intn(3) != 0 {
								continue
							}
							w.request(h, view, addr, l.s, b, u, l.n)
						}
					}
				}
			}
			s.Count(fmt.Sprintf("servers-with-%d-epochs", len(view)))
		}
	}
}

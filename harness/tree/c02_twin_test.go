package main

// C02 helper: an epoch that shares objects with another epoch.
//
// The shared fixture (epochgen_test.go) gives every transaction a unique metadata payload, so two generated epochs
// never contain the same object.  Real ledgers are not built that way: a DataFrame node holds nothing but a slice of
// a payload (hash of the whole payload, index, total, bytes, links), so two transactions with byte-identical
// metadata that is long enough to be split into several frames produce the SAME continuation DataFrames (same CID),
// whichever epochs they are in.  c02GenTwin builds such an epoch deliberately: its transactions are new (new keys,
// new signatures, own slots) but carry, byte for byte, the metadata payloads of transactions of a donor epoch, split
// into the same number of frames.  At least the last continuation frame of each such payload is then one object
// stored in both CAR files, at different offsets.

import (
	"bytes"
	"fmt"
	"os"
	"path/filepath"

	"github.com/gagliardetto/solana-go"
	"github.com/ipfs/go-cid"
	carv1 "github.com/ipld/go-car"
	"github.com/ipld/go-ipld-prime/datamodel"
	cidlink "github.com/ipld/go-ipld-prime/linking/cid"
	"github.com/rpcpool/yellowstone-faithful/ipld/ipldbindcode"
	"github.com/rpcpool/yellowstone-faithful/third_party/solana_proto/confirmed_block"
	"github.com/rpcpool/yellowstone-faithful/tooling"
	zz "github.com/rpcpool/yellowstone-faithful/zzverif"
	"google.golang.org/protobuf/proto"
)

func c02GenTwin(rng *zz.RNG, dir string, epoch uint64, donors []*gTx, keyBase byte) *gEpoch {
	ge := &gEpoch{Epoch: epoch, bySlot: map[uint64]*gBlock{}}
	ge.Keys = genKeys(4, keyBase)
	prog := solana.MustPublicKeyFromBase58("11111111111111111111111111111111")
	w := &carW{}
	slot := epoch * 432000
	parent := epoch*432000 - 1
	var blockLinks []datamodel.Link
	// donors in reverse order, after a first block with a transaction of its own: the shared frames do not sit at
	// the offsets they have in the donor's CAR
	var ds []*gTx
	for i := len(donors) - 1; i >= 0; i-- {
		ds = append(ds, donors[i])
	}
	di := 0
	nBlocks := (len(ds)+2)/3 + 2
	for b := 0; b < nBlocks; b++ {
		if b > 0 && rng.Intn(3) == 0 {
			slot += uint64(1 + rng.Intn(3))
		}
		gb := &gBlock{Slot: slot, Parent: parent, Time: 1600000000 + slot, Height: 5000 + uint64(b)}
		nTx := 3
		if b == 0 {
			nTx = 1
		}
		if b == nBlocks-1 {
			nTx = 0
		}
		var entryLinks, txLinks []datamodel.Link
		for t := 0; t < nTx; t++ {
			var donor *gTx
			if b > 0 && di < len(ds) {
				donor = ds[di]
				di++
			}
			payer := ge.Keys[rng.Intn(len(ge.Keys))]
			other := ge.Keys[rng.Intn(len(ge.Keys))].PublicKey()
			ix := solana.NewInstruction(prog, solana.AccountMetaSlice{solana.Meta(payer.PublicKey()).WRITE().SIGNER(), solana.Meta(other).WRITE()}, rng.Bytes(4+rng.Intn(8)))
			var bh solana.Hash
			copy(bh[:], rng.Bytes(32))
			tx, err := solana.NewTransaction([]solana.Instruction{ix}, bh, solana.TransactionPayer(payer.PublicKey()))
			if err != nil {
				panic(err)
			}
			if _, err = tx.Sign(func(k solana.PublicKey) *solana.PrivateKey {
				if k == payer.PublicKey() {
					return &payer
				}
				return nil
			}); err != nil {
				panic(err)
			}
			raw, err := tx.MarshalBinary()
			if err != nil {
				panic(err)
			}
			gt := &gTx{Sig: tx.Signatures[0], Raw: raw, Pos: t, Slot: slot, Accounts: tx.Message.AccountKeys, Frames: 1}
			k := 1
			if donor != nil {
				gt.Meta = append([]byte(nil), donor.Meta...)
				gt.Failed = donor.Failed
				gt.Loaded = donor.Loaded
				k = donor.Frames
				gt.Frames = k
			} else {
				meta := &confirmed_block.TransactionStatusMeta{Fee: 5000 + uint64(rng.Intn(100)), PreBalances: []uint64{1, 2, 3}, PostBalances: []uint64{1, 2, 3},
					LogMessages: []string{fmt.Sprintf("twin %x", rng.Bytes(12))}}
				gt.Meta, err = proto.Marshal(meta)
				if err != nil {
					panic(err)
				}
			}
			metaZ, _ := tooling.CompressZstd(gt.Meta)
			txNode := ipldbindcode.Transaction{
				Kind:     0,
				Data:     w.frames(raw, 1, 5),
				Metadata: w.frames(metaZ, k, 1+rng.Intn(5)),
				Slot:     int(slot),
				Index:    pp(t),
			}
			enc, err := txNode.MarshalCBOR()
			if err != nil {
				panic(err)
			}
			gt.Cid = w.put(enc)
			txLinks = append(txLinks, cidlink.Link{Cid: gt.Cid})
			gb.Txs = append(gb.Txs, gt)
			if len(txLinks) == 2 || t == nTx-1 {
				h := rng.Bytes(32)
				e := ipldbindcode.Entry{Kind: 1, NumHashes: 1 + rng.Intn(100), Hash: h, Transactions: txLinks}
				enc, err := e.MarshalCBOR()
				if err != nil {
					panic(err)
				}
				entryLinks = append(entryLinks, cidlink.Link{Cid: w.put(enc)})
				gb.LastEntryHash = h
				txLinks = nil
			}
		}
		if len(entryLinks) == 0 {
			h := rng.Bytes(32)
			e := ipldbindcode.Entry{Kind: 1, NumHashes: 7, Hash: h, Transactions: nil}
			enc, _ := e.MarshalCBOR()
			entryLinks = append(entryLinks, cidlink.Link{Cid: w.put(enc)})
			gb.LastEntryHash = h
		}
		gb.NumEntries = len(entryLinks)
		blk := ipldbindcode.Block{
			Kind: 2, Slot: int(gb.Slot),
			Shredding: []ipldbindcode.Shredding{{EntryEndIdx: 0, ShredEndIdx: 0}},
			Entries:   entryLinks,
			Meta:      ipldbindcode.SlotMeta{Parent_slot: int(gb.Parent), Blocktime: int(gb.Time), Block_height: pp(int(gb.Height))},
			Rewards:   cidlink.Link{Cid: DummyCID},
		}
		enc, err := blk.MarshalCBOR()
		if err != nil {
			panic(err)
		}
		gb.Cid = w.put(enc)
		blockLinks = append(blockLinks, cidlink.Link{Cid: gb.Cid})
		ge.Blocks = append(ge.Blocks, gb)
		ge.bySlot[gb.Slot] = gb
		parent = slot
		slot++
	}
	sub := ipldbindcode.Subset{Kind: 3, First: int(ge.Blocks[0].Slot), Last: int(ge.Blocks[len(ge.Blocks)-1].Slot), Blocks: blockLinks}
	enc, _ := sub.MarshalCBOR()
	subCid := w.put(enc)
	ep := ipldbindcode.Epoch{Kind: 4, Epoch: int(epoch), Subsets: []datamodel.Link{cidlink.Link{Cid: subCid}}}
	enc, _ = ep.MarshalCBOR()
	ge.Root = w.put(enc)

	var out bytes.Buffer
	if err := carv1.WriteHeader(&carv1.CarHeader{Roots: []cid.Cid{ge.Root}, Version: 1}, &out); err != nil {
		panic(err)
	}
	ge.HdrLen = uint64(out.Len())
	out.Write(w.buf.Bytes())
	for _, ob := range w.objs {
		ob.Offset += ge.HdrLen
	}
	ge.Objs = w.objs
	ge.CarData = out.Bytes()
	ge.Car = filepath.Join(dir, fmt.Sprintf("epoch-%d.car", epoch))
	if err := os.WriteFile(ge.Car, ge.CarData, 0o644); err != nil {
		panic(err)
	}
	return ge
}

// c02Donors: up to `max` multi-frame transactions of an epoch, each metadata payload once
func c02Donors(ge *gEpoch, max int) []*gTx {
	var out []*gTx
	for _, b := range ge.Blocks {
		for _, t := range b.Txs {
			if t.Frames > 1 && len(out) < max {
				out = append(out, t)
			}
		}
	}
	return out
}

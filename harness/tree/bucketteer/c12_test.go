package bucketteer

// C12 harness for the signature-existence index reader (injected by /verif/check with `go test -overlay`; nothing is
// written to /repo).
//
//	bkt <file hex> <sig hex>    NewReader(bytes.NewReader(file)); when it opens: Meta(), Has(sig), Has of signatures
//	                            with the first and last prefix.   Answer: err | ok <Has(sig): t, f or e(rror)>
//
// Valid files: the real Writer always emits all 65536 prefixes (a 1.2 MB file); it is used once, with the header fields
// mutated.  The bulk of the structure-aware mutation runs on small files laid out exactly like the writer's
// (u32 header size ‖ "buckette" ‖ u64 version ‖ meta ‖ u64 numPrefixes ‖ (u16 prefix ‖ u64 offset)* ‖ buckets of
// u32 count ‖ u64 hash*, hashes in the writer's own eytzinger order) with 1..40 prefixes.

import (
	"bytes"
	"encoding/binary"
	"os"
	"path/filepath"
	"sort"
	"strings"
	"testing"

	"github.com/rpcpool/yellowstone-faithful/indexmeta"
	c12 "github.com/rpcpool/yellowstone-faithful/zzc12"
	zz "github.com/rpcpool/yellowstone-faithful/zzverif"
)

func c12ExecBkt(op string) string {
	w := strings.Fields(op)
	switch w[0] {
	case "bkt":
		data, sigb := zz.Unhex(w[1]), zz.Unhex(w[2])
		r, err := NewReader(bytes.NewReader(data))
		if err != nil {
			return "err"
		}
		var sig [64]byte
		copy(sig[:], sigb)
		r.Meta()
		has, herr := r.Has(sig)
		sig[0], sig[1] = 0, 0
		r.Has(sig)
		sig[0], sig[1] = 0xff, 0xff
		r.Has(sig)
		r.Close()
		switch {
		case herr != nil:
			return "ok e"
		case has:
			return "ok t"
		}
		return "ok f"
	}
	return "bad-op"
}

type c12BktFile struct {
	data   []byte
	sigs   [][64]byte
	fields []c12.Field
}

func c12SmallBkt(rng *zz.RNG, nprefix, perBucket, nmeta int) c12BktFile {
	var out c12BktFile
	var meta indexmeta.Meta
	for i := 0; i < nmeta; i++ {
		meta.Add(rng.Bytes(1+rng.Intn(5)), rng.Bytes(rng.Intn(10)))
	}
	prefixes := map[uint16][]uint64{}
	var order []uint16
	for len(order) < nprefix {
		p := uint16(rng.U64())
		if _, ok := prefixes[p]; ok {
			continue
		}
		order = append(order, p)
		prefixes[p] = nil
		for j := 0; j < perBucket; j++ {
			var sig [64]byte
			copy(sig[:], rng.Bytes(64))
			binary.LittleEndian.PutUint16(sig[:2], p)
			out.sigs = append(out.sigs, sig)
			prefixes[p] = append(prefixes[p], Hash(sig))
		}
	}
	sort.Slice(order, func(i, j int) bool { return order[i] < order[j] })
	var content bytes.Buffer
	offsets := map[uint16]uint64{}
	countOff := map[uint16]int{}
	for _, p := range order {
		entries := getCleanSet(prefixes[p])
		sortWithCompare(entries, func(i, j int) int {
			if entries[i] < entries[j] {
				return -1
			} else if entries[i] > entries[j] {
				return 1
			}
			return 0
		})
		offsets[p] = uint64(content.Len())
		countOff[p] = content.Len()
		binary.Write(&content, binary.LittleEndian, uint32(len(entries)))
		for _, h := range entries {
			binary.Write(&content, binary.LittleEndian, h)
		}
	}
	var hdr bytes.Buffer
	hdr.Write(_Magic[:])
	binary.Write(&hdr, binary.LittleEndian, Version)
	metaOff := 4 + hdr.Len()
	hdr.Write(meta.Bytes())
	numOff := 4 + hdr.Len()
	binary.Write(&hdr, binary.LittleEndian, uint64(len(order)))
	tableOff := 4 + hdr.Len()
	for _, p := range order {
		binary.Write(&hdr, binary.LittleEndian, p)
		binary.Write(&hdr, binary.LittleEndian, offsets[p])
	}
	var file bytes.Buffer
	binary.Write(&file, binary.LittleEndian, uint32(hdr.Len()))
	file.Write(hdr.Bytes())
	contentOff := file.Len()
	file.Write(content.Bytes())
	out.data = file.Bytes()
	out.fields = []c12.Field{
		{Name: "headerSize", Off: 0, Width: 4},
		{Name: "version", Off: 12, Width: 8},
		{Name: "metaCount", Off: metaOff, Width: 1},
		{Name: "numPrefixes", Off: numOff, Width: 8},
	}
	if nmeta > 0 {
		out.fields = append(out.fields, c12.Field{Name: "metaKeyLen0", Off: metaOff + 1, Width: 1})
	}
	for i, p := range order {
		if i == 0 || i == len(order)-1 {
			out.fields = append(out.fields,
				c12.Field{Name: "prefix", Off: tableOff + 10*i, Width: 2},
				c12.Field{Name: "bucketOffset", Off: tableOff + 10*i + 2, Width: 8},
				c12.Field{Name: "numHashes", Off: contentOff + countOff[p], Width: 4})
		}
	}
	return out
}

func c12GenBkt(dir string, rng *zz.RNG, s *zz.Session, thorough bool) []string {
	var ops []string
	type spec struct{ np, per, nm int }
	specs := []spec{{1, 1, 0}, {3, 4, 2}, {40, 9, 1}, {2, 0, 0}}
	if thorough {
		specs = append(specs, spec{300, 3, 3}, spec{5, 200, 1})
	}
	for _, sp := range specs {
		f := c12SmallBkt(rng, sp.np, sp.per, sp.nm)
		nb, nr := 150, 30
		if thorough {
			nb, nr = 600, 300
		}
		for mi, mu := range c12.Mutate(rng, f.data, f.fields, nb, nr, s.Count) {
			var sig [64]byte
			if len(f.sigs) > 0 && mi%4 != 3 {
				sig = f.sigs[mi%len(f.sigs)]
			} else {
				copy(sig[:], rng.Bytes(64))
			}
			ops = append(ops, "bkt "+zz.Hex(mu.Data)+" "+zz.Hex(sig[:]))
		}
		s.Count("valid-files")
	}
	// one file from the real writer, header fields mutated
	{
		path := filepath.Join(dir, "real.bkt")
		w, err := NewWriter(path)
		if err != nil {
			panic(err)
		}
		var sigs [][64]byte
		for i := 0; i < 200; i++ {
			var sig [64]byte
			copy(sig[:], rng.Bytes(64))
			sigs = append(sigs, sig)
			w.Put(sig)
		}
		var meta indexmeta.Meta
		meta.AddUint64(indexmeta.MetadataKey_Epoch, 7)
		if _, err := w.Seal(meta); err != nil {
			panic(err)
		}
		w.Close()
		data, err := os.ReadFile(path)
		if err != nil {
			panic(err)
		}
		ops = append(ops, "bkt "+zz.Hex(data)+" "+zz.Hex(sigs[0][:]))
		hs := int(binary.LittleEndian.Uint32(data))
		for _, v := range []uint32{0, 1, uint32(hs - 1), uint32(hs + 1), uint32(len(data)), 0xFFFFFFF0, 0xFFFFFFFF} {
			m := append([]byte(nil), data...)
			binary.LittleEndian.PutUint32(m, v)
			ops = append(ops, "bkt "+zz.Hex(m)+" "+zz.Hex(sigs[1][:]))
			s.Count("real-writer-file-mutants")
		}
		ops = append(ops, "bkt "+zz.Hex(data[:hs+3])+" "+zz.Hex(sigs[2][:]), "bkt "+zz.Hex(data[:hs+4])+" "+zz.Hex(sigs[2][:]))
	}
	// the 7-byte input with a header size of 0xFFFFFFF0 and its neighbours
	for _, v := range []uint32{0xFFFFFFF0, 0xFFFFFFFC, 0xFFFFFFFF, 0x7FFFFFFF, 3, 0} {
		b := make([]byte, 7)
		binary.LittleEndian.PutUint32(b, v)
		ops = append(ops, "bkt "+zz.Hex(b)+" 00", "bkt "+zz.Hex(b[:4])+" 00")
		s.Count("boundary:tiny-file-huge-header")
	}
	return ops
}

func TestVerifC12(t *testing.T) {
	if c12.IsChild() {
		c12.Serve(c12ExecBkt)
		return
	}
	r := c12.NewRun("TestVerifC12")
	defer r.Close()
	r.Print = func(op string, res c12.Result) string {
		if res.Class == "ok" || res.Class == "err" {
			return res.Answer
		}
		return res.Class
	}
	dir, err := os.MkdirTemp("", "verif-c12-bkt-")
	if err != nil {
		t.Fatal(err)
	}
	defer os.RemoveAll(dir)
	ops := c12.ReplayOps()
	if ops == nil {
		ops = c12GenBkt(dir, zz.NewRNG(zz.Seed()), r.S, zz.Thorough())
	}
	for _, op := range ops {
		r.Exec(op)
	}
}
